/-
  Hw.Topo.RestrictMerge — hwloc_filter_levels_keep_structure never removes a PU, keeps "PUs are leaves" and never replaces
  the root, proved through the LEVEL-WIDE guards of the C code (hwloc_compare_levels_structure: same parent/child pairing,
  arity 1, no memory children above the PU level; the merge decision: only KEEP_STRUCTURE types or Die below Package):
    * `links_spec`      what an entry of `linksT` says about the tree;
    * `pair_of_same`    from `sameStructure` on two homogeneous levels to the node-wise fact about every merged node;
    * `merge_pu`        the node-wise fact implies that `mergeT` keeps the PUs and their leafness;
    * `Jinv`            the invariant of the level loop (distinct gp_index, homogeneous levels whose stale copies still have the
                        types of the tree objects, the first level is the root);
    * `keepStructure_pu`: the result.
-/
import Hw.Topo.RestrictSurvive
namespace Hw.Topo.Restrict
open Hw.Topo Hw.Gen.Restrict

/-! ### normal sub-trees, their objects, their links -/

theorem nsub_obj_sublist :
    (∀ t, ((nsubT t).map (·.obj)).Sublist (objsT t)) ∧ (∀ l, ((nsubL l).map (·.obj)).Sublist (objsL l)) := by
  have hnode : ∀ o ns ms ios mis, ((nsubL ns).map (·.obj)).Sublist (objsL ns) → ((nsubL ms).map (·.obj)).Sublist (objsL ms) →
      ((nsubT (.node o ns ms ios mis)).map (·.obj)).Sublist (objsT (.node o ns ms ios mis)) := by
    intro o ns ms ios mis h1 _
    rw [nsubT, objsT]
    simp only [List.map_cons, Tree.obj]
    refine List.Sublist.cons_cons _ ?_
    exact (h1.trans (List.sublist_append_left _ _)).trans ((List.sublist_append_left _ _).trans (List.sublist_append_left _ _))
  have hnil : ((nsubL []).map (·.obj)).Sublist (objsL []) := by simp [nsubL, objsL]
  have hcons : ∀ t ts, ((nsubT t).map (·.obj)).Sublist (objsT t) → ((nsubL ts).map (·.obj)).Sublist (objsL ts) →
      ((nsubL (t :: ts)).map (·.obj)).Sublist (objsL (t :: ts)) := by
    intro t ts h1 h2
    rw [nsubL, objsL, List.map_append]
    exact List.Sublist.append h1 h2
  exact ⟨tree_indT hnode hnil hcons, tree_indL hnode hnil hcons⟩

theorem ncl_eq_nsub : (∀ t, nclT t = (nsubT t).map (·.obj)) ∧ (∀ l, nclL l = (nsubL l).map (·.obj)) := by
  have hnode : ∀ o ns ms ios mis, nclL ns = (nsubL ns).map (·.obj) → nclL ms = (nsubL ms).map (·.obj) →
      nclT (.node o ns ms ios mis) = (nsubT (.node o ns ms ios mis)).map (·.obj) := by
    intro o ns ms ios mis h1 _
    rw [nclT, nsubT, h1]; rfl
  have hnil : nclL [] = (nsubL []).map (·.obj) := by simp [nclL, nsubL]
  have hcons : ∀ t ts, nclT t = (nsubT t).map (·.obj) → nclL ts = (nsubL ts).map (·.obj) →
      nclL (t :: ts) = (nsubL (t :: ts)).map (·.obj) := by
    intro t ts h1 h2; rw [nclL, nsubL, List.map_append, h1, h2]
  exact ⟨tree_indT hnode hnil hcons, tree_indL hnode hnil hcons⟩

theorem nsub_mem_objs (t N : Tree) (h : N ∈ nsubT t) : N.obj ∈ objsT t :=
  (nsub_obj_sublist.1 t).subset (List.mem_map_of_mem h)

/-- distinct gp_index over all objects ⇒ two normal sub-trees with the same gp_index are the same sub-tree -/
theorem nsub_inj (t : Tree) (hn : ((objsT t).map (·.gp)).Nodup) {A B : Tree} (hA : A ∈ nsubT t) (hB : B ∈ nsubT t)
    (e : A.obj.gp = B.obj.gp) : A = B := by
  have h1 : (((nsubT t).map (·.obj)).map (·.gp)).Nodup := ((nsub_obj_sublist.1 t).map (·.gp)).nodup hn
  rw [List.map_map] at h1
  exact inj_of_nodup_map h1 hA hB e

theorem nsubT_child (t P C : Tree) (hP : P ∈ nsubT t) (hC : C ∈ P.ns) : C ∈ nsubT t := by
  have := (nsub_closed.1 t) P hP
  exact this C (nsubL_mem_of_mem _ C hC C (nsubT_self C))

/-- **what a link says**: every entry of `linksT par t` describes a normal sub-tree `M` of `t` (its gp_index, arity and
    memory arity), and its parent field is `par` for `t` itself and the gp_index of the sub-tree that has `M` as a child otherwise -/
theorem links_spec :
    (∀ t, ∀ par, ∀ l ∈ linksT par t, ∃ M ∈ nsubT t, l.gp = M.obj.gp ∧ l.arity = M.ns.length ∧ l.marity = M.ms.length ∧
        ((M = t ∧ l.parent = par) ∨ ∃ P ∈ nsubT t, M ∈ P.ns ∧ l.parent = some P.obj.gp)) ∧
    (∀ ts, ∀ par, ∀ l ∈ linksL par ts, ∃ M ∈ nsubL ts, l.gp = M.obj.gp ∧ l.arity = M.ns.length ∧ l.marity = M.ms.length ∧
        ((M ∈ ts ∧ l.parent = par) ∨ ∃ P ∈ nsubL ts, M ∈ P.ns ∧ l.parent = some P.obj.gp)) := by
  have hnode : ∀ o ns ms ios mis,
      (∀ par, ∀ l ∈ linksL par ns, ∃ M ∈ nsubL ns, l.gp = M.obj.gp ∧ l.arity = M.ns.length ∧ l.marity = M.ms.length ∧
        ((M ∈ ns ∧ l.parent = par) ∨ ∃ P ∈ nsubL ns, M ∈ P.ns ∧ l.parent = some P.obj.gp)) →
      (∀ par, ∀ l ∈ linksL par ms, ∃ M ∈ nsubL ms, l.gp = M.obj.gp ∧ l.arity = M.ns.length ∧ l.marity = M.ms.length ∧
        ((M ∈ ms ∧ l.parent = par) ∨ ∃ P ∈ nsubL ms, M ∈ P.ns ∧ l.parent = some P.obj.gp)) →
      (∀ par, ∀ l ∈ linksT par (.node o ns ms ios mis), ∃ M ∈ nsubT (.node o ns ms ios mis),
        l.gp = M.obj.gp ∧ l.arity = M.ns.length ∧ l.marity = M.ms.length ∧
        ((M = .node o ns ms ios mis ∧ l.parent = par) ∨
          ∃ P ∈ nsubT (.node o ns ms ios mis), M ∈ P.ns ∧ l.parent = some P.obj.gp)) := by
    intro o ns ms ios mis h1 _ par l hl
    rw [linksT, List.mem_cons] at hl
    rcases hl with hl | hl
    · subst hl
      exact ⟨_, nsubT_self _, rfl, rfl, rfl, Or.inl ⟨rfl, rfl⟩⟩
    · obtain ⟨M, hM, e1, e2, e3, h⟩ := h1 (some o.gp) l hl
      have hM' : M ∈ nsubT (.node o ns ms ios mis) := by rw [nsubT]; exact List.mem_cons_of_mem _ hM
      refine ⟨M, hM', e1, e2, e3, Or.inr ?_⟩
      rcases h with ⟨hm, hp⟩ | ⟨P, hP, hMP, hp⟩
      · exact ⟨_, nsubT_self _, hm, hp⟩
      · exact ⟨P, by rw [nsubT]; exact List.mem_cons_of_mem _ hP, hMP, hp⟩
  have hnil : ∀ par, ∀ l ∈ linksL par [], ∃ M ∈ nsubL [], l.gp = M.obj.gp ∧ l.arity = M.ns.length ∧ l.marity = M.ms.length ∧
      ((M ∈ ([] : List Tree) ∧ l.parent = par) ∨ ∃ P ∈ nsubL [], M ∈ P.ns ∧ l.parent = some P.obj.gp) := by
    intro par l hl; rw [linksL] at hl; cases hl
  have hcons : ∀ t ts,
      (∀ par, ∀ l ∈ linksT par t, ∃ M ∈ nsubT t, l.gp = M.obj.gp ∧ l.arity = M.ns.length ∧ l.marity = M.ms.length ∧
        ((M = t ∧ l.parent = par) ∨ ∃ P ∈ nsubT t, M ∈ P.ns ∧ l.parent = some P.obj.gp)) →
      (∀ par, ∀ l ∈ linksL par ts, ∃ M ∈ nsubL ts, l.gp = M.obj.gp ∧ l.arity = M.ns.length ∧ l.marity = M.ms.length ∧
        ((M ∈ ts ∧ l.parent = par) ∨ ∃ P ∈ nsubL ts, M ∈ P.ns ∧ l.parent = some P.obj.gp)) →
      (∀ par, ∀ l ∈ linksL par (t :: ts), ∃ M ∈ nsubL (t :: ts), l.gp = M.obj.gp ∧ l.arity = M.ns.length ∧ l.marity = M.ms.length ∧
        ((M ∈ t :: ts ∧ l.parent = par) ∨ ∃ P ∈ nsubL (t :: ts), M ∈ P.ns ∧ l.parent = some P.obj.gp)) := by
    intro t ts h1 h2 par l hl
    rw [linksL, List.mem_append] at hl
    rw [nsubL]
    rcases hl with hl | hl
    · obtain ⟨M, hM, e1, e2, e3, h⟩ := h1 par l hl
      refine ⟨M, List.mem_append_left _ hM, e1, e2, e3, ?_⟩
      rcases h with ⟨hm, hp⟩ | ⟨P, hP, hMP, hp⟩
      · exact Or.inl ⟨by rw [hm]; exact List.mem_cons_self, hp⟩
      · exact Or.inr ⟨P, List.mem_append_left _ hP, hMP, hp⟩
    · obtain ⟨M, hM, e1, e2, e3, h⟩ := h2 par l hl
      refine ⟨M, List.mem_append_right _ hM, e1, e2, e3, ?_⟩
      rcases h with ⟨hm, hp⟩ | ⟨P, hP, hMP, hp⟩
      · exact Or.inl ⟨List.mem_cons_of_mem _ hm, hp⟩
      · exact Or.inr ⟨P, List.mem_append_right _ hP, hMP, hp⟩
  exact ⟨tree_indT hnode hnil hcons, tree_indL hnode hnil hcons⟩

theorem findLink_some {ls : List Link} {g : Nat} {l : Link} (h : findLink ls g = some l) : l ∈ ls ∧ l.gp = g := by
  unfold findLink at h
  exact ⟨List.mem_of_find?_eq_some h, by simpa using List.find?_some h⟩

/-! ### from the level-wide comparison to the merged nodes -/

/-- **node-wise consequence of hwloc_compare_levels_structure**: when the objects have distinct gp_index and levels `up` / `down`
    have the same structure, every sub-tree `N` whose root is listed in `up` and has a single normal child `C` has `C` listed in
    `down`, and no memory children when `down` is the PU level -/
theorem pair_of_same (T : Tree) (hn : ((objsT T).map (·.gp)).Nodup) (up down : List RObj)
    (hs : sameStructure (linksT none T) up down = true)
    (N : Tree) (hN : N ∈ nsubT T) (hps : (up.map (·.gp)).contains N.obj.gp = true) (C : Tree) (hC : N.ns = [C]) :
    ∃ d ∈ down, d.gp = C.obj.gp ∧ (((down.head?.map (·.type)) == some tPU) = true → N.ms = []) := by
  unfold sameStructure at hs
  simp only [Bool.and_eq_true, beq_iff_eq, List.all_eq_true] at hs
  obtain ⟨hlen, hall⟩ := hs
  have hmem : N.obj.gp ∈ up.map (·.gp) := by simpa using hps
  obtain ⟨u, hu, hug⟩ := List.mem_map.1 hmem
  obtain ⟨j, hj⟩ := List.mem_iff_getElem?.1 hu
  have hjlt : j < down.length := by
    have := (List.getElem?_eq_some_iff.1 hj).1
    omega
  have hd : down[j]? = some down[j] := List.getElem?_eq_getElem hjlt
  have hz : (up.zip down)[j]? = some (u, down[j]) := List.getElem?_zip_eq_some.2 ⟨hj, hd⟩
  have h := hall (u, down[j]) (List.mem_of_getElem? hz)
  simp only [] at h
  cases hlu : findLink (linksT none T) u.gp with
  | none => rw [hlu] at h; simp at h
  | some lu =>
    cases hld : findLink (linksT none T) down[j].gp with
    | none => rw [hlu, hld] at h; simp at h
    | some ld =>
      rw [hlu, hld] at h
      simp only [Bool.and_eq_true, beq_iff_eq, Bool.not_eq_true', Bool.and_eq_false_iff, bne_eq_false_iff_eq] at h
      obtain ⟨⟨hpar, _⟩, hmemo⟩ := h
      obtain ⟨hlum, hlug⟩ := findLink_some hlu
      obtain ⟨hldm, hldg⟩ := findLink_some hld
      -- the link of `u` is the link of `N`
      obtain ⟨Mu, hMu, eu1, _, eu3, _⟩ := links_spec.1 T none lu hlum
      have hMuN : Mu = N := nsub_inj T hn hMu hN (by rw [← eu1, hlug, hug])
      -- the link of `d` is the link of a child of `N`
      obtain ⟨Md, hMd, ed1, _, _, hcase⟩ := links_spec.1 T none ld hldm
      have hchild : Md = C := by
        rcases hcase with ⟨_, hp⟩ | ⟨P, hP, hMP, hp⟩
        · rw [hp] at hpar; cases hpar
        · rw [hp] at hpar
          have hPN : P = N := nsub_inj T hn hP hN (by rw [← hug]; exact Option.some.inj hpar)
          rw [hPN, hC] at hMP
          exact List.mem_singleton.1 hMP
      refine ⟨down[j], List.getElem_mem hjlt, by rw [← hldg, ed1, hchild], ?_⟩
      intro hpu
      rcases hmemo with h1 | h1
      · rw [hpu] at h1; cases h1
      · rw [hMuN] at eu3
        rw [eu3] at h1
        exact List.eq_nil_of_length_eq_zero h1

/-! ### the node-wise guard keeps the PUs and their leafness through `mergeT` -/

/-- the guard at a merged node with a single normal child `C`: a PU is never the child that is dropped, and a PU never replaces a
    parent that has memory children -/
def QN (rc : Bool) (N : Tree) : Prop :=
  ∀ C, N.ns = [C] → (rc = true → C.obj.type ≠ tPU) ∧ (rc = false → C.obj.type = tPU → N.ms = [])

theorem puLeafT_node (o : RObj) (ns ms ios mis : List Tree) : puLeafT (.node o ns ms ios mis) = true ↔
    ((o.type = tPU → ns = [] ∧ ms = []) ∧ puLeafL ns = true ∧ puLeafL ms = true ∧ puLeafL ios = true ∧ puLeafL mis = true) := by
  rw [puLeafT]
  simp only [Bool.and_eq_true, Bool.or_eq_true, bne_iff_ne, ne_eq, List.isEmpty_iff]
  constructor
  · rintro ⟨⟨⟨⟨h1, h2⟩, h3⟩, h4⟩, h5⟩
    exact ⟨fun e => h1.resolve_left (fun h => h e), h2, h3, h4, h5⟩
  · rintro ⟨h1, h2, h3, h4, h5⟩
    refine ⟨⟨⟨⟨?_, h2⟩, h3⟩, h4⟩, h5⟩
    by_cases e : o.type = tPU
    · exact Or.inr (h1 e)
    · exact Or.inl e

theorem puLeafL_iff' (l : List Tree) : puLeafL l = true ↔ ∀ t ∈ l, puLeafT t = true := by
  induction l with
  | nil => simp [puLeafL]
  | cons a as ih =>
    rw [puLeafL]
    simp only [Bool.and_eq_true, ih, List.mem_cons, forall_eq_or_imp]

theorem puLeafL_append {a b : List Tree} (ha : puLeafL a = true) (hb : puLeafL b = true) : puLeafL (a ++ b) = true := by
  rw [puLeafL_iff'] at ha hb ⊢
  intro t ht
  rcases List.mem_append.1 ht with h | h
  · exact ha t h
  · exact hb t h

theorem puLeafL_perm {a b : List Tree} (h : a.Perm b) (ha : puLeafL a = true) : puLeafL b = true := by
  rw [puLeafL_iff'] at ha ⊢
  exact fun t ht => ha t (h.mem_iff.2 ht)

theorem puLeafT_withMs (t : Tree) (mm : List Tree) (h : mm.Perm t.ms) (hl : puLeafT t = true) : puLeafT (withMs t mm) = true := by
  cases t with
  | node o ns ms ios mis =>
    simp only [withMs, Tree.ms] at h ⊢
    rw [puLeafT_node] at hl ⊢
    refine ⟨fun e => ⟨(hl.1 e).1, ?_⟩, hl.2.1, puLeafL_perm h.symm hl.2.2.1, hl.2.2.2⟩
    have := (hl.1 e).2
    rw [this] at h
    exact h.eq_nil

section mergepu
variable {α : Type} [DecidableEq α] (f : RObj → α) (a : α)

theorem merge_pu_node (hfa : ∀ x, f x = a → x.type = tPU) (rc : Bool) (o : RObj) (ns ms ios mis : List Tree)
    (hl : puLeafT (.node o ns ms ios mis) = true) (hq : QN rc (.node o ns ms ios mis)) :
    puLeafT (mergeNode rc o ns ms ios mis) = true ∧
    cnt f a (objsT (mergeNode rc o ns ms ios mis)) = cnt f a (objsT (.node o ns ms ios mis)) := by
  cases ns with
  | nil => exact ⟨hl, rfl⟩
  | cons c rest =>
    cases c with
    | node co cns cms cios cmis =>
      cases rest with
      | cons c2 r2 => exact ⟨hl, rfl⟩
      | nil =>
        obtain ⟨q1, q2⟩ := hq _ rfl
        simp only [Tree.obj, Tree.ms] at q1 q2
        rw [puLeafT_node] at hl
        obtain ⟨l0, l1, l2, l3, l4⟩ := hl
        have hco : puLeafT (.node co cns cms cios cmis) = true := (puLeafL_iff' _).1 l1 _ List.mem_cons_self
        rw [puLeafT_node] at hco
        obtain ⟨c0, c1, c2, c3, c4⟩ := hco
        have hoty : o.type ≠ tPU := fun e => by have := (l0 e).1; cases this
        have z2 : cnt1 f a (absorbIf ms o co) = cnt1 f a co := by
          by_cases hc : co.type = tPU
          · cases rc with
            | true => exact absurd hc (q1 rfl)
            | false =>
              have := q2 rfl hc
              subst this
              rfl
          · rw [cnt1_zero f a (fun h => hc (hfa _ h)), cnt1_zero f a (fun h => hc (by rw [← absorbIf_type ms o co]; exact hfa _ h))]
        constructor
        · rw [mergeNode_eq]
          apply puLeafT_withMs _ _ (newMs_perm rc o _ ms ios mis)
          show puLeafT (.node (if rc = true then o else absorbIf ms o co) cns (ms ++ cms) (ios ++ cios) (mis ++ cmis)) = true
          rw [puLeafT_node]
          refine ⟨?_, c1, puLeafL_append l2 c2, puLeafL_append l3 c3, puLeafL_append l4 c4⟩
          intro e
          cases rc with
          | true => simp only [if_true] at e; exact absurd e hoty
          | false =>
            simp only [Bool.false_eq_true, if_false, absorbIf_type] at e
            have := c0 e
            rw [q2 rfl e, this.2]
            exact ⟨this.1, rfl⟩
        · rw [cnt_perm f a (objsT_mergeNode_perm rc o _ ms ios mis)]
          show cnt f a (objsT (.node (if rc = true then o else absorbIf ms o co) cns (ms ++ cms) (ios ++ cios) (mis ++ cmis))) = _
          have z1 : cnt1 f a o = 0 := cnt1_zero f a (fun h => hoty (hfa _ h))
          cases rc with
          | true =>
            have z3 : cnt1 f a co = 0 := cnt1_zero f a (fun h => q1 rfl (hfa _ h))
            simp only [objsT, objsL, objsL_append, List.append_nil, cnt_cons1, cnt_append, if_true]
            omega
          | false =>
            simp only [objsT, objsL, objsL_append, List.append_nil, cnt_cons1, cnt_append, if_false, Bool.false_eq_true]
            omega

mutual
theorem merge_puT (hfa : ∀ x, f x = a → x.type = tPU) (ps : List Nat) (rc : Bool) :
    ∀ t, typedT t = true → puLeafT t = true → (∀ N ∈ nsubT t, ps.contains N.obj.gp = true → QN rc N) →
      puLeafT (mergeT ps rc t) = true ∧ cnt f a (objsT (mergeT ps rc t)) = cnt f a (objsT t)
  | .node o ns ms ios mis => by
    intro ht hl hq
    rw [mergeT]
    split
    · rename_i hc
      exact merge_pu_node f a hfa rc o ns ms ios mis hl (hq _ (nsubT_self _) hc)
    · obtain ⟨_, _, _, _, t1, _, _, _⟩ := typedT_node o ns ms ios mis ht
      have hl' := (puLeafT_node o ns ms ios mis).1 hl
      have ih := merge_puL hfa ps rc ns t1 hl'.2.1 (fun N hN => hq N (by rw [nsubT]; exact List.mem_cons_of_mem _ hN))
      constructor
      · rw [puLeafT_node]
        refine ⟨fun e => ⟨?_, (hl'.1 e).2⟩, ih.1, hl'.2.2⟩
        rw [(hl'.1 e).1, mergeL]
      · simp only [objsT]
        have e1 := cnt_cons f a o (objsL (mergeL ps rc ns) ++ objsL ms ++ objsL ios ++ objsL mis)
        have e2 := cnt_cons f a o (objsL ns ++ objsL ms ++ objsL ios ++ objsL mis)
        simp only [cnt_append] at e1 e2
        have := ih.2
        omega
theorem merge_puL (hfa : ∀ x, f x = a → x.type = tPU) (ps : List Nat) (rc : Bool) :
    ∀ l, typedL isNormal l = true → puLeafL l = true → (∀ N ∈ nsubL l, ps.contains N.obj.gp = true → QN rc N) →
      puLeafL (mergeL ps rc l) = true ∧ cnt f a (objsL (mergeL ps rc l)) = cnt f a (objsL l)
  | [] => by intro _ _ _; rw [mergeL]; exact ⟨rfl, rfl⟩
  | t :: ts => by
    intro ht hl hq
    rw [typedL] at ht
    simp only [Bool.and_eq_true] at ht
    rw [puLeafL] at hl
    simp only [Bool.and_eq_true] at hl
    have h1 := merge_puT hfa ps rc t ht.1.2 hl.1 (fun N hN => hq N (by rw [nsubL]; exact List.mem_append_left _ hN))
    have h2 := merge_puL hfa ps rc ts ht.2 hl.2 (fun N hN => hq N (by rw [nsubL]; exact List.mem_append_right _ hN))
    rw [mergeL]
    constructor
    · rw [puLeafL]; simp only [Bool.and_eq_true]; exact ⟨h1.1, h2.1⟩
    · simp only [objsL, cnt_append]; rw [h1.2, h2.2]
end

end mergepu

/-! ### the invariant of the level loop -/

structure Jinv (T : Tree) (Ls : List (List RObj)) : Prop where
  nod : ((objsT T).map (·.gp)).Nodup
  hom : ∀ lv ∈ Ls, ∀ a ∈ lv, ∀ b ∈ lv, a.type = b.type
  ty : ∀ lv ∈ Ls, ∀ d ∈ lv, ∀ x ∈ objsT T, x.gp = d.gp → x.type = d.type
  typed : typedT T = true
  rootN : isNormal T.obj.type = true
  leaf : puLeafT T = true
  r0 : Ls[0]? = some [T.obj]
  rj : ∀ j lv, 1 ≤ j → Ls[j]? = some lv → ∀ d ∈ lv, d.gp ≠ T.obj.gp

theorem mergeDecision_heads (filters : List Nat) (up down : List RObj) (rc : Bool) (h : mergeDecision filters up down = some rc) :
    ∃ o1 o2, up.head? = some o1 ∧ down.head? = some o2 := by
  unfold mergeDecision at h
  split at h
  · rename_i o1 o2 h1 h2; exact ⟨o1, o2, h1, h2⟩
  · cases h

theorem mem_of_head? {α : Type} {l : List α} {x : α} (h : l.head? = some x) : x ∈ l := by
  cases l with
  | nil => cases h
  | cons y ys => simp only [List.head?_cons, Option.some.injEq] at h; rw [h]; exact List.mem_cons_self

theorem mergeNode_true_obj (o : RObj) (ns ms ios mis : List Tree) : (mergeNode true o ns ms ios mis).obj = o := by
  rw [mergeNode_eq, obj_withMs]
  unfold mergeNode0
  split <;> rfl

theorem J_merge (filters : List Nat) (hPU : filterOf filters tPU ≠ filterKeepStructure) (T : Tree) (Ls : List (List RObj))
    (hJ : Jinv T Ls) (hRoot : filterOf filters T.obj.type ≠ filterKeepStructure) (i : Nat) (hi : 1 ≤ i) (up down : List RObj)
    (hup : Ls[i - 1]? = some up) (hdown : Ls[i]? = some down) (rc : Bool) (hdec : mergeDecision filters up down = some rc)
    (hs : sameStructure (linksT none T) up down = true) :
    Jinv (mergeT (up.map (·.gp)) rc T) (if rc = true then Ls.eraseIdx i else Ls.eraseIdx (i - 1)) ∧
    (mergeT (up.map (·.gp)) rc T).obj = T.obj ∧
    (∀ {α : Type} [DecidableEq α] (f : RObj → α) (a : α), (∀ x, f x = a → x.type = tPU) →
      cnt f a (objsT (mergeT (up.map (·.gp)) rc T)) = cnt f a (objsT T)) := by
  obtain ⟨o1, o2, hh1, hh2⟩ := mergeDecision_heads filters up down rc hdec
  have hsound := mergeDecision_sound filters up down o1 o2 hh1 hh2
  have hupm : up ∈ Ls := List.mem_of_getElem? hup
  have hdownm : down ∈ Ls := List.mem_of_getElem? hdown
  have ho2 : o2 ∈ down := mem_of_head? hh2
  -- the node-wise guard
  have hQ : ∀ N ∈ nsubT T, (up.map (·.gp)).contains N.obj.gp = true → QN rc N := by
    intro N hN hc C hC
    obtain ⟨d, hd, hdg, hmem⟩ := pair_of_same T hJ.nod up down hs N hN hc C hC
    have hCobj : C.obj ∈ objsT T := nsub_mem_objs T C (nsubT_child T N C hN (by rw [hC]; exact List.mem_singleton.2 rfl))
    have hty : C.obj.type = d.type := hJ.ty down hdownm d hd C.obj hCobj hdg.symm
    have hd2 : d.type = o2.type := hJ.hom down hdownm d hd o2 ho2
    constructor
    · intro hrc hCpu
      subst hrc
      rcases hsound.1 hdec with h | ⟨_, h⟩
      · rw [← hd2, ← hty, hCpu] at h; exact hPU h
      · rw [← hd2, ← hty, hCpu] at h; revert h; decide
    · intro _ hCpu
      apply hmem
      rw [hh2]
      simp only [Option.map_some, beq_iff_eq, Option.some.injEq]
      rw [← hd2, ← hty, hCpu]
  -- `rc = false` is impossible against the root level
  have hrcfalse : rc = false → 2 ≤ i := by
    intro hrc
    subst hrc
    cases Nat.lt_or_ge i 2 with
    | inr h => exact h
    | inl h =>
      exfalso
      have hi1 : i = 1 := by omega
      subst hi1
      rw [hJ.r0] at hup
      have : up = [T.obj] := (Option.some.inj hup).symm
      rw [this] at hh1
      simp only [List.head?_cons, Option.some.injEq] at hh1
      have := hsound.2 hdec
      rw [← hh1] at this
      exact hRoot this
  have hobj : (mergeT (up.map (·.gp)) rc T).obj = T.obj := by
    cases T with
    | node o ns ms ios mis =>
      rw [mergeT]
      split
      · rename_i hc
        cases rc with
        | true => exact mergeNode_true_obj o ns ms ios mis
        | false =>
          exfalso
          have h2 := hrcfalse rfl
          have hmem : o.gp ∈ up.map (·.gp) := by simpa using hc
          obtain ⟨u, hu, hug⟩ := List.mem_map.1 hmem
          exact hJ.rj (i - 1) up (by omega) hup u hu hug
      · rfl
  have hmerge := fun {α : Type} [DecidableEq α] (f : RObj → α) (a : α) (hfa : ∀ x, f x = a → x.type = tPU) =>
    merge_puT f a hfa (up.map (·.gp)) rc T hJ.typed hJ.leaf hQ
  have hleaf : puLeafT (mergeT (up.map (·.gp)) rc T) = true := (hmerge (fun x => x.type) tPU (fun _ h => h)).1
  have hsub : ∀ x ∈ objsT (mergeT (up.map (·.gp)) rc T), ∃ x0 ∈ objsT T, x0.gp = x.gp ∧ x0.type = x.type := by
    intro x hx
    have hpos : 0 < cnt (fun y => (y.gp, y.type)) (x.gp, x.type) (objsT (mergeT (up.map (·.gp)) rc T)) :=
      (cnt_pos_iff _ _ _).2 ⟨x, hx, rfl⟩
    have hle := cnt_mergeT (fun y => (y.gp, y.type)) (x.gp, x.type) (fun _ _ => rfl) (up.map (·.gp)) rc T
    obtain ⟨x0, hx0, e⟩ := (cnt_pos_iff _ _ _).1 (Nat.lt_of_lt_of_le hpos hle)
    simp only [Prod.mk.injEq] at e
    exact ⟨x0, hx0, e.1, e.2⟩
  have hLs' : ∀ lv ∈ (if rc = true then Ls.eraseIdx i else Ls.eraseIdx (i - 1)), lv ∈ Ls := by
    intro lv hlv
    split at hlv
    · exact List.mem_of_mem_eraseIdx hlv
    · exact List.mem_of_mem_eraseIdx hlv
  refine ⟨⟨?_, ?_, ?_, ((typed_merge _ _).1 T hJ.typed).1, ((typed_merge _ _).1 T hJ.typed).2 hJ.rootN, hleaf, ?_, ?_⟩, hobj,
    fun f a hfa => (hmerge f a hfa).2⟩
  · rw [List.nodup_iff_count]
    intro g
    have h1 := cnt_mergeT (fun y => y.gp) g (fun _ _ => rfl) (up.map (·.gp)) rc T
    have h2 := (List.nodup_iff_count.1 hJ.nod) g
    unfold cnt at h1
    omega
  · exact fun lv hlv => hJ.hom lv (hLs' lv hlv)
  · intro lv hlv d hd x hx hg
    obtain ⟨x0, hx0, e1, e2⟩ := hsub x hx
    rw [← e2]
    exact hJ.ty lv (hLs' lv hlv) d hd x0 hx0 (by rw [e1]; exact hg)
  · rw [hobj]
    cases rc with
    | true =>
      simp only [if_true]
      rw [List.getElem?_eraseIdx, if_pos (by omega)]
      exact hJ.r0
    | false =>
      have := hrcfalse rfl
      simp only [Bool.false_eq_true, if_false]
      rw [List.getElem?_eraseIdx, if_pos (by omega)]
      exact hJ.r0
  · intro j lv hj hlv d hd
    rw [hobj]
    cases rc with
    | true =>
      simp only [if_true] at hlv
      rw [List.getElem?_eraseIdx] at hlv
      split at hlv
      · exact hJ.rj j lv hj hlv d hd
      · exact hJ.rj (j + 1) lv (by omega) hlv d hd
    | false =>
      simp only [Bool.false_eq_true, if_false] at hlv
      rw [List.getElem?_eraseIdx] at hlv
      split at hlv
      · exact hJ.rj j lv hj hlv d hd
      · exact hJ.rj (j + 1) lv (by omega) hlv d hd

theorem J_ksStep (filters : List Nat) (hPU : filterOf filters tPU ≠ filterKeepStructure) (i : Nat) (hi : 1 ≤ i)
    (st : Tree × List (List RObj) × Bool) (hRoot : filterOf filters st.1.obj.type ≠ filterKeepStructure) (hJ : Jinv st.1 st.2.1) :
    Jinv (ksStep filters i st).1 (ksStep filters i st).2.1 ∧ (ksStep filters i st).1.obj = st.1.obj ∧
    (∀ {α : Type} [DecidableEq α] (f : RObj → α) (a : α), (∀ x, f x = a → x.type = tPU) →
      cnt f a (objsT (ksStep filters i st).1) = cnt f a (objsT st.1)) := by
  have triv : Jinv st.1 st.2.1 ∧ st.1.obj = st.1.obj ∧
      (∀ {α : Type} [DecidableEq α] (f : RObj → α) (a : α), (∀ x, f x = a → x.type = tPU) →
        cnt f a (objsT st.1) = cnt f a (objsT st.1)) := ⟨hJ, rfl, fun _ _ _ => rfl⟩
  unfold ksStep
  split
  · rename_i up down hup hdown
    split
    · exact triv
    · rename_i rc hdec
      split
      · rename_i hs
        exact J_merge filters hPU st.1 st.2.1 hJ hRoot i hi up down hup hdown rc hdec hs
      · exact triv
  · exact triv

theorem J_ksLoop (filters : List Nat) (hPU : filterOf filters tPU ≠ filterKeepStructure) :
    ∀ (i : Nat) (st : Tree × List (List RObj) × Bool), filterOf filters st.1.obj.type ≠ filterKeepStructure → Jinv st.1 st.2.1 →
    Jinv (ksLoop filters i st).1 (ksLoop filters i st).2.1 ∧ (ksLoop filters i st).1.obj = st.1.obj ∧
    (∀ {α : Type} [DecidableEq α] (f : RObj → α) (a : α), (∀ x, f x = a → x.type = tPU) →
      cnt f a (objsT (ksLoop filters i st).1) = cnt f a (objsT st.1))
  | 0, st, _, hJ => by rw [ksLoop]; exact ⟨hJ, rfl, fun _ _ _ => rfl⟩
  | i + 1, st, hR, hJ => by
    rw [ksLoop]
    have h1 := J_ksStep filters hPU (i + 1) (by omega) st hR hJ
    have h2 := J_ksLoop filters hPU i (ksStep filters (i + 1) st) (by rw [h1.2.1]; exact hR) h1.1
    exact ⟨h2.1, h2.2.1.trans h1.2.1, fun f a hfa => (h2.2.2 f a hfa).trans (h1.2.2 f a hfa)⟩

theorem typed_types_lt :
    (∀ t, typedT t = true → ∀ x ∈ objsT t, x.type < 20) ∧ (∀ l, ∀ k : Nat → Bool, typedL k l = true → ∀ x ∈ objsL l, x.type < 20) := by
  have hnode : ∀ o ns ms ios mis, (∀ k : Nat → Bool, typedL k ns = true → ∀ x ∈ objsL ns, x.type < 20) →
      (∀ k : Nat → Bool, typedL k ms = true → ∀ x ∈ objsL ms, x.type < 20) →
      (∀ k : Nat → Bool, typedL k ios = true → ∀ x ∈ objsL ios, x.type < 20) →
      (∀ k : Nat → Bool, typedL k mis = true → ∀ x ∈ objsL mis, x.type < 20) →
      (typedT (.node o ns ms ios mis) = true → ∀ x ∈ objsT (.node o ns ms ios mis), x.type < 20) := by
    intro o ns ms ios mis h1 h2 h3 h4 ht x hx
    obtain ⟨_, _, _, he, t1, t2, t3, t4⟩ := typedT_node o ns ms ios mis ht
    rw [objsT] at hx
    simp only [List.mem_cons, List.mem_append] at hx
    rcases hx with hx | (((hx | hx) | hx) | hx)
    · rw [hx]; exact he
    · exact h1 _ t1 x hx
    · exact h2 _ t2 x hx
    · exact h3 _ t3 x hx
    · exact h4 _ t4 x hx
  have hnil : ∀ k : Nat → Bool, typedL k [] = true → ∀ x ∈ objsL [], x.type < 20 := by
    intro _ _ x hx; simp [objsL] at hx
  have hcons : ∀ t ts, (typedT t = true → ∀ x ∈ objsT t, x.type < 20) →
      (∀ k : Nat → Bool, typedL k ts = true → ∀ x ∈ objsL ts, x.type < 20) →
      (∀ k : Nat → Bool, typedL k (t :: ts) = true → ∀ x ∈ objsL (t :: ts), x.type < 20) := by
    intro t ts h1 h2 k hk x hx
    rw [typedL] at hk
    simp only [Bool.and_eq_true] at hk
    rw [objsL, List.mem_append] at hx
    rcases hx with hx | hx
    · exact h1 hk.1.2 x hx
    · exact h2 k hk.2 x hx
  exact ⟨tree_ind4T hnode hnil hcons, tree_ind4L hnode hnil hcons⟩

theorem ncl_sub_objs (t : Tree) : (nclT t).Sublist (objsT t) := by
  rw [ncl_eq_nsub.1 t]; exact nsub_obj_sublist.1 t

/-- the invariant holds when the loop starts -/
theorem J_init (t : Tree) (hn : ((objsT t).map (·.gp)).Nodup) (ht : typedT t = true) (hr : isNormal t.obj.type = true)
    (hl : puLeafT t = true) : Jinv t (connectLevels t) := by
  have hmemobj : ∀ lv ∈ connectLevels t, ∀ d ∈ lv, d ∈ objsT t := by
    intro lv hlv d hd
    have : d ∈ (connectLevels t).flatten := List.mem_flatten.2 ⟨lv, hlv, hd⟩
    exact (ncl_sub_objs t).subset ((connectLevels_perm t).mem_iff.1 this)
  have hnclnod : ((nclT t).map (·.gp)).Nodup := ((ncl_sub_objs t).map (·.gp)).nodup hn
  refine ⟨hn, ?_, ?_, ht, hr, hl, rfl, ?_⟩
  · intro lv hlv a ha b hb
    exact orderOf_inj _ (typed_types_lt.1 t ht a (hmemobj lv hlv a ha)) _ (typed_types_lt.1 t ht b (hmemobj lv hlv b hb))
      (connectLevels_same_order t lv hlv a ha b hb)
  · intro lv hlv d hd x hx hg
    have : x = d := inj_of_nodup_map hn hx (hmemobj lv hlv d hd) hg
    rw [this]
  · intro j lv hj hlv d hd hg
    unfold connectLevels at hlv
    cases j with
    | zero => omega
    | succ j =>
      rw [List.getElem?_cons_succ] at hlv
      have hsub := levelsLoop_sublist _ _ lv (List.mem_of_getElem? hlv)
      have hdm : d ∈ nclL t.ns := hsub.subset hd
      rw [nclT_eq, List.map_cons, List.nodup_cons] at hnclnod
      exact hnclnod.1 (by rw [← hg]; exact List.mem_map_of_mem hdm)

theorem puLeaf_reorderAll :
    (∀ t, puLeafT t = true → puLeafT (reorderAllT t) = true) ∧
    (∀ l, puLeafL l = true → puLeafL (reorderAllL l) = true ∧ (l = [] → reorderAllL l = [])) := by
  have hnode : ∀ o ns ms ios mis, (puLeafL ns = true → puLeafL (reorderAllL ns) = true ∧ (ns = [] → reorderAllL ns = [])) →
      (puLeafL ms = true → puLeafL (reorderAllL ms) = true ∧ (ms = [] → reorderAllL ms = [])) →
      (puLeafT (.node o ns ms ios mis) = true → puLeafT (reorderAllT (.node o ns ms ios mis)) = true) := by
    intro o ns ms ios mis h1 _ hl
    rw [reorderAllT]
    rw [puLeafT_node] at hl ⊢
    have q := h1 hl.2.1
    refine ⟨fun e => ⟨?_, (hl.1 e).2⟩, puLeafL_perm (fixOrder_perm _).symm q.1, hl.2.2⟩
    rw [q.2 (hl.1 e).1]
    exact (fixOrder_perm []).eq_nil
  have hnil : puLeafL [] = true → puLeafL (reorderAllL []) = true ∧ (([] : List Tree) = [] → reorderAllL [] = []) := by
    intro _; rw [reorderAllL]; exact ⟨rfl, fun _ => rfl⟩
  have hcons : ∀ t ts, (puLeafT t = true → puLeafT (reorderAllT t) = true) →
      (puLeafL ts = true → puLeafL (reorderAllL ts) = true ∧ (ts = [] → reorderAllL ts = [])) →
      (puLeafL (t :: ts) = true → puLeafL (reorderAllL (t :: ts)) = true ∧ (t :: ts = [] → reorderAllL (t :: ts) = [])) := by
    intro t ts h1 h2 hl
    rw [puLeafL] at hl
    simp only [Bool.and_eq_true] at hl
    rw [reorderAllL, puLeafL]
    simp only [Bool.and_eq_true]
    exact ⟨⟨h1 hl.1, (h2 hl.2).1⟩, fun h => by cases h⟩
  exact ⟨tree_indT hnode hnil hcons, tree_indL hnode hnil hcons⟩

/-- **hwloc_filter_levels_keep_structure keeps every PU, keeps PUs leaves, and keeps the root**, for every typed tree with
    distinct gp_index whose PU type and root type are not filtered KEEP_STRUCTURE (hwloc_topology_set_type_filter refuses any
    filter but KEEP_ALL for PU, NUMA node and Machine): for every attribute `f` and every value `a` that only PUs take, the number
    of objects with `f = a` is the same before and after level merging -/
theorem keepStructure_pu (filters : List Nat) (hPU : filterOf filters tPU ≠ filterKeepStructure) (t : Tree)
    (hRoot : filterOf filters t.obj.type ≠ filterKeepStructure) (hn : ((objsT t).map (·.gp)).Nodup) (ht : typedT t = true)
    (hr : isNormal t.obj.type = true) (hl : puLeafT t = true) :
    puLeafT (keepStructure filters t) = true ∧ (keepStructure filters t).obj = t.obj ∧
    ((objsT (keepStructure filters t)).map (·.gp)).Nodup ∧
    (∀ {α : Type} [DecidableEq α] (f : RObj → α) (a : α), (∀ x, f x = a → x.type = tPU) →
      cnt f a (objsT (keepStructure filters t)) = cnt f a (objsT t)) := by
  unfold keepStructure
  simp only []
  have h := J_ksLoop filters hPU ((connectLevels t).length - 1) (t, connectLevels t, false) hRoot (J_init t hn ht hr hl)
  split
  · refine ⟨puLeaf_reorderAll.1 _ h.1.leaf, ((reorderAll_perm.1 _).2).trans h.2.1, ?_, ?_⟩
    · exact ((((reorderAll_perm.1 _).1).map (·.gp)).nodup_iff).2 h.1.nod
    · intro α _ f a hfa
      rw [cnt_perm f a ((reorderAll_perm.1 _).1)]
      exact h.2.2 f a hfa
  · exact ⟨h.1.leaf, h.2.1, h.1.nod, fun f a hfa => h.2.2 f a hfa⟩

/-- PUs, as they are -/
def puKey (x : RObj) : Option RObj := if x.type == tPU then some x else none

theorem keepStructure_pu_mem (filters : List Nat) (hPU : filterOf filters tPU ≠ filterKeepStructure) (t : Tree)
    (hRoot : filterOf filters t.obj.type ≠ filterKeepStructure) (hn : ((objsT t).map (·.gp)).Nodup) (ht : typedT t = true)
    (hr : isNormal t.obj.type = true) (hl : puLeafT t = true) (x : RObj) (hx : x.type = tPU) :
    x ∈ objsT (keepStructure filters t) ↔ x ∈ objsT t := by
  have e := (keepStructure_pu filters hPU t hRoot hn ht hr hl).2.2.2 puKey (some x) (fun y hy => by
    unfold puKey at hy
    split at hy
    · rename_i h; simpa using h
    · cases hy)
  have key : ∀ l : List RObj, x ∈ l ↔ 0 < cnt puKey (some x) l := by
    intro l
    rw [cnt_pos_iff]
    constructor
    · intro hm; exact ⟨x, hm, by unfold puKey; rw [hx]; rfl⟩
    · rintro ⟨y, hy, e⟩
      unfold puKey at e
      split at e
      · simp only [Option.some.injEq] at e; rw [← e]; exact hy
      · cases e
  rw [key, key, e]

/-! ### the tree recursion keeps PUs leaves -/

theorem puLeaf_restrictW {ro : List Tree → List Tree} (hro : ∀ l, (ro l).Perm l) (p : Params) :
    (∀ t, puLeafT t = true → puLeafL (restrictTW ro p t).kept = true ∧ puLeafL (restrictTW ro p t).io = true ∧
        puLeafL (restrictTW ro p t).misc = true) ∧
    (∀ l, puLeafL l = true → puLeafL (restrictLW ro p l).kept = true ∧ puLeafL (restrictLW ro p l).io = true ∧
        puLeafL (restrictLW ro p l).misc = true ∧ (l = [] → (restrictLW ro p l).kept = [])) := by
  have hnode : ∀ o ns ms ios mis,
      (puLeafL ns = true → puLeafL (restrictLW ro p ns).kept = true ∧ puLeafL (restrictLW ro p ns).io = true ∧
        puLeafL (restrictLW ro p ns).misc = true ∧ (ns = [] → (restrictLW ro p ns).kept = [])) →
      (puLeafL ms = true → puLeafL (restrictLW ro p ms).kept = true ∧ puLeafL (restrictLW ro p ms).io = true ∧
        puLeafL (restrictLW ro p ms).misc = true ∧ (ms = [] → (restrictLW ro p ms).kept = [])) →
      (puLeafT (.node o ns ms ios mis) = true → puLeafL (restrictTW ro p (.node o ns ms ios mis)).kept = true ∧
        puLeafL (restrictTW ro p (.node o ns ms ios mis)).io = true ∧ puLeafL (restrictTW ro p (.node o ns ms ios mis)).misc = true) := by
    intro o ns ms ios mis h1 h2 hl
    rw [puLeafT_node] at hl
    obtain ⟨l0, l1, l2, l3, l4⟩ := hl
    rw [restrictTW_node]
    have qn : puLeafL (if touched p o = true then restrictLW ro p ns else idRes ns).kept = true ∧
        puLeafL (if touched p o = true then restrictLW ro p ns else idRes ns).io = true ∧
        puLeafL (if touched p o = true then restrictLW ro p ns else idRes ns).misc = true ∧
        (ns = [] → (if touched p o = true then restrictLW ro p ns else idRes ns).kept = []) := by
      split
      · exact h1 l1
      · exact ⟨l1, rfl, rfl, fun h => h⟩
    have qm : puLeafL (if touched p o = true then restrictLW ro p ms else idRes ms).kept = true ∧
        puLeafL (if touched p o = true then restrictLW ro p ms else idRes ms).io = true ∧
        puLeafL (if touched p o = true then restrictLW ro p ms else idRes ms).misc = true ∧
        (ms = [] → (if touched p o = true then restrictLW ro p ms else idRes ms).kept = []) := by
      split
      · exact h2 l2
      · exact ⟨l2, rfl, rfl, fun h => h⟩
    generalize (if touched p o = true then restrictLW ro p ns else idRes ns) = rn at qn ⊢
    generalize (if touched p o = true then restrictLW ro p ms else idRes ms) = rm at qm ⊢
    have hios : puLeafL (ios ++ rn.io ++ rm.io) = true := puLeafL_append (puLeafL_append l3 qn.2.1) qm.2.1
    have hmis : puLeafL (mis ++ rn.misc ++ rm.misc) = true := puLeafL_append (puLeafL_append l4 qn.2.2.1) qm.2.2.1
    have hperm := nsAfter_perm hro p (touched p o) rn
    rcases nodeRes_cases ro p o ios mis (touched p o) rn rm with ⟨_, e⟩ | ⟨_, e⟩
    · rw [e]
      refine ⟨rfl, ?_, ?_⟩
      · show puLeafL (if p.adaptIO = true then ios ++ rn.io ++ rm.io else []) = true
        split
        · exact hios
        · rfl
      · show puLeafL (if p.adaptMisc = true then mis ++ rn.misc ++ rm.misc else []) = true
        split
        · exact hmis
        · rfl
    · rw [e]
      refine ⟨?_, rfl, rfl⟩
      rw [puLeafL, puLeafL, Bool.and_true, puLeafT_node]
      refine ⟨?_, puLeafL_perm hperm.symm qn.1, qm.1, hios, hmis⟩
      intro e
      rw [type_shrinkG] at e
      have := l0 e
      refine ⟨?_, qm.2.2.2 this.2⟩
      have h := qn.2.2.2 this.1
      rw [h] at hperm
      exact hperm.eq_nil
  have hnil : puLeafL [] = true → puLeafL (restrictLW ro p []).kept = true ∧ puLeafL (restrictLW ro p []).io = true ∧
      puLeafL (restrictLW ro p []).misc = true ∧ (([] : List Tree) = [] → (restrictLW ro p []).kept = []) := by
    intro _; rw [restrictLW_nil]; exact ⟨rfl, rfl, rfl, fun _ => rfl⟩
  have hcons : ∀ t ts,
      (puLeafT t = true → puLeafL (restrictTW ro p t).kept = true ∧ puLeafL (restrictTW ro p t).io = true ∧
        puLeafL (restrictTW ro p t).misc = true) →
      (puLeafL ts = true → puLeafL (restrictLW ro p ts).kept = true ∧ puLeafL (restrictLW ro p ts).io = true ∧
        puLeafL (restrictLW ro p ts).misc = true ∧ (ts = [] → (restrictLW ro p ts).kept = [])) →
      (puLeafL (t :: ts) = true → puLeafL (restrictLW ro p (t :: ts)).kept = true ∧ puLeafL (restrictLW ro p (t :: ts)).io = true ∧
        puLeafL (restrictLW ro p (t :: ts)).misc = true ∧ (t :: ts = [] → (restrictLW ro p (t :: ts)).kept = [])) := by
    intro t ts h1 h2 hl
    rw [puLeafL] at hl
    simp only [Bool.and_eq_true] at hl
    have a := h1 hl.1
    have b := h2 hl.2
    rw [restrictLW_cons]
    exact ⟨puLeafL_append a.1 b.1, puLeafL_append a.2.1 b.2.1, puLeafL_append a.2.2 b.2.2.1, fun h => by cases h⟩
  exact ⟨tree_indT hnode hnil hcons, tree_indL hnode hnil hcons⟩

theorem restrictCore_puLeaf (t : Topo) (p : Params) (t' : Topo) (hc : restrictCore t p = some t') (hl : puLeafT t.tree = true) :
    puLeafT t'.tree = true := by
  have hk := (restrictCore_root t p t' hc).2.2.2.2
  unfold restrictT at hk
  have := ((puLeaf_restrictW reorder_perm p).1 t.tree hl).1
  rw [hk, puLeafL, Bool.and_eq_true] at this
  exact this.1

theorem restrictCore_nodup (t : Topo) (p : Params) (t' : Topo) (hc : restrictCore t p = some t')
    (hn : ((objsT t.tree).map (·.gp)).Nodup) : ((objsT t'.tree).map (·.gp)).Nodup := by
  rw [List.nodup_iff_count]
  intro g
  have h1 := cnt_restrictCore (fun y => y.gp) g t p t' hc (fun o => gp_shrinkG p o)
  have h2 := (List.nodup_iff_count.1 hn) g
  unfold cnt at h1
  omega

/-! ### the whole call: PUs, leafness, root -/

/-- the hypotheses under which level merging is proved harmless for PUs and the root: distinct gp_index (C01 gp-index-unique)
    and no KEEP_STRUCTURE filter on PU and on the root's type (refused by hwloc_topology_set_type_filter) -/
def mergeSafe (t : Topo) : Prop :=
  ((objsT t.tree).map (·.gp)).Nodup ∧ filterOf t.filters tPU ≠ filterKeepStructure ∧
  filterOf t.filters t.tree.obj.type ≠ filterKeepStructure

instance (t : Topo) : Decidable (mergeSafe t) := by unfold mergeSafe; exact inferInstance

/-- **the whole restrict call keeps PUs leaves, keeps the root object's identity and type, and keeps `mergeSafe`** -/
theorem restrict_leaf_root (t : Topo) (s : CSet) (flags : Nat) (hty : typedT t.tree = true) (hr : isNormal t.tree.obj.type = true)
    (hl : puLeafT t.tree = true) (hs : mergeSafe t) :
    puLeafT (restrict t s flags).1.tree = true ∧ ident (restrict t s flags).1.tree.obj = ident t.tree.obj ∧
    mergeSafe (restrict t s flags).1 := by
  unfold restrict
  cases hp : plan t s flags with
  | none => exact ⟨hl, rfl, hs⟩
  | some p =>
    simp only []
    cases hc : restrictCore t p with
    | none => exact ⟨hl, rfl, hs⟩
    | some t' =>
      simp only []
      have hroot := restrictCore_root t p t' hc
      have ht' := restrictCore_typed t p t' hc hty hr
      have hty' : t'.tree.obj.type = t.tree.obj.type := by rw [hroot.1, type_shrinkG]
      have hk := keepStructure_pu t'.filters (by rw [hroot.2.2.2.1]; exact hs.2.1) t'.tree
        (by rw [hroot.2.2.2.1, hty']; exact hs.2.2) (restrictCore_nodup t p t' hc hs.1) ht'.1 ht'.2 (restrictCore_puLeaf t p t' hc hl)
      refine ⟨hk.1, by rw [hk.2.1, hroot.1, ident_shrinkG], hk.2.2.1, by rw [hroot.2.2.2.1]; exact hs.2.1, ?_⟩
      show filterOf t'.filters (keepStructure t'.filters t'.tree).obj.type ≠ filterKeepStructure
      rw [hk.2.1, hroot.2.2.2.1, hty']
      exact hs.2.2

/-- **PUs after a successful restrict by cpuset S, whole call (level merging included)**: every PU of the result still has
    cpuset = complete cpuset = {os_index} with os_index ∈ S, and the PUs of the result are EXACTLY the previous PUs whose os_index
    is in S -/
theorem pus_exact_whole (t : Topo) (s : CSet) (flags : Nat) (p : Params) (hp : plan t s flags = some p) (hb : p.byNode = false)
    (hret : (restrict t s flags).2 = .ok) (hok : okT t.tree = true) (hty : typedT t.tree = true)
    (hr : isNormal t.tree.obj.type = true) (hleaf : puLeafT t.tree = true) (hsets : puSetsT t.tree = true) (hs : mergeSafe t) :
    (∀ x ∈ objsT (restrict t s flags).1.tree, x.type = tPU → x.cpuset = osBit x ∧ x.ccpuset = osBit x ∧ s.mem x.osidx.toNat = true) ∧
    (∀ a : RObj, a.type = tPU → cnt ident (ident a) (objsT (restrict t s flags).1.tree) =
        if s.mem a.osidx.toNat = true then cnt ident (ident a) (objsT t.tree) else 0) := by
  cases hc : restrictCore t p with
  | none =>
    have : (restrict t s flags).2 = .rootRemoved := by unfold restrict; rw [hp]; simp only [hc]
    rw [this] at hret; exact absurd hret (by decide)
  | some t' =>
    rw [(restrict_ok_eq t s flags p t' hp hc).1]
    have hroot := restrictCore_root t p t' hc
    have ht' := restrictCore_typed t p t' hc hty hr
    have hty' : t'.tree.obj.type = t.tree.obj.type := by rw [hroot.1, type_shrinkG]
    have hPU : filterOf t'.filters tPU ≠ filterKeepStructure := by rw [hroot.2.2.2.1]; exact hs.2.1
    have hRoot : filterOf t'.filters t'.tree.obj.type ≠ filterKeepStructure := by rw [hroot.2.2.2.1, hty']; exact hs.2.2
    have hn' := restrictCore_nodup t p t' hc hs.1
    have hl' := restrictCore_puLeaf t p t' hc hleaf
    have core := pus_exact_core t s flags p hp hb t' hc hok hty hleaf hsets
    constructor
    · intro x hx hxt
      exact core.1 x ((keepStructure_pu_mem _ hPU _ hRoot hn' ht'.1 ht'.2 hl' x hxt).1 hx) hxt
    · intro a ha
      rw [(keepStructure_pu _ hPU _ hRoot hn' ht'.1 ht'.2 hl').2.2.2 ident (ident a)
        (fun y hy => by rw [← ident_type y, hy, ident_type]; exact ha)]
      exact core.2 a ha

/-- the BYNODESET mirror for PUs, whole call: a PU disappears only if REMOVE_MEMLESS is given and its nodeset is empty afterwards -/
theorem pu_survive_whole (t : Topo) (s : CSet) (flags : Nat) (p : Params) (hp : plan t s flags = some p) (hb : p.byNode = true)
    (hret : (restrict t s flags).2 = .ok) (hty : typedT t.tree = true) (hr : isNormal t.tree.obj.type = true)
    (hleaf : puLeafT t.tree = true) (hs : mergeSafe t) (a : RObj) (ha : a.type = tPU) :
    cnt ident (ident a) ((objsT t.tree).filter (protPUn p)) ≤ cnt ident (ident a) (objsT (restrict t s flags).1.tree) := by
  cases hc : restrictCore t p with
  | none =>
    have : (restrict t s flags).2 = .rootRemoved := by unfold restrict; rw [hp]; simp only [hc]
    rw [this] at hret; exact absurd hret (by decide)
  | some t' =>
    rw [(restrict_ok_eq t s flags p t' hp hc).1]
    have hroot := restrictCore_root t p t' hc
    have ht' := restrictCore_typed t p t' hc hty hr
    have hty' : t'.tree.obj.type = t.tree.obj.type := by rw [hroot.1, type_shrinkG]
    rw [(keepStructure_pu _ (by rw [hroot.2.2.2.1]; exact hs.2.1) _ (by rw [hroot.2.2.2.1, hty']; exact hs.2.2)
      (restrictCore_nodup t p t' hc hs.1) ht'.1 ht'.2 (restrictCore_puLeaf t p t' hc hleaf)).2.2.2 ident (ident a)
      (fun y hy => by rw [← ident_type y, hy, ident_type]; exact ha)]
    exact pu_survive_core t p hb t' hc hty a

end Hw.Topo.Restrict
