/-
  Hw.Topo.WFLemmas — structural consequences of well-formedness in directly usable (quantified) form.

  `Tree d` is the conjunction of the facts about a dump that the helper proofs (C09) use: ids are positions,
  every normal non-root object hangs in the `children` array of a normal, shallower parent whose cpuset
  includes its own, the children of an object are pairwise disjoint and (for non-PU normal objects) union to
  the parent's cpuset, sibling and cousin links follow the children arrays / level arrays, levels list
  exactly the objects of their depth in logical order, PUs / NUMA nodes carry the singleton of their
  os_index, level depths are distinct and type depths are inverse to level types.

  Every clause is decidable; `treeCheck` is the executable oracle and is run by the `helpers` driver on
  every dump next to `wfCheck`.  Status of `WF d → clause` (Hw/Topo/WFTree.lean): EVERY clause except
  `T_order` is PROVED from `WF` (`T_root_of_wf` … `T_union_of_wf`; counting arguments over the level arrays and
  fold lemmas over `mkAux` included); `T_order` (DFS numbering) is a property of the dump's numbering, not of
  `WF`; `Tree_of_wf_partial : WF d → T_order d → Tree d`.
  The clauses restate (WF clauses
  "id-is-position", "children-array", "normal-child-slot", "set-in-parent", "depth-increases",
  "depth-by-type", "cpuset-is-disjoint-union-of-children", "in-its-level", "level-entries-valid",
  "levels-listed", "pu-cpuset", "numa-nodeset", "memory-child-shares-cpuset", "type-depth-inverse",
  "no-children-where-forbidden", "sets-presence").
-/
import Hw.Topo.Helpers
namespace Hw.Topo

/-- ids are positions -/
def T_ids (d : Dump) : Prop := ∀ p ∈ d.objs.zipIdx, p.1.id = p.2
/-- the root exists, is normal, has depth 0 and no parent -/
def T_root (d : Dump) : Prop :=
  ∃ r, d.objs[0]? = some r ∧ r.parent = -1 ∧ isNormal r.type = true ∧ r.depth = 0
/-- normal non-root objects: normal shallower parent, child slot, cpuset inclusion; the root is the only parentless object -/
def T_parent (d : Dump) : Prop := ∀ o ∈ d.objs,
  (o.id = 0 ∧ o.parent = -1) ∨
  (o.id ≠ 0 ∧ ∃ p, d.obj? o.parent = some p ∧ p ∈ d.objs ∧
    (isNormal o.type = true → isNormal p.type = true ∧ p.depth < o.depth ∧ (p.children[o.rank]?) = some (o.id : Int) ∧
      subset (cs o) (cs p) = true ∧ subset (nsOf o) (nsOf p) = true) ∧
    (isMemory o.type = true → o.cpuset = p.cpuset ∧ (isNormal p.type = true ∨ isMemory p.type = true)))
/-- children arrays: entries are normal objects of the dump whose parent is this object, ranks are positions,
    sibling links follow the array -/
def T_children (d : Dump) : Prop := ∀ o ∈ d.objs,
  d.obj? o.firstChild = (childObjs d o)[0]? ∧ (childObjs d o).length = o.children.length ∧ o.children.length = o.arity ∧
  ∀ p ∈ (childObjs d o).zipIdx,
    p.1 ∈ d.objs ∧ p.1.parent = (o.id : Int) ∧ p.1.rank = p.2 ∧ isNormal p.1.type = true ∧
    (o.children[p.2]?) = some (p.1.id : Int) ∧ d.obj? p.1.nextSib = (childObjs d o)[p.2 + 1]?
/-- the cpusets of the children are pairwise disjoint -/
def T_disjoint (d : Dump) : Prop := ∀ o ∈ d.objs,
  (childObjs d o).Pairwise (fun a b => disjoint (cs a) (cs b) = true)
/-- the cpuset of a normal object with children is the union of its children's cpusets; only normal non-PU
    objects have children -/
def T_union (d : Dump) : Prop := ∀ o ∈ d.objs,
  (o.arity ≠ 0 → isNormal o.type = true ∧ o.type ≠ tPU ∧ cs o = orAll ((childObjs d o).map cs)) ∧
  (isNormal o.type = true → o.arity = 0 → cs o ≠ 0 → o.type = tPU)
/-- depth ranges, presence of sets -/
def T_depth (d : Dump) : Prop := ∀ o ∈ d.objs,
  (isNormal o.type = true → 0 ≤ o.depth ∧ o.depth < (d.depth : Int)) ∧
  (isNormal o.type = false → o.depth < 0) ∧
  (isNormal o.type = true ∨ isMemory o.type = true → o.cpuset.isSome = true ∧ o.nodeset.isSome = true) ∧
  (isNormal o.type = false → isMemory o.type = false → o.cpuset = none ∧ o.nodeset = none) ∧
  (o.type = tPU → 0 ≤ o.osidx ∧ cs o = single o.osidx.toNat ∧ o.depth = (d.depth : Int) - 1) ∧
  (o.type = tNUMA → 0 ≤ o.osidx ∧ nsOf o = single o.osidx.toNat ∧ o.depth = -3)
/-- levels have distinct depths; the entries of a level are objects of that depth, entry `i` has logical
    index `i`, cousin links follow the array -/
def T_levels (d : Dump) : Prop :=
  (d.levels.map (·.depth)).Nodup ∧
  ∀ l ∈ d.levels, (levelObjs d l.depth).length = l.objs.length ∧
    ∀ p ∈ (levelObjs d l.depth).zipIdx,
      p.1 ∈ d.objs ∧ p.1.depth = l.depth ∧ p.1.lidx = p.2 ∧ (p.1.type : Int) = l.type ∧
      d.obj? p.1.nextCousin = (levelObjs d l.depth)[p.2 + 1]? ∧
      d.obj? p.1.prevCousin = (if p.2 = 0 then none else (levelObjs d l.depth)[p.2 - 1]?)
/-- every object is listed in the level of its depth at its logical index -/
def T_inlevel (d : Dump) : Prop := ∀ o ∈ d.objs,
  (∃ l ∈ d.levels, l.depth = o.depth) ∧ (levelObjs d o.depth)[o.lidx]? = some o
/-- type depths: a single normal level of type `t` at depth `k` iff `typeDepth t = k`; special types have
    their virtual depth; the PU level is the deepest and non-empty -/
def T_typedepth (d : Dump) : Prop :=
  d.typeDepths.length = tMAX ∧
  (∀ l ∈ d.levels, 0 ≤ l.depth → l.depth < (d.depth : Int) ∧ 0 ≤ l.type ∧ l.type < (tMAX : Int) ∧ l.objs ≠ [] ∧
      (typeDepth d l.type = l.depth ∨ typeDepth d l.type = depthMultiple)) ∧
  (∀ t ∈ List.range tMAX, specialDepth t = none →
      (typeDepth d (t : Int) = depthMultiple ↔
        2 ≤ (d.levels.filter (fun l => decide (0 ≤ l.depth) && l.type == (t : Int))).length)) ∧
  (∀ t ∈ List.range tMAX, 0 ≤ typeDepth d (t : Int) →
      ∃ l ∈ d.levels, l.depth = typeDepth d (t : Int) ∧ l.type = (t : Int)) ∧
  (∀ t ∈ List.range tMAX, match specialDepth t with
      | some sd => typeDepth d (t : Int) = sd
      | none => typeDepth d (t : Int) ≥ -2) ∧
  (∀ k ∈ List.range d.depth, ∃ l ∈ d.levels, l.depth = (k : Int)) ∧
  (∀ l ∈ d.levels, l.depth < 0 → specialDepth l.type.toNat = some l.depth ∧ 0 ≤ l.type)

/-- DFS numbering: a parent has a smaller id than its children (the dump numbers objects in DFS order); this is
    the measure that makes every parent chain — also those of I/O and Misc objects — finite -/
def T_order (d : Dump) : Prop := ∀ o ∈ d.objs, o.id ≠ 0 → o.parent < (o.id : Int)

/-- sizes (so that the fuel `d.fuel = number of objects + 1` of every pointer chase suffices): arrays are not
    longer than the object list, the topology depth is at most the number of objects -/
def T_sizes (d : Dump) : Prop :=
  d.depth ≤ d.objs.length ∧ (∀ l ∈ d.levels, l.objs.length ≤ d.objs.length) ∧ (∀ o ∈ d.objs, o.children.length ≤ d.objs.length)

/-- all structural consequences used by the helper proofs -/
structure Tree (d : Dump) : Prop where
  ids : T_ids d
  root : T_root d
  parent : T_parent d
  children : T_children d
  disjoint : T_disjoint d
  union : T_union d
  depth : T_depth d
  levels : T_levels d
  inlevel : T_inlevel d
  typedepth : T_typedepth d
  sizes : T_sizes d
  order : T_order d

instance (d : Dump) : Decidable (T_ids d) := by unfold T_ids; infer_instance
instance (d : Dump) : Decidable (T_root d) := by
  unfold T_root
  cases h : d.objs[0]? with
  | none => exact isFalse (by intro ⟨r, hr, _⟩; cases hr)
  | some r =>
    exact decidable_of_iff (r.parent = -1 ∧ isNormal r.type = true ∧ r.depth = 0)
      ⟨fun hh => ⟨r, rfl, hh⟩, fun ⟨r', hr', hh⟩ => by cases hr'; exact hh⟩
instance (d : Dump) (o : Obj) : Decidable (∃ p, d.obj? o.parent = some p ∧ p ∈ d.objs ∧
    (isNormal o.type = true → isNormal p.type = true ∧ p.depth < o.depth ∧ (p.children[o.rank]?) = some (o.id : Int) ∧
      subset (cs o) (cs p) = true ∧ subset (nsOf o) (nsOf p) = true) ∧
    (isMemory o.type = true → o.cpuset = p.cpuset ∧ (isNormal p.type = true ∨ isMemory p.type = true))) := by
  cases h : d.obj? o.parent with
  | none => exact isFalse (by intro ⟨p, hp, _⟩; cases hp)
  | some p =>
    exact decidable_of_iff (p ∈ d.objs ∧
      (isNormal o.type = true → isNormal p.type = true ∧ p.depth < o.depth ∧ (p.children[o.rank]?) = some (o.id : Int) ∧
        subset (cs o) (cs p) = true ∧ subset (nsOf o) (nsOf p) = true) ∧
      (isMemory o.type = true → o.cpuset = p.cpuset ∧ (isNormal p.type = true ∨ isMemory p.type = true)))
      ⟨fun hh => ⟨p, rfl, hh⟩, fun ⟨p', hp', hh⟩ => by cases hp'; exact hh⟩
instance (d : Dump) : Decidable (T_parent d) := by unfold T_parent; infer_instance
instance (d : Dump) : Decidable (T_children d) := by unfold T_children; infer_instance
instance (d : Dump) : Decidable (T_disjoint d) := by unfold T_disjoint; infer_instance
instance (d : Dump) : Decidable (T_union d) := by unfold T_union; infer_instance
instance (d : Dump) : Decidable (T_depth d) := by unfold T_depth; infer_instance
instance (d : Dump) : Decidable (T_levels d) := by unfold T_levels; infer_instance
instance (d : Dump) : Decidable (T_inlevel d) := by unfold T_inlevel; infer_instance
instance (d : Dump) (t : Nat) : Decidable (match specialDepth t with
      | some sd => typeDepth d (t : Int) = sd
      | none => typeDepth d (t : Int) ≥ -2) := by
  cases specialDepth t <;> simp only <;> infer_instance
instance (d : Dump) : Decidable (T_typedepth d) := by unfold T_typedepth; infer_instance
instance (d : Dump) : Decidable (T_sizes d) := by unfold T_sizes; infer_instance
instance (d : Dump) : Decidable (T_order d) := by unfold T_order; infer_instance

/-- names of the violated `Tree` clauses (executable oracle, run on every dump by the `helpers` driver) -/
def treeCheck (d : Dump) : List String :=
  (if decide (T_ids d) then [] else ["ids"]) ++ (if decide (T_root d) then [] else ["root"]) ++
  (if decide (T_parent d) then [] else ["parent"]) ++ (if decide (T_children d) then [] else ["children"]) ++
  (if decide (T_disjoint d) then [] else ["disjoint"]) ++ (if decide (T_union d) then [] else ["union"]) ++
  (if decide (T_depth d) then [] else ["depth"]) ++ (if decide (T_levels d) then [] else ["levels"]) ++
  (if decide (T_inlevel d) then [] else ["inlevel"]) ++ (if decide (T_typedepth d) then [] else ["typedepth"]) ++
  (if decide (T_sizes d) then [] else ["sizes"]) ++
  (if decide (T_order d) then [] else ["order"])

theorem treeCheck_iff (d : Dump) : treeCheck d = [] ↔ Tree d := by
  unfold treeCheck
  constructor
  · intro h
    simp only [List.append_eq_nil_iff, ite_eq_left_iff, decide_eq_true_eq, reduceCtorEq, imp_false, Decidable.not_not] at h
    obtain ⟨⟨⟨⟨⟨⟨⟨⟨⟨⟨⟨h1, h2⟩, h3⟩, h4⟩, h5⟩, h6⟩, h7⟩, h8⟩, h9⟩, h10⟩, h11⟩, h12⟩ := h
    exact ⟨h1, h2, h3, h4, h5, h6, h7, h8, h9, h10, h11, h12⟩
  · intro ⟨h1, h2, h3, h4, h5, h6, h7, h8, h9, h10, h11, h12⟩
    simp [h1, h2, h3, h4, h5, h6, h7, h8, h9, h10, h11, h12]

instance (d : Dump) : Decidable (Tree d) := decidable_of_iff _ (treeCheck_iff d)

end Hw.Topo
