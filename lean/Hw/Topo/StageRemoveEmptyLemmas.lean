/-
  Hw.Topo.StageRemoveEmptyLemmas — theorems about the model of `remove_empty` (Hw.Topo.StageRemoveEmpty), for every tree.
-/
import Hw.Topo.StageRemoveEmpty
import Hw.Topo.RestrictTyping
namespace Hw.Topo.Restrict.Stage
open Hw.Topo Hw.Topo.Restrict

theorem allNML_append (p : RObj → List Tree → List Tree → List Tree → List Tree → Bool) (a b : List Tree) :
    allNML p (a ++ b) = (allNML p a && allNML p b) := by
  induction a with
  | nil => simp [allNML]
  | cons x xs ih => simp only [List.cons_append, allNML, ih, Bool.and_assoc]

theorem removeEmptyL_nil : removeEmptyL [] = ⟨[], []⟩ := by rw [removeEmptyL]

/-! ### what is left is alive -/

mutual
theorem removeEmptyT_alive : ∀ t : Tree, allAliveL (removeEmptyT t).kept = true
  | .node o ns ms ios mis => by
    have h1 := removeEmptyL_alive ns
    have h2 := removeEmptyL_alive ms
    rw [removeEmptyT]
    split
    · rfl
    · rename_i hc
      have hal : alive o (removeEmptyL ns).kept (removeEmptyL ms).kept ios = true := by
        unfold alive
        cases ha : (removeEmptyL ns).kept.isEmpty <;> cases hb : (removeEmptyL ms).kept.isEmpty <;> cases hd : ios.isEmpty <;>
          simp_all
      unfold allAliveL at h1 h2 ⊢
      simp only [allNML, allNM, h1, h2, Bool.and_true, hal]
theorem removeEmptyL_alive : ∀ l : List Tree, allAliveL (removeEmptyL l).kept = true
  | [] => by rw [removeEmptyL]; rfl
  | t :: ts => by
    have h1 := removeEmptyT_alive t
    have h2 := removeEmptyL_alive ts
    rw [removeEmptyL]
    unfold allAliveL at h1 h2 ⊢
    simp only [allNML_append, h1, h2, Bool.and_self]
end

/-! ### a tree in which everything is alive is left unchanged -/

mutual
theorem removeEmptyT_fix : ∀ t : Tree, allAlive t = true → removeEmptyT t = ⟨[t], []⟩
  | .node o ns ms ios mis => by
    intro h
    unfold allAlive at h
    rw [allNM] at h
    simp only [Bool.and_eq_true] at h
    have h1 := removeEmptyL_fix ns h.1.2
    have h2 := removeEmptyL_fix ms h.2
    rw [removeEmptyT]
    simp only [h1, h2, List.append_nil]
    have ha := h.1.1
    unfold alive at ha
    cases hn : ns.isEmpty <;> cases hm : ms.isEmpty <;> cases hi : ios.isEmpty <;> simp_all
theorem removeEmptyL_fix : ∀ l : List Tree, allAliveL l = true → removeEmptyL l = ⟨l, []⟩
  | [] => fun _ => by rw [removeEmptyL]
  | t :: ts => by
    intro h
    unfold allAliveL at h
    rw [allNML] at h
    simp only [Bool.and_eq_true] at h
    rw [removeEmptyL, removeEmptyT_fix t h.1, removeEmptyL_fix ts h.2]
    rfl
end

/-- **the C rule holds everywhere in the tree `remove_empty` leaves** -/
theorem removeEmpty_alive (t t' : Tree) (h : removeEmpty t = some t') : allAlive t' = true := by
  unfold removeEmpty at h
  have ha := removeEmptyT_alive t
  cases hk : (removeEmptyT t).kept with
  | nil => rw [hk] at h; simp at h
  | cons x xs =>
    rw [hk] at h ha
    simp only [List.head?_cons, Option.some.injEq] at h
    subst h
    unfold allAliveL at ha
    rw [allNML] at ha
    simp only [Bool.and_eq_true] at ha
    exact ha.1

/-- a tree in which everything is alive is returned as it is -/
theorem removeEmpty_fix (t : Tree) (h : allAlive t = true) : removeEmpty t = some t := by
  unfold removeEmpty
  rw [removeEmptyT_fix t h]
  rfl

/-- `remove_empty` is idempotent: a second run removes nothing -/
theorem removeEmpty_idem (t t' : Tree) (h : removeEmpty t = some t') : removeEmpty t' = some t' := by
  unfold removeEmpty at h ⊢
  have ha := removeEmptyT_alive t
  cases hk : (removeEmptyT t).kept with
  | nil => rw [hk] at h; simp at h
  | cons x xs =>
    rw [hk] at h ha
    simp only [List.head?_cons, Option.some.injEq] at h
    subst h
    unfold allAliveL at ha
    rw [allNML] at ha
    simp only [Bool.and_eq_true] at ha
    rw [removeEmptyT_fix x ha.1]
    rfl

/-! ### at most one survivor, and it is the object itself -/

theorem removeEmptyT_kept_cases (t : Tree) :
    ((removeEmptyT t).kept = [] ∧ emptySet t.obj = true) ∨
    (∃ t', (removeEmptyT t).kept = [t'] ∧ (removeEmptyT t).misc = [] ∧ t'.obj = t.obj ∧ t'.ios = t.ios) := by
  cases t with
  | node o ns ms ios mis =>
    rw [removeEmptyT]
    split
    · rename_i hc
      simp only [Bool.and_eq_true] at hc
      exact Or.inl ⟨rfl, hc.2⟩
    · exact Or.inr ⟨_, rfl, rfl, rfl, rfl⟩

/-- the root is removed exactly when, after the recursion, it has no normal, memory or I/O child left and its set is empty -/
theorem removeEmpty_none (t : Tree) (h : removeEmpty t = none) : emptySet t.obj = true := by
  unfold removeEmpty at h
  rcases removeEmptyT_kept_cases t with ⟨_, he⟩ | ⟨t2, hk, _⟩
  · exact he
  · rw [hk] at h; simp at h

/-! ### typing is preserved -/

mutual
theorem removeEmptyT_typed : ∀ t : Tree, typedT t = true →
    (∀ t' ∈ (removeEmptyT t).kept, typedT t' = true ∧ t'.obj.type = t.obj.type) ∧ typedL isMisc (removeEmptyT t).misc = true
  | .node o ns ms ios mis => by
    intro h
    have hn := typedT_node o ns ms ios mis h
    have h1 := removeEmptyL_typed isNormal ns hn.2.2.2.2.1
    have h2 := removeEmptyL_typed isMemory ms hn.2.2.2.2.2.1
    have hmis : typedL isMisc (mis ++ (removeEmptyL ns).misc ++ (removeEmptyL ms).misc) = true :=
      typedL_append (typedL_append hn.2.2.2.2.2.2.2 h1.2.1) h2.2.1
    rw [removeEmptyT]
    split
    · exact ⟨fun _ ht => by simp at ht, hmis⟩
    · refine ⟨fun t' ht' => ?_, rfl⟩
      rw [List.mem_singleton] at ht'
      subst ht'
      refine ⟨typedT_mk _ _ _ _ _ ?_ ?_ hn.2.2.1 hn.2.2.2.1 h1.1 h2.1 hn.2.2.2.2.2.2.1 hmis, rfl⟩
      · rcases hn.1 with h | h
        · exact Or.inl h
        · exact Or.inr (h1.2.2 h)
      · rcases hn.2.1 with h | h | h
        · exact Or.inl h
        · exact Or.inr (Or.inl h)
        · exact Or.inr (Or.inr (h2.2.2 h))
theorem removeEmptyL_typed (k : Nat → Bool) : ∀ l : List Tree, typedL k l = true →
    typedL k (removeEmptyL l).kept = true ∧ typedL isMisc (removeEmptyL l).misc = true ∧ (l = [] → (removeEmptyL l).kept = [])
  | [] => fun _ => by rw [removeEmptyL]; exact ⟨rfl, rfl, fun _ => rfl⟩
  | t :: ts => by
    intro h
    rw [typedL] at h
    simp only [Bool.and_eq_true] at h
    have h1 := removeEmptyT_typed t h.1.2
    have h2 := removeEmptyL_typed k ts h.2
    rw [removeEmptyL]
    refine ⟨typedL_append ?_ h2.1, typedL_append h1.2 h2.2.1, fun hh => by simp at hh⟩
    rw [typedL_iff]
    intro t' ht'
    have := h1.1 t' ht'
    exact ⟨by rw [this.2]; exact h.1.1, this.1⟩
end

/-- the root survives with its type: typing and the normal root are preserved -/
theorem removeEmpty_typed (t t' : Tree) (h : removeEmpty t = some t') (ht : typedT t = true) :
    typedT t' = true ∧ t'.obj = t.obj := by
  unfold removeEmpty at h
  rcases removeEmptyT_kept_cases t with ⟨hk, _⟩ | ⟨t2, hk, _, ho, _⟩
  · rw [hk] at h; simp at h
  · rw [hk] at h
    simp only [List.head?_cons, Option.some.injEq] at h
    subst h
    exact ⟨((removeEmptyT_typed t ht).1 t2 (by rw [hk]; exact List.mem_singleton.2 rfl)).1, ho⟩

/-! ### every clause about an object and the OBJECTS of its normal and memory children that tolerates dropping empty children
    is preserved -/

/-- `l'` is `l` with some elements that satisfy `emptySet` dropped -/
inductive Dropped : List RObj → List RObj → Prop
  | nil : Dropped [] []
  | keep (x : RObj) {l' l : List RObj} : Dropped l' l → Dropped (x :: l') (x :: l)
  | drop (x : RObj) {l' l : List RObj} : emptySet x = true → Dropped l' l → Dropped l' (x :: l)

theorem Dropped.refl : ∀ l : List RObj, Dropped l l
  | [] => .nil
  | x :: xs => .keep x (Dropped.refl xs)

theorem Dropped.sublist {l' l : List RObj} (h : Dropped l' l) : l'.Sublist l := by
  induction h with
  | nil => exact List.Sublist.slnil
  | keep x _ ih => exact ih.cons_cons x
  | drop x _ _ ih => exact ih.cons x

/-- a dropped element is empty: every element of `l` is in `l'` or satisfies `emptySet` -/
theorem Dropped.mem_or {l' l : List RObj} (h : Dropped l' l) : ∀ x ∈ l, x ∈ l' ∨ emptySet x = true := by
  induction h with
  | nil => intro x hx; simp at hx
  | keep y _ ih =>
    intro x hx
    rcases List.mem_cons.1 hx with rfl | hx
    · exact Or.inl (List.mem_cons_self)
    · rcases ih x hx with h | h
      · exact Or.inl (List.mem_cons_of_mem _ h)
      · exact Or.inr h
  | drop y hy _ ih =>
    intro x hx
    rcases List.mem_cons.1 hx with rfl | hx
    · exact Or.inr hy
    · exact ih x hx

mutual
/-- `Q o (objects of the normal children) (objects of the memory children)` at every object that `remove_empty` visits -/
def AllQ (Q : RObj → List RObj → List RObj → Prop) : Tree → Prop
  | .node o ns ms _ _ => Q o (ns.map Tree.obj) (ms.map Tree.obj) ∧ AllQL Q ns ∧ AllQL Q ms
def AllQL (Q : RObj → List RObj → List RObj → Prop) : List Tree → Prop
  | [] => True
  | t :: ts => AllQ Q t ∧ AllQL Q ts
end

theorem AllQL_append (Q : RObj → List RObj → List RObj → Prop) (a b : List Tree) :
    AllQL Q (a ++ b) ↔ AllQL Q a ∧ AllQL Q b := by
  induction a with
  | nil => simp [AllQL]
  | cons x xs ih => simp only [List.cons_append, AllQL, ih, and_assoc]

/-- the clause survives the removal of empty children -/
def Stable (Q : RObj → List RObj → List RObj → Prop) : Prop :=
  ∀ o ns ms ns' ms', Q o ns ms → Dropped ns' ns → Dropped ms' ms → Q o ns' ms'

theorem Dropped.append {a' a b' b : List RObj} (h1 : Dropped a' a) (h2 : Dropped b' b) : Dropped (a' ++ b') (a ++ b) := by
  induction h1 with
  | nil => exact h2
  | keep x _ ih => exact .keep x ih
  | drop x hx _ ih => exact .drop x hx ih

mutual
theorem removeEmptyT_preserves (Q : RObj → List RObj → List RObj → Prop) (hQ : Stable Q) : ∀ t : Tree, AllQ Q t →
    AllQL Q (removeEmptyT t).kept ∧ Dropped ((removeEmptyT t).kept.map Tree.obj) [t.obj]
  | .node o ns ms ios mis => by
    intro h
    rw [AllQ] at h
    have h1 := removeEmptyL_preserves Q hQ ns h.2.1
    have h2 := removeEmptyL_preserves Q hQ ms h.2.2
    rw [removeEmptyT]
    split
    · rename_i hc
      simp only [Bool.and_eq_true] at hc
      exact ⟨trivial, .drop _ hc.2 .nil⟩
    · refine ⟨?_, .keep _ .nil⟩
      simp only [AllQL, AllQ, and_true]
      exact ⟨hQ _ _ _ _ _ h.1 h1.2 h2.2, h1.1, h2.1⟩
theorem removeEmptyL_preserves (Q : RObj → List RObj → List RObj → Prop) (hQ : Stable Q) : ∀ l : List Tree, AllQL Q l →
    AllQL Q (removeEmptyL l).kept ∧ Dropped ((removeEmptyL l).kept.map Tree.obj) (l.map Tree.obj)
  | [] => fun _ => by rw [removeEmptyL]; exact ⟨trivial, .nil⟩
  | t :: ts => by
    intro h
    rw [AllQL] at h
    have h1 := removeEmptyT_preserves Q hQ t h.1
    have h2 := removeEmptyL_preserves Q hQ ts h.2
    rw [removeEmptyL]
    simp only [List.map_append, List.map_cons]
    exact ⟨(AllQL_append Q _ _).2 ⟨h1.1, h2.1⟩, Dropped.append h1.2 h2.2⟩
end

/-- **remove_empty preserves every `Stable` clause** (at the root that survives) -/
theorem removeEmpty_preserves (Q : RObj → List RObj → List RObj → Prop) (hQ : Stable Q) (t t' : Tree)
    (h : removeEmpty t = some t') (ht : AllQ Q t) : AllQ Q t' := by
  unfold removeEmpty at h
  have := (removeEmptyT_preserves Q hQ t ht).1
  cases hk : (removeEmptyT t).kept with
  | nil => rw [hk] at h; simp at h
  | cons x xs =>
    rw [hk] at h this
    simp only [List.head?_cons, Option.some.injEq] at h
    subst h
    exact this.1

end Hw.Topo.Restrict.Stage
