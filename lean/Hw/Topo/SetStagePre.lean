/-
  Hw.Topo.SetStagePre — the precondition `PreSets` of the set-stage theorems as a proposition, and the proof that the executable
  check `preSets` (run by the driver on every real input of the stage) decides it.
-/
import Hw.Topo.SetStageDecomp
namespace Hw.Topo.SetStage
open Hw.Topo

/-- what the tree handed to the stage must satisfy (what `hwloc_alloc_root_sets`, `hwloc___insert_object_by_cpuset` and
`hwloc__attach_memory_object` deliver) -/
structure PreSets (i : In) : Prop where
  /-- the root has its complete sets -/
  rootSets : i.root.o.ccpuset.isSome = true ∧ i.root.o.cnodeset.isSome = true
  /-- at every object (the root taken after "Fixup root sets" has clipped its cpuset): a complete_cpuset that exists contains the cpuset; the normal list holds normal objects, the memory list memory
  objects, memory objects have no normal children; memory children have a complete_nodeset that contains their nodeset; the cpusets of
  the normal children are pairwise disjoint -/
  nodes : AllN PreN (fixupRoot i.root)
  /-- at every object: the nodesets of the memory children are pairwise disjoint, and so are the local part and the parts below each
  normal child (one NUMA node per bit) -/
  nodesDj : AllN NodesDj i.root
  /-- the bits of the root nodeset are nodes that exist in the tree -/
  covered : Sub (i.root.o.nodeset &&& i.root.o.cnodeset.getD 0) (below i.root)

theorem djList_iff (l : List Nat) : djList l = true ↔ l.Pairwise Dj := by
  induction l with
  | nil => simp [djList]
  | cons a r ih =>
    rw [djList, Bool.and_eq_true, ih, List.pairwise_cons, List.all_eq_true]
    simp only [beq_iff_eq, Dj]

theorem subOpt_iff (a : Nat) (b : Option Nat) : subOpt a b = true ↔ SubOpt a b := by
  unfold subOpt SubOpt
  cases b with
  | none => simp
  | some x => simp [subset_iff]

theorem memOK_iff (mem : List ST) :
    mem.all (fun m => m.o.cnodeset.isSome && subOpt m.o.nodeset m.o.cnodeset) = true ↔ MemOK mem := by
  unfold MemOK
  rw [List.all_eq_true]
  apply forall_congr'; intro m
  apply imp_congr_right; intro _
  cases h : m.o.cnodeset with
  | none => simp
  | some x => simp [subOpt, subset_iff]

theorem preN_iff (t : ST) :
    (allNodes (fun o _ _ => subOpt o.cpuset o.ccpuset) t = true ∧
     allNodes (fun o kids mem => kids.all (fun k => !isMemory k.o.type) && mem.all (fun m => isMemory m.o.type) &&
                                 (!isMemory o.type || kids.isEmpty)) t = true ∧
     allNodes (fun _ _ mem => mem.all (fun m => m.o.cnodeset.isSome && subOpt m.o.nodeset m.o.cnodeset)) t = true ∧
     allNodes (fun _ kids _ => djList (kids.map (·.o.cpuset))) t = true) ↔ AllN PreN t := by
  simp only [allNodes_iff]
  constructor
  · rintro ⟨h1, h2, h3, h4⟩
    refine AllN.imp ?_ t (AllN.and t h1 (AllN.and t h2 (AllN.and t h3 h4)))
    rintro o kids mem ⟨a, b, c, d⟩
    simp only [Bool.and_eq_true, List.all_eq_true, Bool.not_eq_true', Bool.or_eq_true, List.isEmpty_iff] at b
    refine ⟨(subOpt_iff _ _).1 a, b.1.1, b.1.2, ?_, (memOK_iff _).1 c, (djList_iff _).1 d⟩
    intro hm
    rcases b.2 with h | h
    · rw [hm] at h; cases h
    · exact h
  · intro h
    refine ⟨AllN.imp ?_ t h, AllN.imp ?_ t h, AllN.imp ?_ t h, AllN.imp ?_ t h⟩
    · rintro o kids mem ⟨a, _⟩; exact (subOpt_iff _ _).2 a
    · rintro o kids mem ⟨_, b1, b2, b3, _⟩
      simp only [Bool.and_eq_true, List.all_eq_true, Bool.not_eq_true', Bool.or_eq_true, List.isEmpty_iff]
      refine ⟨⟨b1, b2⟩, ?_⟩
      cases hm : isMemory o.type
      · exact Or.inl rfl
      · exact Or.inr (b3 hm)
    · rintro o kids mem ⟨_, _, _, _, c, _⟩; exact (memOK_iff _).2 c
    · rintro o kids mem ⟨_, _, _, _, _, d⟩; exact (djList_iff _).2 d

theorem nodesDj_iff (t : ST) :
    allNodes (fun _ kids mem => djList (mem.map (·.o.nodeset)) && djList (orL (mem.map (·.o.nodeset)) :: kids.map below)) t = true ↔
    AllN NodesDj t := by
  rw [allNodes_iff]
  constructor <;> intro h <;> refine AllN.imp ?_ t h <;> intro o kids mem hh
  · rw [Bool.and_eq_true, djList_iff, djList_iff] at hh; exact hh
  · rw [Bool.and_eq_true, djList_iff, djList_iff]; exact hh

/-- the executable check decides the precondition -/
theorem preSets_iff (i : In) : preSets i = true ↔ PreSets i := by
  unfold preSets preClauses
  simp only [List.all_cons, List.all_nil, Bool.and_true, Bool.and_eq_true]
  constructor
  · rintro ⟨h1, h2, h3, h4, h5, h6, h7⟩
    exact ⟨h1, (preN_iff _).1 ⟨h2, h3, h4, h5⟩, (nodesDj_iff _).1 h6, subset_iff.1 h7⟩
  · rintro ⟨h1, h2, h3, h4⟩
    obtain ⟨a, b, c, d⟩ := (preN_iff _).2 h2
    exact ⟨h1, a, b, c, d, (nodesDj_iff _).2 h3, subset_iff.2 h4⟩

instance (i : In) : Decidable (PreSets i) := decidable_of_iff _ (preSets_iff i)

/-! ### the whole stage -/

theorem mapObjs_allN_obj (g : SObj → SObj) (Q : SObj → Prop) (h : ∀ o, Q (g o)) : ∀ t : ST, AllN (fun o _ _ => Q o) (mapObjs g t) := by
  apply ST.ind
  intro o kids mem ihk ihm
  rw [mapObjs_node]
  refine .node (h o) ?_ ?_
  · intro c hc; obtain ⟨y, hy, rfl⟩ := List.mem_map.1 hc; exact ihk y hy
  · intro c hc; obtain ⟨y, hy, rfl⟩ := List.mem_map.1 hc; exact ihm y hy

theorem stage_post (i : In) (h : PreSets i) : AllN Post (stage i).root := by
  cases hf : i.includeDisallowed with
  | true => rw [stage_root_incl i hf]; exact core_post Shrink.id Shrink.id _ h.rootSets.1 h.nodes
  | false => rw [stage_root_excl i hf]; exact core_post (Shrink.and _) (Shrink.and _) _ h.rootSets.1 h.nodes

theorem stage_decomp (i : In) (h : PreSets i) : Decomp 0 (stage i).root := by
  cases hf : i.includeDisallowed with
  | true => rw [stage_root_incl i hf]; exact core_decomp Shrink.id _ h.nodesDj
  | false => rw [stage_root_excl i hf]; exact core_decomp (Shrink.and _) _ h.nodesDj

theorem stage_within_allowed (i : In) (hf : i.includeDisallowed = false) :
    AllN (fun o _ _ => Sub o.cpuset (stage i).allowedC ∧ Sub o.nodeset (stage i).allowedN) (stage i).root := by
  rw [stage_root_excl i hf]
  unfold core
  exact mapObjs_allN_obj _ (fun o => Sub o.cpuset (stage i).allowedC ∧ Sub o.nodeset (stage i).allowedN)
    (fun o => ⟨Sub.and_right _ _, Sub.and_right _ _⟩) _

end Hw.Topo.SetStage
