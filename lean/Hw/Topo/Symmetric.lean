import Hw.Topo.Types
/-!
  `symmetric_subtree` recomputed from the bare tree of a dump, following hwloc_propagate_symmetric_subtree (hwloc/topology.c):
  a normal object is symmetric iff it has no normal child, or all its normal children are symmetric and (when there are several) the
  chains of first children below them have the same depth and arity at every step.  Evaluated on every dump by the topology oracles
  (an executable oracle, no theorem: the public field must agree with the tree after every load and every modifying call).
-/
namespace Hw.Topo.Sym
open Hw.Topo

def getO (d : Dump) (i : Int) : Option Obj := if i < 0 then none else d.objs[i.toNat]?

/-- the `while (1)` loop: compare depth and arity of the current row, then step every entry to its first child -/
def sameShape (d : Dump) : Nat → List Obj → Bool
  | 0, _ => true
  | f + 1, arr =>
    match arr with
    | [] => true
    | a0 :: rest =>
      if rest.all (fun a => a.depth == a0.depth && a.arity == a0.arity) then
        if a0.arity == 0 then true
        else match arr.mapM (fun a => getO d a.firstChild) with
          | some next => sameShape d f next
          | none => false
      else false

def symOf (d : Dump) : Nat → Obj → Bool
  | 0, _ => true
  | f + 1, o =>
    if o.arity == 0 then true else
    match o.children.mapM (getO d) with
    | none => false
    | some cs =>
      if cs.all (symOf d f) then (if o.arity == 1 then true else sameShape d d.objs.length cs) else false

/-- [] iff the stored flag of every normal object equals the recomputed one -/
def symCheck (d : Dump) : List String :=
  match (d.objs.filter (fun o => isNormal o.type)).find? (fun o => (o.symm != 0) != symOf d (d.depth + 2) o) with
  | some o => ["symmetric-subtree@" ++ toString o.id]
  | none => []

end Hw.Topo.Sym
