/-
  Hw.Topo.Distrib — model of hwloc_distrib (include/hwloc/helper.h 959-1019).

  The output array `set[0..n)` is the returned list; the pointer `cpusetp` is the end of the list written so
  far, so `cpusetp[-1]` is its last element (the C asserts `given > 0` before using it, and `given` counts
  exactly the entries written by the current call).  Arithmetic is in `Nat`: the C computes in `unsigned`,
  the theorems and the generator stay below `n * totalWeight + totalWeight < 2^32` where both agree.
-/
import Hw.Topo.Helpers
namespace Hw.Topo

def ceilDiv (a b : Nat) : Nat := (a + b - 1) / b

/-- `(((givenweight+weight) * n + tot_weight-1) / tot_weight) - ((givenweight * n + tot_weight-1) / tot_weight)` -/
def chunkOf (given w n tot : Nat) : Nat := ceilDiv ((given + w) * n) tot - ceilDiv (given * n) tot

/-- `hwloc_bitmap_or(cpusetp[-1], cpusetp[-1], cpuset)` -/
def orIntoLast (l : List Nat) (s : Nat) : List Nat :=
  match l.reverse with
  | [] => []
  | x :: r => ((x ||| s) :: r).reverse

/-- `while (!hwloc_obj_type_is_normal(root->type)) root = root->parent;` -/
def normalAncestor (d : Dump) (o : Obj) : Obj :=
  (climbWhile d (fun a => !isNormal a.type) d.fuel (some o)).getD o

def totWeight (roots : List Obj) : Nat := (roots.map (fun r => weight (cs r))).sum

/-- one iteration of the `for` loop over the roots; state = (sets written so far, givenweight) -/
def distribStep (d : Dump) (untl : Int) (n tot : Nat) (recurse : List Obj → Nat → List Nat)
    (st : List Nat × Nat) (r : Obj) : List Nat × Nat :=
  let cpuset := cs r
  let root := normalAncestor d r
  let w := weight cpuset
  if w = 0 then st else
  let chunk := chunkOf st.2 w n tot
  let out :=
    if root.arity = 0 || chunk ≤ 1 || root.depth ≥ untl then
      (if chunk ≠ 0 then st.1 ++ List.replicate chunk cpuset else orIntoLast st.1 cpuset)
    else st.1 ++ recurse (childObjs d root) chunk
  (out, st.2 + w)

/-- the sets written by `hwloc_distrib(topology, roots, n_roots, set, n, until, flags)` for `n > 0` -/
def distribRec (d : Dump) (untl : Int) (rev : Bool) : Nat → List Obj → Nat → List Nat
  | 0, _, _ => []
  | f+1, roots, n =>
    let order := if rev then roots.reverse else roots
    (order.foldl (distribStep d untl n (totWeight roots) (distribRec d untl rev f)) ([], 0)).1

/-- hwloc_distrib: `none` = -1/EINVAL, `some sets` = 0 with the sets written (possibly none at all when every
    root has an empty cpuset) -/
def distrib (d : Dump) (roots : List Obj) (n : Nat) (untl : Int) (flags : Nat) : Option (List Nat) :=
  if n = 0 || (flags != 0 && flags != 1) then none
  else some (distribRec d untl (flags == 1) (d.depth + 1) roots n)

end Hw.Topo
