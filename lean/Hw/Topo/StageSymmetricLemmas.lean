/-
  Hw.Topo.StageSymmetricLemmas — theorems about the model of hwloc_propagate_symmetric_subtree (StageSymmetric.lean), for every tree:
  the loop is the comparison of first-children spines, the flag rule, leaves, independence of memory / I/O / Misc children,
  and the meaning of the flag (the whole subtree is uniform row by row).
-/
import Hw.Topo.StageSymmetric
import Hw.Topo.RenderLemmas
namespace Hw.Topo.Restrict.Stage
open Hw.Topo Hw.Topo.Restrict

theorem tree_indN_T {P : Tree → Prop} (h : ∀ o ns ms ios mis, (∀ c ∈ ns, P c) → P (.node o ns ms ios mis)) : ∀ t, P t :=
  tree_ind4T (Q := fun l => ∀ c ∈ l, P c) (fun o ns ms ios mis hn _ _ _ => h o ns ms ios mis hn)
    (fun _ hc => absurd hc List.not_mem_nil)
    (fun t ts ht hts c hc => by
      rcases List.mem_cons.1 hc with rfl | hc
      · exact ht
      · exact hts c hc)

theorem spineT_eq (dep : RObj → Int) (a : Tree) : spineT dep a = (dep a.obj, a.ns.length) :: spineL dep a.ns := by
  cases a; rw [spineT]; rfl

theorem spineL_cons (dep : RObj → Int) (t : Tree) (ts : List Tree) : spineL dep (t :: ts) = spineT dep t := by rw [spineL]
theorem spineL_nil (dep : RObj → Int) : spineL dep [] = [] := by rw [spineL]

theorem spineL_head (dep : RObj → Int) {l : List Tree} {b : Tree} (h : l.head? = some b) : spineL dep l = spineT dep b := by
  cases l with
  | nil => simp at h
  | cons t ts => simp only [List.head?_cons, Option.some.injEq] at h; rw [spineL_cons, h]

theorem sizeL_mem {c : Tree} {l : List Tree} (h : c ∈ l) : sizeT c ≤ sizeL l := by
  induction l with
  | nil => exact absurd h List.not_mem_nil
  | cons t ts ih =>
    rw [sizeL]
    rcases List.mem_cons.1 h with rfl | h
    · omega
    · have := ih h; omega

/-- the spine is no longer than the subtree has objects: the fuel handed to `walk` suffices -/
theorem spineT_length_le (dep : RObj → Int) : ∀ t, (spineT dep t).length ≤ sizeT t := by
  apply tree_indN_T
  intro o ns ms ios mis ih
  rw [spineT, sizeT, List.length_cons]
  cases ns with
  | nil => rw [spineL_nil]; simp
  | cons c cs =>
    rw [spineL_cons]
    have := ih c (List.mem_cons_self ..)
    have h2 : sizeT c ≤ sizeL (c :: cs) := sizeL_mem (List.mem_cons_self ..)
    omega

theorem spineL_length_le (dep : RObj → Int) (l : List Tree) : (spineL dep l).length ≤ sizeL l := by
  cases l with
  | nil => rw [spineL_nil]; simp
  | cons c cs =>
    rw [spineL_cons]
    have := spineT_length_le dep c
    have h2 : sizeT c ≤ sizeL (c :: cs) := sizeL_mem (List.mem_cons_self ..)
    omega

theorem rowSame_iff (dep : RObj → Int) (a0 : Tree) (rest : List Tree) :
    rowSame dep a0 rest = true ↔ ∀ a ∈ rest, dep a.obj = dep a0.obj ∧ a.ns.length = a0.ns.length := by
  simp only [rowSame, List.all_eq_true, Bool.and_eq_true, beq_iff_eq]

/-- **the `while (1)` loop is the comparison of spines**: with enough fuel (the length of the spine of entry 0; `sizeL` of the array
    is enough, `spineL_length_le`) the loop ends with "identical" iff every entry of the array has the same sequence of
    (depth, arity) along its chain of first children as entry 0 -/
theorem walk_iff (dep : RObj → Int) : ∀ (fuel : Nat) (arr : List Tree), (spineL dep arr).length ≤ fuel →
    (walk dep fuel arr = true ↔ ∀ a ∈ arr, spineT dep a = spineL dep arr)
  | fuel, [], _ => by cases fuel <;> simp [walk]
  | 0, a0 :: rest, h => by rw [spineL_cons, spineT_eq] at h; simp at h
  | f + 1, a0 :: rest, h => by
    rw [spineL_cons, spineT_eq] at h
    rw [walk, spineL_cons]
    by_cases hr : rowSame dep a0 rest = true
    · rw [if_pos hr]
      have hr' := (rowSame_iff dep a0 rest).1 hr
      by_cases he : a0.ns.isEmpty = true
      · rw [if_pos he]
        have hns0 : a0.ns = [] := List.isEmpty_iff.1 he
        refine ⟨fun _ a ha => ?_, fun _ => rfl⟩
        rcases List.mem_cons.1 ha with rfl | ha
        · rfl
        · obtain ⟨h1, h2⟩ := hr' a ha
          have : a.ns = [] := List.eq_nil_of_length_eq_zero (by rw [h2, hns0]; rfl)
          rw [spineT_eq, spineT_eq dep a0, h1, h2, this, hns0]
      · rw [if_neg he]
        obtain ⟨c0, cs, hc⟩ : ∃ c0 cs, a0.ns = c0 :: cs := by
          cases hh : a0.ns with
          | nil => rw [hh] at he; exact absurd rfl he
          | cons c0 cs => exact ⟨c0, cs, rfl⟩
        have hnx : (a0 :: rest).filterMap (fun a => a.ns.head?) = c0 :: rest.filterMap (fun a => a.ns.head?) := by
          rw [List.filterMap_cons, hc]; rfl
        have hl0 : spineL dep a0.ns = spineT dep c0 := by rw [hc, spineL_cons]
        have hfuel : (spineL dep ((a0 :: rest).filterMap (fun a => a.ns.head?))).length ≤ f := by
          rw [hnx, spineL_cons, ← hl0]
          simp only [List.length_cons] at h; omega
        rw [walk_iff dep f _ hfuel, hnx, spineL_cons]
        constructor
        · intro hall a ha
          rcases List.mem_cons.1 ha with rfl | ha
          · rfl
          · obtain ⟨h1, h2⟩ := hr' a ha
            cases hh : a.ns with
            | nil => rw [hh, hc] at h2; simp at h2
            | cons b bs =>
              have hb : b ∈ c0 :: rest.filterMap (fun a => a.ns.head?) :=
                List.mem_cons_of_mem _ (List.mem_filterMap.2 ⟨a, ha, by rw [hh]; rfl⟩)
              rw [spineT_eq, spineT_eq dep a0, h1, h2, hl0, hh, spineL_cons, hall b hb]
        · intro hall b hb
          rcases List.mem_cons.1 hb with rfl | hb
          · rfl
          · obtain ⟨a, ha, hab⟩ := List.mem_filterMap.1 hb
            have := hall a (List.mem_cons_of_mem _ ha)
            rw [spineT_eq, spineT_eq dep a0, spineL_head dep hab, hl0] at this
            exact (List.cons.inj this).2
    · rw [if_neg hr]
      refine ⟨fun hf => absurd hf (by simp), fun hall => absurd ((rowSame_iff dep a0 rest).2 (fun a ha => ?_)) hr⟩
      have := hall a (List.mem_cons_of_mem _ ha)
      rw [spineT_eq, spineT_eq dep a0] at this
      have := (List.cons.inj this).1
      exact ⟨(Prod.mk.inj this).1, (Prod.mk.inj this).2⟩

theorem symAllL_iff (dep : RObj → Int) (l : List Tree) : symAllL dep l = true ↔ ∀ c ∈ l, symT dep c = true := by
  induction l with
  | nil => rw [symAllL]; simp
  | cons t ts ih => rw [symAllL, Bool.and_eq_true, ih]; simp

/-- **the flag rule**: an object is symmetric iff it has no normal child, or all its normal children are symmetric and every one of
    them has the same first-children spine — the (depth, arity) of the child, of its first child, of the first child of that, … —
    as the first one.  (With a single child the second part holds trivially: the C takes the `arity == 1` shortcut.) -/
theorem symT_iff (dep : RObj → Int) (o : RObj) (ns ms ios mis : List Tree) :
    symT dep (.node o ns ms ios mis) = true ↔
      ns = [] ∨ ((∀ c ∈ ns, symT dep c = true) ∧ ∀ c ∈ ns, spineT dep c = spineL dep ns) := by
  rw [symT, Bool.or_eq_true, Bool.and_eq_true, Bool.or_eq_true, symAllL_iff, walk_iff dep _ _ (spineL_length_le dep ns),
    List.isEmpty_iff]
  refine or_congr Iff.rfl (and_congr Iff.rfl ⟨fun h => ?_, fun h => Or.inr h⟩)
  rcases h with h | h
  · match ns, h with
    | [c], _ => intro c' hc'; rw [List.mem_singleton.1 hc', spineL_cons]
  · exact h

/-- an object without normal child (every PU of a topology whose PUs are leaves) is symmetric, whatever hangs in its other lists -/
theorem symT_leaf (dep : RObj → Int) (o : RObj) (ms ios mis : List Tree) : symT dep (.node o [] ms ios mis) = true := by
  rw [symT]; rfl

theorem skelT_eq (t : Tree) : skelT t = .node t.obj (skelL t.ns) [] [] [] := by cases t; rw [skelT]; rfl
theorem skelL_eq (l : List Tree) : skelL l = l.map skelT := by
  induction l with
  | nil => rw [skelL]; rfl
  | cons t ts ih => rw [skelL, ih]; rfl

theorem spineT_skel (dep : RObj → Int) : ∀ t, spineT dep (skelT t) = spineT dep t := by
  apply tree_indN_T
  intro o ns ms ios mis ih
  rw [skelT, spineT, spineT, skelL_eq, List.length_map]
  cases ns with
  | nil => rfl
  | cons c cs => rw [List.map_cons, spineL_cons, spineL_cons, ih c (List.mem_cons_self ..)]

theorem spineL_skel (dep : RObj → Int) (l : List Tree) : spineL dep (l.map skelT) = spineL dep l := by
  cases l with
  | nil => rfl
  | cons c cs => rw [List.map_cons, spineL_cons, spineL_cons, spineT_skel]

/-- **independence**: the flag is a function of the normal-children skeleton (and of the depths) alone — memory, I/O and Misc
    children, anywhere in the subtree, do not matter -/
theorem symT_skel (dep : RObj → Int) : ∀ t, symT dep (skelT t) = symT dep t := by
  apply tree_indN_T
  intro o ns ms ios mis ih
  rw [Bool.eq_iff_iff, skelT, symT_iff, symT_iff, skelL_eq, spineL_skel]
  refine or_congr (by simp) (and_congr ?_ ?_)
  · constructor
    · intro h c hc; rw [← ih c hc]; exact h _ (List.mem_map_of_mem hc)
    · intro h c' hc'; obtain ⟨c, hc, rfl⟩ := List.mem_map.1 hc'; rw [ih c hc]; exact h c hc
  · constructor
    · intro h c hc; rw [← spineT_skel]; exact h _ (List.mem_map_of_mem hc)
    · intro h c' hc'; obtain ⟨c, hc, rfl⟩ := List.mem_map.1 hc'; rw [spineT_skel]; exact h c hc

mutual
theorem symsT_skel (dep : RObj → Int) : ∀ t, symsT dep (skelT t) = symsT dep t
  | .node o ns ms ios mis => by
    have h := symT_skel dep (.node o ns ms ios mis)
    rw [skelT] at h
    rw [skelT, symsT, symsT, h, symsL_skel dep ns]
theorem symsL_skel (dep : RObj → Int) : ∀ l, symsL dep (skelL l) = symsL dep l
  | [] => by rw [skelL]
  | t :: ts => by rw [skelL, symsL, symsL, symsT_skel dep t, symsL_skel dep ts]
end

/-- two trees with the same normal-children skeleton get the same flags -/
theorem symsT_congr_skel (dep : RObj → Int) (t t' : Tree) (h : skelT t = skelT t') : symsT dep t = symsT dep t' := by
  rw [← symsT_skel dep t, h, symsT_skel]

/-! ### what the flag means -/

theorem uniformL_iff (dep : RObj → Int) (l : List Tree) (sp : List (Int × Nat)) :
    uniformL dep l sp ↔ ∀ c ∈ l, uniformT dep c sp := by
  induction l with
  | nil => rw [uniformL]; simp
  | cons t ts ih => rw [uniformL, ih]; simp

theorem uniformT_node (dep : RObj → Int) (o : RObj) (ns ms ios mis : List Tree) (x : Int × Nat) (sp : List (Int × Nat)) :
    uniformT dep (.node o ns ms ios mis) (x :: sp) ↔ x = (dep o, ns.length) ∧ (ns = [] → sp = []) ∧ ∀ c ∈ ns, uniformT dep c sp := by
  rw [uniformT, uniformL_iff]

theorem uniformT_spine (dep : RObj → Int) : ∀ t sp, uniformT dep t sp → spineT dep t = sp := by
  apply tree_indN_T (P := fun t => ∀ sp, uniformT dep t sp → spineT dep t = sp)
  intro o ns ms ios mis ih sp h
  cases sp with
  | nil => rw [uniformT] at h; exact h.elim
  | cons x sp =>
    obtain ⟨h1, h2, h3⟩ := (uniformT_node ..).1 h
    rw [spineT, h1]
    cases ns with
    | nil => rw [spineL_nil, h2 rfl]
    | cons c cs => rw [spineL_cons, ih c (List.mem_cons_self ..) sp (h3 c (List.mem_cons_self ..))]

/-- **meaning of the flag**: `symmetric_subtree` is set iff the subtree is uniform row by row — every object at distance k below
    the object (through normal children) has the depth and the arity found at position k of the first-children spine, and all
    branches end on the same row.  So although the C only walks down first children, together with the recursive flags of the
    children it decides full symmetry. -/
theorem symT_iff_uniform (dep : RObj → Int) : ∀ t, symT dep t = true ↔ uniformT dep t (spineT dep t) := by
  apply tree_indN_T
  intro o ns ms ios mis ih
  rw [symT_iff, spineT, uniformT_node]
  constructor
  · rintro (h | ⟨h1, h2⟩)
    · subst h; exact ⟨rfl, fun _ => spineL_nil dep, fun c hc => absurd hc List.not_mem_nil⟩
    · refine ⟨rfl, fun hn => by rw [hn, spineL_nil], fun c hc => ?_⟩
      rw [← h2 c hc]; exact (ih c hc).1 (h1 c hc)
  · rintro ⟨_, _, h3⟩
    by_cases hn : ns = []
    · exact Or.inl hn
    · refine Or.inr ⟨fun c hc => (ih c hc).2 ?_, fun c hc => uniformT_spine dep c _ (h3 c hc)⟩
      rw [uniformT_spine dep c _ (h3 c hc)]; exact h3 c hc

mutual
/-- the flags written = the rule evaluated at every visited subtree -/
theorem symsT_eq_map (dep : RObj → Int) : ∀ t, symsT dep t = (subsN t).map (fun s => (s.obj.gp, symT dep s))
  | .node o ns ms ios mis => by rw [symsT, subsN, List.map_cons, symsL_eq_map dep ns]; rfl
theorem symsL_eq_map (dep : RObj → Int) : ∀ l, symsL dep l = (subsNL l).map (fun s => (s.obj.gp, symT dep s))
  | [] => by rw [symsL, subsNL]; rfl
  | t :: ts => by rw [symsL, subsNL, List.map_append, symsT_eq_map dep t, symsL_eq_map dep ts]
end

/-- the visited objects are the normal objects of the tree, each once, in depth-first order -/
theorem symsT_length (dep : RObj → Int) : ∀ t, (symsT dep t).length = sizeT (skelT t) := by
  suffices h : (∀ t, (symsT dep t).length = sizeT (skelT t)) ∧ (∀ l, (symsL dep l).length = sizeL (skelL l)) from h.1
  have hnode : ∀ o ns ms ios mis, (symsL dep ns).length = sizeL (skelL ns) → (symsL dep ms).length = sizeL (skelL ms) →
      (symsL dep ios).length = sizeL (skelL ios) → (symsL dep mis).length = sizeL (skelL mis) →
      (symsT dep (.node o ns ms ios mis)).length = sizeT (skelT (.node o ns ms ios mis)) := by
    intro o ns ms ios mis h1 _ _ _
    rw [symsT, skelT, sizeT, List.length_cons, h1]; simp only [sizeL]; omega
  have hnil : (symsL dep []).length = sizeL (skelL []) := by rw [symsL, skelL, sizeL]; rfl
  have hcons : ∀ t ts, (symsT dep t).length = sizeT (skelT t) → (symsL dep ts).length = sizeL (skelL ts) →
      (symsL dep (t :: ts)).length = sizeL (skelL (t :: ts)) := by
    intro t ts h1 h2; rw [symsL, skelL, sizeL, List.length_append, h1, h2]
  exact ⟨tree_ind4T hnode hnil hcons, tree_ind4L hnode hnil hcons⟩

end Hw.Topo.Restrict.Stage
