/-
  Hw.Topo.SetStageShape — the stage loses no object and invents none: the objects of the output, each with its gp_index, type,
  os_index, the gp_index of its parent and the kind of children list it is in, are a permutation of the input's (the order of normal
  children may change, nothing else).
-/
import Hw.Topo.SetStagePre
namespace Hw.Topo.SetStage
open Hw.Topo

def ident (o : SObj) : Nat × Nat × Nat := (o.gp, o.type, o.os)

/-- (gp_index of the parent, in a memory list, (gp_index, type, os_index)) of every object, depth-first -/
def ids (parent : Int) (isMem : Bool) (t : ST) : List (Int × Bool × Nat × Nat × Nat) :=
  (rows parent isMem t).map (fun r => (r.1, r.2.1, ident r.2.2))

theorem rowsL_eq (p : Int) (m : Bool) (l : List ST) : rowsL p m l = l.flatMap (rows p m) := by
  induction l with
  | nil => rfl
  | cons c cs ih => simp [rowsL, ih]

theorem ids_node (p : Int) (m : Bool) (o : SObj) (kids mem : List ST) :
    ids p m (.node o kids mem) = (p, m, ident o) :: (kids.flatMap (ids o.gp false) ++ mem.flatMap (ids o.gp true)) := by
  unfold ids
  rw [rows, rowsL_eq, rowsL_eq]
  simp [List.map_flatMap]

/-- `u` is `t` with other sets, the normal children possibly permuted -/
inductive Sim : ST → ST → Prop
  | node {a b : SObj} {ka ma kb : List ST} {fk fm : ST → ST} :
      ident a = ident b → (∀ k ∈ ka, Sim k (fk k)) → (∀ m ∈ ma, Sim m (fm m)) → kb.Perm (ka.map fk) →
      Sim (.node a ka ma) (.node b kb (ma.map fm))

theorem perm_flatMap_congr {α β : Type} {l : List α} {f g : α → List β} (h : ∀ x ∈ l, (f x).Perm (g x)) :
    (l.flatMap f).Perm (l.flatMap g) := by
  induction l with
  | nil => exact List.Perm.refl _
  | cons a r ih =>
    simp only [List.flatMap_cons]
    exact (h a (List.mem_cons_self ..)).append (ih (fun x hx => h x (List.mem_cons_of_mem _ hx)))

theorem Sim.ids_perm {t u : ST} (h : Sim t u) : ∀ (p : Int) (m : Bool), (ids p m u).Perm (ids p m t) := by
  induction h with
  | @node a b ka ma kb fk fm hid _ _ hperm ihk ihm =>
    intro p m
    rw [ids_node, ids_node]
    have hgp : b.gp = a.gp := by
      have := congrArg (fun x => x.1) hid
      exact this.symm
    rw [← hid, hgp]
    refine List.Perm.cons _ (List.Perm.append ?_ ?_)
    · refine (List.Perm.flatMap_right _ hperm).trans ?_
      rw [List.flatMap_map]
      exact perm_flatMap_congr (fun k hk => ihk k hk _ _)
    · rw [List.flatMap_map]
      exact perm_flatMap_congr (fun k hk => ihm k hk _ _)

theorem Sim.refl : ∀ t : ST, Sim t t := by
  apply ST.ind
  intro o kids mem ihk ihm
  have := Sim.node (a := o) (b := o) (ka := kids) (ma := mem) (kb := kids) (fk := fun x => x) (fm := fun x => x) rfl ihk ihm
    (by simp)
  simpa using this

theorem propagate_shape (inh : Nat) (o : SObj) (kids mem : List ST) :
    ∃ o1, propagate inh (.node o kids mem) = .node o1 (kids.map (propagate (orNs inh mem))) mem ∧ ident o = ident o1 :=
  ⟨_, propagate_node inh o kids mem, rfl⟩

theorem sim_propagate : ∀ (t : ST) (inh : Nat), Sim t (propagate inh t) := by
  apply ST.ind
  intro o kids mem ihk _ inh
  obtain ⟨o1, hp, hid⟩ := propagate_shape inh o kids mem
  rw [hp]
  have := Sim.node (a := o) (ka := kids) (ma := mem) (fk := propagate (orNs inh mem)) (fm := fun x => x) (b := o1)
    (kb := kids.map (propagate (orNs inh mem))) hid (fun k hk => ihk k hk _) (fun m _ => Sim.refl m) (List.Perm.refl _)
  simpa using this

theorem sim_fixupChild : ∀ (t : ST) (p : SObj), Sim t (fixupChild p t) := by
  apply ST.ind
  intro o kids mem ihk ihm p
  rw [fixupChild_node]
  refine Sim.node ?_ (fun k hk => ihk k hk _) (fun m hm => ihm m hm _) (reorderIfNeeded_perm _)
  have := fixChild_fields p o
  simp [ident, this.1, this.2.1, this.2.2.1]

theorem sim_fixupSets (t : ST) : Sim t (fixupSets t) := by
  cases t with
  | node o kids mem =>
    rw [fixupSets_node]
    exact Sim.node rfl (fun k _ => sim_fixupChild k o) (fun m _ => sim_fixupChild m o) (reorderIfNeeded_perm _)

theorem sim_mapObjs (g : SObj → SObj) (hg : ∀ o, ident o = ident (g o)) : ∀ t : ST, Sim t (mapObjs g t) := by
  apply ST.ind
  intro o kids mem ihk ihm
  rw [mapObjs_node]
  exact Sim.node (hg o) ihk ihm (List.Perm.refl _)

theorem sim_fixupRoot (t : ST) : Sim t (fixupRoot t) := by
  cases t with
  | node o kids mem =>
    have := Sim.node (a := o) (ka := kids) (ma := mem) (fk := fun x => x) (fm := fun x => x)
      (b := { o with cpuset := o.cpuset &&& o.ccpuset.getD 0, nodeset := o.nodeset &&& o.cnodeset.getD 0 })
      (kb := kids) rfl (fun k _ => Sim.refl k) (fun m _ => Sim.refl m) (by simp)
    simpa [fixupRoot] using this

/-- **no object is lost, none appears, every object keeps its parent and its list** -/
theorem stage_ids_perm (i : In) : (ids (-1) false (stage i).root).Perm (ids (-1) false i.root) := by
  have h1 := (sim_fixupRoot i.root).ids_perm (-1) false
  have h2 := (sim_propagate (fixupRoot i.root) 0).ids_perm (-1) false
  have h3 := (sim_fixupSets (propagate 0 (fixupRoot i.root))).ids_perm (-1) false
  have h123 := h3.trans (h2.trans h1)
  unfold stage
  simp only
  split
  · exact h123
  · rw [removeUnused_eq]
    exact ((sim_mapObjs (shrinkObj _ _) (fun _ => rfl) _).ids_perm (-1) false).trans h123

end Hw.Topo.SetStage
