/-
  Hw.Topo.Helpers — model of the traversal / locality helpers of include/hwloc/helper.h,
  include/hwloc/inlines.h and hwloc/traversal.c (172-264, 846-961) over a topology `Dump`.

  Conventions
  * objects are `Obj` records of the dump; a C pointer is `Option Obj` (`none` = NULL); pointer equality is
    equality of the DFS ids (`Obj.id`);
  * cpusets / nodesets are finite sets as `Nat` masks (`cs o`, `nsOf o`; a NULL set reads as 0, every function
    that dereferences a possibly-NULL set tests `isSome` exactly where the C does);
  * every C `while` loop that follows pointers (`next_cousin`, `prev_cousin`, `next_sibling`, `parent`) is a
    fuel-bounded pointer chase over the dump's link fields (`chain`, `climbWhile`, …): the fuel is the number
    of objects (+1), which the lemmas show to suffice on a well-formed dump;
  * `children[i]` array accesses read the dump's `children` list (`childObjs`).
-/
import Hw.Topo.Types
import Hw.Topo.WF
namespace Hw.Topo

/-! ### sets as masks -/

def cs (o : Obj) : Nat := o.cpuset.getD 0
def nsOf (o : Obj) : Nat := o.nodeset.getD 0
def intersects (a b : Nat) : Bool := a &&& b != 0
def andnot (a b : Nat) : Nat := a ^^^ (a &&& b)
/-- indexes of the set bits, ascending -/
def bits (n : Nat) : List Nat := (List.range (n.log2 + 1)).filter (fun i => n.testBit i)
/-- hwloc_bitmap_weight of a finite set -/
def weight (n : Nat) : Nat := (bits n).length
def orAll (l : List Nat) : Nat := l.foldl (· ||| ·) 0

/-! ### pointers, chains -/

def Dump.fuel (d : Dump) : Nat := d.objs.length + 1
def Dump.rootObj? (d : Dump) : Option Obj := d.obj? 0
def parentOf (d : Dump) (o : Obj) : Option Obj := d.obj? o.parent

/-- the objects reached from `start` by repeatedly following the link `next` (pointer chase with fuel) -/
def chain (d : Dump) (next : Obj → Int) : Nat → Option Obj → List Obj
  | _, none => []
  | 0, some _ => []
  | f+1, some o => o :: chain d next f (d.obj? (next o))

def cousinsFrom (d : Dump) (start : Option Obj) : List Obj := chain d (·.nextCousin) d.fuel start
def prevCousinsFrom (d : Dump) (start : Option Obj) : List Obj := chain d (·.prevCousin) d.fuel start
def siblingsFrom (d : Dump) (start : Option Obj) : List Obj := chain d (·.nextSib) d.fuel start
/-- `for (child = o->first_child; child; child = child->next_sibling)` -/
def childChain (d : Dump) (o : Obj) : List Obj := siblingsFrom d (d.obj? o.firstChild)
def ioChildChain (d : Dump) (o : Obj) : List Obj := siblingsFrom d (d.obj? o.ioFirst)
/-- `o->children[0..arity)` -/
def childObjs (d : Dump) (o : Obj) : List Obj := o.children.filterMap d.obj?
/-- `o, o->parent, o->parent->parent, …` -/
def ancestorsSelf (d : Dump) (o : Obj) : List Obj := chain d (·.parent) d.fuel (some o)

/-- `while (p && cond p) p = p->parent;` — result `none` = NULL (or fuel exhausted) -/
def climbWhile (d : Dump) (cond : Obj → Bool) : Nat → Option Obj → Option Obj
  | _, none => none
  | 0, some _ => none
  | f+1, some o => if cond o then climbWhile d cond f (d.obj? o.parent) else some o

/-! ### levels, type <-> depth (inlines.h, traversal.c 20-103) -/

def levelIds (d : Dump) (depth : Int) : List Int := match levelOf d depth with | some l => l.objs | none => []
def levelObjs (d : Dump) (depth : Int) : List Obj := (levelIds d depth).filterMap d.obj?
/-- hwloc_get_obj_by_depth -/
def objByDepth (d : Dump) (depth : Int) (idx : Nat) : Option Obj := (levelObjs d depth)[idx]?
def nbobjsByDepth (d : Dump) (depth : Int) : Nat := (levelObjs d depth).length

def depthUnknown : Int := -1
def depthMultiple : Int := -2
/-- hwloc_get_type_depth (any int as type) -/
def typeDepth (d : Dump) (t : Int) : Int :=
  if 0 ≤ t ∧ t < (tMAX : Int) then (d.typeDepths[t.toNat]?).getD depthUnknown else depthUnknown
/-- hwloc_get_depth_type; HWLOC_OBJ_TYPE_NONE = -1 -/
def depthType (d : Dump) (depth : Int) : Int :=
  if 0 ≤ depth ∧ depth < (d.depth : Int) then
    match (levelObjs d depth).head? with | some o => (o.type : Int) | none => -1
  else if depth == -3 then tNUMA else if depth == -4 then tBRIDGE else if depth == -5 then tPCI
  else if depth == -6 then tOSDEV else if depth == -7 then tMISC else if depth == -8 then tMEMCACHE else -1

def isSingleDepth (depth : Int) : Bool := depth != depthUnknown && depth != depthMultiple

/-- hwloc_get_nbobjs_by_type -/
def nbobjsByType (d : Dump) (t : Int) : Int :=
  let depth := typeDepth d t
  if depth == depthUnknown then 0 else if depth == depthMultiple then -1 else (nbobjsByDepth d depth : Int)
/-- hwloc_get_obj_by_type -/
def objByType (d : Dump) (t : Int) (idx : Nat) : Option Obj :=
  let depth := typeDepth d t
  if isSingleDepth depth then objByDepth d depth idx else none
/-- hwloc_get_next_obj_by_depth -/
def nextByDepth (d : Dump) (depth : Int) (prev : Option Obj) : Option Obj :=
  match prev with
  | none => objByDepth d depth 0
  | some p => if p.depth != depth then none else d.obj? p.nextCousin
/-- hwloc_get_next_obj_by_type -/
def nextByType (d : Dump) (t : Int) (prev : Option Obj) : Option Obj :=
  let depth := typeDepth d t
  if isSingleDepth depth then nextByDepth d depth prev else none

/-- `obj = NULL; while ((obj = next(obj)) != NULL) …` : the objects visited -/
def iterNext (next : Option Obj → Option Obj) : Nat → Option Obj → List Obj
  | 0, _ => []
  | f+1, prev => match next prev with
    | none => []
    | some o => o :: iterNext next f (some o)

/-- hwloc_get_pu_obj_by_os_index / hwloc_get_numanode_obj_by_os_index -/
def objByOsIndex (d : Dump) (t : Int) (os : Int) : Option Obj :=
  (iterNext (nextByType d t) d.fuel none).find? (fun o => o.osidx == os)

/-! ### covering (helper.h 374-412) -/

/-- hwloc_get_child_covering_cpuset -/
def childCovering (d : Dump) (S : Nat) (parent : Obj) : Option Obj :=
  if S == 0 then none else (childChain d parent).find? (fun c => c.cpuset.isSome && subset S (cs c))

def coveringFrom (d : Dump) (S : Nat) : Nat → Obj → Obj
  | 0, cur => cur
  | f+1, cur => match childCovering d S cur with
    | none => cur
    | some c => coveringFrom d S f c

/-- hwloc_get_obj_covering_cpuset -/
def objCovering (d : Dump) (S : Nat) : Option Obj :=
  match d.rootObj? with
  | none => none
  | some r => if S == 0 || !subset S (cs r) then none else some (coveringFrom d S d.fuel r)

/-! ### largest objects inside (helper.h 122-147, traversal.c 211-264) -/

def firstLargestFrom (d : Dump) (S : Nat) : Nat → Obj → Obj
  | 0, o => o
  | f+1, o =>
    if subset (cs o) S then o else
    match (childChain d o).find? (fun c => intersects (cs c) S) with
    | none => o
    | some c => firstLargestFrom d S f c

/-- hwloc_get_first_largest_obj_inside_cpuset -/
def firstLargest (d : Dump) (S : Nat) : Option Obj :=
  match d.rootObj? with
  | none => none
  | some r => if !intersects (cs r) S then none else some (firstLargestFrom d S d.fuel r)

/-- hwloc__get_largest_objs_inside_cpuset: the objects appended to `res`, in order, with `max > 0` slots left.
    The `break` when `*max` reaches 0 is the `acc.length ≥ max` guard. -/
def largestRec (d : Dump) : Nat → Obj → Nat → Nat → List Obj
  | 0, _, _, _ => []
  | f+1, cur, S, max =>
    if max = 0 then [] else
    if cs cur == S then [cur] else
    (childObjs d cur).foldl (fun (acc : List Obj) c =>
        if acc.length ≥ max then acc
        else if !intersects S (cs c) then acc
        else acc ++ largestRec d f c (S &&& cs c) (max - acc.length)) []

/-- hwloc_get_largest_objs_inside_cpuset: (return value, objects stored) -/
def largestObjs (d : Dump) (S : Nat) (max : Int) : Int × List Obj :=
  match d.rootObj? with
  | none => (-1, [])
  | some r =>
    if !subset S (cs r) then (-1, [])
    else if max ≤ 0 then (0, [])
    else let l := largestRec d d.fuel r S max.toNat; ((l.length : Int), l)

/-! ### iterators inside / covering a cpuset (helper.h 169-366, 427-470) -/

def insideOk (S : Nat) (o : Obj) : Bool := cs o != 0 && subset (cs o) S
def coverOk (S : Nat) (o : Obj) : Bool := intersects S (cs o)

/-- hwloc_get_next_obj_inside_cpuset_by_depth -/
def nextInsideByDepth (d : Dump) (S : Nat) (depth : Int) (prev : Option Obj) : Option Obj :=
  (cousinsFrom d (nextByDepth d depth prev)).find? (insideOk S)
/-- hwloc_get_next_obj_inside_cpuset_by_type -/
def nextInsideByType (d : Dump) (S : Nat) (t : Int) (prev : Option Obj) : Option Obj :=
  let depth := typeDepth d t
  if isSingleDepth depth then nextInsideByDepth d S depth prev else none
/-- hwloc_get_obj_inside_cpuset_by_depth -/
def objInsideByDepth (d : Dump) (S : Nat) (depth : Int) (idx : Nat) : Option Obj :=
  ((cousinsFrom d (objByDepth d depth 0)).filter (insideOk S))[idx]?
def objInsideByType (d : Dump) (S : Nat) (t : Int) (idx : Nat) : Option Obj :=
  let depth := typeDepth d t
  if isSingleDepth depth then objInsideByDepth d S depth idx else none
/-- hwloc_get_nbobjs_inside_cpuset_by_depth -/
def nbobjsInsideByDepth (d : Dump) (S : Nat) (depth : Int) : Nat :=
  (cousinsFrom d (objByDepth d depth 0)).countP (insideOk S)
def nbobjsInsideByType (d : Dump) (S : Nat) (t : Int) : Int :=
  let depth := typeDepth d t
  if depth == depthUnknown then 0 else if depth == depthMultiple then -1 else (nbobjsInsideByDepth d S depth : Int)
/-- hwloc_get_obj_index_inside_cpuset (no emptiness test on `obj` itself, as in the C) -/
def indexInside (d : Dump) (S : Nat) (obj : Obj) : Int :=
  if !subset (cs obj) S then -1
  else (((prevCousinsFrom d (d.obj? obj.prevCousin)).countP (insideOk S) : Nat) : Int)
/-- hwloc_get_next_obj_covering_cpuset_by_depth -/
def nextCoveringByDepth (d : Dump) (S : Nat) (depth : Int) (prev : Option Obj) : Option Obj :=
  (cousinsFrom d (nextByDepth d depth prev)).find? (coverOk S)
def nextCoveringByType (d : Dump) (S : Nat) (t : Int) (prev : Option Obj) : Option Obj :=
  let depth := typeDepth d t
  if isSingleDepth depth then nextCoveringByDepth d S depth prev else none

/-! ### ancestors (helper.h 488-575) -/

/-- hwloc_get_ancestor_obj_by_depth -/
def ancestorByDepth (d : Dump) (depth : Int) (obj : Obj) : Option Obj :=
  if obj.depth < depth then none else climbWhile d (fun a => decide (a.depth > depth)) d.fuel (some obj)
/-- hwloc_get_ancestor_obj_by_type -/
def ancestorByType (d : Dump) (t : Int) (obj : Obj) : Option Obj :=
  climbWhile d (fun a => (a.type : Int) != t) d.fuel (d.obj? obj.parent)

/-- `while (o->depth > target) o = o->parent;`  — `none` = NULL dereference (or fuel exhausted).
    (Used by the pre-fix common-ancestor loop; kept for `ancestorByDepth`, which is the same climb.) -/
def climbDeeper (d : Dump) : Nat → Obj → Int → Option Obj
  | 0, _, _ => none
  | f+1, o, t => if o.depth > t then (match d.obj? o.parent with
      | none => none
      | some p => climbDeeper d f p t) else some o

/-- hwloc_get_common_ancestor_obj (helper.h, after fix 82dfc45), the literal depth-free double loop
    `for (a = obj1; a; a = a->parent) for (b = obj2; b; b = b->parent) if (a == b) return a; return NULL;`
    — valid for any mix of normal / memory / I/O / Misc objects.  `none` = NULL. -/
def commonAncestor (d : Dump) (o1 o2 : Obj) : Option Obj :=
  (ancestorsSelf d o1).find? (fun a => (ancestorsSelf d o2).any (fun b => a.id == b.id))

/-- hwloc_obj_is_in_subtree -/
def isInSubtree (o root : Obj) : Bool := o.cpuset.isSome && root.cpuset.isSome && subset (cs o) (cs root)

/-! ### closest objects (traversal.c 172-209) -/

/-- the inner `while (1)`: climb while the parent's cpuset equals ours; `none` = reached the root (`goto out`) -/
def skipEqualParents (d : Dump) : Nat → Obj → Option (Obj × Obj)
  | 0, _ => none
  | f+1, p => match d.obj? p.parent with
    | none => none
    | some np => if cs p == cs np then skipEqualParents d f np else some (p, np)

def closestLoop (d : Dump) (lvl : List Obj) (max : Nat) : Nat → Obj → List Obj → List Obj
  | 0, _, acc => acc
  | f+1, parent, acc =>
    if acc.length ≥ max then acc else
    match skipEqualParents d d.fuel parent with
    | none => acc
    | some (p, np) =>
      let acc' := (acc ++ lvl.filter (fun o => subset (cs o) (cs np) && !subset (cs o) (cs p))).take max
      if acc'.length ≥ max then acc' else closestLoop d lvl max f np acc'

/-- hwloc_get_closest_objs (after fix 07339b9 the level of `src` is read with hwloc_get_obj_by_depth, so memory
    objects — negative depth, non-NULL cpuset — are valid sources) -/
def closestObjs (d : Dump) (src : Obj) (max : Nat) : List Obj :=
  if src.cpuset.isNone then [] else closestLoop d (levelObjs d src.depth) max d.fuel src []

/-! ### cpuset <-> nodeset (helper.h 1154-1195) -/

/-- hwloc_cpuset_to_nodeset -/
def cpusetToNodeset (d : Dump) (S : Nat) : Nat :=
  let depth := typeDepth d tNUMA
  (iterNext (nextCoveringByDepth d S depth) d.fuel none).foldl (fun acc o => acc ||| single o.osidx.toNat) 0
/-- hwloc_cpuset_from_nodeset -/
def cpusetFromNodeset (d : Dump) (N : Nat) : Nat :=
  let depth := typeDepth d tNUMA
  (iterNext (nextByDepth d depth) d.fuel none).foldl
    (fun acc o => if N.testBit o.osidx.toNat then acc ||| cs o else acc) 0

/-! ### same locality (traversal.c 877-961) -/

inductive Err | EINVAL | ENOENT
deriving Repr, DecidableEq

def lowerStr (s : String) : List Char := s.toList.map Char.toLower
/-- `subtype && (!x || strcasecmp(subtype, x))` is false -/
def subtypeOk (subtype : Option String) (x : Option String) : Bool :=
  match subtype with
  | none => true
  | some s => match x with | none => false | some y => lowerStr s == lowerStr y
/-- `nameprefix && (!x || strncasecmp(nameprefix, x, strlen(nameprefix)))` is false -/
def prefixOk (pre : Option String) (x : Option String) : Bool :=
  match pre with
  | none => true
  | some s => match x with | none => false | some y => (lowerStr s).isPrefixOf (lowerStr y)

def climbOsdev (d : Dump) : Nat → Obj → Option Obj
  | 0, _ => none
  | f+1, o => if o.type == tOSDEV then (match d.obj? o.parent with | none => none | some p => climbOsdev d f p) else some o

/-- hwloc_get_obj_with_same_locality -/
def sameLocality (d : Dump) (src : Obj) (t : Int) (subtype pre : Option String) (flags : Nat) : Except Err Obj :=
  let tNorm := decide (0 ≤ t) && isNormal t.toNat
  let tMem := decide (0 ≤ t) && isMemory t.toNat
  if flags != 0 then .error .EINVAL
  else if isNormal src.type || isMemory src.type then
    if !tNorm && !tMem then .error .EINVAL else
    match (iterNext (nextByType d t) d.fuel none).find? (fun o =>
        o.cpuset == src.cpuset && o.nodeset == src.nodeset && subtypeOk subtype o.subtype && prefixOk pre o.name) with
    | some o => .ok o
    | none => .error .ENOENT
  else if isIO src.type then
    if (src.type != tOSDEV && src.type != tPCI) || (t != (tOSDEV : Int) && t != (tPCI : Int)) then .error .EINVAL else
    match climbOsdev d d.fuel src with
    | none => .error .ENOENT          -- unreachable on a well-formed dump (would be a NULL dereference)
    | some pci =>
      if t == (tPCI : Int) then
        if pci.type != tPCI then .error .ENOENT
        else if !subtypeOk subtype pci.subtype then .error .ENOENT
        else if !prefixOk pre pci.name then .error .ENOENT
        else .ok pci
      else
        match (ioChildChain d pci).find? (fun c => c.type == tOSDEV && subtypeOk subtype c.subtype && prefixOk pre c.name) with
        | some c => .ok c
        | none => .error .ENOENT
  else .error .EINVAL

/-! ### singlify per core (traversal.c 846-875) -/

def singlifyLoop (d : Dump) (which : Nat) : Nat → Nat → Option Obj → Nat
  | 0, S, _ => S
  | f+1, S, prev => match nextCoveringByType d S tCORE prev with
    | none => S
    | some core =>
      let cand := (bits (cs core)).filter (fun i => S.testBit i)
      let S' := match cand[which]? with
        | none => andnot S (cs core)
        | some pu => andnot S (cs core) ||| single pu
      singlifyLoop d which f S' (some core)

/-- hwloc_bitmap_singlify_per_core -/
def singlifyPerCore (d : Dump) (S : Nat) (which : Nat) : Nat := singlifyLoop d which d.fuel S none

/-! ### caches (helper.h 641-712) -/

/-- hwloc_get_cache_type_depth; `ctype = -1` is "any" -/
def cacheTypeDepthLoop (d : Dump) (level : Int) (ctype : Int) : Nat → Int → Int → Int
  | 0, _, found => found
  | f+1, depth, found => match objByDepth d depth 0 with
    | none => found
    | some o =>
      if !isDCache o.type || (o.attrs[1]?).getD 0 != level then cacheTypeDepthLoop d level ctype f (depth + 1) found
      else if ctype == -1 then
        (if found != depthUnknown then depthMultiple else cacheTypeDepthLoop d level ctype f (depth + 1) depth)
      else if (o.attrs[4]?).getD 0 == ctype || (o.attrs[4]?).getD 0 == 0 then depth
      else cacheTypeDepthLoop d level ctype f (depth + 1) found

def cacheTypeDepth (d : Dump) (level : Int) (ctype : Int) : Int :=
  cacheTypeDepthLoop d level ctype (d.depth + 1) 0 depthUnknown

/-- hwloc_get_cache_covering_cpuset -/
def cacheCovering (d : Dump) (S : Nat) : Option Obj :=
  climbWhile d (fun o => !isDCache o.type) d.fuel (objCovering d S)
/-- hwloc_get_shared_cache_covering_obj -/
def sharedCacheCovering (d : Dump) (obj : Obj) : Option Obj :=
  if obj.cpuset.isNone then none
  else climbWhile d (fun c => !(c.cpuset != obj.cpuset && isDCache c.type)) d.fuel (d.obj? obj.parent)

/-! ### brute-force definitions: filters over ALL objects of the dump -/

/-- the objects of a depth in logical order, from the object list alone -/
def bruteLevel (d : Dump) (depth : Int) : List Obj :=
  (List.range d.objs.length).filterMap (fun i => d.objs.find? (fun o => o.depth == depth && o.lidx == i))
def bruteInside (d : Dump) (S : Nat) (depth : Int) : List Obj := (bruteLevel d depth).filter (insideOk S)
def bruteCovering (d : Dump) (S : Nat) (depth : Int) : List Obj := (bruteLevel d depth).filter (coverOk S)
/-- deepest normal object whose cpuset includes `S` -/
def bruteObjCovering (d : Dump) (S : Nat) : Option Obj :=
  if S == 0 then none else
  (d.objs.filter (fun o => isNormal o.type && subset S (cs o))).foldl
    (fun (best : Option Obj) o => match best with
      | none => some o
      | some b => if b.depth < o.depth then some o else best) none
def bruteCpusetToNodeset (d : Dump) (S : Nat) : Nat :=
  orAll ((d.objs.filter (fun o => o.type == tNUMA && intersects S (cs o))).map (fun o => single o.osidx.toNat))
def bruteCpusetFromNodeset (d : Dump) (N : Nat) : Nat :=
  orAll ((d.objs.filter (fun o => o.type == tNUMA && N.testBit o.osidx.toNat)).map cs)
/-- maximal normal objects inside `S`: non-empty cpuset ⊆ S, the parent's cpuset ⊄ S (or no parent); among objects of
    equal cpuset the shallowest; in DFS order -/
def bruteLargest (d : Dump) (S : Nat) : List Obj :=
  d.objs.filter (fun o => isNormal o.type && cs o != 0 && subset (cs o) S &&
    (match d.obj? o.parent with | none => true | some p => !subset (cs p) S))
/-- deepest common ancestor, as a filter over ALL objects: among the objects that are an ancestor-or-self of both
    (by parent links) the last one in DFS order (descendants come after their ancestors) -/
def bruteCommonAncestor (d : Dump) (o1 o2 : Obj) : Option Obj :=
  let a1 := (ancestorsSelf d o1).map (·.id)
  let a2 := (ancestorsSelf d o2).map (·.id)
  (d.objs.filter (fun c => a1.contains c.id && a2.contains c.id)).getLast?

end Hw.Topo
