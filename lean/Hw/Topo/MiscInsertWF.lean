/-
  Hw.Topo.MiscInsertWF — hwloc_topology_insert_misc_object (dump-level model `Hw.Topo.MiscIns.after`) preserves the clauses
  of well-formedness, for EVERY well-formed dump, every parent `p`, every insertion point `p < pos ≤ #objects` and every
  logical index `k` (the theorems do not depend on the dump being numbered depth-first).
-/
import Hw.Topo.MiscInsertBase
namespace Hw.Topo.MiscIns
open Hw.Topo Hw.Topo.Hist

section
variable {d : Dump} (h : WF d) (p pos k : Nat) (name : Option String) (skip : Nat)
  (hp : p < pos) (hpos : pos ≤ d.objs.length) (hf : (d.filters[tMISC]?).getD 0 ≠ 1)

local notation "DN" => after d p pos k name skip
local notation "U" => upd p pos k (lastId d p)
local notation "NEW" => newObj d p pos k name skip

/-! ### clauses that read only the object's own non-link fields and the topology header -/

def localClauses : List String := ["type-in-range", "not-filtered-out", "no-children-where-forbidden", "depth-by-type",
  "sets-presence", "set-in-complete", "pu-cpuset", "numa-nodeset", "pu-allowed", "numa-allowed", "cache-attrs", "group-depth"]

include h hf in
theorem c_local (nm : String) (hnm : nm ∈ localClauses) (o' : Obj) (ho' : o' ∈ Dump.objs DN) :
    objClause nm DN (mkAux DN) o' = true := by
  simp only [localClauses, List.mem_cons, List.not_mem_nil, or_false] at hnm
  rcases (mem_after d p pos k name skip o').1 ho' with rfl | ⟨o, ho, rfl⟩
  · rcases hnm with rfl | rfl | rfl | rfl | rfl | rfl | rfl | rfl | rfl | rfl | rfl | rfl <;>
      simp only [objClause, objClauses, List.find?, String.reduceBEq] <;>
      first
        | rfl
        | decide
        | (simp [newObj, subset]; done)
        | (show ((d.filters[tMISC]?).getD 0 != 1) = true; simpa using hf)
  · have hold := h.objc nm o ho
    rcases hnm with rfl | rfl | rfl | rfl | rfl | rfl | rfl | rfl | rfl | rfl | rfl | rfl <;>
      (simp only [objClause, objClauses, List.find?, String.reduceBEq] at hold ⊢; exact hold)

/-! ### clauses that look up the parent / a sibling -/

theorem upd_parent (o : Obj) : (U o).parent = shI pos o.parent := rfl
theorem upd_id (o : Obj) : (U o).id = shN pos o.id := rfl

include hp hpos in
theorem obj?_p : (DN).obj? (p : Int) = (d.obj? (p : Int)).map U := by
  have e : (p : Int) = shI pos (p : Int) := (shI_of_lt pos _ (by omega)).symm
  rw [e, after_obj?_sh d p pos k name skip hpos, ← e]

include h hp hpos in
theorem parent_some : ∃ q, d.obj? (p : Int) = some q ∧ q.id = p ∧ q ∈ d.objs := by
  have hlt : p < d.objs.length := by omega
  refine ⟨d.objs[p], ?_, ?_, List.getElem_mem _⟩
  · rw [obj?_nat]; exact List.getElem?_eq_getElem hlt
  · exact h.id_eq_pos (List.getElem?_eq_getElem hlt)

include h hp hpos in
theorem c_parent_kind (o' : Obj) (ho' : o' ∈ Dump.objs DN) : objClause "parent-kind" DN (mkAux DN) o' = true := by
  rcases (mem_after d p pos k name skip o').1 ho' with rfl | ⟨o, ho, rfl⟩
  · simp only [objClause, objClauses, List.find?, String.reduceBEq]
    show (match (DN).obj? (p : Int) with | none => _ | some q => _) = true
    obtain ⟨q, hq, _, _⟩ := parent_some h p pos hp hpos
    rw [obj?_p p pos k name skip hp hpos, hq]
    rfl
  · have hold := h.objc "parent-kind" o ho
    simp only [objClause, objClauses, List.find?, String.reduceBEq] at hold ⊢
    rw [upd_parent, after_obj?_sh d p pos k name skip hpos]
    cases hq : d.obj? o.parent with
    | none =>
      simp only [hq, Option.map_none, beq_iff_eq] at hold ⊢
      rw [upd_id, hold]; exact shN_of_lt pos 0 (by omega)
    | some q =>
      simp only [hq, Option.map_some] at hold ⊢
      exact hold

/-- the three clauses whose body is `match parent with none => true | some p => <fields of o and p that the call does not touch>` -/
def parentClauses : List String := ["set-in-parent", "memory-child-shares-cpuset", "depth-increases"]

include h hp hpos in
theorem c_parent (nm : String) (hnm : nm ∈ parentClauses) (o' : Obj) (ho' : o' ∈ Dump.objs DN) :
    objClause nm DN (mkAux DN) o' = true := by
  simp only [parentClauses, List.mem_cons, List.not_mem_nil, or_false] at hnm
  rcases (mem_after d p pos k name skip o').1 ho' with rfl | ⟨o, ho, rfl⟩
  · obtain ⟨q, hq, _, _⟩ := parent_some h p pos hp hpos
    rcases hnm with rfl | rfl | rfl <;>
      (simp only [objClause, objClauses, List.find?, String.reduceBEq]
       show (match (DN).obj? (p : Int) with | none => _ | some q => _) = true
       rw [obj?_p p pos k name skip hp hpos, hq]
       rfl)
  · have hold := h.objc nm o ho
    rcases hnm with rfl | rfl | rfl <;>
      (simp only [objClause, objClauses, List.find?, String.reduceBEq] at hold ⊢
       rw [upd_parent, after_obj?_sh d p pos k name skip hpos]
       cases hq : d.obj? o.parent with
       | none => rfl
       | some q =>
         simp only [hq, Option.map_some] at hold ⊢
         exact hold)

include h hp hpos in
theorem c_normal_child_slot (o' : Obj) (ho' : o' ∈ Dump.objs DN) : objClause "normal-child-slot" DN (mkAux DN) o' = true := by
  rcases (mem_after d p pos k name skip o').1 ho' with rfl | ⟨o, ho, rfl⟩
  · obtain ⟨q, hq, _, _⟩ := parent_some h p pos hp hpos
    simp only [objClause, objClauses, List.find?, String.reduceBEq]
    show (match (DN).obj? (p : Int) with | none => _ | some q => _) = true
    rw [obj?_p p pos k name skip hp hpos, hq]
    rfl
  · have hold := h.objc "normal-child-slot" o ho
    simp only [objClause, objClauses, List.find?, String.reduceBEq] at hold ⊢
    rw [upd_parent, after_obj?_sh d p pos k name skip hpos]
    cases hq : d.obj? o.parent with
    | none => rfl
    | some q =>
      simp only [hq, Option.map_some] at hold ⊢
      show (if isNormal o.type = true then ((q.children.map (shI pos))[o.rank]? == some ((shN pos o.id : Nat) : Int)) else true) = true
      split
      · rename_i hn
        simp only [hn, if_true, beq_iff_eq] at hold
        rw [List.getElem?_map, hold, ← shI_nat]; simp
      · rfl

include h hpos in
theorem c_id_is_position (o' : Obj) (ho' : o' ∈ Dump.objs DN) : objClause "id-is-position" DN (mkAux DN) o' = true := by
  simp only [objClause, objClauses, List.find?, String.reduceBEq]
  rcases (mem_after d p pos k name skip o').1 ho' with rfl | ⟨o, ho, rfl⟩
  · show (((DN).objs[pos]?).map (·.id) == some pos) = true
    rw [after_get_pos d p pos k name skip hpos]; simp [newObj]
  · rw [upd_id, after_get_sh d p pos k name skip hpos, WF.get_id h ho]
    simp [upd]

include h hp hpos in
theorem c_root_or_parent (o' : Obj) (ho' : o' ∈ Dump.objs DN) : objClause "root-or-parent" DN (mkAux DN) o' = true := by
  simp only [objClause, objClauses, List.find?, String.reduceBEq]
  rcases (mem_after d p pos k name skip o').1 ho' with rfl | ⟨o, ho, rfl⟩
  · show (if (pos == 0) = true then ((p : Int) == -1) else
      decide (0 ≤ (p : Int)) && idOk DN (p : Int) && (p : Int) != (pos : Int)) = true
    have : (pos == 0) = false := by rw [beq_eq_false_iff_ne]; omega
    simp only [this, Bool.false_eq_true, if_false, idOk, after_length, Bool.and_eq_true, decide_eq_true_eq, Bool.or_eq_true,
      beq_iff_eq, bne_iff_ne]
    omega
  · have hold := h.objc "root-or-parent" o ho
    simp only [objClause, objClauses, List.find?, String.reduceBEq] at hold
    rw [upd_parent, upd_id]
    by_cases h0 : o.id = 0
    · simp only [h0, beq_self_eq_true, if_true, beq_iff_eq] at hold
      have : shN pos 0 = 0 := shN_of_lt pos 0 (by omega)
      rw [h0, this, hold, shI_m1]
      rfl
    · have e1 : (o.id == 0) = false := by rw [beq_eq_false_iff_ne]; exact h0
      have e2 : (shN pos o.id == 0) = false := by rw [beq_eq_false_iff_ne]; unfold shN; split <;> omega
      simp only [e1, Bool.false_eq_true, if_false, idOk, Bool.and_eq_true, decide_eq_true_eq, Bool.or_eq_true, beq_iff_eq,
        bne_iff_ne] at hold
      simp only [e2, Bool.false_eq_true, if_false, idOk, after_length, Bool.and_eq_true, decide_eq_true_eq, Bool.or_eq_true,
        beq_iff_eq, bne_iff_ne]
      obtain ⟨⟨h1, h2⟩, h3⟩ := hold
      have hn := (shI_nonneg pos o.parent).2 h1
      refine ⟨⟨hn, Or.inr ⟨hn, ?_⟩⟩, ?_⟩
      · rw [shI_toNat pos _ h1]; unfold shN; split <;> omega
      · rw [← shI_nat]; exact fun e => h3 (shI_inj pos _ _ e)

theorem obj?_m1 (x : Dump) : x.obj? (-1) = none := rfl

theorem upd_nextSib (o : Obj) : (U o).nextSib = if ((o.id : Int) == lastId d p) = true then (pos : Int) else shI pos o.nextSib := rfl

include h hpos in
theorem c_siblings_ordered (o' : Obj) (ho' : o' ∈ Dump.objs DN) : objClause "siblings-ordered" DN (mkAux DN) o' = true := by
  simp only [objClause, objClauses, List.find?, String.reduceBEq]
  rcases (mem_after d p pos k name skip o').1 ho' with rfl | ⟨o, ho, rfl⟩
  · have e : (NEW).nextSib = -1 := rfl
    rw [e, obj?_m1]
  · have hold := h.objc "siblings-ordered" o ho
    simp only [objClause, objClauses, List.find?, String.reduceBEq] at hold
    rw [upd_nextSib]
    by_cases hc : ((o.id : Int) == lastId d p) = true
    · rw [if_pos hc, after_obj?_pos d p pos k name skip hpos]
      show (if (isNormal o.type && isNormal tMISC) = true then _ else if (isMemory o.type && isMemory tMISC) = true then _ else true) = true
      have e1 : isNormal tMISC = false := by decide
      have e2 : isMemory tMISC = false := by decide
      simp only [e1, e2, Bool.and_false, Bool.false_eq_true, if_false]
    · rw [if_neg hc, after_obj?_sh d p pos k name skip hpos]
      cases hq : d.obj? o.nextSib with
      | none => rfl
      | some q =>
        simp only [hq, Option.map_some] at hold ⊢
        exact hold

/-! ### the previous last Misc child -/

theorem lastId_cases (d : Dump) (p : Nat) : (lastMisc d p = none ∧ lastId d p = -1) ∨
    ∃ L, lastMisc d p = some L ∧ L ∈ d.objs ∧ lastId d p = (L.id : Int) ∧ L.parent = (p : Int) ∧ L.type = tMISC ∧ L.nextSib = -1 := by
  unfold lastId
  cases hL : lastMisc d p with
  | none => exact Or.inl ⟨rfl, rfl⟩
  | some L =>
    refine Or.inr ⟨L, rfl, ?_, rfl, ?_⟩
    · exact List.mem_of_find?_eq_some hL
    · have := List.find?_some hL
      simp only [Bool.and_eq_true, beq_iff_eq] at this
      exact ⟨this.1.1, this.1.2, this.2⟩

include h in
theorem lastId_obj (c : Obj) (hc : c ∈ d.objs) (e : (c.id : Int) = lastId d p) :
    lastMisc d p = some c ∧ c.parent = (p : Int) ∧ c.type = tMISC ∧ c.nextSib = -1 := by
  rcases lastId_cases d p with ⟨_, h2⟩ | ⟨L, h1, h2, h3, h4, h5, h6⟩
  · omega
  · have : c = L := by
      have a := WF.get_id h hc
      have b := WF.get_id h h2
      have : c.id = L.id := by omega
      rw [this, b] at a; exact (Option.some.inj a).symm
    subst this
    exact ⟨h1, h4, h5, h6⟩

include h in
theorem not_last_of_normal (c : Obj) (hc : c ∈ d.objs) (hn : c.type ≠ tMISC) : ((c.id : Int) == lastId d p) = false := by
  rw [beq_eq_false_iff_ne]
  intro e
  exact hn (lastId_obj h p c hc e).2.2.1

/-! ### children arrays -/

theorem upd_children (o : Obj) : (U o).children = o.children.map (shI pos) := rfl
theorem upd_prevSib (o : Obj) : (U o).prevSib = shI pos o.prevSib := rfl

theorem map_sh_getD (l : List Int) (i : Nat) (dflt : Int) (hd : dflt < 0) :
    ((l.map (shI pos))[i]?).getD dflt = shI pos ((l[i]?).getD dflt) := by
  rw [List.getElem?_map, shI_getD pos _ _ hd]

include h hpos in
theorem c_children_array (o' : Obj) (ho' : o' ∈ Dump.objs DN) : objClause "children-array" DN (mkAux DN) o' = true := by
  simp only [objClause, objClauses, List.find?, String.reduceBEq]
  rcases (mem_after d p pos k name skip o').1 ho' with rfl | ⟨o, ho, rfl⟩
  · rfl
  · have hold := h.objc "children-array" o ho
    simp only [objClause, objClauses, List.find?, String.reduceBEq] at hold
    simp only [Bool.and_eq_true, beq_iff_eq, List.all_eq_true, List.mem_range] at hold ⊢
    obtain ⟨⟨⟨h1, h2⟩, h3⟩, h4⟩ := hold
    refine ⟨⟨⟨?_, ?_⟩, ?_⟩, ?_⟩
    · rw [upd_children, List.length_map]; exact h1
    · show shI pos o.firstChild = ((o.children.map (shI pos)).head?).getD (-1)
      rw [h2, List.head?_map, shI_getD pos _ _ (by omega)]
    · show shI pos o.lastChild = ((o.children.map (shI pos)).getLast?).getD (-1)
      rw [h3, List.getLast?_map, shI_getD pos _ _ (by omega)]
    · intro i hi
      have hc := h4 i hi
      rw [upd_children, map_sh_getD pos _ _ _ (by omega), after_obj?_sh d p pos k name skip hpos]
      cases hq : d.obj? ((o.children[i]?).getD (-2)) with
      | none => rw [hq] at hc; cases hc
      | some c =>
        have hcm : c ∈ d.objs := Dump.mem_of_obj? hq
        simp only [hq, Option.map_some, Bool.and_eq_true, beq_iff_eq] at hc ⊢
        obtain ⟨⟨⟨⟨c1, c2⟩, c3⟩, c4⟩, c5⟩ := hc
        refine ⟨⟨⟨⟨?_, c2⟩, c3⟩, ?_⟩, ?_⟩
        · rw [upd_parent, c1, upd_id, shI_nat]
        · rw [upd_prevSib, c4]
          split
          · exact shI_m1 pos
          · rw [map_sh_getD pos _ _ _ (by omega)]
        · have hn : c.type ≠ tMISC := by
            intro e; rw [e] at c3; exact absurd c3 (by decide)
          rw [upd_nextSib, if_neg (by rw [not_last_of_normal h p c hcm hn]; simp), c5, map_sh_getD pos _ _ _ (by omega)]

/-! ### special lists -/

theorem misc_kinds : isNormal tMISC = false ∧ isMemory tMISC = false ∧ isIO tMISC = false ∧ isMisc tMISC = true := by decide

include h in
theorem last_rank (L q : Obj) (hL : lastMisc d p = some L) (hq : d.obj? (p : Int) = some q) : L.rank + 1 = q.miscarity := by
  rcases lastId_cases d p with ⟨h1, _⟩ | ⟨L', h1, h2, _, h4, h5, h6⟩
  · rw [h1] at hL; cases hL
  · rw [h1] at hL; cases hL
    have c := h.objc "special-list-links" L h2
    simp only [objClause, objClauses, List.find?, String.reduceBEq, h4, hq, h5, h6, obj?_m1, misc_kinds.1, misc_kinds.2.1,
      misc_kinds.2.2.1, Bool.false_eq_true, if_false, Bool.and_eq_true, beq_iff_eq, decide_eq_true_eq] at c
    exact c.1.2.2

include h hp hpos in
/-- the parent has no Misc child exactly when no previous last Misc child is found (direction used for the list heads) -/
theorem last_none_of_zero (q : Obj) (hq : d.obj? (p : Int) = some q) (h0 : q.miscarity = 0) : lastId d p = -1 := by
  rcases lastId_cases d p with ⟨_, h2⟩ | ⟨L, h1, _, _, _, _, _⟩
  · exact h2
  · have := last_rank h p L q h1 hq; omega

/-- one `chk` of the clause special-list-heads, for a list the call does not change -/
theorem chk_sh (hpos : pos ≤ d.objs.length) (oid : Nat) (first : Int) (ar : Nat) (kind : Nat → Bool)
    (hold : (if (ar == 0) = true then first == -1 else match d.obj? first with
        | none => false
        | some c => c.parent == (oid : Int) && c.rank == 0 && kind c.type && c.prevSib == -1) = true) :
    (if (ar == 0) = true then shI pos first == -1 else match (DN).obj? (shI pos first) with
        | none => false
        | some c => c.parent == ((shN pos oid : Nat) : Int) && c.rank == 0 && kind c.type && c.prevSib == -1) = true := by
  by_cases ha : (ar == 0) = true
  · simp only [ha, if_true, beq_iff_eq] at hold ⊢
    rw [hold]; exact shI_m1 pos
  · simp only [ha, if_false] at hold ⊢
    rw [after_obj?_sh d p pos k name skip hpos]
    cases hq : d.obj? first with
    | none => rw [hq] at hold; cases hold
    | some c =>
      rw [hq] at hold
      have hold' : (c.parent == (oid : Int) && c.rank == 0 && kind c.type && c.prevSib == -1) = true := hold
      show ((U c).parent == ((shN pos oid : Nat) : Int) && c.rank == 0 && kind c.type && (U c).prevSib == -1) = true
      simp only [Bool.and_eq_true, beq_iff_eq] at hold' ⊢
      obtain ⟨⟨⟨c1, c2⟩, c3⟩, c4⟩ := hold'
      refine ⟨⟨⟨?_, c2⟩, c3⟩, ?_⟩
      · rw [upd_parent, c1, shI_nat]
      · rw [upd_prevSib, c4]; exact shI_m1 pos

include h hp hpos in
theorem c_special_list_heads (o' : Obj) (ho' : o' ∈ Dump.objs DN) : objClause "special-list-heads" DN (mkAux DN) o' = true := by
  simp only [objClause, objClauses, List.find?, String.reduceBEq]
  rcases (mem_after d p pos k name skip o').1 ho' with rfl | ⟨o, ho, rfl⟩
  · rfl
  · have hold := h.objc "special-list-heads" o ho
    simp only [objClause, objClauses, List.find?, String.reduceBEq] at hold
    simp only [Bool.and_eq_true] at hold ⊢
    obtain ⟨⟨h1, h2⟩, h3⟩ := hold
    refine ⟨⟨chk_sh p pos k name skip hpos o.id o.memFirst o.marity isMemory h1,
             chk_sh p pos k name skip hpos o.id o.ioFirst o.ioarity isIO h2⟩, ?_⟩
    by_cases hop : o.id = p
    · -- the parent: one more Misc child
      obtain ⟨q, hq, hqid, hqm⟩ := parent_some h p pos hp hpos
      have hoq : o = q := by
        have a := h.obj?_id ho; rw [hop, hq] at a; exact (Option.some.inj a).symm
      subst hoq
      show (if (updMiscarity p o == 0) = true then updMiscFirst p pos o == -1 else match (DN).obj? (updMiscFirst p pos o) with
        | none => false
        | some c => c.parent == ((shN pos o.id : Nat) : Int) && c.rank == 0 && isMisc c.type && c.prevSib == -1) = true
      have e1 : updMiscarity p o = o.miscarity + 1 := by unfold updMiscarity; simp [hop]
      have e0 : (o.miscarity + 1 == 0) = false := by rw [beq_eq_false_iff_ne]; omega
      rw [e1, e0]
      simp only [Bool.false_eq_true, if_false]
      by_cases hz : o.miscarity = 0
      · have e2 : updMiscFirst p pos o = (pos : Int) := by unfold updMiscFirst; simp [hop, hz]
        rw [e2, after_obj?_pos d p pos k name skip hpos]
        have hl := last_none_of_zero h p pos hp hpos o hq hz
        have hr : (NEW).rank = 0 := by
          show ((d.objs[p]?).map (·.miscarity)).getD 0 = 0
          rw [← obj?_nat, hq]; exact hz
        have hps : (NEW).prevSib = -1 := by
          show shI pos (lastId d p) = -1
          rw [hl]; exact shI_m1 pos
        simp only [hr, hps, Bool.and_eq_true, beq_iff_eq]
        refine ⟨⟨⟨?_, trivial⟩, ?_⟩, trivial⟩
        · show (p : Int) = ((shN pos o.id : Nat) : Int)
          rw [hop, shN_of_lt pos p hp]
        · rfl
      · have e2 : updMiscFirst p pos o = shI pos o.miscFirst := by unfold updMiscFirst; simp [hz]
        rw [e2]
        have := chk_sh p pos k name skip hpos o.id o.miscFirst o.miscarity isMisc h3
        have e3 : (o.miscarity == 0) = false := by rw [beq_eq_false_iff_ne]; exact hz
        simpa only [e3, Bool.false_eq_true, if_false] using this
    · have e1 : updMiscarity p o = o.miscarity := by unfold updMiscarity; simp [hop]
      have e2 : updMiscFirst p pos o = shI pos o.miscFirst := by unfold updMiscFirst; simp [hop]
      show (if (updMiscarity p o == 0) = true then updMiscFirst p pos o == -1 else match (DN).obj? (updMiscFirst p pos o) with
        | none => false
        | some c => c.parent == ((shN pos o.id : Nat) : Int) && c.rank == 0 && isMisc c.type && c.prevSib == -1) = true
      rw [e1, e2]
      exact chk_sh p pos k name skip hpos o.id o.miscFirst o.miscarity isMisc h3

/-! ### special-list-links: uniqueness and existence of the last Misc child -/

theorem sameKind_misc (t : Nat) : sameKind t tMISC = isMisc t := by
  simp [sameKind, misc_kinds.1, misc_kinds.2.1, misc_kinds.2.2.1, misc_kinds.2.2.2]

theorem isMisc_eq (t : Nat) (ht : isMisc t = true) : t = tMISC := by
  simpa [isMisc] using ht

include h in
theorem eq_of_id (A B : Obj) (hA : A ∈ d.objs) (hB : B ∈ d.objs) (e : A.id = B.id) : A = B := by
  have a := WF.get_id h hA
  have b := WF.get_id h hB
  rw [e, b] at a; exact (Option.some.inj a).symm

include h in
/-- a non-root object has a parent in the dump -/
theorem parent_of_misc (A : Obj) (hA : A ∈ d.objs) (hT : A.type = tMISC) : ∃ q, d.obj? A.parent = some q := by
  have c := h.objc "parent-kind" A hA
  simp only [objClause, objClauses, List.find?, String.reduceBEq] at c
  cases hq : d.obj? A.parent with
  | some q => exact ⟨q, rfl⟩
  | none =>
    exfalso
    simp only [hq, beq_iff_eq] at c
    have := h.topc "root-is-machine"
    simp only [topClause, topClauses, List.find?, String.reduceBEq, Bool.and_eq_true, beq_iff_eq] at this
    have a := WF.get_id h hA
    rw [c] at a
    rw [a] at this
    simp only [Bool.and_eq_true, beq_iff_eq] at this
    rw [hT] at this
    exact absurd this.2.1.1 (by decide)

/-- the clause special-list-links read for a Misc object -/
structure MiscLinks (d : Dump) (A q : Obj) : Prop where
  lt : A.rank < q.miscarity
  first : (A.rank == 0) = (q.miscFirst == (A.id : Int))
  prev0 : (A.rank == 0) = (A.prevSib == -1)
  next : (match d.obj? A.nextSib with
    | none => A.nextSib == -1 && A.rank + 1 == q.miscarity
    | some nx => nx.parent == A.parent && isMisc nx.type && nx.rank == A.rank + 1 && nx.prevSib == (A.id : Int)) = true
  prev : (match d.obj? A.prevSib with
    | none => A.prevSib == -1
    | some pv => pv.parent == A.parent && isMisc pv.type && pv.rank + 1 == A.rank && pv.nextSib == (A.id : Int)) = true

include h in
theorem misc_links (A q : Obj) (hA : A ∈ d.objs) (hT : A.type = tMISC) (hq : d.obj? A.parent = some q) : MiscLinks d A q := by
  have c := h.objc "special-list-links" A hA
  simp only [objClause, objClauses, List.find?, String.reduceBEq, hq, hT, misc_kinds.1, misc_kinds.2.1,
    misc_kinds.2.2.1, Bool.false_eq_true, if_false, Bool.and_eq_true, beq_iff_eq, decide_eq_true_eq, sameKind_misc] at c
  exact ⟨c.1.1.1.1, c.1.1.1.2, c.1.1.2, c.1.2, c.2⟩

include h in
theorem misc_rank_inj : ∀ (r : Nat) (A B : Obj), A ∈ d.objs → B ∈ d.objs → A.type = tMISC → B.type = tMISC →
    A.parent = B.parent → A.rank = r → B.rank = r → A = B := by
  intro r
  induction r with
  | zero =>
    intro A B hA hB tA tB hpar rA rB
    obtain ⟨q, hq⟩ := parent_of_misc h A hA tA
    have la := misc_links h A q hA tA hq
    have lb := misc_links h B q hB tB (hpar ▸ hq)
    have fa := la.first; have fb := lb.first
    rw [rA] at fa; rw [rB] at fb
    simp only [beq_self_eq_true] at fa fb
    have ea : q.miscFirst = (A.id : Int) := by simpa using fa.symm
    have eb : q.miscFirst = (B.id : Int) := by simpa using fb.symm
    exact eq_of_id h A B hA hB (by omega)
  | succ r ih =>
    intro A B hA hB tA tB hpar rA rB
    obtain ⟨q, hq⟩ := parent_of_misc h A hA tA
    have la := misc_links h A q hA tA hq
    have lb := misc_links h B q hB tB (hpar ▸ hq)
    have pa := la.prev; have pb := lb.prev
    have za := la.prev0; have zb := lb.prev0
    have ra0 : (A.rank == 0) = false := by rw [beq_eq_false_iff_ne]; omega
    have rb0 : (B.rank == 0) = false := by rw [beq_eq_false_iff_ne]; omega
    rw [ra0] at za; rw [rb0] at zb
    cases hpa : d.obj? A.prevSib with
    | none => rw [hpa] at pa; have pa' : (A.prevSib == -1) = true := pa; rw [pa'] at za; cases za
    | some PA =>
      cases hpb : d.obj? B.prevSib with
      | none => rw [hpb] at pb; have pb' : (B.prevSib == -1) = true := pb; rw [pb'] at zb; cases zb
      | some PB =>
        rw [hpa] at pa; rw [hpb] at pb
        simp only [Bool.and_eq_true, beq_iff_eq] at pa pb
        have e : PA = PB := ih PA PB (Dump.mem_of_obj? hpa) (Dump.mem_of_obj? hpb) (isMisc_eq _ pa.1.1.2) (isMisc_eq _ pb.1.1.2)
          (by rw [pa.1.1.1, pb.1.1.1, hpar]) (by omega) (by omega)
        subst e
        exact eq_of_id h A B hA hB (by have := pa.2; have := pb.2; omega)

include h in
/-- walking the next_sibling links from a Misc child of `q` reaches one without next sibling -/
theorem last_exists (q : Obj) : ∀ (n : Nat) (A : Obj), A ∈ d.objs → A.type = tMISC → d.obj? A.parent = some q → A.rank + n + 1 = q.miscarity →
    ∃ L, L ∈ d.objs ∧ L.parent = A.parent ∧ L.type = tMISC ∧ L.nextSib = -1 := by
  intro n
  induction n with
  | zero =>
    intro A hA tA hq hr
    have la := misc_links h A q hA tA hq
    have nx := la.next
    cases hn : d.obj? A.nextSib with
    | none =>
      rw [hn] at nx; simp only [Bool.and_eq_true, beq_iff_eq] at nx
      exact ⟨A, hA, rfl, tA, nx.1⟩
    | some N =>
      exfalso
      rw [hn] at nx; simp only [Bool.and_eq_true, beq_iff_eq] at nx
      have ln := misc_links h N q (Dump.mem_of_obj? hn) (isMisc_eq _ nx.1.1.2) (by rw [nx.1.1.1]; exact hq)
      have := ln.lt; omega
  | succ n ih =>
    intro A hA tA hq hr
    have la := misc_links h A q hA tA hq
    have nx := la.next
    cases hn : d.obj? A.nextSib with
    | none =>
      exfalso
      rw [hn] at nx; simp only [Bool.and_eq_true, beq_iff_eq] at nx
      omega
    | some N =>
      rw [hn] at nx; simp only [Bool.and_eq_true, beq_iff_eq] at nx
      obtain ⟨L, h1, h2, h3, h4⟩ := ih N (Dump.mem_of_obj? hn) (isMisc_eq _ nx.1.1.2) (by rw [nx.1.1.1]; exact hq) (by omega)
      exact ⟨L, h1, by rw [h2, nx.1.1.1], h3, h4⟩

include h hp hpos in
/-- the parent has Misc children exactly when a previous last Misc child is found -/
theorem last_some_of_pos (q : Obj) (hq : d.obj? (p : Int) = some q) (h0 : q.miscarity ≠ 0) : lastId d p ≠ -1 := by
  have hqm := Dump.mem_of_obj? hq
  have hqid : (q.id : Int) = p := (WF.obj?_some h hq).1
  have c := h.objc "special-list-heads" q hqm
  simp only [objClause, objClauses, List.find?, String.reduceBEq, Bool.and_eq_true] at c
  have c3 := c.2
  have e0 : (q.miscarity == 0) = false := by rw [beq_eq_false_iff_ne]; exact h0
  simp only [e0, Bool.false_eq_true, if_false] at c3
  cases hc : d.obj? q.miscFirst with
  | none => rw [hc] at c3; cases c3
  | some C =>
    rw [hc] at c3
    have c3' : (C.parent == (q.id : Int) && C.rank == 0 && isMisc C.type && C.prevSib == -1) = true := c3
    simp only [Bool.and_eq_true, beq_iff_eq] at c3'
    have hCq : d.obj? C.parent = some q := by rw [c3'.1.1.1, hqid]; exact hq
    obtain ⟨L, h1, h2, h3, h4⟩ := last_exists h q (q.miscarity - 1) C (Dump.mem_of_obj? hc) (isMisc_eq _ c3'.1.2) hCq
      (by have := c3'.1.1.2; omega)
    intro hnone
    rcases lastId_cases d p with ⟨g1, _⟩ | ⟨L', _, _, g3, _, _, _⟩
    · unfold lastMisc at g1
      have := List.find?_eq_none.1 g1 L h1
      apply this
      simp only [Bool.and_eq_true, beq_iff_eq]
      exact ⟨⟨by rw [h2, c3'.1.1.1, hqid], h3⟩, h4⟩
    · omega

/-! ### special-list-links: the clause itself -/

def arOf (t : Nat) (q : Obj) : Nat := if isMemory t then q.marity else if isIO t then q.ioarity else q.miscarity
def firstOf (t : Nat) (q : Obj) : Int := if isMemory t then q.memFirst else if isIO t then q.ioFirst else q.miscFirst

/-- the body of special-list-links below a known parent -/
def sllBody (x : Dump) (o q : Obj) : Bool :=
  if isNormal o.type then true else
  decide (o.rank < arOf o.type q) && ((o.rank == 0) == (firstOf o.type q == (o.id : Int))) && ((o.rank == 0) == (o.prevSib == -1)) &&
  (match x.obj? o.nextSib with
    | none => o.nextSib == -1 && o.rank + 1 == arOf o.type q
    | some nx => nx.parent == o.parent && sameKind nx.type o.type && nx.rank == o.rank + 1 && nx.prevSib == (o.id : Int)) &&
  (match x.obj? o.prevSib with
    | none => o.prevSib == -1
    | some pv => pv.parent == o.parent && sameKind pv.type o.type && pv.rank + 1 == o.rank && pv.nextSib == (o.id : Int))

theorem sll_eq (x : Dump) (a : Aux) (o q : Obj) (hq : x.obj? o.parent = some q) :
    objClause "special-list-links" x a o = sllBody x o q := by
  simp only [objClause, objClauses, List.find?, String.reduceBEq, hq]
  rfl

theorem sll_none (x : Dump) (a : Aux) (o : Obj) (hq : x.obj? o.parent = none) :
    objClause "special-list-links" x a o = true := by
  simp only [objClause, objClauses, List.find?, String.reduceBEq, hq]

theorem arOf_upd (t : Nat) (q : Obj) : arOf t (U q) = arOf t q ∨
    (arOf t (U q) = arOf t q + 1 ∧ isMemory t = false ∧ isIO t = false ∧ q.id = p) := by
  unfold arOf
  by_cases h1 : isMemory t = true
  · simp only [h1, if_true]; exact Or.inl rfl
  · by_cases h2 : isIO t = true
    · simp only [h1, h2, if_true, if_false]; exact Or.inl rfl
    · simp only [h1, h2, if_false]
      by_cases h3 : q.id = p
      · right
        refine ⟨?_, by simpa using h1, by simpa using h2, h3⟩
        show updMiscarity p q = q.miscarity + 1
        unfold updMiscarity; simp [h3]
      · left
        show updMiscarity p q = q.miscarity
        unfold updMiscarity; simp [h3]

theorem firstOf_upd (t : Nat) (q : Obj) (hne : arOf t q ≠ 0) : firstOf t (U q) = shI pos (firstOf t q) := by
  unfold firstOf
  unfold arOf at hne
  by_cases h1 : isMemory t = true
  · simp only [h1, if_true]; rfl
  · by_cases h2 : isIO t = true
    · simp only [h1, h2, if_true, if_false]; rfl
    · simp only [h1, h2, if_false] at hne ⊢
      show updMiscFirst p pos q = _
      unfold updMiscFirst
      have : (q.miscarity == 0) = false := by rw [beq_eq_false_iff_ne]; exact hne
      simp [this]

theorem beq_sh (a : Int) (b : Nat) : (shI pos a == ((shN pos b : Nat) : Int)) = (a == (b : Int)) := by
  rw [← shI_nat]
  by_cases e : a = (b : Int)
  · rw [e]; simp only [beq_self_eq_true]
  · have e' : shI pos a ≠ shI pos (b : Int) := fun x => e (shI_inj pos _ _ x)
    rw [beq_eq_false_iff_ne.2 e, beq_eq_false_iff_ne.2 e']

theorem beq_sh_m1 (a : Int) : (shI pos a == -1) = (a == -1) := by
  by_cases e : a = -1
  · rw [e, shI_m1]
  · have e' : shI pos a ≠ -1 := fun x => e ((shI_eq_m1 pos a).1 x)
    rw [beq_eq_false_iff_ne.2 e, beq_eq_false_iff_ne.2 e']

theorem misc_of_kinds : ∀ t, t < 20 → isNormal t = false → isMemory t = false → isIO t = false → t = tMISC := by decide

theorem upd_type (o : Obj) : (U o).type = o.type := rfl
theorem upd_rank (o : Obj) : (U o).rank = o.rank := rfl

include h hp hpos in
theorem c_special_list_links (o' : Obj) (ho' : o' ∈ Dump.objs DN) : objClause "special-list-links" DN (mkAux DN) o' = true := by
  rcases (mem_after d p pos k name skip o').1 ho' with rfl | ⟨o, ho, rfl⟩
  · -- the new object
    obtain ⟨q, hq, hqid, hqm⟩ := parent_some h p pos hp hpos
    have hq' : (DN).obj? (NEW).parent = some (U q) := by
      show (DN).obj? (p : Int) = _
      rw [obj?_p p pos k name skip hp hpos, hq]; rfl
    rw [sll_eq _ _ _ _ hq']
    have hrank : (NEW).rank = q.miscarity := by
      show ((d.objs[p]?).map (·.miscarity)).getD 0 = _
      rw [← obj?_nat, hq]; rfl
    have har : arOf tMISC (U q) = q.miscarity + 1 := by
      show updMiscarity p q = _
      unfold updMiscarity; simp [hqid]
    have hfirst : firstOf tMISC (U q) = updMiscFirst p pos q := rfl
    unfold sllBody
    have e0 : isNormal (NEW).type = false := misc_kinds.1
    have et : (NEW).type = tMISC := rfl
    have en : (NEW).nextSib = -1 := rfl
    have ei : (NEW).id = pos := rfl
    have ep : (NEW).prevSib = shI pos (lastId d p) := rfl
    simp only [misc_kinds.1, Bool.false_eq_true, if_false, et, har, hfirst, hrank, en, obj?_m1, ei, ep, Bool.and_eq_true]
    refine ⟨⟨⟨⟨decide_eq_true (by omega), ?_⟩, ?_⟩, ⟨rfl, by simp⟩⟩, ?_⟩
    · unfold updMiscFirst
      by_cases hz : q.miscarity = 0
      · simp [hz, hqid]
      · have : shI pos q.miscFirst ≠ (pos : Int) := shI_ne_pos pos _
        rw [beq_eq_false_iff_ne.2 hz]
        simp only [Bool.and_false, Bool.false_eq_true, if_false]
        rw [beq_eq_false_iff_ne.2 this]; rfl
    · rw [beq_sh_m1]
      by_cases hz : q.miscarity = 0
      · rw [last_none_of_zero h p pos hp hpos q hq hz]; simp [hz]
      · have := last_some_of_pos h p pos hp hpos q hq hz
        rw [beq_eq_false_iff_ne.2 hz, beq_eq_false_iff_ne.2 this]; rfl
    · rcases lastId_cases d p with ⟨_, g2⟩ | ⟨L, g1, g2, g3, g4, g5, g6⟩
      · rw [g2, shI_m1, obj?_m1]; rfl
      · rw [g3, after_obj?_sh d p pos k name skip hpos, h.obj?_id g2]
        show ((U L).parent == (p : Int) && sameKind (U L).type tMISC && (U L).rank + 1 == q.miscarity && (U L).nextSib == (pos : Int)) = true
        have lr := last_rank h p L q g1 hq
        rw [upd_parent, upd_type, upd_rank, upd_nextSib, g4, g5, if_pos (by rw [g3]; simp), shI_of_lt pos _ (by omega)]
        simp [sameKind_misc, misc_kinds.2.2.2, lr]
  · -- an old object
    cases hq : d.obj? o.parent with
    | none =>
      apply sll_none
      rw [upd_parent, after_obj?_sh d p pos k name skip hpos, hq]; rfl
    | some q =>
      have hold := h.objc "special-list-links" o ho
      rw [sll_eq _ _ _ _ hq] at hold
      have hq' : (DN).obj? (U o).parent = some (U q) := by
        rw [upd_parent, after_obj?_sh d p pos k name skip hpos, hq]; rfl
      rw [sll_eq _ _ _ _ hq']
      unfold sllBody at hold ⊢
      rw [upd_type]
      by_cases hn : isNormal o.type = true
      · simp only [hn, if_true]
      · simp only [hn, Bool.false_eq_true, if_false, Bool.and_eq_true, decide_eq_true_eq] at hold ⊢
        obtain ⟨⟨⟨⟨k1, k2⟩, k3⟩, k4⟩, k5⟩ := hold
        have hne : arOf o.type q ≠ 0 := by omega
        have hA := arOf_upd (d := d) p pos k o.type q
        refine ⟨⟨⟨⟨?_, ?_⟩, ?_⟩, ?_⟩, ?_⟩
        · rw [upd_rank]; rcases hA with e | ⟨e, _⟩ <;> omega
        · rw [upd_rank, firstOf_upd (d := d) p pos k o.type q hne, upd_id, beq_sh]; exact k2
        · rw [upd_rank, upd_prevSib, beq_sh_m1]; exact k3
        · -- next sibling
          rw [upd_nextSib]
          by_cases hc : ((o.id : Int) == lastId d p) = true
          · obtain ⟨g1, g4, g5, g6⟩ := lastId_obj h p o ho (by simpa using hc)
            have hqp : d.obj? (p : Int) = some q := by rw [← g4]; exact hq
            have lr := last_rank h p o q g1 hqp
            rw [if_pos hc, after_obj?_pos d p pos k name skip hpos]
            show ((p : Int) == (U o).parent && sameKind tMISC o.type && ((d.objs[p]?).map (·.miscarity)).getD 0 == (U o).rank + 1 &&
              shI pos (lastId d p) == ((U o).id : Int)) = true
            rw [upd_parent, g4, g5, upd_rank, upd_id, ← obj?_nat, hqp, shI_of_lt pos (p : Int) (by omega)]
            have : lastId d p = (o.id : Int) := ((beq_iff_eq).1 hc).symm
            rw [beq_sh]
            simp [sameKind_misc, misc_kinds.2.2.2, lr, this]
          · rw [if_neg hc, after_obj?_sh d p pos k name skip hpos]
            cases hnx : d.obj? o.nextSib with
            | none =>
              rw [hnx] at k4
              have k4' : (o.nextSib == -1 && o.rank + 1 == arOf o.type q) = true := k4
              simp only [Bool.and_eq_true, beq_iff_eq] at k4'
              show (shI pos o.nextSib == -1 && (U o).rank + 1 == arOf o.type (U q)) = true
              rw [beq_sh_m1, upd_rank]
              simp only [Bool.and_eq_true, beq_iff_eq]
              refine ⟨k4'.1, ?_⟩
              rcases hA with e | ⟨e, m1, m2, m3⟩
              · omega
              · exfalso
                -- `o` would be a second Misc child of `p` without next sibling
                have hT : o.type = tMISC := misc_of_kinds o.type (h.obj_type_in_range ho) (by simpa using hn) m1 m2
                have hpar : o.parent = (p : Int) := by have := (WF.obj?_some h hq).1; omega
                have hqp : d.obj? (p : Int) = some q := by rw [← hpar]; exact hq
                rcases lastId_cases d p with ⟨g1, _⟩ | ⟨L, g1, g2, g3, g4, g5, g6⟩
                · unfold lastMisc at g1
                  apply List.find?_eq_none.1 g1 o ho
                  simp only [Bool.and_eq_true, beq_iff_eq]
                  exact ⟨⟨hpar, hT⟩, k4'.1⟩
                · have lr := last_rank h p L q g1 hqp
                  have : o = L := misc_rank_inj h o.rank o L ho g2 hT g5 (by rw [hpar, g4]) rfl (by
                    unfold arOf at k4'; simp only [m1, m2, Bool.false_eq_true, if_false] at k4'; omega)
                  subst this
                  rw [g3] at hc; simp at hc
            | some nx =>
              rw [hnx] at k4
              have k4' : (nx.parent == o.parent && sameKind nx.type o.type && nx.rank == o.rank + 1 && nx.prevSib == (o.id : Int)) = true := k4
              simp only [Bool.and_eq_true, beq_iff_eq] at k4'
              show ((U nx).parent == (U o).parent && sameKind nx.type o.type && nx.rank == o.rank + 1 && (U nx).prevSib == ((U o).id : Int)) = true
              rw [upd_parent, upd_parent, upd_prevSib, upd_id, k4'.1.1.1, k4'.2, shI_nat]
              simp [k4'.1.1.2, k4'.1.2]
        · -- previous sibling
          rw [upd_prevSib, after_obj?_sh d p pos k name skip hpos]
          cases hpv : d.obj? o.prevSib with
          | none =>
            rw [hpv] at k5
            have k5' : (o.prevSib == -1) = true := k5
            show (shI pos o.prevSib == -1) = true
            rw [beq_sh_m1]; exact k5'
          | some pv =>
            rw [hpv] at k5
            have k5' : (pv.parent == o.parent && sameKind pv.type o.type && pv.rank + 1 == o.rank && pv.nextSib == (o.id : Int)) = true := k5
            simp only [Bool.and_eq_true, beq_iff_eq] at k5'
            show ((U pv).parent == (U o).parent && sameKind pv.type o.type && pv.rank + 1 == o.rank && (U pv).nextSib == ((U o).id : Int)) = true
            have hnl : ¬ (((pv.id : Int) == lastId d p) = true) := by
              intro hc
              have := (lastId_obj h p pv (Dump.mem_of_obj? hpv) (by simpa using hc)).2.2.2
              have := k5'.2; omega
            rw [upd_parent, upd_parent, upd_nextSib, if_neg hnl, upd_id, k5'.1.1.1, k5'.2, shI_nat]
            simp [k5'.1.1.2, k5'.1.2]

end
end Hw.Topo.MiscIns
