/-
  Hw.Topo.MiscInsertWF — hwloc_topology_insert_misc_object (dump-level model `Hw.Topo.MiscIns.after`) preserves the clauses
  of well-formedness, for EVERY well-formed dump, every parent `p`, every insertion point `p < pos ≤ #objects` and every
  logical index `k` (the theorems do not depend on the dump being numbered depth-first).
-/
import Hw.Topo.MiscInsertBase
namespace Hw.Topo.MiscIns
open Hw.Topo Hw.Topo.Hist

section
variable {d : Dump} (h : WF d) (p pos k : Nat) (name : Option String) (skip : Nat)
  (hp : p < pos) (hpos : pos ≤ d.objs.length) (hf : (d.filters[tMISC]?).getD 0 ≠ 1)

local notation "DN" => after d p pos k name skip
local notation "U" => upd p pos k (lastId d p)
local notation "NEW" => newObj d p pos k name skip

/-! ### clauses that read only the object's own non-link fields and the topology header -/

def localClauses : List String := ["type-in-range", "not-filtered-out", "no-children-where-forbidden", "depth-by-type",
  "sets-presence", "set-in-complete", "pu-cpuset", "numa-nodeset", "pu-allowed", "numa-allowed", "cache-attrs", "group-depth"]

include h hf in
theorem c_local (nm : String) (hnm : nm ∈ localClauses) (o' : Obj) (ho' : o' ∈ Dump.objs DN) :
    objClause nm DN (mkAux DN) o' = true := by
  simp only [localClauses, List.mem_cons, List.not_mem_nil, or_false] at hnm
  rcases (mem_after d p pos k name skip o').1 ho' with rfl | ⟨o, ho, rfl⟩
  · rcases hnm with rfl | rfl | rfl | rfl | rfl | rfl | rfl | rfl | rfl | rfl | rfl | rfl <;>
      simp only [objClause, objClauses, List.find?, String.reduceBEq] <;>
      first
        | rfl
        | decide
        | (simp [newObj, subset]; done)
        | (show ((d.filters[tMISC]?).getD 0 != 1) = true; simpa using hf)
  · have hold := h.objc nm o ho
    rcases hnm with rfl | rfl | rfl | rfl | rfl | rfl | rfl | rfl | rfl | rfl | rfl | rfl <;>
      (simp only [objClause, objClauses, List.find?, String.reduceBEq] at hold ⊢; exact hold)

/-! ### clauses that look up the parent / a sibling -/

theorem upd_parent (o : Obj) : (U o).parent = shI pos o.parent := rfl
theorem upd_id (o : Obj) : (U o).id = shN pos o.id := rfl

include hp hpos in
theorem obj?_p : (DN).obj? (p : Int) = (d.obj? (p : Int)).map U := by
  have e : (p : Int) = shI pos (p : Int) := (shI_of_lt pos _ (by omega)).symm
  rw [e, after_obj?_sh d p pos k name skip hpos, ← e]

include h hp hpos in
theorem parent_some : ∃ q, d.obj? (p : Int) = some q ∧ q.id = p ∧ q ∈ d.objs := by
  have hlt : p < d.objs.length := by omega
  refine ⟨d.objs[p], ?_, ?_, List.getElem_mem _⟩
  · rw [obj?_nat]; exact List.getElem?_eq_getElem hlt
  · exact h.id_eq_pos (List.getElem?_eq_getElem hlt)

include h hp hpos in
theorem c_parent_kind (o' : Obj) (ho' : o' ∈ Dump.objs DN) : objClause "parent-kind" DN (mkAux DN) o' = true := by
  rcases (mem_after d p pos k name skip o').1 ho' with rfl | ⟨o, ho, rfl⟩
  · simp only [objClause, objClauses, List.find?, String.reduceBEq]
    show (match (DN).obj? (p : Int) with | none => _ | some q => _) = true
    obtain ⟨q, hq, _, _⟩ := parent_some h p pos hp hpos
    rw [obj?_p p pos k name skip hp hpos, hq]
    rfl
  · have hold := h.objc "parent-kind" o ho
    simp only [objClause, objClauses, List.find?, String.reduceBEq] at hold ⊢
    rw [upd_parent, after_obj?_sh d p pos k name skip hpos]
    cases hq : d.obj? o.parent with
    | none =>
      simp only [hq, Option.map_none, beq_iff_eq] at hold ⊢
      rw [upd_id, hold]; exact shN_of_lt pos 0 (by omega)
    | some q =>
      simp only [hq, Option.map_some] at hold ⊢
      exact hold

/-- the three clauses whose body is `match parent with none => true | some p => <fields of o and p that the call does not touch>` -/
def parentClauses : List String := ["set-in-parent", "memory-child-shares-cpuset", "depth-increases"]

include h hp hpos in
theorem c_parent (nm : String) (hnm : nm ∈ parentClauses) (o' : Obj) (ho' : o' ∈ Dump.objs DN) :
    objClause nm DN (mkAux DN) o' = true := by
  simp only [parentClauses, List.mem_cons, List.not_mem_nil, or_false] at hnm
  rcases (mem_after d p pos k name skip o').1 ho' with rfl | ⟨o, ho, rfl⟩
  · obtain ⟨q, hq, _, _⟩ := parent_some h p pos hp hpos
    rcases hnm with rfl | rfl | rfl <;>
      (simp only [objClause, objClauses, List.find?, String.reduceBEq]
       show (match (DN).obj? (p : Int) with | none => _ | some q => _) = true
       rw [obj?_p p pos k name skip hp hpos, hq]
       rfl)
  · have hold := h.objc nm o ho
    rcases hnm with rfl | rfl | rfl <;>
      (simp only [objClause, objClauses, List.find?, String.reduceBEq] at hold ⊢
       rw [upd_parent, after_obj?_sh d p pos k name skip hpos]
       cases hq : d.obj? o.parent with
       | none => rfl
       | some q =>
         simp only [hq, Option.map_some] at hold ⊢
         exact hold)

include h hp hpos in
theorem c_normal_child_slot (o' : Obj) (ho' : o' ∈ Dump.objs DN) : objClause "normal-child-slot" DN (mkAux DN) o' = true := by
  rcases (mem_after d p pos k name skip o').1 ho' with rfl | ⟨o, ho, rfl⟩
  · obtain ⟨q, hq, _, _⟩ := parent_some h p pos hp hpos
    simp only [objClause, objClauses, List.find?, String.reduceBEq]
    show (match (DN).obj? (p : Int) with | none => _ | some q => _) = true
    rw [obj?_p p pos k name skip hp hpos, hq]
    rfl
  · have hold := h.objc "normal-child-slot" o ho
    simp only [objClause, objClauses, List.find?, String.reduceBEq] at hold ⊢
    rw [upd_parent, after_obj?_sh d p pos k name skip hpos]
    cases hq : d.obj? o.parent with
    | none => rfl
    | some q =>
      simp only [hq, Option.map_some] at hold ⊢
      show (if isNormal o.type = true then ((q.children.map (shI pos))[o.rank]? == some ((shN pos o.id : Nat) : Int)) else true) = true
      split
      · rename_i hn
        simp only [hn, if_true, beq_iff_eq] at hold
        rw [List.getElem?_map, hold, ← shI_nat]; simp
      · rfl

include h hpos in
theorem c_id_is_position (o' : Obj) (ho' : o' ∈ Dump.objs DN) : objClause "id-is-position" DN (mkAux DN) o' = true := by
  simp only [objClause, objClauses, List.find?, String.reduceBEq]
  rcases (mem_after d p pos k name skip o').1 ho' with rfl | ⟨o, ho, rfl⟩
  · show (((DN).objs[pos]?).map (·.id) == some pos) = true
    rw [after_get_pos d p pos k name skip hpos]; simp [newObj]
  · rw [upd_id, after_get_sh d p pos k name skip hpos, WF.get_id h ho]
    simp [upd]

include h hp hpos in
theorem c_root_or_parent (o' : Obj) (ho' : o' ∈ Dump.objs DN) : objClause "root-or-parent" DN (mkAux DN) o' = true := by
  simp only [objClause, objClauses, List.find?, String.reduceBEq]
  rcases (mem_after d p pos k name skip o').1 ho' with rfl | ⟨o, ho, rfl⟩
  · show (if (pos == 0) = true then ((p : Int) == -1) else
      decide (0 ≤ (p : Int)) && idOk DN (p : Int) && (p : Int) != (pos : Int)) = true
    have : (pos == 0) = false := by rw [beq_eq_false_iff_ne]; omega
    simp only [this, Bool.false_eq_true, if_false, idOk, after_length, Bool.and_eq_true, decide_eq_true_eq, Bool.or_eq_true,
      beq_iff_eq, bne_iff_ne]
    omega
  · have hold := h.objc "root-or-parent" o ho
    simp only [objClause, objClauses, List.find?, String.reduceBEq] at hold
    rw [upd_parent, upd_id]
    by_cases h0 : o.id = 0
    · simp only [h0, beq_self_eq_true, if_true, beq_iff_eq] at hold
      have : shN pos 0 = 0 := shN_of_lt pos 0 (by omega)
      rw [h0, this, hold, shI_m1]
      rfl
    · have e1 : (o.id == 0) = false := by rw [beq_eq_false_iff_ne]; exact h0
      have e2 : (shN pos o.id == 0) = false := by rw [beq_eq_false_iff_ne]; unfold shN; split <;> omega
      simp only [e1, Bool.false_eq_true, if_false, idOk, Bool.and_eq_true, decide_eq_true_eq, Bool.or_eq_true, beq_iff_eq,
        bne_iff_ne] at hold
      simp only [e2, Bool.false_eq_true, if_false, idOk, after_length, Bool.and_eq_true, decide_eq_true_eq, Bool.or_eq_true,
        beq_iff_eq, bne_iff_ne]
      obtain ⟨⟨h1, h2⟩, h3⟩ := hold
      have hn := (shI_nonneg pos o.parent).2 h1
      refine ⟨⟨hn, Or.inr ⟨hn, ?_⟩⟩, ?_⟩
      · rw [shI_toNat pos _ h1]; unfold shN; split <;> omega
      · rw [← shI_nat]; exact fun e => h3 (shI_inj pos _ _ e)

end
end Hw.Topo.MiscIns
