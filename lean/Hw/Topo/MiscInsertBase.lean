/-
  Hw.Topo.MiscInsertBase — basic facts about the dump-level model of hwloc_topology_insert_misc_object
  (Hw.Topo.MiscInsert): the id renaming, the position of every object after the call, lookups in the new dump.
-/
import Hw.Topo.MiscInsert
import Hw.Topo.HistoryLemmas
import Hw.Topo.WFTree
namespace Hw.Topo.MiscIns
open Hw.Topo Hw.Topo.Hist

/-! ### the renaming -/

theorem shI_neg (pos : Nat) (i : Int) (h : i < 0) : shI pos i = i := by
  unfold shI; split <;> omega
theorem shI_m1 (pos : Nat) : shI pos (-1) = -1 := shI_neg pos _ (by omega)
theorem shI_m2 (pos : Nat) : shI pos (-2) = -2 := shI_neg pos _ (by omega)
theorem shI_nat (pos i : Nat) : shI pos (i : Int) = (shN pos i : Int) := by
  unfold shI shN; split <;> split <;> omega
theorem shI_inj (pos : Nat) (a b : Int) (h : shI pos a = shI pos b) : a = b := by
  unfold shI at h; split at h <;> split at h <;> omega
theorem shI_ne_pos (pos : Nat) (a : Int) : shI pos a ≠ (pos : Int) := by
  unfold shI; split <;> omega
theorem shN_ne_pos (pos a : Nat) : shN pos a ≠ pos := by
  unfold shN; split <;> omega
theorem shN_inj (pos a b : Nat) (h : shN pos a = shN pos b) : a = b := by
  unfold shN at h; split at h <;> split at h <;> omega
theorem shI_lt (pos : Nat) (a b : Int) : shI pos a < shI pos b ↔ a < b := by
  unfold shI; split <;> split <;> omega
theorem shI_nonneg (pos : Nat) (a : Int) : 0 ≤ shI pos a ↔ 0 ≤ a := by
  unfold shI; split <;> omega
theorem shI_eq_m1 (pos : Nat) (a : Int) : shI pos a = -1 ↔ a = -1 := by
  unfold shI; split <;> omega
theorem shN_of_lt (pos a : Nat) (h : a < pos) : shN pos a = a := by
  unfold shN; split <;> omega
theorem shI_of_lt (pos : Nat) (a : Int) (h : a < (pos : Int)) : shI pos a = a := by
  unfold shI; split <;> omega
theorem shI_toNat (pos : Nat) (a : Int) (h : 0 ≤ a) : (shI pos a).toNat = shN pos a.toNat := by
  unfold shI shN; split <;> split <;> omega
theorem shI_getD (pos : Nat) (x : Option Int) (dflt : Int) (hd : dflt < 0) :
    shI pos (x.getD dflt) = (x.map (shI pos)).getD dflt := by
  cases x with
  | none => exact shI_neg pos dflt hd
  | some v => rfl

/-! ### insertion into a list -/

theorem insAt_length {α : Type} (l : List α) (pos : Nat) (x : α) : (insAt l pos x).length = l.length + 1 := by
  unfold insAt
  simp only [List.length_append, List.length_take, List.length_cons, List.length_drop]
  omega

theorem insAt_get_sh {α : Type} (l : List α) (pos : Nat) (x : α) (hp : pos ≤ l.length) (i : Nat) :
    (insAt l pos x)[shN pos i]? = l[i]? := by
  unfold insAt shN
  split
  · rename_i h
    rw [List.getElem?_append_right (by simp only [List.length_take]; omega)]
    simp only [List.length_take]
    have e : i + 1 - min pos l.length = (i - pos) + 1 := by omega
    rw [e, List.getElem?_cons_succ, List.getElem?_drop]
    congr 1; omega
  · rename_i h
    rw [List.getElem?_append_left (by simp only [List.length_take]; omega)]
    rw [List.getElem?_take]
    simp only [show i < pos by omega, if_true]

theorem insAt_get_pos {α : Type} (l : List α) (pos : Nat) (x : α) (hp : pos ≤ l.length) :
    (insAt l pos x)[pos]? = some x := by
  unfold insAt
  rw [List.getElem?_append_right (by simp only [List.length_take]; omega)]
  simp only [List.length_take]
  have e : pos - min pos l.length = 0 := by omega
  rw [e]; rfl

theorem mem_insAt {α : Type} (l : List α) (pos : Nat) (x y : α) : y ∈ insAt l pos x ↔ y = x ∨ y ∈ l := by
  unfold insAt
  rw [List.mem_append, List.mem_cons]
  constructor
  · rintro (h | h | h)
    · exact Or.inr (List.mem_of_mem_take h)
    · exact Or.inl h
    · exact Or.inr (List.mem_of_mem_drop h)
  · rintro (h | h)
    · exact Or.inr (Or.inl h)
    · rw [← List.take_append_drop pos l, List.mem_append] at h
      rcases h with h | h
      · exact Or.inl h
      · exact Or.inr (Or.inr h)

theorem insAt_map {α β : Type} (f : α → β) (l : List α) (pos : Nat) (x : α) :
    (insAt l pos x).map f = insAt (l.map f) pos (f x) := by
  unfold insAt
  simp only [List.map_append, List.map_cons, List.map_take, List.map_drop]

theorem insAt_perm {α : Type} (l : List α) (pos : Nat) (x : α) : (insAt l pos x).Perm (x :: l) := by
  unfold insAt
  have h1 : (l.take pos ++ x :: l.drop pos).Perm (x :: (l.take pos ++ l.drop pos)) := List.perm_middle
  rw [List.take_append_drop] at h1
  exact h1

theorem insAt_filter_neg {α : Type} (q : α → Bool) (l : List α) (pos : Nat) (x : α) (hx : q x = false) :
    (insAt l pos x).filter q = l.filter q := by
  unfold insAt
  rw [List.filter_append, List.filter_cons, hx]
  simp only [Bool.false_eq_true, if_false]
  rw [← List.filter_append, List.take_append_drop]

/-! ### the position of the insertion -/

theorem subEnd_le (d : Dump) (p : Nat) : subEnd d p ≤ d.objs.length := by
  unfold subEnd
  cases hf : (List.range d.objs.length).find? _ with
  | none => exact Nat.le_refl _
  | some j =>
    have := List.mem_of_find?_eq_some hf
    rw [List.mem_range] at this
    exact Nat.le_of_lt this

theorem subEnd_gt (d : Dump) (p : Nat) (hp : p < d.objs.length) : p < subEnd d p := by
  unfold subEnd
  cases hf : (List.range d.objs.length).find? _ with
  | none => exact hp
  | some j =>
    have := List.find?_some hf
    simp only [Bool.and_eq_true, decide_eq_true_eq] at this
    exact this.1

theorem obj?_nat' (d : Dump) (n : Nat) : d.obj? (n : Int) = d.objs[n]? := by
  unfold Dump.obj?
  have : ¬ ((n : Int) < 0) := by omega
  rw [if_neg this, Int.toNat_natCast]

/-! ### the new dump -/

section
variable (d : Dump) (p pos k : Nat) (name : Option String) (skip : Nat)

theorem after_length : (after d p pos k name skip).objs.length = d.objs.length + 1 := by
  simp only [after, insObjs, insAt_length, List.length_map]

theorem after_get_sh (hpos : pos ≤ d.objs.length) (i : Nat) :
    (after d p pos k name skip).objs[shN pos i]? = (d.objs[i]?).map (upd p pos k (lastId d p)) := by
  simp only [after, insObjs]
  rw [insAt_get_sh _ _ _ (by simpa using hpos), List.getElem?_map]

theorem after_get_pos (hpos : pos ≤ d.objs.length) :
    (after d p pos k name skip).objs[pos]? = some (newObj d p pos k name skip) := by
  simp only [after, insObjs]
  exact insAt_get_pos _ _ _ (by simpa using hpos)

theorem after_obj?_sh (hpos : pos ≤ d.objs.length) (i : Int) :
    (after d p pos k name skip).obj? (shI pos i) = (d.obj? i).map (upd p pos k (lastId d p)) := by
  unfold Dump.obj?
  by_cases hi : i < 0
  · rw [shI_neg pos i hi]; simp only [hi, if_true]; rfl
  · have h2 : ¬ (shI pos i < 0) := by have := shI_nonneg pos i; omega
    simp only [hi, h2, if_false]
    rw [shI_toNat pos i (by omega)]
    exact after_get_sh d p pos k name skip hpos _

theorem after_obj?_pos (hpos : pos ≤ d.objs.length) :
    (after d p pos k name skip).obj? (pos : Int) = some (newObj d p pos k name skip) := by
  rw [obj?_nat']
  exact after_get_pos d p pos k name skip hpos

theorem mem_after (o' : Obj) :
    o' ∈ (after d p pos k name skip).objs ↔ o' = newObj d p pos k name skip ∨ ∃ o ∈ d.objs, o' = upd p pos k (lastId d p) o := by
  simp only [after, insObjs]
  rw [mem_insAt, List.mem_map]
  constructor
  · rintro (h | ⟨o, ho, rfl⟩)
    · exact Or.inl h
    · exact Or.inr ⟨o, ho, rfl⟩
  · rintro (h | ⟨o, ho, rfl⟩)
    · exact Or.inl h
    · exact Or.inr ⟨o, ho, rfl⟩

end

/-! ### consequences of well-formedness used throughout (see also `WF.id_eq_pos`, `WF.obj?_id`, `WF.id_lt` in WFTree) -/

theorem obj?_nat (d : Dump) (n : Nat) : d.obj? (n : Int) = d.objs[n]? := by
  unfold Dump.obj?
  have : ¬ ((n : Int) < 0) := by omega
  rw [if_neg this, Int.toNat_natCast]

theorem WF.get_id {d : Dump} (h : WF d) {o : Obj} (ho : o ∈ d.objs) : d.objs[o.id]? = some o := by
  obtain ⟨i, hi⟩ := List.mem_iff_getElem?.1 ho
  rw [h.id_eq_pos hi]; exact hi

theorem WF.obj?_some {d : Dump} (h : WF d) {i : Int} {o : Obj} (hi : d.obj? i = some o) : (o.id : Int) = i ∧ o ∈ d.objs := by
  refine ⟨?_, Dump.mem_of_obj? hi⟩
  obtain ⟨h0, _, h2⟩ := Dump.obj?_some hi
  have := h.id_eq_pos h2; omega

end Hw.Topo.MiscIns
