/-
  Hw.Topo.StageMemoryDump — the WF clause `total-memory` in DUMP form (through the `totSum` fold of `mkAux`) for the rendering of
  every typed tree whose carried fields hold what `propagate_total_memory` leaves:

      MemEx loc t ex :  for every object occurrence of `t`, `ex` carries total_memory = Stage.totalT loc (its subtree)
                        and, for a NUMA node, attrs[0] (numanode.local_memory) = loc

  `MemEx` is what the Stage2 tie checks on every load (block `mem_after`: every object's total_memory is `totalsT`).
-/
import Hw.Topo.RenderSums
import Hw.Topo.StageMemoryLemmas
namespace Hw.Topo.Restrict.Stage
open Hw.Topo Hw.Topo.Restrict

/-- the carried fields hold the result of propagate_total_memory (the total of a typed I/O or Misc subtree is 0: never visited) -/
def MemEx (loc : RObj → Nat) (t : Tree) (ex : RObj → Extra) : Prop :=
  ∀ oc ∈ occs t, (ex oc.t.obj).totalMem = totalT loc oc.t ∧
    (oc.t.obj.type = tNUMA → ((((ex oc.t.obj).attrs)[0]?).getD 0).toNat = loc oc.t.obj)

theorem ro_totalMem (nl : List (Nat × List Nat)) (os : List Occ) (ex : RObj → Extra) (oc : Occ) :
    (renderObj nl os ex oc).totalMem = (ex oc.t.obj).totalMem := by cases oc with | mk a b c d e t => cases t; rfl
theorem ro_attrs (nl : List (Nat × List Nat)) (os : List Occ) (ex : RObj → Extra) (oc : Occ) :
    (renderObj nl os ex oc).attrs = (ex oc.t.obj).attrs := by cases oc with | mk a b c d e t => cases t; rfl

theorem clause_total_memory : objClause "total-memory" = fun _ a o =>
    o.totalMem == (if o.type == tNUMA then ((o.attrs[0]?).getD 0).toNat else 0) + getN a.totSum o.id := by
  simp only [objClause, objClauses, List.find?, String.reduceBEq]

def nmType (ty : Nat) : Bool := isNormal ty || isMemory ty
/-- the weight of a child in the `totSum` fold, after `MemEx` -/
def totW (loc : RObj → Nat) (c : Tree) : Nat := if nmType c.obj.type then totalT loc c else 0

theorem wsum_totW_nm (loc : RObj → Nat) (l : List Tree) (h : ∀ c ∈ l, nmType c.obj.type = true) :
    wsum (totW loc) l = sumTotals loc l := by
  unfold wsum sumTotals
  congr 1
  apply List.map_congr_left
  intro c hc
  unfold totW; rw [h c hc]; rfl

theorem wsum_totW_zero (loc : RObj → Nat) (l : List Tree) (h : ∀ c ∈ l, nmType c.obj.type = false) :
    wsum (totW loc) l = 0 := by
  induction l with
  | nil => rfl
  | cons c cs ih =>
    rw [wsum_cons, ih (fun x hx => h x (List.mem_cons_of_mem _ hx))]
    unfold totW; rw [h c (List.mem_cons_self ..)]; rfl

theorem nm_of_normal {ty : Nat} (h : isNormal ty = true) : nmType ty = true := by unfold nmType; rw [h]; rfl
theorem nm_of_memory {ty : Nat} (h : isMemory ty = true) : nmType ty = true := by unfold nmType; rw [h]; simp
theorem nm_of_io {ty : Nat} (h : isIO ty = true) : nmType ty = false := by
  unfold nmType isNormal isMemory
  simp only [isIO, Bool.or_eq_true, beq_iff_eq, tBRIDGE, tPCI, tOSDEV] at h
  simp only [tGROUP, tNUMA, tMEMCACHE]
  rcases h with (h | h) | h <;> subst h <;> decide
theorem nm_of_misc {ty : Nat} (h : isMisc ty = true) : nmType ty = false := by
  unfold nmType isNormal isMemory
  simp only [isMisc, beq_iff_eq, tMISC] at h
  subst h; decide

/-- in a typed tree the `totSum` weights of the children of an object add up to the totals of its normal and memory children -/
theorem rootsW_totW (loc : RObj → Nat) (t : Tree) (ht : typedT t = true) :
    rootsW (totW loc) t = sumTotals loc t.ns + sumTotals loc t.ms := by
  cases t with
  | node o ns ms ios mis =>
    have hl := typedT_lists _ ht
    simp only [Tree.ns, Tree.ms, Tree.ios, Tree.mis] at hl
    rw [rootsW, wsum_totW_nm loc ns (fun c hc => nm_of_normal (typedL_mem' _ _ hl.1 c hc)),
      wsum_totW_nm loc ms (fun c hc => nm_of_memory (typedL_mem' _ _ hl.2.1 c hc)),
      wsum_totW_zero loc ios (fun c hc => nm_of_io (typedL_mem' _ _ hl.2.2.1 c hc)),
      wsum_totW_zero loc mis (fun c hc => nm_of_misc (typedL_mem' _ _ hl.2.2.2 c hc))]
    rfl

/-- a typed subtree whose root is neither normal nor memory (I/O, Misc) holds no NUMA node that the sums reach -/
theorem sumLocalT_special (loc : RObj → Nat) (t : Tree) (ht : typedT t = true) (hn : nmType t.obj.type = false) :
    sumLocalT loc t = 0 := by
  cases t with
  | node o ns ms ios mis =>
    have hn' : isNormal o.type = false ∧ isMemory o.type = false := by
      unfold nmType at hn; simpa [Tree.obj] using hn
    rw [typedT] at ht
    simp only [Bool.and_eq_true, Bool.or_eq_true, hn'.1, List.isEmpty_iff] at ht
    have hns : ns = [] := by simpa using ht.1.1.1.1.1.1.1
    have hms : ms = [] := by
      rcases ht.1.1.1.1.1.1.2 with h | h
      · rcases h with h | h
        · exact absurd h (by simp)
        · have : isMemory o.type = true := by unfold isMemory; rw [h]; simp
          rw [hn'.2] at this; exact absurd this (by simp)
      · exact h
    have hnu : (o.type == tNUMA) = false := by
      have := hn'.2; unfold isMemory at this; simp only [Bool.or_eq_false_iff] at this; exact this.1
    subst hns; subst hms
    rw [sumLocalT, hnu]; simp [sumLocalL]

theorem sumLocalL_special (loc : RObj → Nat) (l : List Tree) (h : ∀ c ∈ l, typedT c = true ∧ nmType c.obj.type = false) :
    sumLocalL loc l = 0 := by
  induction l with
  | nil => rw [sumLocalL]
  | cons c cs ih =>
    rw [sumLocalL, ih (fun x hx => h x (List.mem_cons_of_mem _ hx)),
      sumLocalT_special loc c (h c (List.mem_cons_self ..)).1 (h c (List.mem_cons_self ..)).2]

theorem typedL_all (k : Nat → Bool) (l : List Tree) (h : typedL k l = true) : ∀ t ∈ l, typedT t = true := by
  induction l with
  | nil => intro t ht; cases ht
  | cons a as ih =>
    rw [typedL] at h
    simp only [Bool.and_eq_true] at h
    intro t ht
    rcases List.mem_cons.1 ht with rfl | ht
    · exact h.1.2
    · exact ih h.2 t ht

/-- the local-memory sum below any object occurrence of a typed tree is at most the sum of the whole tree -/
theorem occs_sumLocal_le (loc : RObj → Nat) :
    (∀ t, typedT t = true → ∀ s par rk pv nx, ∀ oc ∈ occsT s par rk pv nx t, sumLocalT loc oc.t ≤ sumLocalT loc t) ∧
    (∀ l, (∀ t ∈ l, typedT t = true) → ∀ s par rk pv, ∀ oc ∈ occsL s par rk pv l, sumLocalT loc oc.t ≤ sumLocalL loc l) := by
  have hnode : ∀ o ns ms ios mis,
      ((∀ t ∈ ns, typedT t = true) → ∀ s par rk pv, ∀ oc ∈ occsL s par rk pv ns, sumLocalT loc oc.t ≤ sumLocalL loc ns) →
      ((∀ t ∈ ms, typedT t = true) → ∀ s par rk pv, ∀ oc ∈ occsL s par rk pv ms, sumLocalT loc oc.t ≤ sumLocalL loc ms) →
      ((∀ t ∈ ios, typedT t = true) → ∀ s par rk pv, ∀ oc ∈ occsL s par rk pv ios, sumLocalT loc oc.t ≤ sumLocalL loc ios) →
      ((∀ t ∈ mis, typedT t = true) → ∀ s par rk pv, ∀ oc ∈ occsL s par rk pv mis, sumLocalT loc oc.t ≤ sumLocalL loc mis) →
      (typedT (.node o ns ms ios mis) = true → ∀ s par rk pv nx, ∀ oc ∈ occsT s par rk pv nx (.node o ns ms ios mis),
        sumLocalT loc oc.t ≤ sumLocalT loc (.node o ns ms ios mis)) := by
    intro o ns ms ios mis h1 h2 h3 h4 ht s par rk pv nx oc hoc
    have hl := typedT_lists _ ht
    simp only [Tree.ns, Tree.ms, Tree.ios, Tree.mis] at hl
    rw [occsT, List.mem_cons] at hoc
    rcases hoc with hoc | hoc
    · subst hoc; exact Nat.le_refl _
    · simp only [List.mem_append] at hoc
      rw [sumLocalT]
      rcases hoc with ((hoc | hoc) | hoc) | hoc
      · have := h1 (typedL_all _ _ hl.1) _ _ _ _ oc hoc; omega
      · have := h2 (typedL_all _ _ hl.2.1) _ _ _ _ oc hoc; omega
      · have := h3 (typedL_all _ _ hl.2.2.1) _ _ _ _ oc hoc
        rw [sumLocalL_special loc ios (fun c hc => ⟨typedL_all _ _ hl.2.2.1 c hc, nm_of_io (typedL_mem' _ _ hl.2.2.1 c hc)⟩)] at this
        omega
      · have := h4 (typedL_all _ _ hl.2.2.2) _ _ _ _ oc hoc
        rw [sumLocalL_special loc mis (fun c hc => ⟨typedL_all _ _ hl.2.2.2 c hc, nm_of_misc (typedL_mem' _ _ hl.2.2.2 c hc)⟩)] at this
        omega
  have hnil : (∀ t ∈ ([] : List Tree), typedT t = true) → ∀ s par rk pv, ∀ oc ∈ occsL s par rk pv [], sumLocalT loc oc.t ≤ sumLocalL loc [] := by
    intro _ s par rk pv oc hoc; rw [occsL] at hoc; cases hoc
  have hcons : ∀ t ts,
      (typedT t = true → ∀ s par rk pv nx, ∀ oc ∈ occsT s par rk pv nx t, sumLocalT loc oc.t ≤ sumLocalT loc t) →
      ((∀ t ∈ ts, typedT t = true) → ∀ s par rk pv, ∀ oc ∈ occsL s par rk pv ts, sumLocalT loc oc.t ≤ sumLocalL loc ts) →
      ((∀ x ∈ t :: ts, typedT x = true) → ∀ s par rk pv, ∀ oc ∈ occsL s par rk pv (t :: ts), sumLocalT loc oc.t ≤ sumLocalL loc (t :: ts)) := by
    intro t ts h1 h2 hty s par rk pv oc hoc
    rw [occsL, List.mem_append] at hoc
    rw [sumLocalL]
    rcases hoc with hoc | hoc
    · have := h1 (hty t (List.mem_cons_self ..)) _ _ _ _ _ oc hoc; omega
    · have := h2 (fun x hx => hty x (List.mem_cons_of_mem _ hx)) _ _ _ _ oc hoc; omega
  exact ⟨tree_ind4T hnode hnil hcons, tree_ind4L hnode hnil hcons⟩

/-- **total-memory in dump form**: for the rendering of every typed tree whose NUMA local memory fits in 64 bits and whose carried
    fields hold the result of `propagate_total_memory` (`MemEx`), EVERY object of the dump satisfies the WF clause `total-memory`
    as the oracle evaluates it — through the `totSum` fold of `mkAux` over the object list -/
theorem render_total_memory (loc : RObj → Nat) (t : Tree) (ht : typedT t = true) (hb : sumLocalT loc t < W64)
    (h : Hdr) (ex : RObj → Extra) (hex : MemEx loc t ex) (o : Obj) (ho : o ∈ (render t h ex).objs) :
    objClause "total-memory" (render t h ex) (mkAux (render t h ex)) o = true := by
  rw [clause_total_memory]
  obtain ⟨oc, hoc, rfl⟩ := render_mem t h ex o ho
  have htyp : typedT oc.t = true := occs_typed.1 t ht 0 (-1) 0 (-1) (-1) oc hoc
  have hid : (rObj t ex oc).id = oc.id := by unfold rObj; rw [ro_id]
  have hlt : oc.id < (render t h ex).objs.length := by
    rw [render_objs, List.length_map]
    have := (occ_range.1 t 0 (-1) 0 (-1) (-1) oc hoc).2
    rw [show (occs t).length = sizeT t from occsT_length t 0 (-1) 0 (-1) (-1)]
    omega
  -- the aggregate
  have hsum : getN (mkAux (render t h ex)).totSum oc.id = rootsW (totW loc) oc.t := by
    rw [mkAux_totSum _ _ hlt, render_objs, List.filter_map, List.map_map, ← occ_sum (totW loc) t oc hoc]
    unfold osum
    have hf : (parentIs oc.id ∘ rObj t ex) = PQ oc.id := by
      funext x; simp only [Function.comp, parentIs, PQ, rObj, ro_parent]
    rw [hf]
    congr 1
    apply List.map_congr_left
    intro x hx
    have hxm : x ∈ occs t := (List.mem_filter.1 hx).1
    simp only [Function.comp, memW, rObj, ro_type, ro_totalMem, totW, nmType, (hex x hxm).1]
    rfl
  have hbo : sumLocalT loc oc.t < W64 := Nat.lt_of_le_of_lt ((occs_sumLocal_le loc).1 t ht 0 (-1) 0 (-1) (-1) oc hoc) hb
  show ((rObj t ex oc).totalMem == (if ((rObj t ex oc).type == tNUMA) = true then (((rObj t ex oc).attrs[0]?).getD 0).toNat else 0) +
    getN (mkAux (render t h ex)).totSum (rObj t ex oc).id) = true
  rw [hid, hsum, rootsW_totW loc oc.t htyp]
  unfold rObj
  rw [ro_totalMem, ro_type, ro_attrs, (hex oc hoc).1]
  cases hc : oc.t with
  | node o ns ms ios mis =>
    rw [hc] at hbo
    rw [totalT_clause loc o ns ms ios mis hbo]
    simp only [Tree.obj, Tree.ns, Tree.ms, beq_iff_eq]
    by_cases hn : o.type = tNUMA
    · have := (hex oc hoc).2 (by rw [hc]; exact hn)
      rw [hc] at this
      simp only [Tree.obj] at this
      simp only [hn, if_true, this]
    ·       rw [if_neg hn, if_neg hn]

/-! ### `MemEx` from the output of the stage, when gp_index values are distinct -/

/-- (gp_index, total_memory) of every object occurrence (I/O and Misc included: 0 in a typed tree) -/
def memTab (loc : RObj → Nat) (t : Tree) : List (Nat × Nat) := (occs t).map (fun oc => (oc.t.obj.gp, totalT loc oc.t))

/-- the carried fields from a table: total_memory by gp_index, local memory of NUMA nodes -/
def exOfTab (tab : List (Nat × Nat)) (loc : RObj → Nat) (base : RObj → Extra) (o : RObj) : Extra :=
  { base o with
    totalMem := ((tab.find? (fun p => p.1 == o.gp)).map (·.2)).getD 0,
    attrs := if o.type = tNUMA then [(loc o : Int)] else (base o).attrs }

/-- write the result of `propagate_total_memory` into the carried fields -/
def exOfMem (loc : RObj → Nat) (t : Tree) (base : RObj → Extra) : RObj → Extra := exOfTab (memTab loc t) loc base

theorem find_unique {α : Type} (f : α → Nat) : ∀ (l : List α), (l.map f).Nodup → ∀ a ∈ l, l.find? (fun x => f x == f a) = some a := by
  intro l
  induction l with
  | nil => intro _ a ha; cases ha
  | cons x xs ih =>
    intro hnd a ha
    rw [List.map_cons, List.nodup_cons] at hnd
    rw [List.find?_cons]
    rcases List.mem_cons.1 ha with rfl | ha
    · simp
    · have hne : f x ≠ f a := fun he => hnd.1 (he ▸ List.mem_map_of_mem ha)
      have : (f x == f a) = false := by simpa using hne
      rw [this]
      exact ih hnd.2 a ha

/-- with pairwise distinct gp_index values (WF clause gp-index-unique) the fields written from the stage's output satisfy `MemEx` -/
theorem memEx_exOfMem (loc : RObj → Nat) (t : Tree) (base : RObj → Extra) (hu : ((occs t).map (fun oc => oc.t.obj.gp)).Nodup) :
    MemEx loc t (exOfMem loc t base) := by
  intro oc hoc
  constructor
  · show (((memTab loc t).find? (fun p => p.1 == oc.t.obj.gp)).map (·.2)).getD 0 = _
    unfold memTab
    rw [List.find?_map]
    have : ((fun (p : Nat × Nat) => p.1 == oc.t.obj.gp) ∘ fun (oc : Occ) => (oc.t.obj.gp, totalT loc oc.t)) =
        fun x : Occ => x.t.obj.gp == oc.t.obj.gp := rfl
    rw [this, find_unique (fun x : Occ => x.t.obj.gp) (occs t) hu oc hoc]
    rfl
  · intro hn
    show (((if oc.t.obj.type = tNUMA then [(loc oc.t.obj : Int)] else (base oc.t.obj).attrs)[0]?).getD 0).toNat = _
    rw [if_pos hn]; simp

end Hw.Topo.Restrict.Stage
