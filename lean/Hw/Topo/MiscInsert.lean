/-
  Hw.Topo.MiscInsert — `hwloc_topology_insert_misc_object` on the DUMP level (C02).

  The C code (hwloc/topology.c): EINVAL when the Misc type filter is KEEP_NONE (nothing is touched);
  `hwloc_alloc_setup_object(MISC, UNKNOWN_INDEX)` (gp_index = topology->next_gp_index++, zeroed attributes),
  `obj->name = strdup(name)`; `hwloc_insert_object_by_parent`: the object becomes the LAST Misc child of `parent`;
  `hwloc_topology_reconnect`: `hwloc_connect_children` recomputes sibling links / ranks / arities,
  `hwloc_connect_special_levels` -> `hwloc_list_special_objects` rebuilds the Misc level by a depth-first walk
  (the object, its normal children, memory children, I/O children, Misc children), so the Misc level is in the
  order of the dump ids and every later Misc object is renumbered.

  On the dump (objects numbered in that same depth-first order) this is: the new object gets the id `pos` = end of
  the parent's subtree (Misc children are the LAST list, the new child is its last element), every id >= pos moves
  up by one in every link field and in every level, and a handful of fields of three old objects change
  (`adjust`).  `next_gp_index` is not observable: the model takes the number `skip` of gp indexes consumed by
  objects that are no longer (or never were) linked; the new gp_index is `maxGp + 1 + skip`.
-/
import Hw.Topo.History
namespace Hw.Topo.MiscIns
open Hw.Topo Hw.Topo.Hist

/-- id renaming: ids at or after the insertion point move up by one (NULL = -1 and dangling = -2 stay) -/
def shI (pos : Nat) (i : Int) : Int := if (pos : Int) ≤ i then i + 1 else i
def shN (pos i : Nat) : Nat := if pos ≤ i then i + 1 else i

/-- end of the subtree of object `p` in the depth-first numbering: the first later object whose parent lies before `p` -/
def subEnd (d : Dump) (p : Nat) : Nat :=
  ((List.range d.objs.length).find? (fun j => decide (p < j) && (match d.objs[j]? with
      | some o => decide (o.parent < (p : Int))
      | none => true))).getD d.objs.length

def miscLevel (d : Dump) : List Int := ((levelOf d (-7)).map (·.objs)).getD []

/-- logical index of the new object: number of Misc objects before the insertion point -/
def newLidx (d : Dump) (pos : Nat) : Nat := ((miscLevel d).filter (fun i => decide (i < (pos : Int)))).length

def maxGp (d : Dump) : Nat := d.objs.foldl (fun m o => max m o.gp) 0

/-- the old last Misc child of `p` (none when `p` has no Misc child) -/
def lastMisc (d : Dump) (p : Nat) : Option Obj :=
  d.objs.find? (fun o => o.parent == (p : Int) && o.type == tMISC && o.nextSib == -1)

def lastId (d : Dump) (p : Nat) : Int := ((lastMisc d p).map (fun o => (o.id : Int))).getD (-1)

/-! the six fields of OLD objects that the call changes beyond the renaming -/
/-- the parent has one more Misc child -/
def updMiscarity (p : Nat) (o : Obj) : Nat := if o.id == p then o.miscarity + 1 else o.miscarity
/-- … which is its first one when it had none -/
def updMiscFirst (p pos : Nat) (o : Obj) : Int := if o.id == p && o.miscarity == 0 then (pos : Int) else shI pos o.miscFirst
/-- the previous last Misc child of the parent: its next sibling is the new object -/
def updNextSib (last : Int) (pos : Nat) (o : Obj) : Int := if (o.id : Int) == last then (pos : Int) else shI pos o.nextSib
/-- the Misc level: later objects are renumbered, the two neighbours get the new cousin -/
def updLidx (k : Nat) (o : Obj) : Nat := if o.type == tMISC && decide (k ≤ o.lidx) then o.lidx + 1 else o.lidx
def updPrevCousin (pos k : Nat) (o : Obj) : Int := if o.type == tMISC && o.lidx == k then (pos : Int) else shI pos o.prevCousin
def updNextCousin (pos k : Nat) (o : Obj) : Int := if o.type == tMISC && o.lidx + 1 == k then (pos : Int) else shI pos o.nextCousin

/-- an OLD object after the call: every link field renamed, the six fields above updated, everything else untouched -/
def upd (p pos k : Nat) (last : Int) (o : Obj) : Obj :=
  { o with id := shN pos o.id, lidx := updLidx k o, parent := shI pos o.parent, miscarity := updMiscarity p o,
           nextSib := updNextSib last pos o, prevSib := shI pos o.prevSib,
           nextCousin := updNextCousin pos k o, prevCousin := updPrevCousin pos k o,
           firstChild := shI pos o.firstChild, lastChild := shI pos o.lastChild, memFirst := shI pos o.memFirst,
           ioFirst := shI pos o.ioFirst, miscFirst := updMiscFirst p pos o, children := o.children.map (shI pos) }

/-- the NEW object -/
def newObj (d : Dump) (p pos k : Nat) (name : Option String) (skip : Nat) : Obj :=
  let ml := miscLevel d
  { id := pos, type := tMISC, depth := -7, lidx := k, osidx := -1, gp := maxGp d + 1 + skip, parent := (p : Int),
    rank := ((d.objs[p]?).map (·.miscarity)).getD 0, arity := 0, marity := 0, ioarity := 0, miscarity := 0,
    nextSib := -1, prevSib := shI pos (lastId d p),
    nextCousin := ((ml[k]?).map (shI pos)).getD (-1),
    prevCousin := if k = 0 then -1 else ((ml[k - 1]?).map (shI pos)).getD (-2),
    firstChild := -1, lastChild := -1, memFirst := -1, ioFirst := -1, miscFirst := -1, symm := 0,
    cpuset := none, ccpuset := none, nodeset := none, cnodeset := none, totalMem := 0, attrs := [0, 0, 0, 0, 0, 0],
    children := [], subtype := none, name := name, infos := [] }

/-- insertion of one element at position `pos` -/
def insAt {α : Type} (l : List α) (pos : Nat) (x : α) : List α := l.take pos ++ x :: l.drop pos

/-- levels: every id renamed; the new id enters the (first) level of depth -7 at position `k` -/
def insLevels (pos k : Nat) : List Level → List Level
  | [] => []
  | l :: ls =>
    if l.depth == -7 then { l with objs := insAt (l.objs.map (shI pos)) k (pos : Int) } ::
        ls.map (fun l => { l with objs := l.objs.map (shI pos) })
    else { l with objs := l.objs.map (shI pos) } :: insLevels pos k ls

/-- the object list after the call -/
def insObjs (d : Dump) (p pos k : Nat) (name : Option String) (skip : Nat) : List Obj :=
  insAt (d.objs.map (upd p pos k (lastId d p))) pos (newObj d p pos k name skip)

/-- the dump after a successful call with insertion point `pos` and logical index `k` -/
def after (d : Dump) (p pos k : Nat) (name : Option String) (skip : Nat) : Dump :=
  { d with nobjs := d.nobjs + 1, objs := insObjs d p pos k name skip, levels := insLevels pos k d.levels }

/-- **hwloc_topology_insert_misc_object(topology, parent = object number `p`, name)** on a loaded, not adopted topology -/
def insertMisc (d : Dump) (p : Nat) (name : Option String) (skip : Nat) : Dump × Ret :=
  if (d.filters[tMISC]?).getD 0 == 1 then (d, .einval)
  else if d.objs.length ≤ p then (d, .einval)          -- not a call: `parent` is a pointer to an object of the topology
  else (after d p (subEnd d p) (newLidx d (subEnd d p)) name skip, .ok 0)

/-! ### histories mixing the fully modelled calls of `Hw.Topo.Hist` and Misc insertion -/

inductive MOp
  | base (op : HOp)
  | misc (parent : Nat) (name : Option String) (skip : Nat)
deriving Repr, DecidableEq

def stepM (d : Dump) : MOp → Dump × Ret
  | .base op => step d op
  | .misc p name skip => insertMisc d p name skip

def runM (d : Dump) (ops : List MOp) : Dump := ops.foldl (fun d op => (stepM d op).1) d

end Hw.Topo.MiscIns
