/-
  Hw.Topo.RestrictSurvive — who survives a restrict, exactly:
    * level merging (hwloc_filter_levels_keep_structure) removes only NORMAL objects of a typed tree: the multiset of every
      attribute of the non-normal objects (NUMA nodes, memory-side caches, I/O, Misc) is exactly conserved (`cntEq_keepStructure`);
    * the tree recursion keeps every "protected" object (`survive_restrictW`): a PU whose os_index is in S, a NUMA node unless
      REMOVE_CPULESS is given and it is CPU-less afterwards (and the BYNODESET mirror);
    * a surviving object of the primary leaf type (PU by cpuset, NUMA node by nodeset) still has a non-empty primary set
      (`leaf_alive_restrictW`), hence still its singleton.
-/
import Hw.Topo.RestrictTyping
namespace Hw.Topo.Restrict
open Hw.Topo Hw.Gen.Restrict

/-! ### level merging conserves the non-normal objects exactly -/

section exactmerge
variable {α : Type} [DecidableEq α] (f : RObj → α) (a : α)

theorem cnt1_zero {x : RObj} (h : f x ≠ a) : cnt1 f a x = 0 := by
  unfold cnt1 cnt
  simp [h]

theorem cnt_pos_iff (l : List RObj) : 0 < cnt f a l ↔ ∃ x ∈ l, f x = a := by
  unfold cnt
  rw [List.count_pos_iff, List.mem_map]

theorem cnt_eq_zero_of (l : List RObj) (h : ∀ x ∈ l, f x ≠ a) : cnt f a l = 0 := by
  cases hc : cnt f a l with
  | zero => rfl
  | succ n =>
    obtain ⟨x, hx, hfx⟩ := (cnt_pos_iff f a l).1 (by omega)
    exact absurd hfx (h x hx)

theorem cntEq_mergeNode (hm : ∀ o co, isNormal co.type = true → f (absorb o co) = f co) (hN : ∀ x, f x = a → isNormal x.type = false)
    (rc : Bool) (o : RObj) (ns ms ios mis : List Tree) (ht : typedT (.node o ns ms ios mis) = true) :
    cnt f a (objsT (mergeNode rc o ns ms ios mis)) = cnt f a (objsT (.node o ns ms ios mis)) := by
  obtain ⟨ha, _, _, _, t1, _, _, _⟩ := typedT_node o ns ms ios mis ht
  cases ns with
  | nil => rfl
  | cons c rest =>
    cases c with
    | node co cns cms cios cmis =>
      cases rest with
      | cons c2 r2 => rfl
      | nil =>
        have hon : isNormal o.type = true := by
          rcases ha with h | h
          · exact (isNormal_iff _).2 h
          · cases h
        have hcn : isNormal co.type = true := (typedL_get isNormal _ t1 0 _ rfl).1
        have hm' : f (absorbIf ms o co) = f co := by
          unfold absorbIf; split
          · rfl
          · exact hm o co hcn
        have e : cnt f a (objsT (mergeNode rc o [.node co cns cms cios cmis] ms ios mis)) + cnt1 f a (if rc = true then co else o) =
            cnt f a (objsT (.node o [.node co cns cms cios cmis] ms ios mis)) := by
          rw [cnt_perm f a (objsT_mergeNode_perm rc o _ ms ios mis)]
          unfold mergeNode0
          cases rc <;>
            simp only [objsT, objsL, objsL_append, List.append_nil, List.cons_append, cnt_cons1, cnt_append, if_true, if_false,
              Bool.false_eq_true, cnt1_congr f a hm'] <;> omega
        have z : cnt1 f a (if rc = true then co else o) = 0 := by
          apply cnt1_zero
          intro hfa
          have := hN _ hfa
          cases rc
          · simp only [Bool.false_eq_true, if_false] at this; rw [hon] at this; cases this
          · simp only [if_true] at this; rw [hcn] at this; cases this
        omega

mutual
theorem cntEq_mergeT (hm : ∀ o co, isNormal co.type = true → f (absorb o co) = f co) (hN : ∀ x, f x = a → isNormal x.type = false)
    (ps : List Nat) (rc : Bool) : ∀ t, typedT t = true → cnt f a (objsT (mergeT ps rc t)) = cnt f a (objsT t)
  | .node o ns ms ios mis => by
    intro ht
    rw [mergeT]
    split
    · exact cntEq_mergeNode f a hm hN rc o ns ms ios mis ht
    · simp only [objsT]
      have ih := cntEq_mergeL hm hN ps rc ns (typedT_node o ns ms ios mis ht).2.2.2.2.1
      have e1 := cnt_cons f a o (objsL (mergeL ps rc ns) ++ objsL ms ++ objsL ios ++ objsL mis)
      have e2 := cnt_cons f a o (objsL ns ++ objsL ms ++ objsL ios ++ objsL mis)
      simp only [cnt_append] at e1 e2
      omega
theorem cntEq_mergeL (hm : ∀ o co, isNormal co.type = true → f (absorb o co) = f co) (hN : ∀ x, f x = a → isNormal x.type = false)
    (ps : List Nat) (rc : Bool) : ∀ l, typedL isNormal l = true → cnt f a (objsL (mergeL ps rc l)) = cnt f a (objsL l)
  | [] => by intro _; rw [mergeL]
  | t :: ts => by
    intro hl
    rw [typedL] at hl
    simp only [Bool.and_eq_true] at hl
    rw [mergeL]
    simp only [objsL, cnt_append]
    rw [cntEq_mergeT hm hN ps rc t hl.1.2, cntEq_mergeL hm hN ps rc ts hl.2]
end

theorem cntEq_ksStep (hm : ∀ o co, isNormal co.type = true → f (absorb o co) = f co) (hN : ∀ x, f x = a → isNormal x.type = false)
    (filters : List Nat) (i : Nat) (st : Tree × List (List RObj) × Bool) (h : typedT st.1 = true) :
    cnt f a (objsT (ksStep filters i st).1) = cnt f a (objsT st.1) := by
  unfold ksStep
  split
  · split
    · rfl
    · split
      · exact cntEq_mergeT f a hm hN _ _ _ h
      · rfl
  · rfl

theorem cntEq_ksLoop (hm : ∀ o co, isNormal co.type = true → f (absorb o co) = f co) (hN : ∀ x, f x = a → isNormal x.type = false)
    (filters : List Nat) : ∀ (i : Nat) (st : Tree × List (List RObj) × Bool), typedT st.1 = true →
    isNormal st.1.obj.type = true → cnt f a (objsT (ksLoop filters i st).1) = cnt f a (objsT st.1)
  | 0, st, _, _ => by rw [ksLoop]
  | i + 1, st, h, hr => by
    rw [ksLoop]
    have := typed_ksStep filters (i + 1) st h hr
    rw [cntEq_ksLoop hm hN filters i _ this.1 this.2, cntEq_ksStep f a hm hN filters (i + 1) st h]

/-- **hwloc_filter_levels_keep_structure never removes (or duplicates, or changes) a non-normal object**: for every attribute `f`
    that the or-ing of complete sets into a NORMAL child does not change, and every value `a` that only non-normal objects
    take, the number of objects with `f = a` is the same before and after level merging -/
theorem cntEq_keepStructure (hm : ∀ o co, isNormal co.type = true → f (absorb o co) = f co) (hN : ∀ x, f x = a → isNormal x.type = false)
    (filters : List Nat) (t : Tree) (h : typedT t = true) (hr : isNormal t.obj.type = true) :
    cnt f a (objsT (keepStructure filters t)) = cnt f a (objsT t) := by
  unfold keepStructure
  simp only []
  split
  · rw [cnt_perm f a ((reorderAll_perm.1 _).1)]
    exact cntEq_ksLoop f a hm hN filters _ _ h hr
  · exact cntEq_ksLoop f a hm hN filters _ _ h hr

end exactmerge

/-! ### special subtrees contain only special objects -/

def notNM (ty : Nat) : Prop := isNormal ty = false ∧ isMemory ty = false

theorem special_objs :
    (∀ t, typedT t = true → notNM t.obj.type → ∀ x ∈ objsT t, notNM x.type) ∧
    (∀ l, (typedL isIO l = true ∨ typedL isMisc l = true) → ∀ x ∈ objsL l, notNM x.type) := by
  have hnode : ∀ o ns ms ios mis,
      ((typedL isIO ns = true ∨ typedL isMisc ns = true) → ∀ x ∈ objsL ns, notNM x.type) →
      ((typedL isIO ms = true ∨ typedL isMisc ms = true) → ∀ x ∈ objsL ms, notNM x.type) →
      ((typedL isIO ios = true ∨ typedL isMisc ios = true) → ∀ x ∈ objsL ios, notNM x.type) →
      ((typedL isIO mis = true ∨ typedL isMisc mis = true) → ∀ x ∈ objsL mis, notNM x.type) →
      (typedT (.node o ns ms ios mis) = true → notNM (Tree.node o ns ms ios mis).obj.type →
        ∀ x ∈ objsT (.node o ns ms ios mis), notNM x.type) := by
    intro o ns ms ios mis _ _ h3 h4 ht hs
    obtain ⟨ha, hb, _, _, _, _, t3, t4⟩ := typedT_node o ns ms ios mis ht
    simp only [Tree.obj] at hs
    have h1 := (isNormal_false_iff _).1 hs.1
    have h2 := (isMemory_false_iff _).1 hs.2
    have ens : ns = [] := by rcases ha with h | h; · omega
                             · exact h
    have ems : ms = [] := by rcases hb with h | h | h; · omega
                             · omega
                             · exact h
    subst ens; subst ems
    intro x hx
    rw [objsT] at hx
    simp only [objsL, List.nil_append, List.mem_cons, List.mem_append] at hx
    rcases hx with hx | hx | hx
    · subst hx; exact hs
    · exact h3 (Or.inl t3) x hx
    · exact h4 (Or.inr t4) x hx
  have hnil : (typedL isIO [] = true ∨ typedL isMisc [] = true) → ∀ x ∈ objsL [], notNM x.type := by
    intro _ x hx; simp [objsL] at hx
  have hcons : ∀ t ts, (typedT t = true → notNM t.obj.type → ∀ x ∈ objsT t, notNM x.type) →
      ((typedL isIO ts = true ∨ typedL isMisc ts = true) → ∀ x ∈ objsL ts, notNM x.type) →
      ((typedL isIO (t :: ts) = true ∨ typedL isMisc (t :: ts) = true) → ∀ x ∈ objsL (t :: ts), notNM x.type) := by
    intro t ts h1 h2 hall x hx
    rw [objsL, List.mem_append] at hx
    rcases hall with hall | hall
    · rw [typedL] at hall
      simp only [Bool.and_eq_true] at hall
      rcases hx with hx | hx
      · have hio := (isIO_iff _).1 hall.1.1
        exact h1 hall.1.2 ⟨(isNormal_false_iff _).2 (by omega), (isMemory_false_iff _).2 (by omega)⟩ x hx
      · exact h2 (Or.inl hall.2) x hx
    · rw [typedL] at hall
      simp only [Bool.and_eq_true] at hall
      rcases hx with hx | hx
      · have hmi := (isMisc_iff _).1 hall.1.1
        exact h1 hall.1.2 ⟨(isNormal_false_iff _).2 (by omega), (isMemory_false_iff _).2 (by omega)⟩ x hx
      · exact h2 (Or.inr hall.2) x hx
  exact ⟨tree_ind4T hnode hnil hcons, tree_ind4L hnode hnil hcons⟩

theorem filter_special_nil (prot : RObj → Bool) (hkind : ∀ o, prot o = true → isNormal o.type = true ∨ isMemory o.type = true)
    (l : List Tree) (h : typedL isIO l = true ∨ typedL isMisc l = true) : (objsL l).filter prot = [] := by
  rw [List.filter_eq_nil_iff]
  intro x hx hp
  have := special_objs.2 l h x hx
  rcases hkind x hp with h1 | h1
  · rw [this.1] at h1; cases h1
  · rw [this.2] at h1; cases h1

/-! ### protected objects survive the tree recursion -/

section survive
variable {α : Type} [DecidableEq α] (f : RObj → α) (a : α)

theorem cnt_filter_le (prot : RObj → Bool) (l : List RObj) : cnt f a (l.filter prot) ≤ cnt f a l := by
  unfold cnt
  exact (List.Sublist.map f List.filter_sublist).count_le a

/-- **protected objects survive**: if `prot o` excludes the removal condition of `o` itself (its primary set stays non-empty,
    or its type is exempt), then every protected object of a typed subtree is among the survivors kept in place — an ancestor
    of a survivor is never removed -/
theorem survive_restrictW {ro : List Tree → List Tree} (hro : ∀ l, (ro l).Perm l) (p : Params) (prot : RObj → Bool)
    (hf : ∀ o, f (shrinkG p o) = f o)
    (hprot : ∀ o, prot o = true → (emptyAfter p (shrinkG p o) && removable p o.type) = false)
    (hkind : ∀ o, prot o = true → isNormal o.type = true ∨ isMemory o.type = true) :
    (∀ t, typedT t = true → cnt f a ((objsT t).filter prot) ≤ cnt f a (objsL (restrictTW ro p t).kept)) ∧
    (∀ l, cnt f a ((objsL l).filter prot) ≤ cnt f a (objsL (restrictLW ro p l).kept) ∨
          ¬ (typedL isNormal l = true ∨ typedL isMemory l = true)) := by
  have hnode : ∀ o ns ms ios mis,
      (cnt f a ((objsL ns).filter prot) ≤ cnt f a (objsL (restrictLW ro p ns).kept) ∨
        ¬ (typedL isNormal ns = true ∨ typedL isMemory ns = true)) →
      (cnt f a ((objsL ms).filter prot) ≤ cnt f a (objsL (restrictLW ro p ms).kept) ∨
        ¬ (typedL isNormal ms = true ∨ typedL isMemory ms = true)) →
      (typedT (.node o ns ms ios mis) = true →
        cnt f a ((objsT (.node o ns ms ios mis)).filter prot) ≤ cnt f a (objsL (restrictTW ro p (.node o ns ms ios mis)).kept)) := by
    intro o ns ms ios mis hn hm ht
    obtain ⟨_, _, _, _, t1, t2, t3, t4⟩ := typedT_node o ns ms ios mis ht
    have hn' : cnt f a ((objsL ns).filter prot) ≤ cnt f a (objsL (restrictLW ro p ns).kept) := by
      rcases hn with h | h
      · exact h
      · exact absurd (Or.inl t1) h
    have hm' : cnt f a ((objsL ms).filter prot) ≤ cnt f a (objsL (restrictLW ro p ms).kept) := by
      rcases hm with h | h
      · exact h
      · exact absurd (Or.inr t2) h
    rw [restrictTW_node]
    have qn : cnt f a ((objsL ns).filter prot) ≤ cnt f a (objsL (if touched p o = true then restrictLW ro p ns else idRes ns).kept) := by
      split
      · exact hn'
      · exact cnt_filter_le f a prot _
    have qm : cnt f a ((objsL ms).filter prot) ≤ cnt f a (objsL (if touched p o = true then restrictLW ro p ms else idRes ms).kept) := by
      split
      · exact hm'
      · exact cnt_filter_le f a prot _
    generalize (if touched p o = true then restrictLW ro p ns else idRes ns) = rn at qn ⊢
    generalize (if touched p o = true then restrictLW ro p ms else idRes ms) = rm at qm ⊢
    have e3 := filter_special_nil prot hkind ios (Or.inl t3)
    have e4 := filter_special_nil prot hkind mis (Or.inr t4)
    have hperm := nsAfter_perm hro p (touched p o) rn
    have lhs : cnt f a ((objsT (.node o ns ms ios mis)).filter prot) =
        cnt f a (if prot o = true then [o] else []) + cnt f a ((objsL ns).filter prot) + cnt f a ((objsL ms).filter prot) := by
      rw [objsT, List.filter_cons]
      simp only [List.filter_append, e3, e4, List.append_nil]
      split
      · rw [cnt_cons, cnt_append]; omega
      · rw [cnt_append]; simp [cnt_nil]
    rw [lhs]
    rcases nodeRes_cases ro p o ios mis (touched p o) rn rm with ⟨hc, e⟩ | ⟨_, e⟩
    · -- removed: nothing protected was below, and the object itself is not protected
      rw [e]
      unfold removeCond at hc
      simp only [Bool.and_eq_true, List.isEmpty_iff] at hc
      obtain ⟨⟨⟨h1, h2⟩, h3⟩, h4⟩ := hc
      have hrn : rn.kept = [] := by rw [h1] at hperm; exact hperm.symm.eq_nil
      rw [hrn] at qn
      rw [h2] at qm
      have hpo : prot o = false := by
        cases hpo : prot o with
        | false => rfl
        | true =>
          have := hprot o hpo
          rw [type_shrinkG] at h4
          rw [h3, h4] at this
          cases this
      rw [hpo]
      simp only [objsL, cnt_nil, Bool.false_eq_true, if_false] at qn qm ⊢
      omega
    · rw [e]
      simp only [objsL, objsT, List.append_nil]
      have e1 := cnt_cons f a (shrinkG p o) (objsL (nsAfter ro p (touched p o) rn) ++ objsL rm.kept ++
        objsL (ios ++ rn.io ++ rm.io) ++ objsL (mis ++ rn.misc ++ rm.misc))
      rw [e1, cnt_append, cnt_append, cnt_append, cnt_perm f a (objsL_perm hperm), cnt_single_congr f a (hf o)]
      have : cnt f a (if prot o = true then [o] else []) ≤ cnt f a [o] := by
        split
        · exact Nat.le_refl _
        · simp [cnt_nil]
      omega
  have hnil : cnt f a ((objsL []).filter prot) ≤ cnt f a (objsL (restrictLW ro p []).kept) ∨
      ¬ (typedL isNormal [] = true ∨ typedL isMemory [] = true) := by
    left; rw [restrictLW_nil]; simp [objsL, cnt_nil]
  have hcons : ∀ t ts,
      (typedT t = true → cnt f a ((objsT t).filter prot) ≤ cnt f a (objsL (restrictTW ro p t).kept)) →
      (cnt f a ((objsL ts).filter prot) ≤ cnt f a (objsL (restrictLW ro p ts).kept) ∨
        ¬ (typedL isNormal ts = true ∨ typedL isMemory ts = true)) →
      (cnt f a ((objsL (t :: ts)).filter prot) ≤ cnt f a (objsL (restrictLW ro p (t :: ts)).kept) ∨
        ¬ (typedL isNormal (t :: ts) = true ∨ typedL isMemory (t :: ts) = true)) := by
    intro t ts h1 h2
    by_cases hty : typedL isNormal (t :: ts) = true ∨ typedL isMemory (t :: ts) = true
    · left
      have ht : typedT t = true ∧ (typedL isNormal ts = true ∨ typedL isMemory ts = true) := by
        rcases hty with h | h <;>
        · rw [typedL] at h
          simp only [Bool.and_eq_true] at h
          first | exact ⟨h.1.2, Or.inl h.2⟩ | exact ⟨h.1.2, Or.inr h.2⟩
      have h2' : cnt f a ((objsL ts).filter prot) ≤ cnt f a (objsL (restrictLW ro p ts).kept) := by
        rcases h2 with h | h
        · exact h
        · exact absurd ht.2 h
      rw [restrictLW_cons]
      simp only [objsL, objsL_append, List.filter_append, cnt_append]
      have := h1 ht.1
      omega
    · exact Or.inr hty
  exact ⟨tree_indT hnode hnil hcons, tree_indL hnode hnil hcons⟩

end survive

/-! ### the primary leaf type keeps a non-empty primary set -/

mutual
/-- objects of type `ty` have no normal and no memory children (looked for below normal and memory children only: in a typed
    tree no PU / NUMA node sits anywhere else) -/
def leafTyT (ty : Nat) : Tree → Bool
  | .node o ns ms _ _ => (o.type != ty || (ns.isEmpty && ms.isEmpty)) && leafTyL ty ns && leafTyL ty ms
def leafTyL (ty : Nat) : List Tree → Bool
  | [] => true
  | t :: ts => leafTyT ty t && leafTyL ty ts
end

/-- the set that decides removal: nodeset with BYNODESET, cpuset otherwise -/
def prim (p : Params) (o : RObj) : Nat := if p.byNode then o.nodeset else o.cpuset

theorem emptyAfter_prim (p : Params) (o : RObj) : emptyAfter p o = (prim p o == 0) := by
  unfold emptyAfter prim; split <;> rfl

theorem typedL_of_either {l : List Tree} (h : typedL isNormal l = true ∨ typedL isMemory l = true) :
    ∀ t ∈ l, typedT t = true := by
  intro t ht
  rcases h with h | h
  · exact ((typedL_iff _ _).1 h t ht).2
  · exact ((typedL_iff _ _).1 h t ht).2

/-- **a surviving leaf of a removable type is alive**: if every object of type `ty` (normal or memory type) is a leaf with a
    non-empty primary set, and `ty` is not exempt from removal, then every object of type `ty` kept by the recursion still has
    a non-empty primary set (a leaf whose primary set became empty is removed) -/
theorem leaf_alive_restrictW {ro : List Tree → List Tree} (hro : ∀ l, (ro l).Perm l) (p : Params) (ty : Nat)
    (hty : isNormal ty = true ∨ isMemory ty = true) (hrem : removable p ty = true) :
    (∀ t, typedT t = true → leafTyT ty t = true → (∀ x ∈ objsT t, x.type = ty → prim p x ≠ 0) →
        ∀ x ∈ objsL (restrictTW ro p t).kept, x.type = ty → prim p x ≠ 0) ∧
    (∀ l, (typedL isNormal l = true ∨ typedL isMemory l = true) → leafTyL ty l = true →
        (∀ x ∈ objsL l, x.type = ty → prim p x ≠ 0) →
        ∀ x ∈ objsL (restrictLW ro p l).kept, x.type = ty → prim p x ≠ 0) := by
  have notSpecial : ∀ l : List Tree, (typedL isIO l = true ∨ typedL isMisc l = true) → ∀ x ∈ objsL l, x.type ≠ ty := by
    intro l hl x hx e
    have := special_objs.2 l hl x hx
    rw [e] at this
    rcases hty with h | h
    · rw [this.1] at h; cases h
    · rw [this.2] at h; cases h
  have hnode : ∀ o ns ms ios mis,
      ((typedL isNormal ns = true ∨ typedL isMemory ns = true) → leafTyL ty ns = true →
        (∀ x ∈ objsL ns, x.type = ty → prim p x ≠ 0) → ∀ x ∈ objsL (restrictLW ro p ns).kept, x.type = ty → prim p x ≠ 0) →
      ((typedL isNormal ms = true ∨ typedL isMemory ms = true) → leafTyL ty ms = true →
        (∀ x ∈ objsL ms, x.type = ty → prim p x ≠ 0) → ∀ x ∈ objsL (restrictLW ro p ms).kept, x.type = ty → prim p x ≠ 0) →
      (typedT (.node o ns ms ios mis) = true → leafTyT ty (.node o ns ms ios mis) = true →
        (∀ x ∈ objsT (.node o ns ms ios mis), x.type = ty → prim p x ≠ 0) →
        ∀ x ∈ objsL (restrictTW ro p (.node o ns ms ios mis)).kept, x.type = ty → prim p x ≠ 0) := by
    intro o ns ms ios mis hn hm ht hl hall
    obtain ⟨_, _, _, _, t1, t2, t3, t4⟩ := typedT_node o ns ms ios mis ht
    rw [leafTyT] at hl
    simp only [Bool.and_eq_true, Bool.or_eq_true, bne_iff_ne, ne_eq, List.isEmpty_iff] at hl
    obtain ⟨⟨hleaf, l1⟩, l2⟩ := hl
    have hallN : ∀ x ∈ objsL ns, x.type = ty → prim p x ≠ 0 := fun x hx =>
      hall x (by rw [objsT]; simp only [List.mem_cons, List.mem_append]; exact Or.inr (Or.inl (Or.inl (Or.inl hx))))
    have hallM : ∀ x ∈ objsL ms, x.type = ty → prim p x ≠ 0 := fun x hx =>
      hall x (by rw [objsT]; simp only [List.mem_cons, List.mem_append]; exact Or.inr (Or.inl (Or.inl (Or.inr hx))))
    rw [restrictTW_node]
    have tn := childRes_typed ro p (touched p o) isNormal ns (fun h => (typed_restrictW hro p).2 ns isNormal h) t1
    have tm := childRes_typed ro p (touched p o) isMemory ms (fun h => (typed_restrictW hro p).2 ms isMemory h) t2
    have qn : ∀ x ∈ objsL (if touched p o = true then restrictLW ro p ns else idRes ns).kept, x.type = ty → prim p x ≠ 0 := by
      split
      · exact hn (Or.inl t1) l1 hallN
      · exact hallN
    have qm : ∀ x ∈ objsL (if touched p o = true then restrictLW ro p ms else idRes ms).kept, x.type = ty → prim p x ≠ 0 := by
      split
      · exact hm (Or.inr t2) l2 hallM
      · exact hallM
    have en : ns = [] → (if touched p o = true then restrictLW ro p ns else idRes ns).kept = [] := fun h => (tn.2.2.2 h).1
    have em : ms = [] → (if touched p o = true then restrictLW ro p ms else idRes ms).kept = [] := fun h => (tm.2.2.2 h).1
    generalize (if touched p o = true then restrictLW ro p ns else idRes ns) = rn at qn tn en ⊢
    generalize (if touched p o = true then restrictLW ro p ms else idRes ms) = rm at qm tm em ⊢
    have hperm := nsAfter_perm hro p (touched p o) rn
    rcases nodeRes_cases ro p o ios mis (touched p o) rn rm with ⟨_, e⟩ | ⟨hc, e⟩
    · rw [e]; intro x hx; simp [objsL] at hx
    · rw [e]
      intro x hx hxt
      simp only [objsL, objsT, List.append_nil, List.mem_cons, List.mem_append, objsL_append] at hx
      rcases hx with hx | (((hx | hx) | hx) | hx)
      · -- the object itself: a leaf of a removable type that was not removed
        subst hx
        rw [type_shrinkG] at hxt
        rcases hleaf with h | ⟨h1, h2⟩
        · exact absurd hxt h
        · have hrn : rn.kept = [] := en h1
          have hrm : rm.kept = [] := em h2
          unfold removeCond at hc
          have hns : nsAfter ro p (touched p o) rn = [] := by rw [hrn] at hperm; exact hperm.eq_nil
          rw [hns, hrm, type_shrinkG, hxt, hrem, emptyAfter_prim] at hc
          simpa using hc
      · exact qn x ((objsL_perm hperm).mem_iff.1 hx) hxt
      · exact qm x hx hxt
      · rcases hx with (hx | hx) | hx
        · exact absurd hxt (notSpecial ios (Or.inl t3) x hx)
        · exact absurd hxt (notSpecial rn.io (Or.inl tn.2.1) x hx)
        · exact absurd hxt (notSpecial rm.io (Or.inl tm.2.1) x hx)
      · rcases hx with (hx | hx) | hx
        · exact absurd hxt (notSpecial mis (Or.inr t4) x hx)
        · exact absurd hxt (notSpecial rn.misc (Or.inr tn.2.2.1) x hx)
        · exact absurd hxt (notSpecial rm.misc (Or.inr tm.2.2.1) x hx)
  have hnil : (typedL isNormal [] = true ∨ typedL isMemory [] = true) → leafTyL ty [] = true →
      (∀ x ∈ objsL [], x.type = ty → prim p x ≠ 0) → ∀ x ∈ objsL (restrictLW ro p []).kept, x.type = ty → prim p x ≠ 0 := by
    intro _ _ _ x hx; rw [restrictLW_nil] at hx; simp [objsL] at hx
  have hcons : ∀ t ts,
      (typedT t = true → leafTyT ty t = true → (∀ x ∈ objsT t, x.type = ty → prim p x ≠ 0) →
        ∀ x ∈ objsL (restrictTW ro p t).kept, x.type = ty → prim p x ≠ 0) →
      ((typedL isNormal ts = true ∨ typedL isMemory ts = true) → leafTyL ty ts = true →
        (∀ x ∈ objsL ts, x.type = ty → prim p x ≠ 0) → ∀ x ∈ objsL (restrictLW ro p ts).kept, x.type = ty → prim p x ≠ 0) →
      ((typedL isNormal (t :: ts) = true ∨ typedL isMemory (t :: ts) = true) → leafTyL ty (t :: ts) = true →
        (∀ x ∈ objsL (t :: ts), x.type = ty → prim p x ≠ 0) →
        ∀ x ∈ objsL (restrictLW ro p (t :: ts)).kept, x.type = ty → prim p x ≠ 0) := by
    intro t ts h1 h2 hty' hl hall x hx hxt
    have ht : typedT t = true ∧ (typedL isNormal ts = true ∨ typedL isMemory ts = true) := by
      rcases hty' with h | h <;>
      · rw [typedL] at h
        simp only [Bool.and_eq_true] at h
        first | exact ⟨h.1.2, Or.inl h.2⟩ | exact ⟨h.1.2, Or.inr h.2⟩
    rw [leafTyL] at hl
    simp only [Bool.and_eq_true] at hl
    rw [restrictLW_cons] at hx
    simp only [objsL_append, List.mem_append] at hx
    rcases hx with hx | hx
    · exact h1 ht.1 hl.1 (fun y hy => hall y (by rw [objsL, List.mem_append]; exact Or.inl hy)) x hx hxt
    · exact h2 ht.2 hl.2 (fun y hy => hall y (by rw [objsL, List.mem_append]; exact Or.inr hy)) x hx hxt
  exact ⟨tree_indT hnode hnil hcons, tree_indL hnode hnil hcons⟩

/-! ### the four rules as protection predicates -/

theorem cpuset_shrinkG (p : Params) (o : RObj) :
    (shrinkG p o).cpuset = if meets o.ccpuset p.dc = true then minus o.cpuset p.dc else o.cpuset := by
  unfold shrinkG shrinkCpu shrinkNode
  simp only []
  by_cases h : meets o.ccpuset p.dc = true
  · simp only [if_pos h]; split <;> rfl
  · simp only [if_neg h]; split <;> rfl

theorem ccpuset_shrinkG (p : Params) (o : RObj) :
    (shrinkG p o).ccpuset = if meets o.ccpuset p.dc = true then minus o.ccpuset p.dc else o.ccpuset := by
  unfold shrinkG shrinkCpu shrinkNode
  simp only []
  by_cases h : meets o.ccpuset p.dc = true
  · simp only [if_pos h]; split <;> rfl
  · simp only [if_neg h]; split <;> rfl

theorem nodeset_shrinkG (p : Params) (o : RObj) :
    (shrinkG p o).nodeset = if meets o.cnodeset p.dn = true then minus o.nodeset p.dn else o.nodeset := by
  unfold shrinkG shrinkCpu shrinkNode
  simp only []
  have e : (if meets o.ccpuset p.dc = true then ({ o with cpuset := minus o.cpuset p.dc, ccpuset := minus o.ccpuset p.dc } : RObj) else o).cnodeset
      = o.cnodeset := by split <;> rfl
  rw [e]
  by_cases h : meets o.cnodeset p.dn = true
  · simp only [if_pos h]; split <;> rfl
  · simp only [if_neg h]; split <;> rfl

theorem mem_compl (s : CSet) (i : Nat) : s.compl.mem i = !s.mem i := by
  unfold CSet.compl CSet.mem
  cases s.bits.testBit i <;> cases s.inf <;> rfl

theorem minus_bit_of_not_mem (k : Nat) (d : CSet) (h : d.mem k = false) : minus (1 <<< k) d = 1 <<< k :=
  minus_of_not_meets (by rw [meets_bit]; exact h)

theorem minus_bit_cases (k : Nat) (d : CSet) : minus (1 <<< k) d = (if d.mem k = true then 0 else 1 <<< k) := by
  cases h : d.mem k
  · simp only [Bool.false_eq_true, if_false]; exact minus_bit_of_not_mem k d h
  · simp only [if_true]; exact minus_bit_of_mem k d h

/-- a PU (cpuset = {os_index}) whose os_index is in `S`: protected under a restrict by cpuset to `S` -/
def protPU (s : CSet) (o : RObj) : Bool := o.type == tPU && o.cpuset == osBit o && s.mem o.osidx.toNat
/-- a NUMA node unless REMOVE_CPULESS is given and it is CPU-less afterwards: protected under a restrict by cpuset -/
def protNUMA (p : Params) (o : RObj) : Bool := o.type == tNUMA && !(p.rmExempt && (shrinkG p o).cpuset == 0)
/-- the BYNODESET mirrors -/
def protNUMAn (s : CSet) (o : RObj) : Bool := o.type == tNUMA && o.nodeset == osBit o && s.mem o.osidx.toNat
def protPUn (p : Params) (o : RObj) : Bool := o.type == tPU && !(p.rmExempt && (shrinkG p o).nodeset == 0)

theorem protPU_ok (p : Params) (s : CSet) (hb : p.byNode = false) (hdc : p.dc = s.compl) (o : RObj) (h : protPU s o = true) :
    (emptyAfter p (shrinkG p o) && removable p o.type) = false := by
  unfold protPU at h
  simp only [Bool.and_eq_true, beq_iff_eq] at h
  obtain ⟨⟨_, hc⟩, hs⟩ := h
  have : emptyAfter p (shrinkG p o) = false := by
    unfold emptyAfter
    rw [hb]
    simp only [Bool.false_eq_true, if_false, beq_eq_false_iff_ne, ne_eq]
    rw [cpuset_shrinkG, hc, hdc]
    unfold osBit
    have hm : s.compl.mem o.osidx.toNat = false := by rw [mem_compl, hs]; rfl
    split
    · rw [minus_bit_of_not_mem _ _ hm]; exact bit_ne_zero _
    · exact bit_ne_zero _
  rw [this]; rfl

theorem protNUMA_ok (p : Params) (hb : p.byNode = false) (o : RObj) (h : protNUMA p o = true) :
    (emptyAfter p (shrinkG p o) && removable p o.type) = false := by
  unfold protNUMA at h
  simp only [Bool.and_eq_true, beq_iff_eq, Bool.not_eq_true', Bool.and_eq_false_iff] at h
  obtain ⟨ht, hr⟩ := h
  unfold emptyAfter removable
  rw [hb, ht]
  simp only [Bool.false_eq_true, if_false, bne_self_eq_false, Bool.false_or]
  rcases hr with hr | hr
  · rw [hr]; simp
  · rw [hr]; simp

theorem protNUMAn_ok (p : Params) (s : CSet) (hb : p.byNode = true) (hdn : p.dn = s.compl) (o : RObj) (h : protNUMAn s o = true) :
    (emptyAfter p (shrinkG p o) && removable p o.type) = false := by
  unfold protNUMAn at h
  simp only [Bool.and_eq_true, beq_iff_eq] at h
  obtain ⟨⟨_, hc⟩, hs⟩ := h
  have : emptyAfter p (shrinkG p o) = false := by
    unfold emptyAfter
    rw [hb]
    simp only [if_true, beq_eq_false_iff_ne, ne_eq]
    rw [nodeset_shrinkG, hc, hdn]
    unfold osBit
    have hm : s.compl.mem o.osidx.toNat = false := by rw [mem_compl, hs]; rfl
    split
    · rw [minus_bit_of_not_mem _ _ hm]; exact bit_ne_zero _
    · exact bit_ne_zero _
  rw [this]; rfl

theorem protPUn_ok (p : Params) (hb : p.byNode = true) (o : RObj) (h : protPUn p o = true) :
    (emptyAfter p (shrinkG p o) && removable p o.type) = false := by
  unfold protPUn at h
  simp only [Bool.and_eq_true, beq_iff_eq, Bool.not_eq_true', Bool.and_eq_false_iff] at h
  obtain ⟨ht, hr⟩ := h
  unfold emptyAfter removable
  rw [hb, ht]
  simp only [if_true, bne_self_eq_false, Bool.false_or]
  rcases hr with hr | hr
  · rw [hr]; simp
  · rw [hr]; simp

theorem prot_kind_pu {P : RObj → Bool} (h : ∀ o, P o = true → o.type = tPU) :
    ∀ o, P o = true → isNormal o.type = true ∨ isMemory o.type = true := fun o ho => Or.inl (by rw [h o ho]; decide)
theorem prot_kind_numa {P : RObj → Bool} (h : ∀ o, P o = true → o.type = tNUMA) :
    ∀ o, P o = true → isNormal o.type = true ∨ isMemory o.type = true := fun o ho => Or.inr (by rw [h o ho]; decide)

theorem protPU_type (s : CSet) (o : RObj) (h : protPU s o = true) : o.type = tPU := by
  unfold protPU at h; simp only [Bool.and_eq_true, beq_iff_eq] at h; exact h.1.1
theorem protNUMA_type (p : Params) (o : RObj) (h : protNUMA p o = true) : o.type = tNUMA := by
  unfold protNUMA at h; simp only [Bool.and_eq_true, beq_iff_eq] at h; exact h.1
theorem protNUMAn_type (s : CSet) (o : RObj) (h : protNUMAn s o = true) : o.type = tNUMA := by
  unfold protNUMAn at h; simp only [Bool.and_eq_true, beq_iff_eq] at h; exact h.1.1
theorem protPUn_type (p : Params) (o : RObj) (h : protPUn p o = true) : o.type = tPU := by
  unfold protPUn at h; simp only [Bool.and_eq_true, beq_iff_eq] at h; exact h.1

/-! ### leaf hypotheses from the typing -/

theorem leafTy_of_puLeaf :
    (∀ t, puLeafT t = true → leafTyT tPU t = true) ∧ (∀ l, puLeafL l = true → leafTyL tPU l = true) := by
  have hnode : ∀ o ns ms ios mis, (puLeafL ns = true → leafTyL tPU ns = true) → (puLeafL ms = true → leafTyL tPU ms = true) →
      (puLeafT (.node o ns ms ios mis) = true → leafTyT tPU (.node o ns ms ios mis) = true) := by
    intro o ns ms ios mis h1 h2 h
    rw [puLeafT] at h
    simp only [Bool.and_eq_true] at h
    rw [leafTyT]
    simp only [Bool.and_eq_true]
    exact ⟨⟨h.1.1.1.1, h1 h.1.1.1.2⟩, h2 h.1.1.2⟩
  have hnil : puLeafL [] = true → leafTyL tPU [] = true := fun _ => rfl
  have hcons : ∀ t ts, (puLeafT t = true → leafTyT tPU t = true) → (puLeafL ts = true → leafTyL tPU ts = true) →
      (puLeafL (t :: ts) = true → leafTyL tPU (t :: ts) = true) := by
    intro t ts h1 h2 h
    rw [puLeafL] at h
    simp only [Bool.and_eq_true] at h
    rw [leafTyL]
    simp only [Bool.and_eq_true]
    exact ⟨h1 h.1, h2 h.2⟩
  exact ⟨tree_indT hnode hnil hcons, tree_indL hnode hnil hcons⟩

theorem leafTy_numa_of_typed :
    (∀ t, typedT t = true → leafTyT tNUMA t = true) ∧
    (∀ l, (typedL isNormal l = true ∨ typedL isMemory l = true) → leafTyL tNUMA l = true) := by
  have hnode : ∀ o ns ms ios mis, ((typedL isNormal ns = true ∨ typedL isMemory ns = true) → leafTyL tNUMA ns = true) →
      ((typedL isNormal ms = true ∨ typedL isMemory ms = true) → leafTyL tNUMA ms = true) →
      (typedT (.node o ns ms ios mis) = true → leafTyT tNUMA (.node o ns ms ios mis) = true) := by
    intro o ns ms ios mis h1 h2 h
    obtain ⟨ha, hb, _, _, t1, t2, _, _⟩ := typedT_node o ns ms ios mis h
    rw [leafTyT]
    simp only [Bool.and_eq_true, Bool.or_eq_true, bne_iff_ne, ne_eq, List.isEmpty_iff, tNUMA]
    refine ⟨⟨?_, h1 (Or.inl t1)⟩, h2 (Or.inr t2)⟩
    by_cases e : o.type = 14
    · right
      refine ⟨?_, ?_⟩
      · rcases ha with h | h
        · omega
        · exact h
      · rcases hb with h | h | h
        · omega
        · omega
        · exact h
    · exact Or.inl e
  have hnil : (typedL isNormal [] = true ∨ typedL isMemory [] = true) → leafTyL tNUMA [] = true := fun _ => rfl
  have hcons : ∀ t ts, (typedT t = true → leafTyT tNUMA t = true) →
      ((typedL isNormal ts = true ∨ typedL isMemory ts = true) → leafTyL tNUMA ts = true) →
      ((typedL isNormal (t :: ts) = true ∨ typedL isMemory (t :: ts) = true) → leafTyL tNUMA (t :: ts) = true) := by
    intro t ts h1 h2 h
    have ht : typedT t = true ∧ (typedL isNormal ts = true ∨ typedL isMemory ts = true) := by
      rcases h with h | h <;>
      · rw [typedL] at h
        simp only [Bool.and_eq_true] at h
        first | exact ⟨h.1.2, Or.inl h.2⟩ | exact ⟨h.1.2, Or.inr h.2⟩
    rw [leafTyL]
    simp only [Bool.and_eq_true]
    exact ⟨h1 ht.1, h2 ht.2⟩
  exact ⟨tree_indT hnode hnil hcons, tree_indL hnode hnil hcons⟩

/-! ### PU / NUMA singletons as tree hypotheses (C01 clauses pu-cpuset / numa-nodeset) -/

def puSetsT (t : Tree) : Bool := (objsT t).all (fun x => x.type != tPU || (x.cpuset == osBit x && x.ccpuset == osBit x))
def numaSetsT (t : Tree) : Bool := (objsT t).all (fun x => x.type != tNUMA || (x.nodeset == osBit x && x.cnodeset == osBit x))

theorem puSetsT_iff (t : Tree) : puSetsT t = true ↔ ∀ x ∈ objsT t, x.type = tPU → x.cpuset = osBit x ∧ x.ccpuset = osBit x := by
  unfold puSetsT
  simp only [List.all_eq_true, Bool.or_eq_true, bne_iff_ne, ne_eq, Bool.and_eq_true, beq_iff_eq]
  constructor
  · intro h x hx ht
    rcases h x hx with h1 | h1
    · exact absurd ht h1
    · exact h1
  · intro h x hx
    by_cases ht : x.type = tPU
    · exact Or.inr (h x hx ht)
    · exact Or.inl ht

theorem numaSetsT_iff (t : Tree) : numaSetsT t = true ↔ ∀ x ∈ objsT t, x.type = tNUMA → x.nodeset = osBit x ∧ x.cnodeset = osBit x := by
  unfold numaSetsT
  simp only [List.all_eq_true, Bool.or_eq_true, bne_iff_ne, ne_eq, Bool.and_eq_true, beq_iff_eq]
  constructor
  · intro h x hx ht
    rcases h x hx with h1 | h1
    · exact absurd ht h1
    · exact h1
  · intro h x hx
    by_cases ht : x.type = tNUMA
    · exact Or.inr (h x hx ht)
    · exact Or.inl ht

/-! ### exact survivors of the tree recursion for the primary leaf type -/

theorem cnt_filter_ident (P : RObj → Bool) (hP : ∀ x y, ident x = ident y → P x = P y) (a : RObj) (l : List RObj) :
    cnt ident (ident a) (l.filter P) = if P a = true then cnt ident (ident a) l else 0 := by
  induction l with
  | nil => simp [cnt_nil]
  | cons x xs ih =>
    rw [List.filter_cons]
    by_cases hx : ident x = ident a
    · have := hP x a hx
      by_cases hpa : P a = true
      · rw [if_pos (by rw [this]; exact hpa), cnt_cons, ih, if_pos hpa, if_pos hpa, ← cnt_cons]
      · rw [if_neg (by rw [this]; exact hpa), ih, if_neg hpa, if_neg hpa]
    · have z : cnt ident (ident a) [x] = 0 := cnt1_zero ident (ident a) hx
      split
      · rw [cnt_cons, ih, z]
        split
        · rw [cnt_cons, z]
        · rfl
      · rw [ih]
        split
        · rw [cnt_cons, z]; omega
        · rfl

/-- **PUs after a restrict by cpuset (before level merging)**: every PU of the result still has cpuset = complete cpuset =
    {os_index} with os_index ∈ S, and the PUs of the result are EXACTLY the previous PUs whose os_index is in S (as multisets of
    identities: gp_index, type, os_index, attributes) -/
theorem pus_exact_core (t : Topo) (s : CSet) (flags : Nat) (p : Params) (hp : plan t s flags = some p) (hb : p.byNode = false)
    (t' : Topo) (hc : restrictCore t p = some t') (hok : okT t.tree = true) (hty : typedT t.tree = true)
    (hleaf : puLeafT t.tree = true) (hsets : puSetsT t.tree = true) :
    (∀ x ∈ objsT t'.tree, x.type = tPU → x.cpuset = osBit x ∧ x.ccpuset = osBit x ∧ s.mem x.osidx.toNat = true) ∧
    (∀ a : RObj, a.type = tPU → cnt ident (ident a) (objsT t'.tree) =
        if s.mem a.osidx.toNat = true then cnt ident (ident a) (objsT t.tree) else 0) := by
  have hdc : p.dc = s.compl := ((plan_some t s flags p hp).2.2.2.1 hb).1
  have hk := (restrictCore_root t p t' hc).2.2.2.2
  unfold restrictT at hk
  have hs := (puSetsT_iff _).1 hsets
  have hex := restrictCore_exact t p t' hc hok
  have hrem : removable p tPU = true := by unfold removable; rw [hb]; rfl
  have halive := (leaf_alive_restrictW reorder_perm p tPU (Or.inl (by decide)) hrem).1 t.tree hty (leafTy_of_puLeaf.1 _ hleaf)
    (by
      intro x hx hxt
      unfold prim; rw [hb]
      simp only [Bool.false_eq_true, if_false]
      rw [(hs x hx hxt).1]; exact bit_ne_zero _)
  rw [hk] at halive
  simp only [objsL, List.append_nil] at halive
  have part1 : ∀ x ∈ objsT t'.tree, x.type = tPU → x.cpuset = osBit x ∧ x.ccpuset = osBit x ∧ s.mem x.osidx.toNat = true := by
    intro x hx hxt
    -- x is the image of an old PU
    have hpos : 0 < cnt id x (objsT t'.tree) := (cnt_pos_iff id x _).2 ⟨x, hx, rfl⟩
    obtain ⟨x0, hx0, e0⟩ := (cnt_pos_iff (shrinkU p) x _).1 (Nat.lt_of_lt_of_le hpos (hex x).2)
    have ht0 : x0.type = tPU := by rw [← hxt, ← e0]; rfl
    have hs0 := hs x0 hx0 ht0
    have hos : osBit x = osBit x0 := by rw [← e0]; rfl
    have hcpu : x.cpuset = minus (osBit x0) p.dc := by rw [← e0, ← hs0.1]; rfl
    have hccpu : x.ccpuset = minus (osBit x0) p.dc := by rw [← e0, ← hs0.2]; rfl
    have hne := halive x hx hxt
    unfold prim at hne
    rw [hb] at hne
    simp only [Bool.false_eq_true, if_false] at hne
    unfold osBit at hcpu hccpu
    rw [minus_bit_cases] at hcpu hccpu
    have hmem : p.dc.mem x0.osidx.toNat = false := by
      cases hm : p.dc.mem x0.osidx.toNat
      · rfl
      · rw [hm] at hcpu; simp only [if_true] at hcpu; exact absurd hcpu hne
    rw [hmem] at hcpu hccpu
    simp only [Bool.false_eq_true, if_false] at hcpu hccpu
    have hosidx : x.osidx = x0.osidx := by rw [← e0]; rfl
    refine ⟨by rw [hcpu, hos]; rfl, by rw [hccpu, hos]; rfl, ?_⟩
    rw [hdc, mem_compl] at hmem
    rw [hosidx]
    simpa using hmem
  refine ⟨part1, ?_⟩
  intro a hat
  by_cases hsa : s.mem a.osidx.toNat = true
  · rw [if_pos hsa]
    apply Nat.le_antisymm
    · exact cnt_restrictCore ident (ident a) t p t' hc (fun o => ident_shrinkG p o)
    · have hsv := (survive_restrictW ident (ident a) reorder_perm p (protPU s) (fun o => ident_shrinkG p o)
        (protPU_ok p s hb hdc) (prot_kind_pu (protPU_type s))).1 t.tree hty
      rw [hk] at hsv
      simp only [objsL, List.append_nil] at hsv
      refine Nat.le_trans ?_ hsv
      -- every old PU with this identity is protected
      have : cnt ident (ident a) (objsT t.tree) = cnt ident (ident a) ((objsT t.tree).filter (protPU s)) := by
        unfold cnt
        rw [List.count_eq_countP, List.count_eq_countP, List.countP_map, List.countP_map, List.countP_filter]
        apply List.countP_congr
        intro x hx
        simp only [Function.comp, Bool.and_eq_true, beq_iff_eq]
        constructor
        · intro h
          refine ⟨h, ?_⟩
          have htx : x.type = tPU := by
            have : (ident x).type = (ident a).type := by rw [h]
            exact this.trans hat
          have hox : x.osidx = a.osidx := by
            have : (ident x).osidx = (ident a).osidx := by rw [h]
            exact this
          unfold protPU
          simp only [Bool.and_eq_true, beq_iff_eq]
          exact ⟨⟨htx, (hs x hx htx).1⟩, by rw [hox]; exact hsa⟩
        · intro h; exact h.1
      exact Nat.le_of_eq this
  · rw [if_neg hsa]
    apply cnt_eq_zero_of
    intro x hx e
    have htx : x.type = tPU := by
      have : (ident x).type = (ident a).type := by rw [e]
      exact this.trans hat
    have hox : x.osidx = a.osidx := by
      have : (ident x).osidx = (ident a).osidx := by rw [e]
      exact this
    have := (part1 x hx htx).2.2
    rw [hox] at this
    exact hsa this

/-- the BYNODESET mirror: NUMA nodes after a restrict by nodeset (before level merging) keep nodeset = complete nodeset =
    {os_index} with os_index ∈ S, and are EXACTLY the previous NUMA nodes whose os_index is in S -/
theorem numas_exact_core (t : Topo) (s : CSet) (flags : Nat) (p : Params) (hp : plan t s flags = some p) (hb : p.byNode = true)
    (t' : Topo) (hc : restrictCore t p = some t') (hok : okT t.tree = true) (hty : typedT t.tree = true)
    (hsets : numaSetsT t.tree = true) :
    (∀ x ∈ objsT t'.tree, x.type = tNUMA → x.nodeset = osBit x ∧ x.cnodeset = osBit x ∧ s.mem x.osidx.toNat = true) ∧
    (∀ a : RObj, a.type = tNUMA → cnt ident (ident a) (objsT t'.tree) =
        if s.mem a.osidx.toNat = true then cnt ident (ident a) (objsT t.tree) else 0) := by
  have hdc : p.dn = s.compl := ((plan_some t s flags p hp).2.2.2.2 hb).1
  have hk := (restrictCore_root t p t' hc).2.2.2.2
  unfold restrictT at hk
  have hs := (numaSetsT_iff _).1 hsets
  have hex := restrictCore_exact t p t' hc hok
  have hrem : removable p tNUMA = true := by unfold removable; rw [hb]; rfl
  have halive := (leaf_alive_restrictW reorder_perm p tNUMA (Or.inr (by decide)) hrem).1 t.tree hty (leafTy_numa_of_typed.1 _ hty)
    (by
      intro x hx hxt
      unfold prim; rw [hb]
      simp only [if_true]
      rw [(hs x hx hxt).1]; exact bit_ne_zero _)
  rw [hk] at halive
  simp only [objsL, List.append_nil] at halive
  have part1 : ∀ x ∈ objsT t'.tree, x.type = tNUMA → x.nodeset = osBit x ∧ x.cnodeset = osBit x ∧ s.mem x.osidx.toNat = true := by
    intro x hx hxt
    -- x is the image of an old PU
    have hpos : 0 < cnt id x (objsT t'.tree) := (cnt_pos_iff id x _).2 ⟨x, hx, rfl⟩
    obtain ⟨x0, hx0, e0⟩ := (cnt_pos_iff (shrinkU p) x _).1 (Nat.lt_of_lt_of_le hpos (hex x).2)
    have ht0 : x0.type = tNUMA := by rw [← hxt, ← e0]; rfl
    have hs0 := hs x0 hx0 ht0
    have hos : osBit x = osBit x0 := by rw [← e0]; rfl
    have hcpu : x.nodeset = minus (osBit x0) p.dn := by rw [← e0, ← hs0.1]; rfl
    have hccpu : x.cnodeset = minus (osBit x0) p.dn := by rw [← e0, ← hs0.2]; rfl
    have hne := halive x hx hxt
    unfold prim at hne
    rw [hb] at hne
    simp only [if_true] at hne
    unfold osBit at hcpu hccpu
    rw [minus_bit_cases] at hcpu hccpu
    have hmem : p.dn.mem x0.osidx.toNat = false := by
      cases hm : p.dn.mem x0.osidx.toNat
      · rfl
      · rw [hm] at hcpu; simp only [if_true] at hcpu; exact absurd hcpu hne
    rw [hmem] at hcpu hccpu
    simp only [Bool.false_eq_true, if_false] at hcpu hccpu
    have hosidx : x.osidx = x0.osidx := by rw [← e0]; rfl
    refine ⟨by rw [hcpu, hos]; rfl, by rw [hccpu, hos]; rfl, ?_⟩
    rw [hdc, mem_compl] at hmem
    rw [hosidx]
    simpa using hmem
  refine ⟨part1, ?_⟩
  intro a hat
  by_cases hsa : s.mem a.osidx.toNat = true
  · rw [if_pos hsa]
    apply Nat.le_antisymm
    · exact cnt_restrictCore ident (ident a) t p t' hc (fun o => ident_shrinkG p o)
    · have hsv := (survive_restrictW ident (ident a) reorder_perm p (protNUMAn s) (fun o => ident_shrinkG p o)
        (protNUMAn_ok p s hb hdc) (prot_kind_numa (protNUMAn_type s))).1 t.tree hty
      rw [hk] at hsv
      simp only [objsL, List.append_nil] at hsv
      refine Nat.le_trans ?_ hsv
      -- every old PU with this identity is protected
      have : cnt ident (ident a) (objsT t.tree) = cnt ident (ident a) ((objsT t.tree).filter (protNUMAn s)) := by
        unfold cnt
        rw [List.count_eq_countP, List.count_eq_countP, List.countP_map, List.countP_map, List.countP_filter]
        apply List.countP_congr
        intro x hx
        simp only [Function.comp, Bool.and_eq_true, beq_iff_eq]
        constructor
        · intro h
          refine ⟨h, ?_⟩
          have htx : x.type = tNUMA := by
            have : (ident x).type = (ident a).type := by rw [h]
            exact this.trans hat
          have hox : x.osidx = a.osidx := by
            have : (ident x).osidx = (ident a).osidx := by rw [h]
            exact this
          unfold protNUMAn
          simp only [Bool.and_eq_true, beq_iff_eq]
          exact ⟨⟨htx, (hs x hx htx).1⟩, by rw [hox]; exact hsa⟩
        · intro h; exact h.1
      exact Nat.le_of_eq this
  · rw [if_neg hsa]
    apply cnt_eq_zero_of
    intro x hx e
    have htx : x.type = tNUMA := by
      have : (ident x).type = (ident a).type := by rw [e]
      exact this.trans hat
    have hox : x.osidx = a.osidx := by
      have : (ident x).osidx = (ident a).osidx := by rw [e]
      exact this
    have := (part1 x hx htx).2.2
    rw [hox] at this
    exact hsa this

/-! ### the whole call (level merging included) for NUMA nodes -/

/-- non-normal objects, as they are -/
def nnKey (x : RObj) : Option RObj := if isNormal x.type then none else some x

theorem absorb_type (o co : RObj) : (absorb o co).type = co.type := rfl

/-- level merging leaves the non-normal objects of a typed tree exactly as they are (complete sets included) -/
theorem keepStructure_nonnormal_mem (filters : List Nat) (t : Tree) (h : typedT t = true) (hr : isNormal t.obj.type = true)
    (x : RObj) (hx : isNormal x.type = false) : x ∈ objsT (keepStructure filters t) ↔ x ∈ objsT t := by
  have e := cntEq_keepStructure nnKey (some x)
    (fun o co hc => by unfold nnKey; rw [absorb_type, hc]; rfl)
    (fun y hy => by
      unfold nnKey at hy
      cases hn : isNormal y.type
      · rfl
      · rw [hn] at hy; simp at hy) filters t h hr
  have key : ∀ l : List RObj, x ∈ l ↔ 0 < cnt nnKey (some x) l := by
    intro l
    rw [cnt_pos_iff]
    constructor
    · intro hm; exact ⟨x, hm, by unfold nnKey; rw [hx]; rfl⟩
    · rintro ⟨y, hy, e⟩
      unfold nnKey at e
      cases hn : isNormal y.type
      · rw [hn] at e; simp only [Bool.false_eq_true, if_false, Option.some.injEq] at e; rw [← e]; exact hy
      · rw [hn] at e; simp at e
  rw [key, key, e]

theorem ident_type (x : RObj) : (ident x).type = x.type := rfl
theorem ident_osidx (x : RObj) : (ident x).osidx = x.osidx := rfl

theorem cntEq_ident_keepStructure (filters : List Nat) (t : Tree) (h : typedT t = true) (hr : isNormal t.obj.type = true)
    (a : RObj) (ha : isNormal a.type = false) :
    cnt ident (ident a) (objsT (keepStructure filters t)) = cnt ident (ident a) (objsT t) :=
  cntEq_keepStructure ident (ident a) (fun _ _ _ => rfl)
    (fun y hy => by rw [← ident_type y, hy, ident_type]; exact ha) filters t h hr

theorem restrictCore_typed (t : Topo) (p : Params) (t' : Topo) (hc : restrictCore t p = some t') (hty : typedT t.tree = true)
    (hr : isNormal t.tree.obj.type = true) : typedT t'.tree = true ∧ isNormal t'.tree.obj.type = true := by
  have hroot := restrictCore_root t p t' hc
  have hk : t'.tree ∈ (restrictTW reorder p t.tree).kept := by
    have := hroot.2.2.2.2; unfold restrictT at this; rw [this]; exact List.mem_singleton.2 rfl
  have := ((typed_restrictW reorder_perm p).1 t.tree hty).1 t'.tree hk
  exact ⟨this.1, by rw [this.2]; exact hr⟩

/-- **NUMA nodes under a restrict by cpuset, whole call**: a NUMA node disappears ONLY IF REMOVE_CPULESS is given and it is
    CPU-less afterwards — every other NUMA node of the input is a NUMA node of the result (level merging never removes one) -/
theorem numa_survive_whole (t : Topo) (s : CSet) (flags : Nat) (p : Params) (hp : plan t s flags = some p) (hb : p.byNode = false)
    (hret : (restrict t s flags).2 = .ok) (hty : typedT t.tree = true) (hr : isNormal t.tree.obj.type = true)
    (a : RObj) (ha : a.type = tNUMA) :
    cnt ident (ident a) ((objsT t.tree).filter (protNUMA p)) ≤ cnt ident (ident a) (objsT (restrict t s flags).1.tree) := by
  cases hc : restrictCore t p with
  | none =>
    have : (restrict t s flags).2 = .rootRemoved := by unfold restrict; rw [hp]; simp only [hc]
    rw [this] at hret; exact absurd hret (by decide)
  | some t' =>
    rw [(restrict_ok_eq t s flags p t' hp hc).1]
    have ht' := restrictCore_typed t p t' hc hty hr
    rw [cntEq_ident_keepStructure _ _ ht'.1 ht'.2 a (by rw [ha]; decide)]
    have hk := (restrictCore_root t p t' hc).2.2.2.2
    unfold restrictT at hk
    have hsv := (survive_restrictW ident (ident a) reorder_perm p (protNUMA p) (fun o => ident_shrinkG p o)
      (protNUMA_ok p hb) (prot_kind_numa (protNUMA_type p))).1 t.tree hty
    rw [hk] at hsv
    simpa only [objsL, List.append_nil] using hsv

/-- the BYNODESET mirror for PUs, up to level merging: a PU disappears from the tree recursion only if REMOVE_MEMLESS is given and
    its nodeset is empty afterwards -/
theorem pu_survive_core (t : Topo) (p : Params) (hb : p.byNode = true) (t' : Topo) (hc : restrictCore t p = some t')
    (hty : typedT t.tree = true) (a : RObj) :
    cnt ident (ident a) ((objsT t.tree).filter (protPUn p)) ≤ cnt ident (ident a) (objsT t'.tree) := by
  have hk := (restrictCore_root t p t' hc).2.2.2.2
  unfold restrictT at hk
  have hsv := (survive_restrictW ident (ident a) reorder_perm p (protPUn p) (fun o => ident_shrinkG p o)
    (protPUn_ok p hb) (prot_kind_pu (protPUn_type p))).1 t.tree hty
  rw [hk] at hsv
  simpa only [objsL, List.append_nil] using hsv

/-- **NUMA nodes under a restrict by nodeset, whole call**: the NUMA nodes of the result are exactly the previous NUMA nodes
    whose os_index is in S, each still with nodeset = complete nodeset = {os_index} (level merging included) -/
theorem numas_exact_whole (t : Topo) (s : CSet) (flags : Nat) (p : Params) (hp : plan t s flags = some p) (hb : p.byNode = true)
    (hret : (restrict t s flags).2 = .ok) (hok : okT t.tree = true) (hty : typedT t.tree = true)
    (hr : isNormal t.tree.obj.type = true) (hsets : numaSetsT t.tree = true) :
    (∀ x ∈ objsT (restrict t s flags).1.tree, x.type = tNUMA →
        x.nodeset = osBit x ∧ x.cnodeset = osBit x ∧ s.mem x.osidx.toNat = true) ∧
    (∀ a : RObj, a.type = tNUMA → cnt ident (ident a) (objsT (restrict t s flags).1.tree) =
        if s.mem a.osidx.toNat = true then cnt ident (ident a) (objsT t.tree) else 0) := by
  cases hc : restrictCore t p with
  | none =>
    have : (restrict t s flags).2 = .rootRemoved := by unfold restrict; rw [hp]; simp only [hc]
    rw [this] at hret; exact absurd hret (by decide)
  | some t' =>
    rw [(restrict_ok_eq t s flags p t' hp hc).1]
    have ht' := restrictCore_typed t p t' hc hty hr
    have core := numas_exact_core t s flags p hp hb t' hc hok hty hsets
    constructor
    · intro x hx hxt
      exact core.1 x ((keepStructure_nonnormal_mem _ _ ht'.1 ht'.2 x (by rw [hxt]; decide)).1 hx) hxt
    · intro a ha
      rw [cntEq_ident_keepStructure _ _ ht'.1 ht'.2 a (by rw [ha]; decide)]
      exact core.2 a ha

end Hw.Topo.Restrict
