/-
  Hw.Topo.HistoryLemmas — hwloc_topology_allow preserves well-formedness and leaves the topology
  untouched on EINVAL.
-/
import Hw.Topo.History
import Hw.Topo.WFLemmas0
namespace Hw.Topo.Hist
open Hw.Topo

theorem subset_refl (a : Nat) : subset a a = true := by simp [subset]

theorem subset_and_left (a b : Nat) : subset (a &&& b) a = true := by
  unfold subset
  rw [beq_iff_eq]
  apply Nat.eq_of_testBit_eq
  intro i
  simp only [Nat.testBit_and]
  cases a.testBit i <;> cases b.testBit i <;> rfl

/-- EINVAL from `allow` leaves every observable attribute unchanged -/
theorem allow_einval_unchanged (d : Dump) (f : Nat) (c n : Option Nat) (h : (allow d f c n).2 = .einval) :
    (allow d f c n).1 = d := by
  unfold allow at h ⊢
  cases hr : d.objs[0]? with
  | none => rfl
  | some root =>
    simp only [hr] at h ⊢
    cases ha : allowSets d root f c n with
    | none => rfl
    | some p => obtain ⟨x, y⟩ := p; simp [ha] at h

/-- a successful `allow`: INCLUDE_DISALLOWED is set, the new allowed sets are included in the root sets
(when the old ones were) -/
theorem allowSets_ok (d : Dump) (root : Obj) (f : Nat) (c n : Option Nat) (x y : Option Nat)
    (h : allowSets d root f c n = some (x, y))
    (hoc : subset (d.allowedCpuset.getD 0) (root.cpuset.getD 0) = true)
    (hon : subset (d.allowedNodeset.getD 0) (root.nodeset.getD 0) = true)
    (hsc : d.allowedCpuset.isSome = true) (hsn : d.allowedNodeset.isSome = true)
    (hrc : root.cpuset.isSome = true) (hrn : root.nodeset.isSome = true) :
    flagIncludeDisallowed d = true ∧ x.isSome = true ∧ y.isSome = true ∧
    subset (x.getD 0) (root.cpuset.getD 0) = true ∧ subset (y.getD 0) (root.nodeset.getD 0) = true := by
  unfold allowSets at h
  by_cases hf : flagIncludeDisallowed d = true
  · simp only [hf, Bool.not_true, Bool.false_eq_true, if_false] at h
    by_cases h8 : f / 8 ≠ 0
    · simp [h8] at h
    · simp only [h8, if_false] at h
      by_cases h1 : f = 1
      · simp only [h1, if_true] at h
        by_cases hcn : (c.isSome || n.isSome) = true
        · simp [hcn] at h
        · simp only [hcn, Bool.false_eq_true, if_false, Option.some.injEq, Prod.mk.injEq] at h
          obtain ⟨rfl, rfl⟩ := h
          exact ⟨hf, hrc, hrn, subset_refl _, subset_refl _⟩
      · simp only [h1, if_false] at h
        by_cases h4 : f = 4
        · simp only [h4, if_true] at h
          by_cases hbad : (isBad (root.cpuset.getD 0) c || isBad (root.nodeset.getD 0) n) = true
          · simp [hbad] at h
          · simp only [hbad, Bool.false_eq_true, if_false, Option.some.injEq, Prod.mk.injEq] at h
            obtain ⟨rfl, rfl⟩ := h
            refine ⟨hf, ?_, ?_, ?_, ?_⟩
            · cases c <;> simp [pick, hsc]
            · cases n <;> simp [pick, hsn]
            · cases c with
              | none => exact hoc
              | some c => exact subset_and_left _ _
            · cases n with
              | none => exact hon
              | some n => exact subset_and_left _ _
        · simp [h4] at h
  · simp [hf] at h

/-- object-level clauses do not look at the allowed sets, except the two that INCLUDE_DISALLOWED switches off -/
theorem allow_obj_irrel (d : Dump) (x y : Option Nat) :
    ∀ c ∈ objClauses, c.1 ≠ "pu-allowed" → c.1 ≠ "numa-allowed" →
      ∀ a o, c.2 { d with allowedCpuset := x, allowedNodeset := y } a o = c.2 d a o := by
  simp only [objClauses, List.forall_mem_cons]
  and_intros <;> first
    | (intros; first | rfl | trivial)
    | (intro h1; exact absurd rfl h1)
    | (intro _ h2; exact absurd rfl h2)

theorem allow_top_irrel (d : Dump) (x y : Option Nat) :
    ∀ c ∈ topClauses, c.1 ≠ "allowed-sets" →
      ∀ a, c.2 { d with allowedCpuset := x, allowedNodeset := y } a = c.2 d a := by
  simp only [topClauses, List.forall_mem_cons]
  and_intros <;> first
    | (intros; first | rfl | trivial)
    | (intro h1; exact absurd rfl h1)

theorem mkAux_allow (d : Dump) (x y : Option Nat) :
    mkAux { d with allowedCpuset := x, allowedNodeset := y } = mkAux d := rfl

/-- in a list with pairwise distinct names, lookup by name finds exactly the member with that name -/
theorem find_of_mem {α : Type} (l : List (String × α)) (hn : (l.map (·.1)).Nodup) (c : String × α) (hc : c ∈ l) :
    l.find? (fun x => x.1 == c.1) = some c := by
  induction l with
  | nil => cases hc
  | cons x xs ih =>
    rw [List.map_cons, List.nodup_cons] at hn
    rcases List.mem_cons.mp hc with rfl | hm
    · simp [List.find?]
    · have hne : (x.1 == c.1) = false := by
        apply beq_false_of_ne
        intro e
        exact hn.1 (by rw [e]; exact List.mem_map_of_mem hm)
      simp only [List.find?, hne]
      exact ih hn.2 hm

theorem objClauses_names_nodup : (objClauses.map (·.1)).Nodup := by decide
theorem topClauses_names_nodup : (topClauses.map (·.1)).Nodup := by decide

theorem objClause_of_mem (c : String × (Dump → Aux → Obj → Bool)) (hc : c ∈ objClauses) : objClause c.1 = c.2 := by
  unfold objClause; rw [find_of_mem _ objClauses_names_nodup c hc]
theorem topClause_of_mem (c : String × (Dump → Aux → Bool)) (hc : c ∈ topClauses) : topClause c.1 = c.2 := by
  unfold topClause; rw [find_of_mem _ topClauses_names_nodup c hc]

/-- **`hwloc_topology_allow` preserves well-formedness** -/
theorem allow_wf (d : Dump) (f : Nat) (c n : Option Nat) (h : WF d) : WF (allow d f c n).1 := by
  unfold allow
  cases hr : d.objs[0]? with
  | none => exact h
  | some root =>
    simp only
    cases ha : allowSets d root f c n with
    | none => exact h
    | some p =>
      obtain ⟨x, y⟩ := p
      simp only
      -- facts about the old allowed sets and the root sets from WF
      obtain ⟨r, hr0, hoc, hon, _⟩ := h.allowed
      have hrr : r = root := by rw [hr] at hr0; exact (Option.some.inj hr0).symm
      subst hrr
      have hsome := h.topc "allowed-sets"
      simp only [topClause, topClauses, List.find?, String.reduceBEq, hr, Bool.and_eq_true] at hsome
      have hsets := h.objc "sets-presence" r (List.mem_of_getElem? hr)
      have hrootT : r.type = tMACHINE := by
        have := h.topc "root-is-machine"
        simp only [topClause, topClauses, List.find?, String.reduceBEq, hr, Bool.and_eq_true, beq_iff_eq] at this
        exact this.2.1.1
      simp only [objClause, objClauses, List.find?, String.reduceBEq, hrootT] at hsets
      have hns : isSpecial tMACHINE = false := by decide
      simp only [hns, Bool.false_eq_true, if_false, Bool.and_eq_true] at hsets
      obtain ⟨hincl, hx, hy, hsx, hsy⟩ := allowSets_ok d r f c n x y ha hoc hon hsome.1.1.1.1 hsome.1.1.1.2
        hsets.1.1.1 hsets.1.2
      have hflag : flagIncludeDisallowed { d with allowedCpuset := x, allowedNodeset := y } = true := hincl
      constructor
      · intro cl hcl
        by_cases hname : cl.1 = "allowed-sets"
        · rw [← topClause_of_mem cl hcl, hname]
          simp only [topClause, topClauses, List.find?, String.reduceBEq, hr, hx, hy, hsx, hsy, hflag, Bool.true_or,
            Bool.and_self]
        · rw [mkAux_allow, allow_top_irrel d x y cl hcl hname]
          exact h.1 cl hcl
      · intro cl hcl o ho
        by_cases h1 : cl.1 = "pu-allowed"
        · rw [← objClause_of_mem cl hcl, h1]
          simp only [objClause, objClauses, List.find?, String.reduceBEq, hflag, Bool.not_true, Bool.and_false,
            Bool.false_eq_true, if_false]
        · by_cases h2 : cl.1 = "numa-allowed"
          · rw [← objClause_of_mem cl hcl, h2]
            simp only [objClause, objClauses, List.find?, String.reduceBEq, hflag, Bool.not_true, Bool.and_false,
              Bool.false_eq_true, if_false]
          · rw [mkAux_allow, allow_obj_irrel d x y cl hcl h1 h2]
            exact h.2 cl hcl o ho

/-! ### editing infos / subtype: no clause of WF looks at them -/

section Edit
variable (I : Obj → List (String × String)) (S : Obj → Option String)

def upd (o : Obj) : Obj := { o with infos := I o, subtype := S o }
def mapD (d : Dump) : Dump := { d with objs := d.objs.map (upd I S) }

theorem obj?_mapD (d : Dump) (i : Int) : (mapD I S d).obj? i = (d.obj? i).map (upd I S) := by
  unfold Dump.obj? mapD
  split
  · rfl
  · simp [List.getElem?_map]

theorem idOk_mapD (d : Dump) (i : Int) : idOk (mapD I S d) i = idOk d i := by
  simp [idOk, mapD]

theorem clause_upd (d : Dump) : ∀ c ∈ objClauses, ∀ a o, c.2 (mapD I S d) a (upd I S o) = c.2 d a o := by
  simp only [objClauses, List.forall_mem_cons]
  and_intros
  all_goals first
    | (intro c hc; exact absurd hc List.not_mem_nil)
    | (intro a o; (try simp only [obj?_mapD, idOk_mapD, upd]); all_goals first
        | rfl
        | (cases d.obj? o.parent <;> rfl)
        | (cases d.obj? o.parent <;> cases d.obj? o.nextSib <;> cases d.obj? o.prevSib <;> rfl)
        | (cases d.obj? o.memFirst <;> cases d.obj? o.ioFirst <;> cases d.obj? o.miscFirst <;> rfl)
        | (simp only [mapD, List.getElem?_map, Option.map_map]; rfl)
        | (congr 1; apply congrArg; funext i; cases d.obj? (o.children[i]?.getD (-2)) <;> rfl))


theorem mkAux_mapD (d : Dump) : mkAux (mapD I S d) = mkAux d := by
  unfold mkAux mapD
  simp only [List.foldl_map, List.foldr_map, List.length_map]
  rfl

theorem top_upd (d : Dump) : ∀ c ∈ topClauses, ∀ a, c.2 (mapD I S d) a = c.2 d a := by
  simp only [topClauses, List.forall_mem_cons]
  and_intros
  all_goals first
    | (intro c hc; exact absurd hc List.not_mem_nil)
    | (intro a; first
        | rfl
        | (simp only [mapD, List.length_map, List.all_map, List.filter_map, List.map_map]; rfl)
        | (simp only [mapD, List.getElem?_map]; cases d.objs[0]? <;> rfl)
        | (simp only [obj?_mapD]; apply congrArg; funext l; apply congrArg; funext i;
           cases d.obj? (l.objs[i]?.getD (-2)) <;> rfl)
        | (simp only [mapD, List.length_map]))


/-- **editing infos / subtype of any objects preserves well-formedness** -/
theorem mapD_wf (d : Dump) (h : WF d) : WF (mapD I S d) := by
  constructor
  · intro c hc
    rw [mkAux_mapD, top_upd I S d c hc]
    exact h.1 c hc
  · intro c hc o' ho'
    obtain ⟨o, ho, rfl⟩ := List.mem_map.mp ho'
    rw [mkAux_mapD, clause_upd I S d c hc]
    exact h.2 c hc o ho


end Edit

/-- modifying the object at position `i` = mapping over all objects, keyed by the (unique) gp_index -/
theorem modify_eq_map (l : List Obj) (hn : (l.map (·.gp)).Nodup) (i : Nat) (hi : i < l.length) (f : Obj → Obj) :
    l.modify i f = l.map (fun o => if o.gp = l[i].gp then f o else o) := by
  induction l generalizing i with
  | nil => simp at hi
  | cons x xs ih =>
    rw [List.map_cons, List.nodup_cons] at hn
    cases i with
    | zero =>
      have hid : xs.map (fun o => if o.gp = x.gp then f o else o) = xs := by
        conv => rhs; rw [← List.map_id xs]
        apply List.map_congr_left
        intro o ho
        have : o.gp ≠ x.gp := fun e => hn.1 (by rw [← e]; exact List.mem_map_of_mem ho)
        simp [this]
      simp only [List.modify_zero_cons, List.getElem_cons_zero, List.map_cons, if_true, hid]
    | succ k =>
      have hk : k < xs.length := by simpa using hi
      have hx : x.gp ≠ xs[k].gp := fun e => hn.1 (by rw [e]; exact List.mem_map_of_mem (List.getElem_mem _))
      simp only [List.modify_succ_cons, List.getElem_cons_succ, List.map_cons, hx, if_false]
      rw [ih hn.2 k hk]

/-- **every modelled call preserves well-formedness** -/
theorem step_wf (d : Dump) (op : HOp) (h : WF d) : WF (step d op).1 := by
  have hgp := h.gp_injective
  cases op with
  | allow f c n => exact allow_wf d f c n h
  | addInfo i n v =>
    simp only [step]
    cases hi : d.objs[i]? with
    | none => exact h
    | some o =>
      have hlt : i < d.objs.length := by
        rcases Nat.lt_or_ge i d.objs.length with hlt | hge
        · exact hlt
        · rw [List.getElem?_eq_none hge] at hi; cases hi
      simp only [modifyObj]
      rw [modify_eq_map d.objs hgp i hlt]
      exact mapD_wf (fun p => if p.gp = d.objs[i].gp then (Hw.Infos.modify o.infos .add n v).1 else p.infos)
        (fun p => p.subtype) d h |> fun hw => by
          have e : (fun p : Obj => if p.gp = d.objs[i].gp then { p with infos := (Hw.Infos.modify o.infos .add n v).1 } else p)
              = upd (fun p => if p.gp = d.objs[i].gp then (Hw.Infos.modify o.infos .add n v).1 else p.infos) (fun p => p.subtype) := by
            funext p; unfold upd; by_cases hc : p.gp = d.objs[i].gp <;> simp [hc]
          rw [e]; exact hw
  | modifyInfos i op n v =>
    simp only [step]
    cases hi : d.objs[i]? with
    | none => exact h
    | some o =>
      have hlt : i < d.objs.length := by
        rcases Nat.lt_or_ge i d.objs.length with hlt | hge
        · exact hlt
        · rw [List.getElem?_eq_none hge] at hi; cases hi
      simp only [modifyObj]
      rw [modify_eq_map d.objs hgp i hlt]
      exact mapD_wf (fun p => if p.gp = d.objs[i].gp then (Hw.Infos.modify o.infos (infoOp op) n v).1 else p.infos)
        (fun p => p.subtype) d h |> fun hw => by
          have e : (fun p : Obj => if p.gp = d.objs[i].gp then { p with infos := (Hw.Infos.modify o.infos (infoOp op) n v).1 } else p)
              = upd (fun p => if p.gp = d.objs[i].gp then (Hw.Infos.modify o.infos (infoOp op) n v).1 else p.infos) (fun p => p.subtype) := by
            funext p; unfold upd; by_cases hc : p.gp = d.objs[i].gp <;> simp [hc]
          rw [e]; exact hw
  | setSubtype i s =>
    simp only [step]
    cases hi : d.objs[i]? with
    | none => exact h
    | some o =>
      have hlt : i < d.objs.length := by
        rcases Nat.lt_or_ge i d.objs.length with hlt | hge
        · exact hlt
        · rw [List.getElem?_eq_none hge] at hi; cases hi
      simp only [modifyObj]
      rw [modify_eq_map d.objs hgp i hlt]
      exact mapD_wf (fun p => p.infos) (fun p => if p.gp = d.objs[i].gp then s else p.subtype) d h |> fun hw => by
          have e : (fun p : Obj => if p.gp = d.objs[i].gp then { p with subtype := s } else p)
              = upd (fun p => p.infos) (fun p => if p.gp = d.objs[i].gp then s else p.subtype) := by
            funext p; unfold upd; by_cases hc : p.gp = d.objs[i].gp <;> simp [hc]
          rw [e]; exact hw

/-- **well-formedness along every history of modelled calls** -/
theorem history_wf (d : Dump) (ops : List HOp) (h : WF d) : WF (ops.foldl (fun d op => (step d op).1) d) := by
  induction ops generalizing d with
  | nil => exact h
  | cons op ops ih => exact ih _ (step_wf d op h)

/-- a call that returns EINVAL leaves the dump unchanged, for `allow` and for the info calls with NULL arguments -/
theorem step_einval_unchanged_allow (d : Dump) (f : Nat) (c n : Option Nat) (h : (step d (.allow f c n)).2 = .einval) :
    (step d (.allow f c n)).1 = d := allow_einval_unchanged d f c n h

end Hw.Topo.Hist
