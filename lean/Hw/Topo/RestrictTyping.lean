/-
  Hw.Topo.RestrictTyping — the tree typing `typedT` (hypothesis of the link / level theorems about `render`) is preserved by
  the whole restrict model: the tree recursion, level merging and the final re-sort; so is "the root is a normal object".
-/
import Hw.Topo.RenderLemmas
namespace Hw.Topo.Restrict
open Hw.Topo

/-! ### typed lists -/

theorem typedL_iff (k : Nat → Bool) (l : List Tree) :
    typedL k l = true ↔ ∀ t ∈ l, k t.obj.type = true ∧ typedT t = true := by
  induction l with
  | nil => simp [typedL]
  | cons a as ih =>
    rw [typedL]
    simp only [Bool.and_eq_true, ih, List.mem_cons, forall_eq_or_imp, and_assoc]

theorem typedL_append {k : Nat → Bool} {a b : List Tree} (ha : typedL k a = true) (hb : typedL k b = true) :
    typedL k (a ++ b) = true := by
  rw [typedL_iff] at ha hb ⊢
  intro t ht
  rcases List.mem_append.1 ht with h | h
  · exact ha t h
  · exact hb t h

theorem typedL_perm (k : Nat → Bool) {a b : List Tree} (h : a.Perm b) (ha : typedL k a = true) : typedL k b = true := by
  rw [typedL_iff] at ha ⊢
  exact fun t ht => ha t (h.mem_iff.2 ht)

theorem typedL_nil (k : Nat → Bool) : typedL k [] = true := rfl

/-- assembling a typed node -/
theorem typedT_mk (o : RObj) (ns ms ios mis : List Tree)
    (ha : o.type ≤ 13 ∨ ns = []) (hb : o.type ≤ 13 ∨ o.type = 15 ∨ ms = []) (hc : o.type ≤ 13 ∨ (16 ≤ o.type ∧ o.type ≤ 18) ∨ ios = [])
    (he : o.type < 20) (h1 : typedL isNormal ns = true) (h2 : typedL isMemory ms = true) (h3 : typedL isIO ios = true)
    (h4 : typedL isMisc mis = true) : typedT (.node o ns ms ios mis) = true := by
  rw [typedT]
  simp only [Bool.and_eq_true, Bool.or_eq_true, List.isEmpty_iff, isNormal_iff, isIO_iff, beq_iff_eq, decide_eq_true_eq, tMEMCACHE, tMAX]
  refine ⟨⟨⟨⟨⟨⟨⟨ha, ?_⟩, ?_⟩, decide_eq_true he⟩, h1⟩, h2⟩, h3⟩, h4⟩
  · rcases hb with h | h | h
    · exact Or.inl (Or.inl h)
    · exact Or.inl (Or.inr h)
    · exact Or.inr h
  · rcases hc with h | h | h
    · exact Or.inl (Or.inl h)
    · exact Or.inl (Or.inr h)
    · exact Or.inr h

/-- the facts of a typed node with lists as equalities -/
theorem typedT_node (o : RObj) (ns ms ios mis : List Tree) (h : typedT (.node o ns ms ios mis) = true) :
    (o.type ≤ 13 ∨ ns = []) ∧ (o.type ≤ 13 ∨ o.type = 15 ∨ ms = []) ∧ (o.type ≤ 13 ∨ (16 ≤ o.type ∧ o.type ≤ 18) ∨ ios = []) ∧
    o.type < 20 ∧ typedL isNormal ns = true ∧ typedL isMemory ms = true ∧ typedL isIO ios = true ∧ typedL isMisc mis = true := by
  have hf := typedT_facts _ h
  have hl := typedT_lists _ h
  simp only [Tree.obj, Tree.ns, Tree.ms, Tree.ios, Tree.mis, List.length_eq_zero_iff] at hf hl
  exact ⟨hf.1, hf.2.1, hf.2.2.1, hf.2.2.2.2, hl.1, hl.2.1, hl.2.2.1, hl.2.2.2⟩

/-! ### the tree recursion -/

theorem restrictLW_kept_nil (ro : List Tree → List Tree) (p : Params) : (restrictLW ro p []).kept = [] ∧
    (restrictLW ro p []).io = [] ∧ (restrictLW ro p []).misc = [] := by
  rw [restrictLW_nil]; exact ⟨rfl, rfl, rfl⟩

/-- restricting memory objects hands no I/O object upwards (they have none) -/
theorem memory_no_io (ro : List Tree → List Tree) (p : Params) :
    (∀ t, typedT t = true → isMemory t.obj.type = true → (restrictTW ro p t).io = []) ∧
    (∀ l, typedL isMemory l = true → (restrictLW ro p l).io = []) := by
  have hnode : ∀ o ns ms ios mis, (typedL isMemory ns = true → (restrictLW ro p ns).io = []) →
      (typedL isMemory ms = true → (restrictLW ro p ms).io = []) →
      (typedT (.node o ns ms ios mis) = true → isMemory (Tree.node o ns ms ios mis).obj.type = true →
        (restrictTW ro p (.node o ns ms ios mis)).io = []) := by
    intro o ns ms ios mis _ h2 ht hm
    obtain ⟨ha, _, hc, _, _, t2, _, _⟩ := typedT_node o ns ms ios mis ht
    have hmm := (isMemory_iff _).1 hm
    simp only [Tree.obj] at hmm
    have hns : ns = [] := by rcases ha with h | h; · omega
                             · exact h
    have hios : ios = [] := by rcases hc with h | h | h; · omega
                               · omega
                               · exact h
    subst hns; subst hios
    rw [restrictTW_node]
    have e1 : (if touched p o = true then restrictLW ro p [] else idRes []).io = [] := by
      split
      · exact (restrictLW_kept_nil ro p).2.1
      · rfl
    have e2 : (if touched p o = true then restrictLW ro p ms else idRes ms).io = [] := by
      split
      · exact h2 t2
      · rfl
    rcases nodeRes_cases ro p o [] mis (touched p o) (if touched p o = true then restrictLW ro p [] else idRes [])
      (if touched p o = true then restrictLW ro p ms else idRes ms) with ⟨_, e⟩ | ⟨_, e⟩
    · rw [e]; simp only [e1, e2, List.append_nil]; split <;> rfl
    · rw [e]
  have hnil : typedL isMemory [] = true → (restrictLW ro p []).io = [] := fun _ => (restrictLW_kept_nil ro p).2.1
  have hcons : ∀ t ts, (typedT t = true → isMemory t.obj.type = true → (restrictTW ro p t).io = []) →
      (typedL isMemory ts = true → (restrictLW ro p ts).io = []) →
      (typedL isMemory (t :: ts) = true → (restrictLW ro p (t :: ts)).io = []) := by
    intro t ts h1 h2 hall
    rw [typedL] at hall
    simp only [Bool.and_eq_true] at hall
    rw [restrictLW_cons]
    simp only [h1 hall.1.2 hall.1.1, h2 hall.2, List.append_nil]
  exact ⟨tree_indT hnode hnil hcons, tree_indL hnode hnil hcons⟩

/-- the children results, in both the touched and the untouched case -/
theorem childRes_typed (ro : List Tree → List Tree) (p : Params) (m : Bool) (k : Nat → Bool) (l : List Tree)
    (ih : typedL k l = true → typedL k (restrictLW ro p l).kept = true ∧ typedL isIO (restrictLW ro p l).io = true ∧
      typedL isMisc (restrictLW ro p l).misc = true) (hl : typedL k l = true) :
    typedL k (if m = true then restrictLW ro p l else idRes l).kept = true ∧
    typedL isIO (if m = true then restrictLW ro p l else idRes l).io = true ∧
    typedL isMisc (if m = true then restrictLW ro p l else idRes l).misc = true ∧
    (l = [] → (if m = true then restrictLW ro p l else idRes l).kept = [] ∧
      (if m = true then restrictLW ro p l else idRes l).io = []) := by
  cases m with
  | false =>
    simp only [Bool.false_eq_true, if_false, idRes]
    exact ⟨hl, rfl, rfl, fun h => ⟨h, trivial⟩⟩
  | true =>
    simp only [if_true]
    refine ⟨(ih hl).1, (ih hl).2.1, (ih hl).2.2, ?_⟩
    intro h; subst h; exact ⟨(restrictLW_kept_nil ro p).1, (restrictLW_kept_nil ro p).2.1⟩

/-- **the tree recursion preserves the typing**: survivors are typed and keep their type, what is handed upwards are typed
    I/O resp. Misc subtrees -/
theorem typed_restrictW {ro : List Tree → List Tree} (hro : ∀ l, (ro l).Perm l) (p : Params) :
    (∀ t, typedT t = true → (∀ k ∈ (restrictTW ro p t).kept, typedT k = true ∧ k.obj.type = t.obj.type) ∧
        typedL isIO (restrictTW ro p t).io = true ∧ typedL isMisc (restrictTW ro p t).misc = true) ∧
    (∀ l, ∀ k : Nat → Bool, typedL k l = true → typedL k (restrictLW ro p l).kept = true ∧
        typedL isIO (restrictLW ro p l).io = true ∧ typedL isMisc (restrictLW ro p l).misc = true) := by
  have hnode : ∀ o ns ms ios mis,
      (∀ k : Nat → Bool, typedL k ns = true → typedL k (restrictLW ro p ns).kept = true ∧
        typedL isIO (restrictLW ro p ns).io = true ∧ typedL isMisc (restrictLW ro p ns).misc = true) →
      (∀ k : Nat → Bool, typedL k ms = true → typedL k (restrictLW ro p ms).kept = true ∧
        typedL isIO (restrictLW ro p ms).io = true ∧ typedL isMisc (restrictLW ro p ms).misc = true) →
      (typedT (.node o ns ms ios mis) = true →
        (∀ k ∈ (restrictTW ro p (.node o ns ms ios mis)).kept, typedT k = true ∧ k.obj.type = (Tree.node o ns ms ios mis).obj.type) ∧
        typedL isIO (restrictTW ro p (.node o ns ms ios mis)).io = true ∧
        typedL isMisc (restrictTW ro p (.node o ns ms ios mis)).misc = true) := by
    intro o ns ms ios mis hn hm ht
    obtain ⟨ha, hb, hc, he, t1, t2, t3, t4⟩ := typedT_node o ns ms ios mis ht
    rw [restrictTW_node]
    have qn := childRes_typed ro p (touched p o) isNormal ns (hn isNormal) t1
    have qm := childRes_typed ro p (touched p o) isMemory ms (hm isMemory) t2
    have mio : (if touched p o = true then restrictLW ro p ms else idRes ms).io = [] := by
      split
      · exact (memory_no_io ro p).2 ms t2
      · rfl
    generalize (if touched p o = true then restrictLW ro p ns else idRes ns) = rn at qn ⊢
    generalize (if touched p o = true then restrictLW ro p ms else idRes ms) = rm at qm mio ⊢
    have hios : typedL isIO (ios ++ rn.io ++ rm.io) = true := typedL_append (typedL_append t3 qn.2.1) qm.2.1
    have hmis : typedL isMisc (mis ++ rn.misc ++ rm.misc) = true := typedL_append (typedL_append t4 qn.2.2.1) qm.2.2.1
    rcases nodeRes_cases ro p o ios mis (touched p o) rn rm with ⟨_, e⟩ | ⟨_, e⟩
    · rw [e]
      refine ⟨fun k hk => by simp at hk, ?_, ?_⟩
      · show typedL isIO (if p.adaptIO = true then ios ++ rn.io ++ rm.io else []) = true
        split
        · exact hios
        · rfl
      · show typedL isMisc (if p.adaptMisc = true then mis ++ rn.misc ++ rm.misc else []) = true
        split
        · exact hmis
        · rfl
    · rw [e]
      refine ⟨?_, rfl, rfl⟩
      intro k hk
      simp only [List.mem_singleton] at hk
      subst hk
      refine ⟨?_, type_shrinkG p o⟩
      have hty := type_shrinkG p o
      have hperm := nsAfter_perm hro p (touched p o) rn
      apply typedT_mk
      · rw [hty]
        rcases ha with h | h
        · exact Or.inl h
        · right
          have := (qn.2.2.2 h).1
          rw [this] at hperm
          exact hperm.eq_nil
      · rw [hty]
        rcases hb with h | h | h
        · exact Or.inl h
        · exact Or.inr (Or.inl h)
        · exact Or.inr (Or.inr (qm.2.2.2 h).1)
      · rw [hty]
        rcases hc with h | h | h
        · exact Or.inl h
        · exact Or.inr (Or.inl h)
        · -- neither normal nor I/O: no I/O child before, none inherited
          by_cases hno : o.type ≤ 13
          · exact Or.inl hno
          · right; right
            have hns : ns = [] := by rcases ha with h' | h'; · exact absurd h' hno
                                     · exact h'
            rw [h, (qn.2.2.2 hns).2, mio]; rfl
      · rw [hty]; exact he
      · exact typedL_perm isNormal hperm.symm qn.1
      · exact qm.1
      · exact hios
      · exact hmis
  have hnil : ∀ k : Nat → Bool, typedL k [] = true → typedL k (restrictLW ro p []).kept = true ∧
      typedL isIO (restrictLW ro p []).io = true ∧ typedL isMisc (restrictLW ro p []).misc = true := by
    intro k _; rw [restrictLW_nil]; exact ⟨rfl, rfl, rfl⟩
  have hcons : ∀ t ts,
      (typedT t = true → (∀ k ∈ (restrictTW ro p t).kept, typedT k = true ∧ k.obj.type = t.obj.type) ∧
        typedL isIO (restrictTW ro p t).io = true ∧ typedL isMisc (restrictTW ro p t).misc = true) →
      (∀ k : Nat → Bool, typedL k ts = true → typedL k (restrictLW ro p ts).kept = true ∧
        typedL isIO (restrictLW ro p ts).io = true ∧ typedL isMisc (restrictLW ro p ts).misc = true) →
      (∀ k : Nat → Bool, typedL k (t :: ts) = true → typedL k (restrictLW ro p (t :: ts)).kept = true ∧
        typedL isIO (restrictLW ro p (t :: ts)).io = true ∧ typedL isMisc (restrictLW ro p (t :: ts)).misc = true) := by
    intro t ts h1 h2 k hall
    rw [typedL] at hall
    simp only [Bool.and_eq_true] at hall
    have a := h1 hall.1.2
    have b := h2 k hall.2
    rw [restrictLW_cons]
    refine ⟨typedL_append ?_ b.1, typedL_append a.2.1 b.2.1, typedL_append a.2.2 b.2.2⟩
    rw [typedL_iff]
    intro x hx
    have := a.1 x hx
    exact ⟨by rw [this.2]; exact hall.1.1, this.1⟩
  exact ⟨tree_indT hnode hnil hcons, tree_indL hnode hnil hcons⟩

/-! ### level merging and the final re-sort -/

theorem typedT_withMs (t : Tree) (mm : List Tree) (h : mm.Perm t.ms) (ht : typedT t = true) : typedT (withMs t mm) = true := by
  cases t with
  | node o ns ms ios mis =>
    simp only [withMs, Tree.ms] at h ⊢
    obtain ⟨ha, hb, hc, he, t1, t2, t3, t4⟩ := typedT_node o ns ms ios mis ht
    refine typedT_mk o ns mm ios mis ha ?_ hc he t1 (typedL_perm isMemory h.symm t2) t3 t4
    rcases hb with hb | hb | hb
    · exact Or.inl hb
    · exact Or.inr (Or.inl hb)
    · right; right; rw [hb] at h; exact h.eq_nil

theorem absorbIf_type (ms : List Tree) (o co : RObj) : (absorbIf ms o co).type = co.type := by
  unfold absorbIf absorb; split <;> rfl

theorem typed_mergeNode0 (rc : Bool) (o : RObj) (ns ms ios mis : List Tree) (h : typedT (.node o ns ms ios mis) = true) :
    typedT (mergeNode0 rc o ns ms ios mis) = true ∧
    (isNormal o.type = true → isNormal (mergeNode0 rc o ns ms ios mis).obj.type = true) := by
  unfold mergeNode0
  split
  · rename_i co cns cms cios cmis
    obtain ⟨ha, _, _, he, t1, t2, t3, t4⟩ := typedT_node _ _ _ _ _ h
    have hco := typedL_get isNormal _ t1 0 _ rfl
    simp only [Tree.obj] at hco
    obtain ⟨_, _, _, ce, c1, c2, c3, c4⟩ := typedT_node _ _ _ _ _ hco.2
    have hon : o.type ≤ 13 := by rcases ha with h' | h'; · exact h'
                                 · simp at h'
    have hcn : co.type ≤ 13 := (isNormal_iff _).1 hco.1
    cases rc
    · simp only [Bool.false_eq_true, if_false, Tree.obj]
      refine ⟨typedT_mk _ _ _ _ _ ?_ ?_ ?_ ?_ c1 (typedL_append t2 c2) (typedL_append t3 c3) (typedL_append t4 c4), fun _ => ?_⟩
      · rw [absorbIf_type]; exact Or.inl hcn
      · rw [absorbIf_type]; exact Or.inl hcn
      · rw [absorbIf_type]; exact Or.inl hcn
      · rw [absorbIf_type]; exact ce
      · rw [absorbIf_type]; exact hco.1
    · simp only [if_true, Tree.obj]
      exact ⟨typedT_mk _ _ _ _ _ (Or.inl hon) (Or.inl hon) (Or.inl hon) he c1 (typedL_append t2 c2) (typedL_append t3 c3)
        (typedL_append t4 c4), fun hn => hn⟩
  · exact ⟨h, fun hn => hn⟩

theorem typed_mergeNode (rc : Bool) (o : RObj) (ns ms ios mis : List Tree) (h : typedT (.node o ns ms ios mis) = true) :
    typedT (mergeNode rc o ns ms ios mis) = true ∧
    (isNormal o.type = true → isNormal (mergeNode rc o ns ms ios mis).obj.type = true) := by
  have h0 := typed_mergeNode0 rc o ns ms ios mis h
  rw [mergeNode_eq, obj_withMs]
  exact ⟨typedT_withMs _ _ (newMs_perm rc o ns ms ios mis) h0.1, h0.2⟩

theorem typed_merge (ps : List Nat) (rc : Bool) :
    (∀ t, typedT t = true → typedT (mergeT ps rc t) = true ∧
        (isNormal t.obj.type = true → isNormal (mergeT ps rc t).obj.type = true)) ∧
    (∀ l, typedL isNormal l = true → typedL isNormal (mergeL ps rc l) = true ∧ (l = [] → mergeL ps rc l = [])) := by
  have hnode : ∀ o ns ms ios mis,
      (typedL isNormal ns = true → typedL isNormal (mergeL ps rc ns) = true ∧ (ns = [] → mergeL ps rc ns = [])) →
      (typedL isNormal ms = true → typedL isNormal (mergeL ps rc ms) = true ∧ (ms = [] → mergeL ps rc ms = [])) →
      (typedT (.node o ns ms ios mis) = true → typedT (mergeT ps rc (.node o ns ms ios mis)) = true ∧
        (isNormal (Tree.node o ns ms ios mis).obj.type = true → isNormal (mergeT ps rc (.node o ns ms ios mis)).obj.type = true)) := by
    intro o ns ms ios mis hn _ ht
    rw [mergeT]
    split
    · exact typed_mergeNode rc o ns ms ios mis ht
    · obtain ⟨ha, hb, hc, he, t1, t2, t3, t4⟩ := typedT_node _ _ _ _ _ ht
      have q := hn t1
      refine ⟨typedT_mk _ _ _ _ _ ?_ hb hc he q.1 t2 t3 t4, fun h => h⟩
      rcases ha with h | h
      · exact Or.inl h
      · exact Or.inr (q.2 h)
  have hnil : typedL isNormal [] = true → typedL isNormal (mergeL ps rc []) = true ∧ (([] : List Tree) = [] → mergeL ps rc [] = []) := by
    intro _; rw [mergeL]; exact ⟨rfl, fun _ => rfl⟩
  have hcons : ∀ t ts,
      (typedT t = true → typedT (mergeT ps rc t) = true ∧ (isNormal t.obj.type = true → isNormal (mergeT ps rc t).obj.type = true)) →
      (typedL isNormal ts = true → typedL isNormal (mergeL ps rc ts) = true ∧ (ts = [] → mergeL ps rc ts = [])) →
      (typedL isNormal (t :: ts) = true → typedL isNormal (mergeL ps rc (t :: ts)) = true ∧
        (t :: ts = [] → mergeL ps rc (t :: ts) = [])) := by
    intro t ts h1 h2 hall
    rw [typedL] at hall
    simp only [Bool.and_eq_true] at hall
    rw [mergeL, typedL]
    have a := h1 hall.1.2
    simp only [Bool.and_eq_true]
    exact ⟨⟨⟨a.2 hall.1.1, a.1⟩, (h2 hall.2).1⟩, fun h => by simp at h⟩
  exact ⟨tree_indT hnode hnil hcons, tree_indL hnode hnil hcons⟩

theorem typed_reorderAll :
    (∀ t, typedT t = true → typedT (reorderAllT t) = true) ∧
    (∀ l, ∀ k : Nat → Bool, typedL k l = true → typedL k (reorderAllL l) = true ∧ (l = [] → reorderAllL l = [])) := by
  have hnode : ∀ o ns ms ios mis,
      (∀ k : Nat → Bool, typedL k ns = true → typedL k (reorderAllL ns) = true ∧ (ns = [] → reorderAllL ns = [])) →
      (∀ k : Nat → Bool, typedL k ms = true → typedL k (reorderAllL ms) = true ∧ (ms = [] → reorderAllL ms = [])) →
      (typedT (.node o ns ms ios mis) = true → typedT (reorderAllT (.node o ns ms ios mis)) = true) := by
    intro o ns ms ios mis hn _ ht
    rw [reorderAllT]
    obtain ⟨ha, hb, hc, he, t1, t2, t3, t4⟩ := typedT_node _ _ _ _ _ ht
    have q := hn isNormal t1
    refine typedT_mk _ _ _ _ _ ?_ hb hc he (typedL_perm isNormal (fixOrder_perm _).symm q.1) t2 t3 t4
    rcases ha with h | h
    · exact Or.inl h
    · right
      rw [q.2 h]
      exact (fixOrder_perm []).eq_nil
  have hnil : ∀ k : Nat → Bool, typedL k [] = true → typedL k (reorderAllL []) = true ∧ (([] : List Tree) = [] → reorderAllL [] = []) := by
    intro k _; rw [reorderAllL]; exact ⟨rfl, fun _ => rfl⟩
  have hcons : ∀ t ts, (typedT t = true → typedT (reorderAllT t) = true) →
      (∀ k : Nat → Bool, typedL k ts = true → typedL k (reorderAllL ts) = true ∧ (ts = [] → reorderAllL ts = [])) →
      (∀ k : Nat → Bool, typedL k (t :: ts) = true → typedL k (reorderAllL (t :: ts)) = true ∧ (t :: ts = [] → reorderAllL (t :: ts) = [])) := by
    intro t ts h1 h2 k hall
    rw [typedL] at hall
    simp only [Bool.and_eq_true] at hall
    rw [reorderAllL, typedL, (reorderAll_perm.1 t).2]
    simp only [Bool.and_eq_true]
    exact ⟨⟨⟨hall.1.1, h1 hall.1.2⟩, (h2 k hall.2).1⟩, fun h => by simp at h⟩
  exact ⟨tree_indT hnode hnil hcons, tree_indL hnode hnil hcons⟩

theorem typed_ksStep (filters : List Nat) (i : Nat) (st : Tree × List (List RObj) × Bool) (h : typedT st.1 = true)
    (hr : isNormal st.1.obj.type = true) :
    typedT (ksStep filters i st).1 = true ∧ isNormal (ksStep filters i st).1.obj.type = true := by
  unfold ksStep
  split
  · split
    · exact ⟨h, hr⟩
    · split
      · exact ⟨((typed_merge _ _).1 st.1 h).1, ((typed_merge _ _).1 st.1 h).2 hr⟩
      · exact ⟨h, hr⟩
  · exact ⟨h, hr⟩

theorem typed_ksLoop (filters : List Nat) : ∀ (i : Nat) (st : Tree × List (List RObj) × Bool), typedT st.1 = true →
    isNormal st.1.obj.type = true → typedT (ksLoop filters i st).1 = true ∧ isNormal (ksLoop filters i st).1.obj.type = true
  | 0, st, h, hr => by rw [ksLoop]; exact ⟨h, hr⟩
  | i + 1, st, h, hr => by
    rw [ksLoop]
    have := typed_ksStep filters (i + 1) st h hr
    exact typed_ksLoop filters i _ this.1 this.2

/-- **level merging (with the final re-sort) preserves the typing and the normal root** -/
theorem typed_keepStructure (filters : List Nat) (t : Tree) (h : typedT t = true) (hr : isNormal t.obj.type = true) :
    typedT (keepStructure filters t) = true ∧ isNormal (keepStructure filters t).obj.type = true := by
  unfold keepStructure
  simp only []
  have := typed_ksLoop filters ((connectLevels t).length - 1) (t, connectLevels t, false) h hr
  split
  · exact ⟨typed_reorderAll.1 _ this.1, by rw [(reorderAll_perm.1 _).2]; exact this.2⟩
  · exact this

/-- **the whole call preserves the typing and the normal root** -/
theorem typed_restrict (t : Topo) (s : CSet) (flags : Nat) (h : typedT t.tree = true) (hr : isNormal t.tree.obj.type = true) :
    typedT (restrict t s flags).1.tree = true ∧ isNormal (restrict t s flags).1.tree.obj.type = true := by
  unfold restrict
  cases hp : plan t s flags with
  | none => exact ⟨h, hr⟩
  | some p =>
    simp only []
    cases hc : restrictCore t p with
    | none => exact ⟨h, hr⟩
    | some t' =>
      simp only []
      have hroot := restrictCore_root t p t' hc
      have hk : t'.tree ∈ (restrictTW reorder p t.tree).kept := by
        have := hroot.2.2.2.2; unfold restrictT at this; rw [this]; exact List.mem_singleton.2 rfl
      have := ((typed_restrictW reorder_perm p).1 t.tree h).1 t'.tree hk
      exact typed_keepStructure _ _ this.1 (by rw [this.2]; exact hr)

end Hw.Topo.Restrict
