/-
  Hw.Topo.StageTyping — the object-kind discipline (`typedT`, hypothesis of the link theorems) of the tree that `remove_empty`
  receives follows from the same discipline on the INPUT of the set stage (`typedST`, decidable) and on the decoration: the set
  stage changes sets and the order of normal children only (`SetStage.Sim`).
-/
import Hw.Topo.StageCompose
import Hw.Topo.SetStageShape
namespace Hw.Topo.Restrict.Stage
open Hw.Topo Hw.Topo.Restrict Hw.Topo.SetStage

/-- typing of one node of the two-list tree: the `typedT` conditions that concern normal and memory children -/
def TypedN (o : SObj) (kids mem : List ST) : Prop :=
  o.type < tMAX ∧ (isNormal o.type = true ∨ kids = []) ∧ (isNormal o.type = true ∨ o.type = tMEMCACHE ∨ mem = []) ∧
  (∀ k ∈ kids, isNormal k.o.type = true) ∧ (∀ m ∈ mem, isMemory m.o.type = true)

def typedNb (o : SObj) (kids mem : List ST) : Bool :=
  decide (o.type < tMAX) && (isNormal o.type || kids.isEmpty) && (isNormal o.type || o.type == tMEMCACHE || mem.isEmpty) &&
  kids.all (fun k => isNormal k.o.type) && mem.all (fun m => isMemory m.o.type)

/-- the decidable typing precondition on the input of the set stage -/
def typedST (t : ST) : Bool := allNodes typedNb t

theorem typedST_iff (t : ST) : typedST t = true ↔ AllN TypedN t := by
  unfold typedST
  rw [allNodes_iff]
  constructor <;> intro h <;> refine AllN.imp (fun o k m hp => ?_) _ h
  · unfold typedNb at hp
    simp only [Bool.and_eq_true, Bool.or_eq_true, decide_eq_true_eq, List.isEmpty_iff, beq_iff_eq, List.all_eq_true] at hp
    exact ⟨hp.1.1.1.1, hp.1.1.1.2, by rcases hp.1.1.2 with (h | h) | h <;> simp [h], hp.1.2, hp.2⟩
  · unfold typedNb
    simp only [Bool.and_eq_true, Bool.or_eq_true, decide_eq_true_eq, List.isEmpty_iff, beq_iff_eq, List.all_eq_true]
    exact ⟨⟨⟨⟨hp.1, hp.2.1⟩, by rcases hp.2.2.1 with h | h | h <;> simp [h]⟩, hp.2.2.2.1⟩, hp.2.2.2.2⟩

theorem ident_type {a b : SObj} (h : SetStage.ident a = SetStage.ident b) : b.type = a.type := by
  unfold SetStage.ident at h
  simp only [Prod.mk.injEq] at h
  exact h.2.1.symm

/-- a tree with other sets and permuted normal children is typed like the original -/
theorem sim_typed {t u : ST} (h : Sim t u) : AllN TypedN t → AllN TypedN u ∧ u.o.type = t.o.type := by
  induction h with
  | @node a b ka ma kb fk fm hid _ _ hperm ihk ihm =>
    intro ht
    have hty := ident_type hid
    have hh := ht.here
    refine ⟨.node ⟨by rw [hty]; exact hh.1, ?_, ?_, ?_, ?_⟩ ?_ ?_, hty⟩
    · rcases hh.2.1 with h | h
      · exact Or.inl (by rw [hty]; exact h)
      · subst h
        exact Or.inr (by simpa using hperm)
    · rcases hh.2.2.1 with h | h | h
      · exact Or.inl (by rw [hty]; exact h)
      · exact Or.inr (Or.inl (by rw [hty]; exact h))
      · subst h; exact Or.inr (Or.inr rfl)
    · intro k hk
      obtain ⟨k0, hk0, rfl⟩ := List.mem_map.1 (hperm.mem_iff.1 hk)
      rw [(ihk k0 hk0 (ht.kids k0 hk0)).2]
      exact hh.2.2.2.1 k0 hk0
    · intro m hm
      obtain ⟨m0, hm0, rfl⟩ := List.mem_map.1 hm
      rw [(ihm m0 hm0 (ht.mem m0 hm0)).2]
      exact hh.2.2.2.2 m0 hm0
    · intro k hk
      obtain ⟨k0, hk0, rfl⟩ := List.mem_map.1 (hperm.mem_iff.1 hk)
      exact (ihk k0 hk0 (ht.kids k0 hk0)).1
    · intro m hm
      obtain ⟨m0, hm0, rfl⟩ := List.mem_map.1 hm
      exact (ihm m0 hm0 (ht.mem m0 hm0)).1

/-- **the set stage preserves the typing and the type of the root** -/
theorem stage_typed (i : In) (h : AllN TypedN i.root) : AllN TypedN (stage i).root ∧ (stage i).root.o.type = i.root.o.type := by
  have h1 := sim_typed (sim_fixupRoot i.root) h
  have h2 := sim_typed (sim_propagate (fixupRoot i.root) 0) h1.1
  have h3 := sim_typed (sim_fixupSets (propagate 0 (fixupRoot i.root))) h2.1
  have e3 : (fixupSets (propagate 0 (fixupRoot i.root))).o.type = i.root.o.type := by rw [h3.2, h2.2, h1.2]
  unfold stage
  simp only
  split
  · exact ⟨h3.1, e3⟩
  · rw [removeUnused_eq]
    have h4 := fun φ ψ => sim_typed (sim_mapObjs (shrinkObj φ ψ) (fun _ => rfl) (fixupSets (propagate 0 (fixupRoot i.root)))) h3.1
    exact ⟨(h4 _ _).1, by rw [(h4 _ _).2, e3]⟩

/-- the decoration respects the discipline: I/O subtrees are typed I/O lists and hang below normal objects only, Misc subtrees are
    typed Misc lists -/
def DecoTyped (dc : Deco) : Prop :=
  ∀ o : SObj, typedL isIO (dc.ios o) = true ∧ typedL isMisc (dc.mis o) = true ∧ (isNormal o.type = true ∨ dc.ios o = [])

theorem toTree_typed (dc : Deco) (hdc : DecoTyped dc) : ∀ s : ST, AllN TypedN s → typedT (toTree dc s) = true := by
  apply ST.ind
  intro o kids mem ihk ihm h
  have hh := h.here
  rw [toTree, toTreeL_eq, toTreeL_eq]
  have hn : ∀ x : Nat, isNormal x = true ↔ x ≤ 13 := fun x => by unfold isNormal tGROUP; simp
  refine typedT_mk _ _ _ _ _ ?_ ?_ ?_ (by simpa [robj, tMAX] using hh.1) ?_ ?_ (hdc o).1 (hdc o).2.1
  · rcases hh.2.1 with h1 | h1
    · exact Or.inl ((hn _).1 h1)
    · exact Or.inr (by rw [h1]; rfl)
  · rcases hh.2.2.1 with h1 | h1 | h1
    · exact Or.inl ((hn _).1 h1)
    · exact Or.inr (Or.inl (by simpa [robj, tMEMCACHE] using h1))
    · exact Or.inr (Or.inr (by rw [h1]; rfl))
  · rcases (hdc o).2.2 with h1 | h1
    · exact Or.inl ((hn _).1 h1)
    · exact Or.inr (Or.inr h1)
  · rw [typedL_iff]
    intro t ht
    obtain ⟨k, hk, rfl⟩ := List.mem_map.1 ht
    exact ⟨by rw [toTree_obj]; exact hh.2.2.2.1 k hk, ihk k hk (h.kids k hk)⟩
  · rw [typedL_iff]
    intro t ht
    obtain ⟨m, hm, rfl⟩ := List.mem_map.1 ht
    exact ⟨by rw [toTree_obj]; exact hh.2.2.2.2 m hm, ihm m hm (h.mem m hm)⟩

/-- **typing of the tree handed to `remove_empty`, from the typing of the input of the set stage** -/
theorem pipeline_typed (i : In) (dc : Deco) (h : typedST i.root = true) (hdc : DecoTyped dc) :
    typedT (toTree dc (stage i).root) = true ∧ (toTree dc (stage i).root).obj.type = i.root.o.type := by
  have := stage_typed i ((typedST_iff _).1 h)
  exact ⟨toTree_typed dc hdc _ this.1, by rw [toTree_obj]; exact this.2⟩

end Hw.Topo.Restrict.Stage
