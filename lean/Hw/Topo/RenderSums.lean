/-
  Hw.Topo.RenderSums — sums over the objects of `render t` whose parent is a given object (generalises the counting of
  RenderCounts.lean to any weight of the child's subtree): in the occurrence list of a tree, the occurrences whose parent is `oc.id`
  are the roots of the four children lists of `oc`, so any weight summed over them is the weight summed over those roots
  (`occ_sum`); and the `totSum` aggregate of `mkAux` is such a sum, for any dump (`mkAux_totSum`, on top of SyntheticAux.lean).
-/
import Hw.Topo.RenderCounts
import Hw.Io.SyntheticAux
namespace Hw.Topo.Restrict
open Hw.Topo

/-- the occurrence has parent id `q` -/
def PQ (q : Nat) (oc : Occ) : Bool := decide (0 ≤ oc.parent) && (oc.parent.toNat == q)

def wsum (w : Tree → Nat) (l : List Tree) : Nat := (l.map w).sum

theorem wsum_cons (w : Tree → Nat) (t : Tree) (ts : List Tree) : wsum w (t :: ts) = w t + wsum w ts := by
  unfold wsum; rw [List.map_cons, List.sum_cons]

/-- Σ weight over a list of occurrences -/
def osum (w : Tree → Nat) (l : List Occ) : Nat := (l.map (fun oc => w oc.t)).sum

theorem osum_append (w : Tree → Nat) (a b : List Occ) : osum w (a ++ b) = osum w a + osum w b := by
  unfold osum; rw [List.map_append, List.sum_append]
theorem osum_cons (w : Tree → Nat) (a : Occ) (b : List Occ) : osum w (a :: b) = w a.t + osum w b := by
  unfold osum; rw [List.map_cons, List.sum_cons]

mutual
/-- Σ weight of the occurrences strictly inside the subtree `t` (root id `s`) whose parent id is `q` -/
def sIn (w : Tree → Nat) (q : Nat) (s : Nat) : Tree → Nat
  | .node _ ns ms ios mis =>
    sL w q s (s + 1) ns + sL w q s (s + 1 + sizeL ns) ms + sL w q s (s + 1 + sizeL ns + sizeL ms) ios +
      sL w q s (s + 1 + sizeL ns + sizeL ms + sizeL ios) mis
def sL (w : Tree → Nat) (q : Nat) (par : Nat) (s : Nat) : List Tree → Nat
  | [] => 0
  | t :: ts => (if par = q then w t else 0) + sIn w q s t + sL w q par (s + sizeT t) ts
end

theorem sum_occs (w : Tree → Nat) (q : Nat) :
    (∀ t, ∀ s (par : Int) rk pv nx, osum w ((occsT s par rk pv nx t).filter (PQ q)) =
        (if (decide (0 ≤ par) && (par.toNat == q)) = true then w t else 0) + sIn w q s t) ∧
    (∀ l, ∀ s (p : Nat) rk pv, osum w ((occsL s (p : Int) rk pv l).filter (PQ q)) = sL w q p s l) := by
  have hnode : ∀ o ns ms ios mis,
      (∀ s (p : Nat) rk pv, osum w ((occsL s (p : Int) rk pv ns).filter (PQ q)) = sL w q p s ns) →
      (∀ s (p : Nat) rk pv, osum w ((occsL s (p : Int) rk pv ms).filter (PQ q)) = sL w q p s ms) →
      (∀ s (p : Nat) rk pv, osum w ((occsL s (p : Int) rk pv ios).filter (PQ q)) = sL w q p s ios) →
      (∀ s (p : Nat) rk pv, osum w ((occsL s (p : Int) rk pv mis).filter (PQ q)) = sL w q p s mis) →
      (∀ s (par : Int) rk pv nx, osum w ((occsT s par rk pv nx (.node o ns ms ios mis)).filter (PQ q)) =
        (if (decide (0 ≤ par) && (par.toNat == q)) = true then w (.node o ns ms ios mis) else 0) +
          sIn w q s (.node o ns ms ios mis)) := by
    intro o ns ms ios mis h1 h2 h3 h4 s par rk pv nx
    rw [occsT, sIn, List.filter_cons]
    have hP : PQ q ⟨s, par, rk, pv, nx, .node o ns ms ios mis⟩ = (decide (0 ≤ par) && (par.toNat == q)) := rfl
    rw [hP]
    split
    · simp only [osum_cons, List.filter_append, osum_append, h1, h2, h3, h4]
      try omega
    · simp only [List.filter_append, osum_append, h1, h2, h3, h4]; omega
  have hnil : ∀ s (p : Nat) rk pv, osum w ((occsL s (p : Int) rk pv []).filter (PQ q)) = sL w q p s [] := by
    intro s p rk pv; rw [occsL, sL]; rfl
  have hcons : ∀ t ts,
      (∀ s (par : Int) rk pv nx, osum w ((occsT s par rk pv nx t).filter (PQ q)) =
        (if (decide (0 ≤ par) && (par.toNat == q)) = true then w t else 0) + sIn w q s t) →
      (∀ s (p : Nat) rk pv, osum w ((occsL s (p : Int) rk pv ts).filter (PQ q)) = sL w q p s ts) →
      (∀ s (p : Nat) rk pv, osum w ((occsL s (p : Int) rk pv (t :: ts)).filter (PQ q)) = sL w q p s (t :: ts)) := by
    intro t ts h1 h2 s p rk pv
    rw [occsL, sL, List.filter_append, osum_append, h1, h2]
    have : ((decide (0 ≤ (p : Int)) && ((p : Int).toNat == q)) = true) ↔ p = q := by simp
    simp only [this]
  exact ⟨tree_ind4T hnode hnil hcons, tree_ind4L hnode hnil hcons⟩

theorem sIn_zero (w : Tree → Nat) (q : Nat) :
    (∀ t, ∀ s, (q < s ∨ s + sizeT t ≤ q) → sIn w q s t = 0) ∧
    (∀ l, ∀ s p, p ≠ q → (q < s ∨ s + sizeL l ≤ q) → sL w q p s l = 0) := by
  have hnode : ∀ o ns ms ios mis,
      (∀ s p, p ≠ q → (q < s ∨ s + sizeL ns ≤ q) → sL w q p s ns = 0) → (∀ s p, p ≠ q → (q < s ∨ s + sizeL ms ≤ q) → sL w q p s ms = 0) →
      (∀ s p, p ≠ q → (q < s ∨ s + sizeL ios ≤ q) → sL w q p s ios = 0) → (∀ s p, p ≠ q → (q < s ∨ s + sizeL mis ≤ q) → sL w q p s mis = 0) →
      (∀ s, (q < s ∨ s + sizeT (.node o ns ms ios mis) ≤ q) → sIn w q s (.node o ns ms ios mis) = 0) := by
    intro o ns ms ios mis h1 h2 h3 h4 s hq
    rw [sizeT] at hq
    rw [sIn, h1 _ s (by omega) (by omega), h2 _ s (by omega) (by omega), h3 _ s (by omega) (by omega), h4 _ s (by omega) (by omega)]
  have hnil : ∀ s p, p ≠ q → (q < s ∨ s + sizeL [] ≤ q) → sL w q p s [] = 0 := by
    intro s p _ _; rw [sL]
  have hcons : ∀ t ts, (∀ s, (q < s ∨ s + sizeT t ≤ q) → sIn w q s t = 0) →
      (∀ s p, p ≠ q → (q < s ∨ s + sizeL ts ≤ q) → sL w q p s ts = 0) →
      (∀ s p, p ≠ q → (q < s ∨ s + sizeL (t :: ts) ≤ q) → sL w q p s (t :: ts) = 0) := by
    intro t ts h1 h2 s p hp hq
    rw [sizeL] at hq
    rw [sL, h1 s (by omega), h2 _ p hp (by omega), if_neg hp]
  exact ⟨tree_ind4T hnode hnil hcons, tree_ind4L hnode hnil hcons⟩

/-- Σ weight over the roots of the four children lists -/
def rootsW (w : Tree → Nat) : Tree → Nat
  | .node _ ns ms ios mis => wsum w ns + wsum w ms + wsum w ios + wsum w mis

theorem sL_self (w : Tree → Nat) (q : Nat) : ∀ (l : List Tree) (s : Nat), q < s → sL w q q s l = wsum w l := by
  intro l
  induction l with
  | nil => intro s _; rw [sL]; rfl
  | cons t ts ih =>
    intro s hs
    rw [sL, (sIn_zero w q).1 t s (Or.inl hs), ih _ (by omega), wsum_cons, if_pos rfl]; omega

theorem sIn_at (w : Tree → Nat) :
    (∀ t, ∀ s par rk pv nx, ∀ oc ∈ occsT s par rk pv nx t, sIn w oc.id s t = rootsW w oc.t) ∧
    (∀ l, ∀ s (p : Nat) rk pv, p < s → ∀ oc ∈ occsL s (p : Int) rk pv l, sL w oc.id p s l = rootsW w oc.t) := by
  have hnode : ∀ o ns ms ios mis,
      (∀ s (p : Nat) rk pv, p < s → ∀ oc ∈ occsL s (p : Int) rk pv ns, sL w oc.id p s ns = rootsW w oc.t) →
      (∀ s (p : Nat) rk pv, p < s → ∀ oc ∈ occsL s (p : Int) rk pv ms, sL w oc.id p s ms = rootsW w oc.t) →
      (∀ s (p : Nat) rk pv, p < s → ∀ oc ∈ occsL s (p : Int) rk pv ios, sL w oc.id p s ios = rootsW w oc.t) →
      (∀ s (p : Nat) rk pv, p < s → ∀ oc ∈ occsL s (p : Int) rk pv mis, sL w oc.id p s mis = rootsW w oc.t) →
      (∀ s par rk pv nx, ∀ oc ∈ occsT s par rk pv nx (.node o ns ms ios mis), sIn w oc.id s (.node o ns ms ios mis) = rootsW w oc.t) := by
    intro o ns ms ios mis h1 h2 h3 h4 s par rk pv nx oc hoc
    rw [occsT, List.mem_cons] at hoc
    rw [sIn]
    rcases hoc with hoc | hoc
    · subst hoc
      show sL w s s (s + 1) ns + sL w s s (s + 1 + sizeL ns) ms + sL w s s (s + 1 + sizeL ns + sizeL ms) ios +
        sL w s s (s + 1 + sizeL ns + sizeL ms + sizeL ios) mis = rootsW w (.node o ns ms ios mis)
      rw [sL_self w s ns _ (by omega), sL_self w s ms _ (by omega), sL_self w s ios _ (by omega), sL_self w s mis _ (by omega)]
      rfl
    · simp only [List.mem_append] at hoc
      rcases hoc with ((hoc | hoc) | hoc) | hoc
      · have r := occ_range.2 ns _ _ _ _ oc hoc
        rw [h1 _ s _ _ (by omega) oc hoc, (sIn_zero w oc.id).2 ms _ s (by omega) (by omega),
          (sIn_zero w oc.id).2 ios _ s (by omega) (by omega), (sIn_zero w oc.id).2 mis _ s (by omega) (by omega)]
        omega
      · have r := occ_range.2 ms _ _ _ _ oc hoc
        rw [h2 _ s _ _ (by omega) oc hoc, (sIn_zero w oc.id).2 ns _ s (by omega) (by omega),
          (sIn_zero w oc.id).2 ios _ s (by omega) (by omega), (sIn_zero w oc.id).2 mis _ s (by omega) (by omega)]
        omega
      · have r := occ_range.2 ios _ _ _ _ oc hoc
        rw [h3 _ s _ _ (by omega) oc hoc, (sIn_zero w oc.id).2 ns _ s (by omega) (by omega),
          (sIn_zero w oc.id).2 ms _ s (by omega) (by omega), (sIn_zero w oc.id).2 mis _ s (by omega) (by omega)]
        omega
      · have r := occ_range.2 mis _ _ _ _ oc hoc
        rw [h4 _ s _ _ (by omega) oc hoc, (sIn_zero w oc.id).2 ns _ s (by omega) (by omega),
          (sIn_zero w oc.id).2 ms _ s (by omega) (by omega), (sIn_zero w oc.id).2 ios _ s (by omega) (by omega)]
        omega
  have hnil : ∀ s (p : Nat) rk pv, p < s → ∀ oc ∈ occsL s (p : Int) rk pv [], sL w oc.id p s [] = rootsW w oc.t := by
    intro s p rk pv _ oc hoc; rw [occsL] at hoc; cases hoc
  have hcons : ∀ t ts,
      (∀ s par rk pv nx, ∀ oc ∈ occsT s par rk pv nx t, sIn w oc.id s t = rootsW w oc.t) →
      (∀ s (p : Nat) rk pv, p < s → ∀ oc ∈ occsL s (p : Int) rk pv ts, sL w oc.id p s ts = rootsW w oc.t) →
      (∀ s (p : Nat) rk pv, p < s → ∀ oc ∈ occsL s (p : Int) rk pv (t :: ts), sL w oc.id p s (t :: ts) = rootsW w oc.t) := by
    intro t ts h1 h2 s p rk pv hp oc hoc
    rw [occsL, List.mem_append] at hoc
    rw [sL]
    rcases hoc with hoc | hoc
    · have r := occ_range.1 t _ _ _ _ _ oc hoc
      rw [h1 _ _ _ _ _ oc hoc, (sIn_zero w oc.id).2 ts _ p (by omega) (by omega), if_neg (by omega)]
      omega
    · have r := occ_range.2 ts _ _ _ _ oc hoc
      rw [h2 _ p _ _ (by omega) oc hoc, (sIn_zero w oc.id).1 t s (by omega), if_neg (by omega)]
      omega
  exact ⟨tree_ind4T hnode hnil hcons, tree_ind4L hnode hnil hcons⟩

/-- **any weight summed over the occurrences whose parent is `oc`** = the weight summed over the roots of `oc`'s children lists -/
theorem occ_sum (w : Tree → Nat) (t : Tree) (oc : Occ) (hoc : oc ∈ occs t) :
    osum w ((occs t).filter (PQ oc.id)) = rootsW w oc.t := by
  unfold occs at hoc ⊢
  rw [(sum_occs w oc.id).1 t 0 (-1) 0 (-1) (-1), (sIn_at w).1 t 0 (-1) 0 (-1) (-1) oc hoc]
  simp

/-! ### the `totSum` aggregate of `mkAux`, for any dump -/

def memW (o : Obj) : Nat := if isNormal o.type || isMemory o.type then o.totalMem else 0

theorem cellStep_totSum (c : Cell) (o : Obj) : (cellStep c o).totSum = c.totSum + memW o := by
  unfold cellStep memW
  by_cases h1 : isNormal o.type = true
  · simp [h1]
  · by_cases h2 : isMemory o.type = true
    · simp [h1, h2]
    · by_cases h3 : isIO o.type = true <;> simp [h1, h2, h3]

theorem foldl_cellStep_totSum (l : List Obj) : ∀ c : Cell, (l.foldl cellStep c).totSum = c.totSum + (l.map memW).sum := by
  induction l with
  | nil => intro c; simp
  | cons o l ih => intro c; rw [List.foldl_cons, ih, cellStep_totSum, List.map_cons, List.sum_cons]; omega

/-- the `totSum` cell of object `i` = Σ total_memory over the normal and memory objects whose parent link is `i` -/
theorem mkAux_totSum (d : Dump) (i : Nat) (hi : i < d.objs.length) :
    getN (mkAux d).totSum i = ((d.objs.filter (parentIs i)).map memW).sum := by
  have h := auxFold_cell d i hi
  have e : getN (mkAux d).totSum i = (cellOf (auxFold d) i).totSum := by rw [(mkAux_fold d).2.2.2.2.1]; rfl
  rw [e, h, foldl_cellStep_totSum]
  simp [cell0]

end Hw.Topo.Restrict
