/-
  Hw.Topo.RestrictWF — from the C01 predicate to the hypotheses of the restrict / render theorems:
  for EVERY well-formed dump `d` the tree `treeOf d` (the four-list tree the driver rebuilds from the DFS-ordered object
  list, lean/Hw/Topo/RenderOf.lean) satisfies SetsOK (`okT`), the kind discipline (`typedT`) and has a normal (Machine)
  root.  Proved by an invariant of the right fold of `treeOf` over the object list: every subtree stored in the work
  array at slot `i` is a good subtree whose root is the image of a dump object with parent `i` and the kind of its list.
-/
import Hw.Topo.RenderOf
import Hw.Topo.RestrictTyping
import Hw.Topo.RestrictSurvive
import Hw.Topo.WFTree
import Hw.Topo.RenderTop
import Hw.Topo.RenderSets
namespace Hw.Topo.Restrict
open Hw.Topo

/-! ### `treeOf` as a fold of a named step -/

def kidsAdd (kp : Kids) (ty : Nat) (t : Tree) : Kids :=
  if isNormal ty then { kp with ns := t :: kp.ns }
  else if isMemory ty then { kp with ms := t :: kp.ms }
  else if isIO ty then { kp with ios := t :: kp.ios }
  else { kp with mis := t :: kp.mis }

def treeStep (n : Nat) (o : Obj) (acc : Except String (Array Kids × Option Tree)) : Except String (Array Kids × Option Tree) :=
  match acc with
  | .error e => .error e
  | .ok (arr, root) =>
    if o.id ≥ n then .error "id-out-of-range" else
    let k := arr[o.id]!
    let t := Tree.node (robjOf o) k.ns k.ms k.ios k.mis
    if o.parent < 0 then
      if o.id == 0 then .ok (arr, some t) else .error ("orphan@" ++ toString o.id)
    else
      let p := o.parent.toNat
      if p ≥ o.id then .error ("parent-not-before-child@" ++ toString o.id) else
      .ok (arr.set! p (kidsAdd arr[p]! o.type t), root)

theorem treeOf_eq (d : Dump) : treeOf d =
    match d.objs.foldr (treeStep d.objs.length) (.ok (Array.replicate d.objs.length {}, none)) with
    | .error e => .error e
    | .ok (_, some t) => .ok t
    | .ok (_, none) => .error "no-root" := rfl

theorem kids_get_set_eq (a : Array Kids) (p : Nat) (v : Kids) (hp : p < a.size) : (a.set! p v)[p]! = v := by
  simp [hp]
theorem kids_get_set_ne (a : Array Kids) (p i : Nat) (v : Kids) (h : i ≠ p) : (a.set! p v)[i]! = a[i]! := by
  simp [Array.getElem!_eq_getD, Array.getD_eq_getD_getElem?, Ne.symm h]
theorem kids_get_init (n i : Nat) : (Array.replicate n ({} : Kids))[i]! = {} := by
  by_cases h : i < n
  · simp [h]
  · simp [h]; rfl

/-! ### the `nMemory` fold of `mkAux`: a PU (marity = 0) has no memory child -/

def stepM (acc : List Nat) (o : Obj) : List Nat :=
  if o.parent < 0 then acc else
  if isNormal o.type then acc
  else if isMemory o.type then acc.set o.parent.toNat (getN acc o.parent.toNat + 1)
  else acc

theorem mkAux_projM (d : Dump) : (mkAux d).nMemory = d.objs.foldl stepM (List.replicate d.objs.length 0) := by
  unfold mkAux
  refine foldl_proj _ stepM (fun (a : Aux) => a.nMemory) ?_ _ _
  intro a o
  unfold stepM
  simp only []
  split
  · rfl
  · split
    · rfl
    · split
      · rfl
      · split <;> rfl

def isMemKid (q : Nat) (c : Obj) : Bool := decide (0 ≤ c.parent) && (c.parent.toNat == q) && isMemory c.type

theorem getN_set (l : List Nat) (p q v : Nat) : getN (l.set p v) q = if p = q ∧ p < l.length then v else getN l q := by
  unfold getN
  rw [List.getElem?_set]
  by_cases h : p = q
  · subst h
    by_cases h2 : p < l.length
    · simp [h2]
    · simp [h2]
  · simp [h]

theorem stepM_length (acc : List Nat) (o : Obj) : (stepM acc o).length = acc.length := by
  unfold stepM
  split
  · rfl
  · split
    · rfl
    · split
      · rw [List.length_set]
      · rfl

theorem stepM_get (acc : List Nat) (o : Obj) (q : Nat) (hq : q < acc.length) :
    getN (stepM acc o) q = getN acc q + (if isMemKid q o = true then 1 else 0) := by
  unfold stepM isMemKid
  by_cases h1 : o.parent < 0
  · rw [if_pos h1]
    have : decide (0 ≤ o.parent) = false := by simp; omega
    rw [this]; simp
  · rw [if_neg h1]
    have hd : decide (0 ≤ o.parent) = true := by simp; omega
    rw [hd]
    cases hn : isNormal o.type
    · simp only [Bool.false_eq_true, if_false]
      cases hm : isMemory o.type
      · simp
      · simp only [if_true, Bool.true_and, Bool.and_true, beq_iff_eq]
        rw [getN_set]
        by_cases e : o.parent.toNat = q
        · rw [if_pos ⟨e, by rw [e]; exact hq⟩, if_pos e, e]
        · rw [if_neg (fun h => e h.1), if_neg e]; rfl
    · have hm : isMemory o.type = false := by
        have := (isNormal_iff _).1 hn
        exact (isMemory_false_iff _).2 (by omega)
      simp [hm]

theorem foldM_count (q : Nat) (L : List Obj) : ∀ acc : List Nat, q < acc.length →
    getN (L.foldl stepM acc) q = getN acc q + (L.filter (isMemKid q)).length := by
  induction L with
  | nil => intro acc _; simp
  | cons o L ih =>
    intro acc hq
    rw [List.foldl_cons, ih _ (by rw [stepM_length]; exact hq), stepM_get acc o q hq, List.filter_cons]
    split
    · simp only [List.length_cons]; omega
    · omega

/-- "children-counts", memory part: no memory object has a PU as its parent -/
theorem wf_pu_no_memory_kid {d : Dump} (h : WF d) {o : Obj} (ho : o ∈ d.objs) (hpu : o.type = tPU) {c : Obj} (hc : c ∈ d.objs)
    (hcp : c.parent = (o.id : Int)) (hcm : isMemory c.type = true) : False := by
  have h1 := h.obj_clause 7 rfl ho
  simp only [Bool.and_eq_true, beq_iff_eq] at h1
  have h2 := h.obj_no_children_where_forbidden ho
  simp only [Bool.and_eq_true] at h2
  have hm0 : o.marity = 0 := by
    have := h2.1.1.1.1
    simp only [hpu, beq_self_eq_true, if_true, Bool.and_eq_true, beq_iff_eq] at this
    exact this.2
  have hcount := foldM_count o.id d.objs (List.replicate d.objs.length 0) (by simp; exact h.id_lt ho)
  rw [← mkAux_projM, h1.1.1.2, hm0] at hcount
  have hmem : c ∈ d.objs.filter (isMemKid o.id) := by
    rw [List.mem_filter]
    refine ⟨hc, ?_⟩
    unfold isMemKid
    rw [hcp, hcm]
    simp
  have : 0 < (d.objs.filter (isMemKid o.id)).length := List.length_pos_of_mem hmem
  have z : getN (List.replicate d.objs.length 0) o.id = 0 := by simp [getN, h.id_lt ho]
  omega

theorem puLeafL_iff (l : List Tree) : puLeafL l = true ↔ ∀ t ∈ l, puLeafT t = true := by
  induction l with
  | nil => simp [puLeafL]
  | cons a as ih =>
    rw [puLeafL]
    simp only [Bool.and_eq_true, ih, List.mem_cons, forall_eq_or_imp]

/-! ### good subtrees -/

/-- the kind of the fourth list: whatever is not normal, memory or I/O (Misc, for types in range) -/
def kMisc (ty : Nat) : Bool := !isNormal ty && !isMemory ty && !isIO ty

structure GoodT (d : Dump) (t : Tree) : Prop where
  ok : okT t = true
  typed : typedT t = true
  puleaf : puLeafT t = true
  src : ∀ x ∈ objsT t, ∃ c ∈ d.objs, x = robjOf c
  zero : isNormal t.obj.type = false → isMemory t.obj.type = false → ∀ x ∈ objsT t, zeroSets x = true

def KidOf (d : Dump) (i : Nat) (k : Nat → Bool) (t : Tree) : Prop :=
  GoodT d t ∧ ∃ c ∈ d.objs, t.obj = robjOf c ∧ c.parent = (i : Int) ∧ k c.type = true

theorem mem_objsL (l : List Tree) (x : RObj) (h : x ∈ objsL l) : ∃ t ∈ l, x ∈ objsT t := by
  induction l with
  | nil => simp [objsL] at h
  | cons a as ih =>
    rw [objsL, List.mem_append] at h
    rcases h with h | h
    · exact ⟨a, List.mem_cons_self, h⟩
    · obtain ⟨t, ht, hx⟩ := ih h
      exact ⟨t, List.mem_cons_of_mem _ ht, hx⟩

theorem robjOf_type (o : Obj) : (robjOf o).type = o.type := rfl

theorem kMisc_isMisc {ty : Nat} (hlt : ty < 20) (h : kMisc ty = true) : isMisc ty = true := by
  unfold kMisc at h
  simp only [Bool.and_eq_true, Bool.not_eq_true'] at h
  have h1 := (isNormal_false_iff ty).1 h.1.1
  have h2 := (isMemory_false_iff ty).1 h.1.2
  have h3 := (isIO_false_iff ty).1 h.2
  rw [isMisc_iff]; omega

/-- a subtree of special kind carries no sets -/
theorem kid_zero {d : Dump} {i : Nat} {k : Nat → Bool} {t : Tree} (hk : KidOf d i k t)
    (hspec : ∀ ty, k ty = true → isNormal ty = false ∧ isMemory ty = false) : ∀ x ∈ objsT t, zeroSets x = true := by
  obtain ⟨g, c, _, hobj, _, hkc⟩ := hk
  have := hspec c.type hkc
  exact g.zero (by rw [hobj]; exact this.1) (by rw [hobj]; exact this.2)

theorem isIO_special (ty : Nat) (h : isIO ty = true) : isNormal ty = false ∧ isMemory ty = false := by
  have := (isIO_iff ty).1 h
  exact ⟨(isNormal_false_iff ty).2 (by omega), (isMemory_false_iff ty).2 (by omega)⟩

theorem kMisc_special (ty : Nat) (h : kMisc ty = true) : isNormal ty = false ∧ isMemory ty = false := by
  unfold kMisc at h
  simp only [Bool.and_eq_true, Bool.not_eq_true'] at h
  exact ⟨h.1.1, h.1.2⟩

/-- **assembling a node**: the image of a dump object over lists of good kids of its own is a good subtree -/
theorem good_node {d : Dump} (h : WF d) {o : Obj} (ho : o ∈ d.objs) (ns ms ios mis : List Tree)
    (hns : ∀ t ∈ ns, KidOf d o.id isNormal t) (hms : ∀ t ∈ ms, KidOf d o.id isMemory t)
    (hios : ∀ t ∈ ios, KidOf d o.id isIO t) (hmis : ∀ t ∈ mis, KidOf d o.id kMisc t) :
    GoodT d (.node (robjOf o) ns ms ios mis) := by
  have hpar : ∀ c : Obj, c.parent = (o.id : Int) → d.obj? c.parent = some o := fun c hc => by rw [hc]; exact h.obj?_id ho
  have hlt : o.type < 20 := h.obj_type_in_range ho
  -- kind of the parent, per list
  have pkN : ∀ t ∈ ns, o.type ≤ 13 := by
    intro t ht
    obtain ⟨_, c, hc, _, hcp, hck⟩ := hns t ht
    exact (isNormal_iff _).1 (h.normal_parent_normal hc (hpar c hcp) hck)
  have pkM : ∀ t ∈ ms, o.type ≤ 13 ∨ o.type = 15 := by
    intro t ht
    obtain ⟨_, c, hc, _, hcp, hck⟩ := hms t ht
    have h1 := h.obj_parent_kind hc
    rw [hpar c hcp] at h1
    simp only [not_normal_of_memory hck, hck, Bool.false_eq_true, if_false, if_true, Bool.or_eq_true, beq_iff_eq, tMEMCACHE] at h1
    rcases h1 with h1 | h1
    · exact Or.inl ((isNormal_iff _).1 h1)
    · exact Or.inr h1
  have pkI : ∀ t ∈ ios, o.type ≤ 13 ∨ (16 ≤ o.type ∧ o.type ≤ 18) := by
    intro t ht
    obtain ⟨_, c, hc, _, hcp, hck⟩ := hios t ht
    have h1 := h.obj_parent_kind hc
    rw [hpar c hcp] at h1
    simp only [(isIO_special _ hck).1, (isIO_special _ hck).2, hck, Bool.false_eq_true, if_false, if_true, Bool.or_eq_true] at h1
    rcases h1 with h1 | h1
    · exact Or.inl ((isNormal_iff _).1 h1)
    · exact Or.inr ((isIO_iff _).1 h1)
  have zI : ∀ x ∈ objsL ios, zeroSets x = true := by
    intro x hx
    obtain ⟨t, ht, hxt⟩ := mem_objsL ios x hx
    exact kid_zero (hios t ht) isIO_special x hxt
  have zM : ∀ x ∈ objsL mis, zeroSets x = true := by
    intro x hx
    obtain ⟨t, ht, hxt⟩ := mem_objsL mis x hx
    exact kid_zero (hmis t ht) kMisc_special x hxt
  refine ⟨?_, ?_, ?_, ?_, ?_⟩
  · -- SetsOK
    rw [okT_node]
    refine ⟨(h.set_in_complete o ho).1, (h.set_in_complete o ho).2, ?_, ?_, zI, zM⟩
    · rw [okL_iff]
      intro t ht
      obtain ⟨g, c, hc, hobj, hcp, hck⟩ := hns t ht
      have hs := h.sets_in_parent hc (hpar c hcp) (not_special_of_normal hck)
      rw [hobj]
      exact ⟨hs.2.1, hs.2.2.2, g.ok⟩
    · rw [okL_iff]
      intro t ht
      obtain ⟨g, c, hc, hobj, hcp, hck⟩ := hms t ht
      have hs := h.sets_in_parent hc (hpar c hcp) (not_special_of_memory hck)
      rw [hobj]
      exact ⟨hs.2.1, hs.2.2.2, g.ok⟩
  · -- typing
    apply typedT_mk
    · cases ns with
      | nil => exact Or.inr rfl
      | cons t ts => exact Or.inl (pkN t List.mem_cons_self)
    · cases ms with
      | nil => exact Or.inr (Or.inr rfl)
      | cons t ts =>
        rcases pkM t List.mem_cons_self with h1 | h1
        · exact Or.inl h1
        · exact Or.inr (Or.inl h1)
    · cases ios with
      | nil => exact Or.inr (Or.inr rfl)
      | cons t ts =>
        rcases pkI t List.mem_cons_self with h1 | h1
        · exact Or.inl h1
        · exact Or.inr (Or.inl h1)
    · exact hlt
    · rw [typedL_iff]
      intro t ht
      obtain ⟨g, c, _, hobj, _, hck⟩ := hns t ht
      exact ⟨by rw [hobj]; exact hck, g.typed⟩
    · rw [typedL_iff]
      intro t ht
      obtain ⟨g, c, _, hobj, _, hck⟩ := hms t ht
      exact ⟨by rw [hobj]; exact hck, g.typed⟩
    · rw [typedL_iff]
      intro t ht
      obtain ⟨g, c, _, hobj, _, hck⟩ := hios t ht
      exact ⟨by rw [hobj]; exact hck, g.typed⟩
    · rw [typedL_iff]
      intro t ht
      obtain ⟨g, c, hc, hobj, _, hck⟩ := hmis t ht
      exact ⟨by rw [hobj]; exact kMisc_isMisc (h.obj_type_in_range hc) hck, g.typed⟩
  · -- PUs are leaves
    rw [puLeafT]
    simp only [Bool.and_eq_true, Bool.or_eq_true, bne_iff_ne, ne_eq, List.isEmpty_iff, puLeafL_iff]
    refine ⟨⟨⟨⟨?_, fun t ht => (hns t ht).1.puleaf⟩, fun t ht => (hms t ht).1.puleaf⟩, fun t ht => (hios t ht).1.puleaf⟩,
      fun t ht => (hmis t ht).1.puleaf⟩
    by_cases hpu : o.type = tPU
    · right
      constructor
      · cases ns with
        | nil => rfl
        | cons t ts =>
          exfalso
          obtain ⟨_, c, hc, _, hcp, hck⟩ := hns t List.mem_cons_self
          have h0 : o.arity = 0 := h.arity_zero ho (fun hh => hh.2 hpu)
          have hl := h.kids_length ho
          rw [h0] at hl
          have hmem : c ∈ Hw.Topo.kids d o.id := by
            unfold Hw.Topo.kids
            rw [List.mem_filter]
            refine ⟨hc, ?_⟩
            unfold Hw.Topo.isKid
            rw [hcp, hck]
            simp
          have := List.length_pos_of_mem hmem
          omega
      · cases ms with
        | nil => rfl
        | cons t ts =>
          exfalso
          obtain ⟨_, c, hc, _, hcp, hck⟩ := hms t List.mem_cons_self
          exact wf_pu_no_memory_kid h ho hpu hc hcp hck
    · exact Or.inl hpu
  · -- every object is the image of a dump object
    intro x hx
    rw [objsT] at hx
    simp only [List.mem_cons, List.mem_append] at hx
    rcases hx with hx | (((hx | hx) | hx) | hx)
    · exact ⟨o, ho, hx⟩
    · obtain ⟨t, ht, hxt⟩ := mem_objsL ns x hx; exact (hns t ht).1.src x hxt
    · obtain ⟨t, ht, hxt⟩ := mem_objsL ms x hx; exact (hms t ht).1.src x hxt
    · obtain ⟨t, ht, hxt⟩ := mem_objsL ios x hx; exact (hios t ht).1.src x hxt
    · obtain ⟨t, ht, hxt⟩ := mem_objsL mis x hx; exact (hmis t ht).1.src x hxt
  · -- a special object and everything below it carries no sets
    intro hn hm
    simp only [Tree.obj, robjOf_type] at hn hm
    have hn' := (isNormal_false_iff _).1 hn
    have hm' := (isMemory_false_iff _).1 hm
    have ens : ns = [] := by
      cases ns with
      | nil => rfl
      | cons t ts => have := pkN t List.mem_cons_self; omega
    have ems : ms = [] := by
      cases ms with
      | nil => rfl
      | cons t ts => have := pkM t List.mem_cons_self; omega
    subst ens; subst ems
    intro x hx
    rw [objsT] at hx
    simp only [objsL, List.nil_append, List.mem_cons, List.mem_append] at hx
    rcases hx with hx | hx | hx
    · subst hx
      have ha := h.sets_absent ho hn hm
      simp only [zeroSets, robjOf, ha.1, ha.2.1, ha.2.2.1, ha.2.2.2, Option.getD_none, beq_self_eq_true, Bool.and_self]
    · exact zI x hx
    · exact zM x hx

/-! ### the invariant of the fold -/

structure Inv (d : Dump) (st : Array Kids × Option Tree) : Prop where
  size : st.1.size = d.objs.length
  ns : ∀ i, ∀ t ∈ (st.1[i]!).ns, KidOf d i isNormal t
  ms : ∀ i, ∀ t ∈ (st.1[i]!).ms, KidOf d i isMemory t
  ios : ∀ i, ∀ t ∈ (st.1[i]!).ios, KidOf d i isIO t
  mis : ∀ i, ∀ t ∈ (st.1[i]!).mis, KidOf d i kMisc t
  root : ∀ t, st.2 = some t → GoodT d t ∧ t.obj.type = tMACHINE

theorem inv_init (d : Dump) : Inv d (Array.replicate d.objs.length {}, none) := by
  refine ⟨by simp, ?_, ?_, ?_, ?_, fun t ht => by cases ht⟩ <;>
  · intro i t ht
    simp only [kids_get_init] at ht
    cases ht

set_option linter.unusedSimpArgs false in
theorem inv_step {d : Dump} (h : WF d) {o : Obj} (ho : o ∈ d.objs) {st st' : Array Kids × Option Tree} (hi : Inv d st)
    (hs : treeStep d.objs.length o (.ok st) = .ok st') : Inv d st' := by
  obtain ⟨arr, root⟩ := st
  simp only [treeStep] at hs
  have hg : GoodT d (.node (robjOf o) (arr[o.id]!).ns (arr[o.id]!).ms (arr[o.id]!).ios (arr[o.id]!).mis) :=
    good_node h ho _ _ _ _ (hi.ns o.id) (hi.ms o.id) (hi.ios o.id) (hi.mis o.id)
  split at hs
  · cases hs
  · rename_i hid
    split at hs
    · split at hs
      · -- the root
        rename_i h0
        cases hs
        refine ⟨hi.size, hi.ns, hi.ms, hi.ios, hi.mis, ?_⟩
        intro t ht
        cases ht
        refine ⟨hg, ?_⟩
        have h0' : o.id = 0 := by simpa using h0
        have hr := h.top_root_is_machine
        have hoo := h.obj?_id ho
        rw [h0'] at hoo
        unfold Dump.obj? at hoo
        simp only [Int.natCast_zero, Int.lt_irrefl, if_false, Int.toNat_zero] at hoo
        rw [hoo] at hr
        simp only [Bool.and_eq_true, beq_iff_eq] at hr
        exact hr.2.1.1
      · cases hs
    · rename_i hpar
      split at hs
      · cases hs
      · rename_i hlt
        cases hs
        have hp : o.parent.toNat < arr.size := by have := hi.size; simp only at this; omega
        have hpi : o.parent = (o.parent.toNat : Int) := by omega
        have hkid : ∀ k : Nat → Bool, k o.type = true → KidOf d o.parent.toNat k
            (.node (robjOf o) (arr[o.id]!).ns (arr[o.id]!).ms (arr[o.id]!).ios (arr[o.id]!).mis) :=
          fun k hk => ⟨hg, o, ho, rfl, hpi, hk⟩
        have hsz : (arr.set! o.parent.toNat (kidsAdd arr[o.parent.toNat]! o.type
            (.node (robjOf o) (arr[o.id]!).ns (arr[o.id]!).ms (arr[o.id]!).ios (arr[o.id]!).mis))).size = d.objs.length := by
          simp only [Array.set!_eq_setIfInBounds, Array.size_setIfInBounds]; exact hi.size
        refine ⟨hsz, ?_, ?_, ?_, ?_, hi.root⟩
        all_goals
          intro i t ht
          by_cases hip : i = o.parent.toNat
          · subst hip
            simp only [kids_get_set_eq _ _ _ hp] at ht
            unfold kidsAdd at ht
            cases c1 : isNormal o.type with
            | true =>
              simp only [c1, if_true, Bool.false_eq_true, if_false, List.mem_cons] at ht
              first
                | (rcases ht with ht | ht
                   · subst ht; exact hkid _ c1
                   · first | exact hi.ns _ t ht | exact hi.ms _ t ht | exact hi.ios _ t ht | exact hi.mis _ t ht)
                | (first | exact hi.ns _ t ht | exact hi.ms _ t ht | exact hi.ios _ t ht | exact hi.mis _ t ht)
            | false =>
              cases c2 : isMemory o.type with
              | true =>
                simp only [c1, c2, if_true, Bool.false_eq_true, if_false, List.mem_cons] at ht
                first
                  | (rcases ht with ht | ht
                     · subst ht; exact hkid _ c2
                     · first | exact hi.ns _ t ht | exact hi.ms _ t ht | exact hi.ios _ t ht | exact hi.mis _ t ht)
                  | (first | exact hi.ns _ t ht | exact hi.ms _ t ht | exact hi.ios _ t ht | exact hi.mis _ t ht)
              | false =>
                cases c3 : isIO o.type with
                | true =>
                  simp only [c1, c2, c3, if_true, Bool.false_eq_true, if_false, List.mem_cons] at ht
                  first
                    | (rcases ht with ht | ht
                       · subst ht; exact hkid _ c3
                       · first | exact hi.ns _ t ht | exact hi.ms _ t ht | exact hi.ios _ t ht | exact hi.mis _ t ht)
                    | (first | exact hi.ns _ t ht | exact hi.ms _ t ht | exact hi.ios _ t ht | exact hi.mis _ t ht)
                | false =>
                  have c4 : kMisc o.type = true := by unfold kMisc; rw [c1, c2, c3]; rfl
                  simp only [c1, c2, c3, if_true, Bool.false_eq_true, if_false, List.mem_cons] at ht
                  first
                    | (rcases ht with ht | ht
                       · subst ht; exact hkid _ c4
                       · first | exact hi.ns _ t ht | exact hi.ms _ t ht | exact hi.ios _ t ht | exact hi.mis _ t ht)
                    | (first | exact hi.ns _ t ht | exact hi.ms _ t ht | exact hi.ios _ t ht | exact hi.mis _ t ht)
          · simp only [kids_get_set_ne _ _ _ _ hip] at ht
            first | exact hi.ns _ t ht | exact hi.ms _ t ht | exact hi.ios _ t ht | exact hi.mis _ t ht

theorem inv_foldr {d : Dump} (h : WF d) : ∀ (l : List Obj), (∀ o ∈ l, o ∈ d.objs) → ∀ st,
    l.foldr (treeStep d.objs.length) (.ok (Array.replicate d.objs.length {}, none)) = .ok st → Inv d st := by
  intro l
  induction l with
  | nil => intro _ st hst; cases hst; exact inv_init d
  | cons o l ih =>
    intro hl st hst
    rw [List.foldr_cons] at hst
    cases hin : l.foldr (treeStep d.objs.length) (.ok (Array.replicate d.objs.length {}, none)) with
    | error e => rw [hin] at hst; simp [treeStep] at hst
    | ok st0 =>
      rw [hin] at hst
      exact inv_step h (hl o List.mem_cons_self) (ih (fun x hx => hl x (List.mem_cons_of_mem _ hx)) st0 hin) hst

/-! ### the rebuilt tree lists every dump object exactly once (hence distinct gp_index over the tree) -/

def kidsObjs (k : Kids) : List RObj := objsL k.ns ++ objsL k.ms ++ objsL k.ios ++ objsL k.mis
def rootObjs : Option Tree → List RObj
  | none => []
  | some t => objsT t
/-- the objects held by the work state when the objects at positions `≥ k` have been processed: the slots `< k` (the slots of
    processed objects have been consumed into their subtrees) and the root -/
def pending (k : Nat) (st : Array Kids × Option Tree) : List RObj :=
  (List.range k).flatMap (fun i => kidsObjs st.1[i]!) ++ rootObjs st.2

theorem objsT_mk (o : RObj) (K : Kids) : objsT (.node o K.ns K.ms K.ios K.mis) = o :: kidsObjs K := by rw [objsT]; rfl

theorem perm_swap {α : Type} (A T R : List α) : (A ++ (T ++ R)).Perm (T ++ (A ++ R)) := by
  rw [← List.append_assoc, ← List.append_assoc]
  exact List.Perm.append_right _ List.perm_append_comm

theorem kidsObjs_add (K : Kids) (ty : Nat) (t : Tree) : (kidsObjs (kidsAdd K ty t)).Perm (objsT t ++ kidsObjs K) := by
  unfold kidsAdd kidsObjs
  split
  · simp only [objsL, List.append_assoc]; exact .refl _
  · split
    · simp only [objsL, List.append_assoc]; exact perm_swap _ _ _
    · split
      · simp only [objsL, List.append_assoc]
        exact (List.Perm.append_left _ (perm_swap _ _ _)).trans (perm_swap _ _ _)
      · simp only [objsL, List.append_assoc]
        exact (List.Perm.append_left _ ((List.Perm.append_left _ (perm_swap _ _ _)).trans (perm_swap _ _ _))).trans (perm_swap _ _ _)

theorem flatMap_update {f g : Nat → List RObj} {extra : List RObj} (p : Nat) (hg : ∀ i, i ≠ p → g i = f i)
    (hp : (g p).Perm (extra ++ f p)) :
    ∀ k, (k ≤ p → (List.range k).flatMap g = (List.range k).flatMap f) ∧
         (p < k → ((List.range k).flatMap g).Perm (extra ++ (List.range k).flatMap f)) := by
  intro k
  induction k with
  | zero => exact ⟨fun _ => rfl, fun h => by omega⟩
  | succ k ih =>
    rw [List.range_succ, List.flatMap_append, List.flatMap_append]
    simp only [List.flatMap_cons, List.flatMap_nil, List.append_nil]
    constructor
    · intro h
      rw [ih.1 (by omega), hg k (by omega)]
    · intro h
      by_cases e : k = p
      · subst e
        rw [ih.1 (Nat.le_refl _)]
        exact (List.Perm.append_left _ hp).trans (perm_swap _ _ _)
      · rw [hg k e, ← List.append_assoc]
        exact List.Perm.append_right _ (ih.2 (by omega))

theorem pending_step {d : Dump} (h : WF d) (k : Nat) (o : Obj) (hk : d.objs[k]? = some o) {st st' : Array Kids × Option Tree}
    (hsz : st.1.size = d.objs.length) (hroot : st.2 = none) (hs : treeStep d.objs.length o (.ok st) = .ok st') :
    (pending k st').Perm (robjOf o :: pending (k + 1) st) ∧ (1 ≤ k → st'.2 = none) := by
  have hid : o.id = k := h.id_eq_pos hk
  obtain ⟨arr, root⟩ := st
  simp only [treeStep] at hs
  have hpk : pending (k + 1) (arr, root) = (List.range k).flatMap (fun i => kidsObjs arr[i]!) ++ (kidsObjs arr[k]! ++ rootObjs root) := by
    unfold pending
    rw [List.range_succ, List.flatMap_append]
    simp only [List.flatMap_cons, List.flatMap_nil, List.append_nil, List.append_assoc]
  split at hs
  · cases hs
  · split at hs
    · split at hs
      · rename_i h0
        cases hs
        have h0' : o.id = 0 := by simpa using h0
        have hk0 : k = 0 := by omega
        subst hk0
        rw [hpk, hid]
        unfold pending rootObjs
        simp only at hroot
        subst hroot
        refine ⟨?_, fun h => by omega⟩
        simp only [List.range_zero, List.flatMap_nil, List.nil_append, List.append_nil, objsT_mk]
        exact .refl _
      · cases hs
    · split at hs
      · cases hs
      · rename_i hpar hlt
        cases hs
        rw [hpk, hid]
        unfold pending
        simp only []
        have hp : o.parent.toNat < k := by omega
        have hpsz : o.parent.toNat < arr.size := by simp only at hsz; have := (List.getElem?_eq_some_iff.1 hk).1; omega
        have hup := (flatMap_update (f := fun i => kidsObjs arr[i]!)
          (g := fun i => kidsObjs (arr.set! o.parent.toNat (kidsAdd arr[o.parent.toNat]! o.type
            (.node (robjOf o) (arr[k]!).ns (arr[k]!).ms (arr[k]!).ios (arr[k]!).mis)))[i]!)
          (extra := objsT (.node (robjOf o) (arr[k]!).ns (arr[k]!).ms (arr[k]!).ios (arr[k]!).mis)) o.parent.toNat
          (fun i hi => by simp only [kids_get_set_ne _ _ _ _ hi])
          (by simp only [kids_get_set_eq _ _ _ hpsz]; exact kidsObjs_add _ _ _) k).2 hp
        refine ⟨?_, fun _ => hroot⟩
        refine (List.Perm.append_right _ hup).trans ?_
        rw [objsT_mk]
        simp only [List.cons_append, List.append_assoc]
        exact List.Perm.cons _ (perm_swap _ _ _)

theorem pending_init (n k : Nat) : pending k (Array.replicate n ({} : Kids), none) = [] := by
  unfold pending rootObjs
  simp only [List.append_nil, List.flatMap_eq_nil_iff]
  intro i _
  rw [kids_get_init]
  rfl

theorem pending_foldr {d : Dump} (h : WF d) : ∀ (j k : Nat), k + j = d.objs.length → ∀ st,
    (d.objs.drop k).foldr (treeStep d.objs.length) (.ok (Array.replicate d.objs.length {}, none)) = .ok st →
    (pending k st).Perm ((d.objs.drop k).map robjOf) ∧ (1 ≤ k → st.2 = none) := by
  intro j
  induction j with
  | zero =>
    intro k hk st hst
    have : d.objs.drop k = [] := List.drop_eq_nil_of_le (by omega)
    rw [this] at hst ⊢
    cases hst
    rw [pending_init]
    exact ⟨.refl _, fun _ => rfl⟩
  | succ j ih =>
    intro k hk st hst
    have hlt : k < d.objs.length := by omega
    have hdrop : d.objs.drop k = d.objs[k] :: d.objs.drop (k + 1) := List.drop_eq_getElem_cons hlt
    rw [hdrop] at hst ⊢
    rw [List.foldr_cons] at hst
    cases hin : (d.objs.drop (k + 1)).foldr (treeStep d.objs.length) (.ok (Array.replicate d.objs.length {}, none)) with
    | error e => rw [hin] at hst; simp [treeStep] at hst
    | ok st0 =>
      rw [hin] at hst
      have h0 := ih (k + 1) (by omega) st0 hin
      have hinv := inv_foldr h (d.objs.drop (k + 1)) (fun o ho => List.mem_of_mem_drop ho) st0 hin
      have hstep := pending_step h k d.objs[k] (List.getElem?_eq_getElem hlt) hinv.size (h0.2 (by omega)) hst
      refine ⟨?_, hstep.2⟩
      rw [List.map_cons]
      exact hstep.1.trans (List.Perm.cons _ h0.1)

/-- **the rebuilt tree lists every object of the dump exactly once** -/
theorem treeOf_perm {d : Dump} (h : WF d) (t : Tree) (ht : treeOf d = .ok t) : (objsT t).Perm (d.objs.map robjOf) := by
  rw [treeOf_eq] at ht
  cases hin : d.objs.foldr (treeStep d.objs.length) (.ok (Array.replicate d.objs.length {}, none)) with
  | error e => rw [hin] at ht; cases ht
  | ok st =>
    obtain ⟨arr, root⟩ := st
    rw [hin] at ht
    cases root with
    | none => cases ht
    | some r =>
      simp only [Except.ok.injEq] at ht
      subst ht
      have := (pending_foldr h d.objs.length 0 (by omega) (arr, some r) (by rw [List.drop_zero]; exact hin)).1
      rw [List.drop_zero] at this
      simpa [pending, rootObjs] using this

/-- … hence gp_index is distinct over the tree (C01 clause gp-index-unique) -/
theorem treeOf_gp_nodup {d : Dump} (h : WF d) (t : Tree) (ht : treeOf d = .ok t) : ((objsT t).map (·.gp)).Nodup := by
  have hp := (treeOf_perm h t ht).map (·.gp)
  rw [hp.nodup_iff, List.map_map]
  exact h.gp_injective

/-- … and holds at most one Machine object (C01 clause machine-only-at-root) -/
theorem treeOf_machineOnce {d : Dump} (h : WF d) (t : Tree) (ht : treeOf d = .ok t) : machineOnce t := by
  unfold machineOnce
  rw [cnt_perm _ _ (treeOf_perm h t ht)]
  unfold cnt
  rw [List.map_map]
  cases hd : d.objs with
  | nil => simp
  | cons r rest =>
    rw [List.map_cons, List.count_cons]
    have hz : (rest.map ((fun x => x.type) ∘ robjOf)).count tMACHINE = 0 := by
      rw [List.count_eq_zero]
      intro hmem
      obtain ⟨o, ho, e⟩ := List.mem_map.1 hmem
      obtain ⟨j, hj⟩ := List.mem_iff_getElem?.1 ho
      have hpos : d.objs[j + 1]? = some o := by rw [hd, List.getElem?_cons_succ]; exact hj
      have hid := h.id_eq_pos hpos
      have hmem' : o ∈ d.objs := List.mem_of_getElem? hpos
      have := h.machine_is_root o hmem' e
      omega
    rw [hz]
    split <;> omega

theorem machineOnce_restrict (t : Topo) (s : CSet) (flags : Nat) (h : machineOnce t.tree) : machineOnce (restrict t s flags).1.tree :=
  Nat.le_trans (cnt_restrict (fun x => x.type) tMACHINE t s flags (fun p o => type_shrinkG p o) (fun _ _ => rfl)) h

/-- … and every object of the tree carries sets iff it is neither I/O nor Misc (C01 clause sets-presence) -/
theorem treeOf_setsPres {d : Dump} (h : WF d) (t : Tree) (ht : treeOf d = .ok t) : setsPresT t = true := by
  unfold setsPresT
  rw [List.all_eq_true]
  intro x hx
  obtain ⟨c, hc, rfl⟩ := List.mem_map.1 ((treeOf_perm h t ht).mem_iff.1 hx)
  have h1 := h.obj_sets_presence hc
  show (c.cpuset.isSome == !isSpecial c.type) = true
  cases hs : isSpecial c.type
  · rw [hs] at h1
    simp only [Bool.false_eq_true, if_false, Bool.and_eq_true] at h1
    rw [h1.1.1.1]; rfl
  · rw [hs] at h1
    simp only [if_true, Bool.and_eq_true, Option.isNone_iff_eq_none] at h1
    rw [h1.1.1.1]; rfl

theorem robjOf_osBit (c : Obj) : osBit (robjOf c) = single c.osidx.toNat := rfl

/-- **WF ⇒ SetsOK, typing, Machine root, PUs are leaves, PU / NUMA singletons**: the hypotheses of the restrict and render
    theorems hold for the tree of every well-formed topology -/
theorem wf_treeOf_full {d : Dump} (h : WF d) (t : Tree) (ht : treeOf d = .ok t) :
    okT t = true ∧ typedT t = true ∧ t.obj.type = tMACHINE ∧ isNormal t.obj.type = true ∧ puLeafT t = true ∧
    puSetsT t = true ∧ numaSetsT t = true := by
  rw [treeOf_eq] at ht
  cases hin : d.objs.foldr (treeStep d.objs.length) (.ok (Array.replicate d.objs.length {}, none)) with
  | error e => rw [hin] at ht; cases ht
  | ok st =>
    obtain ⟨arr, root⟩ := st
    rw [hin] at ht
    cases root with
    | none => cases ht
    | some r =>
      simp only [Except.ok.injEq] at ht
      subst ht
      have := (inv_foldr h d.objs (fun _ ho => ho) _ hin).root r rfl
      refine ⟨this.1.ok, this.1.typed, this.2, by rw [this.2]; decide, this.1.puleaf, ?_, ?_⟩
      · rw [puSetsT_iff]
        intro x hx hxt
        obtain ⟨c, hc, rfl⟩ := this.1.src x hx
        have := h.pu_cpuset c hc hxt
        rw [robjOf_osBit]
        exact ⟨by show c.cpuset.getD 0 = _; rw [this.2.1]; rfl, by show c.ccpuset.getD 0 = _; rw [this.2.2]; rfl⟩
      · rw [numaSetsT_iff]
        intro x hx hxt
        obtain ⟨c, hc, rfl⟩ := this.1.src x hx
        have := h.numa_nodeset c hc hxt
        rw [robjOf_osBit]
        exact ⟨by show c.nodeset.getD 0 = _; rw [this.2.1]; rfl, by show c.cnodeset.getD 0 = _; rw [this.2.2]; rfl⟩

theorem wf_treeOf {d : Dump} (h : WF d) (t : Tree) (ht : treeOf d = .ok t) :
    okT t = true ∧ typedT t = true ∧ t.obj.type = tMACHINE ∧ isNormal t.obj.type = true :=
  ⟨(wf_treeOf_full h t ht).1, (wf_treeOf_full h t ht).2.1, (wf_treeOf_full h t ht).2.2.1, (wf_treeOf_full h t ht).2.2.2.1⟩

end Hw.Topo.Restrict
