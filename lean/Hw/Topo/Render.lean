/-
  Hw.Topo.Render — what hwloc_connect_children + hwloc_connect_levels + hwloc_connect_special_levels compute for ANY
  four-list tree: the complete link / level content of a topology dump (harness/dump.h).

    * ids in DFS order exactly as dump.h numbers them (the object, then its normal, memory, I/O, Misc children lists)
    * parent, sibling_rank, arity / memory_arity / io_arity / misc_arity, children[], first_child / last_child,
      next_sibling / prev_sibling, memory_first_child / io_first_child / misc_first_child   (hwloc_connect_children)
    * depth, logical_index, next_cousin / prev_cousin, the normal levels (connectLevels) and type depths (hwloc_connect_levels)
    * the six special levels in the order of hwloc_list_special_objects, which is the DFS order (hwloc_connect_special_levels)

  Everything that is not a link (sets, type, os_index, gp_index) comes from the tree objects; what restrict never touches
  (attributes, names, infos) or what other code recomputes (symmetric_subtree, total_memory) is carried by `Extra`.
-/
import Hw.Topo.Restrict
namespace Hw.Topo.Restrict
open Hw.Topo

/-! ### sizes and occurrences -/

mutual
def sizeT : Tree → Nat
  | .node _ ns ms ios mis => 1 + (sizeL ns + sizeL ms + sizeL ios + sizeL mis)
def sizeL : List Tree → Nat
  | [] => 0
  | t :: ts => sizeT t + sizeL ts
end

/-- one object of the tree with everything hwloc_connect_children derives from its position -/
structure Occ where
  id : Nat
  parent : Int
  rank : Nat
  prev : Int
  next : Int
  t : Tree
deriving Inhabited

mutual
/-- occurrences in DFS order; `s` = id of the subtree root, `par rk pv nx` = its parent id, sibling rank, prev / next sibling -/
def occsT (s : Nat) (par : Int) (rk : Nat) (pv nx : Int) : Tree → List Occ
  | .node o ns ms ios mis =>
    ⟨s, par, rk, pv, nx, .node o ns ms ios mis⟩ ::
      (occsL (s + 1) s 0 (-1) ns ++ occsL (s + 1 + sizeL ns) s 0 (-1) ms ++
       occsL (s + 1 + sizeL ns + sizeL ms) s 0 (-1) ios ++ occsL (s + 1 + sizeL ns + sizeL ms + sizeL ios) s 0 (-1) mis)
/-- the siblings of one children list, starting at id `s`, rank `rk`, previous sibling `pv` -/
def occsL (s : Nat) (par : Int) (rk : Nat) (pv : Int) : List Tree → List Occ
  | [] => []
  | t :: ts =>
    occsT s par rk pv (if ts.isEmpty then -1 else ((s + sizeT t : Nat) : Int)) t ++ occsL (s + sizeT t) par (rk + 1) s ts
end

def occs (t : Tree) : List Occ := occsT 0 (-1) 0 (-1) (-1) t

/-- the ids of the siblings of a children list that starts at id `s` -/
def startsL (s : Nat) : List Tree → List Int
  | [] => []
  | t :: ts => (s : Int) :: startsL (s + sizeT t) ts

/-! ### levels -/

mutual
/-- the tree with gp replaced by the DFS id, so that connectLevels (which never reads gp) yields levels of ids -/
def relabelT (s : Nat) : Tree → Tree
  | .node o ns ms ios mis =>
    .node { o with gp := s } (relabelL (s + 1) ns) (relabelL (s + 1 + sizeL ns) ms)
      (relabelL (s + 1 + sizeL ns + sizeL ms) ios) (relabelL (s + 1 + sizeL ns + sizeL ms + sizeL ios) mis)
def relabelL (s : Nat) : List Tree → List Tree
  | [] => []
  | t :: ts => relabelT s t :: relabelL (s + sizeT t) ts
end

/-- normal levels as (type, ids), root level first -/
def normalLevels (t : Tree) : List (Nat × List Nat) :=
  (connectLevels (relabelT 0 t)).map (fun l => (((l.head?).map (·.type)).getD 0, l.map (·.gp)))

/-- the special levels in the order dump.h prints them: NUMANODE, BRIDGE, PCI_DEVICE, OS_DEVICE, MISC, MEMCACHE -/
def specialTypes : List Nat := [tNUMA, tBRIDGE, tPCI, tOSDEV, tMISC, tMEMCACHE]

def specialLevel (os : List Occ) (ty : Nat) : List Nat := (os.filter (fun oc => oc.t.obj.type == ty)).map (·.id)

def renderLevels (t : Tree) : List Level :=
  let nl := normalLevels t
  let os := occs t
  ((List.range nl.length).zip nl).map (fun (k, l) => (⟨(k : Int), (l.1 : Int), l.2.map (fun (i : Nat) => (i : Int))⟩ : Level)) ++
  specialTypes.map (fun ty => (⟨(specialDepth ty).getD 0, (ty : Int), (specialLevel os ty).map (fun (i : Nat) => (i : Int))⟩ : Level))

/-- depth and level members of an object -/
def placeOf (nl : List (Nat × List Nat)) (os : List Occ) (id ty : Nat) : Int × List Nat :=
  match specialDepth ty with
  | some sd => (sd, specialLevel os ty)
  | none =>
    match ((List.range nl.length).zip nl).find? (fun (_, l) => l.2.contains id) with
    | some (k, l) => ((k : Int), l.2)
    | none => (-1, [])

def typeDepthOf (nl : List (Nat × List Nat)) (ty : Nat) : Int :=
  match specialDepth ty with
  | some sd => sd
  | none =>
    match ((List.range nl.length).zip nl).filter (fun (_, l) => l.1 == ty) with
    | [] => -1
    | [(k, _)] => (k : Int)
    | _ => -2

/-! ### objects -/

/-- fields that are not links and that restrict does not define -/
structure Extra where
  symm : Int := 0
  totalMem : Nat := 0
  attrs : List Int := []
  subtype : Option String := none
  name : Option String := none
  infos : List (String × String) := []
deriving Inhabited

def optSet (o : RObj) (s : Nat) : Option Nat := if o.hasSets then some s else none

def idxOf (l : List Nat) (x : Nat) : Nat := (l.findIdx? (· == x)).getD 0

def renderObj (nl : List (Nat × List Nat)) (os : List Occ) (ex : RObj → Extra) (oc : Occ) : Obj :=
  match oc.t with
  | .node o ns ms ios mis =>
    let s := oc.id
    let place := placeOf nl os s o.type
    let lidx := idxOf place.2 s
    let e := ex o
    let kids := startsL (s + 1) ns
    { id := s, type := o.type, depth := place.1, lidx := lidx, osidx := o.osidx, gp := o.gp, parent := oc.parent, rank := oc.rank,
      arity := ns.length, marity := ms.length, ioarity := ios.length, miscarity := mis.length,
      nextSib := oc.next, prevSib := oc.prev,
      nextCousin := ((place.2[lidx + 1]?).map (fun (i : Nat) => (i : Int))).getD (-1),
      prevCousin := if lidx = 0 then -1 else ((place.2[lidx - 1]?).map (fun (i : Nat) => (i : Int))).getD (-2),
      firstChild := (kids.head?).getD (-1), lastChild := (kids.getLast?).getD (-1),
      memFirst := if ms.isEmpty then -1 else ((s + 1 + sizeL ns : Nat) : Int),
      ioFirst := if ios.isEmpty then -1 else ((s + 1 + sizeL ns + sizeL ms : Nat) : Int),
      miscFirst := if mis.isEmpty then -1 else ((s + 1 + sizeL ns + sizeL ms + sizeL ios : Nat) : Int),
      symm := e.symm,
      cpuset := optSet o o.cpuset, ccpuset := optSet o o.ccpuset, nodeset := optSet o o.nodeset, cnodeset := optSet o o.cnodeset,
      totalMem := e.totalMem, attrs := e.attrs, children := kids, subtype := e.subtype, name := e.name, infos := e.infos }

/-- the topology header that restrict does not derive from the tree -/
structure Hdr where
  flags : Nat
  filters : List Nat
  allowedCpu : Option Nat
  allowedNode : Option Nat

/-- **render**: the dump of the topology whose object tree is `t` -/
def render (t : Tree) (h : Hdr) (ex : RObj → Extra) : Dump :=
  let nl := normalLevels t
  let os := occs t
  { flags := h.flags, depth := nl.length, root := 0, nobjs := os.length, allowedCpuset := h.allowedCpu, allowedNodeset := h.allowedNode,
    filters := h.filters, objs := os.map (renderObj nl os ex), levels := renderLevels t,
    typeDepths := (List.range tMAX).map (typeDepthOf nl) }

/-! ### tree typing (hypothesis of the link theorems, evaluated by the driver on every tree) -/

mutual
/-- which objects may carry which children (hwloc's object-kind discipline): normal children only below normal objects,
    memory children below normal objects or memory-side caches, I/O children below normal or I/O objects (Misc children
    anywhere); each list holds objects of its own kind.  Preserved by the whole restrict model (`typed_restrict`). -/
def typedT : Tree → Bool
  | .node o ns ms ios mis =>
    (isNormal o.type || ns.isEmpty) && (isNormal o.type || o.type == tMEMCACHE || ms.isEmpty) &&
    (isNormal o.type || isIO o.type || ios.isEmpty) && decide (o.type < tMAX) &&
    typedL isNormal ns && typedL isMemory ms && typedL isIO ios && typedL isMisc mis
def typedL (k : Nat → Bool) : List Tree → Bool
  | [] => true
  | t :: ts => k t.obj.type && typedT t && typedL k ts
end

mutual
/-- PUs have no normal and no memory children (used only for the PU part of no-children-where-forbidden; level merging
    preserves it because hwloc_compare_levels_structure refuses to merge a level with memory children into the PU level) -/
def puLeafT : Tree → Bool
  | .node o ns ms ios mis =>
    (o.type != tPU || (ns.isEmpty && ms.isEmpty)) && puLeafL ns && puLeafL ms && puLeafL ios && puLeafL mis
def puLeafL : List Tree → Bool
  | [] => true
  | t :: ts => puLeafT t && puLeafL ts
end

end Hw.Topo.Restrict
