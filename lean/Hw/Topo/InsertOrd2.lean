/-
  Hw.Topo.InsertOrd2 — an insertion (or merge) keeps the children lists ordered.

  On a laminar, ordered tree without offline / disallowed bits, inserting an object whose complete cpuset equals its cpuset
  yields an ordered tree again: the new object lands between the siblings that start below it and those that start above it,
  the children it adopts keep their order, and so on recursively.
-/
import Hw.Topo.InsertOrder
namespace Hw.Topo.Ins

theorem Ord.congr_ckey {o o' : IObj} {kids : List T} (h : Ord (.node o kids)) : Ord (.node o' kids) :=
  .mk h.pw h.keq h.kids

/-- a kept child at or after the remembered position starts above OBJ -/
theorem firstLt_key_of {k0 : Nat} {x : T} (hf : firstLt k0 x.o.key = true) (hx : x.o.key = x.o.ckey) (c0 : Nat) (hc : c0 = k0) :
    firstLt c0 x.o.ckey = true := by rw [hc, ← hx]; exact hf

/-- a kept child before the remembered position starts below OBJ -/
theorem lt_obj_of_before {k0 : Nat} {a : T} (hk0 : k0 ≠ 0) (hf : firstLt k0 a.o.key = false) (hd : dj k0 a.o.key)
    (ha : a.o.key = a.o.ckey) : firstLt a.o.ckey k0 = true := by
  unfold firstLt at hf
  simp only [Bool.and_eq_false_iff, bne_eq_false_iff_eq, Bool.or_eq_false_iff, beq_eq_false_iff_ne, ne_eq,
    decide_eq_false_iff_not, Nat.not_lt] at hf
  rcases hf with hf | hf
  · exact absurd hf hk0
  · have h2 := tz_ne_of_dj hd hk0 hf.1
    unfold firstLt
    rw [← ha]
    simp only [Bool.and_eq_true, bne_iff_ne, ne_eq, Bool.or_eq_true, beq_iff_eq, decide_eq_true_eq]
    exact ⟨hf.1, Or.inr (by omega)⟩

def GoodO (orig : T) : Res → Prop
  | .stuck => True
  | .inserted t' => Ord t' ∧ t'.o.ckey = orig.o.ckey ∧ t'.o.key = orig.o.key
  | .merged t' _ => Ord t' ∧ t'.o.ckey = orig.o.ckey ∧ t'.o.key = orig.o.key
  | .failed _ => True

theorem GoodO.wrap {co : IObj} {before rest : List T} {c : T} {r : Res}
    (h : GoodO c r) (hO : Ord (.node co (before ++ c :: rest))) :
    GoodO (.node co (before ++ c :: rest)) (r.wrap co before rest) := by
  have key : ∀ c' : T, Ord c' → c'.o.ckey = c.o.ckey → c'.o.key = c.o.key → Ord (.node co (before ++ c' :: rest)) := by
    intro c' ho' hck hk
    have hlt1 : ∀ x : T, lt c x → lt c' x := by intro x hx; show firstLt c'.o.ckey x.o.ckey = true; rw [hck]; exact hx
    have hlt2 : ∀ x : T, lt x c → lt x c' := by intro x hx; show firstLt x.o.ckey c'.o.ckey = true; rw [hck]; exact hx
    refine .mk ?_ ?_ ?_
    · have hp := List.pairwise_append.mp hO.pw
      have hc := List.pairwise_cons.mp hp.2.1
      refine List.pairwise_append.mpr ⟨hp.1, List.pairwise_cons.mpr ⟨fun b hb => hlt1 b (hc.1 b hb), hc.2⟩, ?_⟩
      intro a ha b hb
      rcases List.mem_cons.mp hb with rfl | hb
      · exact hlt2 a (hp.2.2 a ha c (by simp))
      · exact hp.2.2 a ha b (by simp [hb])
    · intro x hx
      rcases List.mem_append.mp hx with hx | hx
      · exact hO.keq x (List.mem_append_left _ hx)
      · rcases List.mem_cons.mp hx with rfl | hx
        · rw [hk, hck]; exact hO.keq c (by simp)
        · exact hO.keq x (by simp [hx])
    · intro x hx
      rcases List.mem_append.mp hx with hx | hx
      · exact hO.kids x (List.mem_append_left _ hx)
      · rcases List.mem_cons.mp hx with rfl | hx
        · exact ho'
        · exact hO.kids x (by simp [hx])
  cases r with
  | stuck => trivial
  | failed c' => trivial
  | inserted c' => exact ⟨key c' h.1 h.2.1 h.2.2, rfl, rfl⟩
  | merged c' m => exact ⟨key c' h.1 h.2.1 h.2.2, rfl, rfl⟩


theorem tryMerge_ckey {old new o' : IObj} (h : tryMerge old new = some o') : o'.ckey = old.ckey := by
  unfold tryMerge at h
  have hr : (replaceBy old new).ckey = old.ckey := by simp [replaceBy]
  repeat' split at h
  all_goals (cases h <;> first | exact hr | rfl)

theorem decide1_merge_ckey {obj ko o' : IObj} (h : decide1 obj ko = .merge o') : o'.ckey = ko.ckey := by
  unfold decide1 at h
  split at h
  · split at h
    · rename_i hm
      injection h with h; subst h
      exact tryMerge_ckey hm
    · split at h <;> try cases h
      rfl
  all_goals cases h

theorem pairwise_insert_mid {l : List T} (hl : l.Pairwise lt) {x : T} (i : Nat)
    (h1 : ∀ a ∈ l.take i, lt a x) (h2 : ∀ b ∈ l.drop i, lt x b) : (l.take i ++ x :: l.drop i).Pairwise lt := by
  have hsplit : (l.take i ++ l.drop i).Pairwise lt := by rw [List.take_append_drop]; exact hl
  have h3 := List.pairwise_append.mp hsplit
  refine List.pairwise_append.mpr ⟨h3.1, List.pairwise_cons.mpr ⟨h2, h3.2.1⟩, ?_⟩
  intro a ha b hb
  rcases List.mem_cons.mp hb with rfl | hb
  · exact h1 a ha
  · exact h3.2.2 a ha b hb

theorem insLoop_ord (N : Nat)
    (IH : ∀ c : T, size c < N → ∀ obj : IObj, Lam c → Ord c → sub obj.key c.o.key → obj.key = obj.ckey → obj.key ≠ 0 →
      GoodO c (ins obj c))
    (co : IObj) (kids : List T) (k0 : Nat) (hk0 : k0 ≠ 0) :
    ∀ (rest before taken : List T) (putp : Option Nat) (obj : IObj), obj.key = k0 → obj.ckey = k0 →
      (kids = before ++ rest ∨ taken ≠ []) →
      (∀ c ∈ before, dj k0 c.o.key) →
      (before ++ rest).Pairwise lt → taken.Pairwise lt → (∀ t ∈ taken, ∀ x ∈ rest, lt t x) →
      (∀ a ∈ before.take (putp.getD before.length), firstLt k0 a.o.key = false) →
      (∀ i, putp = some i → i < before.length ∧ ∀ x ∈ before.drop i, firstLt k0 x.o.key = true) →
      (∀ c ∈ before ++ taken ++ rest, c.o.key = c.o.ckey ∧ Ord c) →
      (∀ c ∈ rest, Lam c ∧ size c < N) →
      GoodO (.node co kids) (insLoop obj co before taken putp rest) := by
  intro rest
  induction rest with
  | nil =>
    intro before taken putp obj hk hck _ hbef hS1 hS2 _ hS5 hS7 hall _
    simp only [insLoop]
    refine ⟨.mk ?_ ?_ ?_, rfl, rfl⟩
    · apply pairwise_insert_mid (by simpa using hS1)
      · intro a ha
        have hf := hS5 a ha
        have hm := List.mem_of_mem_take ha
        show firstLt a.o.ckey obj.ckey = true
        rw [hck]
        exact lt_obj_of_before hk0 hf (hbef a hm) (hall a (by simp [hm])).1
      · intro b hb
        cases putp with
        | none => simp at hb
        | some i =>
          have := (hS7 i rfl).2 b (by simpa using hb)
          show firstLt obj.ckey b.o.ckey = true
          rw [hck, ← (hall b (by simp [List.mem_of_mem_drop hb])).1]
          exact this
    · intro c hc
      rcases List.mem_append.mp hc with hc | hc
      · exact (hall c (by simp [List.mem_of_mem_take hc])).1
      · rcases List.mem_cons.mp hc with rfl | hc
        · show obj.key = obj.ckey; rw [hk, hck]
        · exact (hall c (by simp [List.mem_of_mem_drop hc])).1
    · intro c hc
      rcases List.mem_append.mp hc with hc | hc
      · exact (hall c (by simp [List.mem_of_mem_take hc])).2
      · rcases List.mem_cons.mp hc with rfl | hc
        · exact .mk hS2 (fun d hd => (hall d (by simp [hd])).1) (fun d hd => (hall d (by simp [hd])).2)
        · exact (hall c (by simp [List.mem_of_mem_drop hc])).2
  | cons c rest ih =>
    intro before taken putp obj hk hck hshape hbef hS1 hS2 hS3 hS5 hS7 hall hrest
    cases c with
    | node ko kk =>
    simp only [insLoop]
    have hcur := hall (T.node ko kk) (by simp)
    have hp := List.pairwise_append.mp hS1
    have hpc := List.pairwise_cons.mp hp.2.1
    have hOcur : kids = before ++ T.node ko kk :: rest → Ord (T.node co kids) := by
      intro hkk
      rw [hkk]
      exact .mk hS1 (fun x hx => (hall x (by
        simp only [List.mem_append, List.mem_cons] at hx ⊢
        rcases hx with h | h
        · exact Or.inl (Or.inl h)
        · exact Or.inr h)).1) (fun x hx => (hall x (by
        simp only [List.mem_append, List.mem_cons] at hx ⊢
        rcases hx with h | h
        · exact Or.inl (Or.inl h)
        · exact Or.inr h)).2)
    cases hd : decide1 obj ko with
    | merge o' =>
      simp only []
      split
      · rename_i hte
        have ht : taken = [] := by simpa using hte
        subst ht
        have hkk : kids = before ++ T.node ko kk :: rest := by
          rcases hshape with h' | h'
          · exact h'
          · exact absurd rfl h'
        have hm := decide1_merge hd
        have hg1 : GoodO (T.node ko kk) (.merged (T.node o' kk) ko.gp) :=
          ⟨hcur.2.congr_ckey, decide1_merge_ckey hd, hm.2.2.2.1⟩
        have := GoodO.wrap (co := co) (before := before) (rest := rest) hg1 (hkk ▸ hOcur hkk)
        rw [hkk]; exact this
      · trivial
    | recurse =>
      simp only []
      split
      · rename_i hte
        have ht : taken = [] := by simpa using hte
        subst ht
        have hkk : kids = before ++ T.node ko kk :: rest := by
          rcases hshape with h' | h'
          · exact h'
          · exact absurd rfl h'
        have hc := hrest (T.node ko kk) (by simp)
        have hg1 := IH (T.node ko kk) hc.2 obj hc.1 hcur.2 (decide1_recurse hd).1 (by rw [hk, hck]) (by rw [hk]; exact hk0)
        have := GoodO.wrap (co := co) (before := before) (rest := rest) hg1 (hkk ▸ hOcur hkk)
        rw [hkk]; exact this
      · trivial
    | fail => simp only []; trivial
    | differ =>
      simp only []
      have hdj1 := decide1_differ hd
      refine ih (before ++ [T.node ko kk]) taken _ obj hk hck ?_ ?_ ?_ hS2 ?_ ?_ ?_ ?_ ?_
      · rcases hshape with h' | h'
        · left; simp [h']
        · exact Or.inr h'
      · intro x hx
        rcases List.mem_append.mp hx with hx | hx
        · exact hbef x hx
        · simp at hx; subst hx; rw [← hk]; exact hdj1
      · simpa using hS1
      · intro t ht x hx; exact hS3 t ht x (by simp [hx])
      · intro a ha
        cases putp with
        | some i =>
          have hi := Nat.le_of_lt (hS7 i rfl).1
          simp only [Option.isNone_some, Bool.false_and, Bool.false_eq_true, if_false, Option.getD_some] at ha
          rw [List.take_append_of_le_length hi] at ha
          exact hS5 a (by simpa using ha)
        | none =>
          simp only [Option.isNone_none, Bool.true_and] at ha
          by_cases hfl : firstLt obj.key ko.key = true
          · simp only [hfl, if_true, Option.getD_some] at ha
            rw [List.take_append_of_le_length (Nat.le_refl _), List.take_length] at ha
            exact hS5 a (by simpa using ha)
          · simp only [hfl, Bool.false_eq_true, if_false, Option.getD_none] at ha
            rw [List.take_of_length_le (Nat.le_refl _)] at ha
            rcases List.mem_append.mp ha with ha | ha
            · exact hS5 a (by simpa using ha)
            · simp at ha; subst ha; rw [← hk]; show firstLt obj.key ko.key = false; simpa using hfl
      · intro i hi
        cases putp with
        | some j =>
          simp only [Option.isNone_some, Bool.false_and, Bool.false_eq_true, if_false] at hi
          injection hi with hi; subst hi
          have h7 := hS7 j rfl
          refine ⟨by simp; omega, ?_⟩
          intro x hx
          rw [List.drop_append_of_le_length (Nat.le_of_lt h7.1)] at hx
          rcases List.mem_append.mp hx with hx | hx
          · exact h7.2 x hx
          · simp at hx; subst hx
            -- the child at the remembered position starts above OBJ and below the current child
            show firstLt k0 ko.key = true
            have hjl := h7.1
            have hmem : before[j] ∈ before.drop j := by
              rw [List.mem_drop_iff_getElem]; exact ⟨0, by simpa using hjl, by simp⟩
            have h1 := h7.2 _ hmem
            have h2 : lt before[j] (T.node ko kk) := hp.2.2 _ (List.getElem_mem hjl) _ (by simp)
            have e1 := (hall before[j] (by simp [List.getElem_mem hjl])).1
            have e2 := hcur.1
            unfold lt at h2
            rw [← e1, ← e2] at h2
            exact firstLt_trans h1 h2
        | none =>
          simp only [Option.isNone_none, Bool.true_and] at hi
          split at hi
          · rename_i hfl
            injection hi with hi; subst hi
            refine ⟨by simp, ?_⟩
            intro x hx
            rw [List.drop_append_of_le_length (Nat.le_refl _), List.drop_length] at hx
            simp at hx; subst hx
            rw [← hk]; exact hfl
          · cases hi
      · intro x hx
        apply hall
        simp only [List.mem_append, List.mem_cons, List.not_mem_nil, or_false] at hx ⊢
        rcases hx with ((h' | h') | h') | h'
        · exact Or.inl (Or.inl h')
        · exact Or.inr (Or.inl h')
        · exact Or.inl (Or.inr h')
        · exact Or.inr (Or.inr h')
      · intro x hx; exact hrest x (by simp [hx])
    | contain eq =>
      simp only []
      have step : ∀ ko' obj' : IObj, ko'.key = ko.key → ko'.ckey = ko.ckey → obj'.key = k0 → obj'.ckey = k0 →
          GoodO (T.node co kids) (insLoop obj' co before (taken ++ [T.node ko' kk]) putp rest) := by
        intro ko' obj' hkk hckk hk' hck'
        refine ih before (taken ++ [T.node ko' kk]) putp obj' hk' hck' (Or.inr (by simp)) hbef ?_ ?_ ?_ hS5 hS7 ?_ ?_
        · exact List.pairwise_append.mpr ⟨hp.1, hpc.2, fun a ha b hb => hp.2.2 a ha b (by simp [hb])⟩
        · refine List.pairwise_append.mpr ⟨hS2, by simp, ?_⟩
          intro a ha b hb
          simp at hb; subst hb
          show firstLt a.o.ckey ko'.ckey = true; rw [hckk]; exact hS3 a ha (T.node ko kk) (by simp)
        · intro t ht x hx
          rcases List.mem_append.mp ht with ht | ht
          · exact hS3 t ht x (by simp [hx])
          · simp at ht; subst ht; show firstLt ko'.ckey x.o.ckey = true; rw [hckk]; exact hpc.1 x hx
        · intro x hx
          simp only [List.mem_append, List.mem_cons, List.not_mem_nil, or_false] at hx
          rcases hx with (h'' | (h'' | h'')) | h''
          · exact hall x (by simp [h''])
          · exact hall x (by simp [h''])
          · subst h''; exact ⟨by show ko'.key = ko'.ckey; rw [hkk, hckk]; exact hcur.1, hcur.2.congr_ckey⟩
          · exact hall x (by simp [h''])
        · intro x hx; exact hrest x (by simp [hx])
      cases eq with
      | false => exact step ko obj rfl rfl hk hck
      | true => exact step { ko with mem := [] } { obj with mem := ko.mem } rfl rfl hk hck


theorem ins_ord_aux : ∀ (N : Nat) (t : T), size t < N → ∀ obj : IObj, Lam t → Ord t → sub obj.key t.o.key →
    obj.key = obj.ckey → obj.key ≠ 0 → GoodO t (ins obj t) := by
  intro N
  induction N with
  | zero => intro t h; exact absurd h (Nat.not_lt_zero _)
  | succ N ih =>
    intro t hsz obj hL hO _ hkc hne
    cases t with
    | node co kids =>
    simp only [ins]
    have hsz' : ∀ c ∈ kids, size c < N := by
      intro c hc
      have := sizeL_mem hc
      rw [size_node] at hsz; omega
    refine insLoop_ord N ih co kids obj.key hne kids [] [] none obj rfl hkc.symm (Or.inl (by simp))
      (fun c hc => by cases hc) (by simpa using hO.pw) List.Pairwise.nil (fun t ht => by cases ht)
      (fun a ha => by simp at ha) (fun i hi => by cases hi)
      (fun c hc => ⟨hO.keq c (by simpa using hc), hO.kids c (by simpa using hc)⟩)
      (fun c hc => ⟨hL.kids_lam c hc, hsz' c hc⟩)

/-- **Insertion keeps the children ordered.**  On a laminar, ordered tree without offline / disallowed bits, inserting (or
merging) a non-empty object whose complete cpuset equals its cpuset yields an ordered tree: at every level the children are
still strictly ordered by the first bit of their complete cpuset — the `siblings-ordered` clause of well-formedness is
preserved by the routine itself, before any re-sorting. -/
theorem ins_ordered (t : T) (obj : IObj) (hL : Lam t) (hO : Ord t) (hs : sub obj.key t.o.key) (hkc : obj.key = obj.ckey)
    (hne : obj.key ≠ 0) : GoodO t (ins obj t) :=
  ins_ord_aux (size t + 1) t (Nat.lt_succ_self _) obj hL hO hs hkc hne

end Hw.Topo.Ins
