/-
  Hw.Topo.MiscInsertLevel — hwloc_topology_insert_misc_object (dump-level model): the clauses about level membership,
  logical indexes and cousin links (`in-its-level`, `level-entries-valid`, `levels-in-tree-order`).
-/
import Hw.Topo.MiscInsertTop
namespace Hw.Topo.MiscIns
open Hw.Topo Hw.Topo.Hist

theorem specialDepth_m7 : ∀ t, t < 20 → specialDepth t = some (-7) → t = tMISC := by decide
theorem specialDepth_m7' (t : Nat) (h : specialDepth t = some (-7)) : t = tMISC := by
  by_cases h1 : t = 14
  · subst h1; exact absurd h (by decide)
  by_cases h2 : t = 16
  · subst h2; exact absurd h (by decide)
  by_cases h3 : t = 17
  · subst h3; exact absurd h (by decide)
  by_cases h4 : t = 18
  · subst h4; exact absurd h (by decide)
  by_cases h5 : t = 15
  · subst h5; exact absurd h (by decide)
  by_cases h6 : t = 19
  · exact h6
  · simp [specialDepth, tNUMA, tBRIDGE, tPCI, tOSDEV, tMISC, tMEMCACHE, h1, h2, h3, h4, h5, h6] at h
theorem specialDepth_normal : ∀ t, t < 20 → specialDepth t = none → isNormal t = true := by decide

section
variable {d : Dump} (h : WF d) (p pos k : Nat) (name : Option String) (skip : Nat)
  (hp : p < pos) (hpos : pos ≤ d.objs.length) (hk : ∀ l ∈ d.levels, l.depth = -7 → k ≤ l.objs.length)

local notation "DN" => after d p pos k name skip
local notation "U" => upd p pos k (lastId d p)
local notation "NEW" => newObj d p pos k name skip

include h in
theorem misc_iff_depth7 (o : Obj) (ho : o ∈ d.objs) : o.type = tMISC ↔ o.depth = -7 := by
  have c := h.objc "depth-by-type" o ho
  simp only [objClause, objClauses, List.find?, String.reduceBEq] at c
  have ht := h.obj_type_in_range ho
  constructor
  · intro e
    rw [e] at c
    have : specialDepth tMISC = some (-7) := by decide
    rw [this] at c
    simpa using c
  · intro e
    cases hs : specialDepth o.type with
    | some sd =>
      rw [hs] at c
      have : o.depth = sd := by simpa using c
      exact specialDepth_m7 o.type ht (by rw [hs, ← this, e])
    | none =>
      rw [hs] at c
      simp only [Bool.and_eq_true, decide_eq_true_eq] at c
      omega

theorem upd_lidx_misc (o : Obj) (ht : o.type = tMISC) : (U o).lidx = shN k o.lidx := by
  show updLidx k o = _
  unfold updLidx shN
  simp [ht]
theorem upd_lidx_other (o : Obj) (ht : o.type ≠ tMISC) : (U o).lidx = o.lidx := by
  show updLidx k o = _
  unfold updLidx
  simp [ht]
theorem upd_prevCousin_other (o : Obj) (ht : o.type ≠ tMISC) : (U o).prevCousin = shI pos o.prevCousin := by
  show updPrevCousin pos k o = _
  unfold updPrevCousin
  simp [ht]
theorem upd_nextCousin_other (o : Obj) (ht : o.type ≠ tMISC) : (U o).nextCousin = shI pos o.nextCousin := by
  show updNextCousin pos k o = _
  unfold updNextCousin
  simp [ht]
theorem upd_prevCousin_misc (o : Obj) (ht : o.type = tMISC) :
    (U o).prevCousin = if o.lidx = k then (pos : Int) else shI pos o.prevCousin := by
  show updPrevCousin pos k o = _
  unfold updPrevCousin
  simp [ht]
theorem upd_nextCousin_misc (o : Obj) (ht : o.type = tMISC) :
    (U o).nextCousin = if o.lidx + 1 = k then (pos : Int) else shI pos o.nextCousin := by
  show updNextCousin pos k o = _
  unfold updNextCousin
  simp [ht]

/-- the Misc level after the call, by index -/
theorem insL_get_sh (l : Level) (hkl : k ≤ l.objs.length) (i : Nat) :
    (insL pos k l).objs[shN k i]? = (l.objs[i]?).map (shI pos) := by
  show (insAt (l.objs.map (shI pos)) k (pos : Int))[shN k i]? = _
  rw [insAt_get_sh _ _ _ (by simpa using hkl), List.getElem?_map]
theorem insL_get_k (l : Level) (hkl : k ≤ l.objs.length) : (insL pos k l).objs[k]? = some (pos : Int) := by
  show (insAt (l.objs.map (shI pos)) k (pos : Int))[k]? = _
  exact insAt_get_pos _ _ _ (by simpa using hkl)

include h hpos hk in
theorem c_in_its_level_old (o : Obj) (ho : o ∈ d.objs) : objClause "in-its-level" DN (mkAux DN) (U o) = true := by
  have hold := h.objc "in-its-level" o ho
  simp only [objClause, objClauses, List.find?, String.reduceBEq] at hold ⊢
  have ed : (U o).depth = o.depth := rfl
  rw [ed, levelOf_after]
  cases hl : levelOf d o.depth with
  | none => rw [hl] at hold; cases hold
  | some l =>
    rw [hl] at hold
    have hlm : l ∈ d.levels := by unfold levelOf at hl; exact List.mem_of_find?_eq_some hl
    have hld : l.depth = o.depth := by unfold levelOf at hl; simpa using List.find?_some hl
    have hold' : ((l.objs[o.lidx]?) == some (o.id : Int) && l.type == (o.type : Int) &&
        o.prevCousin == (if o.lidx = 0 then -1 else (l.objs[o.lidx - 1]?).getD (-2)) &&
        o.nextCousin == (l.objs[o.lidx + 1]?).getD (-1)) = true := hold
    simp only [Bool.and_eq_true, beq_iff_eq] at hold'
    obtain ⟨⟨⟨a1, a2⟩, a3⟩, a4⟩ := hold'
    simp only [Option.map_some]
    by_cases h7 : o.depth = -7
    · -- a Misc object
      have hT : o.type = tMISC := (misc_iff_depth7 h o ho).2 h7
      have hkl : k ≤ l.objs.length := hk l hlm (by rw [hld, h7])
      have e7 : (o.depth == -7) = true := by rw [h7]; rfl
      simp only [e7, if_true]
      show (((insL pos k l).objs[(U o).lidx]?) == some ((U o).id : Int) && l.type == (o.type : Int) &&
        (U o).prevCousin == (if (U o).lidx = 0 then -1 else ((insL pos k l).objs[(U o).lidx - 1]?).getD (-2)) &&
        (U o).nextCousin == ((insL pos k l).objs[(U o).lidx + 1]?).getD (-1)) = true
      rw [upd_lidx_misc p pos k o hT, upd_prevCousin_misc p pos k o hT, upd_nextCousin_misc p pos k o hT, upd_id]
      simp only [Bool.and_eq_true, beq_iff_eq]
      refine ⟨⟨⟨?_, a2⟩, ?_⟩, ?_⟩
      · rw [insL_get_sh pos k l hkl, a1, ← shI_nat]; rfl
      · by_cases c1 : o.lidx = k
        · rw [if_pos c1]
          have e1 : shN k o.lidx = k + 1 := by unfold shN; simp [c1]
          rw [e1]
          simp only [Nat.add_one_ne_zero, if_false, Nat.add_sub_cancel]
          rw [insL_get_k pos k l hkl]; rfl
        · rw [if_neg c1, a3]
          by_cases c0 : o.lidx = 0
          · have e1 : shN k o.lidx = 0 := by unfold shN; rw [c0]; split <;> omega
            rw [e1]; simp only [c0, if_true]; exact shI_m1 pos
          · have e1 : shN k o.lidx ≠ 0 := by unfold shN; split <;> omega
            have e2 : shN k o.lidx - 1 = shN k (o.lidx - 1) := by unfold shN; split <;> split <;> omega
            simp only [c0, e1, if_false]
            rw [e2, insL_get_sh pos k l hkl, shI_getD pos _ _ (by omega)]
      · by_cases c1 : o.lidx + 1 = k
        · rw [if_pos c1]
          have e1 : shN k o.lidx + 1 = k := by unfold shN; split <;> omega
          rw [e1, insL_get_k pos k l hkl]; rfl
        · rw [if_neg c1, a4]
          have e2 : shN k o.lidx + 1 = shN k (o.lidx + 1) := by unfold shN; split <;> split <;> omega
          rw [e2, insL_get_sh pos k l hkl, shI_getD pos _ _ (by omega)]
    · have hT : o.type ≠ tMISC := fun e => h7 ((misc_iff_depth7 h o ho).1 e)
      have e7 : (o.depth == -7) = false := by rw [beq_eq_false_iff_ne]; exact h7
      simp only [e7, Bool.false_eq_true, if_false]
      show (((l.objs.map (shI pos))[(U o).lidx]?) == some ((U o).id : Int) && l.type == (o.type : Int) &&
        (U o).prevCousin == (if (U o).lidx = 0 then -1 else ((l.objs.map (shI pos))[(U o).lidx - 1]?).getD (-2)) &&
        (U o).nextCousin == ((l.objs.map (shI pos))[(U o).lidx + 1]?).getD (-1)) = true
      rw [upd_lidx_other p pos k o hT, upd_prevCousin_other p pos k o hT, upd_nextCousin_other p pos k o hT, upd_id]
      simp only [Bool.and_eq_true, beq_iff_eq]
      refine ⟨⟨⟨?_, a2⟩, ?_⟩, ?_⟩
      · rw [List.getElem?_map, a1, ← shI_nat]; rfl
      · rw [a3]
        split
        · exact shI_m1 pos
        · rw [map_sh_getD pos _ _ _ (by omega)]
      · rw [a4, map_sh_getD pos _ _ _ (by omega)]

include h in
/-- the Misc level exists, has type Misc -/
theorem misc_level : ∃ l, levelOf d (-7) = some l ∧ l ∈ d.levels ∧ l.depth = -7 ∧ l.type = (tMISC : Int) := by
  have c2 := h.topc "levels-listed"
  simp only [topClause, topClauses, List.find?, String.reduceBEq, Bool.and_eq_true, List.all_eq_true] at c2
  have := c2.1.2 (-7) (by simp)
  cases hl : levelOf d (-7) with
  | none => rw [hl] at this; cases this
  | some l =>
    have hlm : l ∈ d.levels := by unfold levelOf at hl; exact List.mem_of_find?_eq_some hl
    have hld : l.depth = -7 := by unfold levelOf at hl; simpa using List.find?_some hl
    refine ⟨l, rfl, hlm, hld, ?_⟩
    have c3 := h.topc "normal-level-types"
    simp only [topClause, topClauses, List.find?, String.reduceBEq, List.all_eq_true] at c3
    have := c3 l hlm
    rw [hld] at this
    simp only [show ¬ ((0 : Int) ≤ -7) by omega, if_false, Bool.and_eq_true, beq_iff_eq, decide_eq_true_eq] at this
    have ht : l.type.toNat = tMISC := specialDepth_m7' _ this.1
    have := this.2
    unfold tMISC at ht ⊢
    omega

include h hpos hk in
theorem c_in_its_level_new : objClause "in-its-level" DN (mkAux DN) NEW = true := by
  obtain ⟨l, hl, hlm, hld, hlt⟩ := misc_level h
  have hkl := hk l hlm hld
  simp only [objClause, objClauses, List.find?, String.reduceBEq]
  have ed : (NEW).depth = -7 := rfl
  rw [ed, levelOf_after, hl]
  simp only [Option.map_some, show ((-7 : Int) == -7) = true by decide, if_true]
  have eml : miscLevel d = l.objs := by unfold miscLevel; rw [hl]; rfl
  show (((insL pos k l).objs[k]?) == some (pos : Int) && l.type == (tMISC : Int) &&
    (if k = 0 then (-1 : Int) else (((miscLevel d)[k - 1]?).map (shI pos)).getD (-2)) ==
      (if k = 0 then -1 else ((insL pos k l).objs[k - 1]?).getD (-2)) &&
    (((miscLevel d)[k]?).map (shI pos)).getD (-1) == ((insL pos k l).objs[k + 1]?).getD (-1)) = true
  rw [eml, insL_get_k pos k l hkl, hlt]
  simp only [Bool.and_eq_true, beq_iff_eq, beq_self_eq_true, true_and]
  constructor
  · by_cases k0 : k = 0
    · simp only [k0, if_true]
    · simp only [k0, if_false]
      have e : k - 1 = shN k (k - 1) := by unfold shN; split <;> omega
      rw [e, insL_get_sh pos k l hkl, ← e]
  · have e : k + 1 = shN k k := by unfold shN; simp
    rw [e, insL_get_sh pos k l hkl]

include h hpos hk in
theorem c_in_its_level (o' : Obj) (ho' : o' ∈ Dump.objs DN) : objClause "in-its-level" DN (mkAux DN) o' = true := by
  rcases (mem_after d p pos k name skip o').1 ho' with rfl | ⟨o, ho, rfl⟩
  · exact c_in_its_level_new h p pos k name skip hpos hk
  · exact c_in_its_level_old h p pos k name skip hpos hk o ho

include h hpos hk in
theorem t_level_entries_valid : topClause "level-entries-valid" DN (mkAux DN) = true := by
  have c := h.topc "level-entries-valid"
  simp only [topClause, topClauses, List.find?, String.reduceBEq, List.all_eq_true, List.mem_range] at c ⊢
  intro l' hl' i hi
  obtain ⟨l, hl, hh⟩ := mem_insLevels pos k d.levels h.level_depths_nodup l' hl'
  have cl := c l hl
  rcases hh with ⟨rfl, hd7⟩ | ⟨rfl, hd7⟩
  · have hi' : i < l.objs.length := by simpa [shL] using hi
    have ci := cl i hi'
    show (match (DN).obj? (((l.objs.map (shI pos))[i]?).getD (-2)) with
      | some o => o.depth == l.depth && o.lidx == i
      | none => false) = true
    rw [map_sh_getD pos _ _ _ (by omega), after_obj?_sh d p pos k name skip hpos]
    cases ho : d.obj? ((l.objs[i]?).getD (-2)) with
    | none => rw [ho] at ci; cases ci
    | some o =>
      rw [ho] at ci
      have ci' : (o.depth == l.depth && o.lidx == i) = true := ci
      simp only [Bool.and_eq_true, beq_iff_eq] at ci'
      have hT : o.type ≠ tMISC := fun e => hd7 (by rw [← ci'.1]; exact (misc_iff_depth7 h o (Dump.mem_of_obj? ho)).1 e)
      show ((U o).depth == l.depth && (U o).lidx == i) = true
      rw [upd_lidx_other p pos k o hT]
      simp only [Bool.and_eq_true, beq_iff_eq]
      exact ⟨ci'.1, ci'.2⟩
  · have hkl := hk l hl hd7
    have hlen : (insL pos k l).objs.length = l.objs.length + 1 := by
      show (insAt (l.objs.map (shI pos)) k (pos : Int)).length = _
      rw [insAt_length, List.length_map]
    rw [hlen] at hi
    show (match (DN).obj? (((insL pos k l).objs[i]?).getD (-2)) with
      | some o => o.depth == l.depth && o.lidx == i
      | none => false) = true
    by_cases hik : i = k
    · rw [hik, insL_get_k pos k l hkl]
      show (match (DN).obj? (pos : Int) with | some o => o.depth == l.depth && o.lidx == k | none => false) = true
      rw [after_obj?_pos d p pos k name skip hpos, hd7]
      show (((-7 : Int) == -7) && k == k) = true
      simp
    · -- an old entry, at old index j
      obtain ⟨j, hj, hjl⟩ : ∃ j, i = shN k j ∧ j < l.objs.length := by
        by_cases hlt : i < k
        · exact ⟨i, by unfold shN; split <;> omega, by omega⟩
        · exact ⟨i - 1, by unfold shN; split <;> omega, by omega⟩
      have cj := cl j hjl
      rw [hj, insL_get_sh pos k l hkl, ← shI_getD pos _ _ (by omega), after_obj?_sh d p pos k name skip hpos]
      cases ho : d.obj? ((l.objs[j]?).getD (-2)) with
      | none => rw [ho] at cj; cases cj
      | some o =>
        rw [ho] at cj
        have cj' : (o.depth == l.depth && o.lidx == j) = true := cj
        simp only [Bool.and_eq_true, beq_iff_eq] at cj'
        have hT : o.type = tMISC := (misc_iff_depth7 h o (Dump.mem_of_obj? ho)).2 (by rw [cj'.1]; exact hd7)
        show ((U o).depth == l.depth && (U o).lidx == shN k j) = true
        rw [upd_lidx_misc p pos k o hT, cj'.2]
        simp only [Bool.and_eq_true, beq_iff_eq]
        exact ⟨cj'.1, trivial⟩

/-! ### levels stay in tree order -/

theorem increasing_iff (l : List Int) : increasing l = true ↔ l.Pairwise (· < ·) := by
  induction l with
  | nil => simp [increasing]
  | cons a t ih =>
    cases t with
    | nil => simp [increasing]
    | cons b rest =>
      rw [increasing, Bool.and_eq_true, decide_eq_true_eq, ih, List.pairwise_cons (a := a)]
      constructor
      · rintro ⟨hab, hp⟩
        refine ⟨?_, hp⟩
        intro x hx
        rcases List.mem_cons.1 hx with rfl | hm
        · exact hab
        · have := (List.pairwise_cons.1 hp).1 x hm
          omega
      · rintro ⟨hall, hp⟩
        exact ⟨hall b List.mem_cons_self, hp⟩

theorem pairwise_map_sh (pos : Nat) (l : List Int) (hl : l.Pairwise (· < ·)) : (l.map (shI pos)).Pairwise (· < ·) := by
  rw [List.pairwise_map]
  exact hl.imp (fun {a b} hab => (shI_lt pos a b).2 hab)

theorem insAt_zero {α : Type} (l : List α) (x : α) : insAt l 0 x = x :: l := by simp [insAt]
theorem insAt_succ {α : Type} (a : α) (l : List α) (n : Nat) (x : α) : insAt (a :: l) (n + 1) x = a :: insAt l n x := by
  simp [insAt]

theorem pairwise_ins (pos : Nat) (l : List Int) (hl : l.Pairwise (· < ·)) :
    (insAt (l.map (shI pos)) (l.filter (fun i => decide (i < (pos : Int)))).length (pos : Int)).Pairwise (· < ·) := by
  induction l with
  | nil => simp [insAt]
  | cons a rest ih =>
    have hp := List.pairwise_cons.1 hl
    by_cases ha : a < (pos : Int)
    · have e : (List.filter (fun i => decide (i < (pos : Int))) (a :: rest)).length =
          (rest.filter (fun i => decide (i < (pos : Int)))).length + 1 := by
        rw [List.filter_cons]; simp [ha]
      rw [e, List.map_cons, insAt_succ, List.pairwise_cons]
      refine ⟨?_, ih hp.2⟩
      intro y hy
      rw [shI_of_lt pos a ha]
      rcases (mem_insAt _ _ _ _).1 hy with rfl | hm
      · exact ha
      · obtain ⟨b, hb, rfl⟩ := List.mem_map.1 hm
        have := hp.1 b hb
        have := (shI_lt pos a b).2 this
        rw [shI_of_lt pos a ha] at this
        exact this
    · have hnone : rest.filter (fun i => decide (i < (pos : Int))) = [] := by
        rw [List.filter_eq_nil_iff]
        intro b hb
        have := hp.1 b hb
        simp only [decide_eq_true_eq]; omega
      have e : (List.filter (fun i => decide (i < (pos : Int))) (a :: rest)).length = 0 := by
        rw [List.filter_cons]; simp [ha, hnone]
      rw [e, insAt_zero, List.pairwise_cons]
      refine ⟨?_, pairwise_map_sh pos _ hl⟩
      intro y hy
      obtain ⟨b, hb, rfl⟩ := List.mem_map.1 hy
      have hb' : (pos : Int) ≤ b := by
        rcases List.mem_cons.1 hb with rfl | hm
        · omega
        · have := hp.1 b hm; omega
      unfold shI; split <;> omega

include h in
theorem t_levels_in_tree_order
    (hkdef : ∀ l ∈ d.levels, l.depth = -7 → k = (l.objs.filter (fun i => decide (i < (pos : Int)))).length) :
    topClause "levels-in-tree-order" DN (mkAux DN) = true := by
  have c := h.topc "levels-in-tree-order"
  simp only [topClause, topClauses, List.find?, String.reduceBEq, List.all_eq_true] at c ⊢
  intro l' hl'
  obtain ⟨l, hl, hh⟩ := mem_insLevels pos k d.levels h.level_depths_nodup l' hl'
  have cl := (increasing_iff _).1 (c l hl)
  rw [increasing_iff]
  rcases hh with ⟨rfl, _⟩ | ⟨rfl, hd7⟩
  · exact pairwise_map_sh pos _ cl
  · show (insAt (l.objs.map (shI pos)) k (pos : Int)).Pairwise (· < ·)
    rw [hkdef l hl hd7]
    exact pairwise_ins pos _ cl

end
end Hw.Topo.MiscIns
