/-
  Hw.Topo.StageUnique — the uniqueness clauses of well-formedness (gp-index-unique, pu-osindex-unique, numa-osindex-unique) through
  `remove_empty`, level merging and `render`: no stage creates an object or changes its gp_index / type / os_index, so for ANY key
  `f` of an object that `absorb` (the complete-set update of a merge) leaves alone, no key value occurs more often after the stage
  than before (`cnt_removeEmpty`, RestrictLemmas.cnt_keepStructure); a list without repetition stays without repetition.
-/
import Hw.Topo.StageRemoveEmptyLemmas
import Hw.Topo.RenderTop
namespace Hw.Topo.Restrict.Stage
open Hw.Topo Hw.Topo.Restrict

theorem nodup_iff_count_le_one {α : Type} [DecidableEq α] (l : List α) : l.Nodup ↔ ∀ a, l.count a ≤ 1 := by
  induction l with
  | nil => simp
  | cons x xs ih =>
    rw [List.nodup_cons, ih]
    constructor
    · rintro ⟨hx, h⟩ a
      rw [List.count_cons]
      by_cases e : x = a
      · subst e
        have : xs.count x = 0 := List.count_eq_zero.2 hx
        simp [this]
      · have := h a
        simp [e]; exact this
    · intro h
      refine ⟨fun hx => ?_, fun a => ?_⟩
      · have h1 := h x
        rw [List.count_cons] at h1
        simp at h1
        have : 0 < xs.count x := List.count_pos_iff.2 hx
        omega
      · have h1 := h a
        rw [List.count_cons] at h1
        omega

section
variable {α : Type} [DecidableEq α] (f : RObj → α) (a : α)

def reObjs (r : RE) : List RObj := objsL r.kept ++ objsL r.misc

mutual
theorem cnt_removeEmptyT : ∀ t : Tree, cnt f a (reObjs (removeEmptyT t)) ≤ cnt f a (objsT t)
  | .node o ns ms ios mis => by
    have h1 := cnt_removeEmptyL ns
    have h2 := cnt_removeEmptyL ms
    unfold reObjs at h1 h2 ⊢
    rw [cnt_append] at h1 h2
    have key : ∀ l, cnt f a (o :: l) = (if f o = a then 1 else 0) + cnt f a l := by
      intro l; simp only [cnt, List.map_cons, List.count_cons, beq_iff_eq]; omega
    rw [removeEmptyT]
    split
    · simp only [objsL, objsT, objsL_append, cnt_append, List.nil_append, cnt_nil, key]
      omega
    · simp only [objsL, objsT, objsL_append, cnt_append, List.append_nil, cnt_nil, key]
      omega
theorem cnt_removeEmptyL : ∀ l : List Tree, cnt f a (reObjs (removeEmptyL l)) ≤ cnt f a (objsL l)
  | [] => by rw [removeEmptyL]; exact Nat.le_refl _
  | t :: ts => by
    have h1 := cnt_removeEmptyT t
    have h2 := cnt_removeEmptyL ts
    unfold reObjs at h1 h2 ⊢
    rw [removeEmptyL]
    simp only [objsL, objsL_append, cnt_append] at h1 h2 ⊢
    omega
end

/-- `remove_empty` creates no object: no key value occurs more often among ALL objects of the result (Misc objects handed to an
    ancestor included) than in the input -/
theorem cnt_removeEmpty (t t' : Tree) (h : removeEmpty t = some t') : cnt f a (objsT t') ≤ cnt f a (objsT t) := by
  have h1 := cnt_removeEmptyT f a t
  unfold removeEmpty at h
  unfold reObjs at h1
  cases hk : (removeEmptyT t).kept with
  | nil => rw [hk] at h; cases h
  | cons x xs =>
    rw [hk] at h h1
    simp only [List.head?_cons, Option.some.injEq] at h
    subst h
    simp only [objsL, cnt_append] at h1
    omega

end

/-- a key without repetition before `remove_empty` and level merging has no repetition afterwards -/
theorem nodup_pipeline {α : Type} [DecidableEq α] (f : RObj → α) (hm : ∀ o co, f (absorb o co) = f co) (filters : List Nat)
    (t0 t1 : Tree) (h1 : removeEmpty t0 = some t1) (a : α) :
    cnt f a (objsT (keepStructure filters t1)) ≤ cnt f a (objsT t0) :=
  Nat.le_trans (cnt_keepStructure f a hm filters t1) (cnt_removeEmpty f a t0 t1 h1)

theorem ro_gp (nl : List (Nat × List Nat)) (os : List Occ) (ex : RObj → Extra) (oc : Occ) :
    (renderObj nl os ex oc).gp = oc.t.obj.gp := by cases oc with | mk a b c d e t => cases t; rfl
theorem ro_osidx (nl : List (Nat × List Nat)) (os : List Occ) (ex : RObj → Extra) (oc : Occ) :
    (renderObj nl os ex oc).osidx = oc.t.obj.osidx := by cases oc with | mk a b c d e t => cases t; rfl

theorem clause_gp_unique : topClause "gp-index-unique" = fun d _ => decide ((d.objs.map (·.gp)).Nodup) := by
  simp only [topClause, topClauses, List.find?, String.reduceBEq]
theorem clause_pu_unique : topClause "pu-osindex-unique" = fun d _ =>
    decide (((d.objs.filter (fun o => o.type == tPU)).map (·.osidx)).Nodup) := by
  simp only [topClause, topClauses, List.find?, String.reduceBEq]
theorem clause_numa_unique : topClause "numa-osindex-unique" = fun d _ =>
    decide (((d.objs.filter (fun o => o.type == tNUMA)).map (·.osidx)).Nodup) := by
  simp only [topClause, topClauses, List.find?, String.reduceBEq]

theorem render_gps (t : Tree) (h : Hdr) (ex : RObj → Extra) : (render t h ex).objs.map (·.gp) = (objsT t).map (·.gp) := by
  rw [render_objs, ← occs_map_obj, List.map_map, List.map_map]
  apply List.map_congr_left
  intro oc _
  simp only [Function.comp, rObj, ro_gp]

theorem render_os_of_type (t : Tree) (h : Hdr) (ex : RObj → Extra) (ty : Nat) :
    ((render t h ex).objs.filter (fun o => o.type == ty)).map (·.osidx) = ((objsT t).filter (fun o => o.type == ty)).map (·.osidx) := by
  rw [render_objs, ← occs_map_obj, List.filter_map, List.filter_map, List.map_map, List.map_map]
  have : ((fun (o : Obj) => o.type == ty) ∘ rObj t ex) = ((fun (o : RObj) => o.type == ty) ∘ (fun oc : Occ => oc.t.obj)) := by
    funext oc; simp only [Function.comp, rObj, ro_type]
  rw [this]
  apply List.map_congr_left
  intro oc _
  simp only [Function.comp, rObj, ro_osidx]

/-- **gp-index-unique** for the rendering of every tree whose objects have pairwise distinct gp_index -/
theorem render_gp_unique (t : Tree) (hu : ((objsT t).map (·.gp)).Nodup) (h : Hdr) (ex : RObj → Extra) :
    topClause "gp-index-unique" (render t h ex) (mkAux (render t h ex)) = true := by
  rw [clause_gp_unique]; simp only [decide_eq_true_eq]; rw [render_gps]; exact hu

/-- type + os_index as one key -/
def tyOs (o : RObj) : Nat × Int := (o.type, o.osidx)

theorem cnt_eq_filter {α : Type} [DecidableEq α] (f : RObj → α) (a : α) (l : List RObj) :
    cnt f a l = (l.filter (fun o => decide (f o = a))).length := by
  induction l with
  | nil => rfl
  | cons x xs ih =>
    rw [cnt_cons, ih, List.filter_cons]
    by_cases hx : f x = a
    · simp [cnt, hx]; omega
    · simp [cnt, hx]

theorem count_filter_map (ty : Nat) (k : Int) (l : List RObj) :
    (((l.filter (fun o => o.type == ty)).map (·.osidx))).count k = (l.filter (fun o => o.type == ty && o.osidx == k)).length := by
  induction l with
  | nil => rfl
  | cons x xs ih =>
    rw [List.filter_cons, List.filter_cons]
    by_cases hx : x.type = ty
    · have e : (x.type == ty) = true := by simpa using hx
      rw [e, if_pos rfl, List.map_cons, List.count_cons, ih]
      by_cases hk : x.osidx = k
      · simp [hk]
      · simp [hk]
    · have e : (x.type == ty) = false := by simpa using hx
      simp [e, ih]

theorem count_tyOs (ty : Nat) (k : Int) (l : List RObj) :
    (((l.filter (fun o => o.type == ty)).map (·.osidx))).count k = cnt tyOs (ty, k) l := by
  rw [count_filter_map, cnt_eq_filter]
  congr 1
  apply List.filter_congr
  intro o _
  by_cases h1 : o.type = ty <;> by_cases h2 : o.osidx = k <;> simp [tyOs, h1, h2]

theorem os_nodup_of_cnt (ty : Nat) (l l' : List RObj) (hc : ∀ k, cnt tyOs (ty, k) l' ≤ cnt tyOs (ty, k) l)
    (h : ((l.filter (fun o => o.type == ty)).map (·.osidx)).Nodup) : ((l'.filter (fun o => o.type == ty)).map (·.osidx)).Nodup := by
  rw [nodup_iff_count_le_one] at h ⊢
  intro k
  rw [count_tyOs]
  have := h k
  rw [count_tyOs] at this
  exact Nat.le_trans (hc k) this

theorem gp_nodup_of_cnt (l l' : List RObj) (hc : ∀ k, cnt (·.gp) k l' ≤ cnt (·.gp) k l) (h : (l.map (·.gp)).Nodup) :
    (l'.map (·.gp)).Nodup := by
  rw [nodup_iff_count_le_one] at h ⊢
  intro k
  exact Nat.le_trans (hc k) (h k)

end Hw.Topo.Restrict.Stage
