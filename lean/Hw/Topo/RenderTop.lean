/-
  Hw.Topo.RenderTop — two more topology-level WF clauses for `render t` (every typed tree): root-is-machine and numa-exists.
-/
import Hw.Topo.RenderLemmas
namespace Hw.Topo.Restrict
open Hw.Topo

/-- the objects of the occurrence list are the objects of the tree, in the same (DFS) order -/
theorem occs_objs :
    (∀ t, ∀ s par rk pv nx, (occsT s par rk pv nx t).map (·.t.obj) = objsT t) ∧
    (∀ l, ∀ s par rk pv, (occsL s par rk pv l).map (·.t.obj) = objsL l) := by
  have hnode : ∀ o ns ms ios mis,
      (∀ s par rk pv, (occsL s par rk pv ns).map (·.t.obj) = objsL ns) → (∀ s par rk pv, (occsL s par rk pv ms).map (·.t.obj) = objsL ms) →
      (∀ s par rk pv, (occsL s par rk pv ios).map (·.t.obj) = objsL ios) → (∀ s par rk pv, (occsL s par rk pv mis).map (·.t.obj) = objsL mis) →
      (∀ s par rk pv nx, (occsT s par rk pv nx (.node o ns ms ios mis)).map (·.t.obj) = objsT (.node o ns ms ios mis)) := by
    intro o ns ms ios mis h1 h2 h3 h4 s par rk pv nx
    rw [occsT, objsT]
    simp only [List.map_cons, List.map_append, h1, h2, h3, h4]
    rfl
  have hnil : ∀ s par rk pv, (occsL s par rk pv []).map (·.t.obj) = objsL [] := by
    intro s par rk pv; rw [occsL, objsL]; rfl
  have hcons : ∀ t ts, (∀ s par rk pv nx, (occsT s par rk pv nx t).map (·.t.obj) = objsT t) →
      (∀ s par rk pv, (occsL s par rk pv ts).map (·.t.obj) = objsL ts) →
      (∀ s par rk pv, (occsL s par rk pv (t :: ts)).map (·.t.obj) = objsL (t :: ts)) := by
    intro t ts h1 h2 s par rk pv
    rw [occsL, objsL, List.map_append, h1, h2]
  exact ⟨tree_ind4T hnode hnil hcons, tree_ind4L hnode hnil hcons⟩

theorem occs_map_obj (t : Tree) : (occs t).map (·.t.obj) = objsT t := occs_objs.1 t 0 (-1) 0 (-1) (-1)

theorem clause_root_is_machine : topClause "root-is-machine" = fun d _ => d.root == 0 && (match d.objs[0]? with
      | some r => r.type == tMACHINE && r.depth == 0 && r.parent == -1
      | none => false) := by
  simp only [topClause, topClauses, List.find?, String.reduceBEq]
  rfl

/-- **root-is-machine** for the rendering of every tree whose root object is a Machine -/
theorem render_root_is_machine (t : Tree) (hm : t.obj.type = tMACHINE) (h : Hdr) (ex : RObj → Extra) :
    topClause "root-is-machine" (render t h ex) (mkAux (render t h ex)) = true := by
  rw [clause_root_is_machine]
  obtain ⟨rest, hocc⟩ := occsT_head 0 (-1) 0 (-1) (-1) t
  have h0 : (occs t)[0]? = some ⟨0, -1, 0, -1, -1, t⟩ := by unfold occs; rw [hocc]; rfl
  have hg : (render t h ex).objs[0]? = some (rObj t ex ⟨0, -1, 0, -1, -1, t⟩) := by rw [render_get, h0]; rfl
  show ((render t h ex).root == 0 && (match (render t h ex).objs[0]? with
      | some r => r.type == tMACHINE && r.depth == 0 && r.parent == -1
      | none => false)) = true
  rw [hg]
  have hz := normalLevels_zero t
  simp only [Bool.and_eq_true, beq_iff_eq]
  refine ⟨rfl, ⟨?_, ?_⟩, ?_⟩
  · unfold rObj; rw [ro_type]; exact hm
  · unfold rObj
    rw [ro_depth]
    simp only []
    unfold placeOf
    rw [hm]
    simp only [show specialDepth tMACHINE = none from rfl]
    -- the first level is (Machine, [0]) and contains id 0
    cases hnl : normalLevels t with
    | nil => rw [hnl] at hz; simp at hz
    | cons l0 ls =>
      rw [hnl] at hz
      simp only [List.getElem?_cons_zero, Option.some.injEq] at hz
      rw [hz.2]
      simp only [List.length_cons, List.range_succ_eq_map, List.zip_cons_cons, List.find?_cons]
      simp
  · unfold rObj; rw [ro_parent]

theorem clause_numa_exists : topClause "numa-exists" = fun d _ => match levelOf d (-3) with
      | some l => !l.objs.isEmpty
      | none => false := by
  simp only [topClause, topClauses, List.find?, String.reduceBEq]
  rfl

/-- **numa-exists** for the rendering of every tree that contains a NUMA node -/
theorem render_numa_exists (t : Tree) (hn : ∃ x ∈ objsT t, x.type = tNUMA) (h : Hdr) (ex : RObj → Extra) :
    topClause "numa-exists" (render t h ex) (mkAux (render t h ex)) = true := by
  rw [clause_numa_exists]
  have hl := levelOf_special t h ex tNUMA (by simp [specialTypes])
  have hd : (specialDepth tNUMA).getD 0 = -3 := rfl
  rw [hd] at hl
  show (match levelOf (render t h ex) (-3) with
      | some l => !l.objs.isEmpty
      | none => false) = true
  rw [hl]
  simp only [Bool.not_eq_true', List.isEmpty_eq_false_iff, ne_eq, List.map_eq_nil_iff]
  obtain ⟨x, hx, hxt⟩ := hn
  rw [← occs_map_obj t] at hx
  obtain ⟨oc, hoc, e⟩ := List.mem_map.1 hx
  unfold specialLevel
  intro hnil
  rw [List.map_eq_nil_iff, List.filter_eq_nil_iff] at hnil
  exact hnil oc hoc (by rw [e, hxt]; rfl)

/-- at most one Machine object (C01 clause machine-only-at-root, on the tree) -/
def machineOnce (t : Tree) : Prop := cnt (fun x => x.type) tMACHINE (objsT t) ≤ 1

instance (t : Tree) : Decidable (machineOnce t) := by unfold machineOnce; exact inferInstance

theorem clause_machine_only_at_root : topClause "machine-only-at-root" = fun d _ =>
    d.objs.all (fun o => o.type != tMACHINE || o.id == 0) := by
  simp only [topClause, topClauses, List.find?, String.reduceBEq]

/-- **machine-only-at-root** for the rendering of every tree with a Machine root and no second Machine object -/
theorem render_machine_only_at_root (t : Tree) (hm : t.obj.type = tMACHINE) (h1 : machineOnce t) (h : Hdr) (ex : RObj → Extra) :
    topClause "machine-only-at-root" (render t h ex) (mkAux (render t h ex)) = true := by
  rw [clause_machine_only_at_root]
  simp only [List.all_eq_true, Bool.or_eq_true, bne_iff_ne, ne_eq, beq_iff_eq]
  intro o ho
  obtain ⟨oc, hoc, rfl⟩ := render_mem t h ex o ho
  by_cases hty : (rObj t ex oc).type = tMACHINE
  · right
    unfold rObj at hty ⊢
    rw [ro_type] at hty
    rw [ro_id]
    obtain ⟨rest, hocc⟩ := occsT_head 0 (-1) 0 (-1) (-1) t
    have hobjs := occs_map_obj t
    unfold occs at hoc hobjs
    rw [hocc] at hoc hobjs
    rcases List.mem_cons.1 hoc with e | e
    · rw [e]
    · exfalso
      unfold machineOnce at h1
      rw [← hobjs, List.map_cons, cnt_cons] at h1
      have c1 : cnt (fun x => x.type) tMACHINE [t.obj] = 1 := by unfold cnt; simp [hm]
      have c2 : 0 < cnt (fun x => x.type) tMACHINE (rest.map (·.t.obj)) := by
        unfold cnt
        rw [List.count_pos_iff, List.mem_map]
        exact ⟨oc.t.obj, List.mem_map_of_mem e, hty⟩
      have : cnt (fun x => x.type) tMACHINE [(⟨0, -1, 0, -1, -1, t⟩ : Occ).t.obj] = 1 := c1
      omega
  · exact Or.inl hty

end Hw.Topo.Restrict
