/-
  Hw.Topo.RestrictAllowed — the WF clause allowed-sets after restrict (B2): the allowed sets stay inside (without
  INCLUDE_DISALLOWED: equal to) the root's sets, because hwloc_topology_restrict subtracts the same dropped sets from both, and
  level merging never touches the root object.
-/
import Hw.Topo.RestrictExists
namespace Hw.Topo.Restrict
open Hw.Topo Hw.Gen.Restrict

/-- C01 clause allowed-sets on the tree level (`incl` = HWLOC_TOPOLOGY_FLAG_INCLUDE_DISALLOWED) -/
def allowedOKT (T : Topo) (incl : Bool) : Bool :=
  T.tree.obj.hasSets && subset T.allowedCpu T.tree.obj.cpuset && subset T.allowedNode T.tree.obj.nodeset &&
  (incl || (T.allowedCpu == T.tree.obj.cpuset && T.allowedNode == T.tree.obj.nodeset))

theorem root_mem (t : Tree) : t.obj ∈ objsT t := by
  cases t; rw [objsT]; exact List.mem_cons_self

/-- it holds for the tree of every well-formed dump -/
theorem wf_allowedOK {d : Dump} (h : WF d) (t : Tree) (ht : treeOf d = .ok t) :
    allowedOKT { tree := t, allowedCpu := d.allowedCpuset.getD 0, allowedNode := d.allowedNodeset.getD 0, filters := d.filters }
      (flagIncludeDisallowed d) = true := by
  have hm := (wf_treeOf h t ht).2.2.1
  obtain ⟨c, hc, e⟩ := List.mem_map.1 ((treeOf_perm h t ht).mem_iff.1 (root_mem t))
  have hct : c.type = tMACHINE := by rw [← robjOf_type, e]; exact hm
  have hid := h.machine_is_root c hc hct
  obtain ⟨i, hi⟩ := List.mem_iff_getElem?.1 hc
  have hpos := h.id_eq_pos hi
  rw [hid] at hpos
  rw [← hpos] at hi
  obtain ⟨r, hr, s1, s2, heq⟩ := h.allowed
  rw [hi] at hr
  have hrc : r = c := (Option.some.inj hr).symm
  subst hrc
  have hsets := List.all_eq_true.1 (treeOf_setsPres h t ht) _ (root_mem t)
  simp only [beq_iff_eq] at hsets
  unfold allowedOKT
  simp only [Bool.and_eq_true, Bool.or_eq_true, beq_iff_eq]
  refine ⟨⟨⟨?_, ?_⟩, ?_⟩, ?_⟩
  · rw [hsets, hm]; rfl
  · rw [← e]; exact s1
  · rw [← e]; exact s2
  · cases hf : flagIncludeDisallowed d with
    | true => exact Or.inl rfl
    | false =>
      right
      have := heq hf
      rw [← e]
      exact ⟨by rw [this.1]; rfl, by rw [this.2]; rfl⟩

theorem subset_trans' {a b c : Nat} (h1 : subset a b = true) (h2 : subset b c = true) : subset a c = true := by
  unfold subset at *
  simp only [beq_iff_eq] at *
  apply Nat.eq_of_testBit_eq
  intro i
  have e1 := congrArg (fun x => x.testBit i) h1
  have e2 := congrArg (fun x => x.testBit i) h2
  simp only [Nat.testBit_and] at e1 e2 ⊢
  cases ha : a.testBit i <;> cases hb : b.testBit i <;> cases hc : c.testBit i <;> simp_all

/-- … and is preserved by every restrict call -/
theorem allowedOK_restrict (T : Topo) (s : CSet) (flags : Nat) (incl : Bool) (hok : okT T.tree = true)
    (hty : typedT T.tree = true) (hr : isNormal T.tree.obj.type = true) (hl : puLeafT T.tree = true) (hs : mergeSafe T)
    (h : allowedOKT T incl = true) : allowedOKT (restrict T s flags).1 incl = true := by
  cases hret : (restrict T s flags).2 with
  | einval => rw [restrict_unchanged_of_not_ok T s flags (by rw [hret]; decide)]; exact h
  | rootRemoved => rw [restrict_unchanged_of_not_ok T s flags (by rw [hret]; decide)]; exact h
  | ok =>
    unfold restrict at hret ⊢
    cases hp : plan T s flags with
    | none => rw [hp] at hret; cases hret
    | some p =>
      rw [hp] at hret
      simp only [] at hret ⊢
      cases hc : restrictCore T p with
      | none => rw [hc] at hret; cases hret
      | some t' =>
        simp only []
        have hroot := restrictCore_root T p t' hc
        have ht' := restrictCore_typed T p t' hc hty hr
        have hty' : t'.tree.obj.type = T.tree.obj.type := by rw [hroot.1, type_shrinkG]
        have hk := keepStructure_pu t'.filters (by rw [hroot.2.2.2.1]; exact hs.2.1) t'.tree
          (by rw [hroot.2.2.2.1, hty']; exact hs.2.2) (restrictCore_nodup T p t' hc hs.1) ht'.1 ht'.2 (restrictCore_puLeaf T p t' hc hl)
        have hsub : subset T.tree.obj.cpuset T.tree.obj.ccpuset = true ∧ subset T.tree.obj.nodeset T.tree.obj.cnodeset = true := by
          cases hT : T.tree with
          | node o ns ms ios mis =>
            rw [hT] at hok
            have := (okT_node o ns ms ios mis).1 hok
            exact ⟨this.1, this.2.1⟩
        have hobj : (keepStructure t'.filters t'.tree).obj = shrinkU p T.tree.obj := by
          rw [hk.2.1, hroot.1, shrinkG_eq_shrinkU p _ hsub.1 hsub.2]
        unfold allowedOKT at h ⊢
        simp only [Bool.and_eq_true, Bool.or_eq_true, beq_iff_eq] at h ⊢
        rw [hobj, hroot.2.1, hroot.2.2.1]
        have c1 : (shrinkU p T.tree.obj).cpuset = minus T.tree.obj.cpuset p.dc := rfl
        have c2 : (shrinkU p T.tree.obj).nodeset = minus T.tree.obj.nodeset p.dn := rfl
        have c3 : (shrinkU p T.tree.obj).hasSets = T.tree.obj.hasSets := rfl
        rw [c1, c2, c3]
        refine ⟨⟨⟨h.1.1.1, minus_mono _ h.1.1.2⟩, minus_mono _ h.1.2⟩, ?_⟩
        rcases h.2 with h' | h'
        · exact Or.inl h'
        · exact Or.inr ⟨by rw [h'.1], by rw [h'.2]⟩

theorem clause_allowed_sets : topClause "allowed-sets" = fun d _ => match d.objs[0]? with
      | some r =>
        d.allowedCpuset.isSome && d.allowedNodeset.isSome &&
        subset (d.allowedCpuset.getD 0) (r.cpuset.getD 0) && subset (d.allowedNodeset.getD 0) (r.nodeset.getD 0) &&
        (flagIncludeDisallowed d || (d.allowedCpuset == r.cpuset && d.allowedNodeset == r.nodeset))
      | none => false := by
  simp only [topClause, topClauses, List.find?, String.reduceBEq]
  rfl

/-- **allowed-sets** for the rendering of every topology that satisfies it on the tree level -/
theorem render_allowed_sets (T : Topo) (fl : Nat) (h : allowedOKT T (fl % 2 == 1) = true) (ex : RObj → Extra) :
    topClause "allowed-sets" (render T.tree ⟨fl, T.filters, some T.allowedCpu, some T.allowedNode⟩ ex)
      (mkAux (render T.tree ⟨fl, T.filters, some T.allowedCpu, some T.allowedNode⟩ ex)) = true := by
  rw [clause_allowed_sets]
  obtain ⟨rest, hocc⟩ := occsT_head 0 (-1) 0 (-1) (-1) T.tree
  have h0 : (occs T.tree)[0]? = some ⟨0, -1, 0, -1, -1, T.tree⟩ := by unfold occs; rw [hocc]; rfl
  have hg : (render T.tree ⟨fl, T.filters, some T.allowedCpu, some T.allowedNode⟩ ex).objs[0]? =
      some (rObj T.tree ex ⟨0, -1, 0, -1, -1, T.tree⟩) := by rw [render_get, h0]; rfl
  simp only [hg]
  obtain ⟨e1, _, e3, _⟩ := ro_cpuset (normalLevels T.tree) (occs T.tree) ex ⟨0, -1, 0, -1, -1, T.tree⟩
  unfold allowedOKT at h
  simp only [Bool.and_eq_true, Bool.or_eq_true, beq_iff_eq] at h
  unfold rObj
  rw [e1, e3]
  simp only [optSet, h.1.1.1, if_true]
  show ((some T.allowedCpu).isSome && (some T.allowedNode).isSome &&
      subset ((some T.allowedCpu).getD 0) ((some T.tree.obj.cpuset).getD 0) &&
      subset ((some T.allowedNode).getD 0) ((some T.tree.obj.nodeset).getD 0) &&
      (fl % 2 == 1 || (some T.allowedCpu == some T.tree.obj.cpuset && some T.allowedNode == some T.tree.obj.nodeset))) = true
  simp only [Option.isSome_some, Option.getD_some, Bool.true_and, Bool.and_eq_true, Bool.or_eq_true, beq_iff_eq, Option.some.injEq]
  exact ⟨⟨h.1.1.2, h.1.2⟩, h.2⟩

end Hw.Topo.Restrict
