/-
  Hw.Topo.WF — well-formedness of a topology dump: the declarative conjunction of every clause of
  property C01, written independently of hwloc_topology_check() and over mask (set) semantics.
  All quantifiers are bounded by the dump's lists, so `WF` is decidable; `wfCheck` returns the
  names of the violated clauses (with the offending object) and is proved to be empty exactly
  when `WF` holds.
-/
import Hw.Topo.Types
namespace Hw.Topo

/-! ### auxiliary per-object aggregates over the children lists -/

structure Aux where
  cpuOr : List Nat       -- OR of the cpusets of the normal children
  cpuDisj : List Bool    -- … which are pairwise disjoint
  memOr : List Nat       -- OR of the nodesets of the memory children
  memDisj : List Bool
  totSum : List Nat      -- Σ total_memory over normal and memory children
  nNormal : List Nat     -- number of objects whose parent is this one, per kind
  nMemory : List Nat
  nIO : List Nat
  nMisc : List Nat
  inh : List Nat         -- nodes inherited from the ancestors' memory children (normal objects)
  below : List Nat       -- nodes attached at or below this object (normal objects)
  belowDisj : List Bool
deriving Repr

def getN (l : List Nat) (i : Nat) : Nat := (l[i]?).getD 0
def getB (l : List Bool) (i : Nat) : Bool := (l[i]?).getD true

def orInto (acc : List Nat × List Bool) (p : Nat) (s : Nat) : List Nat × List Bool :=
  let cur := getN acc.1 p
  (acc.1.set p (cur ||| s), if disjoint cur s then acc.2 else acc.2.set p false)

def mkAux (d : Dump) : Aux :=
  let n := d.objs.length
  let z := List.replicate n 0
  let t := List.replicate n true
  let step (a : Aux) (o : Obj) : Aux :=
    if o.parent < 0 then a else
    let p := o.parent.toNat
    let a := { a with totSum := if isNormal o.type || isMemory o.type then a.totSum.set p (getN a.totSum p + o.totalMem) else a.totSum }
    if isNormal o.type then
      let (c, dj) := orInto (a.cpuOr, a.cpuDisj) p (o.cpuset.getD 0)
      { a with cpuOr := c, cpuDisj := dj, nNormal := a.nNormal.set p (getN a.nNormal p + 1) }
    else if isMemory o.type then
      let (c, dj) := orInto (a.memOr, a.memDisj) p (o.nodeset.getD 0)
      { a with memOr := c, memDisj := dj, nMemory := a.nMemory.set p (getN a.nMemory p + 1) }
    else if isIO o.type then { a with nIO := a.nIO.set p (getN a.nIO p + 1) }
    else { a with nMisc := a.nMisc.set p (getN a.nMisc p + 1) }
  let a0 : Aux := ⟨z, t, z, t, z, z, z, z, z, z, z, t⟩
  let a := d.objs.foldl step a0
  -- inherited nodes: top-down (DFS ids: a parent comes before its children)
  let inh := d.objs.foldl (fun (inh : List Nat) (o : Obj) =>
    if isNormal o.type && decide (0 ≤ o.parent) then
      inh.set o.id (getN inh o.parent.toNat ||| getN a.memOr o.parent.toNat) else inh) z
  -- nodes at or below: bottom-up
  let (below, bdisj) := d.objs.foldr (fun (o : Obj) (acc : List Nat × List Bool) =>
    if isNormal o.type then
      -- first add the local memory children of `o` itself, then push to the parent
      let acc := orInto acc o.id (getN a.memOr o.id)
      if 0 ≤ o.parent then orInto acc o.parent.toNat (getN acc.1 o.id) else acc
    else acc) (z, t)
  { a with inh := inh, below := below, belowDisj := bdisj }

/-! ### clauses -/

def flagIncludeDisallowed (d : Dump) : Bool := d.flags % 2 == 1

def idOk (d : Dump) (i : Int) : Bool := i == -1 || (decide (0 ≤ i) && decide (i.toNat < d.objs.length))

def sameKind (t1 t2 : Nat) : Bool :=
  (isNormal t1 && isNormal t2) || (isMemory t1 && isMemory t2) || (isIO t1 && isIO t2) || (isMisc t1 && isMisc t2)

def levelOf (d : Dump) (depth : Int) : Option Level := d.levels.find? (fun l => l.depth == depth)

/-- `hwloc_bitmap_first` of a finite set given as a mask: −1 when empty -/
def firstI (m : Nat) : Int :=
  if m = 0 then -1 else (((List.range (m.log2 + 1)).find? (fun i => m.testBit i)).getD 0 : Nat)

/-- strictly increasing list of ids -/
def increasing : List Int → Bool
  | a :: b :: rest => decide (a < b) && increasing (b :: rest)
  | _ => true

/-- clauses about one object; each returns `true` when satisfied -/
def objClauses : List (String × (Dump → Aux → Obj → Bool)) := [
  ("id-is-position", fun d _ o => (d.objs[o.id]?).map (·.id) == some o.id),
  ("type-in-range", fun _ _ o => o.type < tMAX),
  ("not-filtered-out", fun d _ o => (d.filters[o.type]?).getD 0 != 1),
  -- parent / sibling links, arity, sibling_rank
  ("root-or-parent", fun d _ o => if o.id == 0 then o.parent == -1 else decide (0 ≤ o.parent) && idOk d o.parent && o.parent != (o.id : Int)),
  ("parent-kind", fun d _ o => match d.obj? o.parent with
      | none => o.id == 0
      | some p =>
        -- normal and memory children hang below normal or memory (memcache) parents; I/O below normal or I/O; Misc anywhere
        if isNormal o.type then isNormal p.type
        else if isMemory o.type then (isNormal p.type || p.type == tMEMCACHE)
        else if isIO o.type then (isNormal p.type || isIO p.type)
        else true),
  ("normal-child-slot", fun d _ o => match d.obj? o.parent with
      | none => true
      | some p => if isNormal o.type then (p.children[o.rank]?) == some (o.id : Int) else true),
  ("children-array", fun d _ o => o.children.length == o.arity &&
      o.firstChild == (o.children.head?).getD (-1) && o.lastChild == (o.children.getLast?).getD (-1) &&
      (List.range o.arity).all (fun i => match d.obj? ((o.children[i]?).getD (-2)) with
        | none => false
        | some c => c.parent == (o.id : Int) && c.rank == i && isNormal c.type &&
                    c.prevSib == (if i = 0 then -1 else (o.children[i-1]?).getD (-2)) &&
                    c.nextSib == (o.children[i+1]?).getD (-1))),
  ("children-counts", fun _ a o => getN a.nNormal o.id == o.arity && getN a.nMemory o.id == o.marity &&
      getN a.nIO o.id == o.ioarity && getN a.nMisc o.id == o.miscarity),
  ("special-list-heads", fun d _ o =>
      let chk (first : Int) (ar : Nat) (kind : Nat → Bool) : Bool :=
        if ar == 0 then first == -1 else match d.obj? first with
          | none => false
          | some c => c.parent == (o.id : Int) && c.rank == 0 && kind c.type && c.prevSib == -1
      chk o.memFirst o.marity isMemory && chk o.ioFirst o.ioarity isIO && chk o.miscFirst o.miscarity isMisc),
  ("special-list-links", fun d _ o => match d.obj? o.parent with
      | none => true
      | some p =>
        if isNormal o.type then true else
        let ar := if isMemory o.type then p.marity else if isIO o.type then p.ioarity else p.miscarity
        let first := if isMemory o.type then p.memFirst else if isIO o.type then p.ioFirst else p.miscFirst
        decide (o.rank < ar) && ((o.rank == 0) == (first == (o.id : Int))) && ((o.rank == 0) == (o.prevSib == -1)) &&
        (match d.obj? o.nextSib with
          | none => o.nextSib == -1 && o.rank + 1 == ar
          | some nx => nx.parent == o.parent && sameKind nx.type o.type && nx.rank == o.rank + 1 && nx.prevSib == (o.id : Int)) &&
        (match d.obj? o.prevSib with
          | none => o.prevSib == -1
          | some pv => pv.parent == o.parent && sameKind pv.type o.type && pv.rank + 1 == o.rank && pv.nextSib == (o.id : Int))),
  ("no-children-where-forbidden", fun _ _ o =>
      (if o.type == tPU then o.arity == 0 && o.marity == 0 else true) &&
      (if o.type == tNUMA then o.arity == 0 && o.marity == 0 else true) &&
      (if isMemory o.type then o.arity == 0 && o.ioarity == 0 else true) &&
      (if isIO o.type then o.arity == 0 && o.marity == 0 else true) &&
      (if isMisc o.type then o.arity == 0 && o.marity == 0 && o.ioarity == 0 else true)),
  -- depth / level membership / cousins
  ("depth-by-type", fun d _ o => match specialDepth o.type with
      | some sd => o.depth == sd
      | none => decide (0 ≤ o.depth) && decide (o.depth.toNat < d.depth)),
  ("depth-increases", fun d _ o => match d.obj? o.parent with
      | none => true
      | some p => if isNormal o.type then decide (p.depth < o.depth) else true),
  ("in-its-level", fun d _ o => match levelOf d o.depth with
      | none => false
      | some l => (l.objs[o.lidx]?) == some (o.id : Int) && l.type == (o.type : Int) &&
                  o.prevCousin == (if o.lidx = 0 then -1 else (l.objs[o.lidx - 1]?).getD (-2)) &&
                  o.nextCousin == (l.objs[o.lidx + 1]?).getD (-1)),
  -- sets
  ("sets-presence", fun _ _ o =>
      if isSpecial o.type then o.cpuset.isNone && o.ccpuset.isNone && o.nodeset.isNone && o.cnodeset.isNone
      else o.cpuset.isSome && o.ccpuset.isSome && o.nodeset.isSome && o.cnodeset.isSome),
  ("set-in-complete", fun _ _ o => subset (o.cpuset.getD 0) (o.ccpuset.getD 0) && subset (o.nodeset.getD 0) (o.cnodeset.getD 0)),
  ("set-in-parent", fun d _ o => match d.obj? o.parent with
      | none => true
      | some p => if isSpecial o.type then true else
          subset (o.cpuset.getD 0) (p.cpuset.getD 0) && subset (o.ccpuset.getD 0) (p.ccpuset.getD 0) &&
          subset (o.nodeset.getD 0) (p.nodeset.getD 0) && subset (o.cnodeset.getD 0) (p.cnodeset.getD 0)),
  ("pu-cpuset", fun _ _ o => if o.type == tPU then
      decide (0 ≤ o.osidx) && o.cpuset == some (single o.osidx.toNat) && o.ccpuset == some (single o.osidx.toNat) else true),
  ("numa-nodeset", fun _ _ o => if o.type == tNUMA then
      decide (0 ≤ o.osidx) && o.nodeset == some (single o.osidx.toNat) && o.cnodeset == some (single o.osidx.toNat) else true),
  ("cpuset-is-disjoint-union-of-children", fun _ a o =>
      if isNormal o.type && o.type != tPU then o.cpuset == some (getN a.cpuOr o.id) && getB a.cpuDisj o.id else true),
  ("memory-child-shares-cpuset", fun d _ o => match d.obj? o.parent with
      | none => true
      | some p => if isMemory o.type then o.cpuset == p.cpuset else true),
  ("memcache-nodeset", fun _ a o => if o.type == tMEMCACHE then o.nodeset == some (getN a.memOr o.id) && getB a.memDisj o.id else true),
  ("nodeset-decomposition", fun _ a o =>
      if isNormal o.type then
        getB a.memDisj o.id && getB a.belowDisj o.id && disjoint (getN a.inh o.id) (getN a.below o.id) &&
        o.nodeset == some (getN a.inh o.id ||| getN a.below o.id)
      else true),
  ("pu-allowed", fun d _ o => if o.type == tPU && !flagIncludeDisallowed d then
      subset (o.cpuset.getD 0) (d.allowedCpuset.getD 0) else true),
  ("numa-allowed", fun d _ o => if o.type == tNUMA && !flagIncludeDisallowed d then
      subset (o.nodeset.getD 0) (d.allowedNodeset.getD 0) else true),
  -- memory
  ("total-memory", fun _ a o =>
      o.totalMem == (if o.type == tNUMA then ((o.attrs[0]?).getD 0).toNat else 0) + getN a.totSum o.id),
  -- type-specific attributes
  ("cache-attrs", fun _ _ o =>
      let depth := (o.attrs[1]?).getD 0
      let ctype := (o.attrs[4]?).getD 0
      if isDCache o.type then (ctype == 0 || ctype == 1) && depth == ((o.type - tL1 + 1 : Nat) : Int)
      else if isICache o.type then ctype == 2 && depth == ((o.type - tL1I + 1 : Nat) : Int)
      else true),
  ("group-depth", fun _ _ o => if o.type == tGROUP then (o.attrs[0]?).getD 0 != 4294967295 else true),
  -- order of children lists (asserted by hwloc__check_children_cpusets / hwloc__check_nodesets): normal children by the first
  -- bit of their complete_cpuset with the CPU-less ones last, memory children by the first bit of their complete_nodeset
  ("siblings-ordered", fun d _ o => match d.obj? o.nextSib with
      | none => true
      | some nx =>
        if isNormal o.type && isNormal nx.type then
          decide (firstI (nx.ccpuset.getD 0) < 0) ||
          (decide (0 ≤ firstI (o.ccpuset.getD 0)) && decide (firstI (o.ccpuset.getD 0) < firstI (nx.ccpuset.getD 0)))
        else if isMemory o.type && isMemory nx.type then
          decide (firstI (o.cnodeset.getD 0) < firstI (nx.cnodeset.getD 0))
        else true)
]

/-- clauses about the topology as a whole -/
def topClauses : List (String × (Dump → Aux → Bool)) := [
  ("nobjs", fun d _ => d.objs.length == d.nobjs && decide (0 < d.nobjs)),
  ("root-is-machine", fun d _ => d.root == 0 && (match d.objs[0]? with
      | some r => r.type == tMACHINE && r.depth == 0 && r.parent == -1
      | none => false)),
  ("machine-only-at-root", fun d _ => d.objs.all (fun o => o.type != tMACHINE || o.id == 0)),
  ("level0-is-root", fun d _ => match levelOf d 0 with
      | some l => l.objs == [0] && l.type == (tMACHINE : Int)
      | none => false),
  ("pu-level-deepest", fun d _ => decide (0 < d.depth) && (match levelOf d ((d.depth : Int) - 1) with
      | some l => l.type == (tPU : Int) && !l.objs.isEmpty
      | none => false) &&
      d.objs.all (fun o => o.type != tPU || o.depth == (d.depth : Int) - 1)),
  ("numa-exists", fun d _ => match levelOf d (-3) with
      | some l => !l.objs.isEmpty
      | none => false),
  ("levels-listed", fun d _ =>
      (List.range d.depth).all (fun k => (levelOf d (k : Int)).isSome) &&
      [(-3 : Int), -4, -5, -6, -7, -8].all (fun k => (levelOf d k).isSome) &&
      d.levels.length == d.depth + 6),
  ("levels-cover-objects", fun d _ => (d.levels.map (fun l => l.objs.length)).sum == d.objs.length),
  ("level-entries-valid", fun d _ => d.levels.all (fun l =>
      (List.range l.objs.length).all (fun i => match d.obj? ((l.objs[i]?).getD (-2)) with
        | some o => o.depth == l.depth && o.lidx == i
        | none => false))),
  ("normal-level-types", fun d _ => d.levels.all (fun l =>
      if 0 ≤ l.depth then decide (0 ≤ l.type) && isNormal l.type.toNat &&
        (l.type != (tPU : Int) || l.depth == (d.depth : Int) - 1) &&
        (l.type != (tMACHINE : Int) || l.depth == 0)
      else (specialDepth l.type.toNat) == some l.depth && decide (0 ≤ l.type))),
  ("type-depth-inverse", fun d _ => d.typeDepths.length == tMAX &&
      (List.range tMAX).all (fun t =>
        let td := (d.typeDepths[t]?).getD 0
        match specialDepth t with
        | some sd => td == sd
        | none =>
          let ls := d.levels.filter (fun l => decide (0 ≤ l.depth) && l.type == (t : Int))
          -- several levels of one type (asymmetric trees; typically Groups): HWLOC_TYPE_DEPTH_MULTIPLE
          match ls with
          | [] => td == -1
          | [l] => td == l.depth
          | _ => td == -2)),
  ("allowed-sets", fun d _ => match d.objs[0]? with
      | some r =>
        d.allowedCpuset.isSome && d.allowedNodeset.isSome &&
        subset (d.allowedCpuset.getD 0) (r.cpuset.getD 0) && subset (d.allowedNodeset.getD 0) (r.nodeset.getD 0) &&
        (flagIncludeDisallowed d || (d.allowedCpuset == r.cpuset && d.allowedNodeset == r.nodeset))
      | none => false),
  ("pu-osindex-unique", fun d _ => ((d.objs.filter (fun o => o.type == tPU)).map (·.osidx)).Nodup),
  ("numa-osindex-unique", fun d _ => ((d.objs.filter (fun o => o.type == tNUMA)).map (·.osidx)).Nodup),
  ("gp-index-unique", fun d _ => (d.objs.map (·.gp)).Nodup),
  ("normal-levels-nonempty", fun d _ => d.levels.all (fun l => decide (l.depth < 0) || !l.objs.isEmpty)),
  ("depth-le-objects", fun d _ => decide (d.depth ≤ d.objs.length)),
  -- every level lists its objects in the order of the tree (ids are DFS order): hwloc_connect_levels and
  -- hwloc_list_special_objects walk the tree left to right, logical indexes and cousin links follow
  ("levels-in-tree-order", fun d _ => d.levels.all (fun l => increasing l.objs))
]

/-- **well-formedness** (C01): every clause holds, for the topology and for every object -/
def WF (d : Dump) : Prop :=
  (∀ c ∈ topClauses, c.2 d (mkAux d) = true) ∧ ∀ c ∈ objClauses, ∀ o ∈ d.objs, c.2 d (mkAux d) o = true

/-- executable oracle: the violated clauses (topology-level names; object-level `name@id`) -/
def wfCheck (d : Dump) : List String :=
  let a := mkAux d
  (topClauses.filter (fun c => !c.2 d a)).map (·.1) ++
  (objClauses.map (fun c => (d.objs.filter (fun o => !c.2 d a o)).map (fun o => c.1 ++ "@" ++ toString o.id))).flatten

theorem wfCheck_iff (d : Dump) : wfCheck d = [] ↔ WF d := by
  unfold wfCheck WF
  simp only [List.append_eq_nil_iff, List.map_eq_nil_iff, List.filter_eq_nil_iff, List.flatten_eq_nil_iff,
    List.mem_map, forall_exists_index, and_imp, forall_apply_eq_imp_iff₂, Bool.not_eq_true', Bool.not_eq_false]

instance (d : Dump) : Decidable (WF d) := decidable_of_iff _ (wfCheck_iff d)

end Hw.Topo
