/-
  Hw.Topo.SetStageNested — memory hierarchies of any depth after the set stage.

  A memory object may hang below another memory object: a NUMA node behind a memory-side cache, itself possibly behind a
  second memory-side cache (`memory_first_child` of a MemCache).  `remove_unused_sets` must therefore RECURSE into memory
  children (clipping only the direct memory children of normal objects leaves the disallowed PUs / nodes in the nested
  ones).  `MemBelow t m` = `m` is a memory child of `t`, or of a memory child of `t`, and so on; the lemmas here lift the
  per-node postconditions of the stage (`Post`, within-allowed) along such chains of any length.
-/
import Hw.Topo.SetStagePre
namespace Hw.Topo.SetStage
open Hw.Topo

/-- `m` is in the memory hierarchy attached to `t`: a memory child of `t`, or a memory child of a memory child, … -/
inductive MemBelow : ST → ST → Prop
  | child {t m : ST} : m ∈ t.mem → MemBelow t m
  | deeper {t c m : ST} : c ∈ t.mem → MemBelow c m → MemBelow t m

/-- a predicate at every node is a predicate at every node of every subtree -/
theorem AllN.sub {P : SObj → List ST → List ST → Prop} : ∀ t, AllN P t → AllN (fun o k m => AllN P (.node o k m)) t := by
  apply ST.ind
  intro o kids mem ihk ihm h
  exact .node h (fun c hc => ihk c hc (h.kids c hc)) (fun c hc => ihm c hc (h.mem c hc))

/-- what a memory object at any depth below `t` inherits: the cpusets of `t`, nodesets inside those of `t`, and the per-object
property `R` that holds at every node -/
def Inherit (R : SObj → Prop) (t m : SObj) : Prop :=
  m.cpuset = t.cpuset ∧ m.ccpuset = t.ccpuset ∧ Sub m.nodeset t.nodeset ∧ Sub (m.cnodeset.getD 0) (t.cnodeset.getD 0) ∧ R m

theorem memBelow_inherit {R : SObj → Prop} {t m : ST} (hb : MemBelow t m) :
    AllN (fun o k mm => Post o k mm ∧ R o) t → Inherit R t.o m.o := by
  induction hb with
  | @child t m hm =>
    intro h
    cases t with
    | node o kids mem =>
      have hp := (h.here.1).2.2.1 m hm
      exact ⟨hp.2.1, hp.2.2, hp.1.2.2.1, hp.1.2.2.2, ((h.mem m hm) |> fun hm' => by cases m with | node mo mk mm => exact hm'.here.2)⟩
  | @deeper t c m hc _ ih =>
    intro h
    cases t with
    | node o kids mem =>
      have hp := (h.here.1).2.2.1 c hc
      have hi := ih (h.mem c hc)
      exact ⟨hi.1.trans hp.2.1, hi.2.1.trans hp.2.2, hi.2.2.1.trans hp.1.2.2.1, hi.2.2.2.1.trans hp.1.2.2.2, hi.2.2.2.2⟩

/-- at every node `o` of the tree, every memory object at any depth below it inherits from `o` -/
theorem allN_memBelow {R : SObj → Prop} (t : ST) (h : AllN (fun o k mm => Post o k mm ∧ R o) t) :
    AllN (fun o k mm => ∀ m, MemBelow (.node o k mm) m → Inherit R o m.o) t :=
  AllN.imp (fun _ _ _ hs _ hb => memBelow_inherit hb hs) t (AllN.sub t h)

/-- the stage: shared cpusets and nodeset inclusion along memory chains of any length (any flags) -/
theorem stage_nested_memory (i : In) (h : PreSets i) :
    AllN (fun o k mm => ∀ m, MemBelow (.node o k mm) m → Inherit (fun _ => True) o m.o) (stage i).root :=
  allN_memBelow _ (AllN.imp (fun _ _ _ hp => ⟨hp, trivial⟩) _ (stage_post i h))

/-- … and, without INCLUDE_DISALLOWED, inside the allowed sets at any depth -/
theorem stage_nested_memory_allowed (i : In) (h : PreSets i) (hf : i.includeDisallowed = false) :
    AllN (fun o k mm => ∀ m, MemBelow (.node o k mm) m →
      Inherit (fun x => Sub x.cpuset (stage i).allowedC ∧ Sub x.nodeset (stage i).allowedN) o m.o) (stage i).root :=
  allN_memBelow _ (AllN.and _ (stage_post i h) (stage_within_allowed i hf))

/-! ### the shallow variant is wrong

`removeUnusedShallow` clips the memory children of an object inline instead of recursing into them (the natural-looking
"memory children have no normal children, no need to recurse" shortcut).  It agrees with `removeUnused` on trees whose memory
objects have no memory children, and differs as soon as a NUMA node sits behind a memory-side cache. -/

mutual
def removeUnusedShallow (ac an : Nat) : ST → ST
  | .node o kids mem => .node (clip ac an o) (removeUnusedShallowL ac an kids)
      (mem.map (fun m => .node (clip ac an m.o) m.kids m.mem))
def removeUnusedShallowL (ac an : Nat) : List ST → List ST
  | [] => []
  | c :: cs => removeUnusedShallow ac an c :: removeUnusedShallowL ac an cs
end

end Hw.Topo.SetStage
