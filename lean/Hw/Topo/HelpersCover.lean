/-
  Hw.Topo.HelpersCover — correctness of the model of hwloc's "covering" helpers
  (hwloc_get_obj_covering_cpuset) and "largest objects inside a cpuset" helpers
  (hwloc_get_largest_objs_inside_cpuset) on a dump satisfying `Tree`.
-/
import Hw.Topo.HelpersBasic
namespace Hw.Topo

/-! ### small set / list facts -/

theorem subset_trans' {a b c : Nat} (h1 : subset a b = true) (h2 : subset b c = true) : subset a c = true := by
  rw [subset_iff] at *; intro i hi; exact h2 i (h1 i hi)

theorem subset_rflC' (a : Nat) : subset a a = true := by
  rw [subset_iff]; intro i hi; exact hi

theorem pairwise_sym_of_mem {α : Type} {R : α → α → Prop} (hs : ∀ a b, R a b → R b a) :
    ∀ {l : List α}, l.Pairwise R → ∀ {a b : α}, a ∈ l → b ∈ l → a ≠ b → R a b := by
  intro l
  induction l with
  | nil => intro _ a b ha; cases ha
  | cons x l ih =>
    intro hp a b ha hb hne
    rw [List.pairwise_cons] at hp
    rcases List.mem_cons.1 ha with hax | ha'
    · rcases List.mem_cons.1 hb with hbx | hb'
      · exact absurd (hax.trans hbx.symm) hne
      · rw [hax]; exact hp.1 _ hb'
    · rcases List.mem_cons.1 hb with hbx | hb'
      · rw [hbx]; exact hs _ _ (hp.1 _ ha')
      · exact ih hp.2 ha' hb' hne

/-! ### ancestors -/

theorem AncSelf.transC {d : Dump} {a b c : Obj} (h1 : AncSelf d a b) (h2 : AncSelf d b c) : AncSelf d a c := by
  induction h2 with
  | refl => exact h1
  | up hp _ ih => exact AncSelf.up hp ih

/-- seen from the top: `a` is `o`, or `a` has a child (by parent link) on the path to `o` -/
theorem AncSelf.top_cases {d : Dump} {a o : Obj} (h : AncSelf d a o) :
    a = o ∨ ∃ c, d.obj? c.parent = some a ∧ AncSelf d c o := by
  induction h with
  | refl => exact Or.inl rfl
  | up hp _ ih =>
    rcases ih with heq | ⟨c, hc, hco⟩
    · rw [← heq] at hp; exact Or.inr ⟨_, hp, AncSelf.refl _⟩
    · exact Or.inr ⟨c, hc, AncSelf.up hp hco⟩

/-- seen from the bottom -/
theorem AncSelf.bot_cases {d : Dump} {a o : Obj} (h : AncSelf d a o) :
    a = o ∨ ∃ p, d.obj? o.parent = some p ∧ AncSelf d a p := by
  cases h with
  | refl => exact Or.inl rfl
  | up hp h' => exact Or.inr ⟨_, hp, h'⟩

theorem Tree.parent_normal {d : Dump} (ht : Tree d) {o p : Obj} (ho : o ∈ d.objs) (hn : isNormal o.type = true)
    (hp : d.obj? o.parent = some p) :
    p ∈ d.objs ∧ isNormal p.type = true ∧ p.depth < o.depth ∧ subset (cs o) (cs p) = true := by
  rcases ht.parent o ho with ⟨_, h1⟩ | ⟨_, p', hp', hpm, hnorm, _⟩
  · rw [h1] at hp; simp [Dump.obj?] at hp
  · rw [hp] at hp'; cases hp'
    obtain ⟨a, b, _, c, _⟩ := hnorm hn
    exact ⟨hpm, a, b, c⟩

theorem Tree.ancSelf_normal {d : Dump} (ht : Tree d) {a o : Obj} (h : AncSelf d a o) (ho : o ∈ d.objs)
    (hn : isNormal o.type = true) :
    a ∈ d.objs ∧ isNormal a.type = true ∧ a.depth ≤ o.depth ∧ subset (cs o) (cs a) = true := by
  induction h with
  | refl => exact ⟨ho, hn, Int.le_refl _, subset_rflC' _⟩
  | up hp _ ih =>
    obtain ⟨h1, h2, h3, h4⟩ := ht.parent_normal ho hn hp
    obtain ⟨i1, i2, i3, i4⟩ := ih h1 h2
    exact ⟨i1, i2, by omega, subset_trans' h4 i4⟩

theorem Tree.child_facts {d : Dump} (ht : Tree d) {p c : Obj} (hp : p ∈ d.objs) (hc : c ∈ childObjs d p) :
    c ∈ d.objs ∧ isNormal c.type = true ∧ d.obj? c.parent = some p ∧ p.depth < c.depth ∧
      subset (cs c) (cs p) = true ∧ isNormal p.type = true ∧ c.cpuset.isSome = true := by
  obtain ⟨h1, h2, h3⟩ := (ht.mem_childObjs hp).1 hc
  have h4 : d.obj? c.parent = some p := by rw [h3]; exact ht.obj?_id hp
  obtain ⟨_, q1, q2, q3⟩ := ht.parent_normal h1 h2 h4
  exact ⟨h1, h2, h4, q2, q3, q1, ((ht.depth c h1).2.2.1 (Or.inl h2)).1⟩

theorem Tree.mem_childObjs_of_parent {d : Dump} (ht : Tree d) {p c : Obj} (hc : c ∈ d.objs)
    (hn : isNormal c.type = true) (h : d.obj? c.parent = some p) : c ∈ childObjs d p :=
  (ht.mem_childObjs (obj?_mem h)).2 ⟨hc, hn, (ht.obj?_some_id h).symm⟩

theorem disjoint_symm' {a b : Nat} (h : disjoint a b = true) : disjoint b a = true := by
  rw [disjoint_iff] at *; intro i ⟨x, y⟩; exact h i ⟨y, x⟩

/-- two different children cannot both include a non-empty set -/
theorem Tree.child_unique {d : Dump} (ht : Tree d) {p c c' : Obj} {S : Nat} (hp : p ∈ d.objs) (hS : S ≠ 0)
    (hc : c ∈ childObjs d p) (hc' : c' ∈ childObjs d p) (h : subset S (cs c) = true)
    (h' : subset S (cs c') = true) : c = c' := by
  apply Classical.byContradiction; intro hne
  have hd := pairwise_sym_of_mem (R := fun a b => Hw.Topo.disjoint (cs a) (cs b) = true)
    (fun a b hab => disjoint_symm' hab) (ht.disjoint p hp) hc hc' hne
  obtain ⟨i, hi⟩ := (ne_zero_iff S).1 hS
  rw [subset_iff] at h h'; rw [disjoint_iff] at hd
  exact hd i ⟨h i hi, h' i hi⟩

/-! ### covering -/

theorem Tree.childCovering_some {d : Dump} (ht : Tree d) {S : Nat} {cur c : Obj} (hcur : cur ∈ d.objs)
    (h : childCovering d S cur = some c) : c ∈ childObjs d cur ∧ subset S (cs c) = true := by
  unfold childCovering at h
  split at h
  · cases h
  · rw [ht.childChain_eq hcur] at h
    have hm := List.mem_of_find?_eq_some h
    have hp := List.find?_some h
    simp only [Bool.and_eq_true] at hp
    exact ⟨hm, hp.2⟩

theorem Tree.childCovering_none {d : Dump} (ht : Tree d) {S : Nat} {cur : Obj} (hcur : cur ∈ d.objs) (hS : S ≠ 0)
    (h : childCovering d S cur = none) : ∀ c ∈ childObjs d cur, subset S (cs c) = false := by
  unfold childCovering at h
  split at h
  · rename_i h0; simp at h0; exact absurd h0 hS
  · rw [ht.childChain_eq hcur, List.find?_eq_none] at h
    intro c hc
    have := h c hc
    have hsome := (ht.child_facts hcur hc).2.2.2.2.2.2
    simp [hsome] at this
    exact this

theorem Tree.coveringFrom_spec {d : Dump} (ht : Tree d) {S : Nat} (hS : S ≠ 0) :
    ∀ (f : Nat) (cur : Obj), cur ∈ d.objs → isNormal cur.type = true → subset S (cs cur) = true →
      (d.depth : Int) ≤ cur.depth + (f : Int) →
      coveringFrom d S f cur ∈ d.objs ∧ isNormal (coveringFrom d S f cur).type = true ∧
        subset S (cs (coveringFrom d S f cur)) = true ∧ AncSelf d cur (coveringFrom d S f cur) ∧
        ∀ ch ∈ childObjs d (coveringFrom d S f cur), subset S (cs ch) = false := by
  intro f
  induction f with
  | zero =>
    intro cur hcur hn _ hf
    have := ((ht.depth cur hcur).1 hn).2
    omega
  | succ f ih =>
    intro cur hcur hn hsub hf
    cases hcc : childCovering d S cur with
    | none =>
      simp only [coveringFrom, hcc]
      exact ⟨hcur, hn, hsub, AncSelf.refl _, ht.childCovering_none hcur hS hcc⟩
    | some c =>
      simp only [coveringFrom, hcc]
      obtain ⟨hc, hsc⟩ := ht.childCovering_some hcur hcc
      obtain ⟨c1, c2, c3, c4, _⟩ := ht.child_facts hcur hc
      obtain ⟨r1, r2, r3, r4, r5⟩ := ih c c1 c2 hsc (by omega)
      exact ⟨r1, r2, r3, AncSelf.transC (AncSelf.up c3 (AncSelf.refl _)) r4, r5⟩

/-- every normal object including `S` lies on the path from the root to the end of the descent -/
theorem Tree.on_path {d : Dump} (ht : Tree d) {S : Nat} (hS : S ≠ 0) {r c : Obj} (hr : r ∈ d.objs) (hr0 : r.id = 0)
    (hc : c ∈ d.objs) (hcn : isNormal c.type = true) (hsc : subset S (cs c) = true) (hrc : AncSelf d r c)
    (hnc : ∀ ch ∈ childObjs d c, subset S (cs ch) = false) :
    ∀ (n : Nat) (o : Obj), o ∈ d.objs → isNormal o.type = true → subset S (cs o) = true →
      o.depth < (n : Int) → AncSelf d o c := by
  intro n
  induction n with
  | zero => intro o ho hn _ hd; have := ((ht.depth o ho).1 hn).1; omega
  | succ n ih =>
    intro o ho hn hs hd
    rcases ht.parent o ho with ⟨h0, _⟩ | ⟨_, p, hp, hpm, hnorm, _⟩
    · have : o = r := ht.eq_of_id_eq ho hr (by rw [h0, hr0])
      rw [this]; exact hrc
    · obtain ⟨pn, pd, _, psub, _⟩ := hnorm hn
      have hsp : subset S (cs p) = true := subset_trans' hs psub
      have hpc := ih p hpm pn hsp (by omega)
      have hoch := ht.mem_childObjs_of_parent ho hn hp
      rcases hpc.top_cases with hpeq | ⟨c', hc'p, hc'c⟩
      · rw [hpeq] at hoch
        have := hnc o hoch; rw [hs] at this; cases this
      · obtain ⟨a1, a2, _, a4⟩ := ht.ancSelf_normal hc'c hc hcn
        have hc'ch := ht.mem_childObjs_of_parent a1 a2 hc'p
        have hsc' : subset S (cs c') = true := subset_trans' hsc a4
        have : o = c' := ht.child_unique hpm hS hoch hc'ch hs hsc'
        rw [this]; exact hc'c

/-- 1. no covering object for the empty set or a set not included in the root -/
theorem covering_none {d : Dump} {S : Nat} {r : Obj} (hr : d.rootObj? = some r)
    (h : S = 0 ∨ subset S (cs r) = false) : objCovering d S = none := by
  unfold objCovering; rw [hr]
  rcases h with h | h <;> simp [h]

/-- 2. the covering object is the deepest normal object including `S`: every other one is an ancestor -/
theorem covering_deepest {d : Dump} (ht : Tree d) {S : Nat} {r : Obj} (hS : S ≠ 0) (hr : d.rootObj? = some r)
    (hsub : subset S (cs r) = true) :
    ∃ c, objCovering d S = some c ∧ c ∈ d.objs ∧ isNormal c.type = true ∧ subset S (cs c) = true ∧
      ∀ o ∈ d.objs, isNormal o.type = true → subset S (cs o) = true → AncSelf d o c := by
  obtain ⟨r', hr', hrm, hr0, _, hrn, hrd⟩ := ht.rootObj
  rw [hr] at hr'; cases hr'
  have hfuel : (d.depth : Int) ≤ r.depth + (d.fuel : Int) := by
    have := ht.sizes.1; simp only [Dump.fuel]; omega
  obtain ⟨c1, c2, c3, c4, c5⟩ := ht.coveringFrom_spec hS d.fuel r hrm hrn hsub hfuel
  refine ⟨coveringFrom d S d.fuel r, ?_, c1, c2, c3, ?_⟩
  · unfold objCovering; rw [hr]; simp [hS, hsub]
  · intro o ho hn hs
    have hd := ((ht.depth o ho).1 hn).2
    exact ht.on_path hS hrm hr0 c1 c2 c3 c4 c5 d.depth o ho hn hs hd

theorem covering_is_deepest {d : Dump} (ht : Tree d) {S : Nat} {r : Obj} (hS : S ≠ 0) (hr : d.rootObj? = some r)
    (hsub : subset S (cs r) = true) :
    ∃ c, objCovering d S = some c ∧ c ∈ d.objs ∧ isNormal c.type = true ∧ subset S (cs c) = true ∧
      ∀ o ∈ d.objs, isNormal o.type = true → subset S (cs o) = true → o.depth ≤ c.depth := by
  obtain ⟨c, h1, h2, h3, h4, h5⟩ := covering_deepest ht hS hr hsub
  exact ⟨c, h1, h2, h3, h4, fun o ho hn hs => (ht.ancSelf_normal (h5 o ho hn hs) h2 h3).2.2.1⟩

/-! ### largest objects inside -/

/-- 3. -/
theorem largest_not_included {d : Dump} {S : Nat} {r : Obj} (max : Int) (hr : d.rootObj? = some r)
    (h : subset S (cs r) = false) : (largestObjs d S max).1 = -1 := by
  unfold largestObjs; rw [hr]; simp [h]

theorem largest_max_nonpos {d : Dump} {S : Nat} {r : Obj} {max : Int} (hr : d.rootObj? = some r)
    (h : subset S (cs r) = true) (hm : max ≤ 0) : largestObjs d S max = (0, []) := by
  unfold largestObjs; rw [hr]; simp [h, hm]

/-- unbounded variant of `largestRec`: all the maximal objects, without the `max` slots limit -/
def largestAll (d : Dump) : Nat → Obj → Nat → List Obj
  | 0, _, _ => []
  | f+1, cur, S =>
    if cs cur == S then [cur] else
    (childObjs d cur).flatMap (fun c => if intersects S (cs c) then largestAll d f c (S &&& cs c) else [])

theorem largest_fold_aux (d : Dump) (f S M : Nat)
    (ih : ∀ c S' m, largestRec d f c S' m = (largestAll d f c S').take m) :
    ∀ (l : List Obj) (acc accA : List Obj), acc = accA.take M →
      l.foldl (fun (acc : List Obj) c =>
          if acc.length ≥ M then acc
          else if !intersects S (cs c) then acc
          else acc ++ largestRec d f c (S &&& cs c) (M - acc.length)) acc
      = (accA ++ l.flatMap (fun c => if intersects S (cs c) then largestAll d f c (S &&& cs c) else [])).take M := by
  intro l
  induction l with
  | nil => intro acc accA h; simp [h]
  | cons c l ihl =>
    intro acc accA h
    simp only [List.foldl_cons, List.flatMap_cons]
    rw [← List.append_assoc]
    apply ihl
    by_cases hlen : acc.length ≥ M
    · rw [if_pos hlen]
      have : M ≤ accA.length := by rw [h, List.length_take] at hlen; omega
      rw [List.take_append_of_le_length this]; exact h
    · rw [if_neg hlen]
      have hA : accA.length < M := by rw [h, List.length_take] at hlen; omega
      have hacc : acc = accA := by rw [h]; exact List.take_of_length_le (by omega)
      rw [hacc]
      by_cases hint : intersects S (cs c) = true
      · simp only [hint, Bool.not_true, Bool.false_eq_true, if_false, if_true]
        rw [ih, List.take_append, List.take_of_length_le (Nat.le_of_lt hA)]
      · simp only [Bool.not_eq_true] at hint
        simp only [hint, Bool.not_false, if_true, Bool.false_eq_true, if_false]
        rw [List.append_nil, List.take_of_length_le (Nat.le_of_lt hA)]

/-- the bounded traversal returns the first `M` objects of the unbounded one -/
theorem largestRec_eq_take (d : Dump) : ∀ (f : Nat) (cur : Obj) (S M : Nat),
    largestRec d f cur S M = (largestAll d f cur S).take M := by
  intro f
  induction f with
  | zero => intro cur S M; simp [largestRec, largestAll]
  | succ f ih =>
    intro cur S M
    simp only [largestRec, largestAll]
    by_cases hM : M = 0
    · simp [hM]
    · rw [if_neg hM]
      by_cases hcs : (cs cur == S) = true
      · rw [if_pos hcs, if_pos hcs, List.take_of_length_le]
        simp; omega
      · rw [if_neg hcs, if_neg hcs]
        have := largest_fold_aux d f S M ih (childObjs d cur) [] [] (by simp)
        rw [this, List.nil_append]

/-- 5. a smaller `max` returns a prefix -/
theorem largest_max (d : Dump) (f : Nat) (cur : Obj) (S : Nat) {m M : Nat} (hmM : m ≤ M) :
    largestRec d f cur S m = (largestRec d f cur S M).take m := by
  rw [largestRec_eq_take, largestRec_eq_take, List.take_take, Nat.min_eq_left hmM]

theorem largestObjs_max (d : Dump) (S : Nat) {m M : Int} (hm : 0 < m) (hmM : m ≤ M) :
    (largestObjs d S m).2 = ((largestObjs d S M).2).take m.toNat ∧
    (largestObjs d S m).1 = min m (largestObjs d S M).1 := by
  unfold largestObjs
  cases d.rootObj? with
  | none => simp; omega
  | some r =>
    by_cases hs : subset S (cs r) = true
    · have h1 : ¬ m ≤ 0 := by omega
      have h2 : ¬ M ≤ 0 := by omega
      simp only [hs, Bool.not_true, Bool.false_eq_true, if_false, h1, h2]
      rw [largest_max d _ r S (m := m.toNat) (M := M.toNat) (by omega)]
      refine ⟨rfl, ?_⟩
      rw [List.length_take]; omega
    · simp [hs]; omega

/-! ### the partition theorem -/

theorem testBit_orAll_map {α : Type} (l : List α) (f : α → Nat) (i : Nat) :
    (orAll (l.map f)).testBit i = true ↔ ∃ x ∈ l, (f x).testBit i = true := by
  rw [testBit_orAll]; simp

theorem and_and_of_subset {S p c : Nat} (h : subset c p = true) : S &&& p &&& c = S &&& c := by
  apply Nat.eq_of_testBit_eq; intro i
  rw [subset_iff] at h
  have := h i
  simp only [Nat.testBit_and]
  cases hS : S.testBit i <;> cases hp : p.testBit i <;> cases hc : c.testBit i <;> simp_all

theorem and_subset_right (S p : Nat) : subset (S &&& p) p = true := by
  rw [subset_iff]; intro i hi
  rw [Nat.testBit_and, Bool.and_eq_true] at hi; exact hi.2

theorem disjoint_of_subsetC {a b a' b' : Nat} (h : disjoint a b = true) (ha : subset a' a = true)
    (hb : subset b' b = true) : disjoint a' b' = true := by
  rw [disjoint_iff] at *; rw [subset_iff] at ha hb
  intro i ⟨x, y⟩; exact h i ⟨ha i x, hb i y⟩

theorem eq_of_subset_single {a i : Nat} (h : subset a (single i) = true) (h0 : a ≠ 0) : a = single i := by
  rw [subset_iff] at h
  obtain ⟨j, hj⟩ := (ne_zero_iff a).1 h0
  have hij := h j hj
  rw [testBit_single] at hij
  have hij' : i = j := by simpa using hij
  subst hij'
  apply Nat.eq_of_testBit_eq; intro k
  rw [testBit_single]
  by_cases hk : i = k
  · subst hk; simp [hj]
  · cases hak : a.testBit k
    · simp [hk]
    · have := h k hak; rw [testBit_single] at this
      have : i = k := by simpa using this
      exact absurd this hk

theorem orAll_flatMap_aux (L : List Obj) (G : Obj → List Obj) (S : Nat)
    (h : ∀ c ∈ L, orAll ((G c).map cs) = S &&& cs c) :
    orAll ((L.flatMap G).map cs) = S &&& orAll (L.map cs) := by
  apply Nat.eq_of_testBit_eq; intro i
  rw [Bool.eq_iff_iff, testBit_orAll_map, Nat.testBit_and, Bool.and_eq_true, testBit_orAll_map]
  constructor
  · rintro ⟨o, ho, hb⟩
    obtain ⟨c, hc, hoc⟩ := List.mem_flatMap.1 ho
    have : (orAll ((G c).map cs)).testBit i = true := (testBit_orAll_map _ _ _).2 ⟨o, hoc, hb⟩
    rw [h c hc, Nat.testBit_and, Bool.and_eq_true] at this
    exact ⟨this.1, c, hc, this.2⟩
  · rintro ⟨hS, c, hc, hb⟩
    have : (orAll ((G c).map cs)).testBit i = true := by rw [h c hc, Nat.testBit_and, hS, hb]; rfl
    obtain ⟨o, ho, hob⟩ := (testBit_orAll_map _ _ _).1 this
    exact ⟨o, List.mem_flatMap.2 ⟨c, hc, ho⟩, hob⟩

/-- the properties of one result object (relative to the requested set `S`) -/
def LargestOk (d : Dump) (S : Nat) (o : Obj) : Prop :=
  o ∈ d.objs ∧ isNormal o.type = true ∧ subset (cs o) S = true ∧
    (∀ p, d.obj? o.parent = some p → subset (cs p) S = false)

theorem Tree.largestAll_spec {d : Dump} (ht : Tree d) (S : Nat) :
    ∀ (f : Nat) (cur : Obj), cur ∈ d.objs → isNormal cur.type = true →
      (d.depth : Int) ≤ cur.depth + (f : Int) →
      (∀ p, d.obj? cur.parent = some p → subset (cs p) S = false) →
      (largestAll d f cur (S &&& cs cur)).Pairwise (fun a b => Hw.Topo.disjoint (cs a) (cs b) = true) ∧
      (largestAll d f cur (S &&& cs cur)).Nodup ∧
      (∀ o ∈ largestAll d f cur (S &&& cs cur), LargestOk d S o ∧ subset (cs o) (cs cur) = true ∧
          (cs cur ≠ 0 → cs o ≠ 0)) ∧
      orAll ((largestAll d f cur (S &&& cs cur)).map cs) = S &&& cs cur := by
  intro f
  induction f with
  | zero =>
    intro cur hcur hn hf _
    have := ((ht.depth cur hcur).1 hn).2
    omega
  | succ f ih =>
    intro cur hcur hn hf hpar
    simp only [largestAll]
    by_cases hcs : (cs cur == S &&& cs cur) = true
    · rw [if_pos hcs]
      have heq : cs cur = S &&& cs cur := by simpa using hcs
      have hsub : subset (cs cur) S = true := by
        unfold subset; rw [Nat.and_comm, ← heq]; simp
      refine ⟨List.pairwise_singleton _ _, by simp, ?_, ?_⟩
      · intro o ho
        rw [List.mem_singleton] at ho; subst ho
        exact ⟨⟨hcur, hn, hsub, hpar⟩, subset_rflC' _, fun h => h⟩
      · simp only [List.map_cons, List.map_nil, orAll, List.foldl_cons, List.foldl_nil, Nat.zero_or]
        exact heq
    · rw [if_neg hcs]
      have hns : subset (cs cur) S = false := by
        cases hh : subset (cs cur) S with
        | false => rfl
        | true =>
          exfalso; apply hcs
          unfold subset at hh
          have : cs cur &&& S = cs cur := by simpa using hh
          rw [Nat.and_comm, this]; simp
      -- per child
      have hchild : ∀ c ∈ childObjs d cur,
          (if intersects (S &&& cs cur) (cs c) then largestAll d f c (S &&& cs cur &&& cs c) else []).Pairwise
            (fun a b => Hw.Topo.disjoint (cs a) (cs b) = true) ∧
          (if intersects (S &&& cs cur) (cs c) then largestAll d f c (S &&& cs cur &&& cs c) else []).Nodup ∧
          (∀ o ∈ (if intersects (S &&& cs cur) (cs c) then largestAll d f c (S &&& cs cur &&& cs c) else []),
            LargestOk d S o ∧ subset (cs o) (cs c) = true ∧ cs o ≠ 0) ∧
          orAll ((if intersects (S &&& cs cur) (cs c) then largestAll d f c (S &&& cs cur &&& cs c) else []).map cs)
            = S &&& cs c := by
        intro c hc
        obtain ⟨c1, c2, c3, c4, c5, _, _⟩ := ht.child_facts hcur hc
        rw [and_and_of_subset c5]
        by_cases hint : intersects (S &&& cs cur) (cs c) = true
        · rw [if_pos hint]
          have hne : S &&& cs c ≠ 0 := by
            unfold intersects at hint; rw [and_and_of_subset c5] at hint; simpa using hint
          have hparc : ∀ p, d.obj? c.parent = some p → subset (cs p) S = false := by
            intro p hp; rw [c3] at hp; cases hp; exact hns
          obtain ⟨i1, i2, i3, i4⟩ := ih c c1 c2 (by omega) hparc
          have hc0 : cs c ≠ 0 := by intro h; apply hne; rw [h, Nat.and_zero]
          exact ⟨i1, i2, fun o ho => ⟨(i3 o ho).1, (i3 o ho).2.1, (i3 o ho).2.2 hc0⟩, i4⟩
        · rw [if_neg hint]
          have h0 : S &&& cs c = 0 := by
            unfold intersects at hint; rw [and_and_of_subset c5] at hint; simpa using hint
          refine ⟨List.Pairwise.nil, List.nodup_nil, fun o ho => (by cases ho), ?_⟩
          rw [h0]; rfl
      refine ⟨?_, ?_, ?_, ?_⟩
      · rw [List.pairwise_flatMap]
        refine ⟨fun c hc => (hchild c hc).1, (ht.disjoint cur hcur).imp_of_mem ?_⟩
        intro a b ha hb hab x hx y hy
        exact disjoint_of_subsetC hab ((hchild a ha).2.2.1 x hx).2.1 ((hchild b hb).2.2.1 y hy).2.1
      · rw [List.nodup_iff_pairwise_ne, List.pairwise_flatMap]
        refine ⟨fun c hc => (hchild c hc).2.1, (ht.disjoint cur hcur).imp_of_mem ?_⟩
        intro a b ha hb hab x hx y hy hxy
        subst hxy
        have hd := disjoint_of_subsetC hab ((hchild a ha).2.2.1 x hx).2.1 ((hchild b hb).2.2.1 x hy).2.1
        obtain ⟨i, hi⟩ := (ne_zero_iff _).1 ((hchild a ha).2.2.1 x hx).2.2
        rw [disjoint_iff] at hd
        exact hd i ⟨hi, hi⟩
      · intro o ho
        obtain ⟨c, hc, hoc⟩ := List.mem_flatMap.1 ho
        obtain ⟨q1, q2, q3⟩ := (hchild c hc).2.2.1 o hoc
        exact ⟨q1, subset_trans' q2 (ht.child_facts hcur hc).2.2.2.2.1, fun _ => q3⟩
      · rw [orAll_flatMap_aux _ _ S (fun c hc => (hchild c hc).2.2.2)]
        by_cases har : cur.arity = 0
        · have hlen := (ht.children cur hcur).2.1
          have hlen2 := (ht.children cur hcur).2.2.1
          have hnil : childObjs d cur = [] := List.eq_nil_of_length_eq_zero (by omega)
          rw [hnil]
          show S &&& 0 = S &&& cs cur
          rw [Nat.and_zero]
          apply Classical.byContradiction; intro hne
          have hS' : S &&& cs cur ≠ 0 := fun h => hne h.symm
          have hc0 : cs cur ≠ 0 := by
            intro h; apply hS'; rw [h, Nat.and_zero]
          have hpu := (ht.union cur hcur).2 hn har hc0
          have hsingle := ((ht.depth cur hcur).2.2.2.2.1 hpu).2.1
          have hss : subset (S &&& cs cur) (single cur.osidx.toNat) = true := by
            rw [← hsingle]; exact and_subset_right _ _
          have := eq_of_subset_single hss hS'
          apply hcs; rw [this, hsingle]; simp
        · rw [← ((ht.union cur hcur).1 har).2.2]

/-- with enough room the bounded traversal is the unbounded one, which satisfies the specification -/
theorem Tree.largestObjs_all {d : Dump} (ht : Tree d) {S : Nat} {r : Obj} (hr : d.rootObj? = some r)
    (hsub : subset S (cs r) = true) (max : Int) (hmax : max ≥ d.objs.length) (hpos : 0 < max) :
    largestObjs d S max = (((largestAll d d.fuel r S).length : Int), largestAll d d.fuel r S) ∧
    (largestAll d d.fuel r S).Pairwise (fun a b => Hw.Topo.disjoint (cs a) (cs b) = true) ∧
    (largestAll d d.fuel r S).Nodup ∧
    (∀ o ∈ largestAll d d.fuel r S, LargestOk d S o ∧ (cs r ≠ 0 → cs o ≠ 0)) ∧
    orAll ((largestAll d d.fuel r S).map cs) = S := by
  obtain ⟨r', hr', hrm, hr0, hrp, hrn, hrd⟩ := ht.rootObj
  rw [hr] at hr'; cases hr'
  have hSr : S &&& cs r = S := by unfold subset at hsub; simpa using hsub
  have hfuel : (d.depth : Int) ≤ r.depth + (d.fuel : Int) := by
    have := ht.sizes.1; simp only [Dump.fuel]; omega
  have hpar : ∀ p, d.obj? r.parent = some p → subset (cs p) S = false := by
    intro p hp; rw [hrp] at hp; simp [Dump.obj?] at hp
  obtain ⟨s1, s2, s3, s4⟩ := ht.largestAll_spec S d.fuel r hrm hrn hfuel hpar
  rw [hSr] at s1 s2 s3 s4
  have hlen : (largestAll d d.fuel r S).length ≤ d.objs.length :=
    s2.length_le_of_subset (fun o ho => (s3 o ho).1.1)
  refine ⟨?_, s1, s2, fun o ho => ⟨(s3 o ho).1, (s3 o ho).2.2⟩, s4⟩
  unfold largestObjs
  have h1 : ¬ max ≤ 0 := by omega
  rw [hr]
  simp only [hsub, Bool.not_true, Bool.false_eq_true, if_false, h1]
  rw [largestRec_eq_take, List.take_of_length_le (by omega)]

/-- 4. the result lists maximal objects included in `S`, pairwise disjoint, whose union is `S` -/
theorem largest_partition {d : Dump} (ht : Tree d) {S : Nat} {r : Obj} (hr : d.rootObj? = some r)
    (hsub : subset S (cs r) = true) (max : Int) (hmax : max ≥ d.objs.length) (hpos : 0 < max) :
    (largestObjs d S max).1 = ((largestObjs d S max).2.length : Int) ∧
    (largestObjs d S max).2.Pairwise (fun a b => disjoint (cs a) (cs b) = true) ∧
    (∀ o ∈ (largestObjs d S max).2, o ∈ d.objs ∧ isNormal o.type = true ∧ subset (cs o) S = true ∧
      (∀ p, d.obj? o.parent = some p → subset (cs p) S = false)) ∧
    orAll ((largestObjs d S max).2.map cs) = S := by
  obtain ⟨hl, s1, _, s3, s4⟩ := ht.largestObjs_all hr hsub max hmax hpos
  rw [hl]
  exact ⟨rfl, s1, fun o ho => (s3 o ho).1, s4⟩

/-! ### comparison with the brute-force definition -/

theorem Tree.objs_nodup {d : Dump} (ht : Tree d) : d.objs.Nodup := by
  rw [List.nodup_iff_pairwise_ne, List.pairwise_iff_getElem]
  intro i j hi hj hij heq
  have h1 := ht.ids (d.objs[i], i) (List.mk_mem_zipIdx_iff_getElem?.2 (List.getElem?_eq_getElem hi))
  have h2 := ht.ids (d.objs[j], j) (List.mk_mem_zipIdx_iff_getElem?.2 (List.getElem?_eq_getElem hj))
  simp only at h1 h2
  rw [heq] at h1; omega

/-- the root is an ancestor of every normal object -/
theorem Tree.root_anc {d : Dump} (ht : Tree d) {r : Obj} (hr : r ∈ d.objs) (hr0 : r.id = 0) :
    ∀ (n : Nat) (o : Obj), o ∈ d.objs → isNormal o.type = true → o.depth < (n : Int) → AncSelf d r o := by
  intro n
  induction n with
  | zero => intro o ho hn hd; have := ((ht.depth o ho).1 hn).1; omega
  | succ n ih =>
    intro o ho hn hd
    rcases ht.parent o ho with ⟨h0, _⟩ | ⟨_, p, hp, hpm, hnorm, _⟩
    · have : o = r := ht.eq_of_id_eq ho hr (by rw [h0, hr0])
      rw [this]; exact AncSelf.refl _
    · obtain ⟨pn, pd, _⟩ := hnorm hn
      exact AncSelf.up hp (ih p hpm pn (by omega))

/-- two ancestors of the same object are comparable -/
theorem AncSelf.comparable {d : Dump} {a b c : Obj} (h1 : AncSelf d a c) (h2 : AncSelf d b c) :
    AncSelf d a b ∨ AncSelf d b a := by
  induction h1 with
  | refl => exact Or.inr h2
  | up hp h1' ih =>
    rcases h2.bot_cases with heq | ⟨p', hp', hbp⟩
    · rw [heq]; exact Or.inl (AncSelf.up hp h1')
    · rw [hp] at hp'; cases hp'; exact ih hbp

theorem mem_bruteLargest {d : Dump} {S : Nat} {o : Obj} : o ∈ bruteLargest d S ↔
    o ∈ d.objs ∧ isNormal o.type = true ∧ cs o ≠ 0 ∧ subset (cs o) S = true ∧
      (∀ p, d.obj? o.parent = some p → subset (cs p) S = false) := by
  unfold bruteLargest
  rw [List.mem_filter]
  cases hp : d.obj? o.parent with
  | none => simp [and_assoc]
  | some p => simp [and_assoc]

/-- 6. the result is the brute-force list of maximal objects, up to order -/
theorem largest_eq_brute {d : Dump} (ht : Tree d) {S : Nat} {r : Obj} (hr : d.rootObj? = some r)
    (hsub : subset S (cs r) = true) (max : Int) (hmax : max ≥ d.objs.length) (hpos : 0 < max) (hr0 : cs r ≠ 0) :
    (∀ o, o ∈ (largestObjs d S max).2 ↔ o ∈ bruteLargest d S) ∧
    (largestObjs d S max).2.Perm (bruteLargest d S) := by
  obtain ⟨hl, s1, s2, s3, s4⟩ := ht.largestObjs_all hr hsub max hmax hpos
  obtain ⟨r', hr', hrm, hrid, hrp, hrn, hrd⟩ := ht.rootObj
  rw [hr] at hr'; cases hr'
  rw [hl]
  have hmem : ∀ o, o ∈ largestAll d d.fuel r S ↔ o ∈ bruteLargest d S := by
    intro o
    rw [mem_bruteLargest]
    constructor
    · intro ho
      obtain ⟨⟨q1, q2, q3, q4⟩, q5⟩ := s3 o ho
      exact ⟨q1, q2, q5 hr0, q3, q4⟩
    · rintro ⟨b1, b2, b3, b4, b5⟩
      obtain ⟨i, hi⟩ := (ne_zero_iff _).1 b3
      have hiS : S.testBit i = true := (subset_iff _ _).1 b4 i hi
      rw [← s4] at hiS
      obtain ⟨o', ho', hi'⟩ := (testBit_orAll_map _ _ _).1 hiS
      obtain ⟨⟨q1, q2, q3, q4⟩, _⟩ := s3 o' ho'
      -- both include the singleton {i}
      have hT0 : single i ≠ 0 := (ne_zero_iff _).2 ⟨i, by rw [testBit_single]; simp⟩
      have hsingle : ∀ x : Nat, x.testBit i = true → subset (single i) x = true := by
        intro x hx; rw [subset_iff]; intro j hj
        rw [testBit_single] at hj
        have : i = j := by simpa using hj
        rw [← this]; exact hx
      have hro : AncSelf d r o := ht.root_anc hrm hrid d.depth o b1 b2 ((ht.depth o b1).1 b2).2
      have hTr : subset (single i) (cs r) = true :=
        subset_trans' (hsingle _ hi) (ht.ancSelf_normal hro b1 b2).2.2.2
      obtain ⟨c, _, _, _, _, hc⟩ := covering_deepest ht hT0 hr hTr
      have hoc := hc o b1 b2 (hsingle _ hi)
      have ho'c := hc o' q1 q2 (hsingle _ hi')
      rcases hoc.comparable ho'c with h | h
      · rcases h.bot_cases with heq | ⟨p, hp, hop⟩
        · rw [heq]; exact ho'
        · exfalso
          obtain ⟨p1, p2, _, _⟩ := ht.parent_normal q1 q2 hp
          have := subset_trans' (ht.ancSelf_normal hop p1 p2).2.2.2 b4
          rw [q4 p hp] at this; cases this
      · rcases h.bot_cases with heq | ⟨p, hp, hop⟩
        · rw [← heq]; exact ho'
        · exfalso
          obtain ⟨p1, p2, _, _⟩ := ht.parent_normal b1 b2 hp
          have := subset_trans' (ht.ancSelf_normal hop p1 p2).2.2.2 q3
          rw [b5 p hp] at this; cases this
  refine ⟨hmem, ?_⟩
  have hbn : (bruteLargest d S).Nodup := by
    unfold bruteLargest; exact List.Pairwise.filter _ ht.objs_nodup
  exact (List.perm_ext_iff_of_nodup s2 hbn).2 hmem

/-! ### covering versus the brute-force definition (bonus) -/

theorem brute_fold_aux (c : Obj) : ∀ (L : List Obj) (init : Option Obj),
    (∀ o ∈ L, o = c ∨ o.depth < c.depth) →
    (init = none ∧ c ∈ L ∨ ∃ b, init = some b ∧ (b = c ∨ (b.depth < c.depth ∧ c ∈ L))) →
    L.foldl (fun (best : Option Obj) o => match best with
      | none => some o
      | some b => if b.depth < o.depth then some o else best) init = some c := by
  intro L
  induction L with
  | nil =>
    intro init _ h
    rcases h with ⟨_, h⟩ | ⟨b, hb, h | ⟨_, h⟩⟩
    · cases h
    · simp [hb, h]
    · cases h
  | cons x L ih =>
    intro init hall h
    have hx := hall x (List.mem_cons_self ..)
    have hall' : ∀ o ∈ L, o = c ∨ o.depth < c.depth := fun o ho => hall o (List.mem_cons_of_mem _ ho)
    rw [List.foldl_cons]
    apply ih _ hall'
    right
    rcases h with ⟨h0, hc⟩ | ⟨b, hb, h⟩
    · rw [h0]
      refine ⟨x, rfl, ?_⟩
      rcases hx with hx | hx
      · exact Or.inl hx
      · right; refine ⟨hx, ?_⟩
        rcases List.mem_cons.1 hc with h | h
        · rw [h] at hx; omega
        · exact h
    · rw [hb]
      simp only
      rcases h with h | ⟨hbd, hc⟩
      · rcases hx with hx | hx
        · refine ⟨c, ?_, Or.inl rfl⟩
          rw [h, hx]; simp
        · exact ⟨b, by rw [if_neg (by rw [h]; omega)], Or.inl h⟩
      · rcases hx with hx | hx
        · exact ⟨x, by rw [if_pos (by rw [hx]; exact hbd)], Or.inl hx⟩
        · have hcL : c ∈ L := by
            rcases List.mem_cons.1 hc with h | h
            · rw [h] at hx; omega
            · exact h
          by_cases hbx : b.depth < x.depth
          · exact ⟨x, by rw [if_pos hbx], Or.inr ⟨hx, hcL⟩⟩
          · exact ⟨b, by rw [if_neg hbx], Or.inr ⟨hbd, hcL⟩⟩

/-- the covering object is the brute-force "deepest normal object including `S`" -/
theorem covering_eq_brute {d : Dump} (ht : Tree d) (S : Nat) : objCovering d S = bruteObjCovering d S := by
  obtain ⟨r, hr, hrm, hrid, _, hrn, _⟩ := ht.rootObj
  by_cases hS : S = 0
  · rw [covering_none hr (Or.inl hS)]; simp [bruteObjCovering, hS]
  have hS0 : (S == 0) = false := by simpa using hS
  cases hsub : subset S (cs r) with
  | false =>
    rw [covering_none hr (Or.inr hsub)]
    unfold bruteObjCovering
    rw [hS0]; simp only [Bool.false_eq_true, if_false]
    have : d.objs.filter (fun o => isNormal o.type && subset S (cs o)) = [] := by
      rw [List.filter_eq_nil_iff]
      intro o ho h
      rw [Bool.and_eq_true] at h
      have hro := ht.root_anc hrm hrid d.depth o ho h.1 ((ht.depth o ho).1 h.1).2
      have := subset_trans' h.2 (ht.ancSelf_normal hro ho h.1).2.2.2
      rw [hsub] at this; cases this
    rw [this]; rfl
  | true =>
    obtain ⟨c, h1, h2, h3, h4, h5⟩ := covering_deepest ht hS hr hsub
    rw [h1]; unfold bruteObjCovering
    rw [hS0]; simp only [Bool.false_eq_true, if_false]
    symm
    apply brute_fold_aux c
    · intro o ho
      rw [List.mem_filter, Bool.and_eq_true] at ho
      obtain ⟨ho, hn, hs⟩ := ho
      rcases (h5 o ho hn hs).bot_cases with h | ⟨p, hp, hap⟩
      · exact Or.inl h
      · right
        obtain ⟨p1, p2, p3, _⟩ := ht.parent_normal h2 h3 hp
        have := (ht.ancSelf_normal hap p1 p2).2.2.1
        omega
    · left; exact ⟨rfl, List.mem_filter.2 ⟨h2, by simp [h3, h4]⟩⟩

end Hw.Topo
