/-
  Hw.Topo.StageMemoryLemmas — `propagate_total_memory` (model Hw.Topo.StageMemory) computes, at every object it visits, the sum
  of the local memory of the NUMA nodes at or below the object, as long as the sum at the root fits in 64 bits.
-/
import Hw.Topo.StageMemory
namespace Hw.Topo.Restrict.Stage
open Hw.Topo Hw.Topo.Restrict

theorem addW_exact {a b : Nat} (h : a + b < W64) : addW a b = a + b := Nat.mod_eq_of_lt h

mutual
theorem totalT_exact (loc : RObj → Nat) : ∀ t : Tree, sumLocalT loc t < W64 → totalT loc t = sumLocalT loc t
  | .node o ns ms ios mis => by
    intro h
    rw [sumLocalT] at h
    rw [totalT, sumLocalT]
    have h1 := totalAccL_exact loc ns 0 (by omega)
    have h2 := totalAccL_exact loc ms (0 + sumLocalL loc ns) (by omega)
    simp only [h1, h2]
    split
    · rename_i hn
      rw [if_pos hn] at h
      rw [addW_exact (by omega)]
      omega
    · omega
theorem totalAccL_exact (loc : RObj → Nat) : ∀ (l : List Tree) (acc : Nat), acc + sumLocalL loc l < W64 →
    totalAccL loc acc l = acc + sumLocalL loc l
  | [], acc => fun _ => by rw [totalAccL, sumLocalL]; rfl
  | t :: ts, acc => by
    intro h
    rw [sumLocalL] at h
    rw [totalAccL, sumLocalL, totalT_exact loc t (by omega), addW_exact (by omega),
      totalAccL_exact loc ts (acc + sumLocalT loc t) (by omega)]
    omega
end

/-- the value is a 64-bit number whatever the inputs -/
theorem addW_lt (a b : Nat) : addW a b < W64 := Nat.mod_lt _ (by decide)

/-! ### the objects the function visits -/

mutual
/-- the subtrees rooted at the objects that `propagate_total_memory` visits, depth-first (normal children, then memory children) -/
def subNM : Tree → List Tree
  | .node o ns ms ios mis => .node o ns ms ios mis :: (subNML ns ++ subNML ms)
def subNML : List Tree → List Tree
  | [] => []
  | t :: ts => subNM t ++ subNML ts
end

mutual
theorem totalsT_eq (loc : RObj → Nat) : ∀ t : Tree, totalsT loc t = (subNM t).map (fun s => (s.obj.gp, totalT loc s))
  | .node o ns ms ios mis => by
    rw [totalsT, subNM, totalsL_eq loc ns, totalsL_eq loc ms]
    simp only [List.map_cons, List.map_append, Tree.obj]
theorem totalsL_eq (loc : RObj → Nat) : ∀ l : List Tree, totalsL loc l = (subNML l).map (fun s => (s.obj.gp, totalT loc s))
  | [] => by rw [totalsL, subNML]; rfl
  | t :: ts => by rw [totalsL, subNML, totalsT_eq loc t, totalsL_eq loc ts, List.map_append]
end

mutual
theorem subNM_le (loc : RObj → Nat) : ∀ t : Tree, ∀ s ∈ subNM t, sumLocalT loc s ≤ sumLocalT loc t
  | .node o ns ms ios mis => by
    intro s hs
    rw [subNM] at hs
    rcases List.mem_cons.1 hs with rfl | hs
    · exact Nat.le_refl _
    · rw [sumLocalT]
      rcases List.mem_append.1 hs with h | h
      · have := subNML_le loc ns s h; omega
      · have := subNML_le loc ms s h; omega
theorem subNML_le (loc : RObj → Nat) : ∀ l : List Tree, ∀ s ∈ subNML l, sumLocalT loc s ≤ sumLocalL loc l
  | [] => by intro s hs; rw [subNML] at hs; simp at hs
  | t :: ts => by
    intro s hs
    rw [subNML] at hs
    rw [sumLocalL]
    rcases List.mem_append.1 hs with h | h
    · have := subNM_le loc t s h; omega
    · have := subNML_le loc ts s h; omega
end

/-- **total_memory of every visited object = the sum of the local memory of the NUMA nodes at or below it** -/
theorem totalsT_exact (loc : RObj → Nat) (t : Tree) (h : sumLocalT loc t < W64) :
    totalsT loc t = (subNM t).map (fun s => (s.obj.gp, sumLocalT loc s)) := by
  rw [totalsT_eq]
  apply List.map_congr_left
  intro s hs
  rw [totalT_exact loc s (Nat.lt_of_le_of_lt (subNM_le loc t s hs) h)]

/-- the sum of the totals of a children list -/
def sumTotals (loc : RObj → Nat) (l : List Tree) : Nat := (l.map (totalT loc)).sum

theorem sumTotals_exact (loc : RObj → Nat) : ∀ l : List Tree, sumLocalL loc l < W64 → sumTotals loc l = sumLocalL loc l
  | [] => fun _ => by rw [sumLocalL]; rfl
  | t :: ts => by
    intro h
    rw [sumLocalL] at h
    have := sumTotals_exact loc ts (by omega)
    unfold sumTotals at this ⊢
    rw [List.map_cons, List.sum_cons, this, totalT_exact loc t (by omega), sumLocalL]

/-- **the WF clause `total-memory` in tree form**: the total of an object is its own local memory (NUMA nodes only) plus the totals
    of its normal and memory children, exactly (no wrap) -/
theorem totalT_clause (loc : RObj → Nat) (o : RObj) (ns ms ios mis : List Tree) (h : sumLocalT loc (.node o ns ms ios mis) < W64) :
    totalT loc (.node o ns ms ios mis) = (if o.type == tNUMA then loc o else 0) + (sumTotals loc ns + sumTotals loc ms) := by
  rw [totalT_exact loc _ h, sumLocalT]
  rw [sumLocalT] at h
  rw [sumTotals_exact loc ns (by omega), sumTotals_exact loc ms (by omega)]

end Hw.Topo.Restrict.Stage
