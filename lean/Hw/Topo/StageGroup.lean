/-
  Hw.Topo.StageGroup — model of `hwloc_set_group_depth` (hwloc/topology.c) over the normal levels that
  `hwloc_connect_levels` builds (`Restrict.connectLevels`):

      unsigned groupdepth = 0;
      for(i=0; i<topology->nb_levels; i++)
        if (topology->levels[i][0]->type == HWLOC_OBJ_GROUP) {
          for (j = 0; j < topology->level_nbobjects[i]; j++) topology->levels[i][j]->attr->group.depth = groupdepth;
          groupdepth++;
        }

  The result is the list of assignments (gp_index of the object, depth written), in the order in which the C code writes them.
  `groupdepth` is an `unsigned` that counts levels (`nb_levels` is an `unsigned` too), so it never wraps.
-/
import Hw.Topo.Render
namespace Hw.Topo.Restrict.Stage
open Hw.Topo Hw.Topo.Restrict

/-- `topology->levels[i][0]->type == HWLOC_OBJ_GROUP` -/
def isGroupLevel (l : List RObj) : Bool :=
  match l.head? with
  | some f => f.type == tGROUP
  | none => false

def groupDepthsFrom (gd : Nat) : List (List RObj) → List (Nat × Nat)
  | [] => []
  | l :: ls =>
    if isGroupLevel l then l.map (fun o => (o.gp, gd)) ++ groupDepthsFrom (gd + 1) ls
    else groupDepthsFrom gd ls

/-- `hwloc_set_group_depth(topology)` on the levels of the tree -/
def setGroupDepth (t : Tree) : List (Nat × Nat) := groupDepthsFrom 0 (connectLevels t)

end Hw.Topo.Restrict.Stage
