/-
  Hw.Topo.AuxBelow — the `below` / `belowDisj` aggregates of `Hw.Topo.mkAux` (bottom-up fold: nodes attached at or below a
  normal object) satisfy, for ANY dump whose ids are positions and whose parents come first, the recurrence
  "OR of the final values of the normal children (reverse list order), then the OR of the own memory children".
-/
import Hw.Io.SyntheticAux
import Hw.Io.SyntheticBits
namespace Hw.Topo
open Hw.Syn

def belowStep (memOr : List Nat) (o : Obj) (acc : List Nat × List Bool) : List Nat × List Bool :=
  if isNormal o.type then
    let acc := orInto acc o.id (getN memOr o.id)
    if 0 ≤ o.parent then orInto acc o.parent.toNat (getN acc.1 o.id) else acc
  else acc

def belowFold (d : Dump) : List Nat × List Bool :=
  d.objs.foldr (belowStep (auxFold d).memOr) (List.replicate d.objs.length 0, List.replicate d.objs.length true)

theorem mkAux_below (d : Dump) : (mkAux d).below = (belowFold d).1 ∧ (mkAux d).belowDisj = (belowFold d).2 := ⟨rfl, rfl⟩

/-- normal children of object `i`, in list order -/
def normalKids (d : Dump) (i : Nat) : List Obj := d.objs.filter (fun c => isNormal c.type && parentIs i c)

/-! ### helper: one cell of the pair of lists, and the per-cell step of `orInto` -/

def cstep (c : Nat × Bool) (x : Nat) : Nat × Bool := (c.1 ||| x, c.2 && disjoint c.1 x)

def cellB (acc : List Nat × List Bool) (j : Nat) : Nat × Bool := (getN acc.1 j, getB acc.2 j)

theorem foldl_cstep (xs : List Nat) : ∀ (s : Nat) (b : Bool),
    xs.foldl cstep (s, b) = (xs.foldl (· ||| ·) s, b && seqDisj s xs) := by
  induction xs with
  | nil => intro s b; simp [seqDisj]
  | cons x xs ih =>
    intro s b
    rw [List.foldl_cons, List.foldl_cons]
    show List.foldl cstep (s ||| x, b && disjoint s x) xs = _
    rw [ih]
    simp [seqDisj, Bool.and_assoc]

theorem orInto_len (acc : List Nat × List Bool) (p s : Nat) :
    (orInto acc p s).1.length = acc.1.length ∧ (orInto acc p s).2.length = acc.2.length := by
  unfold orInto
  constructor
  · simp
  · simp only; split <;> simp

theorem cellB_orInto (acc : List Nat × List Bool) (p s j : Nat) (h1 : p < acc.1.length) (h2 : p < acc.2.length) :
    cellB (orInto acc p s) j = if p = j then cstep (cellB acc j) s else cellB acc j := by
  unfold orInto cellB cstep
  by_cases hp : p = j
  · subst hp
    by_cases hd : disjoint (getN acc.1 p) s = true
    · simp [getN_set, h1, hd]
    · simp [getN_set, getB_set, h1, h2, hd]
  · by_cases hd : disjoint (getN acc.1 p) s = true
    · simp [getN_set, hp, hd]
    · simp [getN_set, getB_set, hp, hd]

theorem belowStep_len (M : List Nat) (o : Obj) (acc : List Nat × List Bool) :
    (belowStep M o acc).1.length = acc.1.length ∧ (belowStep M o acc).2.length = acc.2.length := by
  unfold belowStep
  split
  · simp only
    split
    · have a := orInto_len acc o.id (getN M o.id)
      have b := orInto_len (orInto acc o.id (getN M o.id)) o.parent.toNat (getN (orInto acc o.id (getN M o.id)).1 o.id)
      exact ⟨b.1.trans a.1, b.2.trans a.2⟩
    · exact orInto_len _ _ _
  · exact ⟨rfl, rfl⟩

theorem cellB_belowStep (M : List Nat) (o : Obj) (acc : List Nat × List Bool) (n : Nat)
    (h1 : acc.1.length = n) (h2 : acc.2.length = n) (hn : isNormal o.type = true) (hid : o.id < n)
    (hpar : 0 ≤ o.parent → o.parent.toNat < o.id) (j : Nat) :
    cellB (belowStep M o acc) j =
      if j = o.id then cstep (cellB acc j) (getN M j)
      else if parentIs j o then cstep (cellB acc j) (getN acc.1 o.id ||| getN M o.id)
      else cellB acc j := by
  have l1 := orInto_len acc o.id (getN M o.id)
  have hv : getN (orInto acc o.id (getN M o.id)).1 o.id = getN acc.1 o.id ||| getN M o.id := by
    have := cellB_orInto acc o.id (getN M o.id) o.id (by omega) (by omega)
    rw [if_pos rfl] at this
    exact congrArg Prod.fst this
  unfold belowStep
  rw [if_pos hn]
  simp only
  by_cases hp : 0 ≤ o.parent
  · rw [if_pos hp]
    have hlt := hpar hp
    rw [cellB_orInto _ _ _ _ (by omega) (by omega), cellB_orInto _ _ _ _ (by omega) (by omega), hv]
    by_cases hj : j = o.id
    · subst hj
      have : ¬ o.parent.toNat = o.id := by omega
      simp [this]
    · have hj' : ¬ o.id = j := fun h => hj h.symm
      by_cases hq : o.parent.toNat = j
      · have : parentIs j o = true := by simp [parentIs, hp, hq]
        simp [hj, hj', hq, this]
      · have : parentIs j o = false := by simp [parentIs, hq]
        simp [hj, hj', hq, this]
  · rw [if_neg hp, cellB_orInto _ _ _ _ (by omega) (by omega)]
    have : parentIs j o = false := by simp [parentIs, hp]
    by_cases hj : j = o.id
    · subst hj; simp
    · have hj' : ¬ o.id = j := fun h => hj h.symm
      simp [hj, hj', this]

/-! ### the invariant of the bottom-up fold over a suffix -/

def kidsOf (suf : List Obj) (j : Nat) : List Obj := suf.filter (fun c => isNormal c.type && parentIs j c)

def selfTail (M : List Nat) (suf : List Obj) (j : Nat) : List Nat :=
  if suf.any (fun c => isNormal c.type && c.id == j) then [getN M j] else []

theorem selfTail_nil (M : List Nat) (suf : List Obj) (j : Nat) (h : ∀ c ∈ suf, j < c.id) : selfTail M suf j = [] := by
  unfold selfTail
  rw [if_neg]
  intro ha
  rw [List.any_eq_true] at ha
  obtain ⟨c, hc, hcc⟩ := ha
  have := h c hc
  simp at hcc
  omega

theorem below_inv (M : List Nat) (n : Nat) : ∀ suf : List Obj,
    suf.Pairwise (fun a b => a.id < b.id) → (∀ o ∈ suf, o.id < n) →
    (∀ o ∈ suf, isNormal o.type = true → 0 ≤ o.parent → o.parent.toNat < o.id) →
    (suf.foldr (belowStep M) (List.replicate n 0, List.replicate n true)).1.length = n ∧
    (suf.foldr (belowStep M) (List.replicate n 0, List.replicate n true)).2.length = n ∧
    ∀ j, cellB (suf.foldr (belowStep M) (List.replicate n 0, List.replicate n true)) j =
      (((kidsOf suf j).reverse.map
          (fun c => getN (suf.foldr (belowStep M) (List.replicate n 0, List.replicate n true)).1 c.id))
        ++ selfTail M suf j).foldl cstep (0, true) := by
  intro suf
  induction suf with
  | nil =>
    intro _ _ _
    refine ⟨by simp, by simp, ?_⟩
    intro j
    simp [cellB, kidsOf, selfTail, getN, getB, List.getElem?_replicate]
    constructor <;> split <;> rfl
  | cons o suf ih =>
    intro hpw hlt hpar
    rw [List.pairwise_cons] at hpw
    obtain ⟨hlt_o, hpw'⟩ := hpw
    have ih' := ih hpw' (fun c hc => hlt c (List.mem_cons_of_mem _ hc)) (fun c hc => hpar c (List.mem_cons_of_mem _ hc))
    rw [List.foldr_cons]
    generalize hG : suf.foldr (belowStep M) (List.replicate n 0, List.replicate n true) = G' at ih'
    obtain ⟨hl1, hl2, hcell⟩ := ih'
    have hlen := belowStep_len M o G'
    refine ⟨hlen.1.trans hl1, hlen.2.trans hl2, ?_⟩
    intro j
    by_cases hn : isNormal o.type = true
    · have hido := hlt o List.mem_cons_self
      have hparo := hpar o List.mem_cons_self hn
      have hstep := cellB_belowStep M o G' n hl1 hl2 hn hido hparo
      -- values of the objects of the suffix are not touched
      have hkeep : ∀ c ∈ suf, getN (belowStep M o G').1 c.id = getN G'.1 c.id := by
        intro c hc
        have hc1 := hlt_o c hc
        have := hstep c.id
        have hne : ¬ c.id = o.id := by omega
        have hpi : parentIs c.id o = false := by
          unfold parentIs
          by_cases hp : 0 ≤ o.parent
          · have := hparo hp
            have : ¬ o.parent.toNat = c.id := by omega
            simp [this]
          · simp [hp]
        rw [if_neg hne, hpi] at this
        exact congrArg Prod.fst this
      have hmap : ∀ i, (kidsOf suf i).reverse.map (fun c => getN (belowStep M o G').1 c.id) =
          (kidsOf suf i).reverse.map (fun c => getN G'.1 c.id) := by
        intro i
        apply List.map_congr_left
        intro c hc
        rw [List.mem_reverse] at hc
        exact hkeep c (List.mem_filter.mp hc).1
      have hpself : parentIs o.id o = false := by
        unfold parentIs
        by_cases hp : 0 ≤ o.parent
        · have := hparo hp
          have : ¬ o.parent.toNat = o.id := by omega
          simp [this]
        · simp [hp]
      rw [hstep j]
      by_cases hj : j = o.id
      · rw [if_pos hj]
        subst hj
        have hk : kidsOf (o :: suf) o.id = kidsOf suf o.id := by
          unfold kidsOf
          rw [List.filter_cons, hpself]
          simp
        have ht : selfTail M (o :: suf) o.id = [getN M o.id] := by
          unfold selfTail
          simp [hn]
        rw [hk, ht, hmap, List.foldl_append, hcell o.id, selfTail_nil M suf o.id hlt_o, List.append_nil]
        rfl
      · rw [if_neg hj]
        have ht : selfTail M (o :: suf) j = selfTail M suf j := by
          unfold selfTail
          have : (o.id == j) = false := by simp; exact fun h => hj h.symm
          simp [this]
        by_cases hq : parentIs j o = true
        · rw [hq, if_pos rfl]
          have hk : kidsOf (o :: suf) j = o :: kidsOf suf j := by
            unfold kidsOf
            rw [List.filter_cons, hn, hq]
            simp
          have hjlt : j < o.id := by
            unfold parentIs at hq
            simp at hq
            have := hparo hq.1
            omega
          have hnil : selfTail M suf j = [] := selfTail_nil M suf j (fun c hc => by have := hlt_o c hc; omega)
          have hvo : getN (belowStep M o G').1 o.id = getN G'.1 o.id ||| getN M o.id := by
            have := hstep o.id
            rw [if_pos rfl] at this
            exact congrArg Prod.fst this
          rw [hk, ht, hnil, List.append_nil, List.reverse_cons, List.map_append, hmap, List.foldl_append, hcell j, hnil,
            List.append_nil]
          simp only [List.map_cons, List.map_nil, List.foldl_cons, List.foldl_nil, hvo]
        · have hq' : parentIs j o = false := by simpa using hq
          rw [hq']
          have hk : kidsOf (o :: suf) j = kidsOf suf j := by
            unfold kidsOf
            rw [List.filter_cons, hq']
            simp
          rw [hk, ht, hmap, hcell j]
          simp
    · have hb : belowStep M o G' = G' := by
        unfold belowStep
        rw [if_neg hn]
      have hn' : isNormal o.type = false := by simpa using hn
      have hk : kidsOf (o :: suf) j = kidsOf suf j := by
        unfold kidsOf
        rw [List.filter_cons, hn']
        simp
      have ht : selfTail M (o :: suf) j = selfTail M suf j := by
        unfold selfTail
        simp [hn']
      rw [hb, hk, ht]
      exact hcell j

/-- recurrence of the bottom-up fold: what ends up at the index of a normal object is the OR of the final values of its
normal children (pushed in reverse list order) and then its own memory children's OR; the flag says every one of those ORs was
disjoint -/
theorem below_rec (d : Dump)
    (hid : ∀ i (h : i < d.objs.length), (d.objs[i]).id = i)
    (hpar : ∀ o ∈ d.objs, isNormal o.type = true → 0 ≤ o.parent → o.parent.toNat < o.id)
    (o : Obj) (ho : o ∈ d.objs) (hn : isNormal o.type = true) :
    let vals := ((normalKids d o.id).reverse.map (fun c => getN (belowFold d).1 c.id)) ++ [getN (auxFold d).memOr o.id]
    getN (belowFold d).1 o.id = vals.foldl (· ||| ·) 0 ∧
    getB (belowFold d).2 o.id = seqDisj 0 vals := by
  intro vals
  have hpw : d.objs.Pairwise (fun a b => a.id < b.id) := by
    rw [List.pairwise_iff_getElem]
    intro i j hi hj hij
    rw [hid i hi, hid j hj]
    exact hij
  have hlt : ∀ c ∈ d.objs, c.id < d.objs.length := by
    intro c hc
    obtain ⟨i, hi, rfl⟩ := List.getElem_of_mem hc
    rw [hid i hi]
    exact hi
  have hinv := (below_inv (auxFold d).memOr d.objs.length d.objs hpw hlt hpar).2.2 o.id
  have ht : selfTail (auxFold d).memOr d.objs o.id = [getN (auxFold d).memOr o.id] := by
    unfold selfTail
    rw [if_pos]
    rw [List.any_eq_true]
    exact ⟨o, ho, by simp [hn]⟩
  rw [ht, foldl_cstep] at hinv
  have h1 := congrArg Prod.fst hinv
  have h2 := congrArg Prod.snd hinv
  simp only [Bool.true_and] at h2
  exact ⟨h1, h2⟩

end Hw.Topo
