/-
  Hw.Topo.History — model of the modifying calls whose effect on the observable topology is fully
  predicted (C02): hwloc_topology_allow (three modes), hwloc_obj_add_info / hwloc_modify_infos
  (via Hw.Infos), hwloc_obj_set_subtype; and the relations checked after EVERY public modifying call
  of a history: well-formedness (the C01 oracle), stability of gp_index/type of surviving objects,
  "untouched on documented failures".
-/
import Hw.Topo.WF
import Hw.Attr.InfosLemmas
namespace Hw.Topo.Hist
open Hw.Topo

inductive HOp
  | allow (flags : Nat) (cpu node : Option Nat)
  | addInfo (obj : Nat) (n v : Option String)
  | modifyInfos (obj : Nat) (op : Nat) (n v : Option String)
  | setSubtype (obj : Nat) (s : Option String)
deriving Repr, DecidableEq

/-- return classes of the modelled calls -/
inductive Ret | ok (v : Int) | einval
deriving Repr, DecidableEq

def modifyObj (d : Dump) (i : Nat) (f : Obj → Obj) : Dump :=
  { d with objs := d.objs.modify i f }

def infoOp (op : Nat) : Hw.Infos.Op :=
  if op = 1 then .add else if op = 2 then .addUnique else if op = 4 then .replace else if op = 8 then .remove else .unknown

/-- the new allowed sets computed by `hwloc_topology_allow` (hwloc/topology.c) on a topology that does not
describe this system (LOCAL_RESTRICTIONS is then EINVAL); `none` = EINVAL.  After the `fix:` commits: ALL
uses the root main sets, and both sets of the CUSTOM mode are validated before either is modified. -/
def isBad (r : Nat) (s : Option Nat) : Bool := match s with | some c => r &&& c == 0 | none => false
def pick (r : Nat) (s old : Option Nat) : Option Nat := match s with | some c => some (r &&& c) | none => old

def allowSets (d : Dump) (root : Obj) (flags : Nat) (cpu node : Option Nat) : Option (Option Nat × Option Nat) :=
  if !flagIncludeDisallowed d then none
  else if flags / 8 ≠ 0 then none
  else if flags = 1 then
    if cpu.isSome || node.isSome then none else some (root.cpuset, root.nodeset)
  else if flags = 4 then
    if isBad (root.cpuset.getD 0) cpu || isBad (root.nodeset.getD 0) node then none
    else some (pick (root.cpuset.getD 0) cpu d.allowedCpuset, pick (root.nodeset.getD 0) node d.allowedNodeset)
  else none

def allow (d : Dump) (flags : Nat) (cpu node : Option Nat) : Dump × Ret :=
  match d.objs[0]? with
  | none => (d, .einval)
  | some root =>
    match allowSets d root flags cpu node with
    | none => (d, .einval)
    | some (x, y) => ({ d with allowedCpuset := x, allowedNodeset := y }, .ok 0)

def step (d : Dump) : HOp → Dump × Ret
  | .allow f c n => allow d f c n
  | .addInfo i n v =>
    match d.objs[i]? with
    | none => (d, .einval)
    | some o =>
      let (l, r) := Hw.Infos.modify o.infos .add n v
      (modifyObj d i (fun o => { o with infos := l }), if r < 0 then .einval else .ok r)
  | .modifyInfos i op n v =>
    match d.objs[i]? with
    | none => (d, .einval)
    | some o =>
      let (l, r) := Hw.Infos.modify o.infos (infoOp op) n v
      (modifyObj d i (fun o => { o with infos := l }), if r < 0 then .einval else .ok r)
  | .setSubtype i s =>
    match d.objs[i]? with
    | none => (d, .einval)
    | some _ => (modifyObj d i (fun o => { o with subtype := s }), .ok 0)

/-- gp_index / type stability between two consecutive dumps: every object of `new` whose gp_index
existed in `old` has the same type and (except for Groups, whose contents are legitimately replaced by those
of an equal inserted Group that wins the merge) the same os_index; new gp_index values are above all old ones -/
def gpStable (old new : Dump) : Bool :=
  let maxOld := old.objs.foldl (fun m o => max m o.gp) 0
  new.objs.all (fun o =>
    match old.objs.find? (fun p => p.gp == o.gp) with
    | some p => p.type == o.type && (p.osidx == o.osidx || o.type == tGROUP)
    | none => decide (maxOld < o.gp))

end Hw.Topo.Hist
