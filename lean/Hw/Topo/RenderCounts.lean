/-
  Hw.Topo.RenderCounts — the WF clause children-counts for `render t` (every typed tree): the four per-kind counters that
  `mkAux` accumulates over the object list (number of objects whose parent is `o`, per kind) equal the four arities of `o`.
    * `mkAux_count`   what the counters are, for any dump: the number of objects of that kind with that parent;
    * `occ_count`     in the occurrence list of a tree, the occurrences whose parent is `oc.id` and whose kind is `c` are as many
                      as the `c`-th children list of `oc` has roots of kind `c` (structural count `cIn` / `cL`);
    * `render_children_counts`.
-/
import Hw.Topo.RenderLemmas
namespace Hw.Topo.Restrict
open Hw.Topo

/-! ### the counters of `mkAux` -/

def kindOf (ty : Nat) : Nat := if isNormal ty then 0 else if isMemory ty then 1 else if isIO ty then 2 else 3

def stepC (c : Nat) (acc : List Nat) (o : Obj) : List Nat :=
  if o.parent < 0 then acc else
  if isNormal o.type then (if c = 0 then acc.set o.parent.toNat (getN acc o.parent.toNat + 1) else acc)
  else if isMemory o.type then (if c = 1 then acc.set o.parent.toNat (getN acc o.parent.toNat + 1) else acc)
  else if isIO o.type then (if c = 2 then acc.set o.parent.toNat (getN acc o.parent.toNat + 1) else acc)
  else (if c = 3 then acc.set o.parent.toNat (getN acc o.parent.toNat + 1) else acc)

theorem mkAux_proj0 (d : Dump) : (mkAux d).nNormal = d.objs.foldl (stepC 0) (List.replicate d.objs.length 0) := by
  unfold mkAux
  refine foldl_proj _ (stepC 0) (fun (a : Aux) => a.nNormal) ?_ _ _
  intro a o; unfold stepC; simp only []
  split
  · rfl
  · split
    · rfl
    · split
      · rfl
      · split <;> rfl
theorem mkAux_proj1 (d : Dump) : (mkAux d).nMemory = d.objs.foldl (stepC 1) (List.replicate d.objs.length 0) := by
  unfold mkAux
  refine foldl_proj _ (stepC 1) (fun (a : Aux) => a.nMemory) ?_ _ _
  intro a o; unfold stepC; simp only []
  split
  · rfl
  · split
    · rfl
    · split
      · rfl
      · split <;> rfl
theorem mkAux_proj2 (d : Dump) : (mkAux d).nIO = d.objs.foldl (stepC 2) (List.replicate d.objs.length 0) := by
  unfold mkAux
  refine foldl_proj _ (stepC 2) (fun (a : Aux) => a.nIO) ?_ _ _
  intro a o; unfold stepC; simp only []
  split
  · rfl
  · split
    · rfl
    · split
      · rfl
      · split <;> rfl
theorem mkAux_proj3 (d : Dump) : (mkAux d).nMisc = d.objs.foldl (stepC 3) (List.replicate d.objs.length 0) := by
  unfold mkAux
  refine foldl_proj _ (stepC 3) (fun (a : Aux) => a.nMisc) ?_ _ _
  intro a o; unfold stepC; simp only []
  split
  · rfl
  · split
    · rfl
    · split
      · rfl
      · split <;> rfl

/-- `o` is an object of kind `c` whose parent is the object at position `q` -/
def isKidC (c q : Nat) (o : Obj) : Bool := decide (0 ≤ o.parent) && (o.parent.toNat == q) && (kindOf o.type == c)

theorem getN_set' (l : List Nat) (p q v : Nat) : getN (l.set p v) q = if p = q ∧ p < l.length then v else getN l q := by
  unfold getN
  rw [List.getElem?_set]
  by_cases h : p = q
  · subst h
    by_cases h2 : p < l.length
    · simp [h2]
    · simp [h2]
  · simp [h]

theorem stepC_length (c : Nat) (acc : List Nat) (o : Obj) : (stepC c acc o).length = acc.length := by
  unfold stepC
  repeat' split
  all_goals first | rfl | rw [List.length_set]

theorem stepC_get (c : Nat) (acc : List Nat) (o : Obj) (q : Nat) (hq : q < acc.length) :
    getN (stepC c acc o) q = getN acc q + (if isKidC c q o = true then 1 else 0) := by
  have bump : ∀ (b : Bool), getN (if b = true then acc.set o.parent.toNat (getN acc o.parent.toNat + 1) else acc) q =
      getN acc q + (if (b && (o.parent.toNat == q)) = true then 1 else 0) := by
    intro b
    cases b
    · simp
    · simp only [if_true, Bool.true_and, beq_iff_eq]
      rw [getN_set']
      by_cases e : o.parent.toNat = q
      · rw [if_pos ⟨e, by rw [e]; exact hq⟩, if_pos e, e]
      · rw [if_neg (fun h => e h.1), if_neg e]; rfl
  unfold stepC isKidC kindOf
  by_cases h1 : o.parent < 0
  · rw [if_pos h1]
    have : decide (0 ≤ o.parent) = false := by simp; omega
    rw [this]; simp
  · rw [if_neg h1]
    have hd : decide (0 ≤ o.parent) = true := by simp; omega
    rw [hd]
    cases hn : isNormal o.type
    · cases hm : isMemory o.type
      · cases hi : isIO o.type
        · simp only [Bool.false_eq_true, if_false, Bool.true_and]
          have := bump (decide (c = 3))
          simp only [decide_eq_true_eq] at this
          rw [this]
          by_cases e : c = 3
          · subst e; simp [Bool.and_comm]
          · have e' : (3 == c) = false := by simp; omega
            simp [e, e']
        · simp only [Bool.false_eq_true, if_false, if_true, Bool.true_and]
          have := bump (decide (c = 2))
          simp only [decide_eq_true_eq] at this
          rw [this]
          by_cases e : c = 2
          · subst e; simp [Bool.and_comm]
          · have e' : (2 == c) = false := by simp; omega
            simp [e, e']
      · simp only [Bool.false_eq_true, if_false, if_true, Bool.true_and]
        have := bump (decide (c = 1))
        simp only [decide_eq_true_eq] at this
        rw [this]
        by_cases e : c = 1
        · subst e; simp [Bool.and_comm]
        · have e' : (1 == c) = false := by simp; omega
          simp [e, e']
    · simp only [if_true, Bool.true_and]
      have := bump (decide (c = 0))
      simp only [decide_eq_true_eq] at this
      rw [this]
      by_cases e : c = 0
      · subst e; simp [Bool.and_comm]
      · have e' : (0 == c) = false := by simp; omega
        simp [e, e']

theorem foldC_count (c q : Nat) (L : List Obj) : ∀ acc : List Nat, q < acc.length →
    getN (L.foldl (stepC c) acc) q = getN acc q + (L.filter (isKidC c q)).length := by
  induction L with
  | nil => intro acc _; simp
  | cons o L ih =>
    intro acc hq
    rw [List.foldl_cons, ih _ (by rw [stepC_length]; exact hq), stepC_get c acc o q hq, List.filter_cons]
    split
    · simp only [List.length_cons]; omega
    · omega

def auxCount (c : Nat) (a : Aux) : List Nat := match c with | 0 => a.nNormal | 1 => a.nMemory | 2 => a.nIO | _ => a.nMisc

/-- **what the counters of `mkAux` are**: the number of objects of kind `c` whose parent is the object at position `q` -/
theorem mkAux_count (d : Dump) (c : Nat) (hc : c < 4) (q : Nat) (hq : q < d.objs.length) :
    getN (auxCount c (mkAux d)) q = (d.objs.filter (isKidC c q)).length := by
  have z : getN (List.replicate d.objs.length 0) q = 0 := by simp [getN, hq]
  have hl : q < (List.replicate d.objs.length 0).length := by simp; exact hq
  match c, hc with
  | 0, _ => show getN (mkAux d).nNormal q = _; rw [mkAux_proj0, foldC_count 0 q d.objs _ hl, z]; omega
  | 1, _ => show getN (mkAux d).nMemory q = _; rw [mkAux_proj1, foldC_count 1 q d.objs _ hl, z]; omega
  | 2, _ => show getN (mkAux d).nIO q = _; rw [mkAux_proj2, foldC_count 2 q d.objs _ hl, z]; omega
  | 3, _ => show getN (mkAux d).nMisc q = _; rw [mkAux_proj3, foldC_count 3 q d.objs _ hl, z]; omega

/-! ### counting the occurrences by parent and kind -/

/-- the occurrence `oc` is of kind `c` and has parent id `q` -/
def PK (c q : Nat) (oc : Occ) : Bool := decide (0 ≤ oc.parent) && (oc.parent.toNat == q) && (kindOf oc.t.obj.type == c)

mutual
/-- number of occurrences strictly inside the subtree `t` (whose root has id `s`) that are of kind `c` with parent id `q` -/
def cIn (c q : Nat) (s : Nat) : Tree → Nat
  | .node _ ns ms ios mis =>
    cL c q s (s + 1) ns + cL c q s (s + 1 + sizeL ns) ms + cL c q s (s + 1 + sizeL ns + sizeL ms) ios +
      cL c q s (s + 1 + sizeL ns + sizeL ms + sizeL ios) mis
/-- … in a children list of the object with id `par`, the list starting at id `s` -/
def cL (c q : Nat) (par : Nat) (s : Nat) : List Tree → Nat
  | [] => 0
  | t :: ts => (if par = q ∧ kindOf t.obj.type = c then 1 else 0) + cIn c q s t + cL c q par (s + sizeT t) ts
end

theorem count_occs (c q : Nat) :
    (∀ t, ∀ s (par : Int) rk pv nx, ((occsT s par rk pv nx t).filter (PK c q)).length =
        (if (decide (0 ≤ par) && (par.toNat == q) && (kindOf t.obj.type == c)) = true then 1 else 0) + cIn c q s t) ∧
    (∀ l, ∀ s (p : Nat) rk pv, ((occsL s (p : Int) rk pv l).filter (PK c q)).length = cL c q p s l) := by
  have hnode : ∀ o ns ms ios mis,
      (∀ s (p : Nat) rk pv, ((occsL s (p : Int) rk pv ns).filter (PK c q)).length = cL c q p s ns) →
      (∀ s (p : Nat) rk pv, ((occsL s (p : Int) rk pv ms).filter (PK c q)).length = cL c q p s ms) →
      (∀ s (p : Nat) rk pv, ((occsL s (p : Int) rk pv ios).filter (PK c q)).length = cL c q p s ios) →
      (∀ s (p : Nat) rk pv, ((occsL s (p : Int) rk pv mis).filter (PK c q)).length = cL c q p s mis) →
      (∀ s (par : Int) rk pv nx, ((occsT s par rk pv nx (.node o ns ms ios mis)).filter (PK c q)).length =
        (if (decide (0 ≤ par) && (par.toNat == q) && (kindOf (Tree.node o ns ms ios mis).obj.type == c)) = true then 1 else 0) +
          cIn c q s (.node o ns ms ios mis)) := by
    intro o ns ms ios mis h1 h2 h3 h4 s par rk pv nx
    rw [occsT, cIn, List.filter_cons]
    have hP : PK c q ⟨s, par, rk, pv, nx, .node o ns ms ios mis⟩ =
        (decide (0 ≤ par) && (par.toNat == q) && (kindOf (Tree.node o ns ms ios mis).obj.type == c)) := rfl
    rw [hP]
    split
    · simp only [List.length_cons, List.filter_append, List.length_append, h1, h2, h3, h4]; omega
    · simp only [List.filter_append, List.length_append, h1, h2, h3, h4]; omega
  have hnil : ∀ s (p : Nat) rk pv, ((occsL s (p : Int) rk pv []).filter (PK c q)).length = cL c q p s [] := by
    intro s p rk pv; rw [occsL, cL]; rfl
  have hcons : ∀ t ts,
      (∀ s (par : Int) rk pv nx, ((occsT s par rk pv nx t).filter (PK c q)).length =
        (if (decide (0 ≤ par) && (par.toNat == q) && (kindOf t.obj.type == c)) = true then 1 else 0) + cIn c q s t) →
      (∀ s (p : Nat) rk pv, ((occsL s (p : Int) rk pv ts).filter (PK c q)).length = cL c q p s ts) →
      (∀ s (p : Nat) rk pv, ((occsL s (p : Int) rk pv (t :: ts)).filter (PK c q)).length = cL c q p s (t :: ts)) := by
    intro t ts h1 h2 s p rk pv
    rw [occsL, cL, List.filter_append, List.length_append, h1, h2]
    have : ((decide (0 ≤ (p : Int)) && ((p : Int).toNat == q) && (kindOf t.obj.type == c)) = true) ↔ (p = q ∧ kindOf t.obj.type = c) := by
      simp
    simp only [this]
  exact ⟨tree_ind4T hnode hnil hcons, tree_ind4L hnode hnil hcons⟩

/-- nothing inside a subtree has a parent outside the subtree's id range -/
theorem cIn_zero (c q : Nat) :
    (∀ t, ∀ s, (q < s ∨ s + sizeT t ≤ q) → cIn c q s t = 0) ∧
    (∀ l, ∀ s p, p ≠ q → (q < s ∨ s + sizeL l ≤ q) → cL c q p s l = 0) := by
  have hnode : ∀ o ns ms ios mis,
      (∀ s p, p ≠ q → (q < s ∨ s + sizeL ns ≤ q) → cL c q p s ns = 0) → (∀ s p, p ≠ q → (q < s ∨ s + sizeL ms ≤ q) → cL c q p s ms = 0) →
      (∀ s p, p ≠ q → (q < s ∨ s + sizeL ios ≤ q) → cL c q p s ios = 0) → (∀ s p, p ≠ q → (q < s ∨ s + sizeL mis ≤ q) → cL c q p s mis = 0) →
      (∀ s, (q < s ∨ s + sizeT (.node o ns ms ios mis) ≤ q) → cIn c q s (.node o ns ms ios mis) = 0) := by
    intro o ns ms ios mis h1 h2 h3 h4 s hq
    rw [sizeT] at hq
    rw [cIn, h1 _ s (by omega) (by omega), h2 _ s (by omega) (by omega), h3 _ s (by omega) (by omega), h4 _ s (by omega) (by omega)]
  have hnil : ∀ s p, p ≠ q → (q < s ∨ s + sizeL [] ≤ q) → cL c q p s [] = 0 := by
    intro s p _ _; rw [cL]
  have hcons : ∀ t ts, (∀ s, (q < s ∨ s + sizeT t ≤ q) → cIn c q s t = 0) →
      (∀ s p, p ≠ q → (q < s ∨ s + sizeL ts ≤ q) → cL c q p s ts = 0) →
      (∀ s p, p ≠ q → (q < s ∨ s + sizeL (t :: ts) ≤ q) → cL c q p s (t :: ts) = 0) := by
    intro t ts h1 h2 s p hp hq
    rw [sizeL] at hq
    rw [cL, h1 s (by omega), h2 _ p hp (by omega), if_neg (fun h => hp h.1)]
  exact ⟨tree_ind4T hnode hnil hcons, tree_ind4L hnode hnil hcons⟩

/-- roots of kind `c` in a list -/
def cntK (c : Nat) (l : List Tree) : Nat := (l.filter (fun t => kindOf t.obj.type == c)).length

def rootsK (c : Nat) : Tree → Nat
  | .node _ ns ms ios mis => cntK c ns + cntK c ms + cntK c ios + cntK c mis

/-- the children lists of the object with id `q` itself -/
theorem cL_self (c q : Nat) : ∀ (l : List Tree) (s : Nat), q < s → cL c q q s l = cntK c l := by
  intro l
  induction l with
  | nil => intro s _; rw [cL]; rfl
  | cons t ts ih =>
    intro s hs
    rw [cL, (cIn_zero c q).1 t s (Or.inl hs), ih _ (by omega)]
    unfold cntK
    rw [List.filter_cons]
    by_cases h : kindOf t.obj.type = c
    · simp [h]; omega
    · simp [h]

theorem occ_range :
    (∀ t, ∀ s par rk pv nx, ∀ oc ∈ occsT s par rk pv nx t, s ≤ oc.id ∧ oc.id < s + sizeT t) ∧
    (∀ l, ∀ s par rk pv, ∀ oc ∈ occsL s par rk pv l, s ≤ oc.id ∧ oc.id < s + sizeL l) :=
  ⟨fun t s par rk pv nx oc hoc => by
      obtain ⟨k, hk⟩ := List.mem_iff_getElem?.1 hoc
      have h1 := occs_ids.1 t s par rk pv nx k oc hk
      have h2 := (List.getElem?_eq_some_iff.1 hk).1
      rw [occsT_length] at h2
      omega,
   fun l s par rk pv oc hoc => by
      obtain ⟨k, hk⟩ := List.mem_iff_getElem?.1 hoc
      have h1 := occs_ids.2 l s par rk pv k oc hk
      have h2 := (List.getElem?_eq_some_iff.1 hk).1
      rw [occsL_length] at h2
      omega⟩

/-- **the structural count at an occurrence**: inside the subtree that lists `oc`, the occurrences of kind `c` whose parent is
    `oc.id` are as many as the children lists of `oc` have roots of kind `c` -/
theorem cIn_at (c : Nat) :
    (∀ t, ∀ s par rk pv nx, ∀ oc ∈ occsT s par rk pv nx t, cIn c oc.id s t = rootsK c oc.t) ∧
    (∀ l, ∀ s (p : Nat) rk pv, p < s → ∀ oc ∈ occsL s (p : Int) rk pv l, cL c oc.id p s l = rootsK c oc.t) := by
  have hnode : ∀ o ns ms ios mis,
      (∀ s (p : Nat) rk pv, p < s → ∀ oc ∈ occsL s (p : Int) rk pv ns, cL c oc.id p s ns = rootsK c oc.t) →
      (∀ s (p : Nat) rk pv, p < s → ∀ oc ∈ occsL s (p : Int) rk pv ms, cL c oc.id p s ms = rootsK c oc.t) →
      (∀ s (p : Nat) rk pv, p < s → ∀ oc ∈ occsL s (p : Int) rk pv ios, cL c oc.id p s ios = rootsK c oc.t) →
      (∀ s (p : Nat) rk pv, p < s → ∀ oc ∈ occsL s (p : Int) rk pv mis, cL c oc.id p s mis = rootsK c oc.t) →
      (∀ s par rk pv nx, ∀ oc ∈ occsT s par rk pv nx (.node o ns ms ios mis), cIn c oc.id s (.node o ns ms ios mis) = rootsK c oc.t) := by
    intro o ns ms ios mis h1 h2 h3 h4 s par rk pv nx oc hoc
    rw [occsT, List.mem_cons] at hoc
    rw [cIn]
    rcases hoc with hoc | hoc
    · subst hoc
      show cL c s s (s + 1) ns + cL c s s (s + 1 + sizeL ns) ms + cL c s s (s + 1 + sizeL ns + sizeL ms) ios +
        cL c s s (s + 1 + sizeL ns + sizeL ms + sizeL ios) mis = rootsK c (.node o ns ms ios mis)
      rw [cL_self c s ns _ (by omega), cL_self c s ms _ (by omega), cL_self c s ios _ (by omega), cL_self c s mis _ (by omega)]
      rfl
    · simp only [List.mem_append] at hoc
      rcases hoc with ((hoc | hoc) | hoc) | hoc
      · have r := occ_range.2 ns _ _ _ _ oc hoc
        rw [h1 _ s _ _ (by omega) oc hoc, (cIn_zero c oc.id).2 ms _ s (by omega) (by omega),
          (cIn_zero c oc.id).2 ios _ s (by omega) (by omega), (cIn_zero c oc.id).2 mis _ s (by omega) (by omega)]
        omega
      · have r := occ_range.2 ms _ _ _ _ oc hoc
        rw [h2 _ s _ _ (by omega) oc hoc, (cIn_zero c oc.id).2 ns _ s (by omega) (by omega),
          (cIn_zero c oc.id).2 ios _ s (by omega) (by omega), (cIn_zero c oc.id).2 mis _ s (by omega) (by omega)]
        omega
      · have r := occ_range.2 ios _ _ _ _ oc hoc
        rw [h3 _ s _ _ (by omega) oc hoc, (cIn_zero c oc.id).2 ns _ s (by omega) (by omega),
          (cIn_zero c oc.id).2 ms _ s (by omega) (by omega), (cIn_zero c oc.id).2 mis _ s (by omega) (by omega)]
        omega
      · have r := occ_range.2 mis _ _ _ _ oc hoc
        rw [h4 _ s _ _ (by omega) oc hoc, (cIn_zero c oc.id).2 ns _ s (by omega) (by omega),
          (cIn_zero c oc.id).2 ms _ s (by omega) (by omega), (cIn_zero c oc.id).2 ios _ s (by omega) (by omega)]
        omega
  have hnil : ∀ s (p : Nat) rk pv, p < s → ∀ oc ∈ occsL s (p : Int) rk pv [], cL c oc.id p s [] = rootsK c oc.t := by
    intro s p rk pv _ oc hoc; rw [occsL] at hoc; cases hoc
  have hcons : ∀ t ts,
      (∀ s par rk pv nx, ∀ oc ∈ occsT s par rk pv nx t, cIn c oc.id s t = rootsK c oc.t) →
      (∀ s (p : Nat) rk pv, p < s → ∀ oc ∈ occsL s (p : Int) rk pv ts, cL c oc.id p s ts = rootsK c oc.t) →
      (∀ s (p : Nat) rk pv, p < s → ∀ oc ∈ occsL s (p : Int) rk pv (t :: ts), cL c oc.id p s (t :: ts) = rootsK c oc.t) := by
    intro t ts h1 h2 s p rk pv hp oc hoc
    rw [occsL, List.mem_append] at hoc
    rw [cL]
    rcases hoc with hoc | hoc
    · have r := occ_range.1 t _ _ _ _ _ oc hoc
      rw [h1 _ _ _ _ _ oc hoc, (cIn_zero c oc.id).2 ts _ p (by omega) (by omega), if_neg (fun h => by omega)]
      omega
    · have r := occ_range.2 ts _ _ _ _ oc hoc
      rw [h2 _ p _ _ (by omega) oc hoc, (cIn_zero c oc.id).1 t s (by omega), if_neg (fun h => by omega)]
      omega
  exact ⟨tree_ind4T hnode hnil hcons, tree_ind4L hnode hnil hcons⟩

/-- in the occurrence list of a tree, the occurrences of kind `c` whose parent is `oc.id` -/
theorem occ_count (t : Tree) (c : Nat) (oc : Occ) (hoc : oc ∈ occs t) :
    ((occs t).filter (PK c oc.id)).length = rootsK c oc.t := by
  unfold occs at hoc ⊢
  rw [(count_occs c oc.id).1 t 0 (-1) 0 (-1) (-1), (cIn_at c).1 t 0 (-1) 0 (-1) (-1) oc hoc]
  simp

/-! ### children-counts -/

theorem cntK_of (c k : Nat) (l : List Tree) (h : ∀ t ∈ l, kindOf t.obj.type = k) : cntK c l = if k = c then l.length else 0 := by
  unfold cntK
  by_cases e : k = c
  · rw [if_pos e, List.filter_eq_self.2 (fun t ht => by rw [h t ht, e]; simp)]
  · rw [if_neg e, List.filter_eq_nil_iff.2 (fun t ht => by rw [h t ht]; simpa using e)]
    rfl

theorem kindOf_normal {ty : Nat} (h : isNormal ty = true) : kindOf ty = 0 := by unfold kindOf; rw [h]; rfl
theorem kindOf_memory {ty : Nat} (h : isMemory ty = true) : kindOf ty = 1 := by
  have := (isMemory_iff ty).1 h
  have hn : isNormal ty = false := (isNormal_false_iff ty).2 (by omega)
  unfold kindOf; rw [hn, h]; rfl
theorem kindOf_io {ty : Nat} (h : isIO ty = true) : kindOf ty = 2 := by
  have := (isIO_iff ty).1 h
  have hn : isNormal ty = false := (isNormal_false_iff ty).2 (by omega)
  have hm : isMemory ty = false := (isMemory_false_iff ty).2 (by omega)
  unfold kindOf; rw [hn, hm, h]; rfl
theorem kindOf_misc {ty : Nat} (h : isMisc ty = true) : kindOf ty = 3 := by
  have := (isMisc_iff ty).1 h
  have hn : isNormal ty = false := (isNormal_false_iff ty).2 (by omega)
  have hm : isMemory ty = false := (isMemory_false_iff ty).2 (by omega)
  have hi : isIO ty = false := (isIO_false_iff ty).2 (by omega)
  unfold kindOf; rw [hn, hm, hi]; rfl

theorem typedL_mem' (k : Nat → Bool) (l : List Tree) (h : typedL k l = true) : ∀ t ∈ l, k t.obj.type = true := by
  induction l with
  | nil => intro t ht; cases ht
  | cons a as ih =>
    rw [typedL] at h
    simp only [Bool.and_eq_true] at h
    intro t ht
    rcases List.mem_cons.1 ht with rfl | ht
    · exact h.1.1
    · exact ih h.2 t ht

/-- in a typed tree each children list holds roots of its own kind only -/
theorem rootsK_typed (t : Tree) (ht : typedT t = true) :
    rootsK 0 t = t.ns.length ∧ rootsK 1 t = t.ms.length ∧ rootsK 2 t = t.ios.length ∧ rootsK 3 t = t.mis.length := by
  cases t with
  | node o ns ms ios mis =>
    have hl := typedT_lists _ ht
    simp only [Tree.ns, Tree.ms, Tree.ios, Tree.mis] at hl
    have e1 := fun c => cntK_of c 0 ns (fun t h => kindOf_normal (typedL_mem' _ _ hl.1 t h))
    have e2 := fun c => cntK_of c 1 ms (fun t h => kindOf_memory (typedL_mem' _ _ hl.2.1 t h))
    have e3 := fun c => cntK_of c 2 ios (fun t h => kindOf_io (typedL_mem' _ _ hl.2.2.1 t h))
    have e4 := fun c => cntK_of c 3 mis (fun t h => kindOf_misc (typedL_mem' _ _ hl.2.2.2 t h))
    simp only [rootsK, e1, e2, e3, e4, Tree.ns, Tree.ms, Tree.ios, Tree.mis]
    simp

theorem clause_children_counts : objClause "children-counts" = fun _ a o =>
    getN a.nNormal o.id == o.arity && getN a.nMemory o.id == o.marity && getN a.nIO o.id == o.ioarity &&
      getN a.nMisc o.id == o.miscarity := by
  simp only [objClause, objClauses, List.find?, String.reduceBEq]

theorem render_kid_count (t : Tree) (h : Hdr) (ex : RObj → Extra) (c q : Nat) :
    ((render t h ex).objs.filter (isKidC c q)).length = ((occs t).filter (PK c q)).length := by
  rw [render_objs, List.filter_map, List.length_map]
  congr 1
  apply List.filter_congr
  intro oc _
  simp only [Function.comp, isKidC, PK, rObj, ro_parent, ro_type]

/-- **children-counts** for the rendering of every typed tree: the number of objects of each kind whose parent is `o` is the
    corresponding arity of `o` -/
theorem render_children_counts (t : Tree) (ht : typedT t = true) (h : Hdr) (ex : RObj → Extra) (o : Obj)
    (ho : o ∈ (render t h ex).objs) :
    objClause "children-counts" (render t h ex) (mkAux (render t h ex)) o = true := by
  rw [clause_children_counts]
  obtain ⟨oc, hoc, rfl⟩ := render_mem t h ex o ho
  have htyp : typedT oc.t = true := occs_typed.1 t ht 0 (-1) 0 (-1) (-1) oc hoc
  have hr := rootsK_typed oc.t htyp
  have hid : (rObj t ex oc).id = oc.id := by unfold rObj; rw [ro_id]
  have hlt : oc.id < (render t h ex).objs.length := by
    rw [render_objs, List.length_map]
    have := (occ_range.1 t 0 (-1) 0 (-1) (-1) oc hoc).2
    rw [show (occs t).length = sizeT t from occsT_length t 0 (-1) 0 (-1) (-1)]
    omega
  have key : ∀ c, c < 4 → getN (auxCount c (mkAux (render t h ex))) oc.id = rootsK c oc.t := by
    intro c hc
    rw [mkAux_count _ c hc _ hlt, render_kid_count, occ_count t c oc hoc]
  have k0 := key 0 (by omega)
  have k1 := key 1 (by omega)
  have k2 := key 2 (by omega)
  have k3 := key 3 (by omega)
  simp only [auxCount] at k0 k1 k2 k3
  simp only [Bool.and_eq_true, beq_iff_eq, hid]
  unfold rObj
  rw [ro_arity, ro_marity, ro_ioarity, ro_miscarity, k0, k1, k2, k3]
  exact ⟨⟨⟨hr.1, hr.2.1⟩, hr.2.2.1⟩, hr.2.2.2⟩

end Hw.Topo.Restrict
