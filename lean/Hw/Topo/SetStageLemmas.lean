/-
  Hw.Topo.SetStageLemmas — what the set pipeline establishes at every node of its output: every set inside its complete
  counterpart, every set inside the parent's, memory children carrying the parent's cpusets, siblings staying disjoint.
-/
import Hw.Topo.SetStageBasic
namespace Hw.Topo.SetStage
open Hw.Topo

/-! ### OR folds -/

@[simp] theorem orL_nil : orL [] = 0 := rfl
@[simp] theorem orL_cons (a : Nat) (l : List Nat) : orL (a :: l) = a ||| orL l := rfl

theorem orNs_eq (acc : Nat) (l : List ST) : orNs acc l = acc ||| orL (l.map (·.o.nodeset)) := by
  unfold orNs
  induction l generalizing acc with
  | nil => simp
  | cons c cs ih => simp only [List.foldl_cons, List.map_cons, orL_cons, ih, Nat.or_assoc]

theorem belowL_eq' (l : List ST) : belowL l = orL (l.map below) := belowL_eq l

theorem below_node (o : SObj) (kids mem : List ST) : below (.node o kids mem) = orL (mem.map (·.o.nodeset)) ||| orL (kids.map below) := by
  rw [below, orNs_eq, belowL_eq']; simp

theorem sub_orL {l : List Nat} {x : Nat} (h : x ∈ l) : Sub x (orL l) := by
  induction l with
  | nil => cases h
  | cons a r ih =>
    rcases List.mem_cons.1 h with rfl | h
    · exact Sub.or_right _ (Sub.refl _)
    · exact Sub.or_right' _ (ih h)

theorem orL_sub {l : List Nat} {b : Nat} (h : ∀ x ∈ l, Sub x b) : Sub (orL l) b := by
  induction l with
  | nil => exact Sub.zero _
  | cons a r ih => exact Sub.or_left (h a (List.mem_cons_self ..)) (ih (fun x hx => h x (List.mem_cons_of_mem _ hx)))

theorem orL_absorb (a : Nat) (l : List Nat) : a ||| orL (l.map (fun x => a ||| x)) = a ||| orL l := by
  induction l with
  | nil => rfl
  | cons b r ih =>
    simp only [List.map_cons, orL_cons]
    calc a ||| (a ||| b ||| orL (r.map (fun x => a ||| x)))
        = (a ||| b) ||| (a ||| orL (r.map (fun x => a ||| x))) := by
          apply Nat.eq_of_testBit_eq; intro i; simp only [Nat.testBit_or]
          cases a.testBit i <;> cases b.testBit i <;> cases (orL (r.map (fun x => a ||| x))).testBit i <;> rfl
      _ = (a ||| b) ||| (a ||| orL r) := by rw [ih]
      _ = a ||| (b ||| orL r) := by
          apply Nat.eq_of_testBit_eq; intro i; simp only [Nat.testBit_or]
          cases a.testBit i <;> cases b.testBit i <;> cases (orL r).testBit i <;> rfl

theorem orL_perm {l₁ l₂ : List Nat} (p : l₁.Perm l₂) : orL l₁ = orL l₂ := by
  induction p with
  | nil => rfl
  | cons x _ ih => simp [ih]
  | swap x y l => simp only [orL_cons]; rw [← Nat.or_assoc, Nat.or_comm y x, Nat.or_assoc]
  | trans _ _ ih1 ih2 => exact ih1.trans ih2

theorem orL_map_shrink {φ : Nat → Nat} (h : Shrink φ) (l : List Nat) : orL (l.map φ) = φ (orL l) := by
  induction l with
  | nil => simp [h.zero]
  | cons a r ih => simp [ih, h.or]

theorem sub_orCns_acc (acc : Nat) (l : List ST) : Sub acc (orCns acc l) := by
  unfold orCns
  induction l generalizing acc with
  | nil => exact Sub.refl _
  | cons c cs ih => exact (Sub.or_right _ (Sub.refl acc)).trans (ih _)

theorem sub_orCns_mem {c : ST} {l : List ST} (acc : Nat) (h : c ∈ l) : Sub (c.o.cnodeset.getD 0) (orCns acc l) := by
  induction l generalizing acc with
  | nil => cases h
  | cons d ds ih =>
    rcases List.mem_cons.1 h with rfl | h
    · exact (Sub.or_right' acc (Sub.refl _)).trans (sub_orCns_acc _ ds)
    · exact ih _ h

/-! ### `propagate_nodeset` -/

theorem propagate_node (inh : Nat) (o : SObj) (kids mem : List ST) :
    propagate inh (.node o kids mem) =
      .node { o with nodeset := orNs (orNs inh mem) (kids.map (propagate (orNs inh mem))),
                     cnodeset := some (orCns (orCns (match o.cnodeset with | none => inh | some c => c ||| inh) mem)
                                         (kids.map (propagate (orNs inh mem)))) }
        (kids.map (propagate (orNs inh mem))) mem := by
  rw [propagate, propagateL_eq]
  rfl

/-- after `propagate_nodeset` a normal object's nodeset is what it inherits plus what is attached at or below it -/
theorem propagate_nodeset : ∀ (t : ST) (inh : Nat), (propagate inh t).o.nodeset = inh ||| below t := by
  apply ST.ind
  intro o kids mem ihk _ inh
  rw [propagate_node]
  simp only [ST.o]
  rw [orNs_eq, List.map_map, below_node]
  have : (kids.map ((fun x => x.o.nodeset) ∘ propagate (orNs inh mem))) = (kids.map below).map (fun x => orNs inh mem ||| x) := by
    rw [List.map_map]
    apply List.map_congr_left
    intro k hk
    simp only [Function.comp]
    exact ihk k hk _
  rw [this, orL_absorb, orNs_eq, Nat.or_assoc]

theorem propagate_fields (inh : Nat) (t : ST) :
    (propagate inh t).o.gp = t.o.gp ∧ (propagate inh t).o.type = t.o.type ∧ (propagate inh t).o.os = t.o.os ∧
    (propagate inh t).o.cpuset = t.o.cpuset ∧ (propagate inh t).o.ccpuset = t.o.ccpuset := by
  cases t with
  | node o kids mem => rw [propagate_node]; simp [ST.o]

/-- every memory object has a complete_nodeset that contains its nodeset (what `hwloc__attach_memory_object` checks) -/
def MemOK (mem : List ST) : Prop := ∀ m ∈ mem, ∃ x, m.o.cnodeset = some x ∧ Sub m.o.nodeset x

/-- … hence, after `propagate_nodeset`, the complete_nodeset exists and contains the nodeset -/
theorem propagate_cnodeset : ∀ (t : ST), AllN (fun _ _ mem => MemOK mem) t → ∀ inh : Nat,
    ∃ cn, (propagate inh t).o.cnodeset = some cn ∧ Sub (inh ||| below t) cn := by
  apply ST.ind
  intro o kids mem ihk _ hpre inh
  rw [propagate_node]
  refine ⟨_, rfl, ?_⟩
  rw [below_node]
  generalize hcn0 : (match o.cnodeset with | none => inh | some c => c ||| inh) = cn0
  have h0 : Sub inh cn0 := by
    subst hcn0
    cases o.cnodeset with
    | none => exact Sub.refl _
    | some c => exact Sub.or_right' _ (Sub.refl _)
  have hacc1 := sub_orCns_acc cn0 mem
  have hacc2 := sub_orCns_acc (orCns cn0 mem) (kids.map (propagate (orNs inh mem)))
  refine Sub.or_left (h0.trans (hacc1.trans hacc2)) (Sub.or_left ?_ ?_)
  · refine Sub.trans (orL_sub ?_) hacc2
    intro x hx
    obtain ⟨m, hm, rfl⟩ := List.mem_map.1 hx
    obtain ⟨c, hc, hs⟩ := hpre.here m hm
    have := sub_orCns_mem cn0 hm
    rw [hc] at this
    exact hs.trans this
  · apply orL_sub
    intro x hx
    obtain ⟨k, hk, rfl⟩ := List.mem_map.1 hx
    obtain ⟨cn, hcn, hs⟩ := ihk k hk (hpre.kids k hk) (orNs inh mem)
    have hm : propagate (orNs inh mem) k ∈ kids.map (propagate (orNs inh mem)) := List.mem_map_of_mem hk
    have := sub_orCns_mem (orCns cn0 mem) hm
    rw [hcn] at this
    exact ((Sub.or_right' _ (Sub.refl _)).trans hs).trans this

/-! ### object maps -/

mutual
def mapObjs (g : SObj → SObj) : ST → ST
  | .node o kids mem => .node (g o) (mapObjsL g kids) (mapObjsL g mem)
def mapObjsL (g : SObj → SObj) : List ST → List ST
  | [] => []
  | c :: cs => mapObjs g c :: mapObjsL g cs
end

theorem mapObjsL_eq (g : SObj → SObj) (l : List ST) : mapObjsL g l = l.map (mapObjs g) := by
  induction l with
  | nil => rfl
  | cons c cs ih => simp [mapObjsL, ih]

theorem mapObjs_node (g : SObj → SObj) (o : SObj) (kids mem : List ST) :
    mapObjs g (.node o kids mem) = .node (g o) (kids.map (mapObjs g)) (mem.map (mapObjs g)) := by
  rw [mapObjs, mapObjsL_eq, mapObjsL_eq]

theorem mapObjs_o (g : SObj → SObj) (t : ST) : (mapObjs g t).o = g t.o := by
  cases t; rw [mapObjs_node]; rfl

theorem mapObjs_id : ∀ t : ST, mapObjs (fun o => o) t = t := by
  apply ST.ind
  intro o kids mem ihk ihm
  rw [mapObjs_node]
  congr 1
  · conv => rhs; rw [← List.map_id kids]
    exact List.map_congr_left ihk
  · conv => rhs; rw [← List.map_id mem]
    exact List.map_congr_left ihm

def shrinkObj (φ ψ : Nat → Nat) (o : SObj) : SObj := { o with cpuset := φ o.cpuset, nodeset := ψ o.nodeset }

theorem removeUnused_eq (ac an : Nat) : ∀ t : ST, removeUnused ac an t = mapObjs (shrinkObj (· &&& ac) (· &&& an)) t := by
  apply ST.ind
  intro o kids mem ihk ihm
  rw [removeUnused, removeUnusedL_eq, removeUnusedL_eq, mapObjs_node]
  congr 1
  · exact List.map_congr_left ihk
  · exact List.map_congr_left ihm

/-- the tree after "Fixup root sets", `propagate_nodeset`, `fixup_sets`, and the shrinking of the sets by `φ`, `ψ` -/
def core (φ ψ : Nat → Nat) (r : ST) : ST := mapObjs (shrinkObj φ ψ) (fixupSets (propagate 0 (fixupRoot r)))

theorem stage_root_incl (i : In) (h : i.includeDisallowed = true) : (stage i).root = core (fun a => a) (fun a => a) i.root := by
  unfold stage core
  simp only [h, if_true]
  exact (mapObjs_id _).symm

theorem stage_root_excl (i : In) (h : i.includeDisallowed = false) :
    (stage i).root = core (· &&& (stage i).allowedC) (· &&& (stage i).allowedN) i.root := by
  unfold stage core
  simp only [h]
  exact removeUnused_eq _ _ _

/-! ### per-object facts -/

def SubOpt (a : Nat) (b : Option Nat) : Prop := ∀ x, b = some x → Sub a x

/-- the four sets exist where the C code needs them, and each set lies in its complete counterpart -/
def Good (o : SObj) : Prop := ∃ cc cn, o.ccpuset = some cc ∧ o.cnodeset = some cn ∧ Sub o.cpuset cc ∧ Sub o.nodeset cn

/-- each of the four sets of `c` lies in the corresponding set of `p` -/
def Sub4 (c p : SObj) : Prop :=
  Sub c.cpuset p.cpuset ∧ Sub (c.ccpuset.getD 0) (p.ccpuset.getD 0) ∧ Sub c.nodeset p.nodeset ∧ Sub (c.cnodeset.getD 0) (p.cnodeset.getD 0)

theorem fixChild_fields (p c : SObj) : (fixChild p c).gp = c.gp ∧ (fixChild p c).type = c.type ∧ (fixChild p c).os = c.os ∧
    (fixChild p c).nodeset = c.nodeset &&& p.nodeset := by
  unfold fixChild; by_cases h : isMemory c.type = true <;> simp [h]

theorem fixChild_cpuset_normal (p c : SObj) (h : isMemory c.type = false) : (fixChild p c).cpuset = c.cpuset &&& p.cpuset := by
  unfold fixChild; simp [h]

theorem fixChild_memory (p c : SObj) (h : isMemory c.type = true) :
    (fixChild p c).cpuset = p.cpuset ∧ (fixChild p c).ccpuset = some (p.ccpuset.getD 0) := by
  unfold fixChild; simp [h]

theorem clipOpt_facts {a pa pc : Nat} {x : Option Nat} (h : SubOpt a x) (hp : Sub pa pc) :
    Sub (a &&& pa) (clipOpt x pc (a &&& pa)) ∧ Sub (clipOpt x pc (a &&& pa)) pc := by
  unfold clipOpt
  cases hx : x with
  | none => exact ⟨Sub.refl _, (Sub.and_right _ _).trans hp⟩
  | some y => exact ⟨Sub.and_mono (h y hx) hp, Sub.and_right _ _⟩

theorem fixChild_good {p c : SObj} (hp : Good p) (h1 : SubOpt c.cpuset c.ccpuset) (h2 : SubOpt c.nodeset c.cnodeset) :
    Good (fixChild p c) ∧ Sub4 (fixChild p c) p := by
  obtain ⟨pcc, pcn, hpcc, hpcn, hpc, hpn⟩ := hp
  have hn := clipOpt_facts (pc := pcn) h2 hpn
  have hc := clipOpt_facts (pc := pcc) h1 hpc
  by_cases hm : isMemory c.type = true
  · have e : fixChild p c = { c with cpuset := p.cpuset, ccpuset := some pcc, nodeset := c.nodeset &&& p.nodeset,
                                     cnodeset := some (clipOpt c.cnodeset pcn (c.nodeset &&& p.nodeset)) } := by
      unfold fixChild; simp only [hm, if_true, hpcc, hpcn, Option.getD_some]
    rw [e]
    refine ⟨⟨pcc, _, rfl, rfl, hpc, hn.1⟩, Sub.refl _, ?_, Sub.and_right _ _, ?_⟩
    · simp [hpcc, Sub.refl]
    · simp [hpcn, hn.2]
  · have e : fixChild p c = { c with cpuset := c.cpuset &&& p.cpuset, ccpuset := some (clipOpt c.ccpuset pcc (c.cpuset &&& p.cpuset)),
                                     nodeset := c.nodeset &&& p.nodeset,
                                     cnodeset := some (clipOpt c.cnodeset pcn (c.nodeset &&& p.nodeset)) } := by
      unfold fixChild; simp only [hm, hpcc, hpcn, Option.getD_some]; rfl
    rw [e]
    refine ⟨⟨_, _, rfl, rfl, hc.1, hn.1⟩, Sub.and_right _ _, ?_, Sub.and_right _ _, ?_⟩
    · simp [hpcc, hc.2]
    · simp [hpcn, hn.2]

theorem shrinkObj_good {φ ψ : Nat → Nat} (hφ : Shrink φ) (hψ : Shrink ψ) {o : SObj} (h : Good o) : Good (shrinkObj φ ψ o) := by
  obtain ⟨cc, cn, h1, h2, h3, h4⟩ := h
  exact ⟨cc, cn, h1, h2, (hφ.sub _).trans h3, (hψ.sub _).trans h4⟩

theorem shrinkObj_sub4 {φ ψ : Nat → Nat} (hφ : Shrink φ) (hψ : Shrink ψ) {c p : SObj} (h : Sub4 c p) :
    Sub4 (shrinkObj φ ψ c) (shrinkObj φ ψ p) := ⟨hφ.mono h.1, h.2.1, hψ.mono h.2.2.1, h.2.2.2⟩

/-! ### the postcondition at every node -/

/-- what holds at every node after the stage -/
def Post (o : SObj) (kids mem : List ST) : Prop :=
  Good o ∧ (∀ c ∈ kids, Sub4 c.o o) ∧
  (∀ m ∈ mem, Sub4 m.o o ∧ m.o.cpuset = o.cpuset ∧ m.o.ccpuset = o.ccpuset) ∧
  (kids.map (·.o.cpuset)).Pairwise Dj

/-- what is assumed at every node before the stage -/
def PreN (o : SObj) (kids mem : List ST) : Prop :=
  SubOpt o.cpuset o.ccpuset ∧
  (∀ k ∈ kids, isMemory k.o.type = false) ∧ (∀ m ∈ mem, isMemory m.o.type = true) ∧ (isMemory o.type = true → kids = []) ∧
  MemOK mem ∧ (kids.map (·.o.cpuset)).Pairwise Dj

theorem fixupChild_node (p c : SObj) (kids mem : List ST) :
    fixupChild p (.node c kids mem) =
      .node (fixChild p c) (reorderIfNeeded (kids.map (fixupChild (fixChild p c)))) (mem.map (fixupChild (fixChild p c))) := by
  rw [fixupChild, fixupChildren_eq, fixupChildren_eq]

theorem fixupSets_node (o : SObj) (kids mem : List ST) :
    fixupSets (.node o kids mem) = .node o (reorderIfNeeded (kids.map (fixupChild o))) (mem.map (fixupChild o)) := by
  rw [fixupSets, fixupChildren_eq, fixupChildren_eq]

theorem fixupChild_o (p : SObj) (t : ST) : (fixupChild p t).o = fixChild p t.o := by
  cases t; rw [fixupChild_node]; rfl

/-- one node of the output: `c'` is final, `K` / `M` are its processed normal / memory children before the reordering -/
theorem post_step {φ ψ : Nat → Nat} (hφ : Shrink φ) (hψ : Shrink ψ) (c' : SObj) (K M : List ST) (hg : Good c')
    (hK : ∀ y ∈ K, AllN Post (mapObjs (shrinkObj φ ψ) y) ∧ Sub4 y.o c')
    (hM : ∀ y ∈ M, AllN Post (mapObjs (shrinkObj φ ψ) y) ∧ Sub4 y.o c' ∧ y.o.cpuset = c'.cpuset ∧ y.o.ccpuset = c'.ccpuset)
    (hd : (K.map (·.o.cpuset)).Pairwise Dj) :
    AllN Post (mapObjs (shrinkObj φ ψ) (.node c' (reorderIfNeeded K) M)) := by
  rw [mapObjs_node]
  refine .node ⟨shrinkObj_good hφ hψ hg, ?_, ?_, ?_⟩ ?_ ?_
  · intro c hc
    obtain ⟨y, hy, rfl⟩ := List.mem_map.1 hc
    rw [mapObjs_o]
    exact shrinkObj_sub4 hφ hψ (hK y (mem_reorderIfNeeded.1 hy)).2
  · intro m hm
    obtain ⟨y, hy, rfl⟩ := List.mem_map.1 hm
    rw [mapObjs_o]
    obtain ⟨_, h4, h5, h6⟩ := hM y hy
    exact ⟨shrinkObj_sub4 hφ hψ h4, by simp [shrinkObj, h5], by simp [shrinkObj, h6]⟩
  · have hp : ((reorderIfNeeded K).map (mapObjs (shrinkObj φ ψ))).map (·.o.cpuset) = ((reorderIfNeeded K).map (·.o.cpuset)).map φ := by
      rw [List.map_map, List.map_map]
      apply List.map_congr_left
      intro y _
      simp [mapObjs_o, shrinkObj]
    rw [hp]
    have h1 : ((reorderIfNeeded K).map (·.o.cpuset)).Pairwise Dj :=
      (List.Perm.pairwise_iff (fun h => Dj.symm h) ((reorderIfNeeded_perm K).map _)).2 hd
    rw [List.pairwise_map]
    exact h1.imp (fun h => hφ.dj h)
  · intro c hc
    obtain ⟨y, hy, rfl⟩ := List.mem_map.1 hc
    exact (hK y (mem_reorderIfNeeded.1 hy)).1
  · intro m hm
    obtain ⟨y, hy, rfl⟩ := List.mem_map.1 hm
    exact (hM y hy).1

/-- a memory subtree handed to the loop of `fixup_sets` -/
theorem post_memory {φ ψ : Nat → Nat} (hφ : Shrink φ) (hψ : Shrink ψ) : ∀ (m : ST) (p : SObj), Good p → AllN PreN m →
    isMemory m.o.type = true → (∃ x, m.o.cnodeset = some x ∧ Sub m.o.nodeset x) →
    AllN Post (mapObjs (shrinkObj φ ψ) (fixupChild p m)) := by
  apply ST.ind
  intro c kids mem _ ihm p hp hpre hty hcn
  obtain ⟨h1, _, hmt, hk, hmo, _⟩ := hpre.here
  have hkids : kids = [] := hk hty
  subst hkids
  rw [fixupChild_node]
  have hn : SubOpt c.nodeset c.cnodeset := by
    obtain ⟨x, hx, hs⟩ := hcn
    intro y hy; simp only [ST.o] at hx; rw [hx] at hy; cases hy; exact hs
  have hg := (fixChild_good hp h1 hn).1
  refine post_step hφ hψ _ _ _ hg (by simp) ?_ (by simp)
  intro y hy
  obtain ⟨m, hm, rfl⟩ := List.mem_map.1 hy
  have hmty := hmt m hm
  have hmcn := hmo m hm
  refine ⟨ihm m hm _ hg (hpre.mem m hm) hmty hmcn, ?_⟩
  rw [fixupChild_o]
  have hmn : SubOpt m.o.nodeset m.o.cnodeset := by
    obtain ⟨x, hx, hs⟩ := hmcn
    intro y hy; rw [hx] at hy; cases hy; exact hs
  have hm1 : SubOpt m.o.cpuset m.o.ccpuset := by
    have := (hpre.mem m hm)
    cases m; exact this.here.1
  have := fixChild_memory (fixChild p c) m.o hmty
  have h4 := (fixChild_good hg hm1 hmn).2
  obtain ⟨cc, _, hcc, _⟩ := hg
  exact ⟨h4, this.1, by rw [this.2, hcc]; rfl⟩

/-- the children of a node whose own object `c'` is final: normal children come out of `propagate_nodeset` -/
theorem post_children {φ ψ : Nat → Nat} (hφ : Shrink φ) (hψ : Shrink ψ) (o c' : SObj) (kids mem : List ST) (ns1 : Nat)
    (hpre : AllN PreN (.node o kids mem)) (hg : Good c')
    (ih : ∀ k ∈ kids, ∀ (p : SObj) (inh : Nat), Good p → AllN PreN k → isMemory k.o.type = false →
          AllN Post (mapObjs (shrinkObj φ ψ) (fixupChild p (propagate inh k)))) :
    AllN Post (mapObjs (shrinkObj φ ψ)
      (.node c' (reorderIfNeeded ((kids.map (propagate ns1)).map (fixupChild c'))) (mem.map (fixupChild c')))) := by
  obtain ⟨_, hkt, hmt, _, hmo, hdj⟩ := hpre.here
  have hmemok : ∀ k ∈ kids, AllN (fun _ _ mem => MemOK mem) k :=
    fun k hk => AllN.imp (fun _ _ _ h => h.2.2.2.2.1) k (hpre.kids k hk)
  refine post_step hφ hψ _ _ _ hg ?_ ?_ ?_
  · intro y hy
    rw [List.map_map] at hy
    obtain ⟨k, hk, rfl⟩ := List.mem_map.1 hy
    simp only [Function.comp]
    refine ⟨ih k hk _ _ hg (hpre.kids k hk) (hkt k hk), ?_⟩
    rw [fixupChild_o]
    have hf := propagate_fields ns1 k
    have h1 : SubOpt (propagate ns1 k).o.cpuset (propagate ns1 k).o.ccpuset := by
      rw [hf.2.2.2.1, hf.2.2.2.2]
      have := hpre.kids k hk
      cases k; exact this.here.1
    have h2 : SubOpt (propagate ns1 k).o.nodeset (propagate ns1 k).o.cnodeset := by
      obtain ⟨cn, hcn, hs⟩ := propagate_cnodeset k (hmemok k hk) ns1
      intro x hx; rw [hcn] at hx; cases hx
      rw [propagate_nodeset]; exact hs
    exact (fixChild_good hg h1 h2).2
  · intro y hy
    obtain ⟨m, hm, rfl⟩ := List.mem_map.1 hy
    have hmty := hmt m hm
    have hmcn := hmo m hm
    refine ⟨post_memory hφ hψ m _ hg (hpre.mem m hm) hmty hmcn, ?_⟩
    rw [fixupChild_o]
    have hmn : SubOpt m.o.nodeset m.o.cnodeset := by
      obtain ⟨x, hx, hs⟩ := hmcn
      intro y hy; rw [hx] at hy; cases hy; exact hs
    have hm1 : SubOpt m.o.cpuset m.o.ccpuset := by
      have := (hpre.mem m hm)
      cases m; exact this.here.1
    have := fixChild_memory c' m.o hmty
    have h4 := (fixChild_good hg hm1 hmn).2
    obtain ⟨cc, _, hcc, _⟩ := hg
    exact ⟨h4, this.1, by rw [this.2, hcc]; rfl⟩
  · rw [List.map_map, List.map_map, List.pairwise_map]
    rw [List.pairwise_map] at hdj
    refine hdj.imp_of_mem ?_
    intro a b ha hb hab
    simp only [Function.comp]
    rw [fixupChild_o, fixupChild_o, fixChild_cpuset_normal _ _ (by rw [(propagate_fields ns1 a).2.1]; exact hkt a ha),
      fixChild_cpuset_normal _ _ (by rw [(propagate_fields ns1 b).2.1]; exact hkt b hb),
      (propagate_fields ns1 a).2.2.2.1, (propagate_fields ns1 b).2.2.2.1]
    exact hab.mono (Sub.and_left _ _) (Sub.and_left _ _)

/-- a normal subtree: `propagate_nodeset` then the loop iteration of `fixup_sets` -/
theorem post_normal {φ ψ : Nat → Nat} (hφ : Shrink φ) (hψ : Shrink ψ) : ∀ (t : ST) (p : SObj) (inh : Nat), Good p → AllN PreN t →
    isMemory t.o.type = false → AllN Post (mapObjs (shrinkObj φ ψ) (fixupChild p (propagate inh t))) := by
  apply ST.ind
  intro o kids mem ihk _ p inh hp hpre _
  have hmemok : AllN (fun _ _ mem => MemOK mem) (.node o kids mem) := AllN.imp (fun _ _ _ h => h.2.2.2.2.1) _ hpre
  obtain ⟨cn, hcn, hs⟩ := propagate_cnodeset _ hmemok inh
  have hns := propagate_nodeset (.node o kids mem) inh
  rw [propagate_node] at hcn hns ⊢
  rw [fixupChild_node]
  refine post_children hφ hψ o _ kids mem _ hpre ?_ ihk
  refine (fixChild_good hp ?_ ?_).1
  · exact hpre.here.1
  · intro x hx
    simp only [ST.o] at hcn hns
    simp only at hx
    rw [hcn] at hx; cases hx
    rw [hns]; exact hs

/-- the root after "Fixup root sets" and `propagate_nodeset` -/
theorem root_good (r : ST) (hcc : r.o.ccpuset.isSome = true) (hpre : AllN PreN (fixupRoot r)) : Good (propagate 0 (fixupRoot r)).o := by
  have hmemok : AllN (fun _ _ mem => MemOK mem) (fixupRoot r) := AllN.imp (fun _ _ _ h => h.2.2.2.2.1) _ hpre
  obtain ⟨cn, hcn, hs⟩ := propagate_cnodeset _ hmemok 0
  have hf := propagate_fields 0 (fixupRoot r)
  cases r with
  | node o kids mem =>
    obtain ⟨cc, hcc'⟩ := Option.isSome_iff_exists.1 hcc
    simp only [ST.o] at hcc'
    refine ⟨cc, cn, ?_, hcn, ?_, ?_⟩
    · rw [hf.2.2.2.2]; exact hcc'
    · rw [hf.2.2.2.1]; simp only [fixupRoot, ST.o, hcc', Option.getD_some]; exact Sub.and_right _ _
    · rw [propagate_nodeset]; exact hs

/-- **the postcondition holds at every node of the output** -/
theorem core_post {φ ψ : Nat → Nat} (hφ : Shrink φ) (hψ : Shrink ψ) (r : ST) (hcc : r.o.ccpuset.isSome = true)
    (hpre : AllN PreN (fixupRoot r)) : AllN Post (core φ ψ r) := by
  have hg := root_good r hcc hpre
  unfold core
  cases r with
  | node o kids mem =>
    simp only [fixupRoot] at hg hpre ⊢
    rw [propagate_node] at hg ⊢
    rw [fixupSets_node]
    exact post_children hφ hψ _ _ kids mem _ hpre hg (fun k _ => post_normal hφ hψ k)

end Hw.Topo.SetStage
