/-
  Hw.Topo.InsertWF — the tree the Group-insertion model runs on, built from a topology dump, and the bridge from the C01
  predicate to the hypothesis of the insertion theorems: for every well-formed dump the tree of normal objects keyed by
  cpuset is laminar.
-/
import Hw.Topo.WFTree
import Hw.Topo.DistribLemmas
import Hw.Topo.InsertLemmas
namespace Hw.Topo.Ins
open Hw.Topo

def iobjH (d : Dump) (o : Obj) : IObj :=
  { gp := o.gp, type := o.type, key := cs o, ckey := o.ccpuset.getD 0,
    dm := (o.attrs[3]?).getD 0 != 0, kind := ((o.attrs[1]?).getD 0).toNat, subkind := ((o.attrs[2]?).getD 0).toNat,
    mem := (d.objs.filter (fun c => c.parent == (o.id : Int) && isMemory c.type)).map (·.gp) }

/-- the normal-children tree below `o` (cut at depth `fuel`; `d.fuel` exceeds the depth of any dump) -/
def treeH (d : Dump) : Nat → Obj → T
  | 0, o => .node (iobjH d o) []
  | f + 1, o => .node (iobjH d o) ((childObjs d o).map (treeH d f))

theorem treeH_key (d : Dump) (f : Nat) (o : Obj) : (treeH d f o).o.key = cs o := by
  cases f <;> rfl

theorem childObjs_mem_objs {d : Dump} {o c : Obj} (h : c ∈ childObjs d o) : c ∈ d.objs := by
  unfold childObjs at h
  obtain ⟨i, _, hi⟩ := List.mem_filterMap.mp h
  unfold Dump.obj? at hi
  split at hi
  · cases hi
  · exact List.mem_of_getElem? hi

/-- **WF ⇒ laminar**: the hypothesis of the insertion theorems holds for the tree of every well-formed topology -/
theorem lam_treeH {d : Dump} (h : WF d) : ∀ (f : Nat) (o : Obj), o ∈ d.objs → Lam (treeH d f o) := by
  intro f
  induction f with
  | zero => intro o _; exact .mk (fun c hc => by cases hc) List.Pairwise.nil (fun c hc => by cases hc)
  | succ f ih =>
    intro o ho
    simp only [treeH]
    refine .mk ?_ ?_ ?_
    · intro c hc
      obtain ⟨x, hx, rfl⟩ := List.mem_map.mp hc
      rw [treeH_key]
      show sub (cs x) (cs o)
      have hu := (T_union_of_wf h o ho).1
      have hlen := (T_children_of_wf h o ho).2
      have ha : o.arity ≠ 0 := by
        intro h0
        have : childObjs d o = [] := List.eq_nil_of_length_eq_zero (by omega)
        rw [this] at hx; cases hx
      rw [(hu ha).2.2]
      have := subset_orAll (List.mem_map_of_mem (f := cs) hx)
      unfold subset at this
      simpa [sub] using this
    · rw [List.pairwise_map]
      refine (T_disjoint_of_wf h o ho).imp ?_
      intro a b hab
      show dj (treeH d f a).o.key (treeH d f b).o.key
      rw [treeH_key, treeH_key]
      unfold disjoint at hab
      simpa [dj] using hab
    · intro c hc
      obtain ⟨x, hx, rfl⟩ := List.mem_map.mp hc
      exact ih x (childObjs_mem_objs hx)


/-! ### re-insertion oracle (C01 engine): every loaded topology must be a fixed point of its own construction

The objects of the loaded tree, taken in post-order (children before parents, the order in which a back end discovers a
hierarchy bottom-up) and inserted one by one into an empty root by the MODEL of `hwloc___insert_object_by_cpuset`, must rebuild
exactly the loaded tree (same parents, same order).  This ties the model's set and type-order comparisons to every real
topology of every run, for all object types (the Group-insertion engine only inserts Groups). -/

/-- the tree keyed by complete cpuset (what `hwloc_obj_cmp_sets` compares when both objects have one), Groups unmergeable (they
exist in the final topology), memory children ignored -/
def treeC (d : Dump) : Nat → Obj → T
  | 0, o => .node { gp := o.gp, type := o.type, key := o.ccpuset.getD 0, ckey := o.ccpuset.getD 0, dm := true,
                    kind := ((o.attrs[1]?).getD 0).toNat, subkind := ((o.attrs[2]?).getD 0).toNat } []
  | f + 1, o => .node { gp := o.gp, type := o.type, key := o.ccpuset.getD 0, ckey := o.ccpuset.getD 0, dm := true,
                        kind := ((o.attrs[1]?).getD 0).toNat, subkind := ((o.attrs[2]?).getD 0).toNat }
                  ((childObjs d o).map (treeC d f))

mutual
def postOrder : T → List IObj
  | .node o kids => postOrderL kids ++ [o]
def postOrderL : List T → List IObj
  | [] => []
  | c :: cs => postOrder c ++ postOrderL cs
end

mutual
def preOrder : T → List IObj
  | .node o kids => o :: preOrderL kids
def preOrderL : List T → List IObj
  | [] => []
  | c :: cs => preOrder c ++ preOrderL cs
end

/-- `none` = not applicable (a CPU-less normal object below a non-root parent: it would be inserted below the root),
`some b` = the re-insertion rebuilds the tree -/
def reinsertAgrees (t : T) : Option Bool :=
  match t with
  | .node ro kids =>
    if (postOrderL kids).any (fun o => o.key == 0) then none
    else
      -- bottom-up (children before parents: the new object adopts children) and top-down (parents first: the new object
      -- descends) discovery orders must both rebuild the tree
      let ok (l : List IObj) : Bool := match insAll (.node ro []) l with
        | some t' => rows 0 t' == rows 0 t
        | none => false
      some (ok (postOrderL kids) && ok (preOrderL kids))

end Hw.Topo.Ins
