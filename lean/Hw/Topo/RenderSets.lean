/-
  Hw.Topo.RenderSets — two set clauses of WF for `render t`: sets-presence (from `setsPresT`: an object carries sets iff it is
  not an I/O or Misc object) and set-in-complete (from SetsOK `okT`); `setsPresT` is preserved by the whole restrict model.
-/
import Hw.Topo.RenderTop
import Hw.Topo.RestrictSurvive
namespace Hw.Topo.Restrict
open Hw.Topo

/-- an object carries sets iff it is neither I/O nor Misc (C01 clause sets-presence, on the tree) -/
def setsPresT (t : Tree) : Bool := (objsT t).all (fun x => x.hasSets == !isSpecial x.type)

theorem ro_cpuset (nl : List (Nat × List Nat)) (os : List Occ) (ex : RObj → Extra) (oc : Occ) :
    (renderObj nl os ex oc).cpuset = optSet oc.t.obj oc.t.obj.cpuset ∧ (renderObj nl os ex oc).ccpuset = optSet oc.t.obj oc.t.obj.ccpuset ∧
    (renderObj nl os ex oc).nodeset = optSet oc.t.obj oc.t.obj.nodeset ∧ (renderObj nl os ex oc).cnodeset = optSet oc.t.obj oc.t.obj.cnodeset := by
  cases oc with | mk a b c d e t => cases t; exact ⟨rfl, rfl, rfl, rfl⟩

theorem clause_sets_presence : objClause "sets-presence" = fun _ _ o =>
    if isSpecial o.type then o.cpuset.isNone && o.ccpuset.isNone && o.nodeset.isNone && o.cnodeset.isNone
    else o.cpuset.isSome && o.ccpuset.isSome && o.nodeset.isSome && o.cnodeset.isSome := by
  simp only [objClause, objClauses, List.find?, String.reduceBEq]

theorem clause_set_in_complete : objClause "set-in-complete" = fun _ _ o =>
    subset (o.cpuset.getD 0) (o.ccpuset.getD 0) && subset (o.nodeset.getD 0) (o.cnodeset.getD 0) := by
  simp only [objClause, objClauses, List.find?, String.reduceBEq]

theorem occ_obj_mem (t : Tree) (oc : Occ) (hoc : oc ∈ occs t) : oc.t.obj ∈ objsT t := by
  rw [← occs_map_obj t]; exact List.mem_map_of_mem hoc

/-- **sets-presence** for the rendering of every tree whose objects carry sets iff they are not special -/
theorem render_sets_presence (t : Tree) (hs : setsPresT t = true) (h : Hdr) (ex : RObj → Extra) (o : Obj)
    (ho : o ∈ (render t h ex).objs) : objClause "sets-presence" (render t h ex) (mkAux (render t h ex)) o = true := by
  rw [clause_sets_presence]
  obtain ⟨oc, hoc, rfl⟩ := render_mem t h ex o ho
  unfold setsPresT at hs
  have hx := List.all_eq_true.1 hs _ (occ_obj_mem t oc hoc)
  simp only [beq_iff_eq] at hx
  unfold rObj
  obtain ⟨e1, e2, e3, e4⟩ := ro_cpuset (normalLevels t) (occs t) ex oc
  simp only [ro_type, e1, e2, e3, e4, optSet, hx]
  cases isSpecial oc.t.obj.type <;> simp

theorem ok_objs :
    (∀ t, okT t = true → ∀ x ∈ objsT t, subset x.cpuset x.ccpuset = true ∧ subset x.nodeset x.cnodeset = true) ∧
    (∀ l, ∀ par, okL par l = true → ∀ x ∈ objsL l, subset x.cpuset x.ccpuset = true ∧ subset x.nodeset x.cnodeset = true) := by
  have hz : ∀ x : RObj, zeroSets x = true → subset x.cpuset x.ccpuset = true ∧ subset x.nodeset x.cnodeset = true := by
    intro x hx
    unfold zeroSets at hx
    simp only [Bool.and_eq_true, beq_iff_eq] at hx
    obtain ⟨⟨⟨h1, h2⟩, h3⟩, h4⟩ := hx
    rw [h1, h2, h3, h4]
    exact ⟨rfl, rfl⟩
  have hnode : ∀ o ns ms ios mis,
      (∀ par, okL par ns = true → ∀ x ∈ objsL ns, subset x.cpuset x.ccpuset = true ∧ subset x.nodeset x.cnodeset = true) →
      (∀ par, okL par ms = true → ∀ x ∈ objsL ms, subset x.cpuset x.ccpuset = true ∧ subset x.nodeset x.cnodeset = true) →
      (okT (.node o ns ms ios mis) = true → ∀ x ∈ objsT (.node o ns ms ios mis),
        subset x.cpuset x.ccpuset = true ∧ subset x.nodeset x.cnodeset = true) := by
    intro o ns ms ios mis h1 h2 hok x hx
    rw [okT_node] at hok
    rw [objsT] at hx
    simp only [List.mem_cons, List.mem_append] at hx
    rcases hx with hx | (((hx | hx) | hx) | hx)
    · rw [hx]; exact ⟨hok.1, hok.2.1⟩
    · exact h1 o hok.2.2.1 x hx
    · exact h2 o hok.2.2.2.1 x hx
    · exact hz x (hok.2.2.2.2.1 x hx)
    · exact hz x (hok.2.2.2.2.2 x hx)
  have hnil : ∀ par, okL par [] = true → ∀ x ∈ objsL [], subset x.cpuset x.ccpuset = true ∧ subset x.nodeset x.cnodeset = true := by
    intro _ _ x hx; simp [objsL] at hx
  have hcons : ∀ t ts,
      (okT t = true → ∀ x ∈ objsT t, subset x.cpuset x.ccpuset = true ∧ subset x.nodeset x.cnodeset = true) →
      (∀ par, okL par ts = true → ∀ x ∈ objsL ts, subset x.cpuset x.ccpuset = true ∧ subset x.nodeset x.cnodeset = true) →
      (∀ par, okL par (t :: ts) = true → ∀ x ∈ objsL (t :: ts), subset x.cpuset x.ccpuset = true ∧ subset x.nodeset x.cnodeset = true) := by
    intro t ts h1 h2 par hok x hx
    rw [okL_cons] at hok
    rw [objsL, List.mem_append] at hx
    rcases hx with hx | hx
    · exact h1 hok.2.2.1 x hx
    · exact h2 par hok.2.2.2 x hx
  exact ⟨tree_indT hnode hnil hcons, tree_indL hnode hnil hcons⟩

/-- **set-in-complete** for the rendering of every SetsOK tree -/
theorem render_set_in_complete (t : Tree) (hok : okT t = true) (h : Hdr) (ex : RObj → Extra) (o : Obj)
    (ho : o ∈ (render t h ex).objs) : objClause "set-in-complete" (render t h ex) (mkAux (render t h ex)) o = true := by
  rw [clause_set_in_complete]
  obtain ⟨oc, hoc, rfl⟩ := render_mem t h ex o ho
  have hx := ok_objs.1 t hok _ (occ_obj_mem t oc hoc)
  unfold rObj
  obtain ⟨e1, e2, e3, e4⟩ := ro_cpuset (normalLevels t) (occs t) ex oc
  simp only [e1, e2, e3, e4, optSet]
  cases oc.t.obj.hasSets
  · simp [subset]
  · simp [hx.1, hx.2]

/-- `setsPresT` is preserved by the whole restrict model (no object is created or re-typed, `hasSets` is never touched) -/
theorem setsPres_restrict (t : Topo) (s : CSet) (flags : Nat) (h : setsPresT t.tree = true) :
    setsPresT (restrict t s flags).1.tree = true := by
  unfold setsPresT at h ⊢
  rw [List.all_eq_true] at h ⊢
  intro x hx
  have hpos : 0 < cnt (fun y => (y.hasSets, y.type)) (x.hasSets, x.type) (objsT (restrict t s flags).1.tree) :=
    (cnt_pos_iff _ _ _).2 ⟨x, hx, rfl⟩
  have hle := cnt_restrict (fun y => (y.hasSets, y.type)) (x.hasSets, x.type) t s flags
    (fun p o => by
      have h1 : (shrinkG p o).type = o.type := type_shrinkG p o
      have h2 : (shrinkG p o).hasSets = o.hasSets := by
        show (ident (shrinkG p o)).hasSets = (ident o).hasSets
        rw [ident_shrinkG]
      rw [h1, h2])
    (fun _ _ => rfl)
  obtain ⟨x0, hx0, e⟩ := (cnt_pos_iff _ _ _).1 (Nat.lt_of_lt_of_le hpos hle)
  simp only [Prod.mk.injEq] at e
  have := h x0 hx0
  rw [e.1, e.2] at this
  exact this

end Hw.Topo.Restrict
