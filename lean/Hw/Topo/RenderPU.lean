/-
  Hw.Topo.RenderPU — "the PU level is the last level" (B2).

  hwloc_connect_levels never takes PUs while another type is present (`top0` = the first non-PU object, and the
  find_same_type fold only moves `top` to an object that HAS normal children), so PUs wait in the frontier until the frontier
  consists of PUs only; PUs have no normal children, hence the level taken then is the last one.  Consequences for the
  rendering of every typed tree with PUs as leaves: WF clauses normal-level-types and pu-level-deepest (the latter needs one
  PU in the tree).
-/
import Hw.Topo.RenderTop
namespace Hw.Topo.Restrict
open Hw.Topo

/-! ### the invariant read by the level loop: along normal children, types are in range and PUs have no normal children -/

mutual
def puNsT : Tree → Bool
  | .node o ns _ _ _ => decide (o.type < 20) && (o.type != tPU || ns.isEmpty) && puNsL ns
def puNsL : List Tree → Bool
  | [] => true
  | t :: ts => puNsT t && puNsL ts
end

theorem puNsT_facts (t : Tree) (h : puNsT t = true) :
    t.obj.type < 20 ∧ (t.obj.type = tPU → t.ns = []) ∧ puNsL t.ns = true := by
  cases t with
  | node o ns ms ios mis =>
    rw [puNsT] at h
    simp only [Bool.and_eq_true, decide_eq_true_eq, Bool.or_eq_true, bne_iff_ne, ne_eq, List.isEmpty_iff] at h
    refine ⟨h.1.1, fun e => ?_, h.2⟩
    rcases h.1.2 with h' | h'
    · exact absurd e h'
    · exact h'

theorem puNsL_append (a b : List Tree) : puNsL (a ++ b) = (puNsL a && puNsL b) := by
  induction a with
  | nil => simp [puNsL]
  | cons x xs ih => simp only [List.cons_append, puNsL, ih, Bool.and_assoc]

theorem puNsL_mem (l : List Tree) (h : puNsL l = true) (t : Tree) (ht : t ∈ l) : puNsT t = true := by
  induction l with
  | nil => cases ht
  | cons x xs ih =>
    rw [puNsL, Bool.and_eq_true] at h
    rcases List.mem_cons.1 ht with rfl | ht
    · exact h.1
    · exact ih h.2 ht

theorem puNsL_next (c : Tree → Bool) (objs : List Tree) (h : puNsL objs = true) :
    puNsL (objs.flatMap (fun o => if c o then o.ns else [o])) = true := by
  induction objs with
  | nil => simp [puNsL]
  | cons x xs ih =>
    rw [puNsL, Bool.and_eq_true] at h
    rw [List.flatMap_cons, puNsL_append, Bool.and_eq_true]
    refine ⟨?_, ih h.2⟩
    by_cases hc : c x = true
    · simp only [hc, if_true]; exact (puNsT_facts x h.1).2.2
    · simp only [hc, Bool.false_eq_true, if_false, puNsL, h.1, Bool.and_self]

/-- typed trees with PUs as leaves satisfy the invariant -/
theorem puNs_of_typed :
    (∀ t, typedT t = true → puLeafT t = true → puNsT t = true) ∧
    (∀ l, (∀ t ∈ l, typedT t = true) → puLeafL l = true → puNsL l = true) := by
  have hnode : ∀ o ns ms ios mis,
      ((∀ t ∈ ns, typedT t = true) → puLeafL ns = true → puNsL ns = true) →
      ((∀ t ∈ ms, typedT t = true) → puLeafL ms = true → puNsL ms = true) →
      ((∀ t ∈ ios, typedT t = true) → puLeafL ios = true → puNsL ios = true) →
      ((∀ t ∈ mis, typedT t = true) → puLeafL mis = true → puNsL mis = true) →
      (typedT (.node o ns ms ios mis) = true → puLeafT (.node o ns ms ios mis) = true → puNsT (.node o ns ms ios mis) = true) := by
    intro o ns ms ios mis h1 _ _ _ ht hl
    have hf := typedT_facts _ ht
    have hns : ∀ t ∈ ns, typedT t = true := fun t htm => (typedL_mem isNormal ns (typedT_lists _ ht).1 t htm).2
    rw [puLeafT] at hl
    simp only [Bool.and_eq_true, Bool.or_eq_true, bne_iff_ne, ne_eq, List.isEmpty_iff] at hl
    rw [puNsT]
    simp only [Bool.and_eq_true, decide_eq_true_eq, Bool.or_eq_true, bne_iff_ne, ne_eq, List.isEmpty_iff]
    refine ⟨⟨hf.2.2.2.2, ?_⟩, h1 hns hl.1.1.1.2⟩
    rcases hl.1.1.1.1 with h' | h'
    · exact Or.inl h'
    · exact Or.inr h'.1
  have hnil : (∀ t ∈ ([] : List Tree), typedT t = true) → puLeafL [] = true → puNsL [] = true := fun _ _ => rfl
  have hcons : ∀ t ts, (typedT t = true → puLeafT t = true → puNsT t = true) →
      ((∀ t ∈ ts, typedT t = true) → puLeafL ts = true → puNsL ts = true) →
      ((∀ x ∈ t :: ts, typedT x = true) → puLeafL (t :: ts) = true → puNsL (t :: ts) = true) := by
    intro t ts h1 h2 hty hl
    rw [puLeafL, Bool.and_eq_true] at hl
    rw [puNsL, Bool.and_eq_true]
    exact ⟨h1 (hty t List.mem_cons_self) hl.1, h2 (fun x hx => hty x (List.mem_cons_of_mem _ hx)) hl.2⟩
  exact ⟨tree_ind4T hnode hnil hcons, tree_ind4L hnode hnil hcons⟩

/-- relabelling (gp := DFS id) does not change the invariant -/
theorem puNs_relabel :
    (∀ t, ∀ s, puNsT (relabelT s t) = puNsT t) ∧ (∀ l, ∀ s, puNsL (relabelL s l) = puNsL l) := by
  have hnode : ∀ o ns ms ios mis, (∀ s, puNsL (relabelL s ns) = puNsL ns) → (∀ s, puNsL (relabelL s ms) = puNsL ms) →
      (∀ s, puNsL (relabelL s ios) = puNsL ios) → (∀ s, puNsL (relabelL s mis) = puNsL mis) →
      (∀ s, puNsT (relabelT s (.node o ns ms ios mis)) = puNsT (.node o ns ms ios mis)) := by
    intro o ns ms ios mis h1 _ _ _ s
    rw [relabelT, puNsT, puNsT, h1]
    have : (relabelL (s + 1) ns).isEmpty = ns.isEmpty := by cases ns <;> rfl
    rw [this]
  have hnil : ∀ s, puNsL (relabelL s []) = puNsL [] := fun _ => rfl
  have hcons : ∀ t ts, (∀ s, puNsT (relabelT s t) = puNsT t) → (∀ s, puNsL (relabelL s ts) = puNsL ts) →
      (∀ s, puNsL (relabelL s (t :: ts)) = puNsL (t :: ts)) := by
    intro t ts h1 h2 s
    rw [relabelL, puNsL, puNsL, h1, h2]
  exact ⟨tree_ind4T hnode hnil hcons, tree_ind4L hnode hnil hcons⟩

/-! ### the level loop -/

theorem levelsLoop_nil (fuel : Nat) : levelsLoop fuel [] = [] := by cases fuel <;> rfl

theorem findSameT_ns (x : RObj) (t : Tree) (h : findSameT x t = true) : t.ns ≠ [] := by
  cases t with
  | node o ns ms ios mis =>
    rw [findSameT] at h
    intro e
    have e' : ns = [] := e
    rw [e', findSameL] at h
    cases h

theorem typeEq_pu (a b : RObj) (ha : a.type < 20) (hb : b.type = tPU) (h : typeEq a b = true) : a.type = tPU := by
  unfold typeEq at h
  simp only [Bool.and_eq_true, beq_iff_eq] at h
  rw [hb] at h
  exact orderOf_inj _ ha _ (by decide) h.1

theorem typeEq_of_pu (a b : RObj) (ha : a.type = tPU) (hb : b.type = tPU) : typeEq a b = true := by
  unfold typeEq
  rw [ha, hb]
  have : (tPU == tGROUP) = false := by decide
  simp [this]

/-- the fold of hwloc_connect_levels keeps a non-PU `top` non-PU: it only moves to an object with normal children -/
theorem top_not_pu (l objs : List Tree) (hl : ∀ o ∈ l, o ∈ objs) (hinv : puNsL objs = true) (init : Tree)
    (hi : init.obj.type ≠ tPU) :
    (l.foldl (fun top o => if (!typeEq top.obj o.obj && findSameT top.obj o) = true then o else top) init).obj.type ≠ tPU := by
  induction l generalizing init with
  | nil => exact hi
  | cons x xs ih =>
    rw [List.foldl_cons]
    apply ih (fun o ho => hl o (List.mem_cons_of_mem _ ho))
    by_cases hc : (!typeEq init.obj x.obj && findSameT init.obj x) = true
    · rw [if_pos hc]
      rw [Bool.and_eq_true] at hc
      intro e
      exact findSameT_ns _ _ hc.2 ((puNsT_facts x (puNsL_mem objs hinv x (hl x List.mem_cons_self))).2.1 e)
    · rw [if_neg hc]; exact hi

/-- **a level that contains a PU is the last level of the loop** -/
theorem levelsLoop_pu_last : ∀ (fuel : Nat) (objs : List Tree), puNsL objs = true →
    ∀ (i : Nat) (lv : List RObj), (levelsLoop fuel objs)[i]? = some lv → (∃ a ∈ lv, a.type = tPU) →
    i + 1 = (levelsLoop fuel objs).length := by
  intro fuel
  induction fuel with
  | zero => intro objs _ i lv h; simp [levelsLoop] at h
  | succ fuel ih =>
    intro objs hinv i lv hlv hpu
    cases objs with
    | nil => simp [levelsLoop] at hlv
    | cons first rest =>
      rw [levelsLoop] at hlv ⊢
      generalize htop : List.foldl (fun top o => if (!typeEq top.obj o.obj && findSameT top.obj o) = true then o else top)
        ((List.find? (fun o => o.obj.type != tPU) (first :: rest)).getD first) (first :: rest) = top at hlv ⊢
      cases i with
      | succ i =>
        rw [List.getElem?_cons_succ] at hlv
        have := ih _ (puNsL_next (fun o => typeEq top.obj o.obj) _ hinv) i lv hlv hpu
        rw [List.length_cons, ← this]
      | zero =>
        rw [List.getElem?_cons_zero] at hlv
        have hlv' := Option.some.inj hlv
        obtain ⟨a, ha, hat⟩ := hpu
        rw [← hlv'] at ha
        simp only [List.mem_map, List.mem_filter] at ha
        obtain ⟨x, ⟨hx, hxe⟩, rfl⟩ := ha
        -- top is one of the objects, and it is a PU
        have htopmem : top ∈ first :: rest := by
          have h0 : (List.find? (fun o => o.obj.type != tPU) (first :: rest)).getD first ∈ first :: rest := by
            cases hf : List.find? (fun o => o.obj.type != tPU) (first :: rest) with
            | none => exact List.mem_cons_self
            | some x => exact List.mem_of_find?_eq_some hf
          rcases foldl_mem (fun top o => if (!typeEq top.obj o.obj && findSameT top.obj o) = true then o else top)
            (fun a b => by by_cases h : (!typeEq a.obj b.obj && findSameT a.obj b) = true <;> simp [h]) (first :: rest) _ with h | h
          · rw [← htop, h]; exact h0
          · rw [← htop]; exact h
        have htoppu : top.obj.type = tPU :=
          typeEq_pu _ _ (puNsT_facts top (puNsL_mem _ hinv top htopmem)).1 hat hxe
        -- hence no object of the frontier is not a PU
        have hall : ∀ o ∈ first :: rest, o.obj.type = tPU := by
          cases hf : List.find? (fun o => o.obj.type != tPU) (first :: rest) with
          | none =>
            intro o ho
            have := List.find?_eq_none.1 hf o ho
            simpa using this
          | some y =>
            exfalso
            have hy : y.obj.type ≠ tPU := by
              have := List.find?_some hf
              simpa using this
            rw [hf] at htop
            have := top_not_pu (first :: rest) (first :: rest) (fun o ho => ho) hinv y hy
            rw [Option.getD_some] at htop
            rw [htop] at this
            exact this htoppu
        -- so everything is taken and nothing is left
        have hnext : (first :: rest).flatMap (fun o => if typeEq top.obj o.obj = true then o.ns else [o]) = [] := by
          rw [List.flatMap_eq_nil_iff]
          intro o ho
          rw [if_pos (typeEq_of_pu _ _ htoppu (hall o ho))]
          exact (puNsT_facts o (puNsL_mem _ hinv o ho)).2.1 (hall o ho)
        rw [hnext, levelsLoop_nil]
        rfl

/-- the same for hwloc_connect_levels as a whole -/
theorem connectLevels_pu_last (t : Tree) (h : puNsT t = true) (i : Nat) (lv : List RObj)
    (hlv : (connectLevels t)[i]? = some lv) (hpu : ∃ a ∈ lv, a.type = tPU) : i + 1 = (connectLevels t).length := by
  have hf := puNsT_facts t h
  unfold connectLevels at hlv ⊢
  cases i with
  | succ i =>
    rw [List.getElem?_cons_succ] at hlv
    have := levelsLoop_pu_last _ _ hf.2.2 i lv hlv hpu
    rw [List.length_cons, ← this]
  | zero =>
    rw [List.getElem?_cons_zero] at hlv
    obtain ⟨a, ha, hat⟩ := hpu
    rw [← Option.some.inj hlv, List.mem_singleton] at ha
    rw [ha] at hat
    rw [hf.2.1 hat, levelsLoop_nil]
    rfl

/-- **the PU level is the last level** of the rendering of every typed tree with PUs as leaves -/
theorem normalLevels_pu_last (t : Tree) (ht : typedT t = true) (hl : puLeafT t = true) (k : Nat)
    (hk : k < (normalLevels t).length) (hty : ((normalLevels t)[k]).1 = tPU) : k + 1 = (normalLevels t).length := by
  obtain ⟨lv, hlv, e⟩ := normalLevels_get t k hk
  have hlvm : lv ∈ connectLevels (relabelT 0 t) := List.mem_of_getElem? hlv
  have hne := connectLevels_nonempty _ lv hlvm
  rw [e] at hty
  have hlen : (normalLevels t).length = (connectLevels (relabelT 0 t)).length := by unfold normalLevels; rw [List.length_map]
  rw [hlen]
  apply connectLevels_pu_last (relabelT 0 t) (by rw [puNs_relabel.1]; exact puNs_of_typed.1 t ht hl) k lv hlv
  cases hh : lv.head? with
  | none => rw [List.head?_eq_none_iff] at hh; exact absurd hh hne
  | some hd =>
    rw [hh] at hty
    exact ⟨hd, List.mem_of_head? hh, hty⟩

/-- executable form (evaluated by the driver on every tree): no level of PU type before the last one -/
def puLevelLast (t : Tree) : Bool :=
  let nl := normalLevels t
  (List.range nl.length).all (fun k => (nl[k]?).map (·.1) != some tPU || k + 1 == nl.length)

theorem puLevelLast_of_typed (t : Tree) (ht : typedT t = true) (hl : puLeafT t = true) : puLevelLast t = true := by
  unfold puLevelLast
  simp only [List.all_eq_true, List.mem_range, Bool.or_eq_true, bne_iff_ne, ne_eq, beq_iff_eq]
  intro k hk
  by_cases hty : ((normalLevels t)[k]).1 = tPU
  · exact Or.inr (normalLevels_pu_last t ht hl k hk hty)
  · left
    rw [List.getElem?_eq_getElem hk]
    simp only [Option.map_some, Option.some.injEq]
    exact hty

/-! ### the two WF clauses -/

theorem clause_normal_level_types : topClause "normal-level-types" = fun d _ => d.levels.all (fun l =>
      if 0 ≤ l.depth then decide (0 ≤ l.type) && isNormal l.type.toNat &&
        (l.type != (tPU : Int) || l.depth == (d.depth : Int) - 1) &&
        (l.type != (tMACHINE : Int) || l.depth == 0)
      else (specialDepth l.type.toNat) == some l.depth && decide (0 ≤ l.type)) := by
  simp only [topClause, topClauses, List.find?, String.reduceBEq]

theorem clause_pu_level_deepest : topClause "pu-level-deepest" = fun d _ =>
      decide (0 < d.depth) && (match levelOf d ((d.depth : Int) - 1) with
      | some l => l.type == (tPU : Int) && !l.objs.isEmpty
      | none => false) &&
      d.objs.all (fun o => o.type != tPU || o.depth == (d.depth : Int) - 1) := by
  simp only [topClause, topClauses, List.find?, String.reduceBEq]
  rfl

theorem render_depth (t : Tree) (h : Hdr) (ex : RObj → Extra) : (render t h ex).depth = (normalLevels t).length := rfl

/-- the index of a level -/
theorem mem_normalLevels_idx (t : Tree) (l : Nat × List Nat) (hl : l ∈ normalLevels t) :
    ∃ k, ∃ hk : k < (normalLevels t).length, (normalLevels t)[k] = l := by
  obtain ⟨k, hk, e⟩ := List.getElem_of_mem hl
  exact ⟨k, hk, e⟩

/-- every object listed in a level is a normal object, so the level type is a normal type -/
theorem level_type_normal (t : Tree) (ht : typedT t = true) (hr : isNormal t.obj.type = true) (k : Nat)
    (hk : k < (normalLevels t).length) : isNormal ((normalLevels t)[k]).1 = true := by
  obtain ⟨lv, hlv, e⟩ := normalLevels_get t k hk
  have hlvm : lv ∈ connectLevels (relabelT 0 t) := List.mem_of_getElem? hlv
  have hne := connectLevels_nonempty _ lv hlvm
  rw [e]
  cases hh : lv.head? with
  | none => rw [List.head?_eq_none_iff] at hh; exact absurd hh hne
  | some hd =>
    simp only [Option.map_some, Option.getD_some]
    have hmem : hd ∈ (connectLevels (relabelT 0 t)).flatten := List.mem_flatten.2 ⟨lv, hlvm, List.mem_of_head? hh⟩
    exact closure_normal.1 t ht hr 0 hd ((connectLevels_perm _).mem_iff.1 hmem)

/-- a level of Machine type is level 0 (one Machine object: the root) -/
theorem level_machine_zero (t : Tree) (ht : typedT t = true) (hm : t.obj.type = tMACHINE) (h1 : machineOnce t) (k : Nat)
    (hk : k < (normalLevels t).length) (hty : ((normalLevels t)[k]).1 = tMACHINE) : k = 0 := by
  have hr : isNormal t.obj.type = true := by rw [hm]; decide
  obtain ⟨lv, hlv, e⟩ := normalLevels_get t k hk
  have hlvm : lv ∈ connectLevels (relabelT 0 t) := List.mem_of_getElem? hlv
  have hne := connectLevels_nonempty _ lv hlvm
  cases hh : lv.head? with
  | none => rw [List.head?_eq_none_iff] at hh; exact absurd hh hne
  | some hd =>
    have hhd : hd ∈ lv := List.mem_of_head? hh
    obtain ⟨oc, hoc, ey⟩ := level_entry_occ t lv hlvm hd hhd
    have hid : oc.id ∈ ((normalLevels t)[k]).2 := by
      rw [e]; exact List.mem_map.2 ⟨hd, hhd, by rw [ey]⟩
    have hoty : oc.t.obj.type = tMACHINE := by rw [← level_type_eq t ht oc hoc k hk hid]; exact hty
    -- the only Machine occurrence is the root, id 0
    have hcl := render_machine_only_at_root t hm h1 ⟨0, [], none, none⟩ (fun _ => {})
    rw [clause_machine_only_at_root] at hcl
    simp only [List.all_eq_true, Bool.or_eq_true, bne_iff_ne, ne_eq, beq_iff_eq] at hcl
    have := hcl (rObj t (fun _ => {}) oc) (by rw [render_objs]; exact List.mem_map_of_mem hoc)
    unfold rObj at this
    rw [ro_type, ro_id] at this
    have hid0 : oc.id = 0 := by
      rcases this with h' | h'
      · exact absurd hoty h'
      · exact h'
    have h0 := normalLevels_zero t
    have e0 : (normalLevels t)[0] = (t.obj.type, [0]) := by
      have := h0.2; rw [List.getElem?_eq_getElem h0.1] at this; exact Option.some.inj this
    exact level_unique t k 0 hk h0.1 oc.id hid (by rw [e0, hid0]; simp)

theorem special_ok (ty : Nat) (hty : ty ∈ specialTypes) : ¬ (0 ≤ (specialDepth ty).getD 0) ∧
    (specialDepth ((ty : Int).toNat) == some ((specialDepth ty).getD 0) && decide (0 ≤ (ty : Int))) = true := by
  simp only [specialTypes, List.mem_cons, List.mem_nil_iff, or_false] at hty
  rcases hty with rfl | rfl | rfl | rfl | rfl | rfl <;> decide

/-- **normal-level-types** for the rendering of every typed tree with PUs as leaves, a Machine root and no second Machine -/
theorem render_normal_level_types (t : Tree) (ht : typedT t = true) (hl : puLeafT t = true) (hm : t.obj.type = tMACHINE)
    (h1 : machineOnce t) (h : Hdr) (ex : RObj → Extra) :
    topClause "normal-level-types" (render t h ex) (mkAux (render t h ex)) = true := by
  have hr : isNormal t.obj.type = true := by rw [hm]; decide
  rw [clause_normal_level_types]
  simp only [List.all_eq_true]
  intro l hlm
  rw [render_levels, List.mem_append] at hlm
  rcases hlm with hlm | hlm
  · obtain ⟨k, hkl⟩ := List.getElem?_of_mem hlm
    have hk : k < (normalLevels t).length := by rw [← normalPart_length]; exact getElem?_lt hkl
    rw [normalPart_get t k hk] at hkl
    have hle := Option.some.inj hkl
    rw [← hle]
    have hpos : (0 : Int) ≤ (k : Int) := Int.natCast_nonneg k
    simp only [hpos, if_true, render_depth, Int.toNat_natCast, Bool.and_eq_true, decide_eq_true_eq, Bool.or_eq_true, bne_iff_ne,
      ne_eq, beq_iff_eq]
    refine ⟨⟨⟨Int.natCast_nonneg _, level_type_normal t ht hr k hk⟩, ?_⟩, ?_⟩
    · by_cases hty : ((normalLevels t)[k]).1 = tPU
      · right
        have := normalLevels_pu_last t ht hl k hk hty
        omega
      · left
        intro e
        exact hty (Int.ofNat.inj e)
    · by_cases hty : ((normalLevels t)[k]).1 = tMACHINE
      · right
        have := level_machine_zero t ht hm h1 k hk hty
        omega
      · left
        intro e
        exact hty (Int.ofNat.inj e)
  · unfold specialPart at hlm
    obtain ⟨ty, hty, rfl⟩ := List.mem_map.1 hlm
    have hs := special_ok ty hty
    show (if 0 ≤ (specialDepth ty).getD 0 then _
      else specialDepth ((ty : Int).toNat) == some ((specialDepth ty).getD 0) && decide (0 ≤ (ty : Int))) = true
    rw [if_neg hs.1]
    exact hs.2

/-- **pu-level-deepest** for the rendering of every typed tree with PUs as leaves, a normal root and at least one PU -/
theorem render_pu_level_deepest (t : Tree) (ht : typedT t = true) (hl : puLeafT t = true) (hr : isNormal t.obj.type = true)
    (hpu : ∃ x ∈ objsT t, x.type = tPU) (h : Hdr) (ex : RObj → Extra) :
    topClause "pu-level-deepest" (render t h ex) (mkAux (render t h ex)) = true := by
  rw [clause_pu_level_deepest]
  -- every PU occurrence sits in the last level
  have key : ∀ oc ∈ occs t, oc.t.obj.type = tPU → ∃ k, ∃ hk : k < (normalLevels t).length,
      k + 1 = (normalLevels t).length ∧ ((normalLevels t)[k]).1 = tPU ∧ oc.id ∈ ((normalLevels t)[k]).2 := by
    intro oc hoc hty
    obtain ⟨l, hlm, hid⟩ := normal_in_level t ht hr oc hoc (by rw [hty]; decide)
    obtain ⟨k, hk, e⟩ := mem_normalLevels_idx t l hlm
    rw [← e] at hid
    have hlt := (level_type_eq t ht oc hoc k hk hid).trans hty
    exact ⟨k, hk, normalLevels_pu_last t ht hl k hk hlt, hlt, hid⟩
  obtain ⟨x, hx, hxt⟩ := hpu
  rw [← occs_map_obj t] at hx
  obtain ⟨oc, hoc, e⟩ := List.mem_map.1 hx
  obtain ⟨k, hk, hlast, hkt, hkid⟩ := key oc hoc (by rw [e]; exact hxt)
  have hdepth : ((render t h ex).depth : Int) - 1 = (k : Int) := by rw [render_depth]; omega
  show (decide (0 < (render t h ex).depth) && (match levelOf (render t h ex) (((render t h ex).depth : Int) - 1) with
      | some l => l.type == (tPU : Int) && !l.objs.isEmpty
      | none => false) &&
      (render t h ex).objs.all (fun o => o.type != tPU || o.depth == ((render t h ex).depth : Int) - 1)) = true
  rw [hdepth, levelOf_normal t h ex k hk]
  simp only [Bool.and_eq_true, decide_eq_true_eq, beq_iff_eq, Bool.not_eq_true', List.isEmpty_eq_false_iff, ne_eq,
    List.map_eq_nil_iff, List.all_eq_true, Bool.or_eq_true, bne_iff_ne]
  refine ⟨⟨by rw [render_depth]; omega, by rw [hkt], fun hnil => by rw [hnil] at hkid; cases hkid⟩, ?_⟩
  intro o ho
  obtain ⟨oc', hoc', rfl⟩ := render_mem t h ex o ho
  unfold rObj
  rw [ro_type, ro_depth]
  by_cases hty : oc'.t.obj.type = tPU
  · right
    obtain ⟨k', hk', hlast', _, hkid'⟩ := key oc' hoc' hty
    have : k' = k := by omega
    subst this
    exact place_of_listed t ht hr oc' hoc' k' hk' hkid'
  · exact Or.inl hty

end Hw.Topo.Restrict
