/-
  Hw.Topo.StageRemoveEmptyKept — what `remove_empty` never removes: every visited object whose own set is not empty survives
  (in particular every PU with a non-empty cpuset and every NUMA node with a non-empty nodeset), and every survivor is an object of
  the input (no object is invented or modified).
-/
import Hw.Topo.StageRemoveEmptyLemmas
namespace Hw.Topo.Restrict.Stage
open Hw.Topo Hw.Topo.Restrict

mutual
/-- the objects `remove_empty` visits: the object and everything reachable through normal and memory children lists -/
def objsNM : Tree → List RObj
  | .node o ns ms _ _ => o :: (objsNML ns ++ objsNML ms)
def objsNML : List Tree → List RObj
  | [] => []
  | t :: ts => objsNM t ++ objsNML ts
end

theorem objsNML_append (a b : List Tree) : objsNML (a ++ b) = objsNML a ++ objsNML b := by
  induction a with
  | nil => rfl
  | cons x xs ih => simp only [List.cons_append, objsNML, ih, List.append_assoc]

mutual
theorem removeEmptyT_keeps : ∀ t : Tree, ∀ x ∈ objsNM t, emptySet x = false → x ∈ objsNML (removeEmptyT t).kept
  | .node o ns ms ios mis => by
    intro x hx hne
    rw [objsNM] at hx
    have h1 := removeEmptyL_keeps ns
    have h2 := removeEmptyL_keeps ms
    rw [removeEmptyT]
    split
    · rename_i hc
      simp only [Bool.and_eq_true, List.isEmpty_iff] at hc
      rcases List.mem_cons.1 hx with rfl | hx
      · rw [hc.2] at hne; exact absurd hne (by simp)
      · rcases List.mem_append.1 hx with hx | hx
        · have := h1 x hx hne; rw [hc.1.1.1] at this; exact this
        · have := h2 x hx hne; rw [hc.1.1.2] at this; exact this
    · simp only [objsNML, objsNM, List.append_nil]
      rcases List.mem_cons.1 hx with rfl | hx
      · exact List.mem_cons_self
      · refine List.mem_cons_of_mem _ ?_
        rcases List.mem_append.1 hx with hx | hx
        · exact List.mem_append_left _ (h1 x hx hne)
        · exact List.mem_append_right _ (h2 x hx hne)
theorem removeEmptyL_keeps : ∀ l : List Tree, ∀ x ∈ objsNML l, emptySet x = false → x ∈ objsNML (removeEmptyL l).kept
  | [] => by intro x hx; rw [objsNML] at hx; simp at hx
  | t :: ts => by
    intro x hx hne
    rw [objsNML] at hx
    rw [removeEmptyL, objsNML_append]
    rcases List.mem_append.1 hx with hx | hx
    · exact List.mem_append_left _ (removeEmptyT_keeps t x hx hne)
    · exact List.mem_append_right _ (removeEmptyL_keeps ts x hx hne)
end

mutual
theorem removeEmptyT_sub : ∀ t : Tree, ∀ x ∈ objsNML (removeEmptyT t).kept, x ∈ objsNM t
  | .node o ns ms ios mis => by
    intro x hx
    have h1 := removeEmptyL_sub ns
    have h2 := removeEmptyL_sub ms
    rw [removeEmptyT] at hx
    rw [objsNM]
    split at hx
    · rw [objsNML] at hx; simp at hx
    · simp only [objsNML, objsNM, List.append_nil] at hx
      rcases List.mem_cons.1 hx with rfl | hx
      · exact List.mem_cons_self
      · refine List.mem_cons_of_mem _ ?_
        rcases List.mem_append.1 hx with hx | hx
        · exact List.mem_append_left _ (h1 x hx)
        · exact List.mem_append_right _ (h2 x hx)
theorem removeEmptyL_sub : ∀ l : List Tree, ∀ x ∈ objsNML (removeEmptyL l).kept, x ∈ objsNML l
  | [] => by intro x hx; rw [removeEmptyL] at hx; exact hx
  | t :: ts => by
    intro x hx
    rw [removeEmptyL, objsNML_append] at hx
    rw [objsNML]
    rcases List.mem_append.1 hx with hx | hx
    · exact List.mem_append_left _ (removeEmptyT_sub t x hx)
    · exact List.mem_append_right _ (removeEmptyL_sub ts x hx)
end

/-- **no object with a non-empty set is lost, no object is invented** -/
theorem removeEmpty_objs (t t' : Tree) (h : removeEmpty t = some t') :
    (∀ x ∈ objsNM t, emptySet x = false → x ∈ objsNM t') ∧ (∀ x ∈ objsNM t', x ∈ objsNM t) := by
  unfold removeEmpty at h
  rcases removeEmptyT_kept_cases t with ⟨hk, _⟩ | ⟨t2, hk, _⟩
  · rw [hk] at h; simp at h
  · rw [hk] at h
    simp only [List.head?_cons, Option.some.injEq] at h
    subst h
    have e : objsNML (removeEmptyT t).kept = objsNM t2 := by rw [hk]; simp [objsNML]
    exact ⟨fun x hx hne => by rw [← e]; exact removeEmptyT_keeps t x hx hne, fun x hx => removeEmptyT_sub t x (by rw [e]; exact hx)⟩

end Hw.Topo.Restrict.Stage
