/-
  Hw.Topo.HelpersLocal — correctness of the models of `hwloc_bitmap_singlify_per_core` and
  `hwloc_get_closest_objs` (traversal.c) on a dump satisfying `Tree`.
-/
import Hw.Topo.HelpersBasic
namespace Hw.Topo

/-! ### small set facts -/

theorem subset_reflL (a : Nat) : subset a a = true := (subset_iff a a).2 (fun _ h => h)

theorem subset_transL {a b c : Nat} (h1 : subset a b = true) (h2 : subset b c = true) : subset a c = true :=
  (subset_iff a c).2 (fun i h => (subset_iff b c).1 h2 i ((subset_iff a b).1 h1 i h))

theorem not_subset_of_subsetL {x a b : Nat} (hab : subset a b = true) (h : subset x b = false) :
    subset x a = false := by
  cases hx : subset x a with
  | false => rfl
  | true => rw [subset_transL hx hab] at h; cases h

/-! ### ancestor chains -/

theorem AncSelf.transL {d : Dump} {a b c : Obj} (h1 : AncSelf d a b) (h2 : AncSelf d b c) : AncSelf d a c := by
  induction h2 with
  | refl => exact h1
  | up hp _ ih => exact AncSelf.up hp ih

theorem AncSelf.topL {d : Dump} {a a' o : Obj} (h : AncSelf d a o) (hp : d.obj? a.parent = some a') : AncSelf d a' o :=
  AncSelf.transL (AncSelf.up hp (AncSelf.refl a')) h

theorem AncSelf.casesUpL {d : Dump} {a o : Obj} (h : AncSelf d a o) :
    a = o ∨ ∃ p, d.obj? o.parent = some p ∧ AncSelf d a p := by
  cases h with
  | refl => exact Or.inl rfl
  | up hp h' => exact Or.inr ⟨_, hp, h'⟩

/-- the ancestor chain of an object is linearly ordered -/
theorem AncSelf.linearL {d : Dump} {a b o : Obj} (ha : AncSelf d a o) (hb : AncSelf d b o) :
    AncSelf d a b ∨ AncSelf d b a := by
  induction ha with
  | refl => exact Or.inr hb
  | up hp h' ih =>
    rcases hb.casesUpL with rfl | ⟨p', hp', hb'⟩
    · exact Or.inl (AncSelf.up hp h')
    · rw [hp] at hp'; cases hp'; exact ih hb'

/-- ancestors of a normal or memory object are normal or memory objects of the dump whose cpuset includes the
    object's (a memory object has the cpuset of its parent) -/
theorem Tree.ancFactsL {d : Dump} (ht : Tree d) {a o : Obj} (h : AncSelf d a o) (ho : o ∈ d.objs)
    (hn : isNormal o.type = true ∨ isMemory o.type = true) :
    a ∈ d.objs ∧ (isNormal a.type = true ∨ isMemory a.type = true) ∧ subset (cs o) (cs a) = true := by
  induction h with
  | refl => exact ⟨ho, hn, subset_reflL _⟩
  | @up o p hp _ ih =>
    rcases ht.parent o ho with ⟨_, hpar⟩ | ⟨_, p', hp', hp'm, hnorm, hmem⟩
    · rw [hpar] at hp; simp [Dump.obj?] at hp
    · rw [hp] at hp'; cases hp'
      rcases hn with hn | hm
      · obtain ⟨hpn, _, _, hsub, _⟩ := hnorm hn
        obtain ⟨h1, h2, h3⟩ := ih hp'm (Or.inl hpn)
        exact ⟨h1, h2, subset_transL hsub h3⟩
      · obtain ⟨hcs, hpn⟩ := hmem hm
        obtain ⟨h1, h2, h3⟩ := ih hp'm hpn
        have hsub : subset (cs o) (cs p) = true := by
          unfold cs; rw [hcs]; exact subset_reflL _
        exact ⟨h1, h2, subset_transL hsub h3⟩

/-- normal-only form: ancestors of a normal object are normal -/
theorem Tree.ancFactsL_normal {d : Dump} (ht : Tree d) {a o : Obj} (h : AncSelf d a o) (ho : o ∈ d.objs)
    (hn : isNormal o.type = true) : a ∈ d.objs ∧ isNormal a.type = true ∧ subset (cs o) (cs a) = true := by
  induction h with
  | refl => exact ⟨ho, hn, subset_reflL _⟩
  | @up o p hp _ ih =>
    rcases ht.parent o ho with ⟨_, hpar⟩ | ⟨_, p', hp', hp'm, hnorm, _⟩
    · rw [hpar] at hp; simp [Dump.obj?] at hp
    · rw [hp] at hp'; cases hp'
      obtain ⟨hpn, _, _, hsub, _⟩ := hnorm hn
      obtain ⟨h1, h2, h3⟩ := ih hp'm hpn
      exact ⟨h1, h2, subset_transL hsub h3⟩

/-! ### closest objects -/

theorem skipEqualParents_spec (d : Dump) : ∀ (f : Nat) (parent p np : Obj),
    skipEqualParents d f parent = some (p, np) →
    AncSelf d p parent ∧ cs p = cs parent ∧ d.obj? p.parent = some np ∧ cs p ≠ cs np := by
  intro f
  induction f with
  | zero => intro parent p np h; simp [skipEqualParents] at h
  | succ f ih =>
    intro parent p np h
    unfold skipEqualParents at h
    split at h
    · cases h
    · rename_i np' hnp'
      split at h
      · rename_i heq
        obtain ⟨h1, h2, h3, h4⟩ := ih _ _ _ h
        refine ⟨AncSelf.up hnp' h1, ?_, h3, h4⟩
        rw [h2]; exact (beq_iff_eq.1 heq).symm
      · rename_i hne
        cases h
        exact ⟨AncSelf.refl _, rfl, hnp', by simpa using hne⟩

/-- induction principle for the loop of `hwloc_get_closest_objs` -/
theorem closestLoop_ind (d : Dump) (lvl : List Obj) (max : Nat) (P : Obj → List Obj → Prop)
    (step : ∀ parent acc p np, P parent acc → skipEqualParents d d.fuel parent = some (p, np) →
      P np ((acc ++ lvl.filter (fun o => subset (cs o) (cs np) && !subset (cs o) (cs p))).take max)) :
    ∀ (f : Nat) (parent : Obj) (acc : List Obj), P parent acc →
      ∃ parent', P parent' (closestLoop d lvl max f parent acc) := by
  intro f
  induction f with
  | zero => intro parent acc h; exact ⟨parent, by simpa [closestLoop] using h⟩
  | succ f ih =>
    intro parent acc h
    unfold closestLoop
    split
    · exact ⟨parent, h⟩
    · split
      · exact ⟨parent, h⟩
      · rename_i p np hs
        have h' := step parent acc p np h hs
        simp only
        split
        · exact ⟨np, h'⟩
        · exact ih np _ h'

theorem closest_length (d : Dump) (src : Obj) (max : Nat) : (closestObjs d src max).length ≤ max := by
  unfold closestObjs
  split
  · simp
  · obtain ⟨_, h⟩ := closestLoop_ind d (levelObjs d src.depth) max (fun _ acc => acc.length ≤ max)
      (by intro parent acc p np _ _; simp only [List.length_take]; omega) d.fuel src [] (by simp)
    exact h

/-- `src` normal or memory (NUMA node, memory-side cache): every result is an object of the level of `src` whose cpuset is not included in the cpuset of `src` -/
theorem closest_members {d : Dump} (ht : Tree d) {src : Obj} (hsrc : src ∈ d.objs)
    (hn : isNormal src.type = true ∨ isMemory src.type = true) (max : Nat) :
    ∀ o ∈ closestObjs d src max, o ∈ levelObjs d src.depth ∧ subset (cs o) (cs src) = false := by
  unfold closestObjs
  split
  · simp
  · obtain ⟨_, _, h⟩ := closestLoop_ind d (levelObjs d src.depth) max
      (fun parent acc => AncSelf d parent src ∧
        ∀ o ∈ acc, o ∈ levelObjs d src.depth ∧ subset (cs o) (cs src) = false)
      (by
        intro parent acc p np ⟨hanc, hacc⟩ hs
        obtain ⟨h1, h2, h3, _⟩ := skipEqualParents_spec d _ _ _ _ hs
        have hp : AncSelf d p src := h1.transL hanc
        refine ⟨hp.topL h3, ?_⟩
        intro o ho
        rcases List.mem_append.1 (List.mem_of_mem_take ho) with ho | ho
        · exact hacc o ho
        · obtain ⟨hol, hof⟩ := List.mem_filter.1 ho
          simp only [Bool.and_eq_true, Bool.not_eq_true'] at hof
          exact ⟨hol, not_subset_of_subsetL (ht.ancFactsL hp hsrc hn).2.2 hof.2⟩)
      d.fuel src [] ⟨AncSelf.refl _, by simp⟩
    exact h

theorem closest_not_src {d : Dump} (ht : Tree d) {src : Obj} (hsrc : src ∈ d.objs)
    (hn : isNormal src.type = true ∨ isMemory src.type = true) (max : Nat) : src ∉ closestObjs d src max := by
  intro h
  have := (closest_members ht hsrc hn max src h).2
  rw [subset_reflL] at this; cases this

/-! ### singlify per core -/

/-- one iteration of the loop of `hwloc_bitmap_singlify_per_core` on the core `c` -/
def singStep (which : Nat) (S : Nat) (c : Obj) : Nat :=
  match ((bits (cs c)).filter (fun i => S.testBit i))[which]? with
  | none => andnot S (cs c)
  | some pu => andnot S (cs c) ||| single pu

/-- what is left of `S` inside the core `c`: the PU number `which` of `S ∩ c`, if any -/
def singTarget (which : Nat) (S : Nat) (c : Obj) : Nat :=
  match ((bits (cs c)).filter (fun i => S.testBit i))[which]? with
  | none => 0
  | some pu => single pu

theorem singlifyLoop_succ (d : Dump) (which f S : Nat) (prev : Option Obj) :
    singlifyLoop d which (f+1) S prev = match nextCoveringByType d S tCORE prev with
      | none => S
      | some core => singlifyLoop d which f (singStep which S core) (some core) := rfl

theorem cand_mem {which S : Nat} {c : Obj} {pu : Nat}
    (h : ((bits (cs c)).filter (fun i => S.testBit i))[which]? = some pu) :
    (cs c).testBit pu = true ∧ S.testBit pu = true := by
  have := List.mem_filter.1 (List.mem_of_getElem? h)
  exact ⟨(mem_bits _ _).1 this.1, this.2⟩

theorem singStep_testBit_out {which S : Nat} {c : Obj} {i : Nat} (hi : (cs c).testBit i = false) :
    (singStep which S c).testBit i = S.testBit i := by
  unfold singStep
  split
  · simp [testBit_andnot, hi]
  · rename_i pu h
    have hpu := (cand_mem h).1
    have hne : pu ≠ i := by intro he; rw [he, hi] at hpu; cases hpu
    simp [Nat.testBit_or, testBit_andnot, testBit_single, hi, hne]

theorem singStep_testBit_in {which S : Nat} {c : Obj} {i : Nat} (hi : (cs c).testBit i = true) :
    (singStep which S c).testBit i = (singTarget which S c).testBit i := by
  unfold singStep singTarget
  split
  · simp [testBit_andnot, hi]
  · simp [Nat.testBit_or, testBit_andnot, hi]

theorem singStep_and (which S : Nat) (c : Obj) : singStep which S c &&& cs c = singTarget which S c := by
  apply Nat.eq_of_testBit_eq
  intro i
  rw [Nat.testBit_and]
  cases hi : (cs c).testBit i with
  | true => simp [singStep_testBit_in hi]
  | false =>
    simp only [Bool.and_false]
    unfold singTarget
    split
    · simp
    · rename_i pu h
      have hpu := (cand_mem h).1
      have hne : pu ≠ i := by intro he; rw [he, hi] at hpu; cases hpu
      simp [testBit_single, hne]

theorem singStep_subset (which S : Nat) (c : Obj) : subset (singStep which S c) S = true := by
  rw [subset_iff]
  intro i h
  unfold singStep at h
  split at h
  · simp [testBit_andnot] at h; exact h.1
  · rename_i pu hc
    have hpu := (cand_mem hc).2
    simp only [Nat.testBit_or, testBit_andnot, testBit_single, Bool.or_eq_true, Bool.and_eq_true,
      decide_eq_true_eq] at h
    rcases h with h | h
    · exact h.1
    · rw [← h]; exact hpu

theorem singStep_noncover {which S : Nat} {c : Obj} (h : coverOk S c = false) : singStep which S c = S := by
  have hno : ∀ i, (cs c).testBit i = true → S.testBit i = false := by
    intro i hi
    cases hS : S.testBit i with
    | false => rfl
    | true =>
      have : intersects S (cs c) = true := (intersects_iff _ _).2 ⟨i, hS, hi⟩
      unfold coverOk at h; rw [h] at this; cases this
  have hnil : (bits (cs c)).filter (fun i => S.testBit i) = [] := by
    rw [List.filter_eq_nil_iff]
    intro i hi
    rw [hno i ((mem_bits _ _).1 hi)]; simp
  unfold singStep
  rw [hnil]
  simp only [List.getElem?_nil]
  apply Nat.eq_of_testBit_eq
  intro i
  rw [testBit_andnot]
  cases hi : (cs c).testBit i with
  | false => simp
  | true => simp [hno i hi]

theorem singFold_noncover (which : Nat) : ∀ (L : List Obj) (S : Nat), (∀ c ∈ L, coverOk S c = false) →
    L.foldl (singStep which) S = S := by
  intro L
  induction L with
  | nil => intro S _; rfl
  | cons c rest ih =>
    intro S h
    rw [List.foldl_cons, singStep_noncover (h c (List.mem_cons_self ..))]
    exact ih S (fun c' hc' => h c' (List.mem_cons_of_mem _ hc'))

/-- `singlifyLoop` never adds bits (no hypothesis on the dump) -/
theorem singlifyLoop_subset (d : Dump) (which : Nat) : ∀ (f S : Nat) (prev : Option Obj),
    subset (singlifyLoop d which f S prev) S = true := by
  intro f
  induction f with
  | zero => intro S prev; exact subset_reflL _
  | succ f ih =>
    intro S prev
    rw [singlifyLoop_succ]
    split
    · exact subset_reflL _
    · exact subset_transL (ih _ _) (singStep_subset _ _ _)

/-- the result of `hwloc_bitmap_singlify_per_core` is included in the input set (any dump) -/
theorem singlify_subset (d : Dump) (S which : Nat) : subset (singlifyPerCore d S which) S = true :=
  singlifyLoop_subset d which _ _ _

/-- no (single) Core level: the set is unchanged -/
theorem singlify_no_core_level (d : Dump) (S which : Nat)
    (h : isSingleDepth (typeDepth d (tCORE : Nat)) = false) : singlifyPerCore d S which = S := by
  unfold singlifyPerCore Dump.fuel
  rw [singlifyLoop_succ]
  simp [nextCoveringByType, h]

/-- specification of a pass over a list of pairwise disjoint cores -/
theorem singFold_spec (which : Nat) : ∀ (L : List Obj) (S : Nat),
    L.Pairwise (fun a b => disjoint (cs a) (cs b) = true) →
    (∀ i, (∀ c ∈ L, (cs c).testBit i = false) → (L.foldl (singStep which) S).testBit i = S.testBit i) ∧
    (∀ c ∈ L, (L.foldl (singStep which) S) &&& cs c = singTarget which S c) := by
  intro L
  induction L with
  | nil => intro S _; simp
  | cons c rest ih =>
    intro S hp
    rw [List.pairwise_cons] at hp
    obtain ⟨ih1, ih2⟩ := ih (singStep which S c) hp.2
    have hdis : ∀ c' ∈ rest, ∀ i, (cs c).testBit i = true → (cs c').testBit i = false := by
      intro c' hc' i hi
      cases h' : (cs c').testBit i with
      | false => rfl
      | true => exact absurd ⟨hi, h'⟩ ((disjoint_iff _ _).1 (hp.1 c' hc') i)
    rw [List.foldl_cons]
    constructor
    · intro i hi
      rw [ih1 i (fun c' hc' => hi c' (List.mem_cons_of_mem _ hc'))]
      exact singStep_testBit_out (hi c (List.mem_cons_self ..))
    · intro c' hc'
      rcases List.mem_cons.1 hc' with rfl | hc'
      · rw [← singStep_and]
        apply Nat.eq_of_testBit_eq
        intro i
        rw [Nat.testBit_and, Nat.testBit_and]
        cases hi : (cs c').testBit i with
        | false => simp
        | true => rw [ih1 i (fun c'' hc'' => hdis c'' hc'' i hi)]
      · rw [ih2 c' hc']
        unfold singTarget
        have : (bits (cs c')).filter (fun i => (singStep which S c).testBit i)
             = (bits (cs c')).filter (fun i => S.testBit i) := by
          apply List.filter_congr
          intro i hi
          apply singStep_testBit_out
          cases h' : (cs c).testBit i with
          | false => rfl
          | true => have := (mem_bits _ _).1 hi; rw [hdis c' hc' i h'] at this; cases this
        rw [this]

/-- the loop is at position `j` of the Core level: nothing visited yet, or `prev` is entry `j-1` -/
def PrevAt (cores : List Obj) (j : Nat) (prev : Option Obj) : Prop :=
  (prev = none ∧ j = 0) ∨ (∃ c, prev = some c ∧ cores[j-1]? = some c ∧ 1 ≤ j)

theorem chain_noneL (d : Dump) (next : Obj → Int) (f : Nat) : chain d next f none = [] := by
  cases f <;> rfl

/-- `hwloc_get_next_obj_covering_cpuset_by_type(CORE)` = first covering core at or after position `j` -/
theorem Tree.nextCovering_core {d : Dump} (ht : Tree d) {l : Level} (hl : l ∈ d.levels)
    (hk : l.depth = typeDepth d (tCORE : Nat)) (hs : isSingleDepth (typeDepth d (tCORE : Nat)) = true)
    (S : Nat) {j : Nat} {prev : Option Obj} (hprev : PrevAt (levelObjs d l.depth) j prev) :
    nextCoveringByType d S tCORE prev = ((levelObjs d l.depth).drop j).find? (coverOk S) := by
  have hnext : nextByDepth d l.depth prev = (levelObjs d l.depth)[j]? := by
    rcases hprev with ⟨rfl, rfl⟩ | ⟨c, rfl, hc, hj⟩
    · rfl
    · have hdepth := (ht.levelObjs_lidx hc).2.1
      have hz : (c, j-1) ∈ (levelObjs d l.depth).zipIdx := List.mem_zipIdx_iff_getElem?.2 hc
      have := ((ht.levels.2 l hl).2 (c, j-1) hz).2.2.2.2.1
      simp only [nextByDepth, hdepth, bne_self_eq_false, Bool.false_eq_true, if_false]
      rw [this]
      congr 1; omega
  simp only [nextCoveringByType, hs, if_true, nextCoveringByDepth]
  rw [← hk, hnext, ht.cousinsFrom_level hl j]

theorem Tree.singlifyLoop_eq_foldl {d : Dump} (ht : Tree d) {l : Level} (hl : l ∈ d.levels)
    (hk : l.depth = typeDepth d (tCORE : Nat)) (hs : isSingleDepth (typeDepth d (tCORE : Nat)) = true)
    (which : Nat) : ∀ (f S j : Nat) (prev : Option Obj), PrevAt (levelObjs d l.depth) j prev →
      ((levelObjs d l.depth).drop j).length ≤ f →
      singlifyLoop d which f S prev = ((levelObjs d l.depth).drop j).foldl (singStep which) S := by
  intro f
  induction f with
  | zero =>
    intro S j prev _ hlen
    have : (levelObjs d l.depth).drop j = [] := List.eq_nil_of_length_eq_zero (by omega)
    rw [this]; rfl
  | succ f ih =>
    intro S j prev hprev hlen
    rw [singlifyLoop_succ, ht.nextCovering_core hl hk hs S hprev]
    cases hfind : ((levelObjs d l.depth).drop j).find? (coverOk S) with
    | none =>
      rw [List.find?_eq_none] at hfind
      simp only
      exact (singFold_noncover which _ S (fun c hc => by simpa using hfind c hc)).symm
    | some core =>
      obtain ⟨hcov, as, bs, hsplit, has⟩ := List.find?_eq_some_iff_append.1 hfind
      simp only
      have hget : (levelObjs d l.depth)[j + as.length]? = some core := by
        rw [← List.getElem?_drop, hsplit]; simp
      have hdrop : (levelObjs d l.depth).drop (j + (as.length + 1)) = bs := by
        rw [← List.drop_drop, hsplit]; simp
      have hlen' : bs.length ≤ f := by
        rw [hsplit] at hlen; simp at hlen; omega
      have := ih (singStep which S core) (j + (as.length + 1)) (some core)
        (Or.inr ⟨core, rfl, by simpa using hget, by omega⟩) (by rw [hdrop]; exact hlen')
      rw [this, hdrop, hsplit, List.foldl_append, List.foldl_cons,
        singFold_noncover which as S (fun c hc => by simpa using has c hc)]

/-- on a dump with a Core level, `hwloc_bitmap_singlify_per_core` is one pass of `singStep` over the cores -/
theorem Tree.singlifyPerCore_eq_foldl {d : Dump} (ht : Tree d) (S which : Nat)
    (hs : isSingleDepth (typeDepth d (tCORE : Nat)) = true) :
    singlifyPerCore d S which = (levelObjs d (typeDepth d (tCORE : Nat))).foldl (singStep which) S := by
  by_cases hex : ∃ l ∈ d.levels, l.depth = typeDepth d (tCORE : Nat)
  · obtain ⟨l, hl, hk⟩ := hex
    have hlen : (levelObjs d l.depth).length ≤ d.fuel := by
      have h1 := (ht.levels.2 l hl).1
      have h2 := ht.sizes.2.1 l hl
      unfold Dump.fuel; omega
    have := ht.singlifyLoop_eq_foldl hl hk hs which d.fuel S 0 none (Or.inl ⟨rfl, rfl⟩) (by simpa using hlen)
    rw [← hk]
    simpa [singlifyPerCore] using this
  · have hnil : levelObjs d (typeDepth d (tCORE : Nat)) = [] :=
      ht.levelObjs_nil (fun l hl he => hex ⟨l, hl, he⟩)
    rw [hnil]
    unfold singlifyPerCore Dump.fuel
    rw [singlifyLoop_succ]
    simp [nextCoveringByType, hs, nextCoveringByDepth, nextByDepth, objByDepth, hnil, cousinsFrom, chain_noneL]

/-- **hwloc_bitmap_singlify_per_core**: the result is included in `S`, unchanged outside the cores, and inside every
    core it is exactly the PU number `which` (in index order) of `S ∩ core`, or empty when there is none -/
theorem singlify_per_core {d : Dump} (ht : Tree d) (S which : Nat)
    (hs : isSingleDepth (typeDepth d (tCORE : Nat)) = true)
    (hdisj : (levelObjs d (typeDepth d (tCORE : Nat))).Pairwise (fun a b => disjoint (cs a) (cs b) = true)) :
    subset (singlifyPerCore d S which) S = true ∧
    (∀ i, (∀ c ∈ levelObjs d (typeDepth d (tCORE : Nat)), (cs c).testBit i = false) →
      (singlifyPerCore d S which).testBit i = S.testBit i) ∧
    ∀ c ∈ levelObjs d (typeDepth d (tCORE : Nat)),
      (match ((bits (cs c)).filter (fun i => S.testBit i))[which]? with
       | some pu => singlifyPerCore d S which &&& cs c = single pu
       | none => singlifyPerCore d S which &&& cs c = 0) := by
  refine ⟨singlify_subset d S which, ?_⟩
  rw [ht.singlifyPerCore_eq_foldl S which hs]
  obtain ⟨h1, h2⟩ := singFold_spec which _ S hdisj
  refine ⟨h1, ?_⟩
  intro c hc
  have := h2 c hc
  unfold singTarget at this
  split <;> rename_i heq <;> rw [heq] at this <;> exact this

theorem weight_le_one_of_all_eq {n pu : Nat} (h : ∀ i, n.testBit i = true → i = pu) : weight n ≤ 1 := by
  unfold weight
  have hs := bits_sorted n
  have hm : ∀ i ∈ bits n, i = pu := fun i hi => h i ((mem_bits _ _).1 hi)
  match hb : bits n with
  | [] => simp
  | [_] => simp
  | a :: b :: _ =>
    rw [hb] at hs hm
    have h1 := hm a (by simp)
    have h2 := hm b (by simp)
    have := (List.pairwise_cons.1 hs).1 b (by simp)
    omega

/-- at most one PU per core remains -/
theorem singlify_at_most_one {d : Dump} (ht : Tree d) (S which : Nat)
    (hs : isSingleDepth (typeDepth d (tCORE : Nat)) = true)
    (hdisj : (levelObjs d (typeDepth d (tCORE : Nat))).Pairwise (fun a b => disjoint (cs a) (cs b) = true)) :
    ∀ c ∈ levelObjs d (typeDepth d (tCORE : Nat)), weight (singlifyPerCore d S which &&& cs c) ≤ 1 := by
  intro c hc
  have := (singlify_per_core ht S which hs hdisj).2.2 c hc
  split at this
  · rename_i pu _
    rw [this]
    exact weight_le_one_of_all_eq (pu := pu) (fun i hi => by
      rw [testBit_single] at hi; exact (of_decide_eq_true hi).symm)
  · rw [this, (weight_eq_zero 0).2 rfl]; omega

/-! ### closest objects: no duplicates, order -/

theorem Tree.levelObjs_nodupL {d : Dump} (ht : Tree d) (depth : Int) : (levelObjs d depth).Nodup := by
  rw [List.nodup_iff_pairwise_ne, List.pairwise_iff_getElem]
  intro i j hi hj hij heq
  have h1 := (ht.levelObjs_lidx (List.getElem?_eq_getElem hi)).1
  have h2 := (ht.levelObjs_lidx (List.getElem?_eq_getElem hj)).1
  rw [heq] at h1
  omega

/-- "whatever ancestor of `src` excludes `x` also excludes `y`": `y` is not closer to `src` than `x` -/
def NotCloser (d : Dump) (src x y : Obj) : Prop :=
  ∀ a, AncSelf d a src → subset (cs x) (cs a) = false → subset (cs y) (cs a) = false

theorem Tree.notCloser_of {d : Dump} (ht : Tree d) {src p np x y : Obj} (hsrc : src ∈ d.objs)
    (hn : isNormal src.type = true ∨ isMemory src.type = true) (hp : AncSelf d p src) (h3 : d.obj? p.parent = some np)
    (hx : subset (cs x) (cs np) = true) (hy : subset (cs y) (cs p) = false) : NotCloser d src x y := by
  intro a ha hxa
  rcases ha.linearL hp with h | h
  · rcases h.casesUpL with rfl | ⟨p', hp', h'⟩
    · exact hy
    · rw [h3] at hp'; cases hp'
      obtain ⟨hnpm, hnpn, _⟩ := ht.ancFactsL (hp.topL h3) hsrc hn
      have := subset_transL hx (ht.ancFactsL h' hnpm hnpn).2.2
      rw [this] at hxa; cases hxa
  · obtain ⟨ham, han, _⟩ := ht.ancFactsL ha hsrc hn
    exact not_subset_of_subsetL (ht.ancFactsL h ham han).2.2 hy

/-- combined invariant of the loop: no duplicates, sorted by distance -/
theorem closest_inv {d : Dump} (ht : Tree d) {src : Obj} (hsrc : src ∈ d.objs)
    (hn : isNormal src.type = true ∨ isMemory src.type = true) (max : Nat) :
    (closestObjs d src max).Nodup ∧ (closestObjs d src max).Pairwise (NotCloser d src) := by
  unfold closestObjs
  split
  · simp
  · obtain ⟨_, _, h1, h2, _⟩ := closestLoop_ind d (levelObjs d src.depth) max
      (fun parent acc => AncSelf d parent src ∧ acc.Nodup ∧ acc.Pairwise (NotCloser d src) ∧
        ∀ o ∈ acc, subset (cs o) (cs parent) = true)
      (by
        intro parent acc p np ⟨hanc, hnd, hpw, hacc⟩ hs
        obtain ⟨h1, h2, h3, _⟩ := skipEqualParents_spec d _ _ _ _ hs
        have hp : AncSelf d p src := h1.transL hanc
        obtain ⟨hpm, hpn, _⟩ := ht.ancFactsL hp hsrc hn
        have hpnp : subset (cs p) (cs np) = true :=
          (ht.ancFactsL (AncSelf.up h3 (AncSelf.refl np)) hpm hpn).2.2
        have hbatch : ∀ o ∈ (levelObjs d src.depth).filter
            (fun o => subset (cs o) (cs np) && !subset (cs o) (cs p)),
            subset (cs o) (cs np) = true ∧ subset (cs o) (cs p) = false := by
          intro o ho
          have := (List.mem_filter.1 ho).2
          simpa using this
        have hacc' : ∀ o ∈ acc, subset (cs o) (cs np) = true := by
          intro o ho
          have := hacc o ho
          rw [← h2] at this
          exact subset_transL this hpnp
        refine ⟨hp.topL h3, ?_, ?_, ?_⟩
        · refine List.Nodup.sublist (List.take_sublist _ _) (List.nodup_append.2 ⟨hnd, ?_, ?_⟩)
          · exact List.Nodup.sublist List.filter_sublist (ht.levelObjs_nodupL _)
          · intro a ha b hb hab
            have h1 := hacc a ha
            have h2' := (hbatch b hb).2
            rw [hab, ← h2, h2'] at h1; cases h1
        · refine List.Pairwise.sublist (List.take_sublist _ _) (List.pairwise_append.2 ⟨hpw, ?_, ?_⟩)
          · exact List.pairwise_of_forall_mem_list (fun a ha b hb =>
              ht.notCloser_of hsrc hn hp h3 (hbatch a ha).1 (hbatch b hb).2)
          · intro a ha b hb
            exact ht.notCloser_of hsrc hn hp h3 (hacc' a ha) (hbatch b hb).2
        · intro o ho
          rcases List.mem_append.1 (List.mem_of_mem_take ho) with ho | ho
          · exact hacc' o ho
          · exact (hbatch o ho).1)
      d.fuel src [] ⟨AncSelf.refl _, by simp, by simp, by simp⟩
    exact ⟨h1, h2⟩

/-- the result has no duplicates -/
theorem closest_nodup {d : Dump} (ht : Tree d) {src : Obj} (hsrc : src ∈ d.objs)
    (hn : isNormal src.type = true ∨ isMemory src.type = true) (max : Nat) : (closestObjs d src max).Nodup :=
  (closest_inv ht hsrc hn max).1

/-- **closest_order**: the result is sorted by distance to `src`: whatever ancestor-or-self of `src` excludes (the
    cpuset of) an earlier result also excludes every later one -/
theorem closest_order {d : Dump} (ht : Tree d) {src : Obj} (hsrc : src ∈ d.objs)
    (hn : isNormal src.type = true ∨ isMemory src.type = true) (max : Nat) :
    (closestObjs d src max).Pairwise (fun x y =>
      ∀ a, AncSelf d a src → subset (cs x) (cs a) = false → subset (cs y) (cs a) = false) :=
  (closest_inv ht hsrc hn max).2

/-! normal-only corollaries (the statements before `hwloc_get_closest_objs` accepted memory sources) -/

theorem closest_members_normal {d : Dump} (ht : Tree d) {src : Obj} (hsrc : src ∈ d.objs)
    (hn : isNormal src.type = true) (max : Nat) :
    ∀ o ∈ closestObjs d src max, o ∈ levelObjs d src.depth ∧ subset (cs o) (cs src) = false :=
  closest_members ht hsrc (Or.inl hn) max

theorem closest_not_src_normal {d : Dump} (ht : Tree d) {src : Obj} (hsrc : src ∈ d.objs)
    (hn : isNormal src.type = true) (max : Nat) : src ∉ closestObjs d src max :=
  closest_not_src ht hsrc (Or.inl hn) max

theorem closest_nodup_normal {d : Dump} (ht : Tree d) {src : Obj} (hsrc : src ∈ d.objs)
    (hn : isNormal src.type = true) (max : Nat) : (closestObjs d src max).Nodup :=
  closest_nodup ht hsrc (Or.inl hn) max

theorem closest_order_normal {d : Dump} (ht : Tree d) {src : Obj} (hsrc : src ∈ d.objs)
    (hn : isNormal src.type = true) (max : Nat) :
    (closestObjs d src max).Pairwise (fun x y =>
      ∀ a, AncSelf d a src → subset (cs x) (cs a) = false → subset (cs y) (cs a) = false) :=
  closest_order ht hsrc (Or.inl hn) max

end Hw.Topo
