/-
  Hw.Topo.Restrict — model of hwloc_topology_restrict() (hwloc/topology.c):
    * flag validation and the "keep something" pre-checks            (`restrict`, constants from Hw.Gen.RestrictConsts)
    * droppedcpuset / droppednodeset incl. CPU-less / memory-less detection (`droppedNodes`, `droppedPUs`)
    * restrict_object_by_cpuset / restrict_object_by_nodeset          (`restrictT` / `restrictL`, one recursion with a mode)
    * unlink_and_free_single_object for an object without normal/memory children (special lists appended to the parent)
    * hwloc__reorder_children                                         (`reorder`, insertion sort by compare_first)
    * hwloc_connect_levels                                            (`connectLevels`)
    * hwloc_filter_levels_keep_structure                              (`keepStructure`)
  over the four-list object tree.  Sets of objects are finite (`Nat` masks); the set given by the caller and the dropped
  sets are finite or cofinite (`CSet`).  Bitmap primitives enter through their set-level meaning (C03).
-/
import Hw.Topo.Types
import Hw.Base.Basic
import Hw.Gen.RestrictConsts
namespace Hw.Topo.Restrict
open Hw.Topo Hw.Gen.Restrict

/-! ### sets -/

/-- finite (`inf = false`: the set `bits`) or cofinite (`inf = true`: the complement of `bits`) set of indexes -/
structure CSet where
  bits : Nat
  inf : Bool
deriving DecidableEq, Repr, Inhabited

def CSet.mem (s : CSet) (i : Nat) : Bool := s.bits.testBit i != s.inf
/-- hwloc_bitmap_not -/
def CSet.compl (s : CSet) : CSet := { s with inf := !s.inf }
def CSet.ofMask (m : Nat) : CSet := ⟨m, false⟩
def CSet.empty : CSet := ⟨0, false⟩

/-- `a \ b` on masks -/
def andnot (a b : Nat) : Nat := a ^^^ (a &&& b)
/-- hwloc_bitmap_andnot(x, x, d) for a finite `x` -/
def minus (x : Nat) (d : CSet) : Nat := if d.inf then x &&& d.bits else andnot x d.bits
/-- hwloc_bitmap_intersects(x, d) for a finite `x` -/
def meets (x : Nat) (d : CSet) : Bool := if d.inf then andnot x d.bits != 0 else x &&& d.bits != 0
/-- hwloc_bitmap_isincluded(x, d) for a finite `x` -/
def inside (x : Nat) (d : CSet) : Bool := minus x d == 0

/-! ### objects and trees -/

/-- what restrict reads or writes of one object (everything else is carried along by identity = gp_index) -/
structure RObj where
  gp : Nat
  type : Nat
  osidx : Int
  cpuset : Nat
  ccpuset : Nat
  nodeset : Nat
  cnodeset : Nat
  hasSets : Bool          -- false for I/O and Misc objects (NULL sets, kept as 0 here)
  gkind : Int             -- attr->group.kind / subkind (hwloc_type_cmp)
  gsubkind : Int
  dmByte : Nat            -- attr->group.dont_merge (Groups only, 0 otherwise)
deriving DecidableEq, Repr, Inhabited

/-- an object with its four children lists: normal, memory, I/O, Misc -/
inductive Tree where
  | node (o : RObj) (ns ms ios mis : List Tree) : Tree
deriving Repr, Inhabited

def Tree.obj : Tree → RObj | .node o _ _ _ _ => o
def Tree.ns : Tree → List Tree | .node _ ns _ _ _ => ns
def Tree.ms : Tree → List Tree | .node _ _ ms _ _ => ms
def Tree.ios : Tree → List Tree | .node _ _ _ ios _ => ios
def Tree.mis : Tree → List Tree | .node _ _ _ _ mis => mis

mutual
/-- all objects of a subtree, DFS: the object, then its normal, memory, I/O, Misc children (the order of harness/dump.h) -/
def objsT : Tree → List RObj
  | .node o ns ms ios mis => o :: (objsL ns ++ objsL ms ++ objsL ios ++ objsL mis)
def objsL : List Tree → List RObj
  | [] => []
  | t :: ts => objsT t ++ objsL ts
end

/-! ### the recursion of restrict_object_by_cpuset / _by_nodeset -/

structure Params where
  dc : CSet               -- droppedcpuset (the empty set when the C pointer is NULL: same behaviour)
  dn : CSet               -- droppednodeset
  byNode : Bool           -- HWLOC_RESTRICT_FLAG_BYNODESET
  rmExempt : Bool         -- REMOVE_CPULESS (by cpuset) resp. REMOVE_MEMLESS (by nodeset)
  adaptIO : Bool
  adaptMisc : Bool
deriving Repr, DecidableEq

def shrinkCpu (d : CSet) (o : RObj) : RObj := { o with cpuset := minus o.cpuset d, ccpuset := minus o.ccpuset d }
def shrinkNode (d : CSet) (o : RObj) : RObj := { o with nodeset := minus o.nodeset d, cnodeset := minus o.cnodeset d }
/-- the two guarded andnot blocks at the top of restrict_object_by_* (they touch different fields, so their order,
    which differs between the two C functions, is immaterial) -/
def shrinkG (p : Params) (o : RObj) : RObj :=
  let o1 := if meets o.ccpuset p.dc then shrinkCpu p.dc o else o
  if meets o1.cnodeset p.dn then shrinkNode p.dn o1 else o1
/-- `modified` -/
def touched (p : Params) (o : RObj) : Bool := meets o.ccpuset p.dc || meets o.cnodeset p.dn
/-- the unguarded meaning: every set minus the dropped resources -/
def shrinkU (p : Params) (o : RObj) : RObj := shrinkNode p.dn (shrinkCpu p.dc o)

/-- hwloc_bitmap_first as an option -/
def firstBit (m : Nat) : Option Nat := Hw.lowest (fun i => m.testBit i) (m.log2 + 1)
/-- hwloc_bitmap_compare_first(a, b) > 0 on finite sets: an empty set is "higher" than any non-empty one -/
def gtFirst (a b : Nat) : Bool :=
  match firstBit a, firstBit b with
  | none, none => false
  | none, some _ => true
  | some _, none => false
  | some x, some y => decide (y < x)

/-- one enqueue step of hwloc__reorder_children: before the first element that is not lower -/
def insertChild (c : Tree) : List Tree → List Tree
  | [] => [c]
  | x :: xs => if gtFirst c.obj.ccpuset x.obj.ccpuset then x :: insertChild c xs else c :: x :: xs
/-- hwloc__reorder_children -/
def reorder (l : List Tree) : List Tree := l.foldl (fun acc c => insertChild c acc) []

def emptyAfter (p : Params) (o : RObj) : Bool := if p.byNode then o.nodeset == 0 else o.cpuset == 0
def removable (p : Params) (ty : Nat) : Bool := if p.byNode then (ty != tPU || p.rmExempt) else (ty != tNUMA || p.rmExempt)
def doReorder (p : Params) : Bool := !p.byNode || p.rmExempt

/-- result of restricting one subtree (or a list of sibling subtrees): the survivors that stay in place, and the
    I/O and Misc subtrees handed to the parent (appended to its lists by unlink_and_free_single_object) -/
structure Res where
  kept : List Tree
  io : List Tree
  misc : List Tree
deriving Repr, Inhabited

mutual
/-- the recursion, parametrised by the children-reordering function `ro` (hwloc uses `reorder`; the parameter lets the
    lemmas depend only on "`ro` permutes its argument" and lets the driver recognise the calls on which reordering matters) -/
def restrictTW (ro : List Tree → List Tree) (p : Params) : Tree → Res
  | .node o ns ms ios mis =>
    let m := touched p o
    let rn := if m then restrictLW ro p ns else ⟨ns, [], []⟩
    let rm := if m then restrictLW ro p ms else ⟨ms, [], []⟩
    let o' := shrinkG p o
    let ns' := if m && doReorder p then ro rn.kept else rn.kept
    let ios' := ios ++ rn.io ++ rm.io
    let mis' := mis ++ rn.misc ++ rm.misc
    if ns'.isEmpty && rm.kept.isEmpty && emptyAfter p o' && removable p o'.type then
      ⟨[], if p.adaptIO then ios' else [], if p.adaptMisc then mis' else []⟩
    else ⟨[.node o' ns' rm.kept ios' mis'], [], []⟩
def restrictLW (ro : List Tree → List Tree) (p : Params) : List Tree → Res
  | [] => ⟨[], [], []⟩
  | t :: ts =>
    let r := restrictTW ro p t
    let rs := restrictLW ro p ts
    ⟨r.kept ++ rs.kept, r.io ++ rs.io, r.misc ++ rs.misc⟩
end

/-- restrict_object_by_cpuset / restrict_object_by_nodeset -/
def restrictT (p : Params) : Tree → Res := restrictTW reorder p
def restrictL (p : Params) : List Tree → Res := restrictLW reorder p

/-! ### the public function up to the tree recursion -/

structure Topo where
  tree : Tree
  allowedCpu : Nat
  allowedNode : Nat
  filters : List Nat      -- type_filter[] indexed by type
deriving Repr, Inhabited

inductive Ret where
  | ok
  | einval
  | rootRemoved           -- the C code would dereference the NULL parent of the root (never reached, see `restrict_root_kept`)
deriving DecidableEq, Repr

def hasFlag (flags f : Nat) : Bool := flags &&& f != 0
def allFlags : Nat := flagRemoveCpuless ||| flagAdaptMisc ||| flagAdaptIO ||| flagByNodeset ||| flagRemoveMemless

def osBit (o : RObj) : Nat := 1 <<< o.osidx.toNat

/-- nodes to drop with REMOVE_CPULESS: os_index of every NUMA node whose cpuset is or becomes empty -/
def droppedNodes (t : Tree) (dc : CSet) : Nat :=
  ((objsT t).filter (fun o => o.type == tNUMA)).foldl
    (fun acc o => if o.cpuset == 0 || inside o.cpuset dc then acc ||| osBit o else acc) 0
/-- PUs to drop with REMOVE_MEMLESS: os_index of every PU whose cpuset is empty or whose nodeset becomes empty -/
def droppedPUs (t : Tree) (dn : CSet) : Nat :=
  ((objsT t).filter (fun o => o.type == tPU)).foldl
    (fun acc o => if o.cpuset == 0 || inside o.nodeset dn then acc ||| osBit o else acc) 0

/-- flag validation + pre-checks + dropped sets: `none` = EINVAL -/
def plan (t : Topo) (s : CSet) (flags : Nat) : Option Params :=
  if andnot flags allFlags != 0 then none else
  let byNode := hasFlag flags flagByNodeset
  if byNode && hasFlag flags flagRemoveCpuless then none else
  if !byNode && hasFlag flags flagRemoveMemless then none else
  if byNode && !meets t.allowedNode s then none else
  if !byNode && !meets t.allowedCpu s then none else
  let aio := hasFlag flags flagAdaptIO
  let amisc := hasFlag flags flagAdaptMisc
  if byNode then
    let dn := s.compl
    if hasFlag flags flagRemoveMemless then
      let dc := CSet.ofMask (droppedPUs t.tree dn)
      if inside t.allowedCpu dc then none else some ⟨dc, dn, true, true, aio, amisc⟩
    else some ⟨CSet.empty, dn, true, false, aio, amisc⟩
  else
    let dc := s.compl
    if hasFlag flags flagRemoveCpuless then
      let dn := CSet.ofMask (droppedNodes t.tree dc)
      if inside t.allowedNode dn then none else some ⟨dc, dn, false, true, aio, amisc⟩
    else some ⟨dc, CSet.empty, false, false, aio, amisc⟩

/-! ### hwloc_connect_levels -/

def orderOf (ty : Nat) : Nat := (typeOrder[ty]?).getD 0
def priorityOf (ty : Nat) : Nat := (typePriority[ty]?).getD 0

/-- hwloc_type_cmp(a, b) == HWLOC_OBJ_EQUAL (both normal objects) -/
def typeEq (a b : RObj) : Bool :=
  orderOf a.type == orderOf b.type && !(a.type == tGROUP && (a.gkind != b.gkind || a.gsubkind != b.gsubkind))

mutual
/-- find_same_type(root, x): an object strictly below `root` (normal children only) of the same type as `x` -/
def findSameT (x : RObj) : Tree → Bool
  | .node _ ns _ _ _ => findSameL x ns
def findSameL (x : RObj) : List Tree → Bool
  | [] => false
  | t :: ts => typeEq t.obj x || findSameT x t || findSameL x ts
end

def levelsLoop : Nat → List Tree → List (List RObj)
  | 0, _ => []
  | fuel + 1, objs =>
    match objs with
    | [] => []
    | first :: _ =>
      let top0 := (objs.find? (fun o => o.obj.type != tPU)).getD first
      let top := objs.foldl (fun top o => if !typeEq top.obj o.obj && findSameT top.obj o then o else top) top0
      let taken := objs.filter (fun o => typeEq top.obj o.obj)
      let next := objs.flatMap (fun o => if typeEq top.obj o.obj then o.ns else [o])
      taken.map (·.obj) :: levelsLoop fuel next

/-- the normal levels, root level first -/
def connectLevels (t : Tree) : List (List RObj) :=
  [t.obj] :: levelsLoop (objsT t).length t.ns

/-! ### hwloc_filter_levels_keep_structure -/

/-- (gp, gp of the parent, arity, memory_arity) of every normal object (parent of the root: none) -/
structure Link where
  gp : Nat
  parent : Option Nat
  arity : Nat
  marity : Nat
deriving Repr

mutual
def linksT (parent : Option Nat) : Tree → List Link
  | .node o ns ms _ _ => ⟨o.gp, parent, ns.length, ms.length⟩ :: linksL (some o.gp) ns
def linksL (parent : Option Nat) : List Tree → List Link
  | [] => []
  | t :: ts => linksT parent t ++ linksL parent ts
end

def findLink (ls : List Link) (gp : Nat) : Option Link := ls.find? (fun l => l.gp == gp)

/-- hwloc_compare_levels_structure(i) == 0 -/
def sameStructure (ls : List Link) (up down : List RObj) : Bool :=
  let checkMemory := (down.head?.map (·.type)) == some tPU
  up.length == down.length &&
  (up.zip down).all (fun (u, d) =>
    match findLink ls u.gp, findLink ls d.gp with
    | some lu, some ld => ld.parent == some u.gp && lu.arity == 1 && !(checkMemory && lu.marity != 0)
    | _, _ => false)

/-- the child that replaces its parent stands for everything that was below the parent: it takes over the parent's complete
    sets (hwloc_bitmap_or of complete_cpuset / complete_nodeset in the replace-parent branch, fixes e57fd49 + 5bd7047) -/
def absorb (o co : RObj) : RObj := { co with ccpuset := co.ccpuset ||| o.ccpuset, cnodeset := co.cnodeset ||| o.cnodeset }
/-- … only when the parent has memory children to hand over (`if (parent->memory_first_child)`): they are the only moved
    objects that carry sets, and a PU child (never merged with a parent that has memory children) keeps its singleton -/
def absorbIf (ms : List Tree) (o co : RObj) : RObj := if ms.isEmpty then co else absorb o co

/-- one enqueue step of hwloc__reorder_memory_children: after all elements that are not higher, i.e. before the first element
    whose complete_nodeset is strictly higher (compare_first(child, *prev) < 0; an empty set is the highest) -/
def insertMem (c : Tree) : List Tree → List Tree
  | [] => [c]
  | x :: xs => if gtFirst x.obj.cnodeset c.obj.cnodeset then c :: x :: xs else x :: insertMem c xs
/-- hwloc__reorder_memory_children: stable insertion sort of the memory children by first bit of complete_nodeset -/
def reorderMem (l : List Tree) : List Tree := l.foldl (fun acc c => insertMem c acc) []

/-- the memory children after a merge: parent's ++ child's, re-sorted only when the list that is moved (the child's with
    `replaceChild`, the parent's otherwise) is not empty (fix 5313a43) -/
def mergedMs (replaceChild : Bool) (ms cms : List Tree) : List Tree :=
  if (if replaceChild then cms.isEmpty else ms.isEmpty) then ms ++ cms else reorderMem (ms ++ cms)

/-- merge an object with its single normal child: with `replaceChild` the parent stays and takes the child's normal children,
    otherwise the child (with the parent's complete sets or-ed in when the parent has memory children) takes the parent's
    place; in both cases the I/O and Misc lists become parent's ++ child's and the memory list `mergedMs` -/
def mergeNode (replaceChild : Bool) (o : RObj) (ns ms ios mis : List Tree) : Tree :=
  match ns with
  | [.node co cns cms cios cmis] =>
    .node (if replaceChild then o else absorbIf ms o co) cns (mergedMs replaceChild ms cms) (ios ++ cios) (mis ++ cmis)
  | _ => .node o ns ms ios mis

mutual
/-- merge every object whose gp is in `ps` (the objects of one level) with its single normal child -/
def mergeT (ps : List Nat) (replaceChild : Bool) : Tree → Tree
  | .node o ns ms ios mis =>
    if ps.contains o.gp then mergeNode replaceChild o ns ms ios mis
    else .node o (mergeL ps replaceChild ns) ms ios mis
def mergeL (ps : List Nat) (replaceChild : Bool) : List Tree → List Tree
  | [] => []
  | t :: ts => mergeT ps replaceChild t :: mergeL ps replaceChild ts
end

def filterOf (filters : List Nat) (ty : Nat) : Nat := (filters[ty]?).getD 0
def dontMergeLevel (l : List RObj) : Bool := l.any (fun o => o.dmByte != 0)

/-- the decision part of one iteration: `none` = leave both levels, `some rc` = merge with replacechild = rc -/
def mergeDecision (filters : List Nat) (up down : List RObj) : Option Bool :=
  match up.head?, down.head? with
  | some o1, some o2 =>
    let type1 := o1.type
    let type2 := o2.type
    let rp := filterOf filters type1 == filterKeepStructure && !(type1 == tGROUP && dontMergeLevel up)
    let rc := filterOf filters type2 == filterKeepStructure && !(type2 == tGROUP && dontMergeLevel down)
    let rc := if !rc && !rp then type1 == tPACKAGE && type2 == tDIE else rc
    if !rc && !rp then none
    else if rp && rc then some (decide (priorityOf type1 ≥ priorityOf type2))
    else some rc
  | _, _ => none

/-- some consecutive pair (cur, next) of a normal children list with next strictly lower than cur
    (hwloc__object_cpusets_compare_first(next, cur) < 0), cur restricted to the objects whose gp satisfies `sel` -/
def pairBad (sel : Nat → Bool) : List Tree → Bool
  | c :: n :: rest => (sel c.obj.gp && gtFirst c.obj.ccpuset n.obj.ccpuset) || pairBad sel (n :: rest)
  | _ => false

mutual
/-- the check after a replace-parent merge: one of the objects `gps` (the children that took their parents' places) has a
    next sibling that is strictly lower (the replaced parents were ordered by their own complete cpusets) -/
def badOrderT (gps : List Nat) : Tree → Bool
  | .node _ ns _ _ _ => pairBad (fun g => gps.contains g) ns || badOrderL gps ns
def badOrderL (gps : List Nat) : List Tree → Bool
  | [] => false
  | t :: ts => badOrderT gps t || badOrderL gps ts
end

/-- hwloc__reorder_children_if_needed: hwloc__reorder_children only when some consecutive pair is out of order
    (hwloc__reorder_children reverses children with identical first bits, so it must not run needlessly) -/
def fixOrder (l : List Tree) : List Tree := if pairBad (fun _ => true) l then reorder l else l

mutual
/-- hwloc__reorder_children_if_needed on every normal object (memory, I/O and Misc objects have no normal children) -/
def reorderAllT : Tree → Tree
  | .node o ns ms ios mis => .node o (fixOrder (reorderAllL ns)) ms ios mis
def reorderAllL : List Tree → List Tree
  | [] => []
  | t :: ts => reorderAllT t :: reorderAllL ts
end

/-- one iteration of the main loop for C index `i` (levels i-1 and i); state = tree, levels, need_reorder -/
def ksStep (filters : List Nat) (i : Nat) (st : Tree × List (List RObj) × Bool) : Tree × List (List RObj) × Bool :=
  match st.2.1[i - 1]?, st.2.1[i]? with
  | some up, some down =>
    match mergeDecision filters up down with
    | none => st
    | some rc =>
      if sameStructure (linksT none st.1) up down then
        (mergeT (up.map (·.gp)) rc st.1, (if rc then st.2.1.eraseIdx i else st.2.1.eraseIdx (i - 1)),
         -- `if (replaceparent && i>1)`: check the new order of the children that replaced their parents (fix 244c8a8)
         st.2.2 || (!rc && decide (1 < i) && badOrderT (down.map (·.gp)) (mergeT (up.map (·.gp)) rc st.1)))
      else st
  | _, _ => st

def ksLoop (filters : List Nat) : Nat → Tree × List (List RObj) × Bool → Tree × List (List RObj) × Bool
  | 0, st => st
  | i + 1, st => ksLoop filters i (ksStep filters (i + 1) st)

/-- hwloc__reconnect(KEEPSTRUCTURE) as far as the tree is concerned: the level loop, then, if a replace-parent merge left
    children out of order, one pass of hwloc__reorder_children_if_needed over all objects (levels are rebuilt from the tree) -/
def keepStructure (filters : List Nat) (t : Tree) : Tree :=
  let levels := connectLevels t
  let r := ksLoop filters (levels.length - 1) (t, levels, false)
  if r.2.2 then reorderAllT r.1 else r.1

/-! ### hwloc_topology_restrict -/

/-- the tree recursion and the allowed sets, before hwloc__reconnect -/
def restrictCore (t : Topo) (p : Params) : Option Topo :=
  match (restrictT p t.tree).kept with
  | [root] => some { t with tree := root, allowedCpu := minus t.allowedCpu p.dc, allowedNode := minus t.allowedNode p.dn }
  | _ => none

def restrict (t : Topo) (s : CSet) (flags : Nat) : Topo × Ret :=
  match plan t s flags with
  | none => (t, .einval)
  | some p =>
    match restrictCore t p with
    | none => (t, .rootRemoved)
    | some t' => ({ t' with tree := keepStructure t'.filters t'.tree }, .ok)

end Hw.Topo.Restrict
