/-
  Hw.Topo.RestrictCover — the CPU half of `coverT` derived from well-formedness (B2): in a well-formed dump every index of the
  cpuset of a normal object is the os_index of a PU (induction over the depth: cpuset-is-disjoint-union-of-children pushes a bit down
  to a child, depth-increases makes the descent finite, a childless normal object with a non-empty cpuset is a PU with cpuset
  {os_index}); the allowed cpuset is inside the root's cpuset (allowed-sets); the tree lists every dump object (`treeOf_perm`).
-/
import Hw.Topo.RestrictUnique
import Hw.Topo.HelpersBasic
namespace Hw.Topo.Restrict
open Hw.Topo Hw.Gen.Restrict

theorem obj?_of_mem {d : Dump} (h : WF d) {o : Obj} (ho : o ∈ d.objs) : d.obj? (o.id : Int) = some o := by
  obtain ⟨i, hi⟩ := List.mem_iff_getElem?.1 ho
  have := h.id_eq_pos hi
  unfold Dump.obj?
  have hn : ¬ ((o.id : Int) < 0) := by omega
  rw [if_neg hn, Int.toNat_natCast, this]
  exact hi

/-- every index of the cpuset of a normal object is the os_index of a PU of the dump -/
theorem wf_cpuset_bits {d : Dump} (h : WF d) : ∀ (n : Nat) (o : Obj), o ∈ d.objs → isNormal o.type = true →
    (d.depth : Int) - o.depth ≤ (n : Int) → ∀ i, (cs o).testBit i = true → ∃ pu ∈ d.objs, pu.type = tPU ∧ pu.osidx.toNat = i := by
  intro n
  induction n with
  | zero =>
    intro o ho hn hd
    have := ((T_depth_of_wf h) o ho).1 hn
    omega
  | succ n ih =>
    intro o ho hn hd i hi
    have hu := (T_union_of_wf h) o ho
    by_cases ha : o.arity = 0
    · have hne : cs o ≠ 0 := ne_zero_of_testBit hi
      have hpu := hu.2 hn ha hne
      have hf := ((T_depth_of_wf h) o ho).2.2.2.2.1 hpu
      rw [hf.2.1, testBit_single] at hi
      exact ⟨o, ho, hpu, by simpa using hi⟩
    · have hun := (hu.1 ha).2.2
      rw [hun, testBit_orAll, List.any_eq_true] at hi
      obtain ⟨s, hs, hsi⟩ := hi
      obtain ⟨c, hc, rfl⟩ := List.mem_map.1 hs
      obtain ⟨k, hk⟩ := List.mem_iff_getElem?.1 hc
      have hch := ((T_children_of_wf h) o ho).2.2.2 (c, k) (List.mem_zipIdx_iff_getElem?.mpr hk)
      simp only at hch
      obtain ⟨hcm, hcp, _, hcn, _⟩ := hch
      have hinc := h.obj_depth_increases hcm
      rw [hcp, obj?_of_mem h ho] at hinc
      simp only [hcn, if_true, decide_eq_true_eq] at hinc
      exact ih c hcm hcn (by omega) i hsi

theorem coverT_of_spec (mask ty : Nat) (t : Tree)
    (h : ∀ i, mask.testBit i = true → ∃ x ∈ objsT t, x.type = ty ∧ x.osidx.toNat = i) : coverT mask ty t = true := by
  unfold coverT
  rw [List.all_eq_true]
  intro i _
  cases hb : mask.testBit i with
  | false => rfl
  | true =>
    obtain ⟨x, hx, hxt, hxi⟩ := h i hb
    simp only [Bool.not_true, Bool.false_or, List.any_eq_true, Bool.and_eq_true, beq_iff_eq]
    exact ⟨x, hx, hxt, hxi⟩

/-- **the allowed cpuset of a well-formed dump is covered by the PUs of its tree** -/
theorem wf_cover_pu {d : Dump} (h : WF d) (t : Tree) (ht : treeOf d = .ok t) : coverT (d.allowedCpuset.getD 0) tPU t = true := by
  apply coverT_of_spec
  intro i hi
  obtain ⟨r, hr, s1, _, _⟩ := h.allowed
  have hrm : r ∈ d.objs := List.mem_of_getElem? hr
  have hroot := h.top_root_is_machine
  rw [hr] at hroot
  simp only [Bool.and_eq_true, beq_iff_eq] at hroot
  have hrn : isNormal r.type = true := by rw [hroot.2.1.1]; decide
  have hbit : (cs r).testBit i = true := by
    have := (subset_iff _ _).1 s1 i hi
    exact this
  obtain ⟨pu, hpm, hpt, hpi⟩ := wf_cpuset_bits h d.depth r hrm hrn (by
    have := ((T_depth_of_wf h) r hrm).1 hrn; omega) i hbit
  exact ⟨robjOf pu, (treeOf_perm h t ht).mem_iff.2 (List.mem_map_of_mem hpm), hpt, hpi⟩

end Hw.Topo.Restrict
