/-
  Hw.Topo.HelpersFirstLargest — hwloc_get_first_largest_obj_inside_cpuset (helper.h 122-147) on a dump satisfying `Tree`:
  the object returned is a normal object of the topology whose cpuset is non-empty and INSIDE the given set.
  (Used by C20: the `--largest` loop of hwloc-calc.)
-/
import Hw.Topo.HelpersCover
namespace Hw.Topo

theorem intersects_comm' (a b : Nat) : intersects a b = intersects b a := by
  unfold intersects; rw [Nat.and_comm]

/-- the descent: started on a normal object that meets `S`, with enough fuel for the remaining depth, it ends on a normal
    object inside `S` that meets `S` -/
theorem Tree.firstLargestFrom_inside {d : Dump} (ht : Tree d) (S : Nat) :
    ∀ (f : Nat) (o : Obj), o ∈ d.objs → isNormal o.type = true → intersects (cs o) S = true →
      (d.depth : Int) - 1 - o.depth < (f : Int) →
      firstLargestFrom d S f o ∈ d.objs ∧ isNormal (firstLargestFrom d S f o).type = true ∧
        subset (cs (firstLargestFrom d S f o)) S = true ∧ intersects (cs (firstLargestFrom d S f o)) S = true := by
  intro f
  induction f with
  | zero =>
    intro o ho hn _ hf
    have := ((ht.depth o ho).1 hn).2
    omega
  | succ f ih =>
    intro o ho hn hint hf
    unfold firstLargestFrom
    by_cases hsub : subset (cs o) S = true
    · rw [if_pos hsub]; exact ⟨ho, hn, hsub, hint⟩
    · rw [if_neg hsub]
      rw [ht.childChain_eq ho]
      cases hfind : (childObjs d o).find? (fun c => intersects (cs c) S) with
      | some c =>
        simp only
        have hcm : c ∈ childObjs d o := List.mem_of_find?_eq_some hfind
        have hci : intersects (cs c) S = true := by simpa using List.find?_some hfind
        obtain ⟨c1, c2, _, c4, _, _, _⟩ := ht.child_facts ho hcm
        exact ih c c1 c2 hci (by omega)
      | none =>
        exfalso
        have hnone : ∀ c ∈ childObjs d o, intersects (cs c) S = false := by
          intro c hc
          have := List.find?_eq_none.1 hfind c hc
          simpa using this
        obtain ⟨i, hi1, hi2⟩ := (intersects_iff _ _).1 hint
        by_cases har : o.arity = 0
        · -- a leaf that meets S is a PU: a singleton, hence inside S
          have hne : cs o ≠ 0 := (ne_zero_iff _).2 ⟨i, hi1⟩
          have hpu := (ht.union o ho).2 hn har hne
          have hsing := ((ht.depth o ho).2.2.2.2.1 hpu).2.1
          apply hsub
          rw [subset_iff]
          intro j hj
          rw [hsing, testBit_single] at hj hi1
          have e1 := of_decide_eq_true hj
          have e2 := of_decide_eq_true hi1
          rw [← e1, e2]; exact hi2
        · have hun := ((ht.union o ho).1 har).2.2
          rw [hun] at hi1
          obtain ⟨c, hc, hci⟩ := (testBit_orAll_map _ _ _).1 hi1
          have : intersects (cs c) S = true := (intersects_iff _ _).2 ⟨i, hci, hi2⟩
          rw [hnone c hc] at this; cases this

/-- hwloc_get_first_largest_obj_inside_cpuset: a result is a normal object of the topology, inside `S`, with a non-empty
    cpuset (it meets `S`); there is a result exactly when the root meets `S` -/
theorem Tree.firstLargest_inside {d : Dump} (ht : Tree d) {S : Nat} {o : Obj} (h : firstLargest d S = some o) :
    o ∈ d.objs ∧ isNormal o.type = true ∧ subset (cs o) S = true ∧ intersects (cs o) S = true := by
  obtain ⟨r, hr, hrm, _, _, hrn, hrd⟩ := ht.rootObj
  unfold firstLargest at h
  rw [hr] at h
  by_cases hint : intersects (cs r) S = true
  · simp only [hint, Bool.not_true, Bool.false_eq_true, if_false, Option.some.injEq] at h
    have hfuel : (d.depth : Int) - 1 - r.depth < (d.fuel : Int) := by
      have := ht.sizes.1
      unfold Dump.fuel
      omega
    have := ht.firstLargestFrom_inside S d.fuel r hrm hrn hint hfuel
    rw [h] at this
    exact this
  · simp [hint] at h

theorem firstLargest_some {d : Dump} {S : Nat} {r : Obj} (hr : d.rootObj? = some r)
    (hint : intersects (cs r) S = true) : ∃ o, firstLargest d S = some o := by
  unfold firstLargest
  rw [hr]
  simp [hint]

end Hw.Topo
