/-
  Hw.Topo.Types — the observable content of a loaded topology ("dump"): exactly what the harness
  can read through the public API (harness/dump.h).  Objects are numbered in DFS order; pointer
  fields are ids (−1 = NULL, −2 = dangling).  Sets are finite sets of indexes as `Nat` bit masks.
-/
namespace Hw.Topo

/-- `hwloc_obj_type_t` values (checked against the real enum by every harness run: line `ENUM`) -/
def tMACHINE := 0
def tPACKAGE := 1
def tDIE := 2
def tCORE := 3
def tPU := 4
def tL1 := 5
def tL5 := 9
def tL1I := 10
def tL3I := 12
def tGROUP := 13
def tNUMA := 14
def tMEMCACHE := 15
def tBRIDGE := 16
def tPCI := 17
def tOSDEV := 18
def tMISC := 19
def tMAX := 20

def isNormal (t : Nat) : Bool := t ≤ tGROUP
def isMemory (t : Nat) : Bool := t == tNUMA || t == tMEMCACHE
def isIO (t : Nat) : Bool := t == tBRIDGE || t == tPCI || t == tOSDEV
def isMisc (t : Nat) : Bool := t == tMISC
def isSpecial (t : Nat) : Bool := isIO t || isMisc t        -- objects without sets
def isDCache (t : Nat) : Bool := tL1 ≤ t && t ≤ tL5
def isICache (t : Nat) : Bool := tL1I ≤ t && t ≤ tL3I

/-- the virtual depth of the special level a type lives in -/
def specialDepth (t : Nat) : Option Int :=
  if t == tNUMA then some (-3) else if t == tBRIDGE then some (-4) else if t == tPCI then some (-5)
  else if t == tOSDEV then some (-6) else if t == tMISC then some (-7) else if t == tMEMCACHE then some (-8) else none

structure Obj where
  id : Nat
  type : Nat
  depth : Int
  lidx : Nat
  osidx : Int
  gp : Nat
  parent : Int
  rank : Nat
  arity : Nat
  marity : Nat
  ioarity : Nat
  miscarity : Nat
  nextSib : Int
  prevSib : Int
  nextCousin : Int
  prevCousin : Int
  firstChild : Int
  lastChild : Int
  memFirst : Int
  ioFirst : Int
  miscFirst : Int
  symm : Int
  cpuset : Option Nat
  ccpuset : Option Nat
  nodeset : Option Nat
  cnodeset : Option Nat
  totalMem : Nat
  attrs : List Int
  children : List Int
  subtype : Option String
  name : Option String
  infos : List (String × String)
deriving Repr, Inhabited, DecidableEq

structure Level where
  depth : Int
  type : Int
  objs : List Int
deriving Repr, Inhabited, DecidableEq

structure Dump where
  flags : Nat
  depth : Nat
  root : Int
  nobjs : Nat
  allowedCpuset : Option Nat
  allowedNodeset : Option Nat
  filters : List Nat
  objs : List Obj
  levels : List Level
  typeDepths : List Int
deriving Repr, Inhabited, DecidableEq

def Dump.obj? (d : Dump) (i : Int) : Option Obj := if i < 0 then none else d.objs[i.toNat]?

/-- set algebra on masks -/
def subset (a b : Nat) : Bool := a &&& b == a
def disjoint (a b : Nat) : Bool := a &&& b == 0
def single (i : Nat) : Nat := 1 <<< i

end Hw.Topo
