/-
  Hw.Topo.StageNuma — a NUMA node with a non-empty nodeset survives `remove_empty` and level merging, so the final render satisfies
  the WF clause numa-exists.
-/
import Hw.Topo.StageRemoveEmptyKept
import Hw.Topo.RestrictSurvive
import Hw.Topo.RenderTop
namespace Hw.Topo.Restrict.Stage
open Hw.Topo Hw.Topo.Restrict

theorem objsNM_sub :
    (∀ t, ∀ x ∈ objsNM t, x ∈ objsT t) ∧ (∀ l, ∀ x ∈ objsNML l, x ∈ objsL l) := by
  have hnode : ∀ o ns ms ios mis, (∀ x ∈ objsNML ns, x ∈ objsL ns) → (∀ x ∈ objsNML ms, x ∈ objsL ms) →
      (∀ x ∈ objsNM (.node o ns ms ios mis), x ∈ objsT (.node o ns ms ios mis)) := by
    intro o ns ms ios mis h1 h2 x hx
    rw [objsNM] at hx
    rw [objsT]
    simp only [List.mem_cons, List.mem_append] at hx ⊢
    rcases hx with hx | hx | hx
    · exact Or.inl hx
    · exact Or.inr (Or.inl (Or.inl (Or.inl (h1 x hx))))
    · exact Or.inr (Or.inl (Or.inl (Or.inr (h2 x hx))))
  have hnil : ∀ x ∈ objsNML [], x ∈ objsL [] := by intro x hx; rw [objsNML] at hx; cases hx
  have hcons : ∀ t ts, (∀ x ∈ objsNM t, x ∈ objsT t) → (∀ x ∈ objsNML ts, x ∈ objsL ts) →
      (∀ x ∈ objsNML (t :: ts), x ∈ objsL (t :: ts)) := by
    intro t ts h1 h2 x hx
    rw [objsNML] at hx
    rw [objsL]
    rcases List.mem_append.1 hx with hx | hx
    · exact List.mem_append_left _ (h1 x hx)
    · exact List.mem_append_right _ (h2 x hx)
  exact ⟨tree_indT hnode hnil hcons, tree_indL hnode hnil hcons⟩

/-- **numa-exists for the composed pipeline**: if the tree handed to `remove_empty` is typed with a normal root and holds (below normal /
    memory children) a NUMA node with a non-empty nodeset, the dump rendered from the final tree has a non-empty NUMA level -/
theorem pipeline_numa_exists (filters : List Nat) (hdr : Hdr) (ex : RObj → Extra) (t0 t1 : Tree) (hty : typedT t0 = true)
    (hr : isNormal t0.obj.type = true) (h1 : removeEmpty t0 = some t1)
    (hn : ∃ x ∈ objsNM t0, x.type = tNUMA ∧ x.nodeset ≠ 0) :
    topClause "numa-exists" (render (keepStructure filters t1) hdr ex) (mkAux (render (keepStructure filters t1) hdr ex)) = true := by
  obtain ⟨x, hx, hxt, hne⟩ := hn
  have he : emptySet x = false := by
    unfold emptySet
    have : isNormal x.type = false := by rw [hxt]; decide
    rw [this]; simpa using hne
  have hx1 : x ∈ objsT t1 := objsNM_sub.1 t1 x ((removeEmpty_objs t0 t1 h1).1 x hx he)
  have ht1 := removeEmpty_typed _ t1 h1 hty
  have hn1 : isNormal t1.obj.type = true := by rw [ht1.2]; exact hr
  have hx2 := (keepStructure_nonnormal_mem filters t1 ht1.1 hn1 x (by rw [hxt]; decide)).2 hx1
  exact render_numa_exists _ ⟨x, hx2, hxt⟩ hdr ex

end Hw.Topo.Restrict.Stage
