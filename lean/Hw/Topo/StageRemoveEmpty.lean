/-
  Hw.Topo.StageRemoveEmpty — model of `remove_empty` (hwloc/topology.c) as `hwloc_discover` calls it on the root after
  `hwloc_filter_bridges`, over the four-list object tree of `Hw.Topo.Restrict` (the tree `render` works on).

      for_each_child_safe(child, obj, pchild)        remove_empty(topology, pchild);
      for_each_memory_child_safe(child, obj, pchild) remove_empty(topology, pchild);
      if (obj->first_child || obj->memory_first_child || obj->io_first_child) return;      (Misc children are ignored)
      if (normal type) { if (!iszero(obj->cpuset)) return; } else { if (!iszero(obj->nodeset)) return; }
      if (!obj->parent) unlink_and_free_object_and_children(pobj); else unlink_and_free_single_object(pobj);

  `unlink_and_free_single_object` of an object that has no normal, memory or I/O child only appends its Misc children to the
  Misc list of the parent (`append_siblings_list`), in the order in which the objects are removed: normal children first (list
  order), then memory children.  A removed root takes its Misc children with it (the load then fails).
-/
import Hw.Topo.Render
namespace Hw.Topo.Restrict.Stage
open Hw.Topo Hw.Topo.Restrict

/-- the set `remove_empty` tests: the cpuset of a normal object, the nodeset of any other (memory) object -/
def emptySet (o : RObj) : Bool := if isNormal o.type then o.cpuset == 0 else o.nodeset == 0

/-- result for one subtree or a list of siblings: the survivors (in place) and the Misc subtrees handed to the parent -/
structure RE where
  kept : List Tree
  misc : List Tree
deriving Repr, Inhabited

mutual
def removeEmptyT : Tree → RE
  | .node o ns ms ios mis =>
    let rn := removeEmptyL ns
    let rm := removeEmptyL ms
    let mis' := mis ++ rn.misc ++ rm.misc
    if rn.kept.isEmpty && rm.kept.isEmpty && ios.isEmpty && emptySet o then ⟨[], mis'⟩
    else ⟨[.node o rn.kept rm.kept ios mis'], []⟩
def removeEmptyL : List Tree → RE
  | [] => ⟨[], []⟩
  | t :: ts =>
    let r := removeEmptyT t
    let rs := removeEmptyL ts
    ⟨r.kept ++ rs.kept, r.misc ++ rs.misc⟩
end

/-- `remove_empty(topology, &topology->levels[0][0])`: `none` = the root itself was removed ("Topology became empty") -/
def removeEmpty (t : Tree) : Option Tree := (removeEmptyT t).kept.head?

/-- the C rule, positively: an object that `remove_empty` leaves in place has a normal, memory or I/O child, or its set
    (cpuset if normal, nodeset otherwise) is not empty -/
def alive (o : RObj) (ns ms ios : List Tree) : Bool := !ns.isEmpty || !ms.isEmpty || !ios.isEmpty || !emptySet o

mutual
/-- `p` at the object and at every object reachable through normal and memory children lists (the objects `remove_empty` visits) -/
def allNM (p : RObj → List Tree → List Tree → List Tree → List Tree → Bool) : Tree → Bool
  | .node o ns ms ios mis => p o ns ms ios mis && allNML p ns && allNML p ms
def allNML (p : RObj → List Tree → List Tree → List Tree → List Tree → Bool) : List Tree → Bool
  | [] => true
  | t :: ts => allNM p t && allNML p ts
end

def allAlive (t : Tree) : Bool := allNM (fun o ns ms ios _ => alive o ns ms ios) t
def allAliveL (l : List Tree) : Bool := allNML (fun o ns ms ios _ => alive o ns ms ios) l

end Hw.Topo.Restrict.Stage
