/-
  Hw.Topo.RenderOf — from a dump to the tree / header / carried fields that `render` takes, and the whole-dump comparison
  used by the engines (C01 topo-load, C02 history, C08 restrict): `treeOf d` rebuilds the four-list tree from the DFS-ordered
  object list, `hdrOf d` and `extraOf` supply what the tree does not determine, `dumpDiff` names the first differing field.
-/
import Hw.Topo.Render
namespace Hw.Topo.Restrict
open Hw.Topo

/-! ### dump → tree -/

def robjOf (o : Obj) : RObj :=
  let a (i : Nat) : Int := (o.attrs[i]?).getD 0
  { gp := o.gp, type := o.type, osidx := o.osidx,
    cpuset := o.cpuset.getD 0, ccpuset := o.ccpuset.getD 0, nodeset := o.nodeset.getD 0, cnodeset := o.cnodeset.getD 0,
    hasSets := o.cpuset.isSome,
    gkind := if o.type == tGROUP then a 1 else 0, gsubkind := if o.type == tGROUP then a 2 else 0,
    dmByte := if o.type == tGROUP then (a 3).toNat % 256 else 0 }

structure Kids where
  ns : List Tree := []
  ms : List Tree := []
  ios : List Tree := []
  mis : List Tree := []
deriving Inhabited

/-- objects are in DFS order (children lists in list order), so folding from the right and prepending rebuilds the lists -/
def treeOf (d : Dump) : Except String Tree :=
  let n := d.objs.length
  let init : Array Kids := Array.replicate n {}
  let r := d.objs.foldr (fun (o : Obj) (acc : Except String (Array Kids × Option Tree)) =>
    match acc with
    | .error e => .error e
    | .ok (arr, root) =>
      if o.id ≥ n then .error "id-out-of-range" else
      let k := arr[o.id]!
      let t := Tree.node (robjOf o) k.ns k.ms k.ios k.mis
      if o.parent < 0 then
        if o.id == 0 then .ok (arr, some t) else .error ("orphan@" ++ toString o.id)
      else
        let p := o.parent.toNat
        if p ≥ o.id then .error ("parent-not-before-child@" ++ toString o.id) else
        let kp := arr[p]!
        let kp := if isNormal o.type then { kp with ns := t :: kp.ns }
                  else if isMemory o.type then { kp with ms := t :: kp.ms }
                  else if isIO o.type then { kp with ios := t :: kp.ios }
                  else { kp with mis := t :: kp.mis }
        .ok (arr.set! p kp, root)) (.ok (init, none))
  match r with
  | .error e => .error e
  | .ok (_, some t) => .ok t
  | .ok (_, none) => .error "no-root"

/-! ### the renderer tie: render (tree) must equal the real dump as a whole -/

def gpTable (d : Dump) : Array (Option Obj) :=
  let n := (d.objs.foldl (fun m o => max m o.gp) 0) + 1
  d.objs.foldl (fun (a : Array (Option Obj)) o => a.set! o.gp (some o)) (Array.replicate n none)

def lookupGp (tbl : Array (Option Obj)) (gp : Nat) : Option Obj := (tbl[gp]?).getD none

/-- carried fields: attributes / names / infos from `stat` (restrict never touches them), symmetric_subtree and total_memory
    from `live` (recomputed by code that is not modelled here) -/
def extraOf (stat live : Array (Option Obj)) (o : RObj) : Extra :=
  let a := lookupGp stat o.gp
  let b := lookupGp live o.gp
  { symm := (b.map (·.symm)).getD 0, totalMem := (b.map (·.totalMem)).getD 0, attrs := (a.map (·.attrs)).getD [],
    subtype := (a.map (·.subtype)).getD none, name := (a.map (·.name)).getD none, infos := (a.map (·.infos)).getD [] }

def objDiff (m r : Obj) : String :=
  let f (n : String) (b : Bool) : List String := if b then [] else [n]
  "+".intercalate (
    f "id" (m.id == r.id) ++ f "type" (m.type == r.type) ++ f "depth" (m.depth == r.depth) ++ f "lidx" (m.lidx == r.lidx) ++
    f "osidx" (m.osidx == r.osidx) ++ f "gp" (m.gp == r.gp) ++ f "parent" (m.parent == r.parent) ++ f "rank" (m.rank == r.rank) ++
    f "arity" (m.arity == r.arity) ++ f "marity" (m.marity == r.marity) ++ f "ioarity" (m.ioarity == r.ioarity) ++
    f "miscarity" (m.miscarity == r.miscarity) ++ f "nextSib" (m.nextSib == r.nextSib) ++ f "prevSib" (m.prevSib == r.prevSib) ++
    f "nextCousin" (m.nextCousin == r.nextCousin) ++ f "prevCousin" (m.prevCousin == r.prevCousin) ++
    f "firstChild" (m.firstChild == r.firstChild) ++ f "lastChild" (m.lastChild == r.lastChild) ++ f "memFirst" (m.memFirst == r.memFirst) ++
    f "ioFirst" (m.ioFirst == r.ioFirst) ++ f "miscFirst" (m.miscFirst == r.miscFirst) ++ f "symm" (m.symm == r.symm) ++
    f "cpuset" (m.cpuset == r.cpuset) ++ f "ccpuset" (m.ccpuset == r.ccpuset) ++ f "nodeset" (m.nodeset == r.nodeset) ++
    f "cnodeset" (m.cnodeset == r.cnodeset) ++ f "totalMem" (m.totalMem == r.totalMem) ++ f "attrs" (m.attrs == r.attrs) ++
    f "children" (m.children == r.children) ++ f "subtype" (m.subtype == r.subtype) ++ f "name" (m.name == r.name) ++
    f "infos" (m.infos == r.infos))

/-- first difference between the rendered dump `m` and the real dump `r` -/
def dumpDiff (m r : Dump) : Option String :=
  if m == r then none else
  if m.flags != r.flags || m.filters != r.filters || m.allowedCpuset != r.allowedCpuset || m.allowedNodeset != r.allowedNodeset then some "header"
  else if m.depth != r.depth then some ("depth:model=" ++ toString m.depth)
  else if m.root != r.root || m.nobjs != r.nobjs || m.objs.length != r.objs.length then some ("nobjs:model=" ++ toString m.nobjs)
  else match (m.objs.zip r.objs).find? (fun (a, b) => a != b) with
    | some (a, b) => some ("obj" ++ toString b.id ++ ":" ++ objDiff a b)
    | none =>
      if m.levels != r.levels then
        match (m.levels.zip r.levels).find? (fun (a, b) => a != b) with
        | some (a, _) => some ("level" ++ toString a.depth)
        | none => some "levels-count"
      else if m.typeDepths != r.typeDepths then some "typeDepths" else some "?"

def hdrOf (d : Dump) : Hdr := ⟨d.flags, d.filters, d.allowedCpuset, d.allowedNodeset⟩


/-! ### hwloc_topology_insert_misc_object on the tree -/

mutual
/-- append the subtree `m` at the END of the Misc list of the object whose DFS id is `target` (`s` = id of this subtree's root) -/
def insertMiscT (target : Nat) (m : Tree) (s : Nat) : Tree → Tree
  | .node o ns ms ios mis =>
    if s == target then .node o ns ms ios (mis ++ [m])
    else .node o (insertMiscL target m (s + 1) ns) (insertMiscL target m (s + 1 + sizeL ns) ms)
           (insertMiscL target m (s + 1 + sizeL ns + sizeL ms) ios) (insertMiscL target m (s + 1 + sizeL ns + sizeL ms + sizeL ios) mis)
def insertMiscL (target : Nat) (m : Tree) (s : Nat) : List Tree → List Tree
  | [] => []
  | t :: ts => insertMiscT target m s t :: insertMiscL target m (s + sizeT t) ts
end

/-- the new Misc object: no sets, unknown os_index -/
def miscObj (gp : Nat) : RObj :=
  { gp := gp, type := tMISC, osidx := -1, cpuset := 0, ccpuset := 0, nodeset := 0, cnodeset := 0, hasSets := false,
    gkind := 0, gsubkind := 0, dmByte := 0 }

mutual
/-- the subtree whose root has gp_index `g` -/
def findGpT (g : Nat) : Tree → Option Tree
  | .node o ns ms ios mis =>
    if o.gp == g then some (.node o ns ms ios mis)
    else ((findGpL g ns).orElse fun _ => (findGpL g ms).orElse fun _ => (findGpL g ios).orElse fun _ => findGpL g mis)
def findGpL (g : Nat) : List Tree → Option Tree
  | [] => none
  | t :: ts => (findGpT g t).orElse fun _ => findGpL g ts
end

theorem dumpDiff_none (m r : Dump) (h : dumpDiff m r = none) : m = r := by
  unfold dumpDiff at h
  by_cases hc : (m == r) = true
  · exact eq_of_beq hc
  · rw [if_neg hc] at h
    exfalso
    repeat' split at h
    all_goals simp at h

/-- the renderer check of one dump: `none` when the tree is typed with a normal root and `render (treeOf d) = d` -/
def renderCheck (d : Dump) : List String :=
  match treeOf d with
  | .error e => ["not-a-tree:" ++ e]
  | .ok t =>
    let tb := gpTable d
    (if typedT t && puLeafT t && isNormal t.obj.type then [] else ["tree-not-typed"]) ++
    (match dumpDiff (render t (hdrOf d) (extraOf tb tb)) d with | none => [] | some s => ["render-differs:" ++ s])

end Hw.Topo.Restrict
