/-
  Hw.Topo.SetStage — model of the "set pipeline" of `hwloc_discover` (hwloc/topology.c): the lines after
  "Fixup root sets", `propagate_nodeset`, `fixup_sets` (with the `hwloc__reorder_children_if_needed` at its end) and
  `remove_unused_sets`, exactly in the order in which `hwloc_discover` runs them.

  The tree holds the objects that carry sets: normal children and memory children (I/O and Misc objects have no sets
  and are not touched by the stage; the differential engine checks that they come out unchanged).  The four sets are
  finite sets of indexes as `Nat` masks; `complete_cpuset` / `complete_nodeset` are `Option`s because the C code
  allocates the missing ones here.  A NULL `nodeset` of a normal object is read as 0: `propagate_nodeset` allocates it
  and overwrites its value before anything reads it (memory objects always have one, `hwloc__attach_memory_object`
  refuses them otherwise; the driver rejects a dump in which a memory object has none).  `cpuset` is never NULL at
  this point (the C code would dereference it).

  In this source tree `remove_unused_sets` only intersects with the allowed sets; objects whose sets become empty are
  unlinked later by `remove_empty`.  So the stage removes no object.
-/
import Hw.Topo.Types
import Hw.Topo.Insert
namespace Hw.Topo.SetStage
open Hw.Topo

structure SObj where
  gp : Nat
  type : Nat
  os : Nat                  -- os_index as the unsigned it is (HWLOC_UNKNOWN_INDEX = 2^32 - 1)
  cpuset : Nat
  ccpuset : Option Nat
  nodeset : Nat
  cnodeset : Option Nat
deriving DecidableEq, Repr, Inhabited

inductive ST where
  | node (o : SObj) (kids : List ST) (mem : List ST)
deriving Repr, Inhabited

def ST.o : ST → SObj | .node o _ _ => o
def ST.kids : ST → List ST | .node _ k _ => k
def ST.mem : ST → List ST | .node _ _ m => m

/-- an allowed set as the back ends leave it: a finite set, or (`co`) the complement of a finite set
(`hwloc_bitmap_alloc_full()` = the complement of ∅) -/
structure ASet where
  co : Bool
  bits : Nat
deriving DecidableEq, Repr, Inhabited

/-- `hwloc_bitmap_and(allowed, allowed, m)` for a finite `m` -/
def ASet.inter (a : ASet) (m : Nat) : Nat := if a.co then m ^^^ (m &&& a.bits) else a.bits &&& m

/-! ### `propagate_nodeset` -/

/-- `for child: hwloc_bitmap_or(obj->nodeset, obj->nodeset, child->nodeset)` -/
def orNs (acc : Nat) (l : List ST) : Nat := l.foldl (fun a c => a ||| c.o.nodeset) acc
/-- `for child: hwloc_bitmap_or(obj->complete_nodeset, obj->complete_nodeset, child->complete_nodeset)` -/
def orCns (acc : Nat) (l : List ST) : Nat := l.foldl (fun a c => a ||| c.o.cnodeset.getD 0) acc

mutual
/-- `propagate_nodeset(obj)`; `inh` = the parent's nodeset at the time of the call (empty at the root) -/
def propagate (inh : Nat) : ST → ST
  | .node o kids mem =>
    let cn0 := match o.cnodeset with
      | none => inh               -- hwloc_bitmap_dup(obj->nodeset)
      | some c => c ||| inh
    let ns1 := orNs inh mem       -- add the local nodes
    let cn1 := orCns cn0 mem
    let kids' := propagateL ns1 kids
    .node { o with nodeset := orNs ns1 kids', cnodeset := some (orCns cn1 kids') } kids' mem
def propagateL (inh : Nat) : List ST → List ST
  | [] => []
  | c :: cs => propagate inh c :: propagateL inh cs
end

/-! ### `fixup_sets` -/

/-- `if (child->complete_X) hwloc_bitmap_and(child->complete_X, child->complete_X, obj->complete_X); else child->complete_X = hwloc_bitmap_dup(child->X)` -/
def clipOpt (x : Option Nat) (pc : Nat) (dflt : Nat) : Nat :=
  match x with
  | some x => x &&& pc
  | none => dflt

/-- the body of the `while (child)` loop of `fixup_sets(obj)`: `p` = obj (its sets are final), `c` = the child -/
def fixChild (p c : SObj) : SObj :=
  let cpu := c.cpuset &&& p.cpuset
  let ns := c.nodeset &&& p.nodeset
  let ccpu := clipOpt c.ccpuset (p.ccpuset.getD 0) cpu
  let cns := clipOpt c.cnodeset (p.cnodeset.getD 0) ns
  if isMemory c.type then { c with cpuset := p.cpuset, ccpuset := some (p.ccpuset.getD 0), nodeset := ns, cnodeset := some cns }
  else { c with cpuset := cpu, ccpuset := some ccpu, nodeset := ns, cnodeset := some cns }

/-- the key `hwloc__object_cpusets_compare_first` compares: the complete cpuset (every child has one at that point) -/
def ckey (t : ST) : Nat := t.o.ccpuset.getD t.o.cpuset

/-- insertion step of `hwloc__reorder_children`: before the first element whose first bit is not below the child's -/
def insertOrdered (c : ST) (acc : List ST) : List ST :=
  acc.takeWhile (fun x => Ins.firstLt (ckey x) (ckey c)) ++ c :: acc.dropWhile (fun x => Ins.firstLt (ckey x) (ckey c))

def reorder (kids : List ST) : List ST := kids.foldl (fun acc c => insertOrdered c acc) []

def needsReorder : List ST → Bool
  | a :: b :: rest => Ins.firstLt (ckey b) (ckey a) || needsReorder (b :: rest)
  | _ => false

/-- `hwloc__reorder_children_if_needed` -/
def reorderIfNeeded (kids : List ST) : List ST := if needsReorder kids then reorder kids else kids

mutual
/-- one iteration of the loop of `fixup_sets(parent)` on `child` (including the recursive call `fixup_sets(child)`) -/
def fixupChild (p : SObj) : ST → ST
  | .node c kids mem =>
    .node (fixChild p c) (reorderIfNeeded (fixupChildren (fixChild p c) kids)) (fixupChildren (fixChild p c) mem)
def fixupChildren (p : SObj) : List ST → List ST
  | [] => []
  | c :: cs => fixupChild p c :: fixupChildren p cs
end

/-- `fixup_sets(root)` -/
def fixupSets : ST → ST
  | .node o kids mem => .node o (reorderIfNeeded (fixupChildren o kids)) (fixupChildren o mem)

/-! ### `remove_unused_sets` -/

def clip (ac an : Nat) (o : SObj) : SObj := { o with cpuset := o.cpuset &&& ac, nodeset := o.nodeset &&& an }

mutual
def removeUnused (ac an : Nat) : ST → ST
  | .node o kids mem => .node (clip ac an o) (removeUnusedL ac an kids) (removeUnusedL ac an mem)
def removeUnusedL (ac an : Nat) : List ST → List ST
  | [] => []
  | c :: cs => removeUnused ac an c :: removeUnusedL ac an cs
end

/-! ### the stage as `hwloc_discover` runs it -/

structure In where
  includeDisallowed : Bool      -- HWLOC_TOPOLOGY_FLAG_INCLUDE_DISALLOWED
  allowedC : ASet
  allowedN : ASet
  root : ST
deriving Repr, Inhabited

structure Out where
  allowedC : Nat
  allowedN : Nat
  root : ST
deriving Repr, Inhabited

/-- "Fixup root sets": root->cpuset &= root->complete_cpuset, root->nodeset &= root->complete_nodeset -/
def fixupRoot : ST → ST
  | .node o kids mem =>
    .node { o with cpuset := o.cpuset &&& o.ccpuset.getD 0, nodeset := o.nodeset &&& o.cnodeset.getD 0 } kids mem

def stage (i : In) : Out :=
  let r0 := fixupRoot i.root
  let ac := i.allowedC.inter r0.o.cpuset      -- allowed_cpuset &= root->cpuset
  let an := i.allowedN.inter r0.o.nodeset     -- allowed_nodeset &= root->nodeset (the value BEFORE propagate_nodeset rebuilds it)
  let r2 := fixupSets (propagate 0 r0)
  { allowedC := ac, allowedN := an, root := if i.includeDisallowed then r2 else removeUnused ac an r2 }

/-! ### observation: the objects in depth-first order (normal children, then memory children) with the gp_index of the parent -/

mutual
def rows (parent : Int) (isMem : Bool) : ST → List (Int × Bool × SObj)
  | .node o kids mem => (parent, isMem, o) :: (rowsL o.gp false kids ++ rowsL o.gp true mem)
def rowsL (parent : Int) (isMem : Bool) : List ST → List (Int × Bool × SObj)
  | [] => []
  | c :: cs => rows parent isMem c ++ rowsL parent isMem cs
end

/-! ### the precondition `PreSets`: what the insertion routine and the memory attach deliver (decidable, evaluated on every real input) -/

mutual
/-- `p o kids mem` at every node -/
def allNodes (p : SObj → List ST → List ST → Bool) : ST → Bool
  | .node o kids mem => p o kids mem && allNodesL p kids && allNodesL p mem
def allNodesL (p : SObj → List ST → List ST → Bool) : List ST → Bool
  | [] => true
  | c :: cs => allNodes p c && allNodesL p cs
end

/-- pairwise disjoint masks -/
def djList : List Nat → Bool
  | [] => true
  | a :: r => r.all (fun b => a &&& b == 0) && djList r

def orL (l : List Nat) : Nat := l.foldr (· ||| ·) 0

mutual
/-- the nodes attached at or below a normal object -/
def below : ST → Nat
  | .node _ kids mem => orNs 0 mem ||| belowL kids
def belowL : List ST → Nat
  | [] => 0
  | c :: cs => below c ||| belowL cs
end

def subOpt (a : Nat) : Option Nat → Bool
  | some x => subset a x
  | none => true

def preClauses : List (String × (In → Bool)) := [
  -- hwloc_alloc_root_sets(): the root has its four sets
  ("root-complete-sets", fun i => i.root.o.ccpuset.isSome && i.root.o.cnodeset.isSome),
  -- a back end that sets a complete_cpuset makes it contain the cpuset (the root is exempt: "Fixup root sets" clips its cpuset first)
  ("cpuset-in-complete", fun i => allNodes (fun o _ _ => subOpt o.cpuset o.ccpuset) (fixupRoot i.root)),
  -- children lists hold the kinds they are for
  ("list-kinds", fun i => allNodes (fun o kids mem => kids.all (fun k => !isMemory k.o.type) && mem.all (fun m => isMemory m.o.type) &&
                                     (!isMemory o.type || kids.isEmpty)) (fixupRoot i.root)),
  -- hwloc__attach_memory_object(): a memory object has a complete_nodeset that contains its nodeset
  ("memory-nodeset-in-complete", fun i => allNodes (fun _ _ mem => mem.all (fun m => m.o.cnodeset.isSome && subOpt m.o.nodeset m.o.cnodeset)) (fixupRoot i.root)),
  -- hwloc___insert_object_by_cpuset(): siblings have pairwise disjoint cpusets.  (That a child's cpuset lies inside its parent's is
  -- NOT assumed: a Group made for a NUMA node whose cpuset has offline processors exceeds the root cpuset; fixup_sets repairs it.)
  ("siblings-disjoint", fun i => allNodes (fun _ kids _ => djList (kids.map (·.o.cpuset))) (fixupRoot i.root)),
  -- one NUMA node per bit: at every object the nodesets of the attached memory objects are pairwise disjoint, and so are the local
  -- part and the parts attached below each normal child
  ("memory-hierarchies-disjoint", fun i => allNodes (fun _ kids mem =>
      djList (mem.map (·.o.nodeset)) && djList (orL (mem.map (·.o.nodeset)) :: kids.map below)) i.root),
  -- the bits of the root nodeset (set when a NUMA node is attached) are nodes that exist in the tree
  ("root-nodeset-covered", fun i => subset (i.root.o.nodeset &&& i.root.o.cnodeset.getD 0) (below i.root))
]

def preFailed (i : In) : List String := (preClauses.filter (fun c => !c.2 i)).map (·.1)
def preSets (i : In) : Bool := preClauses.all (fun c => c.2 i)

end Hw.Topo.SetStage
