/-
  Hw.Topo.MiscInsertAux — the per-object aggregates `mkAux` after hwloc_topology_insert_misc_object (dump-level model):
  every aggregate list gets one neutral entry at the insertion point, and the parent counts one more Misc child.
-/
import Hw.Topo.MiscInsertBase
namespace Hw.Topo.MiscIns
open Hw.Topo Hw.Topo.Hist

/-! ### `mkAux` restated with named steps -/

def auxStep (a : Aux) (o : Obj) : Aux :=
  if o.parent < 0 then a else
  let p := o.parent.toNat
  let a := { a with totSum := if isNormal o.type || isMemory o.type then a.totSum.set p (getN a.totSum p + o.totalMem) else a.totSum }
  if isNormal o.type then
    let r := orInto (a.cpuOr, a.cpuDisj) p (o.cpuset.getD 0)
    { a with cpuOr := r.1, cpuDisj := r.2, nNormal := a.nNormal.set p (getN a.nNormal p + 1) }
  else if isMemory o.type then
    let r := orInto (a.memOr, a.memDisj) p (o.nodeset.getD 0)
    { a with memOr := r.1, memDisj := r.2, nMemory := a.nMemory.set p (getN a.nMemory p + 1) }
  else if isIO o.type then { a with nIO := a.nIO.set p (getN a.nIO p + 1) }
  else { a with nMisc := a.nMisc.set p (getN a.nMisc p + 1) }

def aux0 (n : Nat) : Aux :=
  ⟨List.replicate n 0, List.replicate n true, List.replicate n 0, List.replicate n true, List.replicate n 0, List.replicate n 0,
   List.replicate n 0, List.replicate n 0, List.replicate n 0, List.replicate n 0, List.replicate n 0, List.replicate n true⟩

def inhStep (memOr : List Nat) (inh : List Nat) (o : Obj) : List Nat :=
  if isNormal o.type && decide (0 ≤ o.parent) then
    inh.set o.id (getN inh o.parent.toNat ||| getN memOr o.parent.toNat) else inh

def belowStep (memOr : List Nat) (o : Obj) (acc : List Nat × List Bool) : List Nat × List Bool :=
  if isNormal o.type then
    let acc := orInto acc o.id (getN memOr o.id)
    if 0 ≤ o.parent then orInto acc o.parent.toNat (getN acc.1 o.id) else acc
  else acc

theorem mkAux_eq (d : Dump) : mkAux d =
    let n := d.objs.length
    let a := d.objs.foldl auxStep (aux0 n)
    let inh := d.objs.foldl (inhStep a.memOr) (List.replicate n 0)
    let bb := d.objs.foldr (belowStep a.memOr) (List.replicate n 0, List.replicate n true)
    { a with inh := inh, below := bb.1, belowDisj := bb.2 } := rfl

/-! ### list facts -/

theorem insAt_set {α : Type} (X : List α) (pos : Nat) (v w : α) (i : Nat) (hp : pos ≤ X.length) :
    (insAt X pos v).set (shN pos i) w = insAt (X.set i w) pos v := by
  apply List.ext_getElem?
  intro j
  rw [List.getElem?_set, insAt_length]
  by_cases hj : j = pos
  · subst hj
    rw [if_neg (shN_ne_pos j i), insAt_get_pos _ _ _ hp, insAt_get_pos _ _ _ (by simpa using hp)]
  · obtain ⟨j0, rfl⟩ : ∃ j0, j = shN pos j0 := by
      by_cases hlt : j < pos
      · exact ⟨j, by unfold shN; split <;> omega⟩
      · exact ⟨j - 1, by unfold shN; split <;> omega⟩
    rw [insAt_get_sh _ _ _ hp, insAt_get_sh _ _ _ (by simpa using hp), List.getElem?_set]
    by_cases hij : i = j0
    · subst hij
      simp only [if_true]
      have : (shN pos i < X.length + 1) ↔ (i < X.length) := by unfold shN; split <;> omega
      by_cases hl : i < X.length
      · simp [hl, this.2 hl]
      · have hl' : ¬ (shN pos i < X.length + 1) := fun x => hl (this.1 x)
        simp only [hl, hl', if_false]
    · have : shN pos i ≠ shN pos j0 := fun e => hij (shN_inj pos _ _ e)
      simp [hij, this]

theorem getN_insAt (X : List Nat) (pos i : Nat) (hp : pos ≤ X.length) : getN (insAt X pos 0) (shN pos i) = getN X i := by
  unfold getN; rw [insAt_get_sh _ _ _ hp]
theorem getB_insAt (X : List Bool) (pos i : Nat) (hp : pos ≤ X.length) : getB (insAt X pos true) (shN pos i) = getB X i := by
  unfold getB; rw [insAt_get_sh _ _ _ hp]
theorem getN_insAt_pos (X : List Nat) (pos : Nat) (hp : pos ≤ X.length) : getN (insAt X pos 0) pos = 0 := by
  unfold getN; rw [insAt_get_pos _ _ _ hp]; rfl
theorem getB_insAt_pos (X : List Bool) (pos : Nat) (hp : pos ≤ X.length) : getB (insAt X pos true) pos = true := by
  unfold getB; rw [insAt_get_pos _ _ _ hp]; rfl

theorem insAt_replicate {α : Type} (n pos : Nat) (v : α) (hp : pos ≤ n) : insAt (List.replicate n v) pos v = List.replicate (n + 1) v := by
  apply List.ext_getElem?
  intro j
  by_cases hj : j = pos
  · subst hj
    rw [insAt_get_pos _ _ _ (by simpa using hp), List.getElem?_replicate]; simp; omega
  · obtain ⟨j0, rfl⟩ : ∃ j0, j = shN pos j0 := by
      by_cases hlt : j < pos
      · exact ⟨j, by unfold shN; split <;> omega⟩
      · exact ⟨j - 1, by unfold shN; split <;> omega⟩
    rw [insAt_get_sh _ _ _ (by simpa using hp), List.getElem?_replicate, List.getElem?_replicate]
    have : (shN pos j0 < n + 1) ↔ (j0 < n) := by unfold shN; split <;> omega
    by_cases hl : j0 < n
    · simp [hl, this.2 hl]
    · have hl' : ¬ (shN pos j0 < n + 1) := fun x => hl (this.1 x)
      simp only [hl, hl', if_false]

/-- `orInto` on lists with a neutral entry inserted -/
theorem orInto_insAt (X : List Nat) (Y : List Bool) (pos q s : Nat) (hx : pos ≤ X.length) (hy : pos ≤ Y.length) :
    orInto (insAt X pos 0, insAt Y pos true) (shN pos q) s =
      (insAt (orInto (X, Y) q s).1 pos 0, insAt (orInto (X, Y) q s).2 pos true) := by
  unfold orInto
  simp only [getN_insAt X pos q hx, insAt_set X pos 0 _ q hx]
  split
  · rfl
  · rw [insAt_set Y pos true _ q hy]

theorem orInto_len1 (acc : List Nat × List Bool) (q s : Nat) : (orInto acc q s).1.length = acc.1.length := by
  unfold orInto; simp
theorem orInto_len2 (acc : List Nat × List Bool) (q s : Nat) : (orInto acc q s).2.length = acc.2.length := by
  unfold orInto; simp only; split <;> simp

/-! ### the first fold -/

def insAux (pos : Nat) (a : Aux) : Aux :=
  ⟨insAt a.cpuOr pos 0, insAt a.cpuDisj pos true, insAt a.memOr pos 0, insAt a.memDisj pos true, insAt a.totSum pos 0,
   insAt a.nNormal pos 0, insAt a.nMemory pos 0, insAt a.nIO pos 0, insAt a.nMisc pos 0, insAt a.inh pos 0, insAt a.below pos 0,
   insAt a.belowDisj pos true⟩

structure Len (n : Nat) (a : Aux) : Prop where
  l1 : a.cpuOr.length = n
  l2 : a.cpuDisj.length = n
  l3 : a.memOr.length = n
  l4 : a.memDisj.length = n
  l5 : a.totSum.length = n
  l6 : a.nNormal.length = n
  l7 : a.nMemory.length = n
  l8 : a.nIO.length = n
  l9 : a.nMisc.length = n

theorem len_aux0 (n : Nat) : Len n (aux0 n) := by
  constructor <;> simp [aux0]

theorem len_step (n : Nat) (a : Aux) (o : Obj) (hl : Len n a) : Len n (auxStep a o) := by
  obtain ⟨l1, l2, l3, l4, l5, l6, l7, l8, l9⟩ := hl
  unfold auxStep
  by_cases hneg : o.parent < 0
  · simp only [hneg, if_true]; exact ⟨l1, l2, l3, l4, l5, l6, l7, l8, l9⟩
  · simp only [hneg, if_false]
    have ht : ∀ (c : Prop) [Decidable c], (if c then a.totSum.set o.parent.toNat (getN a.totSum o.parent.toNat + o.totalMem)
        else a.totSum).length = n := by intro c _; split <;> simp [l5]
    by_cases hN : isNormal o.type = true
    · simp only [hN, if_true]
      exact ⟨by rw [orInto_len1]; exact l1, by rw [orInto_len2]; exact l2, l3, l4, (by dsimp only; split <;> simp [l5]), by simp [l6], l7, l8, l9⟩
    · have hN' : isNormal o.type = false := by simpa using hN
      by_cases hM : isMemory o.type = true
      · simp only [hN', hM, if_true, if_false, Bool.false_eq_true]
        exact ⟨l1, l2, by rw [orInto_len1]; exact l3, by rw [orInto_len2]; exact l4, (by dsimp only; split <;> simp [l5]), l6, by simp [l7], l8, l9⟩
      · have hM' : isMemory o.type = false := by simpa using hM
        by_cases hI : isIO o.type = true
        · simp only [hN', hM', hI, if_true, if_false, Bool.false_eq_true]
          exact ⟨l1, l2, l3, l4, (by dsimp only; split <;> simp [l5]), l6, l7, by simp [l8], l9⟩
        · have hI' : isIO o.type = false := by simpa using hI
          simp only [hN', hM', hI', if_false, Bool.false_eq_true]
          exact ⟨l1, l2, l3, l4, (by dsimp only; split <;> simp [l5]), l6, l7, l8, by simp [l9]⟩

theorem insAux_aux0 (n pos : Nat) (hp : pos ≤ n) : insAux pos (aux0 n) = aux0 (n + 1) := by
  simp only [insAux, aux0, insAt_replicate _ _ _ hp]

/-- one step of the first fold, for an object whose parent index is renamed and whose other inputs are unchanged -/
theorem step_sim (n pos : Nat) (a : Aux) (o o' : Obj) (hl : Len n a) (hp : pos ≤ n)
    (e1 : o'.parent = shI pos o.parent) (e2 : o'.type = o.type) (e3 : o'.totalMem = o.totalMem)
    (e4 : o'.cpuset = o.cpuset) (e5 : o'.nodeset = o.nodeset) :
    auxStep (insAux pos a) o' = insAux pos (auxStep a o) := by
  obtain ⟨l1, l2, l3, l4, l5, l6, l7, l8, l9⟩ := hl
  unfold auxStep
  rw [e1, e2, e3, e4, e5]
  by_cases hneg : o.parent < 0
  · have : shI pos o.parent < 0 := by rw [shI_neg pos _ hneg]; exact hneg
    simp only [hneg, this, if_true]
  · have h2 : ¬ (shI pos o.parent < 0) := by have := shI_nonneg pos o.parent; omega
    have et : (shI pos o.parent).toNat = shN pos o.parent.toNat := shI_toNat pos _ (by omega)
    simp only [hneg, h2, if_false, et]
    by_cases hN : isNormal o.type = true
    · simp only [hN, if_true, Bool.true_or, insAux, getN_insAt _ pos _ (l5 ▸ hp), getN_insAt _ pos _ (l6 ▸ hp),
        insAt_set _ pos _ _ _ (l5 ▸ hp), insAt_set _ pos _ _ _ (l6 ▸ hp),
        orInto_insAt _ _ pos _ _ (l1 ▸ hp) (l2 ▸ hp)]
    · have hN' : isNormal o.type = false := by simpa using hN
      by_cases hM : isMemory o.type = true
      · simp only [hN', hM, if_true, if_false, Bool.or_true, Bool.false_eq_true, insAux, getN_insAt _ pos _ (l5 ▸ hp), getN_insAt _ pos _ (l7 ▸ hp),
          insAt_set _ pos _ _ _ (l5 ▸ hp), insAt_set _ pos _ _ _ (l7 ▸ hp),
          orInto_insAt _ _ pos _ _ (l3 ▸ hp) (l4 ▸ hp)]
      · have hM' : isMemory o.type = false := by simpa using hM
        by_cases hI : isIO o.type = true
        · simp only [hN', hM', hI, if_true, if_false, Bool.false_eq_true, Bool.or_self, insAux, getN_insAt _ pos _ (l8 ▸ hp),
            insAt_set _ pos _ _ _ (l8 ▸ hp)]
        · have hI' : isIO o.type = false := by simpa using hI
          simp only [hN', hM', hI', if_false, Bool.false_eq_true, Bool.or_self, insAux, getN_insAt _ pos _ (l9 ▸ hp),
            insAt_set _ pos _ _ _ (l9 ▸ hp)]

def bumpMisc (p : Nat) (a : Aux) : Aux := { a with nMisc := a.nMisc.set p (getN a.nMisc p + 1) }

theorem len_bump (n p : Nat) (a : Aux) (hl : Len n a) : Len n (bumpMisc p a) := by
  obtain ⟨l1, l2, l3, l4, l5, l6, l7, l8, l9⟩ := hl
  exact ⟨l1, l2, l3, l4, l5, l6, l7, l8, by simp [bumpMisc, l9]⟩

theorem getN_set_ne (X : List Nat) (i j v : Nat) (hne : i ≠ j) : getN (X.set i v) j = getN X j := by
  unfold getN; rw [List.getElem?_set_ne hne]

/-- counting the new Misc child commutes with the other steps -/
theorem bump_comm (p : Nat) (a : Aux) (o : Obj) : auxStep (bumpMisc p a) o = bumpMisc p (auxStep a o) := by
  unfold auxStep
  by_cases hneg : o.parent < 0
  · simp only [hneg, if_true]
  · simp only [hneg, if_false]
    by_cases hN : isNormal o.type = true
    · simp only [hN, if_true]; rfl
    · have hN' : isNormal o.type = false := by simpa using hN
      by_cases hM : isMemory o.type = true
      · simp only [hN', hM, if_true, if_false, Bool.false_eq_true]; rfl
      · have hM' : isMemory o.type = false := by simpa using hM
        by_cases hI : isIO o.type = true
        · simp only [hN', hM', hI, if_true, if_false, Bool.false_eq_true]; rfl
        · have hI' : isIO o.type = false := by simpa using hI
          simp only [hN', hM', hI', if_false, Bool.false_eq_true, bumpMisc]
          by_cases hq : o.parent.toNat = p
          · rw [hq]
          · have hq' : p ≠ o.parent.toNat := fun e => hq e.symm
            rw [getN_set_ne _ _ _ _ hq', getN_set_ne _ _ _ _ hq, List.set_comm _ _ hq']

/-- the step of the new object -/
theorem step_new (n pos p : Nat) (a : Aux) (o' : Obj) (hl : Len n a) (hpos : pos ≤ n) (hp : p < pos)
    (e1 : o'.parent = (p : Int)) (e2 : o'.type = tMISC) :
    auxStep (insAux pos a) o' = insAux pos (bumpMisc p a) := by
  unfold auxStep
  rw [e1, e2]
  have h0 : ¬ ((p : Int) < 0) := by omega
  have hN : isNormal tMISC = false := by decide
  have hM : isMemory tMISC = false := by decide
  have hI : isIO tMISC = false := by decide
  have ep : (p : Int).toNat = shN pos p := by rw [shN_of_lt pos p hp]; omega
  simp only [h0, if_false, hN, hM, hI, Bool.false_eq_true, Bool.or_self, ep, insAux, bumpMisc,
    getN_insAt _ pos _ (hl.l9 ▸ hpos), insAt_set _ pos _ _ _ (hl.l9 ▸ hpos)]

section
variable (d : Dump) (p pos k : Nat) (name : Option String) (skip : Nat)
local notation "U" => upd p pos k (lastId d p)
local notation "NEW" => newObj d p pos k name skip

theorem fold_sim (n : Nat) (hpos : pos ≤ n) (l : List Obj) : ∀ (a : Aux), Len n a →
    List.foldl auxStep (insAux pos a) (l.map U) = insAux pos (List.foldl auxStep a l) ∧ Len n (List.foldl auxStep a l) := by
  induction l with
  | nil => intro a hl; exact ⟨rfl, hl⟩
  | cons o l ih =>
    intro a hl
    simp only [List.map_cons, List.foldl_cons]
    rw [step_sim n pos a o (U o) hl hpos rfl rfl rfl rfl rfl]
    exact ih _ (len_step n a o hl)

theorem fold_bump (l : List Obj) : ∀ (a : Aux), List.foldl auxStep (bumpMisc p a) l = bumpMisc p (List.foldl auxStep a l) := by
  induction l with
  | nil => intro a; rfl
  | cons o l ih => intro a; simp only [List.foldl_cons]; rw [bump_comm, ih]

theorem objs_after_split : (after d p pos k name skip).objs =
    (d.objs.take pos).map U ++ NEW :: (d.objs.drop pos).map U := by
  show insAt (d.objs.map U) pos NEW = _
  unfold insAt
  rw [List.map_take, List.map_drop]

/-- the first fold after the call -/
theorem fold1_after (hp : p < pos) (hpos : pos ≤ d.objs.length) :
    List.foldl auxStep (aux0 (d.objs.length + 1)) (after d p pos k name skip).objs =
      insAux pos (bumpMisc p (List.foldl auxStep (aux0 d.objs.length) d.objs)) ∧
    Len d.objs.length (List.foldl auxStep (aux0 d.objs.length) d.objs) := by
  have hsplit : d.objs = d.objs.take pos ++ d.objs.drop pos := (List.take_append_drop pos d.objs).symm
  rw [objs_after_split, ← insAux_aux0 _ pos hpos, List.foldl_append, List.foldl_cons]
  obtain ⟨f1, l1⟩ := fold_sim d p pos k d.objs.length hpos (d.objs.take pos) _ (len_aux0 _)
  rw [f1, step_new d.objs.length pos p _ NEW l1 hpos hp rfl rfl]
  obtain ⟨f2, l2⟩ := fold_sim d p pos k d.objs.length hpos (d.objs.drop pos) _ (len_bump _ p _ l1)
  rw [f2, fold_bump]
  constructor
  · congr 2
    rw [← List.foldl_append, List.take_append_drop]
  · have := (fold_sim d p pos k d.objs.length hpos d.objs _ (len_aux0 _)).2
    exact this

end

/-! ### the inherited-nodes fold and the nodes-below fold -/

theorem inh_sim (pos : Nat) (M I : List Nat) (o o' : Obj) (hM : pos ≤ M.length) (hI : pos ≤ I.length)
    (e1 : o'.parent = shI pos o.parent) (e2 : o'.type = o.type) (e3 : o'.id = shN pos o.id) :
    inhStep (insAt M pos 0) (insAt I pos 0) o' = insAt (inhStep M I o) pos 0 := by
  unfold inhStep
  rw [e1, e2, e3]
  have e0 : decide (0 ≤ shI pos o.parent) = decide (0 ≤ o.parent) := by
    have := shI_nonneg pos o.parent
    by_cases h : 0 ≤ o.parent
    · simp [h, this.2 h]
    · have h' : ¬ 0 ≤ shI pos o.parent := fun x => h (this.1 x)
      simp [h, h']
  rw [e0]
  by_cases hc : (isNormal o.type && decide (0 ≤ o.parent)) = true
  · have hge : 0 ≤ o.parent := by simp only [Bool.and_eq_true, decide_eq_true_eq] at hc; exact hc.2
    simp only [hc, if_true, shI_toNat pos _ hge, getN_insAt _ pos _ hM, getN_insAt _ pos _ hI, insAt_set _ pos _ _ _ hI]
  · simp only [hc, Bool.false_eq_true, if_false]

theorem inh_len (M I : List Nat) (o : Obj) : (inhStep M I o).length = I.length := by
  unfold inhStep; split <;> simp

theorem below_sim (pos : Nat) (M A : List Nat) (B : List Bool) (o o' : Obj) (hM : pos ≤ M.length) (hA : pos ≤ A.length)
    (hB : pos ≤ B.length) (e1 : o'.parent = shI pos o.parent) (e2 : o'.type = o.type) (e3 : o'.id = shN pos o.id) :
    belowStep (insAt M pos 0) o' (insAt A pos 0, insAt B pos true) =
      (insAt (belowStep M o (A, B)).1 pos 0, insAt (belowStep M o (A, B)).2 pos true) := by
  unfold belowStep
  rw [e1, e2, e3]
  by_cases hN : isNormal o.type = true
  · simp only [hN, if_true, getN_insAt _ pos _ hM, orInto_insAt A B pos _ _ hA hB]
    have hA' : pos ≤ (orInto (A, B) o.id (getN M o.id)).1.length := by rw [orInto_len1]; exact hA
    have hB' : pos ≤ (orInto (A, B) o.id (getN M o.id)).2.length := by rw [orInto_len2]; exact hB
    by_cases hge : 0 ≤ o.parent
    · have hge' : 0 ≤ shI pos o.parent := (shI_nonneg pos _).2 hge
      simp only [hge, hge', if_true, shI_toNat pos _ hge, getN_insAt _ pos _ hA']
      exact orInto_insAt _ _ pos _ _ hA' hB'
    · have hge' : ¬ 0 ≤ shI pos o.parent := fun x => hge ((shI_nonneg pos _).1 x)
      simp only [hge, hge', if_false]
  · simp only [hN, Bool.false_eq_true, if_false]

theorem below_len (M : List Nat) (o : Obj) (acc : List Nat × List Bool) :
    (belowStep M o acc).1.length = acc.1.length ∧ (belowStep M o acc).2.length = acc.2.length := by
  unfold belowStep
  split
  · simp only
    split
    · simp only [orInto_len1, orInto_len2, and_self]
    · simp only [orInto_len1, orInto_len2, and_self]
  · exact ⟨rfl, rfl⟩

section
variable (d : Dump) (p pos k : Nat) (name : Option String) (skip : Nat)
local notation "U" => upd p pos k (lastId d p)
local notation "NEW" => newObj d p pos k name skip

theorem inh_fold_sim (M : List Nat) (hM : pos ≤ M.length) (l : List Obj) : ∀ (I : List Nat), pos ≤ I.length →
    List.foldl (inhStep (insAt M pos 0)) (insAt I pos 0) (l.map U) = insAt (List.foldl (inhStep M) I l) pos 0 ∧
    (List.foldl (inhStep M) I l).length = I.length := by
  induction l with
  | nil => intro I _; exact ⟨rfl, rfl⟩
  | cons o l ih =>
    intro I hI
    simp only [List.map_cons, List.foldl_cons]
    rw [inh_sim pos M I o (U o) hM hI rfl rfl rfl]
    obtain ⟨a, b⟩ := ih (inhStep M I o) (by rw [inh_len]; exact hI)
    exact ⟨a, by rw [b, inh_len]⟩

theorem below_fold_sim (M : List Nat) (hM : pos ≤ M.length) (A : List Nat) (B : List Bool) (hA : pos ≤ A.length) (hB : pos ≤ B.length)
    (l : List Obj) :
    List.foldr (belowStep (insAt M pos 0)) (insAt A pos 0, insAt B pos true) (l.map U) =
      (insAt (List.foldr (belowStep M) (A, B) l).1 pos 0, insAt (List.foldr (belowStep M) (A, B) l).2 pos true) ∧
    (List.foldr (belowStep M) (A, B) l).1.length = A.length ∧ (List.foldr (belowStep M) (A, B) l).2.length = B.length := by
  induction l with
  | nil => exact ⟨rfl, rfl, rfl⟩
  | cons o l ih =>
    simp only [List.map_cons, List.foldr_cons]
    obtain ⟨a, b, c⟩ := ih
    rw [a, below_sim pos M _ _ o (U o) hM (by rw [b]; exact hA) (by rw [c]; exact hB) rfl rfl rfl]
    have := below_len M o (List.foldr (belowStep M) (A, B) l)
    exact ⟨rfl, by rw [this.1, b], by rw [this.2, c]⟩

theorem misc_is_not_normal : isNormal tMISC = false := by decide

theorem inhStep_new (M I : List Nat) : inhStep M I NEW = I := by
  unfold inhStep
  have : isNormal (NEW).type = false := misc_is_not_normal
  simp [this]

theorem belowStep_new (M : List Nat) (acc : List Nat × List Bool) : belowStep M NEW acc = acc := by
  unfold belowStep
  have : isNormal (NEW).type = false := misc_is_not_normal
  simp [this]

/-- **the aggregates after the call** -/
theorem mkAux_after (hp : p < pos) (hpos : pos ≤ d.objs.length) :
    mkAux (after d p pos k name skip) =
      { insAux pos (mkAux d) with nMisc := insAt ((mkAux d).nMisc.set p (getN (mkAux d).nMisc p + 1)) pos 0 } := by
  rw [mkAux_eq, mkAux_eq d]
  simp only [after_length]
  obtain ⟨f1, l1⟩ := fold1_after d p pos k name skip hp hpos
  rw [f1]
  generalize hA : List.foldl auxStep (aux0 d.objs.length) d.objs = A at l1 ⊢
  have eM : (insAux pos (bumpMisc p A)).memOr = insAt A.memOr pos 0 := rfl
  rw [eM]
  have hM : pos ≤ A.memOr.length := by rw [l1.l3]; exact hpos
  have hR : pos ≤ (List.replicate d.objs.length 0).length := by simpa using hpos
  have hRb : pos ≤ (List.replicate d.objs.length true).length := by simpa using hpos
  -- inherited nodes
  have hinh : List.foldl (inhStep (insAt A.memOr pos 0)) (List.replicate (d.objs.length + 1) 0) (after d p pos k name skip).objs =
      insAt (List.foldl (inhStep A.memOr) (List.replicate d.objs.length 0) d.objs) pos 0 := by
    rw [objs_after_split, ← insAt_replicate _ pos 0 hpos, List.foldl_append, List.foldl_cons]
    obtain ⟨a, b⟩ := inh_fold_sim d p pos k A.memOr hM (d.objs.take pos) _ hR
    rw [a, inhStep_new]
    obtain ⟨a2, _⟩ := inh_fold_sim d p pos k A.memOr hM (d.objs.drop pos) _ (by rw [b]; exact hR)
    rw [a2, ← List.foldl_append, List.take_append_drop]
  have hbel : List.foldr (belowStep (insAt A.memOr pos 0)) (List.replicate (d.objs.length + 1) 0, List.replicate (d.objs.length + 1) true)
      (after d p pos k name skip).objs =
      (insAt (List.foldr (belowStep A.memOr) (List.replicate d.objs.length 0, List.replicate d.objs.length true) d.objs).1 pos 0,
       insAt (List.foldr (belowStep A.memOr) (List.replicate d.objs.length 0, List.replicate d.objs.length true) d.objs).2 pos true) := by
    rw [objs_after_split, ← insAt_replicate _ pos 0 hpos, ← insAt_replicate _ pos true hpos, List.foldr_append, List.foldr_cons]
    obtain ⟨a, b, c⟩ := below_fold_sim d p pos k A.memOr hM _ _ hR hRb (d.objs.drop pos)
    rw [a, belowStep_new]
    obtain ⟨a2, _, _⟩ := below_fold_sim d p pos k A.memOr hM _ _ (by rw [b]; exact hR) (by rw [c]; exact hRb) (d.objs.take pos)
    rw [a2, ← List.foldr_append, List.take_append_drop]
  rw [hinh, hbel]
  rfl

end

end Hw.Topo.MiscIns
