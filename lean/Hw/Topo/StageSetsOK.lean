/-
  Hw.Topo.StageSetsOK — the part of the set clauses that survives level merging: `Restrict.okT` (SetsOK: set ⊆ complete set for
  every object, the complete sets of normal / memory children inside the parent's, I/O and Misc subtrees without sets) holds for the
  tree handed to `remove_empty`, is preserved by `remove_empty` and (C08, `ok_keepStructure`) by `hwloc_filter_levels_keep_structure`;
  hence the WF clause `set-in-complete` holds for every object of the rendered dump of the FINAL tree.
-/
import Hw.Topo.StageCompose
import Hw.Topo.RenderLemmas
namespace Hw.Topo.Restrict.Stage
open Hw.Topo Hw.Topo.Restrict Hw.Topo.SetStage

/-- the decoration carries no sets (I/O and Misc objects have NULL sets) -/
def DecoZero (dc : Deco) : Prop :=
  ∀ o : SObj, (∀ x ∈ objsL (dc.ios o), zeroSets x = true) ∧ (∀ x ∈ objsL (dc.mis o), zeroSets x = true)

theorem okT_toTree (dc : Deco) (hz : DecoZero dc) : ∀ s : ST, AllN Post s → okT (toTree dc s) = true := by
  apply ST.ind
  intro o kids mem ihk ihm h
  obtain ⟨⟨cc, cn, hcc, hcn, g1, g2⟩, hk, hm, _⟩ := h.here
  rw [toTree, okT_node, toTreeL_eq, toTreeL_eq]
  refine ⟨?_, ?_, (okL_iff _ _).2 ?_, (okL_iff _ _).2 ?_, (hz o).1, (hz o).2⟩
  · simp only [robj, hcc, Option.getD_some]; exact SetStage.subset_iff.2 g1
  · simp only [robj, hcn, Option.getD_some]; exact SetStage.subset_iff.2 g2
  · intro t ht
    obtain ⟨k, hk', rfl⟩ := List.mem_map.1 ht
    rw [toTree_obj]
    exact ⟨SetStage.subset_iff.2 (hk k hk').2.1, SetStage.subset_iff.2 (hk k hk').2.2.2, ihk k hk' (h.kids k hk')⟩
  · intro t ht
    obtain ⟨m, hm', rfl⟩ := List.mem_map.1 ht
    rw [toTree_obj]
    exact ⟨SetStage.subset_iff.2 (hm m hm').1.2.1, SetStage.subset_iff.2 (hm m hm').1.2.2.2, ihm m hm' (h.mem m hm')⟩

mutual
theorem removeEmptyT_ok : ∀ t : Tree, okT t = true →
    (∀ t' ∈ (removeEmptyT t).kept, okT t' = true ∧ t'.obj = t.obj) ∧ (∀ x ∈ objsL (removeEmptyT t).misc, zeroSets x = true)
  | .node o ns ms ios mis => by
    intro h
    rw [okT_node] at h
    have h1 := removeEmptyL_ok o ns h.2.2.1
    have h2 := removeEmptyL_ok o ms h.2.2.2.1
    have hmis : ∀ x ∈ objsL (mis ++ (removeEmptyL ns).misc ++ (removeEmptyL ms).misc), zeroSets x = true := by
      intro x hx
      rw [objsL_append, objsL_append] at hx
      rcases List.mem_append.1 hx with hx | hx
      · rcases List.mem_append.1 hx with hx | hx
        · exact h.2.2.2.2.2 x hx
        · exact h1.2 x hx
      · exact h2.2 x hx
    rw [removeEmptyT]
    split
    · exact ⟨fun _ ht => by simp at ht, hmis⟩
    · refine ⟨fun t' ht' => ?_, fun x hx => by simp [objsL] at hx⟩
      rw [List.mem_singleton] at ht'
      subst ht'
      exact ⟨(okT_node _ _ _ _ _).2 ⟨h.1, h.2.1, h1.1, h2.1, h.2.2.2.2.1, hmis⟩, rfl⟩
theorem removeEmptyL_ok (par : RObj) : ∀ l : List Tree, okL par l = true →
    okL par (removeEmptyL l).kept = true ∧ (∀ x ∈ objsL (removeEmptyL l).misc, zeroSets x = true)
  | [] => fun _ => by rw [removeEmptyL]; exact ⟨rfl, fun x hx => by simp [objsL] at hx⟩
  | t :: ts => by
    intro h
    rw [okL_cons] at h
    have h1 := removeEmptyT_ok t h.2.2.1
    have h2 := removeEmptyL_ok par ts h.2.2.2
    rw [removeEmptyL]
    refine ⟨okL_append ((okL_iff _ _).2 fun t' ht' => ?_) h2.1, fun x hx => ?_⟩
    · have := h1.1 t' ht'
      exact ⟨by rw [this.2]; exact h.1, by rw [this.2]; exact h.2.1, this.1⟩
    · rw [objsL_append] at hx
      rcases List.mem_append.1 hx with hx | hx
      · exact h1.2 x hx
      · exact h2.2 x hx
end

/-- **remove_empty preserves SetsOK** -/
theorem removeEmpty_ok (t t' : Tree) (h : removeEmpty t = some t') (hok : okT t = true) : okT t' = true := by
  unfold removeEmpty at h
  cases hk : (removeEmptyT t).kept with
  | nil => rw [hk] at h; simp at h
  | cons x xs =>
    rw [hk] at h
    simp only [List.head?_cons, Option.some.injEq] at h
    subst h
    exact ((removeEmptyT_ok t hok).1 x (by rw [hk]; exact List.mem_cons_self)).1

/-! ### from SetsOK of a tree to the clause `set-in-complete` of its dump -/

def setOk (x : RObj) : Bool := subset x.cpuset x.ccpuset && subset x.nodeset x.cnodeset

theorem setOk_of_zero (x : RObj) (h : zeroSets x = true) : setOk x = true := by
  unfold zeroSets at h
  simp only [Bool.and_eq_true, beq_iff_eq] at h
  unfold setOk
  rw [h.1.1.1, h.1.1.2, h.1.2, h.2]
  decide

theorem okT_objs :
    (∀ t, okT t = true → ∀ x ∈ objsT t, setOk x = true) ∧
    (∀ l, ∀ par : RObj, okL par l = true → ∀ x ∈ objsL l, setOk x = true) := by
  have hnode : ∀ o ns ms ios mis, (∀ par : RObj, okL par ns = true → ∀ x ∈ objsL ns, setOk x = true) →
      (∀ par : RObj, okL par ms = true → ∀ x ∈ objsL ms, setOk x = true) →
      (okT (.node o ns ms ios mis) = true → ∀ x ∈ objsT (.node o ns ms ios mis), setOk x = true) := by
    intro o ns ms ios mis h1 h2 hok x hx
    rw [okT_node] at hok
    rw [objsT] at hx
    simp only [List.mem_cons, List.mem_append] at hx
    rcases hx with rfl | ((hx | hx) | hx) | hx
    · unfold setOk; rw [hok.1, hok.2.1]; rfl
    · exact h1 o hok.2.2.1 x hx
    · exact h2 o hok.2.2.2.1 x hx
    · exact setOk_of_zero x (hok.2.2.2.2.1 x hx)
    · exact setOk_of_zero x (hok.2.2.2.2.2 x hx)
  have hnil : ∀ par : RObj, okL par [] = true → ∀ x ∈ objsL [], setOk x = true := by
    intro _ _ x hx; simp [objsL] at hx
  have hcons : ∀ t ts, (okT t = true → ∀ x ∈ objsT t, setOk x = true) →
      (∀ par : RObj, okL par ts = true → ∀ x ∈ objsL ts, setOk x = true) →
      (∀ par : RObj, okL par (t :: ts) = true → ∀ x ∈ objsL (t :: ts), setOk x = true) := by
    intro t ts h1 h2 par hok x hx
    rw [okL_cons] at hok
    rw [objsL] at hx
    rcases List.mem_append.1 hx with hx | hx
    · exact h1 hok.2.2.1 x hx
    · exact h2 par hok.2.2.2 x hx
  exact ⟨tree_indT hnode hnil hcons, tree_indL hnode hnil hcons⟩

/-- the object of every occurrence is an object of the tree -/
theorem occs_obj_mem :
    (∀ t, ∀ s par rk pv nx, ∀ oc ∈ occsT s par rk pv nx t, oc.t.obj ∈ objsT t) ∧
    (∀ l, ∀ s par rk pv, ∀ oc ∈ occsL s par rk pv l, oc.t.obj ∈ objsL l) := by
  have hnode : ∀ o ns ms ios mis,
      (∀ s par rk pv, ∀ oc ∈ occsL s par rk pv ns, oc.t.obj ∈ objsL ns) →
      (∀ s par rk pv, ∀ oc ∈ occsL s par rk pv ms, oc.t.obj ∈ objsL ms) →
      (∀ s par rk pv, ∀ oc ∈ occsL s par rk pv ios, oc.t.obj ∈ objsL ios) →
      (∀ s par rk pv, ∀ oc ∈ occsL s par rk pv mis, oc.t.obj ∈ objsL mis) →
      (∀ s par rk pv nx, ∀ oc ∈ occsT s par rk pv nx (.node o ns ms ios mis), oc.t.obj ∈ objsT (.node o ns ms ios mis)) := by
    intro o ns ms ios mis h1 h2 h3 h4 s par rk pv nx oc hoc
    rw [occsT] at hoc
    rw [objsT]
    simp only [List.mem_cons, List.mem_append] at hoc ⊢
    rcases hoc with rfl | ((hoc | hoc) | hoc) | hoc
    · exact Or.inl rfl
    · exact Or.inr (Or.inl (Or.inl (Or.inl (h1 _ _ _ _ oc hoc))))
    · exact Or.inr (Or.inl (Or.inl (Or.inr (h2 _ _ _ _ oc hoc))))
    · exact Or.inr (Or.inl (Or.inr (h3 _ _ _ _ oc hoc)))
    · exact Or.inr (Or.inr (h4 _ _ _ _ oc hoc))
  have hnil : ∀ s par rk pv, ∀ oc ∈ occsL s par rk pv [], oc.t.obj ∈ objsL [] := by
    intro s par rk pv oc h; rw [occsL] at h; simp at h
  have hcons : ∀ t ts, (∀ s par rk pv nx, ∀ oc ∈ occsT s par rk pv nx t, oc.t.obj ∈ objsT t) →
      (∀ s par rk pv, ∀ oc ∈ occsL s par rk pv ts, oc.t.obj ∈ objsL ts) →
      (∀ s par rk pv, ∀ oc ∈ occsL s par rk pv (t :: ts), oc.t.obj ∈ objsL (t :: ts)) := by
    intro t ts h1 h2 s par rk pv oc hoc
    rw [occsL] at hoc
    rw [objsL]
    rcases List.mem_append.1 hoc with h | h
    · exact List.mem_append_left _ (h1 _ _ _ _ _ oc h)
    · exact List.mem_append_right _ (h2 _ _ _ _ oc h)
  exact ⟨tree_ind4T hnode hnil hcons, tree_ind4L hnode hnil hcons⟩

theorem clause_set_in_complete : objClause "set-in-complete" = fun _ _ o =>
    subset (o.cpuset.getD 0) (o.ccpuset.getD 0) && subset (o.nodeset.getD 0) (o.cnodeset.getD 0) := by
  simp only [objClause, objClauses, List.find?, String.reduceBEq]

theorem ro_sets (nl : List (Nat × List Nat)) (os : List Occ) (ex : RObj → Extra) (oc : Occ) :
    (renderObj nl os ex oc).cpuset = optSet oc.t.obj oc.t.obj.cpuset ∧ (renderObj nl os ex oc).ccpuset = optSet oc.t.obj oc.t.obj.ccpuset ∧
    (renderObj nl os ex oc).nodeset = optSet oc.t.obj oc.t.obj.nodeset ∧ (renderObj nl os ex oc).cnodeset = optSet oc.t.obj oc.t.obj.cnodeset := by
  cases oc with | mk a b c d e t => cases t; exact ⟨rfl, rfl, rfl, rfl⟩

/-- **WF clause `set-in-complete` of the dump of any SetsOK tree** -/
theorem render_set_in_complete (t : Tree) (hok : okT t = true) (h : Hdr) (ex : RObj → Extra)
    (o : Obj) (ho : o ∈ (render t h ex).objs) :
    objClause "set-in-complete" (render t h ex) (mkAux (render t h ex)) o = true := by
  rw [clause_set_in_complete]
  obtain ⟨oc, hoc, rfl⟩ := render_mem t h ex o ho
  have hs := okT_objs.1 t hok _ (occs_obj_mem.1 t 0 (-1) 0 (-1) (-1) oc hoc)
  unfold setOk at hs
  simp only [Bool.and_eq_true] at hs
  obtain ⟨e1, e2, e3, e4⟩ := ro_sets (normalLevels t) (occs t) ex oc
  simp only [rObj, e1, e2, e3, e4, optSet]
  cases oc.t.obj.hasSets
  · simp only [Bool.false_eq_true, if_false, Option.getD_none]; decide
  · simp only [if_true, Option.getD_some, hs.1, hs.2, Bool.and_self]

end Hw.Topo.Restrict.Stage
