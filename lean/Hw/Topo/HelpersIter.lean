/-
  Hw.Topo.HelpersIter — correctness of the level iterators (inside / covering a cpuset), the
  cpuset <-> nodeset conversions, the same-locality lookup and the type <-> depth lookups, on a dump
  satisfying `Tree`.
-/
import Hw.Topo.HelpersBasic
namespace Hw.Topo

/-! ### levels: access lemmas -/

theorem level_cases (d : Dump) (depth : Int) :
    (∃ l ∈ d.levels, l.depth = depth) ∨ (∀ l ∈ d.levels, l.depth ≠ depth) := by
  by_cases h : ∃ l ∈ d.levels, l.depth = depth
  · exact Or.inl h
  · refine Or.inr ?_
    intro l hl hd
    exact h ⟨l, hl, hd⟩

/-- everything `T_levels` says about entry `i` of a level -/
theorem Tree.level_entry {d : Dump} (ht : Tree d) {l : Level} (hl : l ∈ d.levels) {depth : Int}
    (hd : l.depth = depth) {i : Nat} {o : Obj} (h : (levelObjs d depth)[i]? = some o) :
    o ∈ d.objs ∧ o.depth = depth ∧ o.lidx = i ∧ (o.type : Int) = l.type ∧
    d.obj? o.nextCousin = (levelObjs d depth)[i + 1]? ∧
    d.obj? o.prevCousin = (if i = 0 then none else (levelObjs d depth)[i - 1]?) := by
  subst hd
  have := (ht.levels.2 l hl).2 (o, i) (List.mem_zipIdx_iff_getElem?.2 h)
  exact this

theorem Tree.level_length {d : Dump} (ht : Tree d) {l : Level} (hl : l ∈ d.levels) {depth : Int}
    (hd : l.depth = depth) : (levelObjs d depth).length = l.objs.length := by
  subst hd
  exact (ht.levels.2 l hl).1

theorem Tree.level_length_lt_fuel {d : Dump} (ht : Tree d) (depth : Int) :
    (levelObjs d depth).length < d.fuel := by
  rcases level_cases d depth with ⟨l, hl, hd⟩ | h
  · rw [ht.level_length hl hd]
    have := ht.sizes.2.1 l hl
    unfold Dump.fuel
    omega
  · rw [ht.levelObjs_nil h]
    unfold Dump.fuel
    simp

theorem Tree.cousinsFrom_level' {d : Dump} (ht : Tree d) {l : Level} (hl : l ∈ d.levels) {depth : Int}
    (hd : l.depth = depth) (i : Nat) :
    cousinsFrom d ((levelObjs d depth)[i]?) = (levelObjs d depth).drop i := by
  subst hd
  exact ht.cousinsFrom_level hl i

theorem cousinsFrom_none (d : Dump) : cousinsFrom d none = [] := by
  unfold cousinsFrom
  rw [chain.eq_1]

theorem prevCousinsFrom_none (d : Dump) : prevCousinsFrom d none = [] := by
  unfold prevCousinsFrom
  rw [chain.eq_1]

/-- `cousinsFrom (first object of the level)` is the whole level -/
theorem Tree.cousinsFrom_first {d : Dump} (ht : Tree d) (depth : Int) :
    cousinsFrom d (objByDepth d depth 0) = levelObjs d depth := by
  unfold objByDepth
  rcases level_cases d depth with ⟨l, hl, hd⟩ | h
  · rw [ht.cousinsFrom_level' hl hd 0]
    simp
  · rw [ht.levelObjs_nil h]
    simp [cousinsFrom_none]

/-! ### A. the generic filtered level iterator -/

theorem Tree.iter_find_aux {d : Dump} (ht : Tree d) (ok : Obj → Bool) {l : Level} (hl : l ∈ d.levels)
    {depth : Int} (hd : l.depth = depth) :
    ∀ (f i : Nat) (prev : Option Obj),
      (((levelObjs d depth).drop i).filter ok).length < f →
      nextByDepth d depth prev = (levelObjs d depth)[i]? →
      iterNext (fun prev => (cousinsFrom d (nextByDepth d depth prev)).find? ok) f prev
        = ((levelObjs d depth).drop i).filter ok := by
  intro f
  induction f with
  | zero => intro i prev h; omega
  | succ f ih =>
    intro i prev hlen hnext
    rw [iterNext]
    simp only [hnext, ht.cousinsFrom_level' hl hd i]
    cases hf : ((levelObjs d depth).drop i).find? ok with
    | none =>
      simp only
      rw [List.find?_eq_none] at hf
      symm
      rw [List.filter_eq_nil_iff]
      exact hf
    | some o =>
      simp only
      obtain ⟨hok, as, bs, happ, has⟩ := List.find?_eq_some_iff_append.1 hf
      have hget : (levelObjs d depth)[i + as.length]? = some o := by
        rw [← List.getElem?_drop, happ]
        simp
      have hbs : (levelObjs d depth).drop (i + (as.length + 1)) = bs := by
        rw [← List.drop_drop, happ]
        simp
      have hfas : as.filter ok = [] := by
        rw [List.filter_eq_nil_iff]
        intro a ha
        have := has a ha
        simpa using this
      have hfilt : ((levelObjs d depth).drop i).filter ok = o :: bs.filter ok := by
        rw [happ, List.filter_append, hfas, List.filter_cons, if_pos hok]
        rfl
      obtain ⟨_, hod, _, _, hnc, _⟩ := ht.level_entry hl hd hget
      have hnext' : nextByDepth d depth (some o) = (levelObjs d depth)[i + (as.length + 1)]? := by
        simp only [nextByDepth, hod, bne_self_eq_false, Bool.false_eq_true, if_false]
        rw [hnc]
        rfl
      rw [hfilt] at hlen ⊢
      have hlen' : (((levelObjs d depth).drop (i + (as.length + 1))).filter ok).length < f := by
        rw [hbs]
        simp at hlen
        omega
      rw [ih (i + (as.length + 1)) (some o) hlen' hnext', hbs]

/-- A. iterating "first `ok` cousin from the next object of the level" enumerates the `ok` objects of the
    level, in order -/
theorem Tree.iter_find {d : Dump} (ht : Tree d) (ok : Obj → Bool) (depth : Int) :
    iterNext (fun prev => (cousinsFrom d (nextByDepth d depth prev)).find? ok) d.fuel none
      = (levelObjs d depth).filter ok := by
  rcases level_cases d depth with ⟨l, hl, hd⟩ | h
  · have hlen : (((levelObjs d depth).drop 0).filter ok).length < d.fuel := by
      have h1 := ht.level_length_lt_fuel depth
      have h2 := List.length_filter_le ok (levelObjs d depth)
      simp only [List.drop_zero]
      omega
    have := ht.iter_find_aux ok hl hd d.fuel 0 none hlen (by simp [nextByDepth, objByDepth])
    simpa using this
  · have hnil := ht.levelObjs_nil h
    rw [hnil]
    unfold Dump.fuel
    rw [iterNext]
    simp [nextByDepth, objByDepth, hnil, cousinsFrom_none]

/-! ### B. objects inside a cpuset -/

theorem iter_inside {d : Dump} (ht : Tree d) (S : Nat) (depth : Int) :
    iterNext (nextInsideByDepth d S depth) d.fuel none = (levelObjs d depth).filter (insideOk S) :=
  ht.iter_find (insideOk S) depth

theorem nbobjs_inside {d : Dump} (ht : Tree d) (S : Nat) (depth : Int) :
    nbobjsInsideByDepth d S depth = ((levelObjs d depth).filter (insideOk S)).length := by
  unfold nbobjsInsideByDepth
  rw [ht.cousinsFrom_first, List.countP_eq_length_filter]

theorem obj_inside {d : Dump} (ht : Tree d) (S : Nat) (depth : Int) (idx : Nat) :
    objInsideByDepth d S depth idx = ((levelObjs d depth).filter (insideOk S))[idx]? := by
  unfold objInsideByDepth
  rw [ht.cousinsFrom_first]

/-! ### C. objects covering (intersecting) a cpuset -/

theorem iter_covering {d : Dump} (ht : Tree d) (S : Nat) (depth : Int) :
    iterNext (nextCoveringByDepth d S depth) d.fuel none = (levelObjs d depth).filter (coverOk S) :=
  ht.iter_find (coverOk S) depth

/-! ### type <-> depth -/

theorem specialDepth_cases {t : Nat} {sd : Int} (h : specialDepth t = some sd) :
    (t = tNUMA ∧ sd = -3) ∨ (t = tBRIDGE ∧ sd = -4) ∨ (t = tPCI ∧ sd = -5) ∨ (t = tOSDEV ∧ sd = -6) ∨
    (t = tMISC ∧ sd = -7) ∨ (t = tMEMCACHE ∧ sd = -8) := by
  unfold specialDepth at h
  repeat' split at h
  all_goals simp_all
  all_goals omega

theorem specialDepth_inj {a b : Nat} {sd : Int} (ha : specialDepth a = some sd) (hb : specialDepth b = some sd) :
    a = b := by
  have h1 := specialDepth_cases ha
  have h2 := specialDepth_cases hb
  omega

theorem specialDepth_lt {t : Nat} {sd : Int} (h : specialDepth t = some sd) : t < tMAX ∧ sd ≤ -3 := by
  have h1 := specialDepth_cases h
  simp only [tNUMA, tBRIDGE, tPCI, tOSDEV, tMISC, tMEMCACHE, tMAX] at *
  omega

theorem typeDepth_range {d : Dump} {t : Int} (h : typeDepth d t ≠ depthUnknown) : 0 ≤ t ∧ t < (tMAX : Int) := by
  unfold typeDepth at h
  split at h
  · assumption
  · exact absurd rfl h

theorem Tree.typeDepth_special {d : Dump} (ht : Tree d) {t : Nat} {sd : Int} (h : specialDepth t = some sd) :
    typeDepth d (t : Int) = sd := by
  have hlt := (specialDepth_lt h).1
  have := ht.typedepth.2.2.2.2.1 t (List.mem_range.2 hlt)
  rw [h] at this
  exact this

theorem Tree.typeDepth_le_neg3 {d : Dump} (ht : Tree d) {t : Int} (h : typeDepth d t ≤ -3) :
    specialDepth t.toNat = some (typeDepth d t) := by
  have hr := typeDepth_range (d := d) (t := t) (by unfold depthUnknown; omega)
  have := ht.typedepth.2.2.2.2.1 t.toNat (List.mem_range.2 (by omega))
  have ht' : ((t.toNat : Nat) : Int) = t := by omega
  rw [ht'] at this
  cases hs : specialDepth t.toNat with
  | none => rw [hs] at this; simp only at this; omega
  | some sd => rw [hs] at this; simp only at this; rw [this]

/-- an object of negative depth lives in the special level of its type -/
theorem Tree.neg_depth_special {d : Dump} (ht : Tree d) {o : Obj} (ho : o ∈ d.objs) (hneg : o.depth < 0) :
    specialDepth o.type = some o.depth := by
  obtain ⟨⟨l, hl, hd⟩, hself⟩ := ht.inlevel o ho
  obtain ⟨_, _, _, hty, _, _⟩ := ht.level_entry hl hd hself
  obtain ⟨h1, h2⟩ := ht.typedepth.2.2.2.2.2.2 l hl (by omega)
  have h3 : l.type.toNat = o.type := by omega
  rw [← h3, ← hd]
  exact h1

/-- the depth of an object is the depth of its type (or its type has several levels: depth "multiple") -/
theorem Tree.depth_of_type {d : Dump} (ht : Tree d) {o : Obj} (ho : o ∈ d.objs) :
    typeDepth d (o.type : Int) = o.depth ∨ typeDepth d (o.type : Int) = depthMultiple := by
  obtain ⟨⟨l, hl, hd⟩, hself⟩ := ht.inlevel o ho
  obtain ⟨_, _, _, hty, _, _⟩ := ht.level_entry hl hd hself
  by_cases hneg : o.depth < 0
  · left; exact ht.typeDepth_special (ht.neg_depth_special ho hneg)
  · obtain ⟨_, _, _, _, h⟩ := ht.typedepth.2.1 l hl (by omega)
    rw [← hty, hd] at h
    exact h

/-- the type of an object at the depth of type `t` is `t` -/
theorem Tree.type_of_depth {d : Dump} (ht : Tree d) {o : Obj} (ho : o ∈ d.objs) {t : Int}
    (h : o.depth = typeDepth d t) : (o.type : Int) = t := by
  by_cases hneg : o.depth < 0
  · have h1 := ht.neg_depth_special ho hneg
    have h2 := (specialDepth_lt h1).2
    have h3 := ht.typeDepth_le_neg3 (t := t) (by omega)
    rw [← h] at h3
    have := specialDepth_inj h1 h3
    have hr := typeDepth_range (d := d) (t := t) (by unfold depthUnknown; omega)
    omega
  · have hr := typeDepth_range (d := d) (t := t) (by unfold depthUnknown; omega)
    have ht' : ((t.toNat : Nat) : Int) = t := by omega
    obtain ⟨l, hl, hld, hlt⟩ := ht.typedepth.2.2.2.1 t.toNat (List.mem_range.2 (by omega)) (by rw [ht']; omega)
    rw [ht'] at hld hlt
    have hself := ht.levelObjs_self ho
    obtain ⟨_, _, _, hty, _, _⟩ := ht.level_entry hl (hld.trans h.symm) hself
    rw [hty, hlt]

theorem Tree.typeDepth_numa {d : Dump} (ht : Tree d) : typeDepth d (tNUMA : Int) = -3 :=
  ht.typeDepth_special (by simp [specialDepth])

/-- NUMA nodes are exactly the objects of depth -3 -/
theorem Tree.numa_iff {d : Dump} (ht : Tree d) {o : Obj} (ho : o ∈ d.objs) : o.type = tNUMA ↔ o.depth = -3 := by
  constructor
  · intro h; exact ((ht.depth o ho).2.2.2.2.2 h).2.2
  · intro h
    have := ht.type_of_depth ho (t := (tNUMA : Int)) (by rw [ht.typeDepth_numa, h])
    omega

/-! ### F. cpuset <-> nodeset -/

theorem testBit_foldl_or {α : Type} (f : α → Nat) (l : List α) (a i : Nat) :
    (l.foldl (fun acc o => acc ||| f o) a).testBit i = (a.testBit i || l.any (fun o => (f o).testBit i)) := by
  induction l generalizing a with
  | nil => simp
  | cons x xs ih => simp [ih, Nat.testBit_or, Bool.or_assoc]

theorem testBit_foldl_or_if {α : Type} (c : α → Bool) (f : α → Nat) (l : List α) (a i : Nat) :
    (l.foldl (fun acc o => if c o then acc ||| f o else acc) a).testBit i
      = (a.testBit i || l.any (fun o => c o && (f o).testBit i)) := by
  induction l generalizing a with
  | nil => simp
  | cons x xs ih =>
    by_cases hc : c x = true
    · simp [ih, hc, Nat.testBit_or, Bool.or_assoc]
    · simp [ih, hc]

theorem nodeset_conv_to {d : Dump} (ht : Tree d) (S i : Nat) :
    (cpusetToNodeset d S).testBit i = true ↔
      ∃ o ∈ d.objs, o.type = tNUMA ∧ o.osidx = (i : Int) ∧ intersects S (cs o) = true := by
  unfold cpusetToNodeset
  simp only [ht.typeDepth_numa]
  rw [iter_covering ht, testBit_foldl_or]
  simp only [Nat.zero_testBit, Bool.false_or, List.any_eq_true, List.mem_filter, testBit_single,
    decide_eq_true_eq, coverOk]
  constructor
  · rintro ⟨o, ⟨hmem, hcov⟩, hbit⟩
    obtain ⟨ho, hd⟩ := ht.mem_levelObjs.1 hmem
    have hty := (ht.numa_iff ho).2 hd
    have := ((ht.depth o ho).2.2.2.2.2 hty).1
    exact ⟨o, ho, hty, by omega, hcov⟩
  · rintro ⟨o, ho, hty, hos, hcov⟩
    exact ⟨o, ⟨ht.mem_levelObjs.2 ⟨ho, (ht.numa_iff ho).1 hty⟩, hcov⟩, by omega⟩

theorem nodeset_conv_to_brute {d : Dump} (ht : Tree d) (S : Nat) :
    cpusetToNodeset d S = bruteCpusetToNodeset d S := by
  apply Nat.eq_of_testBit_eq
  intro i
  rw [Bool.eq_iff_iff, nodeset_conv_to ht]
  unfold bruteCpusetToNodeset
  rw [testBit_orAll]
  simp only [List.any_eq_true, List.mem_map, List.mem_filter, Bool.and_eq_true, beq_iff_eq]
  constructor
  · rintro ⟨o, ho, hty, hos, hcov⟩
    exact ⟨_, ⟨o, ⟨ho, hty, hcov⟩, rfl⟩, by rw [testBit_single]; simp; omega⟩
  · rintro ⟨_, ⟨o, ⟨ho, hty, hcov⟩, rfl⟩, hbit⟩
    rw [testBit_single] at hbit
    have := ((ht.depth o ho).2.2.2.2.2 hty).1
    simp at hbit
    exact ⟨o, ho, hty, by omega, hcov⟩

theorem nodeset_conv_from {d : Dump} (ht : Tree d) (N i : Nat) :
    (cpusetFromNodeset d N).testBit i = true ↔
      ∃ o ∈ d.objs, o.type = tNUMA ∧ N.testBit o.osidx.toNat = true ∧ (cs o).testBit i = true := by
  unfold cpusetFromNodeset
  simp only [ht.typeDepth_numa]
  rw [ht.iterNext_nextByDepth, testBit_foldl_or_if (fun o => N.testBit o.osidx.toNat) cs]
  simp only [Nat.zero_testBit, Bool.false_or, List.any_eq_true, Bool.and_eq_true]
  constructor
  · rintro ⟨o, hmem, hN, hbit⟩
    obtain ⟨ho, hd⟩ := ht.mem_levelObjs.1 hmem
    exact ⟨o, ho, (ht.numa_iff ho).2 hd, hN, hbit⟩
  · rintro ⟨o, ho, hty, hN, hbit⟩
    exact ⟨o, ht.mem_levelObjs.2 ⟨ho, (ht.numa_iff ho).1 hty⟩, hN, hbit⟩

theorem nodeset_conv_from_brute {d : Dump} (ht : Tree d) (N : Nat) :
    cpusetFromNodeset d N = bruteCpusetFromNodeset d N := by
  apply Nat.eq_of_testBit_eq
  intro i
  rw [Bool.eq_iff_iff, nodeset_conv_from ht]
  unfold bruteCpusetFromNodeset
  rw [testBit_orAll]
  simp only [List.any_eq_true, List.mem_map, List.mem_filter, Bool.and_eq_true, beq_iff_eq]
  constructor
  · rintro ⟨o, ho, hty, hN, hbit⟩
    exact ⟨_, ⟨o, ⟨ho, hty, hN⟩, rfl⟩, hbit⟩
  · rintro ⟨_, ⟨o, ⟨ho, hty, hN⟩, rfl⟩, hbit⟩
    exact ⟨o, ho, hty, hN, hbit⟩

/-! ### H. type <-> depth inverses -/

theorem Tree.level_head {d : Dump} (ht : Tree d) {l : Level} (hl : l ∈ d.levels) (hne : l.objs ≠ []) :
    ∃ o, (levelObjs d l.depth).head? = some o ∧ (o.type : Int) = l.type := by
  have hlen := ht.level_length hl rfl
  cases hL : levelObjs d l.depth with
  | nil =>
    rw [hL] at hlen
    exact absurd (List.eq_nil_of_length_eq_zero hlen.symm) hne
  | cons o rest =>
    have hget : (levelObjs d l.depth)[0]? = some o := by rw [hL]; rfl
    obtain ⟨_, _, _, hty, _, _⟩ := ht.level_entry hl rfl hget
    exact ⟨o, rfl, hty⟩

/-- H(a): a type with a single normal depth is the type of that depth (no range hypothesis needed: an
    out-of-range type has depth "unknown" = -1) -/
theorem type_depth_inverse_a {d : Dump} (ht : Tree d) (t : Int) (h : 0 ≤ typeDepth d t) :
    depthType d (typeDepth d t) = t := by
  have hr := typeDepth_range (d := d) (t := t) (by unfold depthUnknown; omega)
  have ht' : ((t.toNat : Nat) : Int) = t := by omega
  obtain ⟨l, hl, hld, hlt⟩ := ht.typedepth.2.2.2.1 t.toNat (List.mem_range.2 (by omega)) (by rw [ht']; omega)
  rw [ht'] at hld hlt
  obtain ⟨hlt2, _, _, hne, _⟩ := ht.typedepth.2.1 l hl (by omega)
  obtain ⟨o, hhead, hty⟩ := ht.level_head hl hne
  rw [← hld]
  unfold depthType
  rw [if_pos ⟨by omega, hlt2⟩, hhead]
  simp only
  rw [hty, hlt]

/-- H(b): special types -/
theorem type_depth_inverse_b {d : Dump} (ht : Tree d) {t : Nat} {sd : Int} (h : specialDepth t = some sd) :
    typeDepth d (t : Int) = sd ∧ depthType d sd = (t : Int) := by
  refine ⟨ht.typeDepth_special h, ?_⟩
  rcases specialDepth_cases h with ⟨rfl, rfl⟩ | ⟨rfl, rfl⟩ | ⟨rfl, rfl⟩ | ⟨rfl, rfl⟩ | ⟨rfl, rfl⟩ | ⟨rfl, rfl⟩
  all_goals simp [depthType]

/-- H(c): the type of a normal depth has that depth, or has several levels (depth "multiple", any normal type) -/
theorem type_depth_inverse_c {d : Dump} (ht : Tree d) {k : Int} (h0 : 0 ≤ k) (hk : k < (d.depth : Int)) :
    typeDepth d (depthType d k) = k ∨ typeDepth d (depthType d k) = depthMultiple := by
  obtain ⟨l, hl, hld⟩ := ht.typedepth.2.2.2.2.2.1 k.toNat (List.mem_range.2 (by omega))
  have hk' : ((k.toNat : Nat) : Int) = k := by omega
  rw [hk'] at hld
  obtain ⟨_, _, _, hne, hor⟩ := ht.typedepth.2.1 l hl (by omega)
  obtain ⟨o, hhead, hty⟩ := ht.level_head hl hne
  have : depthType d k = l.type := by
    unfold depthType
    rw [if_pos ⟨h0, hk⟩, ← hld, hhead]
    exact hty
  rw [this, ← hld]
  exact hor

/-- H(d): a normal type has depth "multiple" iff it has at least two (normal) levels -/
theorem type_depth_multiple_iff {d : Dump} (ht : Tree d) {t : Nat} (ht' : t < tMAX) (hs : specialDepth t = none) :
    typeDepth d (t : Int) = depthMultiple ↔
      2 ≤ (d.levels.filter (fun l => decide (0 ≤ l.depth) && l.type == (t : Int))).length :=
  ht.typedepth.2.2.1 t (List.mem_range.2 ht') hs

/-- H(e): a type with a non-negative type depth has exactly that one normal level -/
theorem type_depth_single {d : Dump} (ht : Tree d) (t : Int) (h : 0 ≤ typeDepth d t) :
    ∀ l ∈ d.levels, 0 ≤ l.depth → l.type = t → l.depth = typeDepth d t := by
  intro l hl hd hty
  obtain ⟨_, _, _, _, hor⟩ := ht.typedepth.2.1 l hl hd
  rw [hty] at hor
  rcases hor with h1 | h1
  · exact h1.symm
  · rw [h1] at h
    simp [depthMultiple] at h

/-! ### G. same locality -/

theorem Tree.iterNext_nextByType {d : Dump} (ht : Tree d) (t : Int) :
    iterNext (nextByType d t) d.fuel none
      = if isSingleDepth (typeDepth d t) = true then levelObjs d (typeDepth d t) else [] := by
  by_cases hs : isSingleDepth (typeDepth d t) = true
  · rw [if_pos hs]
    have : nextByType d t = nextByDepth d (typeDepth d t) := by
      funext prev
      simp [nextByType, hs]
    rw [this, ht.iterNext_nextByDepth]
  · rw [if_neg hs]
    unfold Dump.fuel
    rw [iterNext]
    simp [nextByType, hs]

/-- the candidate test of `hwloc_get_obj_with_same_locality` (normal / memory source) -/
def locMatch (src : Obj) (subtype pre : Option String) (o : Obj) : Bool :=
  o.cpuset == src.cpuset && o.nodeset == src.nodeset && subtypeOk subtype o.subtype && prefixOk pre o.name

theorem locMatch_iff (src : Obj) (subtype pre : Option String) (o : Obj) :
    locMatch src subtype pre o = true ↔
      o.cpuset = src.cpuset ∧ o.nodeset = src.nodeset ∧ subtypeOk subtype o.subtype = true ∧
        prefixOk pre o.name = true := by
  simp only [locMatch, Bool.and_eq_true, beq_iff_eq]
  constructor
  · rintro ⟨⟨⟨a, b⟩, c⟩, e⟩; exact ⟨a, b, c, e⟩
  · rintro ⟨a, b, c, e⟩; exact ⟨⟨⟨a, b⟩, c⟩, e⟩

theorem sameLocality_normal {d : Dump} {src : Obj} {t : Int} {subtype pre : Option String}
    (hsrc : (isNormal src.type || isMemory src.type) = true) :
    sameLocality d src t subtype pre 0 =
      if (!(decide (0 ≤ t) && isNormal t.toNat) && !(decide (0 ≤ t) && isMemory t.toNat)) = true then .error .EINVAL
      else match (iterNext (nextByType d t) d.fuel none).find? (locMatch src subtype pre) with
        | some o => .ok o
        | none => .error .ENOENT := by
  unfold sameLocality
  simp only [bne_self_eq_false, Bool.false_eq_true, if_false, hsrc, if_true]
  rfl

theorem same_locality_ok {d : Dump} (ht : Tree d) {src o : Obj} {t : Int} {subtype pre : Option String}
    (hsrc : (isNormal src.type || isMemory src.type) = true)
    (h : sameLocality d src t subtype pre 0 = .ok o) :
    o ∈ d.objs ∧ (o.type : Int) = t ∧ o.cpuset = src.cpuset ∧ o.nodeset = src.nodeset ∧
    subtypeOk subtype o.subtype = true ∧ prefixOk pre o.name = true ∧
    ∀ o' ∈ d.objs, (o'.type : Int) = t → o'.cpuset = src.cpuset → o'.nodeset = src.nodeset →
      subtypeOk subtype o'.subtype = true → prefixOk pre o'.name = true → o.lidx ≤ o'.lidx := by
  rw [sameLocality_normal hsrc] at h
  split at h
  · cases h
  · rw [ht.iterNext_nextByType] at h
    by_cases hs : isSingleDepth (typeDepth d t) = true
    · rw [if_pos hs] at h
      cases hf : (levelObjs d (typeDepth d t)).find? (locMatch src subtype pre) with
      | none => rw [hf] at h; cases h
      | some o1 =>
        rw [hf] at h
        simp only [Except.ok.injEq] at h
        subst h
        obtain ⟨hok, as, bs, happ, has⟩ := List.find?_eq_some_iff_append.1 hf
        have hget : (levelObjs d (typeDepth d t))[as.length]? = some o1 := by rw [happ]; simp
        obtain ⟨hlidx, hdep, ho⟩ := ht.levelObjs_lidx hget
        have hty := ht.type_of_depth ho hdep
        obtain ⟨m1, m2, m3, m4⟩ := (locMatch_iff _ _ _ _).1 hok
        refine ⟨ho, hty, m1, m2, m3, m4, ?_⟩
        intro o' ho' hty' hc hn hsub hpre
        have hd' : o'.depth = typeDepth d t := by
          rcases ht.depth_of_type ho' with h1 | h1
          · rw [← hty', h1]
          · rw [hty'] at h1
            rw [h1] at hs
            simp [isSingleDepth, depthMultiple] at hs
        have hself := ht.levelObjs_self ho'
        rw [hd'] at hself
        rw [hlidx]
        by_cases hlt : o'.lidx < as.length
        · exfalso
          have hget' : as[o'.lidx]? = some o' := by
            rw [happ, List.getElem?_append_left hlt] at hself
            exact hself
          have hmem : o' ∈ as := List.mem_of_getElem? hget'
          have hno := has o' hmem
          rw [(locMatch_iff _ _ _ _).2 ⟨hc, hn, hsub, hpre⟩] at hno
          simp at hno
        · omega
    · rw [if_neg hs] at h
      simp at h

theorem same_locality_enoent {d : Dump} (ht : Tree d) {src : Obj} {t : Int} {subtype pre : Option String}
    (hsrc : (isNormal src.type || isMemory src.type) = true)
    (h : sameLocality d src t subtype pre 0 = .error .ENOENT)
    (hs : isSingleDepth (typeDepth d t) = true) :
    ¬ ∃ o' ∈ d.objs, (o'.type : Int) = t ∧ o'.cpuset = src.cpuset ∧ o'.nodeset = src.nodeset ∧
      subtypeOk subtype o'.subtype = true ∧ prefixOk pre o'.name = true := by
  rintro ⟨o', ho', hty', hc, hn, hsub, hpre⟩
  rw [sameLocality_normal hsrc] at h
  split at h
  · cases h
  · rw [ht.iterNext_nextByType, if_pos hs] at h
    cases hf : (levelObjs d (typeDepth d t)).find? (locMatch src subtype pre) with
    | some o1 => rw [hf] at h; cases h
    | none =>
      rw [List.find?_eq_none] at hf
      have hd' : o'.depth = typeDepth d t := by
        rcases ht.depth_of_type ho' with h1 | h1
        · rw [← hty', h1]
        · rw [hty'] at h1
          rw [h1] at hs
          simp [isSingleDepth, depthMultiple] at hs
      exact hf o' (ht.mem_levelObjs.2 ⟨ho', hd'⟩) ((locMatch_iff _ _ _ _).2 ⟨hc, hn, hsub, hpre⟩)

theorem same_locality_flags (d : Dump) (src : Obj) (t : Int) (subtype pre : Option String) {flags : Nat}
    (h : flags ≠ 0) : sameLocality d src t subtype pre flags = .error .EINVAL := by
  unfold sameLocality
  simp [h]

/-! ### B (continued). index inside a cpuset -/

theorem getElem?_filter_countP_take {α : Type} (p : α → Bool) (l : List α) (i : Nat) (x : α)
    (h : l[i]? = some x) (hp : p x = true) : (l.filter p)[(l.take i).countP p]? = some x := by
  induction l generalizing i with
  | nil => simp at h
  | cons a as ih =>
    cases i with
    | zero =>
      simp at h
      subst h
      simp [hp]
    | succ i =>
      simp at h
      by_cases ha : p a = true
      · simp [ha, ih i h]
      · simp [ha, ih i h]

theorem Tree.prevCousinsFrom_prev {d : Dump} (ht : Tree d) {o : Obj} (ho : o ∈ d.objs) :
    prevCousinsFrom d (d.obj? o.prevCousin) = ((levelObjs d o.depth).take o.lidx).reverse := by
  obtain ⟨⟨l, hl, hd⟩, hself⟩ := ht.inlevel o ho
  obtain ⟨_, _, _, _, _, hpc⟩ := ht.level_entry hl hd hself
  rw [hpc]
  by_cases h0 : o.lidx = 0
  · simp [h0, prevCousinsFrom_none]
  · rw [if_neg h0]
    have hlt := (List.getElem?_eq_some_iff.1 hself).1
    have hlev := ht.prevCousinsFrom_level hl (o.lidx - 1) (by rw [hd]; omega)
    rw [hd] at hlev
    rw [hlev]
    have : o.lidx - 1 + 1 = o.lidx := by omega
    rw [this]

theorem index_inside {d : Dump} (ht : Tree d) {o : Obj} (ho : o ∈ d.objs) (S : Nat)
    (hin : insideOk S o = true) :
    0 ≤ indexInside d S o ∧
      ((levelObjs d o.depth).filter (insideOk S))[(indexInside d S o).toNat]? = some o := by
  have hsub : subset (cs o) S = true := by
    simp only [insideOk, Bool.and_eq_true] at hin
    exact hin.2
  have hself := ht.levelObjs_self ho
  unfold indexInside
  simp only [hsub, Bool.not_true, Bool.false_eq_true, if_false, ht.prevCousinsFrom_prev ho,
    List.countP_reverse]
  refine ⟨Int.natCast_nonneg _, ?_⟩
  rw [Int.toNat_natCast]
  exact getElem?_filter_countP_take _ _ _ _ hself hin

theorem index_inside_notsub (d : Dump) (S : Nat) (o : Obj) (h : subset (cs o) S = false) :
    indexInside d S o = -1 := by
  simp [indexInside, h]

/-! ### D. levels -/

theorem level_spec_mem {d : Dump} (ht : Tree d) {o : Obj} {depth : Int} :
    o ∈ levelObjs d depth ↔ (o ∈ d.objs ∧ o.depth = depth) := ht.mem_levelObjs

theorem level_spec_order {d : Dump} (ht : Tree d) (depth : Int) :
    (levelObjs d depth).map (·.lidx) = List.range (levelObjs d depth).length := by
  apply List.ext_getElem?
  intro i
  by_cases hi : i < (levelObjs d depth).length
  · rw [List.getElem?_range hi, List.getElem?_map]
    obtain ⟨o, ho⟩ : ∃ o, (levelObjs d depth)[i]? = some o := ⟨_, List.getElem?_eq_getElem hi⟩
    rw [ho]
    simp only [Option.map_some, Option.some.injEq]
    exact (ht.levelObjs_lidx ho).1
  · rw [List.getElem?_eq_none (by simp; omega), List.getElem?_eq_none (by simp; omega)]

/-! ### E. the by-type variants reduce to the by-depth ones -/

theorem by_type_next_inside (d : Dump) (S : Nat) (t : Int) (prev : Option Obj) :
    nextInsideByType d S t prev =
      if isSingleDepth (typeDepth d t) = true then nextInsideByDepth d S (typeDepth d t) prev else none := rfl

theorem by_type_next_covering (d : Dump) (S : Nat) (t : Int) (prev : Option Obj) :
    nextCoveringByType d S t prev =
      if isSingleDepth (typeDepth d t) = true then nextCoveringByDepth d S (typeDepth d t) prev else none := rfl

theorem by_type_obj_inside (d : Dump) (S : Nat) (t : Int) (idx : Nat) :
    objInsideByType d S t idx =
      if isSingleDepth (typeDepth d t) = true then objInsideByDepth d S (typeDepth d t) idx else none := rfl

theorem by_type_next (d : Dump) (t : Int) (prev : Option Obj) :
    nextByType d t prev =
      if isSingleDepth (typeDepth d t) = true then nextByDepth d (typeDepth d t) prev else none := rfl

theorem by_type_obj (d : Dump) (t : Int) (idx : Nat) :
    objByType d t idx =
      if isSingleDepth (typeDepth d t) = true then objByDepth d (typeDepth d t) idx else none := rfl

theorem by_type_nbobjs_inside (d : Dump) (S : Nat) (t : Int) :
    nbobjsInsideByType d S t =
      if typeDepth d t = depthUnknown then 0 else if typeDepth d t = depthMultiple then -1
      else (nbobjsInsideByDepth d S (typeDepth d t) : Int) := by
  simp only [nbobjsInsideByType, beq_iff_eq]

theorem by_type_nbobjs (d : Dump) (t : Int) :
    nbobjsByType d t =
      if typeDepth d t = depthUnknown then 0 else if typeDepth d t = depthMultiple then -1
      else (nbobjsByDepth d (typeDepth d t) : Int) := by
  simp only [nbobjsByType, beq_iff_eq]

/-! ### stretch: the level is the brute-force level; Galois-style corollary -/

theorem filterMap_range_getElem? {α : Type} (L : List α) (n : Nat) :
    (List.range n).filterMap (fun i => L[i]?) = L.take n := by
  induction n with
  | zero => simp
  | succ n ih =>
    rw [List.range_succ, List.filterMap_append, ih, List.take_add_one]
    cases h : L[n]? <;> simp [h]

/-- D (stretch): the level array is the list of the objects of that depth sorted by logical index, as
    computed from the object list alone -/
theorem level_spec_brute {d : Dump} (ht : Tree d) (depth : Int) : levelObjs d depth = bruteLevel d depth := by
  unfold bruteLevel
  have hfun : (fun i => d.objs.find? (fun o => o.depth == depth && o.lidx == i))
      = (fun i => (levelObjs d depth)[i]?) := by
    funext i
    cases hf : d.objs.find? (fun o => o.depth == depth && o.lidx == i) with
    | some o' =>
      have hp := List.find?_some hf
      have hm := List.mem_of_find?_eq_some hf
      simp only [Bool.and_eq_true, beq_iff_eq] at hp
      have := ht.levelObjs_self hm
      rw [hp.1, hp.2] at this
      exact this.symm
    | none =>
      rw [List.find?_eq_none] at hf
      cases hg : (levelObjs d depth)[i]? with
      | none => rfl
      | some o =>
        obtain ⟨h1, h2, h3⟩ := ht.levelObjs_lidx hg
        exact absurd (by simp [h1, h2]) (hf o h3)
  rw [hfun, filterMap_range_getElem?, List.take_of_length_le]
  have := ht.level_length_lt_fuel depth
  unfold Dump.fuel at this
  omega

theorem iter_inside_brute {d : Dump} (ht : Tree d) (S : Nat) (depth : Int) :
    iterNext (nextInsideByDepth d S depth) d.fuel none = bruteInside d S depth := by
  rw [iter_inside ht, bruteInside, level_spec_brute ht]

theorem iter_covering_brute {d : Dump} (ht : Tree d) (S : Nat) (depth : Int) :
    iterNext (nextCoveringByDepth d S depth) d.fuel none = bruteCovering d S depth := by
  rw [iter_covering ht, bruteCovering, level_spec_brute ht]

/-- F (stretch): converting a cpuset to a nodeset and back recovers every bit of `S` that lies in some NUMA
    node's cpuset -/
theorem nodeset_galois {d : Dump} (ht : Tree d) (S i : Nat) (hS : S.testBit i = true)
    (hnode : ∃ o ∈ d.objs, o.type = tNUMA ∧ (cs o).testBit i = true) :
    (cpusetFromNodeset d (cpusetToNodeset d S)).testBit i = true := by
  obtain ⟨o, ho, hty, hbit⟩ := hnode
  rw [nodeset_conv_from ht]
  refine ⟨o, ho, hty, ?_, hbit⟩
  rw [nodeset_conv_to ht]
  have h0 := ((ht.depth o ho).2.2.2.2.2 hty).1
  exact ⟨o, ho, hty, by omega, (intersects_iff _ _).2 ⟨i, hS, hbit⟩⟩

/-- the converse inclusion: the round trip only adds bits of NUMA-node cpusets that intersect `S` -/
theorem nodeset_galois_conv {d : Dump} (ht : Tree d) (S i : Nat)
    (h : (cpusetFromNodeset d (cpusetToNodeset d S)).testBit i = true) :
    ∃ o ∈ d.objs, o.type = tNUMA ∧ (cs o).testBit i = true ∧
      ∃ o' ∈ d.objs, o'.type = tNUMA ∧ o'.osidx = o.osidx ∧ intersects S (cs o') = true := by
  rw [nodeset_conv_from ht] at h
  obtain ⟨o, ho, hty, hN, hbit⟩ := h
  rw [nodeset_conv_to ht] at hN
  obtain ⟨o', ho', hty', hos, hint⟩ := hN
  have h0 := ((ht.depth o ho).2.2.2.2.2 hty).1
  exact ⟨o, ho, hty, hbit, o', ho', hty', by omega, hint⟩

/-! ### E (continued). implication forms and the by-type iterators -/

theorem by_type_next_inside_single {d : Dump} {S : Nat} {t : Int} (prev : Option Obj)
    (h : isSingleDepth (typeDepth d t) = true) :
    nextInsideByType d S t prev = nextInsideByDepth d S (typeDepth d t) prev := by
  rw [by_type_next_inside, if_pos h]

theorem by_type_next_inside_none {d : Dump} {S : Nat} {t : Int} (prev : Option Obj)
    (h : isSingleDepth (typeDepth d t) = false) : nextInsideByType d S t prev = none := by
  rw [by_type_next_inside, if_neg (by simp [h])]

theorem by_type_next_covering_single {d : Dump} {S : Nat} {t : Int} (prev : Option Obj)
    (h : isSingleDepth (typeDepth d t) = true) :
    nextCoveringByType d S t prev = nextCoveringByDepth d S (typeDepth d t) prev := by
  rw [by_type_next_covering, if_pos h]

theorem by_type_next_covering_none {d : Dump} {S : Nat} {t : Int} (prev : Option Obj)
    (h : isSingleDepth (typeDepth d t) = false) : nextCoveringByType d S t prev = none := by
  rw [by_type_next_covering, if_neg (by simp [h])]

theorem by_type_obj_inside_single {d : Dump} {S : Nat} {t : Int} (idx : Nat)
    (h : isSingleDepth (typeDepth d t) = true) :
    objInsideByType d S t idx = objInsideByDepth d S (typeDepth d t) idx := by
  rw [by_type_obj_inside, if_pos h]

theorem by_type_obj_inside_none {d : Dump} {S : Nat} {t : Int} (idx : Nat)
    (h : isSingleDepth (typeDepth d t) = false) : objInsideByType d S t idx = none := by
  rw [by_type_obj_inside, if_neg (by simp [h])]

theorem iter_inside_by_type {d : Dump} (ht : Tree d) (S : Nat) (t : Int) :
    iterNext (nextInsideByType d S t) d.fuel none
      = if isSingleDepth (typeDepth d t) = true then (levelObjs d (typeDepth d t)).filter (insideOk S) else [] := by
  by_cases hs : isSingleDepth (typeDepth d t) = true
  · rw [if_pos hs]
    have : nextInsideByType d S t = nextInsideByDepth d S (typeDepth d t) := by
      funext prev
      exact by_type_next_inside_single prev hs
    rw [this, iter_inside ht]
  · rw [if_neg hs]
    unfold Dump.fuel
    rw [iterNext]
    simp [nextInsideByType, hs]

theorem iter_covering_by_type {d : Dump} (ht : Tree d) (S : Nat) (t : Int) :
    iterNext (nextCoveringByType d S t) d.fuel none
      = if isSingleDepth (typeDepth d t) = true then (levelObjs d (typeDepth d t)).filter (coverOk S) else [] := by
  by_cases hs : isSingleDepth (typeDepth d t) = true
  · rw [if_pos hs]
    have : nextCoveringByType d S t = nextCoveringByDepth d S (typeDepth d t) := by
      funext prev
      exact by_type_next_covering_single prev hs
    rw [this, iter_covering ht]
  · rw [if_neg hs]
    unfold Dump.fuel
    rw [iterNext]
    simp [nextCoveringByType, hs]

end Hw.Topo
