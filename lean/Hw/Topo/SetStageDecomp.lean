/-
  Hw.Topo.SetStageDecomp — the nodeset of every normal object after the stage is the disjoint union of what it inherits
  from the memory children of its ancestors, of its own memory children, and of what its normal children contribute
  (the WF clause "nodeset-decomposition"); the allowed sets against the root sets; no object is lost.
-/
import Hw.Topo.SetStageLemmas
namespace Hw.Topo.SetStage
open Hw.Topo

/-- the nodes attached to one object are pairwise disjoint, and so are the local part and the parts below each normal child -/
def NodesDj (_ : SObj) (kids mem : List ST) : Prop :=
  (mem.map (·.o.nodeset)).Pairwise Dj ∧ (orL (mem.map (·.o.nodeset)) :: kids.map below).Pairwise Dj

/-- **nodeset decomposition** below a normal object that inherits `inh` from its ancestors: the local nodes are pairwise disjoint,
the local part and the children's parts are pairwise disjoint, the inherited part is disjoint from all of them, the nodeset is
their union, and each normal child inherits `inh` plus the local part -/
inductive Decomp : Nat → ST → Prop
  | node {inh : Nat} {o : SObj} {kids mem : List ST} :
      (mem.map (·.o.nodeset)).Pairwise Dj →
      (orL (mem.map (·.o.nodeset)) :: kids.map below).Pairwise Dj →
      Dj inh (below (.node o kids mem)) →
      o.nodeset = inh ||| below (.node o kids mem) →
      (∀ k ∈ kids, Decomp (inh ||| orL (mem.map (·.o.nodeset))) k) →
      Decomp inh (.node o kids mem)

theorem sub_below_mem {o : SObj} {kids mem : List ST} {m : ST} (h : m ∈ mem) : Sub m.o.nodeset (below (.node o kids mem)) := by
  rw [below_node]
  exact Sub.or_right _ (sub_orL (List.mem_map_of_mem (f := fun x => x.o.nodeset) h))

theorem sub_below_kid {o : SObj} {kids mem : List ST} {k : ST} (h : k ∈ kids) : Sub (below k) (below (.node o kids mem)) := by
  rw [below_node]
  exact Sub.or_right' _ (sub_orL (List.mem_map_of_mem h))

theorem propagate_node' (inh : Nat) (o : SObj) (kids mem : List ST) :
    ∃ o1, propagate inh (.node o kids mem) = .node o1 (kids.map (propagate (orNs inh mem))) mem ∧
      o1.nodeset = inh ||| below (.node o kids mem) := by
  have hns := propagate_nodeset (.node o kids mem) inh
  rw [propagate_node] at hns
  exact ⟨_, propagate_node inh o kids mem, hns⟩

section
variable {φ ψ : Nat → Nat}

/-- one output node, seen from below: the nodes attached at or below it are the input's, shrunk -/
theorem below_step (hψ : Shrink ψ) (c' o : SObj) (ns1 : Nat) (kids mem : List ST)
    (hloc : ∀ m ∈ mem, Sub m.o.nodeset c'.nodeset)
    (ih : ∀ k ∈ kids, below (mapObjs (shrinkObj φ ψ) (fixupChild c' (propagate ns1 k))) = ψ (below k)) :
    below (mapObjs (shrinkObj φ ψ)
      (.node c' (reorderIfNeeded ((kids.map (propagate ns1)).map (fixupChild c'))) (mem.map (fixupChild c')))) =
    ψ (below (.node o kids mem)) ∧
    ((mem.map (fixupChild c')).map (mapObjs (shrinkObj φ ψ))).map (·.o.nodeset) = (mem.map (·.o.nodeset)).map ψ ∧
    ((kids.map (propagate ns1)).map (fixupChild c') |>.map (mapObjs (shrinkObj φ ψ))).map below = (kids.map below).map ψ := by
  have hm : ((mem.map (fixupChild c')).map (mapObjs (shrinkObj φ ψ))).map (·.o.nodeset) = (mem.map (·.o.nodeset)).map ψ := by
    simp only [List.map_map]
    apply List.map_congr_left
    intro m hm
    simp only [Function.comp, mapObjs_o, fixupChild_o, shrinkObj, (fixChild_fields c' m.o).2.2.2]
    rw [(hloc m hm).and_eq]
  have hk : ((kids.map (propagate ns1)).map (fixupChild c') |>.map (mapObjs (shrinkObj φ ψ))).map below = (kids.map below).map ψ := by
    simp only [List.map_map]
    apply List.map_congr_left
    intro k hk
    simp only [Function.comp]
    exact ih k hk
  refine ⟨?_, hm, hk⟩
  rw [mapObjs_node, below_node, below_node, hm, hψ.or, orL_map_shrink hψ]
  congr 1
  rw [← orL_map_shrink hψ, ← hk]
  exact orL_perm (((reorderIfNeeded_perm _).map _).map _)

/-- the nodes at or below an output subtree -/
theorem below_out (hψ : Shrink ψ) : ∀ (t : ST) (p : SObj) (inh : Nat), Sub (inh ||| below t) p.nodeset →
    below (mapObjs (shrinkObj φ ψ) (fixupChild p (propagate inh t))) = ψ (below t) := by
  apply ST.ind
  intro o kids mem ihk _ p inh hctx
  obtain ⟨o1, hp, hns⟩ := propagate_node' inh o kids mem
  rw [hp, fixupChild_node]
  have hc' : (fixChild p o1).nodeset = inh ||| below (.node o kids mem) := by
    rw [(fixChild_fields _ _).2.2.2, hns]; exact hctx.and_eq
  refine (below_step hψ _ o _ kids mem ?_ ?_).1
  · intro m hm
    rw [hc']
    exact Sub.or_right' _ (sub_below_mem hm)
  · intro k hk
    apply ihk k hk
    rw [hc', orNs_eq]
    refine Sub.or_left (Sub.or_mono (Sub.refl _) ?_) (Sub.or_right' _ (sub_below_kid hk))
    rw [below_node]; exact Sub.or_right _ (Sub.refl _)

/-- one output node: the decomposition, given the decomposition of the children -/
theorem decomp_step (hψ : Shrink ψ) (c' o : SObj) (inh : Nat) (kids mem : List ST)
    (hc' : c'.nodeset = inh ||| below (.node o kids mem))
    (hnd : NodesDj o kids mem) (hdj : Dj inh (below (.node o kids mem)))
    (ih : ∀ k ∈ kids, Decomp (ψ (orNs inh mem)) (mapObjs (shrinkObj φ ψ) (fixupChild c' (propagate (orNs inh mem) k)))) :
    Decomp (ψ inh) (mapObjs (shrinkObj φ ψ)
      (.node c' (reorderIfNeeded ((kids.map (propagate (orNs inh mem))).map (fixupChild c'))) (mem.map (fixupChild c')))) := by
  have hloc : ∀ m ∈ mem, Sub m.o.nodeset c'.nodeset := by
    intro m hm; rw [hc']; exact Sub.or_right' _ (sub_below_mem hm)
  have hkctx : ∀ k ∈ kids, Sub (orNs inh mem ||| below k) c'.nodeset := by
    intro k hk
    rw [hc', orNs_eq]
    refine Sub.or_left (Sub.or_mono (Sub.refl _) ?_) (Sub.or_right' _ (sub_below_kid hk))
    rw [below_node]; exact Sub.or_right _ (Sub.refl _)
  obtain ⟨hb, hm, hk⟩ := below_step (φ := φ) hψ c' o (orNs inh mem) kids mem hloc
    (fun k hk => below_out hψ k c' _ (hkctx k hk))
  have hb' := hb
  rw [mapObjs_node] at hb' ⊢
  have hperm := ((reorderIfNeeded_perm ((kids.map (propagate (orNs inh mem))).map (fixupChild c'))).map
    (mapObjs (shrinkObj φ ψ))).map below
  refine .node ?_ ?_ ?_ ?_ ?_
  · rw [hm, List.pairwise_map]
    exact hnd.1.imp (fun h => hψ.dj h)
  · rw [hm, orL_map_shrink hψ]
    have : (ψ (orL (mem.map (·.o.nodeset))) :: (kids.map below).map ψ).Pairwise Dj := by
      have := hnd.2
      rw [← List.map_cons, List.pairwise_map]
      exact this.imp (fun h => hψ.dj h)
    rw [← hk] at this
    exact (List.Perm.pairwise_iff (fun h => Dj.symm h) (hperm.cons _)).2 this
  · rw [hb']; exact hψ.dj hdj
  · rw [hb']
    simp only [shrinkObj, hc', hψ.or]
  · intro y hy
    obtain ⟨z, hz, rfl⟩ := List.mem_map.1 hy
    have hz := mem_reorderIfNeeded.1 hz
    rw [List.map_map] at hz
    obtain ⟨k, hk', rfl⟩ := List.mem_map.1 hz
    rw [hm, orL_map_shrink hψ, ← hψ.or, ← orNs_eq]
    exact ih k hk'

/-- the decomposition of an output subtree -/
theorem decomp_out (hψ : Shrink ψ) : ∀ (t : ST) (p : SObj) (inh : Nat), Sub (inh ||| below t) p.nodeset → AllN NodesDj t →
    Dj inh (below t) → Decomp (ψ inh) (mapObjs (shrinkObj φ ψ) (fixupChild p (propagate inh t))) := by
  apply ST.ind
  intro o kids mem ihk _ p inh hctx hnd hdj
  obtain ⟨o1, hp, hns⟩ := propagate_node' inh o kids mem
  rw [hp, fixupChild_node]
  have hc' : (fixChild p o1).nodeset = inh ||| below (.node o kids mem) := by
    rw [(fixChild_fields _ _).2.2.2, hns]; exact hctx.and_eq
  refine decomp_step hψ _ o inh kids mem hc' hnd.here hdj ?_
  intro k hk
  apply ihk k hk _ _ ?_ (hnd.kids k hk) ?_
  · rw [hc', orNs_eq]
    refine Sub.or_left (Sub.or_mono (Sub.refl _) ?_) (Sub.or_right' _ (sub_below_kid hk))
    rw [below_node]; exact Sub.or_right _ (Sub.refl _)
  · rw [orNs_eq]
    refine Dj.or_left (hdj.mono (Sub.refl _) (sub_below_kid hk)) ?_
    have := (List.pairwise_cons.1 hnd.here.2).1 (below k) (List.mem_map_of_mem hk)
    exact this

theorem below_fixupRoot (r : ST) : below (fixupRoot r) = below r := by
  cases r; simp [fixupRoot, below_node]

/-- **nodeset decomposition of the whole output** -/
theorem core_decomp (hψ : Shrink ψ) (r : ST) (hnd : AllN NodesDj r) : Decomp 0 (core φ ψ r) := by
  unfold core
  cases r with
  | node o kids mem =>
    simp only [fixupRoot]
    obtain ⟨o1, hp, hns⟩ := propagate_node' 0 { o with cpuset := o.cpuset &&& o.ccpuset.getD 0, nodeset := o.nodeset &&& o.cnodeset.getD 0 } kids mem
    rw [hp, fixupSets_node]
    have hbe : below (.node { o with cpuset := o.cpuset &&& o.ccpuset.getD 0, nodeset := o.nodeset &&& o.cnodeset.getD 0 } kids mem) =
        below (.node o kids mem) := by rw [below_node, below_node]
    rw [hbe] at hns
    have h0 : ψ 0 = 0 := hψ.zero
    have := decomp_step (φ := φ) hψ _ o 0 kids mem hns hnd.here (Dj.zero_left _) ?_
    · rw [h0] at this; exact this
    · intro k hk
      apply decomp_out hψ k _ _ ?_ (hnd.kids k hk) ?_
      · rw [hns, orNs_eq]
        refine Sub.or_left (Sub.or_mono (Sub.refl _) ?_) (Sub.or_right' _ (sub_below_kid hk))
        rw [below_node]; exact Sub.or_right _ (Sub.refl _)
      · rw [orNs_eq]
        refine Dj.or_left (Dj.zero_left _) ?_
        exact (List.pairwise_cons.1 hnd.here.2).1 (below k) (List.mem_map_of_mem hk)

end

/-! ### the root object and the allowed sets -/

theorem core_root_o (φ ψ : Nat → Nat) (r : ST) :
    (core φ ψ r).o.cpuset = φ (r.o.cpuset &&& r.o.ccpuset.getD 0) ∧ (core φ ψ r).o.nodeset = ψ (below r) ∧
    (core φ ψ r).o.ccpuset = r.o.ccpuset := by
  unfold core
  rw [mapObjs_o]
  have hns := propagate_nodeset (fixupRoot r) 0
  have hf := propagate_fields 0 (fixupRoot r)
  rw [below_fixupRoot] at hns
  cases r with
  | node o kids mem =>
    cases hp : propagate 0 (fixupRoot (.node o kids mem)) with
    | node o' kids' mem' =>
      rw [hp] at hns hf
      rw [fixupSets_node]
      simp only [ST.o, shrinkObj, fixupRoot] at hns hf ⊢
      rw [hf.2.2.2.1, hf.2.2.2.2, hns]
      simp

theorem and_eq_of_sub' {a b : Nat} (h : Sub a b) : b &&& a = a := by rw [Nat.and_comm]; exact h

/-- **allowed sets**: inside the root sets; equal to them when INCLUDE_DISALLOWED is not set -/
theorem stage_allowed (i : In) (hcov : Sub (i.root.o.nodeset &&& i.root.o.cnodeset.getD 0) (below i.root)) :
    Sub (stage i).allowedC (stage i).root.o.cpuset ∧ Sub (stage i).allowedN (stage i).root.o.nodeset ∧
    (i.includeDisallowed = false → (stage i).root.o.cpuset = (stage i).allowedC ∧ (stage i).root.o.nodeset = (stage i).allowedN) := by
  have hac : (stage i).allowedC = i.allowedC.inter (i.root.o.cpuset &&& i.root.o.ccpuset.getD 0) := by
    unfold stage; cases i.root; rfl
  have han : (stage i).allowedN = i.allowedN.inter (i.root.o.nodeset &&& i.root.o.cnodeset.getD 0) := by
    unfold stage; cases i.root; rfl
  have h1 : Sub (stage i).allowedC (i.root.o.cpuset &&& i.root.o.ccpuset.getD 0) := by rw [hac]; exact ASet.inter_sub _ _
  have h2 : Sub (stage i).allowedN (below i.root) := by rw [han]; exact (ASet.inter_sub _ _).trans hcov
  cases hf : i.includeDisallowed with
  | true =>
    rw [stage_root_incl i hf]
    obtain ⟨e1, e2, _⟩ := core_root_o (fun a => a) (fun a => a) i.root
    rw [e1, e2]
    exact ⟨h1, h2, fun h => by cases h⟩
  | false =>
    rw [stage_root_excl i hf]
    obtain ⟨e1, e2, _⟩ := core_root_o (· &&& (stage i).allowedC) (· &&& (stage i).allowedN) i.root
    rw [e1, e2]
    simp only [and_eq_of_sub' h1, and_eq_of_sub' h2]
    exact ⟨Sub.refl _, Sub.refl _, fun _ => ⟨trivial, trivial⟩⟩

end Hw.Topo.SetStage
