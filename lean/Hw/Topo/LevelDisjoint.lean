/-
  Hw.Topo.LevelDisjoint — the objects of one NORMAL level of a dump satisfying `Tree` have pairwise disjoint
  cpusets: two distinct objects of equal depth hang below two distinct children of their deepest common
  ancestor, the children of an object are pairwise disjoint (`T_disjoint`) and cpusets shrink along the parent
  links (`T_parent`).
-/
import Hw.Topo.HelpersAnc
namespace Hw.Topo

theorem disjoint_commLD (a b : Nat) : Hw.Topo.disjoint a b = Hw.Topo.disjoint b a := by
  unfold Hw.Topo.disjoint
  rw [Nat.and_comm]

theorem subset_reflLD (a : Nat) : subset a a = true := (subset_iff a a).2 (fun _ h => h)

theorem subset_transLD {a b c : Nat} (h1 : subset a b = true) (h2 : subset b c = true) : subset a c = true :=
  (subset_iff a c).2 (fun i hi => (subset_iff b c).1 h2 i ((subset_iff a b).1 h1 i hi))

theorem disjoint_of_subsetLD {a b a' b' : Nat} (h : Hw.Topo.disjoint a' b' = true)
    (ha : subset a a' = true) (hb : subset b b' = true) : Hw.Topo.disjoint a b = true :=
  (disjoint_iff a b).2 (fun i hi =>
    (disjoint_iff a' b').1 h i ⟨(subset_iff a a').1 ha i hi.1, (subset_iff b b').1 hb i hi.2⟩)

/-- two distinct members of a list that is pairwise related by a symmetric relation are related -/
theorem pairwise_memLD {α : Type} {R : α → α → Prop} (hs : ∀ a b, R a b → R b a) :
    ∀ {l : List α}, l.Pairwise R → ∀ a ∈ l, ∀ b ∈ l, a ≠ b → R a b := by
  intro l
  induction l with
  | nil => intro _ a ha; cases ha
  | cons x xs ih =>
    intro hp a ha b hb hne
    rw [List.pairwise_cons] at hp
    rcases List.mem_cons.1 ha with rfl | ha'
    · rcases List.mem_cons.1 hb with rfl | hb'
      · exact absurd rfl hne
      · exact hp.1 b hb'
    · rcases List.mem_cons.1 hb with rfl | hb'
      · exact hs _ _ (hp.1 a ha')
      · exact ih hp.2 a ha' b hb' hne

/-- decomposition of an ancestor path from the top: a strict ancestor `r` of `o` has a child `c`
    (by the parent link) that is an ancestor-or-self of `o` -/
theorem AncSelf.topLD {d : Dump} {r o : Obj} (h : AncSelf d r o) :
    r = o ∨ ∃ c, d.obj? c.parent = some r ∧ AncSelf d c o := by
  induction h with
  | refl => exact .inl rfl
  | @up o p hp _ ih =>
    right
    rcases ih with rfl | ⟨c, hc, hco⟩
    · exact ⟨o, hp, .refl _⟩
    · exact ⟨c, hc, .up hp hco⟩

/-- cpusets shrink along the parent links of normal objects -/
theorem ancSelf_subsetLD {d : Dump} (ht : Tree d) {a o : Obj} (h : AncSelf d a o) (ho : o ∈ d.objs)
    (hn : isNormal o.type = true) : subset (cs o) (cs a) = true := by
  induction h with
  | refl => exact subset_reflLD _
  | @up o p hp _ ih =>
    rcases ht.parent o ho with ⟨_, hpar⟩ | ⟨_, p', hp', hpm, hnorm, _⟩
    · rw [hpar, obj?_neg_one] at hp; cases hp
    · rw [hp'] at hp; cases hp
      obtain ⟨hpn, _, _, hsub, _⟩ := hnorm hn
      exact subset_transLD hsub (ih hpm hpn)

/-- two distinct normal objects of equal depth have disjoint cpusets -/
theorem Tree.same_depth_disjointLD {d : Dump} (ht : Tree d) {a b : Obj} (ha : a ∈ d.objs) (hb : b ∈ d.objs)
    (na : isNormal a.type = true) (nb : isNormal b.type = true) (hd : a.depth = b.depth) (hne : a ≠ b) :
    Hw.Topo.disjoint (cs a) (cs b) = true := by
  obtain ⟨r, _, hr, hra, hrb, hmax⟩ := common_ancestor_normal ht ha hb na nb
  obtain ⟨_, hnr, _, heqa⟩ := ancSelf_normal ht hra ha na
  obtain ⟨_, _, _, heqb⟩ := ancSelf_normal ht hrb hb nb
  rcases hra.topLD with hra0 | ⟨ca, hpa, hca⟩
  · subst hra0
    exact absurd (heqb hd) hne
  rcases hrb.topLD with hrb0 | ⟨cb, hpb, hcb⟩
  · subst hrb0
    exact absurd (heqa hd.symm).symm hne
  obtain ⟨hcam, hcan, _, _⟩ := ancSelf_normal ht hca ha na
  obtain ⟨hcbm, hcbn, _, _⟩ := ancSelf_normal ht hcb hb nb
  have hcac : ca ∈ childObjs d r := (ht.mem_childObjs hr).2 ⟨hcam, hcan, (ht.obj?_some_id hpa).symm⟩
  have hcbc : cb ∈ childObjs d r := (ht.mem_childObjs hr).2 ⟨hcbm, hcbn, (ht.obj?_some_id hpb).symm⟩
  have hcne : ca ≠ cb := by
    intro h
    subst h
    have hcr := hmax ca hca hcb
    have hle := (ancSelf_normal ht hcr hr hnr).2.2.1
    rcases ht.parent_cases hcam hcan with ⟨_, hnone⟩ | ⟨_, p, hp, _, _, hlt⟩
    · rw [hnone] at hpa; cases hpa
    · rw [hp] at hpa; cases hpa
      omega
  have hdis : Hw.Topo.disjoint (cs ca) (cs cb) = true :=
    pairwise_memLD (R := fun x y => Hw.Topo.disjoint (cs x) (cs y) = true)
      (fun x y h => by rw [disjoint_commLD]; exact h) (ht.disjoint r hr) ca hcac cb hcbc hcne
  exact disjoint_of_subsetLD hdis (ancSelf_subsetLD ht hca ha na) (ancSelf_subsetLD ht hcb hb nb)

/-- the objects of a normal level have pairwise disjoint cpusets -/
theorem Tree.level_disjoint {d : Dump} (ht : Tree d) {k : Int} (hk : 0 ≤ k) :
    (levelObjs d k).Pairwise (fun a b => Hw.Topo.disjoint (cs a) (cs b) = true) := by
  rw [List.pairwise_iff_getElem]
  intro i j hi hj hij
  obtain ⟨hli, hdi, hmi⟩ := ht.levelObjs_lidx (List.getElem?_eq_getElem hi)
  obtain ⟨hlj, hdj, hmj⟩ := ht.levelObjs_lidx (List.getElem?_eq_getElem hj)
  have hnorm : ∀ o ∈ d.objs, o.depth = k → isNormal o.type = true := by
    intro o ho hdo
    cases hn : isNormal o.type with
    | true => rfl
    | false =>
      have := (ht.depth o ho).2.1 hn
      omega
  apply ht.same_depth_disjointLD hmi hmj (hnorm _ hmi hdi) (hnorm _ hmj hdj) (by rw [hdi, hdj])
  intro h
  rw [h] at hli
  omega

end Hw.Topo
