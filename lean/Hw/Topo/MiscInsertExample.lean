/-
  Hw.Topo.MiscInsertExample — a concrete well-formed dump (synthetic `core:2 pu:1`, Misc objects kept) for the non-vacuity
  examples of the C02 Misc-insertion theorems.
-/
import Hw.Topo.MiscInsertThm
namespace Hw.Topo.MiscIns
open Hw.Topo

/-- the dump of the synthetic topology `core:2 pu:1` loaded with the Misc filter KEEP_ALL, as printed by harness/dump.h -/
def exD : Dump :=
  { flags := 0, depth := 3, root := 0, nobjs := 6, allowedCpuset := some 0x3, allowedNodeset := some 0x1,
    filters := [0, 0, 0, 0, 0, 0, 0, 0, 0, 0, 1, 1, 1, 2, 0, 1, 1, 1, 1, 0],
    objs := [
    { id := 0, type := 0, depth := 0, lidx := 0, osidx := 0, gp := 1, parent := (-1), rank := 0, arity := 2, marity := 1, ioarity := 0, miscarity := 0,
      nextSib := (-1), prevSib := (-1), nextCousin := (-1), prevCousin := (-1), firstChild := 1, lastChild := 3, memFirst := 5, ioFirst := (-1), miscFirst := (-1), symm := 1,
      cpuset := some 0x3, ccpuset := some 0x3, nodeset := some 0x1, cnodeset := some 0x1, totalMem := 1073741824, attrs := [0, 0, 0, 0, 0, 0], children := [1, 3], subtype := none, name := none, infos := [] },
    { id := 1, type := 3, depth := 1, lidx := 0, osidx := 0, gp := 3, parent := 0, rank := 0, arity := 1, marity := 0, ioarity := 0, miscarity := 0,
      nextSib := 3, prevSib := (-1), nextCousin := 3, prevCousin := (-1), firstChild := 2, lastChild := 2, memFirst := (-1), ioFirst := (-1), miscFirst := (-1), symm := 1,
      cpuset := some 0x1, ccpuset := some 0x1, nodeset := some 0x1, cnodeset := some 0x1, totalMem := 0, attrs := [0, 0, 0, 0, 0, 0], children := [2], subtype := none, name := none, infos := [] },
    { id := 2, type := 4, depth := 2, lidx := 0, osidx := 0, gp := 2, parent := 1, rank := 0, arity := 0, marity := 0, ioarity := 0, miscarity := 0,
      nextSib := (-1), prevSib := (-1), nextCousin := 4, prevCousin := (-1), firstChild := (-1), lastChild := (-1), memFirst := (-1), ioFirst := (-1), miscFirst := (-1), symm := 1,
      cpuset := some 0x1, ccpuset := some 0x1, nodeset := some 0x1, cnodeset := some 0x1, totalMem := 0, attrs := [0, 0, 0, 0, 0, 0], children := [], subtype := none, name := none, infos := [] },
    { id := 3, type := 3, depth := 1, lidx := 1, osidx := 1, gp := 5, parent := 0, rank := 1, arity := 1, marity := 0, ioarity := 0, miscarity := 0,
      nextSib := (-1), prevSib := 1, nextCousin := (-1), prevCousin := 1, firstChild := 4, lastChild := 4, memFirst := (-1), ioFirst := (-1), miscFirst := (-1), symm := 1,
      cpuset := some 0x2, ccpuset := some 0x2, nodeset := some 0x1, cnodeset := some 0x1, totalMem := 0, attrs := [0, 0, 0, 0, 0, 0], children := [4], subtype := none, name := none, infos := [] },
    { id := 4, type := 4, depth := 2, lidx := 1, osidx := 1, gp := 4, parent := 3, rank := 0, arity := 0, marity := 0, ioarity := 0, miscarity := 0,
      nextSib := (-1), prevSib := (-1), nextCousin := (-1), prevCousin := 2, firstChild := (-1), lastChild := (-1), memFirst := (-1), ioFirst := (-1), miscFirst := (-1), symm := 1,
      cpuset := some 0x2, ccpuset := some 0x2, nodeset := some 0x1, cnodeset := some 0x1, totalMem := 0, attrs := [0, 0, 0, 0, 0, 0], children := [], subtype := none, name := none, infos := [] },
    { id := 5, type := 14, depth := (-3), lidx := 0, osidx := 0, gp := 6, parent := 0, rank := 0, arity := 0, marity := 0, ioarity := 0, miscarity := 0,
      nextSib := (-1), prevSib := (-1), nextCousin := (-1), prevCousin := (-1), firstChild := (-1), lastChild := (-1), memFirst := (-1), ioFirst := (-1), miscFirst := (-1), symm := 0,
      cpuset := some 0x3, ccpuset := some 0x3, nodeset := some 0x1, cnodeset := some 0x1, totalMem := 1073741824, attrs := [1073741824, 1, 0, 0, 0, 0], children := [], subtype := none, name := none, infos := [] }],
    levels := [⟨0, 0, [0]⟩, ⟨1, 3, [1, 3]⟩, ⟨2, 4, [2, 4]⟩, ⟨(-3), 14, [5]⟩, ⟨(-4), 16, []⟩, ⟨(-5), 17, []⟩, ⟨(-6), 18, []⟩, ⟨(-7), 19, []⟩, ⟨(-8), 15, []⟩],
    typeDepths := [0, (-1), (-1), 1, 2, (-1), (-1), (-1), (-1), (-1), (-1), (-1), (-1), (-1), (-3), (-8), (-4), (-5), (-6), (-7)] }

theorem exD_wf : WF exD := by decide

/-- the same topology with Misc objects filtered out (KEEP_NONE) -/
def exDnone : Dump := { exD with filters := [0, 0, 0, 0, 0, 0, 0, 0, 0, 0, 1, 1, 1, 2, 0, 1, 1, 1, 1, 1] }

end Hw.Topo.MiscIns
