/-
  Hw.Topo.DistribLemmas — correctness of the model of hwloc_distrib (Hw.Topo.Distrib): the chunk arithmetic
  telescopes, error cases, and on a dump satisfying `Tree` with normal roots the call writes exactly `n`
  non-empty sets, each included in the union of the roots' cpusets, whose union is that union.
-/
import Hw.Topo.HelpersBasic
namespace Hw.Topo

/-! ### arithmetic of chunks -/

theorem ceilDiv_zero {tot : Nat} (h : 0 < tot) : ceilDiv 0 tot = 0 := by
  unfold ceilDiv
  rw [Nat.zero_add]
  exact Nat.div_eq_of_lt (by omega)

theorem ceilDiv_mul_self {tot : Nat} (h : 0 < tot) (n : Nat) : ceilDiv (tot * n) tot = n := by
  unfold ceilDiv
  have e : tot * n + tot - 1 = (tot - 1) + tot * n := by omega
  rw [e, Nat.add_mul_div_left _ _ h, Nat.div_eq_of_lt (by omega), Nat.zero_add]

theorem ceilDiv_mono {a b : Nat} (h : a ≤ b) (tot : Nat) : ceilDiv a tot ≤ ceilDiv b tot := by
  unfold ceilDiv
  exact Nat.div_le_div_right (by omega)

theorem ceilDiv_pos {a tot : Nat} (ha : 0 < a) (h : 0 < tot) : 0 < ceilDiv a tot := by
  unfold ceilDiv
  exact Nat.div_pos (by omega) h

/-- monotonicity of the running ceiling: the subtraction in `chunkOf` never truncates -/
theorem chunkOf_mono (g w n tot : Nat) : ceilDiv (g * n) tot ≤ ceilDiv ((g + w) * n) tot :=
  ceilDiv_mono (Nat.mul_le_mul_right _ (Nat.le_add_right _ _)) _

theorem chunkOf_add (g w n tot : Nat) :
    ceilDiv (g * n) tot + chunkOf g w n tot = ceilDiv ((g + w) * n) tot := by
  have := chunkOf_mono g w n tot
  unfold chunkOf; omega

/-- the first non-empty root never gets a zero chunk -/
theorem chunkOf_first_pos {w n tot : Nat} (hw : 1 ≤ w) (hn : 1 ≤ n) (htot : 0 < tot) :
    1 ≤ chunkOf 0 w n tot := by
  unfold chunkOf
  rw [Nat.zero_mul, ceilDiv_zero htot, Nat.zero_add, Nat.sub_zero]
  exact ceilDiv_pos (Nat.mul_pos hw hn) htot

/-- the loop over the weights: state = (number of sets given, givenweight) -/
def chunkFold (n tot : Nat) (ws : List Nat) (st : Nat × Nat) : Nat × Nat :=
  ws.foldl (fun acc w => (acc.1 + chunkOf acc.2 w n tot, acc.2 + w)) st

theorem chunkFold_spec (n tot : Nat) (ws : List Nat) (given g : Nat) :
    chunkFold n tot ws (given, g) =
      (given + (ceilDiv ((g + ws.sum) * n) tot - ceilDiv (g * n) tot), g + ws.sum) := by
  unfold chunkFold
  induction ws generalizing given g with
  | nil => simp
  | cons w ws ih =>
    rw [List.foldl_cons, ih]
    have h1 := chunkOf_mono g w n tot
    have h2 := chunkOf_mono (g + w) ws.sum n tot
    have h3 := chunkOf_add g w n tot
    simp only [List.sum_cons, Nat.add_assoc] at *
    refine Prod.ext ?_ rfl
    simp only
    omega

/-- the chunks of a weight list of total `tot` telescope to `n` -/
theorem chunk_telescope {n tot : Nat} {ws : List Nat} (htot : 0 < tot) (hs : ws.sum = tot) :
    (chunkFold n tot ws (0, 0)).1 = n ∧
    (∀ g w, ceilDiv (g * n) tot ≤ ceilDiv ((g + w) * n) tot) ∧
    (∀ w, 1 ≤ w → 1 ≤ n → 1 ≤ chunkOf 0 w n tot) := by
  refine ⟨?_, fun g w => chunkOf_mono g w n tot, fun w hw hn => chunkOf_first_pos hw hn htot⟩
  rw [chunkFold_spec, hs]
  simp only [Nat.zero_add, Nat.zero_mul, ceilDiv_zero htot, Nat.sub_zero]
  exact ceilDiv_mul_self htot n

/-! ### unions of lists of sets -/

theorem orAll_nil : orAll [] = 0 := rfl

theorem orAll_append (a b : List Nat) : orAll (a ++ b) = orAll a ||| orAll b := by
  apply Nat.eq_of_testBit_eq; intro i
  simp [testBit_orAll, Nat.testBit_or, List.any_append]

theorem orAll_singleton (s : Nat) : orAll [s] = s := by
  apply Nat.eq_of_testBit_eq; intro i
  simp [testBit_orAll]

theorem orAll_replicate {k : Nat} (hk : k ≠ 0) (s : Nat) : orAll (List.replicate k s) = s := by
  apply Nat.eq_of_testBit_eq; intro i
  simp [testBit_orAll, List.any_replicate, hk]

theorem orAll_reverse (l : List Nat) : orAll l.reverse = orAll l := by
  apply Nat.eq_of_testBit_eq; intro i
  simp [testBit_orAll]

theorem subset_orAll {l : List Nat} {s : Nat} (h : s ∈ l) : subset s (orAll l) = true := by
  rw [subset_iff]; intro i hi
  rw [testBit_orAll, List.any_eq_true]; exact ⟨s, h, hi⟩

theorem or_ne_zero_left {x : Nat} (s : Nat) (h : x ≠ 0) : x ||| s ≠ 0 := by
  obtain ⟨i, hi⟩ := (ne_zero_iff x).1 h
  exact (ne_zero_iff _).2 ⟨i, by simp [Nat.testBit_or, hi]⟩

theorem orIntoLast_append (l : List Nat) (x s : Nat) : orIntoLast (l ++ [x]) s = l ++ [x ||| s] := by
  simp [orIntoLast]

theorem totWeight_append (a b : List Obj) : totWeight (a ++ b) = totWeight a + totWeight b := by
  simp [totWeight]

theorem totWeight_reverse (l : List Obj) : totWeight l.reverse = totWeight l := by
  simp [totWeight]

theorem totWeight_eq_zero {l : List Obj} (h : totWeight l = 0) : ∀ r ∈ l, weight (cs r) = 0 := by
  induction l with
  | nil => intro r hr; cases hr
  | cons a l ih =>
    have e : totWeight (a :: l) = weight (cs a) + totWeight l := by simp [totWeight]
    rw [e] at h
    intro r hr
    rcases List.mem_cons.1 hr with rfl | hr
    · omega
    · exact ih (by omega) r hr

theorem orAll_cs_eq_zero {l : List Obj} (h : totWeight l = 0) : orAll (l.map cs) = 0 := by
  apply Nat.eq_of_testBit_eq; intro i
  rw [testBit_orAll, Nat.zero_testBit]
  apply Bool.eq_false_iff.2
  intro hh
  obtain ⟨s, hs, hi⟩ := List.any_eq_true.1 hh
  obtain ⟨r, hr, rfl⟩ := List.mem_map.1 hs
  have := (weight_eq_zero _).1 (totWeight_eq_zero h r hr)
  rw [this, Nat.zero_testBit] at hi
  cases hi

/-! ### the walk to a normal object -/

theorem normalAncestor_of_normal (d : Dump) {r : Obj} (h : isNormal r.type = true) :
    normalAncestor d r = r := by
  unfold normalAncestor Dump.fuel
  simp [climbWhile, h]

/-! ### error cases -/

theorem distrib_einval (d : Dump) (roots : List Obj) (n : Nat) (untl : Int) (flags : Nat)
    (h : n = 0 ∨ (flags ≠ 0 ∧ flags ≠ 1)) : distrib d roots n untl flags = none := by
  unfold distrib
  rcases h with h | ⟨h0, h1⟩
  · simp [h]
  · simp [h0, h1]

theorem foldl_distribStep_skip (d : Dump) (untl : Int) (n tot : Nat) (recurse : List Obj → Nat → List Nat)
    (l : List Obj) (st : List Nat × Nat) (h : ∀ r ∈ l, weight (cs r) = 0) :
    l.foldl (distribStep d untl n tot recurse) st = st := by
  induction l generalizing st with
  | nil => rfl
  | cons a l ih =>
    rw [List.foldl_cons]
    have : distribStep d untl n tot recurse st a = st := by
      unfold distribStep
      simp [h a (List.mem_cons_self)]
    rw [this]
    exact ih st (fun r hr => h r (List.mem_cons_of_mem _ hr))

theorem distrib_all_empty (d : Dump) (roots : List Obj) (n : Nat) (untl : Int) (flags : Nat)
    (h0 : totWeight roots = 0) (hn : 0 < n) (hf : flags ≤ 1) :
    distrib d roots n untl flags = some [] := by
  unfold distrib
  have hn' : n ≠ 0 := by omega
  have hfl : (flags != 0 && flags != 1) = false := by
    have : flags = 0 ∨ flags = 1 := by omega
    rcases this with h | h <;> simp [h]
  simp only [hn', hfl, decide_false, Bool.or_self, Bool.false_eq_true, if_false]
  unfold distribRec
  simp only
  rw [foldl_distribStep_skip]
  intro r hr
  apply totWeight_eq_zero h0
  split at hr
  · exact List.mem_reverse.1 hr
  · exact hr

/-! ### the loop invariant -/

/-- invariant of the loop over the roots after the roots `pre` have been processed -/
structure StepInv (n tot : Nat) (pre : List Obj) (st : List Nat × Nat) : Prop where
  g : st.2 = totWeight pre
  len : st.1.length = ceilDiv (st.2 * n) tot
  nz : ∀ s ∈ st.1, s ≠ 0
  un : orAll st.1 = orAll (pre.map cs)

/-- what a (recursive) call must deliver: `k` non-empty sets of union `u` -/
def Spec (k u : Nat) (sets : List Nat) : Prop :=
  sets.length = k ∧ (∀ s ∈ sets, s ≠ 0) ∧ orAll sets = u

theorem distribStep_inv {d : Dump} {untl : Int} {n tot : Nat} {recurse : List Obj → Nat → List Nat}
    (hn : 0 < n) (htot : 0 < tot) {pre : List Obj} {st : List Nat × Nat} {r : Obj}
    (hnorm : isNormal r.type = true)
    (hrec : r.arity ≠ 0 → cs r ≠ 0 → ∀ k, 0 < k → Spec k (cs r) (recurse (childObjs d r) k))
    (h : StepInv n tot pre st) :
    StepInv n tot (pre ++ [r]) (distribStep d untl n tot recurse st r) := by
  obtain ⟨out, g⟩ := st
  obtain ⟨hg, hlen, hnz, hun⟩ := h
  simp only at hg hlen hnz hun
  have htw : totWeight (pre ++ [r]) = totWeight pre + weight (cs r) := by
    rw [totWeight_append]; simp [totWeight]
  have hor : orAll ((pre ++ [r]).map cs) = orAll (pre.map cs) ||| cs r := by
    rw [List.map_append, orAll_append]; simp [orAll_singleton]
  unfold distribStep
  rw [normalAncestor_of_normal d hnorm]
  simp only
  by_cases hw : weight (cs r) = 0
  · rw [if_pos hw]
    have h0 : cs r = 0 := (weight_eq_zero _).1 hw
    exact ⟨by simp [htw, hw, hg], hlen, hnz, by rw [hor, h0, Nat.or_zero]; exact hun⟩
  · rw [if_neg hw]
    have hcs : cs r ≠ 0 := fun h0 => hw ((weight_eq_zero _).2 h0)
    have hadd := chunkOf_add g (weight (cs r)) n tot
    by_cases hleaf : (decide (r.arity = 0) || decide (chunkOf g (weight (cs r)) n tot ≤ 1) || decide (r.depth ≥ untl)) = true
    · rw [if_pos hleaf]
      by_cases hc : chunkOf g (weight (cs r)) n tot ≠ 0
      · rw [if_pos hc]
        refine ⟨by simp [htw, hg], ?_, ?_, ?_⟩
        · simp only [List.length_append, List.length_replicate, hlen]; exact hadd
        · intro s hs
          rcases List.mem_append.1 hs with hs | hs
          · exact hnz s hs
          · rw [(List.mem_replicate.1 hs).2]; exact hcs
        · simp only; rw [orAll_append, orAll_replicate hc, hun, hor]
      · rw [if_neg hc]
        have hc0 : chunkOf g (weight (cs r)) n tot = 0 := by omega
        have hgpos : 0 < g := by
          rcases Nat.eq_zero_or_pos g with hg0 | hgp
          · have := chunkOf_first_pos (w := weight (cs r)) (n := n) (tot := tot) (by omega) hn htot
            rw [hg0] at hc0; omega
          · exact hgp
        have hne : out ≠ [] := by
          have := ceilDiv_pos (Nat.mul_pos hgpos hn) htot
          intro he; rw [he] at hlen; simp at hlen; omega
        obtain ⟨l', x, hx⟩ : ∃ l' x, out = l' ++ [x] :=
          ⟨_, _, (List.dropLast_concat_getLast hne).symm⟩
        have hxnz : x ≠ 0 := hnz x (by rw [hx]; simp)
        refine ⟨by simp [htw, hg], ?_, ?_, ?_⟩
        · simp only; rw [hx, orIntoLast_append, ← hadd, hc0, Nat.add_zero, ← hlen, hx]; simp
        · simp only; rw [hx, orIntoLast_append]
          intro s hs
          rcases List.mem_append.1 hs with hs | hs
          · exact hnz s (by rw [hx]; exact List.mem_append_left _ hs)
          · rw [List.mem_singleton.1 hs]; exact or_ne_zero_left _ hxnz
        · simp only; rw [hor, ← hun, hx, orIntoLast_append, orAll_append, orAll_append, orAll_singleton,
            orAll_singleton, Nat.or_assoc]
    · rw [if_neg hleaf]
      have hl : r.arity ≠ 0 ∧ 1 < chunkOf g (weight (cs r)) n tot := by
        simp at hleaf; omega
      obtain ⟨h1, h2, h3⟩ := hrec hl.1 hcs _ (by omega : 0 < chunkOf g (weight (cs r)) n tot)
      refine ⟨by simp [htw, hg], ?_, ?_, ?_⟩
      · simp only [List.length_append, h1, hlen]; exact hadd
      · intro s hs
        rcases List.mem_append.1 hs with hs | hs
        · exact hnz s hs
        · exact h2 s hs
      · simp only; rw [orAll_append, h3, hun, hor]

theorem foldl_inv {α σ : Type} (step : σ → α → σ) (P : List α → σ → Prop) (l : List α)
    (h : ∀ pre r st, r ∈ l → P pre st → P (pre ++ [r]) (step st r)) :
    ∀ (rest pre : List α) (st : σ), (∀ r ∈ rest, r ∈ l) → P pre st → P (pre ++ rest) (rest.foldl step st) := by
  intro rest
  induction rest with
  | nil => intro pre st _ hp; simpa using hp
  | cons a rest ih =>
    intro pre st hm hp
    rw [List.foldl_cons]
    have := ih (pre ++ [a]) (step st a) (fun r hr => hm r (List.mem_cons_of_mem _ hr))
      (h pre a st (hm a List.mem_cons_self) hp)
    simpa using this

/-! ### the recursion -/

theorem children_good {d : Dump} (ht : Tree d) {r : Obj} (hr : r ∈ d.objs) :
    ∀ c ∈ childObjs d r, c ∈ d.objs ∧ isNormal c.type = true ∧ r.depth < c.depth := by
  intro c hc
  obtain ⟨i, hi⟩ : ∃ i, (c, i) ∈ (childObjs d r).zipIdx := by
    obtain ⟨i, hlt, he⟩ := List.getElem_of_mem hc
    exact ⟨i, by rw [List.mem_zipIdx_iff_getElem?]; simp [he, hlt]⟩
  obtain ⟨hcm, hcp, _, hcn, _, _⟩ := (ht.children r hr).2.2.2 (c, i) hi
  simp only at hcm hcp hcn
  refine ⟨hcm, hcn, ?_⟩
  rcases ht.parent c hcm with ⟨_, hp⟩ | ⟨_, p, hp, _, hnp, _⟩
  · rw [hp] at hcp; omega
  · rw [hcp, ht.obj?_id hr] at hp
    cases hp
    exact (hnp hcn).2.1

theorem distribRec_spec {d : Dump} (ht : Tree d) (untl : Int) (rev : Bool) :
    ∀ (f : Nat) (roots : List Obj) (n : Nat),
      (∀ r ∈ roots, r ∈ d.objs ∧ isNormal r.type = true) → 0 < n → 0 < totWeight roots →
      (∀ r ∈ roots, (d.depth : Int) - r.depth ≤ f) →
      Spec n (orAll (roots.map cs)) (distribRec d untl rev f roots n) := by
  intro f
  induction f with
  | zero =>
    intro roots n hgood hn htot hdep
    exfalso
    cases roots with
    | nil => simp [totWeight] at htot
    | cons r _ =>
      have h1 := hdep r List.mem_cons_self
      have h2 := hgood r List.mem_cons_self
      have := ((ht.depth r h2.1).1 h2.2).2
      omega
  | succ f ih =>
    intro roots n hgood hn htot hdep
    unfold distribRec
    simp only
    -- the order in which the roots are visited
    generalize hord : (if rev = true then roots.reverse else roots) = order
    have hmem : ∀ r, r ∈ order ↔ r ∈ roots := by
      intro r; rw [← hord]; split <;> simp
    have htw : totWeight order = totWeight roots := by
      rw [← hord]; split
      · exact totWeight_reverse _
      · rfl
    have hun : orAll (order.map cs) = orAll (roots.map cs) := by
      rw [← hord]; split
      · rw [List.map_reverse, orAll_reverse]
      · rfl
    have key := foldl_inv (distribStep d untl n (totWeight roots) (distribRec d untl rev f))
      (StepInv n (totWeight roots)) order
      (by
        intro pre r st hr hp
        have hr' := (hmem r).1 hr
        obtain ⟨hro, hrn⟩ := hgood r hr'
        refine distribStep_inv hn htot hrn ?_ hp
        intro har hcs k hk
        have hch := children_good ht hro
        have hu := ((ht.union r hro).1 har).2.2
        rw [hu]
        apply ih (childObjs d r) k (fun c hc => ⟨(hch c hc).1, (hch c hc).2.1⟩) hk
        · rcases Nat.eq_zero_or_pos (totWeight (childObjs d r)) with h0 | hp
          · exact absurd (hu.trans (orAll_cs_eq_zero h0)) hcs
          · exact hp
        · intro c hc
          have := (hch c hc).2.2
          have := hdep r hr'
          omega)
      order [] ([], 0) (fun r hr => hr)
      ⟨rfl, by simp [ceilDiv_zero htot], by simp, rfl⟩
    rw [List.nil_append] at key
    obtain ⟨kg, klen, knz, kun⟩ := key
    refine ⟨?_, knz, kun.trans hun⟩
    rw [klen, kg, htw, ceilDiv_mul_self htot]

/-- P0: `n` non-empty sets, each inside the union of the roots, covering that union -/
theorem distrib_count {d : Dump} (ht : Tree d) (roots : List Obj) (n : Nat) (untl : Int) (flags : Nat)
    (hgood : ∀ r ∈ roots, r ∈ d.objs ∧ isNormal r.type = true)
    (hn : 0 < n) (hf : flags ≤ 1) (htot : 0 < totWeight roots) :
    ∃ sets, distrib d roots n untl flags = some sets ∧ sets.length = n ∧
      (∀ s ∈ sets, s ≠ 0 ∧ subset s (orAll (roots.map cs)) = true) ∧
      orAll sets = orAll (roots.map cs) := by
  have hn' : n ≠ 0 := by omega
  have hfl : (flags != 0 && flags != 1) = false := by
    have : flags = 0 ∨ flags = 1 := by omega
    rcases this with h | h <;> simp [h]
  obtain ⟨h1, h2, h3⟩ := distribRec_spec ht untl (flags == 1) (d.depth + 1) roots n hgood hn htot
    (by
      intro r hr
      have := ((ht.depth r (hgood r hr).1).1 (hgood r hr).2).1
      omega)
  refine ⟨_, ?_, h1, ?_, h3⟩
  · unfold distrib
    simp only [hn', hfl, decide_false, Bool.or_self, Bool.false_eq_true, if_false]
  · intro s hs
    exact ⟨h2 s hs, h3 ▸ subset_orAll hs⟩

/-! ### weights of disjoint unions -/

theorem testBit_lt_of_lt_two_pow {n N i : Nat} (h : n < 2 ^ N) (hi : n.testBit i = true) : i < N := by
  rcases Nat.lt_or_ge i N with h1 | h1
  · exact h1
  · have : n < 2 ^ i := Nat.lt_of_lt_of_le h (Nat.pow_le_pow_right (by omega) h1)
    rw [Nat.testBit_lt_two_pow this] at hi; cases hi

theorem countP_range_le {p : Nat → Bool} {M N : Nat} (hMN : M ≤ N) (hp : ∀ i, p i = true → i < M) :
    (List.range N).countP p = (List.range M).countP p := by
  obtain ⟨k, rfl⟩ := Nat.exists_eq_add_of_le hMN
  rw [List.range_add, List.countP_append, List.countP_map]
  have : List.countP (p ∘ fun x => M + x) (List.range k) = 0 := by
    rw [List.countP_eq_zero]; intro j _ hj; have := hp (M + j) hj; omega
  omega

theorem weight_eq_countP {n N : Nat} (h : n < 2 ^ N) :
    weight n = (List.range N).countP (fun i => n.testBit i) := by
  unfold weight bits
  rw [← List.countP_eq_length_filter]
  have h1 : ∀ i, n.testBit i = true → i < n.log2 + 1 :=
    fun i hi => testBit_lt_of_lt_two_pow Nat.lt_log2_self hi
  have h2 : ∀ i, n.testBit i = true → i < N := fun i hi => testBit_lt_of_lt_two_pow h hi
  rcases Nat.le_total (n.log2 + 1) N with hle | hle
  · exact (countP_range_le hle h1).symm
  · exact countP_range_le hle h2

theorem countP_or {α : Type} (p q : α → Bool) (l : List α) (h : ∀ x ∈ l, ¬ (p x = true ∧ q x = true)) :
    l.countP (fun x => p x || q x) = l.countP p + l.countP q := by
  induction l with
  | nil => rfl
  | cons a l ih =>
    have := ih (fun x hx => h x (List.mem_cons_of_mem _ hx))
    have ha := h a List.mem_cons_self
    simp only [List.countP_cons, this]
    cases hp : p a <;> cases hq : q a <;> simp_all <;> omega

theorem weight_or_disjoint {a b : Nat} (h : disjoint a b = true) : weight (a ||| b) = weight a + weight b := by
  have ha : a < 2 ^ (a + b) :=
    Nat.lt_of_lt_of_le Nat.lt_two_pow_self (Nat.pow_le_pow_right (by omega) (by omega))
  have hb : b < 2 ^ (a + b) :=
    Nat.lt_of_lt_of_le Nat.lt_two_pow_self (Nat.pow_le_pow_right (by omega) (by omega))
  rw [weight_eq_countP ha, weight_eq_countP hb, weight_eq_countP (Nat.or_lt_two_pow ha hb)]
  rw [← countP_or]
  · congr 1; funext i; exact Nat.testBit_or ..
  · intro i _; exact (disjoint_iff a b).1 h i

theorem weight_single_le (i : Nat) : weight (single i) ≤ 1 := by
  have hm : ∀ j ∈ bits (single i), i = j := by
    intro j hj; rw [mem_bits, testBit_single] at hj; simpa using hj
  have hs := bits_sorted (single i)
  unfold weight
  generalize bits (single i) = l at hm hs
  cases l with
  | nil => simp
  | cons a l =>
    cases l with
    | nil => simp
    | cons b l =>
      exfalso
      have h1 := hm a List.mem_cons_self
      have h2 := hm b (List.mem_cons_of_mem _ List.mem_cons_self)
      have h3 := (List.pairwise_cons.1 hs).1 b List.mem_cons_self
      omega

theorem disjoint_comm' (a b : Nat) : disjoint a b = disjoint b a := by
  unfold disjoint; rw [Nat.and_comm]

theorem subset_rfl' (a : Nat) : subset a a = true := by
  rw [subset_iff]; intro i hi; exact hi

theorem disjoint_of_subset {s t U V : Nat} (hs : subset s U = true) (ht : subset t V = true)
    (h : disjoint U V = true) : disjoint s t = true := by
  rw [subset_iff] at hs ht
  rw [disjoint_iff] at h ⊢
  intro i ⟨h1, h2⟩; exact h i ⟨hs i h1, ht i h2⟩

theorem disjoint_or_right {a x y : Nat} (h1 : disjoint a x = true) (h2 : disjoint a y = true) :
    disjoint a (x ||| y) = true := by
  rw [disjoint_iff] at h1 h2 ⊢
  intro i ⟨ha, hxy⟩
  rw [Nat.testBit_or, Bool.or_eq_true] at hxy
  rcases hxy with hx | hy
  · exact h1 i ⟨ha, hx⟩
  · exact h2 i ⟨ha, hy⟩

theorem disjoint_orAll_right {a : Nat} {l : List Nat} (h : ∀ s ∈ l, disjoint a s = true) :
    disjoint a (orAll l) = true := by
  rw [disjoint_iff]
  intro i ⟨ha, hl⟩
  rw [testBit_orAll, List.any_eq_true] at hl
  obtain ⟨s, hs, hi⟩ := hl
  exact (disjoint_iff a s).1 (h s hs) i ⟨ha, hi⟩

theorem orAll_cons (a : Nat) (l : List Nat) : orAll (a :: l) = a ||| orAll l := by
  rw [← List.singleton_append, orAll_append, orAll_singleton]

theorem weight_orAll_disjoint {l : List Nat} (h : l.Pairwise (fun a b => disjoint a b = true)) :
    weight (orAll l) = (l.map weight).sum := by
  induction l with
  | nil => simp [orAll_nil, (weight_eq_zero 0).2 rfl]
  | cons a l ih =>
    rw [List.pairwise_cons] at h
    rw [orAll_cons, weight_or_disjoint (disjoint_orAll_right h.1), ih h.2]; simp

theorem totWeight_eq_weight_orAll {l : List Obj}
    (h : l.Pairwise (fun a b => disjoint (cs a) (cs b) = true)) :
    totWeight l = weight (orAll (l.map cs)) := by
  rw [weight_orAll_disjoint (List.pairwise_map.2 h)]; simp [totWeight, Function.comp_def]

/-- with no more sets than bits, a root never gets more sets than it has bits -/
theorem chunkOf_le_weight {g w n tot : Nat} (htot : 0 < tot) (hn : n ≤ tot) : chunkOf g w n tot ≤ w := by
  unfold chunkOf ceilDiv
  have h1 : (g + w) * n = g * n + w * n := Nat.add_mul ..
  have h2 : w * n ≤ w * tot := Nat.mul_le_mul_left _ hn
  have h3 : ((g + w) * n + tot - 1) / tot ≤ ((g * n + tot - 1) + w * tot) / tot :=
    Nat.div_le_div_right (by omega)
  rw [Nat.add_mul_div_right _ _ htot] at h3
  omega

/-! ### disjointness of the result -/

abbrev Disj (l : List Nat) : Prop := l.Pairwise (fun a b => disjoint a b = true)

theorem distribStep_disj {d : Dump} {untl : Int} {n tot : Nat} {recurse : List Obj → Nat → List Nat}
    (hn : 0 < n) (htot : 0 < tot) (hntot : n ≤ tot) {pre : List Obj} {st : List Nat × Nat} {r : Obj}
    (hnorm : isNormal r.type = true)
    (hleafw : r.arity = 0 → weight (cs r) ≤ 1) (hdepth : r.depth < untl)
    (hrec : r.arity ≠ 0 → cs r ≠ 0 → ∀ k, 0 < k → k ≤ weight (cs r) →
      Spec k (cs r) (recurse (childObjs d r) k) ∧ Disj (recurse (childObjs d r) k))
    (hdis : disjoint (orAll (pre.map cs)) (cs r) = true)
    (h : StepInv n tot pre st) (hp : Disj st.1) :
    Disj (distribStep d untl n tot recurse st r).1 := by
  obtain ⟨out, g⟩ := st
  obtain ⟨hg, hlen, hnz, hun⟩ := h
  simp only at hg hlen hnz hun hp
  have hout : ∀ s ∈ out, ∀ t, subset t (cs r) = true → disjoint s t = true := by
    intro s hs t ht
    exact disjoint_of_subset (hun ▸ subset_orAll hs) ht hdis
  have hcw := chunkOf_le_weight (g := g) (w := weight (cs r)) htot hntot
  unfold distribStep
  rw [normalAncestor_of_normal d hnorm]
  simp only
  by_cases hw : weight (cs r) = 0
  · rw [if_pos hw]; exact hp
  · rw [if_neg hw]
    have hcs : cs r ≠ 0 := fun h0 => hw ((weight_eq_zero _).2 h0)
    have hadd := chunkOf_add g (weight (cs r)) n tot
    by_cases hleaf : (decide (r.arity = 0) || decide (chunkOf g (weight (cs r)) n tot ≤ 1) || decide (r.depth ≥ untl)) = true
    · rw [if_pos hleaf]
      by_cases hc : chunkOf g (weight (cs r)) n tot ≠ 0
      · rw [if_pos hc]
        have hc1 : chunkOf g (weight (cs r)) n tot = 1 := by
          by_cases har : r.arity = 0
          · have := hleafw har; omega
          · simp [har] at hleaf; omega
        simp only; rw [hc1, List.replicate_one, Disj, List.pairwise_append]
        exact ⟨hp, by simp, fun a ha b hb => by
          rw [List.mem_singleton.1 hb]; exact hout a ha _ (subset_rfl' _)⟩
      · rw [if_neg hc]
        have hc0 : chunkOf g (weight (cs r)) n tot = 0 := by omega
        have hgpos : 0 < g := by
          rcases Nat.eq_zero_or_pos g with hg0 | hgp
          · have := chunkOf_first_pos (w := weight (cs r)) (n := n) (tot := tot) (by omega) hn htot
            rw [hg0] at hc0; omega
          · exact hgp
        have hne : out ≠ [] := by
          have := ceilDiv_pos (Nat.mul_pos hgpos hn) htot
          intro he; rw [he] at hlen; simp at hlen; omega
        obtain ⟨l', x, hx⟩ : ∃ l' x, out = l' ++ [x] :=
          ⟨_, _, (List.dropLast_concat_getLast hne).symm⟩
        simp only; rw [hx, orIntoLast_append, Disj, List.pairwise_append]
        rw [hx, Disj, List.pairwise_append] at hp
        refine ⟨hp.1, by simp, ?_⟩
        intro a ha b hb; rw [List.mem_singleton.1 hb]
        exact disjoint_or_right (hp.2.2 a ha x (by simp))
          (hout a (by rw [hx]; exact List.mem_append_left _ ha) _ (subset_rfl' _))
    · rw [if_neg hleaf]
      have hl : r.arity ≠ 0 ∧ 1 < chunkOf g (weight (cs r)) n tot := by
        simp at hleaf; omega
      obtain ⟨⟨_, _, h3⟩, h4⟩ := hrec hl.1 hcs _ (by omega : 0 < chunkOf g (weight (cs r)) n tot) hcw
      simp only; rw [Disj, List.pairwise_append]
      exact ⟨hp, h4, fun a ha b hb => hout a ha b (h3 ▸ subset_orAll hb)⟩

theorem foldl_inv' {α σ : Type} (step : σ → α → σ) (P : List α → σ → Prop) (l : List α)
    (h : ∀ pre r post st, pre ++ r :: post = l → P pre st → P (pre ++ [r]) (step st r)) :
    ∀ (rest pre : List α) (st : σ), pre ++ rest = l → P pre st → P l (rest.foldl step st) := by
  intro rest
  induction rest with
  | nil => intro pre st he hp; rw [List.append_nil] at he; rw [← he]; exact hp
  | cons a rest ih =>
    intro pre st he hp
    rw [List.foldl_cons]
    exact ih (pre ++ [a]) (step st a) (by rw [← he]; simp) (h pre a rest st he hp)

theorem distribRec_children_spec {d : Dump} (ht : Tree d) (untl : Int) (rev : Bool) (f : Nat) {r : Obj}
    (hro : r ∈ d.objs) (hdep : (d.depth : Int) - r.depth ≤ f + 1) (har : r.arity ≠ 0) (hcs : cs r ≠ 0)
    (k : Nat) (hk : 0 < k) : Spec k (cs r) (distribRec d untl rev f (childObjs d r) k) := by
  have hch := children_good ht hro
  have hu := ((ht.union r hro).1 har).2.2
  rw [hu]
  apply distribRec_spec ht untl rev f (childObjs d r) k (fun c hc => ⟨(hch c hc).1, (hch c hc).2.1⟩) hk
  · rcases Nat.eq_zero_or_pos (totWeight (childObjs d r)) with h0 | hp
    · exact absurd (hu.trans (orAll_cs_eq_zero h0)) hcs
    · exact hp
  · intro c hc
    have := (hch c hc).2.2
    omega

/-- a leaf (a normal object without children) carries at most one bit: it is a PU -/
theorem leaf_weight_le {d : Dump} (ht : Tree d) {r : Obj} (hro : r ∈ d.objs) (hrn : isNormal r.type = true)
    (har : r.arity = 0) : weight (cs r) ≤ 1 := by
  by_cases hcs : cs r = 0
  · rw [(weight_eq_zero _).2 hcs]; omega
  · have hpu := (ht.union r hro).2 hrn har hcs
    rw [((ht.depth r hro).2.2.2.2.1 hpu).2.1]
    exact weight_single_le _

theorem distribRec_disjoint {d : Dump} (ht : Tree d) (untl : Int) (hu : (d.depth : Int) ≤ untl) (rev : Bool) :
    ∀ (f : Nat) (roots : List Obj) (n : Nat),
      (∀ r ∈ roots, r ∈ d.objs ∧ isNormal r.type = true) → 0 < n → n ≤ totWeight roots →
      (∀ r ∈ roots, (d.depth : Int) - r.depth ≤ f) →
      roots.Pairwise (fun a b => disjoint (cs a) (cs b) = true) →
      Disj (distribRec d untl rev f roots n) := by
  intro f
  induction f with
  | zero => intros; unfold distribRec; exact List.Pairwise.nil
  | succ f ih =>
    intro roots n hgood hn hntot hdep hpw
    have htot : 0 < totWeight roots := by omega
    unfold distribRec
    simp only
    generalize hord : (if rev = true then roots.reverse else roots) = order
    have hmem : ∀ r, r ∈ order ↔ r ∈ roots := by
      intro r; rw [← hord]; split <;> simp
    have hpwo : order.Pairwise (fun a b => disjoint (cs a) (cs b) = true) := by
      rw [← hord]; split
      · rw [List.pairwise_reverse]; exact hpw.imp (fun h => by rw [disjoint_comm']; exact h)
      · exact hpw
    have key := foldl_inv' (distribStep d untl n (totWeight roots) (distribRec d untl rev f))
      (fun pre st => StepInv n (totWeight roots) pre st ∧ Disj st.1) order
      (by
        intro pre r post st he ⟨hp1, hp2⟩
        have hr : r ∈ order := by rw [← he]; simp
        have hr' := (hmem r).1 hr
        obtain ⟨hro, hrn⟩ := hgood r hr'
        have hdr := hdep r hr'
        have hrd := ((ht.depth r hro).1 hrn).2
        have hsp := fun har hcs k hk =>
          distribRec_children_spec ht untl rev f hro (by omega) har hcs k hk
        refine ⟨distribStep_inv hn htot hrn hsp hp1, ?_⟩
        refine distribStep_disj hn htot hntot hrn (leaf_weight_le ht hro hrn) (by omega) ?_ ?_ hp1 hp2
        · intro har hcs k hk hkw
          refine ⟨hsp har hcs k hk, ?_⟩
          have hch := children_good ht hro
          have hu' := ((ht.union r hro).1 har).2.2
          apply ih (childObjs d r) k (fun c hc => ⟨(hch c hc).1, (hch c hc).2.1⟩) hk
          · rw [totWeight_eq_weight_orAll (ht.disjoint r hro), ← hu']; exact hkw
          · intro c hc
            have := (hch c hc).2.2
            omega
          · exact ht.disjoint r hro
        · rw [← he, List.pairwise_append] at hpwo
          rw [disjoint_comm']; apply disjoint_orAll_right
          intro s hs
          obtain ⟨p, hp, rfl⟩ := List.mem_map.1 hs
          rw [disjoint_comm']; exact hpwo.2.2 p hp r List.mem_cons_self)
      order [] ([], 0) rfl ⟨⟨rfl, by simp [ceilDiv_zero htot], by simp, rfl⟩, List.Pairwise.nil⟩
    exact key.2

/-- with pairwise disjoint roots, no depth limit above the PU level and at most as many sets as bits, the
    sets written are pairwise disjoint -/
theorem distrib_disjoint {d : Dump} (ht : Tree d) (roots : List Obj) (n : Nat) (untl : Int) (flags : Nat)
    (hgood : ∀ r ∈ roots, r ∈ d.objs ∧ isNormal r.type = true)
    (hn : 0 < n) (hf : flags ≤ 1)
    (hpw : roots.Pairwise (fun a b => disjoint (cs a) (cs b) = true))
    (hu : (d.depth : Int) ≤ untl) (hntot : n ≤ totWeight roots) :
    ∃ sets, distrib d roots n untl flags = some sets ∧
      sets.Pairwise (fun a b => disjoint a b = true) := by
  have hn' : n ≠ 0 := by omega
  have hfl : (flags != 0 && flags != 1) = false := by
    have : flags = 0 ∨ flags = 1 := by omega
    rcases this with h | h <;> simp [h]
  refine ⟨_, ?_, distribRec_disjoint ht untl hu (flags == 1) (d.depth + 1) roots n hgood hn hntot ?_ hpw⟩
  · unfold distrib
    simp only [hn', hfl, decide_false, Bool.or_self, Bool.false_eq_true, if_false]
  · intro r hr
    have := ((ht.depth r (hgood r hr).1).1 (hgood r hr).2).1
    omega

end Hw.Topo
