/-
  Hw.Topo.StageDecomp — the nodeset decomposition (WF clause `nodeset-decomposition`, established by the set stage:
  `SetStage.Decomp`) over the four-list tree, and its preservation by `remove_empty` on typed trees: the objects that are unlinked
  contribute no NUMA node (a removed memory object has an empty nodeset, a removed normal object has nothing attached below).
-/
import Hw.Topo.StageCompose
namespace Hw.Topo.Restrict.Stage
open Hw.Topo Hw.Topo.Restrict Hw.Topo.SetStage

mutual
/-- the nodes attached at or below a normal object (`SetStage.below` on the four-list tree) -/
def belowT : Tree → Nat
  | .node _ ns ms _ _ => orL (ms.map (fun m => m.obj.nodeset)) ||| belowTL ns
def belowTL : List Tree → Nat
  | [] => 0
  | t :: ts => belowT t ||| belowTL ts
end

theorem belowTL_eq (l : List Tree) : belowTL l = orL (l.map belowT) := by
  induction l with
  | nil => rfl
  | cons t ts ih => rw [belowTL, ih]; rfl

theorem belowT_node (o : RObj) (ns ms ios mis : List Tree) :
    belowT (.node o ns ms ios mis) = orL (ms.map (fun m => m.obj.nodeset)) ||| orL (ns.map belowT) := by
  rw [belowT, belowTL_eq]

/-- `SetStage.Decomp` on the four-list tree -/
inductive DecompT : Nat → Tree → Prop
  | node {inh : Nat} {o : RObj} {ns ms ios mis : List Tree} :
      (ms.map (fun m => m.obj.nodeset)).Pairwise Dj →
      (orL (ms.map (fun m => m.obj.nodeset)) :: ns.map belowT).Pairwise Dj →
      Dj inh (belowT (.node o ns ms ios mis)) →
      o.nodeset = inh ||| belowT (.node o ns ms ios mis) →
      (∀ k ∈ ns, DecompT (inh ||| orL (ms.map (fun m => m.obj.nodeset))) k) →
      DecompT inh (.node o ns ms ios mis)

/-! ### lists of masks from which zeros are dropped -/

inductive DropZ : List Nat → List Nat → Prop
  | nil : DropZ [] []
  | keep (x : Nat) {l' l : List Nat} : DropZ l' l → DropZ (x :: l') (x :: l)
  | drop {l' l : List Nat} : DropZ l' l → DropZ l' (0 :: l)

theorem DropZ.sublist {l' l : List Nat} (h : DropZ l' l) : l'.Sublist l := by
  induction h with
  | nil => exact List.Sublist.slnil
  | keep x _ ih => exact ih.cons_cons x
  | drop _ ih => exact ih.cons 0

theorem DropZ.orL_eq {l' l : List Nat} (h : DropZ l' l) : SetStage.orL l' = SetStage.orL l := by
  induction h with
  | nil => rfl
  | keep x _ ih => rw [orL_cons, orL_cons, ih]
  | drop _ ih => rw [orL_cons, ih, Nat.zero_or]

theorem DropZ.append {a' a b' b : List Nat} (h1 : DropZ a' a) (h2 : DropZ b' b) : DropZ (a' ++ b') (a ++ b) := by
  induction h1 with
  | nil => exact h2
  | keep x _ ih => exact .keep x ih
  | drop _ ih => exact .drop ih

theorem DropZ.nil_orL {l : List Nat} (h : DropZ [] l) : SetStage.orL l = 0 := by rw [← h.orL_eq]; rfl

theorem typedL_cons {k : Nat → Bool} {t : Tree} {ts : List Tree} (h : typedL k (t :: ts) = true) :
    k t.obj.type = true ∧ typedT t = true ∧ typedL k ts = true := by
  rw [typedL] at h
  simp only [Bool.and_eq_true] at h
  exact ⟨h.1.1, h.1.2, h.2⟩

theorem not_normal_of_memory {ty : Nat} (h : isMemory ty = true) : isNormal ty = false := by
  unfold isMemory tNUMA tMEMCACHE at h
  unfold isNormal tGROUP
  simp only [Bool.or_eq_true, beq_iff_eq] at h
  rcases h with h | h <;> subst h <;> decide

mutual
/-- a survivor keeps its object and what is attached below it; a removed object had nothing attached below it, and an empty nodeset
    if it is not of a normal type -/
theorem removeEmptyT_below : ∀ t : Tree, typedT t = true →
    (∀ t' ∈ (removeEmptyT t).kept, belowT t' = belowT t ∧ t'.obj = t.obj) ∧
    ((removeEmptyT t).kept = [] → belowT t = 0 ∧ (isNormal t.obj.type = false → t.obj.nodeset = 0))
  | .node o ns ms ios mis => by
    intro h
    have hn := typedT_node o ns ms ios mis h
    have h1 := removeEmptyL_below isNormal ns hn.2.2.2.2.1
    have h2 := removeEmptyL_below isMemory ms hn.2.2.2.2.2.1
    have h2n := h2.2.1 (fun t ht => not_normal_of_memory (((typedL_iff _ _).1 hn.2.2.2.2.2.1 t ht).1))
    rw [removeEmptyT]
    split
    · rename_i hc
      simp only [Bool.and_eq_true, List.isEmpty_iff] at hc
      refine ⟨fun _ ht => by simp at ht, fun _ => ⟨?_, fun hnn => ?_⟩⟩
      · rw [belowT_node]
        have e1 := h1.1; rw [hc.1.1.1] at e1
        have e2 := h2n; rw [hc.1.1.2] at e2
        rw [DropZ.nil_orL e1, DropZ.nil_orL e2]; rfl
      · have he := hc.2
        unfold emptySet at he
        simp only [Tree.obj] at hnn
        rw [hnn] at he
        simp only [Tree.obj]
        simpa using he
    · refine ⟨fun t' ht' => ?_, fun hh => by simp at hh⟩
      rw [List.mem_singleton] at ht'
      subst ht'
      refine ⟨?_, rfl⟩
      rw [belowT_node, belowT_node, h1.1.orL_eq, h2n.orL_eq]
theorem removeEmptyL_below (k : Nat → Bool) : ∀ l : List Tree, typedL k l = true →
    DropZ ((removeEmptyL l).kept.map belowT) (l.map belowT) ∧
    ((∀ t ∈ l, isNormal t.obj.type = false) →
      DropZ ((removeEmptyL l).kept.map (fun m => m.obj.nodeset)) (l.map (fun m => m.obj.nodeset))) ∧
    (∀ t' ∈ (removeEmptyL l).kept, ∃ t ∈ l, t' ∈ (removeEmptyT t).kept)
  | [] => fun _ => by rw [removeEmptyL]; exact ⟨.nil, fun _ => .nil, fun _ h => by simp at h⟩
  | t :: ts => by
    intro h
    have hc := typedL_cons h
    have h1 := removeEmptyT_below t hc.2.1
    have h2 := removeEmptyL_below k ts hc.2.2
    rw [removeEmptyL]
    simp only [List.map_append, List.map_cons]
    have hcases := removeEmptyT_kept_cases t
    refine ⟨?_, fun hm => ?_, fun t' ht' => ?_⟩
    · rcases hcases with ⟨hk, _⟩ | ⟨t2, hk, _⟩
      · rw [hk, (h1.2 hk).1]; exact .drop h2.1
      · rw [hk]
        have := (h1.1 t2 (by rw [hk]; exact List.mem_singleton.2 rfl)).1
        simp only [List.map_cons, List.map_nil, List.singleton_append, this]
        exact .keep _ h2.1
    · have hm2 := h2.2.1 (fun x hx => hm x (List.mem_cons_of_mem _ hx))
      rcases hcases with ⟨hk, _⟩ | ⟨t2, hk, _⟩
      · rw [hk, (h1.2 hk).2 (hm t List.mem_cons_self)]; exact .drop hm2
      · rw [hk]
        have := (h1.1 t2 (by rw [hk]; exact List.mem_singleton.2 rfl)).2
        simp only [List.map_cons, List.map_nil, List.singleton_append, this]
        exact .keep _ hm2
    · rcases List.mem_append.1 ht' with ht' | ht'
      · exact ⟨t, List.mem_cons_self, ht'⟩
      · obtain ⟨x, hx, hx'⟩ := h2.2.2 t' ht'
        exact ⟨x, List.mem_cons_of_mem _ hx, hx'⟩
end

theorem pairwise_dropZ {l' l : List Nat} (h : DropZ l' l) (hp : l.Pairwise Dj) : l'.Pairwise Dj := hp.sublist h.sublist

/-- **remove_empty preserves the nodeset decomposition** (typed trees) -/
theorem removeEmptyT_decomp : ∀ (t : Tree) (inh : Nat), typedT t = true → DecompT inh t →
    ∀ t' ∈ (removeEmptyT t).kept, DecompT inh t'
  | .node o ns ms ios mis, inh => by
    intro h hd t' ht'
    have hn := typedT_node o ns ms ios mis h
    have h1 := removeEmptyL_below isNormal ns hn.2.2.2.2.1
    have h2 := removeEmptyL_below isMemory ms hn.2.2.2.2.2.1
    have h2n := h2.2.1 (fun t ht => not_normal_of_memory (((typedL_iff _ _).1 hn.2.2.2.2.2.1 t ht).1))
    have hb := (removeEmptyT_below _ h).1 t' ht'
    rw [removeEmptyT] at ht'
    split at ht'
    · simp at ht'
    · rw [List.mem_singleton] at ht'
      subst ht'
      cases hd with
      | node d1 d2 d3 d4 d5 =>
        refine .node (pairwise_dropZ h2n d1) ?_ (by rw [hb.1]; exact d3) (by rw [hb.1]; exact d4) ?_
        · rw [h2n.orL_eq]
          exact d2.sublist (h1.1.sublist.cons_cons _)
        · intro k' hk'
          obtain ⟨k, hk, hkk⟩ := h1.2.2 k' hk'
          rw [h2n.orL_eq]
          exact removeEmptyT_decomp k _ ((typedL_iff _ _).1 hn.2.2.2.2.1 k hk).2 (d5 k hk) k' hkk
termination_by t => sizeOf t
decreasing_by
  simp_wf
  have := List.sizeOf_lt_of_mem hk
  omega

theorem removeEmpty_decomp (t t' : Tree) (inh : Nat) (h : removeEmpty t = some t') (ht : typedT t = true) (hd : DecompT inh t) :
    DecompT inh t' := by
  unfold removeEmpty at h
  cases hk : (removeEmptyT t).kept with
  | nil => rw [hk] at h; simp at h
  | cons x xs =>
    rw [hk] at h
    simp only [List.head?_cons, Option.some.injEq] at h
    subst h
    exact removeEmptyT_decomp t inh ht hd x (by rw [hk]; exact List.mem_cons_self)

/-! ### from the set-stage tree -/

theorem toTree_below (dc : Deco) : ∀ s : ST, belowT (toTree dc s) = below s := by
  apply ST.ind
  intro o kids mem ihk _
  rw [toTree, belowT_node, below_node, toTreeL_eq, toTreeL_eq]
  simp only [List.map_map]
  congr 1
  · congr 1
    apply List.map_congr_left
    intro m _
    simp only [Function.comp, toTree_obj, robj]
  · congr 1
    apply List.map_congr_left
    intro k hk
    exact ihk k hk

theorem decompT_toTree (dc : Deco) : ∀ (s : ST) (inh : Nat), Decomp inh s → DecompT inh (toTree dc s) := by
  intro s
  induction s using ST.ind with
  | h o kids mem ihk _ =>
    intro inh hd
    cases hd with
    | node d1 d2 d3 d4 d5 =>
      have e1 : (toTreeL dc mem).map (fun m => m.obj.nodeset) = mem.map (fun m => m.o.nodeset) := by
        rw [toTreeL_eq, List.map_map]
        apply List.map_congr_left
        intro m _
        simp only [Function.comp, toTree_obj, robj]
      have e2 : (toTreeL dc kids).map belowT = kids.map below := by
        rw [toTreeL_eq, List.map_map]
        apply List.map_congr_left
        intro k _
        exact toTree_below dc k
      have e3 := toTree_below dc (.node o kids mem)
      rw [toTree] at e3 ⊢
      refine .node (by rw [e1]; exact d1) (by rw [e1, e2]; exact d2) (by rw [e3]; exact d3) (by rw [e3]; exact d4) ?_
      intro k' hk'
      rw [toTreeL_eq] at hk'
      obtain ⟨k, hk, rfl⟩ := List.mem_map.1 hk'
      rw [e1]
      exact ihk k hk _ (d5 k hk)

end Hw.Topo.Restrict.Stage
