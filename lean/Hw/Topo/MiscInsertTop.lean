/-
  Hw.Topo.MiscInsertTop — hwloc_topology_insert_misc_object (dump-level model) preserves the topology-level clauses of
  well-formedness (levels, type depths, uniqueness of gp / os indexes, header).
-/
import Hw.Topo.MiscInsertWF
namespace Hw.Topo.MiscIns
open Hw.Topo Hw.Topo.Hist

/-! ### the levels after the call -/

def shL (pos : Nat) (l : Level) : Level := { l with objs := l.objs.map (shI pos) }
def insL (pos k : Nat) (l : Level) : Level := { l with objs := insAt (l.objs.map (shI pos)) k (pos : Int) }

theorem insLevels_cons (pos k : Nat) (l : Level) (ls : List Level) :
    insLevels pos k (l :: ls) = if (l.depth == -7) = true then insL pos k l :: ls.map (shL pos) else shL pos l :: insLevels pos k ls := rfl

theorem insLevels_length (pos k : Nat) (ls : List Level) : (insLevels pos k ls).length = ls.length := by
  induction ls with
  | nil => rfl
  | cons l ls ih =>
    rw [insLevels_cons]; split
    · simp
    · simp [ih]

/-- lookup of a level by depth after the call -/
theorem find_insLevels (pos k : Nat) (dep : Int) (ls : List Level) :
    (insLevels pos k ls).find? (fun l => l.depth == dep) =
      (ls.find? (fun l => l.depth == dep)).map (fun l => if (dep == -7) = true then insL pos k l else shL pos l) := by
  induction ls with
  | nil => rfl
  | cons l ls ih =>
    rw [insLevels_cons]
    have ed1 : (insL pos k l).depth = l.depth := rfl
    have ed2 : (shL pos l).depth = l.depth := rfl
    by_cases h7 : (l.depth == -7) = true
    · rw [if_pos h7]
      have e7 : l.depth = -7 := by simpa using h7
      by_cases hd : (dep == -7) = true
      · have ed : dep = -7 := by simpa using hd
        have h2 : (l.depth == dep) = true := by rw [e7, ed]; rfl
        simp only [List.find?_cons, ed1, h2, Option.map_some, hd, if_true]
      · have ed : dep ≠ -7 := by simpa using hd
        have h2 : (l.depth == dep) = false := by rw [e7, beq_eq_false_iff_ne]; exact fun e => ed e.symm
        simp only [List.find?_cons, ed1, h2, List.find?_map, hd, Bool.false_eq_true, if_false]
        rfl
    · rw [if_neg h7]
      by_cases hm : (l.depth == dep) = true
      · have : (dep == -7) = false := by
          rw [beq_eq_false_iff_ne]
          intro b
          have a : l.depth = dep := by simpa using hm
          exact h7 (by rw [a, b]; rfl)
        simp only [List.find?_cons, ed2, hm, Option.map_some, this, Bool.false_eq_true, if_false]
      · have hm' : (l.depth == dep) = false := by simpa using hm
        simp only [List.find?_cons, ed2, hm', ih]

/-- every level after the call comes from an old one: renamed, or (the level of depth -7) renamed with the new id inserted -/
theorem mem_insLevels (pos k : Nat) (ls : List Level) (hnd : (ls.map (·.depth)).Nodup) (l' : Level) (hl' : l' ∈ insLevels pos k ls) :
    ∃ l ∈ ls, (l' = shL pos l ∧ l.depth ≠ -7) ∨ (l' = insL pos k l ∧ l.depth = -7) := by
  induction ls with
  | nil => cases hl'
  | cons l ls ih =>
    rw [List.map_cons, List.nodup_cons] at hnd
    rw [insLevels_cons] at hl'
    by_cases h7 : (l.depth == -7) = true
    · rw [if_pos h7] at hl'
      have e7 : l.depth = -7 := by simpa using h7
      rcases List.mem_cons.1 hl' with e | hm
      · exact ⟨l, List.mem_cons_self, Or.inr ⟨e, e7⟩⟩
      · obtain ⟨l0, hl0, e⟩ := List.mem_map.1 hm
        refine ⟨l0, List.mem_cons_of_mem _ hl0, Or.inl ⟨e.symm, ?_⟩⟩
        intro e0
        exact hnd.1 (by rw [e7, ← e0]; exact List.mem_map_of_mem hl0)
    · rw [if_neg h7] at hl'
      rcases List.mem_cons.1 hl' with e | hm
      · exact ⟨l, List.mem_cons_self, Or.inl ⟨e, by simpa using h7⟩⟩
      · obtain ⟨l0, hl0, hh⟩ := ih hnd.2 hm
        exact ⟨l0, List.mem_cons_of_mem _ hl0, hh⟩

/-- a property of levels that only reads depth and type is not affected -/
theorem all_insLevels (pos k : Nat) (f : Level → Bool) (hf : ∀ l objs, f { l with objs := objs } = f l) (ls : List Level) :
    (insLevels pos k ls).all f = ls.all f := by
  induction ls with
  | nil => rfl
  | cons l ls ih =>
    rw [insLevels_cons]; split
    · rw [List.all_cons, List.all_cons, List.all_map]
      congr 1
      · exact hf l _
      · apply List.all_congr rfl; intro x; exact hf x _
    · rw [List.all_cons, List.all_cons, ih]
      congr 1
      exact hf l _

theorem filter_insLevels_depths (pos k : Nat) (f : Level → Bool) (hf : ∀ l objs, f { l with objs := objs } = f l) (ls : List Level) :
    ((insLevels pos k ls).filter f).map (·.depth) = (ls.filter f).map (·.depth) := by
  induction ls with
  | nil => rfl
  | cons l ls ih =>
    rw [insLevels_cons]; split
    · have e1 : f (insL pos k l) = f l := hf l _
      have e2 : ((ls.map (shL pos)).filter f).map (·.depth) = (ls.filter f).map (·.depth) := by
        rw [List.filter_map, List.map_map]
        have : (f ∘ shL pos) = f := by funext x; exact hf x _
        rw [this]; rfl
      rw [List.filter_cons, List.filter_cons, e1]
      split
      · rw [List.map_cons, List.map_cons, e2]; rfl
      · exact e2
    · have e1 : f (shL pos l) = f l := hf l _
      rw [List.filter_cons, List.filter_cons, e1]
      split
      · rw [List.map_cons, List.map_cons, ih]; rfl
      · exact ih

theorem sum_insLevels (pos k : Nat) (ls : List Level) (hex : ∃ l ∈ ls, l.depth = -7) :
    ((insLevels pos k ls).map (fun l => l.objs.length)).sum = (ls.map (fun l => l.objs.length)).sum + 1 := by
  induction ls with
  | nil => obtain ⟨l, hl, _⟩ := hex; cases hl
  | cons l ls ih =>
    rw [insLevels_cons]
    by_cases h7 : (l.depth == -7) = true
    · rw [if_pos h7]
      simp only [List.map_cons, List.sum_cons, List.map_map]
      have : ((fun l => l.objs.length) ∘ shL pos) = (fun l => l.objs.length) := by
        funext x; simp [shL]
      rw [this]
      show (insAt (l.objs.map (shI pos)) k (pos : Int)).length + _ = _
      rw [insAt_length, List.length_map]; omega
    · rw [if_neg h7]
      obtain ⟨l0, hl0, e0⟩ := hex
      have : ∃ l ∈ ls, l.depth = -7 := by
        rcases List.mem_cons.1 hl0 with e | hm
        · subst e; rw [e0] at h7; exact absurd rfl h7
        · exact ⟨l0, hm, e0⟩
      simp only [List.map_cons, List.sum_cons, ih this]
      show (l.objs.map (shI pos)).length + _ = _
      rw [List.length_map]; omega

section
variable {d : Dump} (h : WF d) (p pos k : Nat) (name : Option String) (skip : Nat)
  (hp : p < pos) (hpos : pos ≤ d.objs.length)

local notation "DN" => after d p pos k name skip
local notation "U" => upd p pos k (lastId d p)
local notation "NEW" => newObj d p pos k name skip

theorem levelOf_after (dep : Int) :
    levelOf DN dep = (levelOf d dep).map (fun l => if (dep == -7) = true then insL pos k l else shL pos l) :=
  find_insLevels pos k dep d.levels

include hp hpos in
theorem after_get0 : (DN).objs[0]? = (d.objs[0]?).map U := by
  have := after_get_sh d p pos k name skip hpos 0
  rwa [shN_of_lt pos 0 (by omega)] at this

include h hp hpos in
theorem t_nobjs : topClause "nobjs" DN (mkAux DN) = true := by
  have c := h.topc "nobjs"
  simp only [topClause, topClauses, List.find?, String.reduceBEq, Bool.and_eq_true, beq_iff_eq, decide_eq_true_eq] at c ⊢
  rw [after_length]
  show d.objs.length + 1 = d.nobjs + 1 ∧ 0 < d.nobjs + 1
  omega

include h hp hpos in
theorem t_root_is_machine : topClause "root-is-machine" DN (mkAux DN) = true := by
  have c := h.topc "root-is-machine"
  simp only [topClause, topClauses, List.find?, String.reduceBEq] at c ⊢
  rw [after_get0 p pos k name skip hp hpos]
  cases h0 : d.objs[0]? with
  | none => rw [h0] at c; simp at c
  | some r =>
    rw [h0] at c
    simp only [Option.map_some, Bool.and_eq_true, beq_iff_eq] at c ⊢
    refine ⟨c.1, ⟨c.2.1.1, c.2.1.2⟩, ?_⟩
    rw [upd_parent, c.2.2]; exact shI_m1 pos

include h hp in
theorem t_machine_only_at_root : topClause "machine-only-at-root" DN (mkAux DN) = true := by
  have c := h.topc "machine-only-at-root"
  simp only [topClause, topClauses, List.find?, String.reduceBEq, List.all_eq_true] at c ⊢
  intro o' ho'
  rcases (mem_after d p pos k name skip o').1 ho' with rfl | ⟨o, ho, rfl⟩
  · rfl
  · have := c o ho
    simp only [Bool.or_eq_true, bne_iff_ne, beq_iff_eq] at this ⊢
    rcases this with a | a
    · exact Or.inl a
    · right; rw [upd_id, a]; exact shN_of_lt pos 0 (by omega)

include h hp in
theorem t_level0_is_root : topClause "level0-is-root" DN (mkAux DN) = true := by
  have c := h.topc "level0-is-root"
  simp only [topClause, topClauses, List.find?, String.reduceBEq] at c ⊢
  rw [levelOf_after]
  cases h0 : levelOf d 0 with
  | none => rw [h0] at c; cases c
  | some l =>
    rw [h0] at c
    simp only [Bool.and_eq_true, beq_iff_eq] at c
    simp only [Option.map_some, show ((0 : Int) == -7) = false by decide, Bool.false_eq_true, if_false, Bool.and_eq_true, beq_iff_eq]
    refine ⟨?_, c.2⟩
    show l.objs.map (shI pos) = [0]
    rw [c.1]
    show [shI pos 0] = [0]
    rw [shI_of_lt pos 0 (by omega)]

include h in
theorem t_pu_level_deepest : topClause "pu-level-deepest" DN (mkAux DN) = true := by
  have c := h.topc "pu-level-deepest"
  simp only [topClause, topClauses, List.find?, String.reduceBEq, Bool.and_eq_true, decide_eq_true_eq, List.all_eq_true] at c ⊢
  obtain ⟨⟨c1, c2⟩, c3⟩ := c
  refine ⟨⟨c1, ?_⟩, ?_⟩
  · have ed : (DN).depth = d.depth := rfl
    rw [ed, levelOf_after]
    cases hl : levelOf d ((d.depth : Int) - 1) with
    | none => rw [hl] at c2; cases c2
    | some l =>
      rw [hl] at c2
      have c2' : (l.type == (tPU : Int) && !l.objs.isEmpty) = true := c2
      have e7 : (((d.depth : Int) - 1) == -7) = false := by rw [beq_eq_false_iff_ne]; omega
      simp only [Option.map_some, e7, Bool.false_eq_true, if_false]
      show (l.type == (tPU : Int) && !(l.objs.map (shI pos)).isEmpty) = true
      simpa using c2'
  · intro o' ho'
    rcases (mem_after d p pos k name skip o').1 ho' with rfl | ⟨o, ho, rfl⟩
    · rfl
    · exact c3 o ho

include h in
theorem t_numa_exists : topClause "numa-exists" DN (mkAux DN) = true := by
  have c := h.topc "numa-exists"
  simp only [topClause, topClauses, List.find?, String.reduceBEq] at c ⊢
  rw [levelOf_after]
  cases hl : levelOf d (-3) with
  | none => rw [hl] at c; cases c
  | some l =>
    rw [hl] at c
    simp only [Option.map_some, show ((-3 : Int) == -7) = false by decide, Bool.false_eq_true, if_false]
    show (!(l.objs.map (shI pos)).isEmpty) = true
    simpa using c

include h in
theorem t_levels_listed : topClause "levels-listed" DN (mkAux DN) = true := by
  have c := h.topc "levels-listed"
  simp only [topClause, topClauses, List.find?, String.reduceBEq] at c ⊢
  have e : ∀ dep, (levelOf DN dep).isSome = (levelOf d dep).isSome := by
    intro dep; rw [levelOf_after]; cases levelOf d dep <;> rfl
  simp only [e]
  have el : (DN).levels.length = d.levels.length := insLevels_length pos k d.levels
  rw [el]
  exact c

include h in
theorem t_levels_cover_objects : topClause "levels-cover-objects" DN (mkAux DN) = true := by
  have c := h.topc "levels-cover-objects"
  simp only [topClause, topClauses, List.find?, String.reduceBEq, beq_iff_eq] at c ⊢
  rw [after_length]
  have hex : ∃ l ∈ d.levels, l.depth = -7 := by
    have c2 := h.topc "levels-listed"
    simp only [topClause, topClauses, List.find?, String.reduceBEq, Bool.and_eq_true, List.all_eq_true] at c2
    have := c2.1.2 (-7) (by simp)
    cases hl : levelOf d (-7) with
    | none => rw [hl] at this; cases this
    | some l =>
      unfold levelOf at hl
      exact ⟨l, List.mem_of_find?_eq_some hl, by simpa using List.find?_some hl⟩
  show ((insLevels pos k d.levels).map (fun l => l.objs.length)).sum = _
  rw [sum_insLevels pos k d.levels hex, c]

include h in
theorem t_normal_level_types : topClause "normal-level-types" DN (mkAux DN) = true := by
  have c := h.topc "normal-level-types"
  simp only [topClause, topClauses, List.find?, String.reduceBEq] at c ⊢
  show (insLevels pos k d.levels).all _ = true
  rw [all_insLevels pos k _ (fun l objs => rfl)]
  exact c

include h in
theorem t_type_depth_inverse : topClause "type-depth-inverse" DN (mkAux DN) = true := by
  have c := h.topc "type-depth-inverse"
  simp only [topClause, topClauses, List.find?, String.reduceBEq, Bool.and_eq_true, List.all_eq_true] at c ⊢
  refine ⟨c.1, ?_⟩
  intro t ht
  have ct := c.2 t ht
  show (match specialDepth t with
    | some sd => ((d.typeDepths[t]?).getD 0) == sd
    | none => match (insLevels pos k d.levels).filter (fun l => decide (0 ≤ l.depth) && l.type == (t : Int)) with
      | [] => ((d.typeDepths[t]?).getD 0) == -1
      | [l] => ((d.typeDepths[t]?).getD 0) == l.depth
      | _ => ((d.typeDepths[t]?).getD 0) == -2) = true
  cases hs : specialDepth t with
  | some sd => rw [hs] at ct; exact ct
  | none =>
    rw [hs] at ct
    have hm := filter_insLevels_depths pos k (fun l => decide (0 ≤ l.depth) && l.type == (t : Int)) (fun l objs => rfl) d.levels
    have key : ∀ (A B : List Level) (td : Int), A.map (·.depth) = B.map (·.depth) →
        (match A with | [] => td == -1 | [l] => td == l.depth | _ => td == -2) =
        (match B with | [] => td == -1 | [l] => td == l.depth | _ => td == -2) := by
      intro A B td e
      match A, B, e with
      | [], [], _ => rfl
      | [a], [b], e => simp only [List.map_cons, List.map_nil, List.cons.injEq, and_true] at e; simp only [e]
      | _ :: _ :: _, _ :: _ :: _, _ => rfl
      | [], _ :: _, e => simp at e
      | _ :: _, [], e => simp at e
      | [_], _ :: _ :: _, e => simp at e
      | _ :: _ :: _, [_], e => simp at e
    simp only
    rw [key _ _ _ hm]
    exact ct

include h hp hpos in
theorem t_allowed_sets : topClause "allowed-sets" DN (mkAux DN) = true := by
  have c := h.topc "allowed-sets"
  simp only [topClause, topClauses, List.find?, String.reduceBEq] at c ⊢
  rw [after_get0 p pos k name skip hp hpos]
  cases h0 : d.objs[0]? with
  | none => rw [h0] at c; cases c
  | some r => rw [h0] at c; exact c

theorem filter_type_after (ty : Nat) (hty : ty ≠ tMISC) :
    ((DN).objs.filter (fun o => o.type == ty)).map (·.osidx) = (d.objs.filter (fun o => o.type == ty)).map (·.osidx) := by
  show ((insAt (d.objs.map U) pos NEW).filter (fun o => o.type == ty)).map (·.osidx) = _
  rw [insAt_filter_neg _ _ _ _ (by show (tMISC == ty) = false; rw [beq_eq_false_iff_ne]; exact fun e => hty e.symm)]
  rw [List.filter_map, List.map_map]
  rfl

include h in
theorem t_pu_osindex_unique : topClause "pu-osindex-unique" DN (mkAux DN) = true := by
  have c := h.topc "pu-osindex-unique"
  simp only [topClause, topClauses, List.find?, String.reduceBEq] at c ⊢
  rw [filter_type_after p pos k name skip tPU (by decide)]; exact c

include h in
theorem t_numa_osindex_unique : topClause "numa-osindex-unique" DN (mkAux DN) = true := by
  have c := h.topc "numa-osindex-unique"
  simp only [topClause, topClauses, List.find?, String.reduceBEq] at c ⊢
  rw [filter_type_after p pos k name skip tNUMA (by decide)]; exact c

theorem le_foldl_max (l : List Obj) (m : Nat) : m ≤ l.foldl (fun m o => max m o.gp) m ∧ ∀ o ∈ l, o.gp ≤ l.foldl (fun m o => max m o.gp) m := by
  induction l generalizing m with
  | nil => exact ⟨Nat.le_refl _, fun _ h => by cases h⟩
  | cons x xs ih =>
    simp only [List.foldl_cons]
    have := ih (max m x.gp)
    refine ⟨by omega, ?_⟩
    intro o ho
    rcases List.mem_cons.1 ho with rfl | hm
    · omega
    · exact this.2 o hm

theorem gp_le_maxGp (d : Dump) (o : Obj) (ho : o ∈ d.objs) : o.gp ≤ maxGp d := (le_foldl_max d.objs 0).2 o ho

theorem after_gps : (DN).objs.map (·.gp) = insAt (d.objs.map (·.gp)) pos (maxGp d + 1 + skip) := by
  show (insAt (d.objs.map U) pos NEW).map (·.gp) = _
  rw [insAt_map, List.map_map]; rfl

include h in
theorem t_gp_index_unique : topClause "gp-index-unique" DN (mkAux DN) = true := by
  have c := h.topc "gp-index-unique"
  simp only [topClause, topClauses, List.find?, String.reduceBEq, decide_eq_true_eq] at c ⊢
  rw [after_gps, (insAt_perm _ _ _).nodup_iff, List.nodup_cons]
  refine ⟨?_, c⟩
  intro hm
  obtain ⟨o, ho, e⟩ := List.mem_map.1 hm
  have := gp_le_maxGp d o ho
  omega

include h in
theorem t_depth_le_objects : topClause "depth-le-objects" DN (mkAux DN) = true := by
  have c := h.topc "depth-le-objects"
  simp only [topClause, topClauses, List.find?, String.reduceBEq, decide_eq_true_eq] at c ⊢
  rw [after_length]
  show d.depth ≤ _
  omega

include h in
theorem t_normal_levels_nonempty : topClause "normal-levels-nonempty" DN (mkAux DN) = true := by
  have c := h.topc "normal-levels-nonempty"
  simp only [topClause, topClauses, List.find?, String.reduceBEq, List.all_eq_true] at c ⊢
  intro l' hl'
  obtain ⟨l, hl, hh⟩ := mem_insLevels pos k d.levels h.level_depths_nodup l' hl'
  have cl := c l hl
  rcases hh with ⟨rfl, _⟩ | ⟨rfl, e7⟩
  · show (decide (l.depth < 0) || !(l.objs.map (shI pos)).isEmpty) = true
    simpa using cl
  · show (decide (l.depth < 0) || _) = true
    rw [e7]; rfl

end
end Hw.Topo.MiscIns

