/-
  Hw.Topo.AuxInh — the `inh` component of `mkAux` (nodes inherited from the ancestors' memory children) is a top-down fold;
  for ANY dump whose ids are positions and whose parents come first it satisfies the expected recurrence.
-/
import Hw.Io.SyntheticAux
namespace Hw.Topo

def inhStep (memOr : List Nat) (inh : List Nat) (o : Obj) : List Nat :=
  if isNormal o.type && decide (0 ≤ o.parent) then
    inh.set o.id (getN inh o.parent.toNat ||| getN memOr o.parent.toNat) else inh

def inhFold (d : Dump) : List Nat :=
  d.objs.foldl (inhStep (auxFold d).memOr) (List.replicate d.objs.length 0)

theorem mkAux_inh (d : Dump) : (mkAux d).inh = inhFold d := rfl

theorem inhStep_length (M inh : List Nat) (o : Obj) : (inhStep M inh o).length = inh.length := by
  unfold inhStep
  split
  · simp
  · rfl

theorem inhStep_other (M inh : List Nat) (o : Obj) (j : Nat) (h : o.id ≠ j) :
    getN (inhStep M inh o) j = getN inh j := by
  unfold inhStep
  split
  · rw [getN_set]
    simp [h]
  · rfl

theorem inhFoldl_length (M : List Nat) : ∀ (l : List Obj) (inh : List Nat),
    (l.foldl (inhStep M) inh).length = inh.length := by
  intro l
  induction l with
  | nil => intro inh; rfl
  | cons o l ih =>
    intro inh
    rw [List.foldl_cons, ih, inhStep_length]

theorem inhFoldl_other (M : List Nat) (j : Nat) : ∀ (l : List Obj) (inh : List Nat),
    (∀ x ∈ l, x.id ≠ j) → getN (l.foldl (inhStep M) inh) j = getN inh j := by
  intro l
  induction l with
  | nil => intro inh _; rfl
  | cons o l ih =>
    intro inh h
    rw [List.foldl_cons, ih _ (fun x hx => h x (List.mem_cons_of_mem _ hx)),
      inhStep_other M inh o j (h o List.mem_cons_self)]

theorem getN_replicate_zero (n j : Nat) : getN (List.replicate n 0) j = 0 := by
  unfold getN
  by_cases h : j < n
  · simp [h]
  · simp [h]

theorem inh_rec_split (M : List Nat) (n : Nat) (pre post : List Obj) (o : Obj)
    (hlt : pre.length < n)
    (hpre : ∀ x ∈ pre, x.id < pre.length) (hoid : o.id = pre.length)
    (hpost : ∀ x ∈ post, pre.length < x.id)
    (hn : isNormal o.type = true) (hpar : 0 ≤ o.parent → o.parent.toNat < o.id) :
    getN ((pre ++ o :: post).foldl (inhStep M) (List.replicate n 0)) o.id =
      if 0 ≤ o.parent then
        getN ((pre ++ o :: post).foldl (inhStep M) (List.replicate n 0)) o.parent.toNat ||| getN M o.parent.toNat
      else 0 := by
  rw [List.foldl_append, List.foldl_cons]
  have hFlen : (pre.foldl (inhStep M) (List.replicate n 0)).length = n := by
    rw [inhFoldl_length]; simp
  generalize hF : pre.foldl (inhStep M) (List.replicate n 0) = F at hFlen
  -- the value at `o.id` is not touched by `post`
  rw [inhFoldl_other M o.id post _ (fun x hx => by have := hpost x hx; omega)]
  by_cases hp : 0 ≤ o.parent
  · rw [if_pos hp]
    have hlt' := hpar hp
    -- the value at the parent is not touched by `o :: post`
    rw [inhFoldl_other M o.parent.toNat post _ (fun x hx => by have := hpost x hx; omega),
      inhStep_other M F o o.parent.toNat (by omega)]
    unfold inhStep
    rw [hn, Bool.true_and, if_pos (by simp [hp]), getN_set, if_pos ⟨rfl, by omega⟩]
  · rw [if_neg hp]
    have hs : inhStep M F o = F := by
      unfold inhStep
      rw [if_neg (by simp [hp])]
    rw [hs, ← hF, inhFoldl_other M o.id pre _ (fun x hx => by have := hpre x hx; omega)]
    exact getN_replicate_zero _ _

/-- recurrence of the top-down fold -/
theorem inh_rec (d : Dump)
    (hid : ∀ i (h : i < d.objs.length), (d.objs[i]).id = i)
    (hpar : ∀ o ∈ d.objs, isNormal o.type = true → 0 ≤ o.parent → o.parent.toNat < o.id)
    (o : Obj) (ho : o ∈ d.objs) (hn : isNormal o.type = true) :
    getN (inhFold d) o.id =
      if 0 ≤ o.parent then getN (inhFold d) o.parent.toNat ||| getN (auxFold d).memOr o.parent.toNat else 0 := by
  obtain ⟨pre, post, hsplit⟩ := List.append_of_mem ho
  unfold inhFold
  generalize (auxFold d).memOr = M
  generalize hl : d.objs = l at *
  subst hsplit
  have hlen : (pre ++ o :: post).length = pre.length + (post.length + 1) := by simp
  apply inh_rec_split M _ pre post o
  · rw [hlen]; omega
  · intro x hx
    obtain ⟨i, hi, rfl⟩ := List.mem_iff_getElem.mp hx
    have h1 := hid i (by rw [hlen]; omega)
    rw [List.getElem_append_left hi] at h1
    omega
  · have h1 := hid pre.length (by rw [hlen]; omega)
    rw [List.getElem_append_right (Nat.le_refl _)] at h1
    simpa using h1
  · intro x hx
    obtain ⟨i, hi, rfl⟩ := List.mem_iff_getElem.mp hx
    have h1 := hid (pre.length + (i + 1)) (by rw [hlen]; omega)
    rw [List.getElem_append_right (by omega)] at h1
    have h2 : pre.length + (i + 1) - pre.length = i + 1 := by omega
    simp only [h2, List.getElem_cons_succ] at h1
    omega
  · exact hn
  · exact hpar o ho hn

end Hw.Topo
