/-
  Hw.Topo.Relations — relational specifications over topology dumps used by property C18:

    SameTopo a b           two loads are identical (the dumps are equal: every field of every object, the
                           levels, type depths, allowed sets, flags and filters)
    DisallowedView dD dI   dI (loaded with INCLUDE_DISALLOWED) contains every PU and NUMA node of dD (default
                           load) and its allowed sets are dD's root sets
    XmlEquiv a b           equal on what an XML export + reload must preserve here: the tree (parent, rank,
                           arities, children), types, depths, logical and OS indexes, the four sets of every
                           object, total memory, the levels, type depths and allowed sets (C05 covers the rest)

  Each relation comes with an executable checker returning the names of the violated clauses, proved
  to be empty exactly when the relation holds.
-/
import Hw.Topo.WFLemmas0
namespace Hw.Topo

/-! ### SameTopo -/

def SameTopo (a b : Dump) : Prop := a = b

instance (a b : Dump) : Decidable (SameTopo a b) := inferInstanceAs (Decidable (a = b))

/-- where two dumps differ (diagnostic; empty iff equal) -/
def sameCheck (a b : Dump) : List String :=
  if a = b then [] else
  (if a.flags = b.flags then [] else ["flags"]) ++
  (if a.depth = b.depth then [] else ["depth"]) ++
  (if a.nobjs = b.nobjs then [] else ["nobjs"]) ++
  (if a.allowedCpuset = b.allowedCpuset ∧ a.allowedNodeset = b.allowedNodeset then [] else ["allowed-sets"]) ++
  (if a.filters = b.filters then [] else ["filters"]) ++
  (if a.levels = b.levels then [] else ["levels"]) ++
  (if a.typeDepths = b.typeDepths then [] else ["type-depths"]) ++
  ((a.objs.zip b.objs).filter (fun p => p.1 ≠ p.2)).map (fun p => "object@" ++ toString p.1.id) ++
  ["differs"]

theorem sameCheck_iff (a b : Dump) : sameCheck a b = [] ↔ SameTopo a b := by
  unfold sameCheck SameTopo
  by_cases h : a = b
  · simp [h]
  · simp [h]

theorem SameTopo.refl (a : Dump) : SameTopo a a := rfl
theorem SameTopo.symm {a b : Dump} (h : SameTopo a b) : SameTopo b a := Eq.symm h
theorem SameTopo.trans {a b c : Dump} (h1 : SameTopo a b) (h2 : SameTopo b c) : SameTopo a c := Eq.trans h1 h2

/-! ### DisallowedView -/

def Dump.rootCpuset (d : Dump) : Option Nat := match d.objs[0]? with | some r => r.cpuset | none => none
def Dump.rootNodeset (d : Dump) : Option Nat := match d.objs[0]? with | some r => r.nodeset | none => none
/-- OS indexes of the objects of type `t` -/
def Dump.osIndexes (d : Dump) (t : Nat) : List Int := (d.objs.filter (fun o => o.type == t)).map (·.osidx)

structure DisallowedView (dD dI : Dump) : Prop where
  pus : ∀ i, i ∈ dD.osIndexes tPU → i ∈ dI.osIndexes tPU
  numas : ∀ i, i ∈ dD.osIndexes tNUMA → i ∈ dI.osIndexes tNUMA
  allowedCpu : dI.allowedCpuset = dD.rootCpuset
  allowedNode : dI.allowedNodeset = dD.rootNodeset

def disallowedCheck (dD dI : Dump) : List String :=
  (if (dD.osIndexes tPU).all (fun i => (dI.osIndexes tPU).contains i) then [] else ["pu-missing"]) ++
  (if (dD.osIndexes tNUMA).all (fun i => (dI.osIndexes tNUMA).contains i) then [] else ["numa-missing"]) ++
  (if dI.allowedCpuset = dD.rootCpuset then [] else ["allowed-cpuset-is-not-default-root-cpuset"]) ++
  (if dI.allowedNodeset = dD.rootNodeset then [] else ["allowed-nodeset-is-not-default-root-nodeset"])

theorem disallowedCheck_iff (dD dI : Dump) : disallowedCheck dD dI = [] ↔ DisallowedView dD dI := by
  unfold disallowedCheck
  constructor
  · intro h
    simp only [List.append_eq_nil_iff, ite_eq_left_iff, reduceCtorEq, imp_false, Decidable.not_not,
      List.all_eq_true, List.contains_iff_mem] at h
    exact ⟨h.1.1.1, h.1.1.2, h.1.2, h.2⟩
  · intro ⟨h1, h2, h3, h4⟩
    simp only [List.append_eq_nil_iff, ite_eq_left_iff, reduceCtorEq, imp_false, Decidable.not_not,
      List.all_eq_true, List.contains_iff_mem]
    exact ⟨⟨⟨h1, h2⟩, h3⟩, h4⟩

/-- a well-formed default load is its own disallowed view -/
theorem DisallowedView.refl_of_wf (d : Dump) (h : WF d) (hf : flagIncludeDisallowed d = false) : DisallowedView d d := by
  obtain ⟨r, hr, _, _, hall⟩ := h.allowed
  have ⟨hc, hn⟩ := hall hf
  refine ⟨fun _ h => h, fun _ h => h, ?_, ?_⟩
  · unfold Dump.rootCpuset; rw [hr]; exact hc
  · unfold Dump.rootNodeset; rw [hr]; exact hn

/-- the relation only looks at the dumps: identical loads are interchangeable on both sides -/
theorem DisallowedView.congr {a a' b b' : Dump} (h : DisallowedView a b) (ha : SameTopo a a') (hb : SameTopo b b') :
    DisallowedView a' b' := by
  unfold SameTopo at ha hb; subst ha; subst hb; exact h

/-- the inclusion clauses of the property statement at the level of sets: the default load's root sets
are inside the INCLUDE_DISALLOWED load's root sets, and every PU / NUMA node OS index of the default load
is a bit of the INCLUDE_DISALLOWED load's root sets -/
theorem DisallowedView.root_subset {dD dI : Dump} (h : DisallowedView dD dI) (hw : WF dI) :
    subset (dD.rootCpuset.getD 0) (dI.rootCpuset.getD 0) = true ∧
    subset (dD.rootNodeset.getD 0) (dI.rootNodeset.getD 0) = true := by
  obtain ⟨r, hr, hc, hn, _⟩ := hw.allowed
  rw [h.allowedCpu] at hc
  rw [h.allowedNode] at hn
  constructor
  · unfold Dump.rootCpuset at *; rw [hr]; exact hc
  · unfold Dump.rootNodeset at *; rw [hr]; exact hn

/-- PU / NUMA inclusion composes -/
theorem DisallowedView.objects_trans {a b c : Dump} (h1 : DisallowedView a b) (h2 : DisallowedView b c) :
    (∀ i, i ∈ a.osIndexes tPU → i ∈ c.osIndexes tPU) ∧ (∀ i, i ∈ a.osIndexes tNUMA → i ∈ c.osIndexes tNUMA) :=
  ⟨fun i hi => h2.pus i (h1.pus i hi), fun i hi => h2.numas i (h1.numas i hi)⟩

/-! ### XmlEquiv -/

structure XObj where
  type : Nat
  depth : Int
  lidx : Nat
  osidx : Int
  parent : Int
  rank : Nat
  arity : Nat
  marity : Nat
  ioarity : Nat
  miscarity : Nat
  children : List Int
  cpuset : Option Nat
  ccpuset : Option Nat
  nodeset : Option Nat
  cnodeset : Option Nat
  totalMem : Nat
deriving DecidableEq, Repr

def Obj.xview (o : Obj) : XObj :=
  { type := o.type, depth := o.depth, lidx := o.lidx, osidx := o.osidx, parent := o.parent, rank := o.rank,
    arity := o.arity, marity := o.marity, ioarity := o.ioarity, miscarity := o.miscarity, children := o.children,
    cpuset := o.cpuset, ccpuset := o.ccpuset, nodeset := o.nodeset, cnodeset := o.cnodeset, totalMem := o.totalMem }

structure XView where
  depth : Nat
  allowedCpuset : Option Nat
  allowedNodeset : Option Nat
  objs : List XObj
  levels : List Level
  typeDepths : List Int
deriving DecidableEq, Repr

def Dump.xview (d : Dump) : XView :=
  { depth := d.depth, allowedCpuset := d.allowedCpuset, allowedNodeset := d.allowedNodeset,
    objs := d.objs.map Obj.xview, levels := d.levels, typeDepths := d.typeDepths }

def XmlEquiv (a b : Dump) : Prop := a.xview = b.xview

instance (a b : Dump) : Decidable (XmlEquiv a b) := inferInstanceAs (Decidable (a.xview = b.xview))

/-- differ at most in the complete cpuset, on a memory object (finding C18-F2: named apart) -/
def onlyMemCcpuset (x y : Obj) : Bool :=
  isMemory x.type && decide ({ x.xview with ccpuset := none } = { y.xview with ccpuset := none })

def xmlCheck (a b : Dump) : List String :=
  if a.xview = b.xview then [] else
  let hard :=
    (if a.depth = b.depth then [] else ["depth"]) ++
    (if a.objs.length = b.objs.length then [] else ["nobjs"]) ++
    (if a.allowedCpuset = b.allowedCpuset ∧ a.allowedNodeset = b.allowedNodeset then [] else ["allowed-sets"]) ++
    (if a.levels = b.levels then [] else ["levels"]) ++
    (if a.typeDepths = b.typeDepths then [] else ["type-depths"]) ++
    ((a.objs.zip b.objs).filter (fun p => p.1.xview ≠ p.2.xview && !onlyMemCcpuset p.1 p.2)).map (fun p => "object@" ++ toString p.1.id)
  let soft := ((a.objs.zip b.objs).filter (fun p => p.1.xview ≠ p.2.xview && onlyMemCcpuset p.1 p.2)).map
    (fun p => "memory-object-complete-cpuset@" ++ toString p.1.id)
  hard ++ soft ++ (if hard.isEmpty ∧ soft.isEmpty then ["differs"] else [])

theorem xmlCheck_iff (a b : Dump) : xmlCheck a b = [] ↔ XmlEquiv a b := by
  unfold xmlCheck XmlEquiv
  by_cases h : a.xview = b.xview
  · simp [h]
  · simp only [h, if_false, iff_false]
    generalize ((if a.depth = b.depth then [] else ["depth"]) ++ _ ++ _ ++ _ ++ _ ++ _ : List String) = hard
    generalize (List.map _ _ : List String) = soft
    cases hard <;> cases soft <;> simp

theorem XmlEquiv.refl (a : Dump) : XmlEquiv a a := rfl
theorem XmlEquiv.symm {a b : Dump} (h : XmlEquiv a b) : XmlEquiv b a := Eq.symm h
theorem XmlEquiv.trans {a b c : Dump} (h1 : XmlEquiv a b) (h2 : XmlEquiv b c) : XmlEquiv a c := Eq.trans h1 h2
theorem XmlEquiv.of_same {a b : Dump} (h : SameTopo a b) : XmlEquiv a b := by
  unfold SameTopo at h; subst h; rfl

end Hw.Topo
