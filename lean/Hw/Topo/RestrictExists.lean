/-
  Hw.Topo.RestrictExists — existence of a PU and of a NUMA node (B2):
    * every well-formed dump has a PU and a NUMA node, hence so does its tree (`wf_tree_has_pu`, `wf_tree_has_numa`);
    * a successful restrict that protects one PU (one NUMA node) of its input leaves a PU (a NUMA node) in its result, through
      level merging (`restrict_pu_exists`, `restrict_numa_exists_tree`);
    * the protected object exists whenever the allowed set of the call's kind is covered by the objects of that kind
      (`coverT`, an executable predicate the driver evaluates on every BEFORE tree), because a call whose set does not meet the
      allowed set is refused (hwloc_topology_restrict pre-check), and whenever the flag word has no REMOVE_* flag for the other kind.
-/
import Hw.Topo.RestrictWF
import Hw.Topo.RestrictMerge
import Hw.Topo.RenderPU
namespace Hw.Topo.Restrict
open Hw.Topo Hw.Gen.Restrict

/-! ### a well-formed dump has a PU and a NUMA node -/

theorem obj?_mem {d : Dump} {i : Int} {o : Obj} (h : d.obj? i = some o) : o ∈ d.objs := by
  unfold Dump.obj? at h
  split at h
  · cases h
  · exact List.mem_of_getElem? h

theorem wf_dump_has_pu {d : Dump} (h : WF d) : ∃ o ∈ d.objs, o.type = tPU := by
  have h1 := h.top_pu_level_deepest
  simp only [Bool.and_eq_true, decide_eq_true_eq] at h1
  cases hf : levelOf d ((d.depth : Int) - 1) with
  | none => rw [hf] at h1; exact absurd h1.1.2 (by simp)
  | some l =>
    rw [hf] at h1
    have h2 := h1.1.2
    simp only [Bool.and_eq_true, beq_iff_eq, Bool.not_eq_true', List.isEmpty_eq_false_iff] at h2
    have hl := levelOf_some hf
    have hpos : 0 < l.objs.length := List.length_pos_iff.2 h2.2
    obtain ⟨o, ho, _, hod⟩ := h.level_entries hl.1 0 hpos
    have hom := obj?_mem ho
    obtain ⟨l', hl', _, _, _, hty, _⟩ := h.in_its_level hom
    rw [hod, hl.2, hf] at hl'
    have e : l' = l := (Option.some.inj hl').symm
    rw [e, h2.1] at hty
    exact ⟨o, hom, (Int.ofNat.inj hty).symm⟩

theorem specialDepth_numa : ∀ ty, ty < 20 → specialDepth ty = some (-3) → ty = tNUMA := by decide

theorem wf_dump_has_numa {d : Dump} (h : WF d) : ∃ o ∈ d.objs, o.type = tNUMA := by
  have h1 := h.top_clause 5 rfl
  simp only at h1
  cases hf : levelOf d (-3) with
  | none => rw [hf] at h1; exact absurd h1 (by simp)
  | some l =>
    rw [hf] at h1
    simp only [Bool.not_eq_true', List.isEmpty_eq_false_iff] at h1
    have hl := levelOf_some hf
    have hpos : 0 < l.objs.length := List.length_pos_iff.2 h1
    obtain ⟨o, ho, _, hod⟩ := h.level_entries hl.1 0 hpos
    have hom := obj?_mem ho
    refine ⟨o, hom, ?_⟩
    have hd := h.obj_depth_by_type hom
    have hr : o.type < 20 := h.obj_type_in_range hom
    rw [hl.2] at hod
    cases hs : specialDepth o.type with
    | none =>
      rw [hs] at hd
      simp only [Bool.and_eq_true, decide_eq_true_eq] at hd
      omega
    | some sd =>
      rw [hs] at hd
      simp only [beq_iff_eq] at hd
      exact specialDepth_numa _ hr (by rw [hs, ← hd, hod])

theorem wf_tree_has {d : Dump} (h : WF d) (t : Tree) (ht : treeOf d = .ok t) :
    (∃ x ∈ objsT t, x.type = tPU) ∧ (∃ x ∈ objsT t, x.type = tNUMA) := by
  have hp := treeOf_perm h t ht
  obtain ⟨o, ho, hot⟩ := wf_dump_has_pu h
  obtain ⟨n, hn, hnt⟩ := wf_dump_has_numa h
  exact ⟨⟨robjOf o, hp.mem_iff.2 (List.mem_map_of_mem ho), hot⟩, ⟨robjOf n, hp.mem_iff.2 (List.mem_map_of_mem hn), hnt⟩⟩

/-! ### a protected PU / NUMA node of the input is a PU / NUMA node of the result -/

theorem ident_eq_type {a b : RObj} (h : ident a = ident b) : a.type = b.type := by
  have := congrArg RObj.type h; exact this

/-- a successful call that protects a PU (by cpuset: os_index in S; by nodeset: not (REMOVE_MEMLESS and memory-less afterwards))
    leaves a PU -/
theorem restrict_pu_exists (t : Topo) (s : CSet) (flags : Nat) (p : Params) (hp : plan t s flags = some p)
    (hret : (restrict t s flags).2 = .ok) (hok : okT t.tree = true) (hty : typedT t.tree = true)
    (hr : isNormal t.tree.obj.type = true) (hleaf : puLeafT t.tree = true) (hsets : puSetsT t.tree = true) (hs : mergeSafe t)
    (hex : ∃ x ∈ objsT t.tree, x.type = tPU ∧ (if p.byNode = true then protPUn p x = true else s.mem x.osidx.toNat = true)) :
    ∃ y ∈ objsT (restrict t s flags).1.tree, y.type = tPU := by
  obtain ⟨x, hx, hxt, hcond⟩ := hex
  have hfind : 0 < cnt ident (ident x) (objsT (restrict t s flags).1.tree) := by
    cases hb : p.byNode with
    | false =>
      rw [hb] at hcond
      simp only [Bool.false_eq_true, if_false] at hcond
      rw [(pus_exact_whole t s flags p hp hb hret hok hty hr hleaf hsets hs).2 x hxt, if_pos hcond]
      exact (cnt_pos_iff ident (ident x) _).2 ⟨x, hx, rfl⟩
    | true =>
      rw [hb] at hcond
      simp only [if_true] at hcond
      refine Nat.lt_of_lt_of_le ?_ (pu_survive_whole t s flags p hp hb hret hty hr hleaf hs x hxt)
      exact (cnt_pos_iff ident (ident x) _).2 ⟨x, List.mem_filter.2 ⟨hx, hcond⟩, rfl⟩
  obtain ⟨y, hy, e⟩ := (cnt_pos_iff ident (ident x) _).1 hfind
  exact ⟨y, hy, (ident_eq_type e).trans hxt⟩

/-- the mirror: a successful call that protects a NUMA node (by nodeset: os_index in S; by cpuset: not (REMOVE_CPULESS and CPU-less
    afterwards)) leaves a NUMA node -/
theorem restrict_numa_exists_tree (t : Topo) (s : CSet) (flags : Nat) (p : Params) (hp : plan t s flags = some p)
    (hret : (restrict t s flags).2 = .ok) (hok : okT t.tree = true) (hty : typedT t.tree = true)
    (hr : isNormal t.tree.obj.type = true) (hsets : numaSetsT t.tree = true)
    (hex : ∃ x ∈ objsT t.tree, x.type = tNUMA ∧ (if p.byNode = true then s.mem x.osidx.toNat = true else protNUMA p x = true)) :
    ∃ y ∈ objsT (restrict t s flags).1.tree, y.type = tNUMA := by
  obtain ⟨x, hx, hxt, hcond⟩ := hex
  have hfind : 0 < cnt ident (ident x) (objsT (restrict t s flags).1.tree) := by
    cases hb : p.byNode with
    | true =>
      rw [hb] at hcond
      simp only [if_true] at hcond
      rw [(numas_exact_whole t s flags p hp hb hret hok hty hr hsets).2 x hxt, if_pos hcond]
      exact (cnt_pos_iff ident (ident x) _).2 ⟨x, hx, rfl⟩
    | false =>
      rw [hb] at hcond
      simp only [Bool.false_eq_true, if_false] at hcond
      refine Nat.lt_of_lt_of_le ?_ (numa_survive_whole t s flags p hp hb hret hty hr x hxt)
      exact (cnt_pos_iff ident (ident x) _).2 ⟨x, List.mem_filter.2 ⟨hx, hcond⟩, rfl⟩
  obtain ⟨y, hy, e⟩ := (cnt_pos_iff ident (ident x) _).1 hfind
  exact ⟨y, hy, (ident_eq_type e).trans hxt⟩

/-! ### where the protected object comes from -/

/-- every index of `mask` is the os_index of an object of type `ty` (executable; evaluated by the driver with the allowed cpuset /
    PU and the allowed nodeset / NUMANODE on every well-formed BEFORE dump: C01 clauses allowed-sets +
    cpuset-is-disjoint-union-of-children + pu-cpuset resp. nodeset-decomposition + numa-nodeset) -/
def coverT (mask ty : Nat) (t : Tree) : Bool :=
  (List.range (mask.log2 + 1)).all (fun i => !mask.testBit i || (objsT t).any (fun x => x.type == ty && x.osidx.toNat == i))

theorem coverT_spec (mask ty : Nat) (t : Tree) (h : coverT mask ty t = true) (i : Nat) (hi : mask.testBit i = true) :
    ∃ x ∈ objsT t, x.type = ty ∧ x.osidx.toNat = i := by
  unfold coverT at h
  rw [List.all_eq_true] at h
  have hge := Nat.ge_two_pow_of_testBit hi
  have hne : mask ≠ 0 := ne_zero_of_testBit hi
  have hlog : i ≤ mask.log2 := (Nat.le_log2 hne).2 hge
  have := h i (List.mem_range.2 (by omega))
  rw [hi] at this
  simp only [Bool.not_true, Bool.false_or, List.any_eq_true, Bool.and_eq_true, beq_iff_eq] at this
  exact this

/-- without REMOVE_MEMLESS every PU is protected under a restrict by nodeset; without REMOVE_CPULESS every NUMA node under a
    restrict by cpuset -/
theorem prot_of_not_exempt (p : Params) (hx : p.rmExempt = false) (x : RObj) :
    (x.type = tPU → protPUn p x = true) ∧ (x.type = tNUMA → protNUMA p x = true) := by
  unfold protPUn protNUMA
  rw [hx]
  constructor <;> intro e <;> simp [e]

/-- the protected object of the call's own kind: the call is refused unless S meets the allowed set -/
theorem own_kind_protected (t : Topo) (s : CSet) (flags : Nat) (p : Params) (hp : plan t s flags = some p) :
    (p.byNode = false → coverT t.allowedCpu tPU t.tree = true → ∃ x ∈ objsT t.tree, x.type = tPU ∧ s.mem x.osidx.toNat = true) ∧
    (p.byNode = true → coverT t.allowedNode tNUMA t.tree = true → ∃ x ∈ objsT t.tree, x.type = tNUMA ∧ s.mem x.osidx.toNat = true) := by
  have hm := plan_some_meets t s flags p hp
  constructor
  · intro hb hc
    obtain ⟨i, hi, hsi⟩ := meets_true_exists (hm.1 hb)
    obtain ⟨x, hx, hxt, hxi⟩ := coverT_spec _ _ _ hc i hi
    exact ⟨x, hx, hxt, by rw [hxi]; exact hsi⟩
  · intro hb hc
    obtain ⟨i, hi, hsi⟩ := meets_true_exists (hm.2 hb)
    obtain ⟨x, hx, hxt, hxi⟩ := coverT_spec _ _ _ hc i hi
    exact ⟨x, hx, hxt, by rw [hxi]; exact hsi⟩

/-! ### the protected object of the OTHER kind under REMOVE_CPULESS / REMOVE_MEMLESS -/

theorem osBit_testBit (x : RObj) : (osBit x).testBit x.osidx.toNat = true := by
  unfold osBit
  rw [Nat.testBit_shiftLeft]
  simp

theorem foldl_or_mono (c : RObj → Bool) (l : List RObj) (init j : Nat) (h : init.testBit j = true) :
    (l.foldl (fun acc o => if c o = true then acc ||| osBit o else acc) init).testBit j = true := by
  induction l generalizing init with
  | nil => exact h
  | cons y ys ih =>
    rw [List.foldl_cons]
    apply ih
    split
    · rw [Nat.testBit_or, h]; rfl
    · exact h

/-- the os_index of every listed object that meets the condition is in the folded mask -/
theorem foldl_or_bit (c : RObj → Bool) (l : List RObj) (init : Nat) (x : RObj) (hx : x ∈ l) (hc : c x = true) :
    (l.foldl (fun acc o => if c o = true then acc ||| osBit o else acc) init).testBit x.osidx.toNat = true := by
  induction l generalizing init with
  | nil => cases hx
  | cons y ys ih =>
    rw [List.foldl_cons]
    rcases List.mem_cons.1 hx with rfl | hx
    · apply foldl_or_mono
      rw [if_pos hc, Nat.testBit_or, osBit_testBit]
      simp
    · exact ih _ hx

theorem not_inside_exists {x : Nat} {d : CSet} (h : inside x d = false) : ∃ i, x.testBit i = true ∧ d.mem i = false := by
  unfold inside at h
  have hne : minus x d ≠ 0 := by simpa using h
  obtain ⟨i, hi⟩ := Nat.exists_testBit_of_ne_zero hne
  rw [testBit_minus] at hi
  simp only [Bool.and_eq_true, Bool.not_eq_true'] at hi
  exact ⟨i, hi.1, hi.2⟩

theorem ofMask_mem (m i : Nat) : (CSet.ofMask m).mem i = m.testBit i := by
  unfold CSet.ofMask CSet.mem
  simp

/-- under REMOVE_CPULESS (by cpuset) a call is refused when every allowed node would be dropped; so some allowed index is not the
    os_index of a dropped node, and when the allowed nodeset is covered, the NUMA node that carries it is protected; the mirror under
    REMOVE_MEMLESS (by nodeset) -/
theorem other_kind_protected (t : Topo) (s : CSet) (flags : Nat) (p : Params) (hp : plan t s flags = some p)
    (hx : p.rmExempt = true) :
    (p.byNode = false → coverT t.allowedNode tNUMA t.tree = true → ∃ x ∈ objsT t.tree, x.type = tNUMA ∧ protNUMA p x = true) ∧
    (p.byNode = true → coverT t.allowedCpu tPU t.tree = true → ∃ x ∈ objsT t.tree, x.type = tPU ∧ protPUn p x = true) := by
  have hs := plan_some t s flags p hp
  constructor
  · intro hb hc
    obtain ⟨hdc, _, _, hrm⟩ := hs.2.2.2.1 hb
    obtain ⟨hdn, hin⟩ := hrm hx
    obtain ⟨i, hi, hni⟩ := not_inside_exists hin
    obtain ⟨x, hxm, hxt, hxi⟩ := coverT_spec _ _ _ hc i hi
    refine ⟨x, hxm, hxt, ?_⟩
    rw [hdn, ofMask_mem] at hni
    have hcond : (x.cpuset == 0 || inside x.cpuset s.compl) = false := by
      cases hcc : (x.cpuset == 0 || inside x.cpuset s.compl) with
      | false => rfl
      | true =>
        exfalso
        have := foldl_or_bit (fun o => o.cpuset == 0 || inside o.cpuset s.compl)
          ((objsT t.tree).filter (fun o => o.type == tNUMA)) 0 x (List.mem_filter.2 ⟨hxm, by rw [hxt]; rfl⟩) hcc
        unfold droppedNodes at hni
        rw [hxi] at this
        rw [this] at hni
        cases hni
    simp only [Bool.or_eq_false_iff, beq_eq_false_iff_ne, ne_eq] at hcond
    unfold protNUMA
    rw [hxt, shrinkG_cpuset, hdc]
    have hm : minus x.cpuset s.compl ≠ 0 := by
      have := hcond.2; unfold inside at this; simpa using this
    split <;> simp [hcond.1, hm]
  · intro hb hc
    obtain ⟨hdn, _, _, hrm⟩ := hs.2.2.2.2 hb
    obtain ⟨hdc, hin⟩ := hrm hx
    obtain ⟨i, hi, hni⟩ := not_inside_exists hin
    obtain ⟨x, hxm, hxt, hxi⟩ := coverT_spec _ _ _ hc i hi
    refine ⟨x, hxm, hxt, ?_⟩
    rw [hdc, ofMask_mem] at hni
    have hcond : (x.cpuset == 0 || inside x.nodeset s.compl) = false := by
      cases hcc : (x.cpuset == 0 || inside x.nodeset s.compl) with
      | false => rfl
      | true =>
        exfalso
        have := foldl_or_bit (fun o => o.cpuset == 0 || inside o.nodeset s.compl)
          ((objsT t.tree).filter (fun o => o.type == tPU)) 0 x (List.mem_filter.2 ⟨hxm, by rw [hxt]; rfl⟩) hcc
        unfold droppedPUs at hni
        rw [hxi] at this
        rw [this] at hni
        cases hni
    simp only [Bool.or_eq_false_iff, beq_eq_false_iff_ne, ne_eq] at hcond
    unfold protPUn
    rw [hxt, shrinkG_nodeset, hdn]
    have hm : minus x.nodeset s.compl ≠ 0 := by
      have := hcond.2; unfold inside at this; simpa using this
    have hn0 : x.nodeset ≠ 0 := by
      intro e; rw [e, minus_zero] at hm; exact hm rfl
    split <;> simp [hn0, hm]

end Hw.Topo.Restrict
