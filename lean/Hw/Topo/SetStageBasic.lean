/-
  Hw.Topo.SetStageBasic — groundwork for the set-stage proofs: mask algebra (`Sub`, `Dj`), the passes as `List.map`s,
  an induction principle for the nested tree, `AllN` (a predicate at every node), and "reordering is a permutation".
-/
import Hw.Topo.SetStage
namespace Hw.Topo.SetStage
open Hw.Topo

/-! ### masks as sets -/

def Sub (a b : Nat) : Prop := a &&& b = a
def Dj (a b : Nat) : Prop := a &&& b = 0

instance (a b : Nat) : Decidable (Sub a b) := by unfold Sub; infer_instance
instance (a b : Nat) : Decidable (Dj a b) := by unfold Dj; infer_instance

theorem sub_iff {a b : Nat} : Sub a b ↔ ∀ i, a.testBit i = true → b.testBit i = true := by
  unfold Sub
  constructor
  · intro h i hi
    have := congrArg (fun x => x.testBit i) h
    simp only [Nat.testBit_and, hi, Bool.true_and] at this
    exact this
  · intro h
    apply Nat.eq_of_testBit_eq
    intro i
    rw [Nat.testBit_and]
    cases ha : a.testBit i
    · simp
    · simp [h i ha]

theorem dj_iff {a b : Nat} : Dj a b ↔ ∀ i, a.testBit i = true → b.testBit i = false := by
  unfold Dj
  constructor
  · intro h i hi
    have := congrArg (fun x => x.testBit i) h
    simp only [Nat.testBit_and, hi, Bool.true_and, Nat.zero_testBit] at this
    exact this
  · intro h
    apply Nat.eq_of_testBit_eq
    intro i
    rw [Nat.testBit_and, Nat.zero_testBit]
    cases ha : a.testBit i
    · simp
    · simp [h i ha]

theorem subset_iff {a b : Nat} : subset a b = true ↔ Sub a b := by unfold subset Sub; simp

theorem Sub.refl (a : Nat) : Sub a a := sub_iff.2 (fun _ h => h)
theorem Sub.trans {a b c : Nat} (h1 : Sub a b) (h2 : Sub b c) : Sub a c :=
  sub_iff.2 (fun i h => sub_iff.1 h2 i (sub_iff.1 h1 i h))
theorem Sub.zero (a : Nat) : Sub 0 a := sub_iff.2 (fun i h => by simp at h)
theorem Sub.and_left (a b : Nat) : Sub (a &&& b) a := sub_iff.2 (fun i h => by rw [Nat.testBit_and] at h; simp_all)
theorem Sub.and_right (a b : Nat) : Sub (a &&& b) b := sub_iff.2 (fun i h => by rw [Nat.testBit_and] at h; simp_all)
theorem Sub.and_mono {a b c d : Nat} (h1 : Sub a b) (h2 : Sub c d) : Sub (a &&& c) (b &&& d) :=
  sub_iff.2 (fun i h => by
    rw [Nat.testBit_and] at h ⊢
    have h' : a.testBit i = true ∧ c.testBit i = true := by simpa using h
    simp [sub_iff.1 h1 i h'.1, sub_iff.1 h2 i h'.2])
theorem Sub.or_right {a b : Nat} (c : Nat) (h : Sub a b) : Sub a (b ||| c) :=
  sub_iff.2 (fun i hi => by rw [Nat.testBit_or]; simp [sub_iff.1 h i hi])
theorem Sub.or_right' {a c : Nat} (b : Nat) (h : Sub a c) : Sub a (b ||| c) :=
  sub_iff.2 (fun i hi => by rw [Nat.testBit_or]; simp [sub_iff.1 h i hi])
theorem Sub.or_left {a b c : Nat} (h1 : Sub a c) (h2 : Sub b c) : Sub (a ||| b) c :=
  sub_iff.2 (fun i hi => by
    rw [Nat.testBit_or] at hi
    rcases (by simpa using hi : a.testBit i = true ∨ b.testBit i = true) with h | h
    · exact sub_iff.1 h1 i h
    · exact sub_iff.1 h2 i h)
theorem Sub.or_mono {a b c d : Nat} (h1 : Sub a b) (h2 : Sub c d) : Sub (a ||| c) (b ||| d) :=
  Sub.or_left (Sub.or_right _ h1) (Sub.or_right' _ h2)
theorem Sub.antisymm {a b : Nat} (h1 : Sub a b) (h2 : Sub b a) : a = b := by
  apply Nat.eq_of_testBit_eq
  intro i
  cases ha : a.testBit i <;> cases hb : b.testBit i <;> try rfl
  · have := sub_iff.1 h2 i hb; simp_all
  · have := sub_iff.1 h1 i ha; simp_all
theorem Sub.and_eq {a b : Nat} (h : Sub a b) : a &&& b = a := h

theorem Dj.symm {a b : Nat} (h : Dj a b) : Dj b a := by unfold Dj at *; rw [Nat.and_comm]; exact h
theorem Dj.zero_left (a : Nat) : Dj 0 a := by unfold Dj; simp
theorem Dj.zero_right (a : Nat) : Dj a 0 := by unfold Dj; simp
theorem Dj.mono {a b c d : Nat} (h : Dj b d) (h1 : Sub a b) (h2 : Sub c d) : Dj a c :=
  dj_iff.2 (fun i hi => by
    cases hc : c.testBit i
    · rfl
    · have := dj_iff.1 h i (sub_iff.1 h1 i hi)
      have := sub_iff.1 h2 i hc
      simp_all)
theorem Dj.or_left {a b c : Nat} (h1 : Dj a c) (h2 : Dj b c) : Dj (a ||| b) c :=
  dj_iff.2 (fun i hi => by
    rw [Nat.testBit_or] at hi
    rcases (by simpa using hi : a.testBit i = true ∨ b.testBit i = true) with h | h
    · exact dj_iff.1 h1 i h
    · exact dj_iff.1 h2 i h)
theorem Dj.or_right {a b c : Nat} (h1 : Dj a b) (h2 : Dj a c) : Dj a (b ||| c) := (Dj.or_left h1.symm h2.symm).symm

theorem and_or_right (a b c : Nat) : (a ||| b) &&& c = (a &&& c) ||| (b &&& c) := by
  apply Nat.eq_of_testBit_eq; intro i
  simp only [Nat.testBit_and, Nat.testBit_or]
  cases a.testBit i <;> cases b.testBit i <;> cases c.testBit i <;> rfl

theorem ASet.inter_sub (a : ASet) (m : Nat) : Sub (a.inter m) m := by
  unfold ASet.inter
  split
  · apply sub_iff.2
    intro i h
    rw [Nat.testBit_xor, Nat.testBit_and] at h
    cases hm : m.testBit i
    · simp [hm] at h
    · rfl
  · exact Sub.and_right _ _

/-! ### how the allowed sets shrink the object sets: the identity (INCLUDE_DISALLOWED) or the intersection with a mask -/

structure Shrink (φ : Nat → Nat) : Prop where
  sub : ∀ a, Sub (φ a) a
  mono : ∀ {a b}, Sub a b → Sub (φ a) (φ b)
  or : ∀ a b, φ (a ||| b) = φ a ||| φ b

theorem Shrink.id : Shrink (fun a => a) := ⟨Sub.refl, fun h => h, fun _ _ => rfl⟩
theorem Shrink.and (m : Nat) : Shrink (fun a => a &&& m) :=
  ⟨fun a => Sub.and_left a m, fun h => Sub.and_mono h (Sub.refl m), fun a b => and_or_right a b m⟩
theorem Shrink.zero {φ : Nat → Nat} (h : Shrink φ) : φ 0 = 0 := by
  have := h.sub 0
  unfold Sub at this
  simpa using this.symm
theorem Shrink.dj {φ : Nat → Nat} (h : Shrink φ) {a b : Nat} (hd : Dj a b) : Dj (φ a) (φ b) := hd.mono (h.sub a) (h.sub b)

/-! ### the passes as maps -/

theorem propagateL_eq (inh : Nat) (l : List ST) : propagateL inh l = l.map (propagate inh) := by
  induction l with
  | nil => rfl
  | cons c cs ih => simp [propagateL, ih]

theorem fixupChildren_eq (p : SObj) (l : List ST) : fixupChildren p l = l.map (fixupChild p) := by
  induction l with
  | nil => rfl
  | cons c cs ih => simp [fixupChildren, ih]

theorem removeUnusedL_eq (ac an : Nat) (l : List ST) : removeUnusedL ac an l = l.map (removeUnused ac an) := by
  induction l with
  | nil => rfl
  | cons c cs ih => simp [removeUnusedL, ih]

theorem belowL_eq (l : List ST) : belowL l = (l.map below).foldr (· ||| ·) 0 := by
  induction l with
  | nil => rfl
  | cons c cs ih => simp [belowL, ih]

theorem allNodesL_eq (p : SObj → List ST → List ST → Bool) (l : List ST) : allNodesL p l = l.all (allNodes p) := by
  induction l with
  | nil => rfl
  | cons c cs ih => simp [allNodesL, ih]

/-! ### induction over the tree -/

theorem ST.ind {P : ST → Prop}
    (h : ∀ o kids mem, (∀ c ∈ kids, P c) → (∀ m ∈ mem, P m) → P (.node o kids mem)) : ∀ t, P t
  | .node o kids mem => h o kids mem (fun c _ => ST.ind h c) (fun m _ => ST.ind h m)
termination_by t => sizeOf t
decreasing_by
  all_goals simp_wf
  · have := List.sizeOf_lt_of_mem ‹c ∈ kids›; omega
  · have := List.sizeOf_lt_of_mem ‹m ∈ mem›; omega

/-- `P o kids mem` holds at every node of the tree -/
inductive AllN (P : SObj → List ST → List ST → Prop) : ST → Prop
  | node {o : SObj} {kids mem : List ST} :
      P o kids mem → (∀ c ∈ kids, AllN P c) → (∀ m ∈ mem, AllN P m) → AllN P (.node o kids mem)

theorem AllN.here {P} {o : SObj} {kids mem : List ST} (h : AllN P (.node o kids mem)) : P o kids mem := by cases h; assumption
theorem AllN.kids {P} {o : SObj} {kids mem : List ST} (h : AllN P (.node o kids mem)) : ∀ c ∈ kids, AllN P c := by cases h; assumption
theorem AllN.mem {P} {o : SObj} {kids mem : List ST} (h : AllN P (.node o kids mem)) : ∀ c ∈ mem, AllN P c := by cases h; assumption

theorem AllN.imp {P Q : SObj → List ST → List ST → Prop} (hPQ : ∀ o k m, P o k m → Q o k m) : ∀ t, AllN P t → AllN Q t := by
  apply ST.ind
  intro o kids mem ihk ihm h
  exact .node (hPQ _ _ _ h.here) (fun c hc => ihk c hc (h.kids c hc)) (fun c hc => ihm c hc (h.mem c hc))

theorem AllN.and {P Q : SObj → List ST → List ST → Prop} : ∀ t, AllN P t → AllN Q t → AllN (fun o k m => P o k m ∧ Q o k m) t := by
  apply ST.ind
  intro o kids mem ihk ihm h1 h2
  exact .node ⟨h1.here, h2.here⟩ (fun c hc => ihk c hc (h1.kids c hc) (h2.kids c hc)) (fun c hc => ihm c hc (h1.mem c hc) (h2.mem c hc))

theorem allNodes_iff (p : SObj → List ST → List ST → Bool) : ∀ t, allNodes p t = true ↔ AllN (fun o k m => p o k m = true) t := by
  apply ST.ind
  intro o kids mem ihk ihm
  rw [allNodes, allNodesL_eq, allNodesL_eq]
  simp only [Bool.and_eq_true, List.all_eq_true]
  constructor
  · rintro ⟨⟨h1, h2⟩, h3⟩
    exact .node h1 (fun c hc => (ihk c hc).1 (h2 c hc)) (fun c hc => (ihm c hc).1 (h3 c hc))
  · intro h
    exact ⟨⟨h.here, fun c hc => (ihk c hc).2 (h.kids c hc)⟩, fun c hc => (ihm c hc).2 (h.mem c hc)⟩

/-! ### reordering is a permutation -/

theorem insertOrdered_perm (c : ST) (acc : List ST) : (insertOrdered c acc).Perm (c :: acc) := by
  unfold insertOrdered
  refine List.perm_middle.trans ?_
  rw [List.takeWhile_append_dropWhile]

theorem reorder_perm (kids : List ST) : (reorder kids).Perm kids := by
  unfold reorder
  suffices h : ∀ (l acc : List ST), (l.foldl (fun acc c => insertOrdered c acc) acc).Perm (l.reverse ++ acc) by
    have := h kids []
    simp only [List.append_nil] at this
    exact this.trans (List.reverse_perm kids)
  intro l
  induction l with
  | nil => intro acc; simp
  | cons c cs ih =>
    intro acc
    simp only [List.foldl_cons, List.reverse_cons, List.append_assoc, List.singleton_append]
    exact (ih _).trans (List.Perm.append_left _ (insertOrdered_perm c acc))

theorem reorderIfNeeded_perm (kids : List ST) : (reorderIfNeeded kids).Perm kids := by
  unfold reorderIfNeeded
  split
  · exact reorder_perm kids
  · exact List.Perm.refl _

theorem mem_reorderIfNeeded {x : ST} {kids : List ST} : x ∈ reorderIfNeeded kids ↔ x ∈ kids := (reorderIfNeeded_perm kids).mem_iff

end Hw.Topo.SetStage
