/-
  Hw.Io.SyntheticFilter — the type filters in force when a synthetic description is loaded, and the NUMA census of a
  description: which NUMA nodes (os_index, local memory, memory-side cache, PUs) must exist after load WHATEVER the filters
  of the normal object types are (hwloc__look_synthetic builds a level's objects only when the level's type is kept, but
  inserts the NUMA nodes attached to the level in any case; NUMA nodes and PUs cannot be filtered).

  * `effFilters`   hwloc__topology_filter_init + a sequence of hwloc_topology_set_type_filter calls (at most one per type)
  * `census`       the NUMA nodes of an accepted description, in level order / creation order
-/
import Hw.Io.Synthetic
namespace Hw.Syn
open Hw Hw.Topo

/-! ### type filters -/

def fKeepAll : Nat := 0
def fKeepNone : Nat := 1
def fKeepStructure : Nat := 2
def fKeepImportant : Nat := 3

/-- hwloc__topology_filter_init: everything kept except instruction caches, MemCache, I/O and Misc; Groups KEEP_STRUCTURE -/
def initFilters : List Nat := [0, 0, 0, 0, 0, 0, 0, 0, 0, 0, 1, 1, 1, 2, 0, 1, 1, 1, 1, 1]

/-- the historic configuration of the engine: I-caches and MemCache KEEP_ALL on top of the defaults -/
def legacyReq : List (Option Nat) :=
  (List.range tMAX).map (fun t => if (tL1I ≤ t ∧ t ≤ tL3I) ∨ t = tMEMCACHE then some 0 else none)

def isSpecialT (t : Nat) : Bool := t == tBRIDGE || t == tPCI || t == tOSDEV || t == tMISC

/-- hwloc__topology_set_type_filter on a topology whose filter of `t` is `cur`: the new filter (a refused request, -1/EINVAL,
leaves it unchanged) -/
def setFilter (t cur v : Nat) : Nat :=
  if t = tPU ∨ t = tNUMA ∨ t = tMACHINE then (if v ≠ fKeepAll then cur else fKeepAll)
  else if isSpecialT t then (if v = fKeepStructure then cur else v)
  else if t = tGROUP then (if v = fKeepAll ∨ v = fKeepImportant then cur else v)
  else if v = fKeepImportant then fKeepAll
  else v

def applyReq (t : Nat) (r : Option Nat) : Nat :=
  match r with
  | none => initFilters[t]?.getD 0
  | some v => setFilter t (initFilters[t]?.getD 0) v

/-- filters in force at load: `req[t] = some v` = hwloc_topology_set_type_filter(topology, t, v) was called after init -/
def effFilters (req : List (Option Nat)) : List Nat :=
  (List.range tMAX).map (fun t => applyReq t (req[t]?.getD none))

theorem effFilters_get (req : List (Option Nat)) (t : Nat) (ht : t < tMAX) :
    (effFilters req)[t]?.getD 0 = applyReq t (req[t]?.getD none) := by
  unfold effFilters
  simp [List.getElem?_map, List.getElem?_range ht]

/-- hwloc_filter_check_keep_object_type -/
def keeps (f : List Nat) (t : Nat) : Bool := f[t]?.getD 0 != fKeepNone

/-! ### the NUMA census -/

structure NumaRec where
  os : Nat       -- os_index
  mem : Nat      -- local memory
  msc : Nat      -- size of the memory-side cache in front of it (0 = none)
  cpus : Nat     -- bit mask of the PU os_indexes of its cpuset
deriving Repr, DecidableEq

/-- PUs below object `c` (creation number) of a level of `width` objects; `pu` = PU os_index by creation number -/
def cpusOf (pu : List Nat) (puW width c : Nat) : Nat :=
  let w := puW / width
  (List.range w).foldl (fun s j => s ||| (1 <<< (pu[c * w + j]?.getD 0))) 0

/-- creation number, among all attached NUMA nodes, of slot `s` of object `c` of level `i`: hwloc__look_synthetic inserts the
nodes attached to an object after the whole subtree of the object (`ws` = level widths, `att` = attached nodes per object) -/
def attPos (ws att : List Nat) (i c s : Nat) : Nat :=
  let wi := ws[i]?.getD 1
  ((List.range ws.length).map (fun e =>
    let we := ws[e]?.getD 1
    let ae := att[e]?.getD 0
    if e > i then (c + 1) * (we / wi) * ae
    else if e = i then c * ae
    else (c / (wi / we)) * ae)).sum + s

def idxAt (a : Option (List Nat)) (c : Nat) : Nat :=
  match a with
  | some arr => arr[c]?.getD 0
  | none => c

/-- the NUMA nodes contributed by level `i`: those attached to each of its objects, and the objects themselves for a
NUMANode level.  `mc` = the MemCache type is kept -/
def censusLevel (mc : Bool) (numaIdx : Option (List Nat)) (pu : List Nat) (puW : Nat) (ws att : List Nat) (i : Nat) (l : Level) :
    List NumaRec :=
  (List.range l.width).flatMap (fun c =>
    (List.range l.attached.length).map (fun s =>
      let a := l.attached[s]?.getD {}
      ({ os := idxAt numaIdx (attPos ws att i c s), mem := a.mem, msc := if mc then a.msc else 0,
         cpus := cpusOf pu puW l.width c } : NumaRec))) ++
  (if 1 ≤ i ∧ l.attr.type = tNUMA then
    (List.range l.width).map (fun c =>
      ({ os := idxAt l.idx.arr c, mem := l.attr.mem, msc := if mc then l.attr.msc else 0, cpus := cpusOf pu puW l.width c } : NumaRec))
   else [])

/-- every NUMA node an accepted description describes.  The filters of the normal types do not appear: a NUMA node exists
whether or not the level it is attached to is built -/
def census (mc : Bool) (p : Parsed) : List NumaRec :=
  let L := p.levels
  let pul := lvAt L (L.length - 1)
  let pu := pul.idx.arr.getD (List.range pul.width)
  let ws := L.map (·.width)
  let att := L.map (·.attached.length)
  (List.range L.length).flatMap (fun i => censusLevel mc p.numaIdx.arr pu pul.width ws att i (lvAt L i))

/-- number of NUMA nodes written in the description -/
def describedNumas (p : Parsed) : Nat :=
  ((List.range p.levels.length).map (fun i =>
    let l := lvAt p.levels i
    l.width * l.attached.length + (if 1 ≤ i ∧ l.attr.type = tNUMA then l.width else 0))).sum

theorem sum_map_const (n k : Nat) : ((List.range n).map (fun _ => k)).sum = n * k := by
  induction n with
  | zero => simp
  | succ n ih => simp [List.range_succ, List.sum_append, ih, Nat.succ_mul]

theorem censusLevel_length (mc : Bool) (numaIdx : Option (List Nat)) (pu : List Nat) (puW : Nat) (ws att : List Nat) (i : Nat) (l : Level) :
    (censusLevel mc numaIdx pu puW ws att i l).length =
      l.width * l.attached.length + (if 1 ≤ i ∧ l.attr.type = tNUMA then l.width else 0) := by
  unfold censusLevel
  rw [List.length_append, List.length_flatMap]
  congr 1
  · simp only [List.length_map, List.length_range]
    exact sum_map_const _ _
  · split <;> simp

theorem census_length (mc : Bool) (p : Parsed) : (census mc p).length = describedNumas p := by
  unfold census describedNumas
  rw [List.length_flatMap]
  congr 1
  apply List.map_congr_left
  intro i _
  exact censusLevel_length ..

/-- only the memory-side cache sizes depend on a filter (the MemCache one) -/
theorem census_filter_indep (a b : Bool) (p : Parsed) :
    (census a p).map (fun r => (r.os, r.mem, r.cpus)) = (census b p).map (fun r => (r.os, r.mem, r.cpus)) := by
  unfold census
  simp only [List.map_flatMap]
  congr 1
  funext i
  unfold censusLevel
  simp only [List.map_append, List.map_flatMap, List.map_map]
  congr 1
  split <;> simp [Function.comp_def]

end Hw.Syn
