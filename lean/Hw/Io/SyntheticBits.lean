/-
  Hw.Io.SyntheticBits — bit-level facts about the masks of Hw.Topo (`subset`, `disjoint`, OR of singletons) used for the
  cpuset clauses of the synthetic dump.
-/
import Hw.Io.SyntheticDump
namespace Hw.Syn
open Hw Hw.Topo

theorem testBit_single (i b : Nat) : (1 <<< i).testBit b = decide (i = b) := by
  rw [Nat.one_shiftLeft, Nat.testBit_two_pow]

theorem testBit_foldl_or_single (l : List Nat) : ∀ (s b : Nat),
    (l.foldl (fun s i => s ||| (1 <<< i)) s).testBit b = (s.testBit b || l.contains b) := by
  induction l with
  | nil => intro s b; simp
  | cons x l ih =>
    intro s b
    rw [List.foldl_cons, ih, Nat.testBit_or, testBit_single]
    simp only [List.contains_cons, Bool.or_assoc]
    congr 1
    by_cases h : x = b
    · simp [h]
    · have : (b == x) = false := by simp; exact fun hh => h hh.symm
      simp [h, this]

theorem testBit_orBits (l : List Nat) (b : Nat) : (orBits l).testBit b = l.contains b := by
  unfold orBits; rw [testBit_foldl_or_single]; simp

theorem testBit_foldl_or (l : List Nat) : ∀ (s b : Nat),
    (l.foldl (· ||| ·) s).testBit b = (s.testBit b || l.any (·.testBit b)) := by
  induction l with
  | nil => intro s b; simp
  | cons x l ih => intro s b; rw [List.foldl_cons, ih, Nat.testBit_or]; simp [Bool.or_assoc]

theorem disjoint_iff (a b : Nat) : disjoint a b = true ↔ ∀ i, ¬ (a.testBit i = true ∧ b.testBit i = true) := by
  unfold disjoint
  rw [beq_iff_eq]
  constructor
  · intro h i ⟨h1, h2⟩
    have := congrArg (·.testBit i) h
    simp [h1, h2] at this
  · intro h
    apply Nat.eq_of_testBit_eq
    intro i
    rw [Nat.testBit_and, Nat.zero_testBit]
    have := h i
    cases h1 : a.testBit i <;> cases h2 : b.testBit i <;> simp_all

theorem disjoint_or (a b c : Nat) (h1 : disjoint a c = true) (h2 : disjoint b c = true) : disjoint (a ||| b) c = true := by
  rw [disjoint_iff] at *
  intro i ⟨h3, h4⟩
  rw [Nat.testBit_or, Bool.or_eq_true] at h3
  rcases h3 with h3 | h3
  · exact h1 i ⟨h3, h4⟩
  · exact h2 i ⟨h3, h4⟩

/-- the disjointness flag accumulated by `orInto` over a sequence of sets -/
def seqDisj : Nat → List Nat → Bool
  | _, [] => true
  | s, x :: xs => disjoint s x && seqDisj (s ||| x) xs

theorem seqDisj_of_pairwise : ∀ (xs : List Nat) (s : Nat), (s :: xs).Pairwise (fun a b => disjoint a b = true) → seqDisj s xs = true := by
  intro xs
  induction xs with
  | nil => intro s _; rfl
  | cons x xs ih =>
    intro s hp
    rw [List.pairwise_cons] at hp
    obtain ⟨hs, hx⟩ := hp
    rw [List.pairwise_cons] at hx
    unfold seqDisj
    rw [hs x List.mem_cons_self, Bool.true_and]
    apply ih
    rw [List.pairwise_cons]
    refine ⟨?_, hx.2⟩
    intro y hy
    exact disjoint_or s x y (hs y (List.mem_cons_of_mem _ hy)) (hx.1 y hy)

end Hw.Syn
