/-
  Hw.Io.SyntheticOrdSlices — closed (non-recursive) form of `Ord`: consecutive siblings at every depth are in the order of
  their smallest leaf.
-/
import Hw.Io.SyntheticOrd
namespace Hw.Syn
open Hw Hw.Topo

/-- objects of depth d / leaves below one object of depth d, for an arity list -/
def cntA (as : List Nat) (d : Nat) : Nat := prodL (as.take d)
def widA (as : List Nat) (d : Nat) : Nat := prodL (as.drop d)

theorem prodL_append : ∀ (l1 l2 : List Nat), prodL (l1 ++ l2) = prodL l1 * prodL l2 := by
  intro l1 l2
  induction l1 with
  | nil => rw [List.nil_append, prodL_nil, Nat.one_mul]
  | cons a l1 ih => rw [List.cons_append, prodL_cons, prodL_cons, ih, Nat.mul_assoc]

theorem cntA_zero (as : List Nat) : cntA as 0 = 1 := by
  unfold cntA; rw [List.take_zero, prodL_nil]

theorem cntA_cons_succ (a : Nat) (rest : List Nat) (d : Nat) : cntA (a :: rest) (d + 1) = a * cntA rest d := by
  unfold cntA; rw [List.take_succ_cons, prodL_cons]

theorem widA_cons_succ (a : Nat) (rest : List Nat) (d : Nat) : widA (a :: rest) (d + 1) = widA rest d := by
  unfold widA; rw [List.drop_succ_cons]

theorem cntA_succ (as : List Nat) (d : Nat) (hd : d < as.length) :
    cntA as (d + 1) = cntA as d * (as[d]?.getD 0) := by
  induction as generalizing d with
  | nil => simp at hd
  | cons a rest ih =>
    cases d with
    | zero =>
      rw [cntA_cons_succ, cntA_zero, cntA_zero]
      simp
    | succ d' =>
      have hd' : d' < rest.length := by simpa using hd
      rw [cntA_cons_succ, cntA_cons_succ, ih d' hd', Nat.mul_assoc]
      simp

theorem widA_len (as : List Nat) : widA as as.length = 1 := by
  unfold widA; rw [List.drop_length, prodL_nil]

theorem widA_succ (as : List Nat) (d : Nat) (hd : d < as.length) :
    widA as d = (as[d]?.getD 0) * widA as (d + 1) := by
  induction as generalizing d with
  | nil => simp at hd
  | cons a rest ih =>
    cases d with
    | zero =>
      rw [widA_cons_succ]
      unfold widA
      rw [List.drop_zero, List.drop_zero, prodL_cons]
      simp
    | succ d' =>
      have hd' : d' < rest.length := by simpa using hd
      rw [widA_cons_succ, widA_cons_succ, ih d' hd']
      simp

theorem cntA_widA (as : List Nat) (d : Nat) (hd : d ≤ as.length) : cntA as d * widA as d = prodL as := by
  have _ := hd
  unfold cntA widA
  rw [← prodL_append, List.take_append_drop]

/-- a block of a block is a block -/
theorem blockOf_blockOf (l : List Nat) (W w r k c : Nat) (hW : W = c * w) (hk : k < c) :
    blockOf (blockOf l W r) w k = blockOf l w (r * c + k) := by
  subst hW
  unfold blockOf
  apply List.map_congr_left
  intro j hj
  have hjw : j < w := List.mem_range.mp hj
  have h1 : (k + 1) * w ≤ c * w := Nat.mul_le_mul_right w hk
  have h2 : (k + 1) * w = k * w + w := Nat.succ_mul k w
  have hlt : k * w + j < c * w := by omega
  rw [List.getElem?_map, List.getElem?_range hlt]
  have h3 : r * (c * w) + (k * w + j) = (r * c + k) * w + j := by
    rw [Nat.add_mul, Nat.mul_assoc, Nat.add_assoc]
  simp only [Option.map_some, Option.getD_some, h3]

/-- **closed form**: in an `Ord` list, consecutive siblings at every depth are in the order of their smallest leaf -/
theorem ord_slices : ∀ (as : List Nat) (l : List Nat), (∀ a ∈ as, 1 ≤ a) → Ord as l →
    ∀ d, d < as.length → ∀ k, k < cntA as (d + 1) → k % (as[d]?.getD 0) + 1 < as[d]?.getD 0 →
      minL (blockOf l (widA as (d + 1)) k) < minL (blockOf l (widA as (d + 1)) (k + 1)) := by
  intro as
  induction as with
  | nil => intro l _ _ d hd; simp at hd
  | cons a rest ih =>
    intro l hpos hord d hd k hk hmod
    have hord' : (∀ r, r < a → Ord rest (blockOf l (prodL rest) r)) ∧
        (∀ r, r + 1 < a → minL (blockOf l (prodL rest) r) < minL (blockOf l (prodL rest) (r + 1))) := hord
    obtain ⟨h1, h2⟩ := hord'
    cases d with
    | zero =>
      rw [cntA_cons_succ, cntA_zero, Nat.mul_one] at hk
      have hw : widA (a :: rest) (0 + 1) = prodL rest := by
        rw [widA_cons_succ]; unfold widA; rw [List.drop_zero]
      have hx : (a :: rest)[0]?.getD 0 = a := by simp
      rw [hx, Nat.mod_eq_of_lt hk] at hmod
      rw [hw]
      exact h2 k hmod
    | succ d' =>
      have hd' : d' < rest.length := by simpa using hd
      have hposr : ∀ x ∈ rest, 1 ≤ x := fun x hx => hpos x (List.mem_cons_of_mem _ hx)
      have hx : (a :: rest)[d' + 1]?.getD 0 = rest[d']?.getD 0 := by simp
      rw [hx] at hmod
      rw [cntA_cons_succ] at hk
      rw [widA_cons_succ]
      generalize hc : cntA rest (d' + 1) = c at hk
      generalize hwd : widA rest (d' + 1) = w
      generalize hxx : rest[d']?.getD 0 = x at hmod
      have hcw : prodL rest = c * w := by
        rw [← hc, ← hwd]; exact (cntA_widA rest (d' + 1) hd').symm
      have hcs : c = cntA rest d' * x := by
        rw [← hc, ← hxx]; exact cntA_succ rest d' hd'
      generalize cntA rest d' = m at hcs
      have hcpos : 0 < c := by
        rcases Nat.eq_zero_or_pos c with h | h
        · subst h; simp at hk
        · exact h
      have hr : k / c < a := by
        rw [Nat.div_lt_iff_lt_mul hcpos]; exact hk
      have hk'c : k % c < c := Nat.mod_lt _ hcpos
      have hdm : c * (k / c) + k % c = k := Nat.div_add_mod k c
      have hmm : (k % c) % x = k % x := Nat.mod_mod_of_dvd k ⟨m, by rw [hcs, Nat.mul_comm]⟩
      -- k' + 1 < c
      have hk1 : k % c + 1 < c := by
        have hxpos : 0 < x := by omega
        have e1 : x * ((k % c) / x) + (k % c) % x = k % c := Nat.div_add_mod (k % c) x
        have hq : (k % c) / x < m := by
          rw [Nat.div_lt_iff_lt_mul hxpos, ← hcs]; exact hk'c
        have e2 : ((k % c) / x + 1) * x ≤ m * x := Nat.mul_le_mul_right x hq
        have e3 : ((k % c) / x + 1) * x = (k % c) / x * x + x := Nat.succ_mul _ _
        have e4 : x * ((k % c) / x) = (k % c) / x * x := Nat.mul_comm _ _
        rw [hmm] at e1
        omega
      have hmod' : k % c % (rest[d']?.getD 0) + 1 < rest[d']?.getD 0 := by
        rw [hxx, hmm]; exact hmod
      have hk'' : k % c < cntA rest (d' + 1) := by rw [hc]; exact hk'c
      have key := ih (blockOf l (prodL rest) (k / c)) hposr (h1 _ hr) d' hd' (k % c) hk'' hmod'
      rw [hwd, blockOf_blockOf l (prodL rest) w (k / c) (k % c) c hcw hk'c,
        blockOf_blockOf l (prodL rest) w (k / c) (k % c + 1) c hcw hk1] at key
      have ek : k / c * c + k % c = k := by rw [Nat.mul_comm]; exact hdm
      have ek1 : k / c * c + (k % c + 1) = k + 1 := by omega
      rw [ek, ek1] at key
      exact key

end Hw.Syn
