/-
  Hw.Io.Calc — model of the command-line tools hwloc-calc (utils/hwloc/hwloc-calc.h 47-803 and
  hwloc-calc.c 98-904) and hwloc-distrib (utils/hwloc/hwloc-distrib.c) over a topology `Dump`.

  * strings are byte lists (`List Byte`), an argv is a list of them;
  * the two accumulators (cpuset, nodeset) are representation-exact `Bitmap`s (C03 model) — user supplied raw sets
    may be infinite; the sets of topology objects are the finite `Nat` masks of the dump (`ofMask` / `maskOf` convert);
  * the location grammar (`hwloc_calc_process_location_as_set`): operator prefix `~ x ^`, `all`/`root`, raw sets in the
    hwloc / list / taskset formats (C04 parsers, incl. the format guess), `type:range(.type:range)*` with
    `hwloc_calc_parse_level` (C11 type parser, `HBM`/`MCDRAM`, numeric depth) and `hwloc_calc_parse_range`
    (`N`, `N-M`, `N-`, `N:M` wrap-around, `all`/`odd`/`even`), logical or physical indexes, special levels by index,
    `os=name`, `misc=name`;
  * the option loop of `main()` is a left fold over argv with the option state *at that point* (as in the C);
  * the output stage (`hwloc_calc_output`): `--no-smt`, `--single`, `--largest`, `-N`, `-I`, `-H`, set printing in the
    hwloc / list / taskset / systemd-dbus-api formats, `--sep`, `--oo`, `-p -l --po --lo`, `-n --ni --no`;
  * the stdin mode (no location on the command line);
  * bracket filters (`[tier=N]`, `[subtype=S]`, `[S]`, PCI `[vendor:device]`), `pci=busid`;
  * results: `exit rc out` (`out = none`: stdout not predicted, e.g. after `-v`) and `skip` (feature outside the model:
    cpukind / memorytier pseudo levels, --local-memory / --best-memattr / --default-nodes / --cpukind, --help / --version,
    numbers with white space or signs where libc would accept them).  `--restrict` is applied by the harness to the topology
    whose dump the model receives (the tool must compute what the library call defines).
  The model follows the code after the fix commits F40-F44 (reversed ranges and non-positive widths rejected, open ranges
  beyond the level width empty, invalid -N -I -H types fail, unnamed objects skipped by os=/misc=, hwloc-distrib number checked).
-/
import Hw.Bitmap.Scan
import Hw.Topo.Helpers
import Hw.Topo.Distrib
import Hw.Io.TypeStr
namespace Hw.Calc
open Hw Hw.Topo

abbrev Bytes := List Byte

/-! ### sets -/

/-- a finite mask as a bitmap (`hwloc_bitmap_dup` of a topology set) -/
def ofMask (m : Nat) : Bitmap :=
  Bitmap.build (m.log2 / 64 + 1) (fun k => BitVec.ofNat 64 (m >>> (64 * k))) false

/-- the members of `b` below `64 * max b.count nw` as a mask (all of them when `b` is finite) -/
def maskOf (b : Bitmap) (nw : Nat) : Nat :=
  ((List.range (max b.count nw)).map b.readWord).foldr (fun w acc => w.toNat + 2 ^ 64 * acc) 0

inductive Mode | add | clr | and | xor
deriving Repr, DecidableEq

/-- hwloc_calc_append_set -/
def applyMode (m : Mode) (acc new : Bitmap) : Bitmap :=
  match m with
  | .add => acc.or new
  | .clr => acc.andnot new
  | .and => acc.and new
  | .xor => acc.xor new

/-! ### context -/

structure Ctx where
  d : Dump
  nw : Nat            -- number of 64-bit words that cover every set of the topology

def allBits (d : Dump) : Nat :=
  d.objs.foldl (fun acc o => acc ||| cs o ||| nsOf o ||| o.ccpuset.getD 0 ||| o.cnodeset.getD 0) 0

def mkCtx (d : Dump) : Ctx := { d := d, nw := (allBits d).log2 / 64 + 1 }

def Ctx.mask (c : Ctx) (b : Bitmap) : Nat := maskOf b c.nw

/-! ### small string helpers -/

def lowerB (c : Byte) : Byte := if 65 ≤ c ∧ c ≤ 90 then c + 32 else c
def ciEq (a b : Bytes) : Bool := a.map lowerB == b.map lowerB
def isDigitB (c : Byte) : Bool := decide (48 ≤ c) && decide (c ≤ 57)
def startsWith (s p : Bytes) : Bool := s.take p.length == p
/-- `strcspn(s, ":=.[")` -/
def cspnLevel (s : Bytes) : Nat := (s.takeWhile (fun c => !(c == 58 || c == 61 || c == 46 || c == 91))).length
def bytesOfStr (s : Option String) : Option Bytes := s.map str

/-! ### hwloc_calc_parse_level -/

structure Level where
  depth : Int
  type : Int := -1           -- HWLOC_OBJ_TYPE_NONE
  ostypes : Nat := 0         -- attr.osdev.types (read only when type = OS_DEVICE)
  onlyHbm : Int := -1
  subtype : Bytes := []      -- level->subtype ("" = no filter)
  memoryTier : Int := -1
  pciVendor : Int := -1
  pciDevice : Int := -1
deriving Repr, DecidableEq

inductive PL
  | ok (l : Level)
  | err (depth : Int) (l : Option Level := none)   -- return -1 with level->depth as given (and the level built so far: the
                                                    -- location callers go on with it when the depth is a real one)
  | unmodelled
deriving Repr, DecidableEq

def toI32 (v : Nat) : Int := let w : Nat := v % 2 ^ 32; if w < 2 ^ 31 then (w : Int) else (w : Int) - 2 ^ 32

/-- hwloc_get_type_depth_with_attr for the attributes hwloc_type_sscanf produced -/
def typeDepthWithAttr (d : Dump) (p : TypeStr.Parsed) : Int :=
  let depth := typeDepth d p.type
  if p.type == tGROUP && depth == depthMultiple && p.depth != TypeStr.u32m1 then
    match (List.range d.depth).find? (fun (l : Nat) => match objByDepth d (Int.ofNat l) 0 with
        | some o => o.type == tGROUP && (o.attrs[0]?).getD 0 == (p.depth : Int)
        | none => false) with
    | some l => (l : Int)
    | none => depthUnknown
  else depth

/-- libc atoi: white space, optional sign, digits (no overflow handling: values stay far below 2^31 in practice) -/
def atoiB (s : Bytes) : Int :=
  let s1 := s.dropWhile isSpace
  let (neg, body) := match s1 with | 45 :: r => (true, r) | 43 :: r => (false, r) | _ => (false, s1)
  let v := (takeDigits 10 body 0 0).1
  if neg then -(v : Int) else (v : Int)

/-- sscanf `%x` at the start of `s`: `none` = outside the model (white space, sign, more than 8 digits, a bare `0x`),
    `some none` = no conversion, `some (some (v, rest))` -/
def scanHex (s : Bytes) : Option (Option (Nat × Bytes)) :=
  match s with
  | [] => some none
  | c :: _ =>
    if isSpace c || c == 43 || c == 45 then none else
    let pre : Option Bytes := match s with
      | 48 :: x :: r => if x == 120 || x == 88 then (match r with
          | dgt :: _ => if isDigitIn 16 dgt then some r else none
          | [] => none) else some s
      | _ => some s
    match pre with
    | none => none
    | some body =>
      let (v, n, rest) := takeDigits 16 body 0 0
      if n = 0 then some none else if n > 8 then none else some (some (v, rest))

inductive PF
  | ok (l : Level)
  | err
  | unmodelled
deriving Repr, DecidableEq

/-- "assume it's a subtype": the text up to ']' (at most 31 bytes) -/
def filterSubtype (l : Level) (cur : Bytes) : PF :=
  match cur.findIdx? (· == 93) with
  | none => .unmodelled                  -- strchr() = NULL: cannot happen, the type string ends with ']'
  | some k => .ok { l with subtype := (cur.take k).take 31 }

/-- hwloc_calc_parse_level_filter; `f` = the text after '[' -/
def parseFilter (l : Level) (f : Bytes) : PF :=
  if startsWith f (str "tier=") then .ok { l with memoryTier := atoiB (f.drop 5) }
  else if startsWith f (str "subtype=") then filterSubtype l (f.drop 8)
  else if l.type == (tPCI : Int) then
    match scanHex f with
    | none => .unmodelled
    | some (some (v, rest)) =>
      -- "%x:%x]" gives 2, otherwise ":%x]" cannot match and "%x:]" gives 1
      match rest with
      | 58 :: r2 => match scanHex r2 with
        | none => .unmodelled
        | some (some (dv, _)) => .ok { l with pciVendor := toI32 v, pciDevice := toI32 dv }
        | some none => .ok { l with pciVendor := toI32 v }
      | _ => .ok { l with pciVendor := toI32 v }
    | some none =>
      match f with
      | 58 :: r2 => match scanHex r2 with
        | none => .unmodelled
        | some (some (dv, _)) => .ok { l with pciDevice := toI32 dv }
        | some none => if startsWith f (str ":]") then .ok l else .err
      | _ => if f.contains 58 then .err else filterSubtype l f
  else filterSubtype l f

/-- hwloc_calc_parse_level(lcontext, topology, typestring[0..typelen), &level); `hbm` = lcontext->only_hbm (-1 without lcontext) -/
def parseLevel (d : Dump) (hbm : Int) (s : Bytes) : PL :=
  if s.length ≥ 21 then .err depthUnknown else
  match TypeStr.typeSscanf s with
  | .oobS => .unmodelled
  | .oobT => .unmodelled
  | .ok (some p) =>
    let depth := typeDepthWithAttr d p
    if depth == depthUnknown || depth == depthMultiple then .err depth
    else
      let l : Level := { depth := depth, type := p.type, ostypes := p.ostype, onlyHbm := hbm }
      -- "don't use filters for OSdev if it was already parsed as OS*[osdev.types]"
      if p.type == tOSDEV && ciEq (s.take 2) (str "os") && s.length ≥ 2 && p.ostype != 0 then .ok l
      else match s.findIdx? (· == 91) with
        | none => .ok l
        | some k => match parseFilter l (s.drop (k + 1)) with
          | .ok l' => .ok l'
          | .err => .err depth (some l)
          | .unmodelled => .unmodelled
  | .ok none =>
    if ciEq s (str "HBM") || ciEq s (str "MCDRAM") then .ok { depth := -3, type := tNUMA, onlyHbm := 1 }
    else match s with
      | 45 :: _ => .err depthUnknown
      | _ => match strtoul 0 s with
        | .unsupported => .unmodelled
        | .ok v rest =>
          if !rest.isEmpty then .err depthUnknown
          else
            let dp := toI32 v
            if dp ≥ (d.depth : Int) then .err depthUnknown
            else .ok { depth := dp, type := -1, onlyHbm := hbm }

/-- hwloc_calc_check_object_filtered: 1 = the object is filtered out -/
def filtered (l : Level) (o : Obj) : Bool :=
  if !l.subtype.isEmpty && (match o.subtype with | none => true | some st => !ciEq l.subtype (str st)) then true
  else if l.type == (tNUMA : Int) then
    (l.memoryTier ≥ 0 && (match o.infos.find? (fun i => i.1 == "MemoryTier") with
        | none => true
        | some i => atoiB (str i.2) != l.memoryTier)) ||
    (l.onlyHbm ≥ 0 && (l.onlyHbm != (if o.subtype == some "MCDRAM" then 1 else 0)))
  else if l.type == (tPCI : Int) then
    let vd := ((o.attrs[5]?).getD 0).toNat
    (l.pciVendor != -1 && ((vd / 65536 : Nat) : Int) != l.pciVendor) || (l.pciDevice != -1 && ((vd % 65536 : Nat) : Int) != l.pciDevice)
  else if l.type == (tOSDEV : Int) then
    l.ostypes != 0 && ((o.attrs[0]?).getD 0).toNat &&& l.ostypes == 0
  else false

/-! ### hwloc_calc_parse_range -/

structure Range where
  first : Nat
  amount : Int
  step : Nat
  wrap : Bool
deriving Repr, DecidableEq

inductive PR
  | ok (r : Range)
  | err
  | unmodelled
deriving Repr, DecidableEq

/-- libc strtol(s, &end, 10) for the suffix of a range: optional sign, then digits; (value, digits consumed?, rest);
    `none` = outside the model (leading white space, |value| ≥ 2^31) -/
def strtolDigits (neg : Bool) (orig : Bytes) (td : Nat × Nat × Bytes) : Option (Int × Bool × Bytes) :=
  if td.2.1 = 0 then some (0, false, orig)
  else if td.1 ≥ 2 ^ 31 then none
  else some (if neg then -(td.1 : Int) else (td.1 : Int), true, td.2.2)

def strtolSuffix (s : Bytes) : Option (Int × Bool × Bytes) :=
  match s with
  | [] => some (0, false, [])
  | c :: r =>
    if isSpace c then none
    else strtolDigits (c == 45) s (takeDigits 10 (if c == 45 || c == 43 then r else s) 0 0)

/-- the text before the first '.' and what follows the dot -/
def splitDot (s : Bytes) : Bytes × Option Bytes :=
  let a := s.takeWhile (· != 46)
  if a.length < s.length then (a, some (s.drop (a.length + 1))) else (a, none)

/-- what follows the first index `first` of a range -/
def rangeTail (first : Nat) (e : Bytes) : PR :=
  match e with
  | 45 :: e1 =>
    match strtolSuffix e1 with
    | none => .unmodelled
    | some x =>
      if !x.2.2.isEmpty then .err
      else if !x.2.1 then .ok ⟨first, -1, 1, false⟩            -- X-
      else if x.1 < (first : Int) then .err                    -- "invalid range with last index lower than first"
      else .ok ⟨first, x.1 - first + 1, 1, false⟩              -- X-Y
  | 58 :: e1 =>
    match strtolSuffix e1 with
    | none => .unmodelled
    | some x =>
      if !x.2.2.isEmpty then .err
      else if !x.2.1 then .err                                 -- "missing width"
      else if x.1 ≤ 0 then .err                                -- "invalid width"
      else .ok ⟨first, x.1, 1, true⟩                           -- X:Y
  | [] => .ok ⟨first, 1, 1, false⟩
  | _ :: _ => .err

def rangeOfDigits (td : Nat × Nat × Bytes) : PR :=
  if td.1 ≥ 2 ^ 31 then .unmodelled else rangeTail td.1 td.2.2

def parseRange (string : Bytes) : PR :=
  if string.length ≥ 65 then .err else
  match string with
  | [] => .err
  | c :: _ =>
    if !isDigitB c then
      if startsWith string (str "all") then .ok ⟨0, -1, 1, false⟩
      else if startsWith string (str "odd") then .ok ⟨1, -1, 2, false⟩
      else if startsWith string (str "even") then .ok ⟨0, -1, 2, false⟩
      else .err
    else rangeOfDigits (takeDigits 10 string 0 0)

/-! ### hwloc_calc_append_object_range -/

/-- the objects of a level that hwloc_calc_get_{nbobjs,obj}_inside_sets_by_depth consider -/
def levelInside (d : Dump) (rc rn : Nat) (l : Level) : List Obj :=
  (cousinsFrom d (objByDepth d l.depth 0)).filter (fun o =>
    !(cs o != 0 && !intersects (cs o) rc) && !(nsOf o != 0 && !intersects (nsOf o) rn) &&
    !(cs o == 0 && nsOf o == 0) && !filtered l o)

/-- hwloc_calc_get_obj_inside_sets_by_depth -/
def objInside (objs : List Obj) (logical : Bool) (i : Nat) : Option Obj :=
  if logical then objs[i]? else objs.find? (fun o => o.osidx == (i : Int))

/-- the loop `for(i=first, j=0; j<(unsigned)amount; i+=step, j++)`: the objects found, in order -/
def rangeLoop (objs : List Obj) (logical wrap : Bool) (width step : Nat) : Nat → Nat → List Obj
  | 0, _ => []
  | j+1, i =>
    let i := if wrap && i ≥ width then 0 else i
    match objInside objs logical i with
    | some o => o :: rangeLoop objs logical wrap width step j (i + step)
    | none => rangeLoop objs logical wrap width step j (i + step)

inductive AR
  | ok (err : Bool) (objs : List Obj)    -- return value (-1 = err) and the objects handed to the callback
  | unmodelled
deriving Repr, DecidableEq

/-- loops longer than this are not evaluated by the model (answer `skip`) -/
def modelLimit : Nat := 4096

/-- the bound `(unsigned) amount` of the loop over the objects of a level of `width` objects:
    `if (amount == -1) amount = (unsigned) first >= width ? 0 : (width-first+step-1)/step;` -/
def rangeIters (r : Range) (width : Nat) : Nat :=
  if r.amount == -1 then (if r.first ≥ width then 0 else (width - r.first + r.step - 1) / r.step)
  else (r.amount % 2 ^ 32).toNat

/-- nested results: the first non-`ok` wins, otherwise the concatenation (return values of the recursive calls are ignored) -/
def joinAR : List AR → AR
  | [] => .ok false []
  | .ok _ l :: r => (match joinAR r with | .ok _ l' => .ok false (l ++ l') | x => x)
  | x :: _ => x

def appendObjectRange (d : Dump) (hbm : Int) (logical : Bool) : Nat → Nat → Nat → Level → Bytes → AR
  | 0, _, _, _, _ => .unmodelled
  | fuel+1, rc, rn, level, string =>
    let dot := (splitDot string).2
    match parseRange (splitDot string).1 with
    | .unmodelled => .unmodelled
    | .err => .ok true []
    | .ok r =>
      -- assert(amount != -1 || !wrap) holds for every accepted range (`parseRange_amount`)
      -- the sublevel is parsed before the loop
      let next : Except AR (Option (Level × Bytes)) :=
        match dot with
        | none => .ok none
        | some ns =>
          let tl := (let len := cspnLevel ns
                     if (ns[len]?) != some 91 then len
                     else match (ns.drop len).findIdx? (· == 93) with
                       | some k => len + k + 1
                       | none => 0)
          if tl == 0 || (ns[tl]?) != some 58 then .error (.ok true [])
          else match parseLevel d hbm (ns.take tl) with
            | .unmodelled => .error .unmodelled
            | .err dp lv =>
              -- only an unknown / multiple depth makes the caller return; a filter error leaves a usable level
              (match lv with
               | some nl => if dp == depthUnknown || dp == depthMultiple || (nl.depth < 0 && nl.depth != -3) then .error (.ok true [])
                            else .ok (some (nl, ns.drop (tl + 1)))
               | none => .error (.ok true []))
            | .ok nl =>
              if nl.depth < 0 && nl.depth != -3 then .error (.ok true [])
              else .ok (some (nl, ns.drop (tl + 1)))
      match next with
      | .error e => e
      | .ok nx =>
        let objs := levelInside d rc rn level
        let width := objs.length
        let iters := rangeIters r width
        if iters > modelLimit then .unmodelled
        else
          let found := rangeLoop objs logical r.wrap width r.step iters r.first
          match nx with
          | none => .ok false found
          | some (nl, rest) =>
            joinAR (found.map (fun o => appendObjectRange d hbm logical fuel (cs o) (nsOf o) nl rest))

/-! ### hwloc_calc_append_iodev_by_index -/

structure IoSt where
  i : Nat
  wrap : Bool
  first : Int
  amount : Int
  prev : Option Nat := none     -- id of the first object used
  acc : List Obj := []
  done : Bool := false

def iodevLoop (objs : List Obj) (l : Level) (step : Nat) : Nat → IoSt → IoSt
  | 0, s => s
  | f+1, s =>
    let max := objs.length
    if s.done || !(s.i < max * ((if s.wrap then 1 else 0) + 1)) then s else
    let s : IoSt := if s.i == max && s.wrap then { s with i := 0, wrap := false } else s
    match objs[s.i]? with
    | none => { s with done := true }           -- assert(obj)
    | some o =>
      if s.prev == some o.id then { s with done := true }
      else if filtered l o then iodevLoop objs l step f { s with i := s.i + 1 }
      else if s.first != 0 then iodevLoop objs l step f { s with i := s.i + 1, first := s.first - 1 }
      else
        let s : IoSt := { s with first := s.first - 1, acc := s.acc ++ [o], prev := s.prev.orElse (fun _ => some o.id), amount := s.amount - 1 }
        if s.amount == 0 then { s with done := true }
        else iodevLoop objs l step f { s with i := s.i + 1, first := (step : Int) - 1 }

/-- `string` starts at the separator (':') -/
def appendIodevByIndex (d : Dump) (level : Level) (string : Bytes) : AR :=
  match string with
  | [] => .unmodelled
  | _ :: cur =>
    let (rstr, dot) := splitDot cur
    let pr := parseRange rstr
    if dot.isSome then (match pr with | .unmodelled => .unmodelled | _ => .ok true []) else
    match pr with
    | .unmodelled => .unmodelled
    | .err => .ok true []
    | .ok r =>
      let objs := levelObjs d level.depth
      let s := iodevLoop objs level r.step (2 * objs.length + 4) { i := 0, wrap := r.wrap, first := (r.first : Int), amount := r.amount }
      .ok false s.acc

/-! ### hwloc_calc_process_location + the set callback -/

/-- `while (obj && !obj->cpuset) obj = obj->parent;` then the two sets -/
def cbSets (d : Dump) (o : Obj) : Nat × Nat :=
  match climbWhile d (fun a => a.cpuset.isNone) d.fuel (some o) with
  | some a => (cs a, nsOf a)
  | none => (0, 0)

/-- `if (obj->name && !strcmp(obj->name, name)) return obj;` over a level -/
def findByName (objs : List Obj) (name : Bytes) : Option Obj :=
  objs.find? (fun o => match o.name with | none => false | some n => str n == name)

/-- hex fields separated by the given characters (sscanf "%x:%x:%x.%x"): `none` outside the model, `some none` = fewer conversions -/
def scanFields (s : Bytes) : List Byte → Option (Option (List Nat))
  | [] => match scanHex s with
    | none => none
    | some none => some none
    | some (some (v, _)) => some (some [v])
  | sep :: seps => match scanHex s with
    | none => none
    | some none => some none
    | some (some (v, rest)) => match rest with
      | c :: r => if c == sep then (match scanFields r seps with
          | none => none
          | some none => some none
          | some (some vs) => some (some (v :: vs))) else some none
      | [] => some none

/-- hwloc_get_pcidev_by_busidstring: domain:bus:dev.func, else bus:dev.func in domain 0 -/
def parseBusid (s : Bytes) : Option (Option (Nat × Nat × Nat × Nat)) :=
  match scanFields s [58, 58, 46] with
  | none => none
  | some (some [a, b, c, e]) => some (some (a, b, c, e))
  | _ => match scanFields s [58, 46] with
    | none => none
    | some (some [b, c, e]) => some (some (0, b, c, e))
    | _ => some none

def processLocation (d : Dump) (logical : Bool) (arg : Bytes) (typelen : Nat) : AR :=
  let sep := arg.drop typelen
  let lv : Option (Option Level) := match parseLevel d (-1) (arg.take typelen) with
    | .unmodelled => none
    | .err dp l => if dp == depthUnknown || dp == depthMultiple then some none else some l
    | .ok level => some (some level)
  match lv with
  | none => .unmodelled
  | some none => .ok true []
  | some (some level) =>
    if level.depth < 0 && level.depth != -3 then
      match sep with
      | 58 :: _ => appendIodevByIndex d level sep
      | 61 :: name =>
        if level.type == (tPCI : Int) then
          match parseBusid name with
          | none => .unmodelled
          | some none => .ok true []
          | some (some b) =>
            match (cousinsFrom d (objByDepth d (-5) 0)).find? (fun o =>
                (o.attrs.take 4).map Int.toNat == [b.1, b.2.1, b.2.2.1, b.2.2.2]) with
            | some o => .ok false [o]
            | none => .ok true []
        else if level.type == (tOSDEV : Int) || level.type == (tMISC : Int) then
          match findByName (cousinsFrom d (objByDepth d level.depth 0)) name with
          | none => .ok true []
          | some o => .ok false [o]
        else .ok true []
      | _ => .ok true []
    else
      match d.rootObj? with
      | none => .unmodelled
      | some r => appendObjectRange d (-1) logical (arg.length + 1) (r.ccpuset.getD 0) (r.cnodeset.getD 0) level (sep.drop 1)

/-! ### hwloc_calc_process_location_as_set -/

inductive Fmt | hwloc | list | systemd | taskset
deriving Repr, DecidableEq

def guessFmt (s : Bytes) : Fmt :=
  if !(ciEq (s.take 2) (str "0x") && s.length ≥ 2) && s.contains 45 then .list
  else if s.contains 44 then .hwloc
  else .taskset

def scanSet (fmt : Option Fmt) (s : Bytes) : Bitmap.ScanRes :=
  match fmt.getD (guessFmt s) with
  | .hwloc => Bitmap.hwlocScan s
  | .list => Bitmap.listScan s
  | .taskset => Bitmap.tasksetScan s
  | .systemd => .unsupported

inductive Loc
  | sets (c n : Bitmap)      -- the argument denotes these two sets
  | ignored                  -- "ignored unrecognized argument"
  | unmodelled
deriving Repr, DecidableEq

def splitMode (arg : Bytes) : Mode × Bytes :=
  match arg with
  | 126 :: r => (.clr, r)
  | 120 :: r => (.and, r)
  | 94 :: r => (.xor, r)
  | _ => (.add, arg)

/-- hwloc_calc_parse_level_size -/
def levelSize (s : Bytes) : Nat :=
  let len := cspnLevel s
  if (s[len]?) != some 91 then len
  else match (s.drop len).findIdx? (· == 93) with
    | some k => len + k + 1
    | none => 0

/-- the two sets an argument (operator prefix removed) denotes -/
def locSets (c : Ctx) (logical nodesetIn : Bool) (cif : Option Fmt) (arg : Bytes) : Loc :=
  let d := c.d
  if arg == str "all" || arg == str "root" then
    match d.rootObj? with
    | some r => .sets (ofMask (cs r)) (ofMask (nsOf r))
    | none => .unmodelled
  else
    let tl := levelSize arg
    if tl != 0 && ((arg[tl]?) == some 58 || (arg[tl]?) == some 61) then
      match processLocation d logical arg tl with
      | .unmodelled => .unmodelled
      | .ok true _ => .ignored
      | .ok false objs =>
        let cn := objs.foldl (fun (acc : Nat × Nat) o => let s := cbSets d o; (acc.1 ||| s.1, acc.2 ||| s.2)) (0, 0)
        .sets (ofMask cn.1) (ofMask cn.2)
    else
      match scanSet cif arg with
      | .unsupported => .unmodelled
      | .fail => .ignored
      | r@(.ok _ _) =>
        match r.bitmap? with
        | none => .unmodelled          -- a word left uninitialised by the parser
        | some b =>
          if !nodesetIn then .sets b (ofMask (cpusetToNodeset d (c.mask b)))
          else .sets (ofMask (cpusetFromNodeset d (c.mask b))) b

/-! ### the option state and the argv fold of main() -/

structure St where
  verbose : Int := 0
  logicalI : Bool := true
  logicalO : Bool := true
  nodesetI : Bool := false
  nodesetO : Bool := false
  objectO : Bool := false
  numberOf : Option Bytes := none
  intersect : Option Bytes := none
  hier : Option Bytes := none
  largest : Bool := false
  sep : Option Bytes := none
  single : Bool := false
  noSmt : Option Nat := none
  cof : Fmt := .hwloc
  cif : Option Fmt := none
  cpuset : Bitmap := Bitmap.alloc
  nodeset : Bitmap := Bitmap.alloc
  nlocs : Nat := 0
  outKnown : Bool := true        -- false once something unpredicted went to stdout (verbose > 0)

inductive Res
  | exit (rc : Nat) (out : Option Bytes)
  | skip (why : String)
deriving Repr, DecidableEq

def parseFmt (s : Bytes) : Option Fmt :=
  if s == str "hwloc" then some .hwloc else if s == str "list" then some .list
  else if s == str "systemd-dbus-api" then some .systemd else if s == str "taskset" then some .taskset else none

def flagOpts : List String :=
  ["-v", "--verbose", "-q", "--quiet", "--no-smt", "--largest", "-l", "--logical", "--li", "--logical-input", "--lo",
   "--logical-output", "-p", "--physical", "--pi", "--physical-input", "--po", "--physical-output", "-n", "--nodeset",
   "--ni", "--nodeset-input", "--no", "--nodeset-output", "--oo", "--object-output", "--single", "--taskset"]
def argOpts : List String :=
  ["--number-of", "-N", "--intersect", "-I", "--hierarchical", "-H", "--sep", "--cpuset-output-format", "--cof",
   "--nodeset-output-format", "--nof", "--cpuset-input-format", "--cif"]
/-- options the C accepts but the model does not follow -/
def skipOpts : List String :=
  ["-h", "--help", "--version", "--default-nodes", "--local-memory", "--local-memory-flags", "--best-memattr"]
def topoOpts : List String :=
  ["--disallowed", "--whole-system", "--restrict", "--restrict-flags", "--cpukind", "--input", "-i", "--input-format", "--if"]

def isOpt (l : List String) (a : Bytes) : Bool := l.any (fun s => str s == a)

/-- one location argument: `hwloc_calc_process_location_as_set` + the two `hwloc_calc_append_set` -/
def stepLoc (c : Ctx) (s : St) (arg : Bytes) : Except Res St :=
  let mode := (splitMode arg).1
  match locSets c s.logicalI s.nodesetI s.cif (splitMode arg).2 with
  | .unmodelled => .error (.skip "location")
  | .ignored => .ok s
  | .sets cset nset =>
    .ok { s with cpuset := applyMode mode s.cpuset cset, nodeset := applyMode mode s.nodeset nset, nlocs := s.nlocs + 1,
                 outKnown := s.outKnown && decide (s.verbose ≤ 0) }

def atoiDigits (s : Bytes) : Option Nat :=
  if s.all isDigitB && !s.isEmpty && s.length ≤ 9 then some (takeDigits 10 s 0 0).1 else none

/-- a flag option (no argument) -/
def stepFlag (s : St) (a : Bytes) : St :=
  if a == str "-v" || a == str "--verbose" then { s with verbose := s.verbose + 1 }
  else if a == str "-q" || a == str "--quiet" then { s with verbose := s.verbose - 1 }
  else if a == str "--no-smt" then { s with noSmt := some 0 }
  else if a == str "--largest" then { s with largest := true }
  else if a == str "-l" || a == str "--logical" then { s with logicalI := true, logicalO := true }
  else if a == str "--li" || a == str "--logical-input" then { s with logicalI := true }
  else if a == str "--lo" || a == str "--logical-output" then { s with logicalO := true }
  else if a == str "-p" || a == str "--physical" then { s with logicalI := false, logicalO := false }
  else if a == str "--pi" || a == str "--physical-input" then { s with logicalI := false }
  else if a == str "--po" || a == str "--physical-output" then { s with logicalO := false }
  else if a == str "-n" || a == str "--nodeset" then { s with nodesetI := true, nodesetO := true }
  else if a == str "--ni" || a == str "--nodeset-input" then { s with nodesetI := true }
  else if a == str "--no" || a == str "--nodeset-output" then { s with nodesetO := true }
  else if a == str "--oo" || a == str "--object-output" then { s with objectO := true }
  else if a == str "--single" then { s with single := true }
  else if a == str "--taskset" then { s with cof := .taskset }
  else s

/-- an option with one argument; `none` = exit(EXIT_FAILURE) -/
def stepArgOpt (s : St) (a v : Bytes) : Option St :=
  if a == str "--number-of" || a == str "-N" then some { s with numberOf := some v }
  else if a == str "--intersect" || a == str "-I" then some { s with intersect := some v }
  else if a == str "--hierarchical" || a == str "-H" then some { s with hier := some v }
  else if a == str "--sep" then some { s with sep := some v }
  else if a == str "--cpuset-input-format" || a == str "--cif" then
    match parseFmt v with
    | none => none
    | some .systemd => none
    | some f => some { s with cif := some f }
  else
    match parseFmt v with
    | none => none
    | some f => some { s with cof := f, nodesetO := s.nodesetO || a == str "--nodeset-output-format" || a == str "--nof" }

/-- the second `while (argc >= 1)` loop of main() -/
def argLoop (c : Ctx) : St → List Bytes → Except Res St
  | s, [] => .ok s
  | s, a :: rest =>
    if a.head? == some 45 then
      if isOpt skipOpts a then .error (.skip "option")
      else if startsWith a (str "--no-smt=") then
        match atoiDigits (a.drop 9) with
        | some n => argLoop c { s with noSmt := some n } rest
        | none => .error (.skip "no-smt-value")
      else if isOpt flagOpts a then argLoop c (stepFlag s a) rest
      else if isOpt argOpts a then
        match rest with
        | [] => .error (.exit 1 (if s.outKnown then some [] else none))
        | v :: rest' =>
          match stepArgOpt s a v with
          | none => .error (.exit 1 (if s.outKnown then some [] else none))
          | some s' => argLoop c s' rest'
      else .error (.exit 1 (if s.outKnown then some [] else none))     -- incl. --disallowed after the topology options
    else
      match stepLoc c s a with
      | .error e => .error e
      | .ok s' => argLoop c s' rest

/-! ### hwloc_calc_output -/

def typeObj (o : Obj) : TypeStr.Obj :=
  let a (i : Nat) : Nat := ((o.attrs[i]?).getD 0).toNat
  if isDCache o.type || isICache o.type || o.type == tMEMCACHE then { type := o.type, depth := a 1, ctype := a 4 }
  else if o.type == tGROUP then { type := o.type, depth := a 0 }
  else if o.type == tBRIDGE then { type := o.type, upstream := a 0 }
  else if o.type == tOSDEV then { type := o.type, ostypes := a 0 }
  else { type := o.type }

def typeName (o : Obj) (flags : Nat) : Option Bytes := TypeStr.typeText (typeObj o) flags

def idxText (logical : Bool) (o : Obj) : Option Bytes :=
  if logical then some (decDigits o.lidx) else if o.osidx < 0 then none else some (decDigits o.osidx.toNat)

def joinSep (sep : Bytes) : List Bytes → Bytes
  | [] => []
  | [x] => x
  | x :: r => x ++ sep ++ joinSep sep r

/-- the `--largest` loop: the objects printed; `none` = "No object included in this cpuset" (after the listed ones) -/
def largestLoop (c : Ctx) : Nat → Bitmap → List Obj → List Obj × Bool
  | 0, _, acc => (acc, false)
  | f+1, remaining, acc =>
    if remaining.iszero then (acc, true) else
    match firstLargest c.d (c.mask remaining) with
    | none => (acc, false)
    | some o => largestLoop c f (remaining.andnot (ofMask (cs o))) (acc ++ [o])

/-- hwloc_calc_intersects_set -/
def intersectsSet (c : Ctx) (cm nm : Nat) (o : Obj) : Bool :=
  let useN := isMemory o.type
  match climbWhile c.d (fun a => isSpecial a.type) c.d.fuel (some o) with
  | none => false
  | some a => if useN then intersects nm (nsOf a) else intersects cm (cs a)

/-- the objects the `-N` / `-I` loops visit before the filter test -/
def coveringObjs (c : Ctx) (cm nm : Nat) (l : Level) : List Obj :=
  (cousinsFrom c.d (objByDepth c.d l.depth 0)).filter (intersectsSet c cm nm)

/-- `-N`: the number printed -/
def numberOfCount (c : Ctx) (cm nm : Nat) (l : Level) : Nat :=
  (coveringObjs c cm nm l).countP (fun o => !filtered l o)

/-- `-I`: the objects listed -/
def intersectObjs (c : Ctx) (cm nm : Nat) (l : Level) : List Obj :=
  (coveringObjs c cm nm l).filter (fun o => !filtered l o)

/-- hwloc_calc_hierarch_output: the bytes printed (`none`: a name the model cannot print / 256-byte buffer exceeded) -/
def hierOut (c : Ctx) (levels : List Level) (logicalO : Bool) (sep : Bytes) : Nat → Bytes → Obj → Nat → Nat → Option Bytes
  | 0, _, _, _, _ => none
  | f+1, pre, root, set, lvl =>
    match levels[lvl]? with
    | none => none
    | some l =>
      let objs := (cousinsFrom c.d (objByDepth c.d l.depth 0)).filter (coverOk (cs root))
      let step (acc : Option (Bytes × Bool)) (p : Obj × Nat) : Option (Bytes × Bool) :=
        match acc with
        | none => none
        | some (out, first) =>
          let o := p.1
          if !intersects set (cs o) then some (out, first)
          else if filtered l o then some (out, first)
          else match typeName o Hw.Gen.TypeTables.FLAG_LONG_NAMES with
            | none => none
            | some ty =>
              let idx := if logicalO then decDigits p.2 else (if o.osidx < 0 then str "-1" else decDigits o.osidx.toNat)
              let string := pre ++ (if lvl != 0 then str "." else []) ++ ty ++ str ":" ++ idx
              if string.length ≥ 256 then none else
              let out := if first then out else out ++ sep
              if lvl + 1 != levels.length then
                match hierOut c levels logicalO sep f string o (set &&& cs o) (lvl + 1) with
                | none => none
                | some sub => some (out ++ sub, false)
              else some (out ++ string, false)
      (objs.zipIdx.foldl step (some ([], true))).map (·.1)

def hexByte (n : Nat) : Bytes := hexPad 2 n

/-- hwloc_utils_systemd_asprintf; `none` = exit(EXIT_FAILURE) (empty or infinite set) -/
def systemdText (b : Bitmap) : Option Bytes :=
  if b.last < 0 then none else
  let nbytes := b.last.toNat / 8 + 1
  let m := maskOf b 0
  some (str "ay 0x" ++ hexPad 4 nbytes ++ ((List.range nbytes).map (fun k => str " 0x" ++ hexByte ((m >>> (8 * k)) % 256))).flatten)

def setText (f : Fmt) (b : Bitmap) : Option Bytes :=
  match f with
  | .hwloc => some (Bitmap.chunksHwloc b).flatten
  | .list => some (Bitmap.chunksList b).flatten
  | .taskset => some (Bitmap.chunksTaskset b).flatten
  | .systemd => systemdText b

/-- the levels of the output options, parsed after the argument loop -/
structure OutCfg where
  numberOf : Option Level := none
  intersect : Option Level := none
  hier : List Level := []

inductive Cfg
  | ok (o : OutCfg)
  | out                 -- `ret = EXIT_FAILURE; goto out`: the -N / -I / -H argument is not a usable level
  | unmodelled

def parseOutLevel (d : Dump) (s : Bytes) : Option (Option Level) :=      -- none = unmodelled, some none = error
  if ciEq (s.take 10) (str "memorytier") || ciEq (s.take 7) (str "cpukind") then none
  else match parseLevel d (-1) s with
    | .unmodelled => none
    | .err _ _ => some none
    | .ok l => some (some l)

def splitDots (s : Bytes) : List Bytes :=
  match splitDot s with
  | (a, none) => [a]
  | (a, some r) => a :: (if r.length < s.length then splitDots r else [])
termination_by s.length

def parseHier (d : Dump) : List Bytes → Option (Option (List Level))
  | [] => some (some [])
  | t :: r =>
    match parseLevel d (-1) t with
    | .unmodelled => none
    | .err _ _ => some none
    | .ok l =>
      if l.depth < 0 && l.depth != -3 then some none
      else match parseHier d r with
        | none => none
        | some none => some none
        | some (some ls) => some (some (l :: ls))

def outCfg (d : Dump) (s : St) : Cfg :=
  let n : Option (Option (Option Level)) := match s.numberOf with
    | none => some (some none)
    | some t => (parseOutLevel d t).map (fun r => r.map some)
  match n with
  | none => .unmodelled
  | some none => .out
  | some (some nl) =>
    let i : Option (Option (Option Level)) := match s.intersect with
      | none => some (some none)
      | some t => (parseOutLevel d t).map (fun r => r.map some)
    match i with
    | none => .unmodelled
    | some none => .out
    | some (some il) =>
      match s.hier with
      | none => .ok { numberOf := nl, intersect := il }
      | some h =>
        match parseHier d (splitDots h) with
        | none => .unmodelled
        | some none => .out
        | some (some ls) => .ok { numberOf := nl, intersect := il, hier := ls }

/-- `hwloc_calc_output(topology, sep, cpuset, nodeset)`: (status, bytes printed; `none` = not predicted) -/
def output (c : Ctx) (s : St) (cfg : OutCfg) (cpuset nodeset : Bitmap) : Nat × Option Bytes :=
  let d := c.d
  let cpuset := match s.noSmt with
    | none => cpuset
    | some w => if typeDepth d tCORE == depthUnknown then cpuset
                else if cpuset.inf then cpuset       -- guarded by the caller (infinite + --no-smt is skipped)
                else ofMask (singlifyPerCore d (c.mask cpuset) w)
  let cpuset := if s.single then cpuset.singlify else cpuset
  let nl := str "\n"
  if s.largest then
    let sep := s.sep.getD (str " ")
    let (objs, ok) := largestLoop c (weight (c.mask cpuset) + 2) cpuset []
    let names := objs.mapM (fun o => (typeName o Hw.Gen.TypeTables.FLAG_LONG_NAMES).map (fun ty =>
        match idxText s.logicalO o with | some i => ty ++ str ":" ++ i | none => ty))
    match names with
    | none => (0, none)
    | some ns => if ok then (0, some (joinSep sep ns ++ nl)) else (1, none)
  else
    let cm := c.mask cpuset
    let nm := c.mask nodeset
    let numOn := match cfg.numberOf with | some l => l.depth != depthUnknown | none => false
    let intOn := match cfg.intersect with | some l => l.depth != depthUnknown | none => false
    if numOn then
      match cfg.numberOf with
      | some l => (0, some (decDigits (numberOfCount c cm nm l) ++ nl))
      | none => (0, none)
    else if intOn then
      match cfg.intersect with
      | some l =>
        let sep := s.sep.getD (str ",")
        let items := (intersectObjs c cm nm l).mapM (fun o =>
          let idx := match idxText s.logicalO o with | some i => i | none => str "-1"
          if s.objectO then (typeName o 0).map (fun ty => ty ++ str ":" ++ idx) else some idx)
        (0, items.map (fun it => joinSep sep it ++ nl))
      | none => (0, none)
    else if !cfg.hier.isEmpty then
      let sep := s.sep.getD (str " ")
      match d.rootObj? with
      | none => (0, none)
      | some r => (0, (hierOut c cfg.hier s.logicalO sep (cfg.hier.length + 1) [] r cm 0).map (· ++ nl))
    else
      match setText s.cof (if s.nodesetO then nodeset else cpuset) with
      | some t => (0, some (t ++ nl))
      | none => (2, none)          -- exit(EXIT_FAILURE) inside hwloc_utils_systemd_asprintf: the process ends (also in stdin mode)

/-! ### stdin mode -/

/-- `strtok(line, " \n")` tokens of one line -/
def splitOnP (p : Byte → Bool) : Bytes → Bytes → List Bytes
  | [], cur => [cur.reverse]
  | c :: r, cur => if p c then cur.reverse :: splitOnP p r [] else splitOnP p r (c :: cur)

def tokensOf (line : Bytes) : List Bytes :=
  (splitOnP (fun c => c == 32 || c == 10) line []).filter (fun t => !t.isEmpty)

def linesOf (input : Bytes) : List Bytes :=
  let ls := splitOnP (· == 10) input []
  -- a final newline does not start another line
  match ls.reverse with
  | [] :: r => r.reverse
  | _ => ls

/-- the locations of one stdin line, processed from a FRESH state: `hwloc_bitmap_zero(cpuset); hwloc_bitmap_zero(nodeset)` before
    the `strtok` loop, whatever the options (the cpuset and the nodeset the option state `s` holds are not read) -/
def lineFold (c : Ctx) (s : St) (line : Bytes) : Except Res St :=
  (tokensOf line).foldl (fun (st : Except Res St) t => match st with
    | .error e => .error e
    | .ok st => stepLoc c st t) (.ok { s with cpuset := Bitmap.alloc, nodeset := Bitmap.alloc })

/-- what one stdin line contributes: the bytes `hwloc_calc_output` prints for it, or the end of the run -/
inductive LineRes
  | stop (r : Res)
  | out (o : Bytes)
deriving Repr, DecidableEq

def lineOut (c : Ctx) (s : St) (cfg : OutCfg) (line : Bytes) : LineRes :=
  match lineFold c s line with
  | .error e => .stop e
  | .ok s1 =>
    if s1.noSmt.isSome && s1.cpuset.inf then .stop (.skip "no-smt-infinite") else
    match output c s1 cfg s1.cpuset s1.nodeset with
    | (rc, none) => .stop (if rc == 2 then .exit 1 none else .exit 0 none)   -- the return value of hwloc_calc_output is ignored here
    | (rc, some o) => if rc != 0 then .stop (.exit rc none) else .out o

def stdinLoop (c : Ctx) (s : St) (cfg : OutCfg) : List Bytes → Bytes → Res
  | [], acc => .exit 0 (some acc)
  | line :: rest, acc =>
    match lineOut c s cfg line with
    | .stop r => r
    | .out o => stdinLoop c s cfg rest (acc ++ o)

/-! ### main -/

/-- hwloc-calc's main() after the topology options (`-i …` is given to the harness, not to the model).
    `stdin` = the bytes on standard input. -/
def calcMain (d : Dump) (argv : List Bytes) (stdin : Bytes) : Res :=
  let c := mkCtx d
  match argv with
  | a :: _ => if isOpt topoOpts a then .skip "topology-option" else go c argv
  | [] => go c argv
where
  go (c : Ctx) (argv : List Bytes) : Res :=
    match argLoop c {} argv with
    | .error e => e
    | .ok s =>
      let convert := s.largest || s.numberOf.isSome || s.intersect.isSome || s.hier.isSome
      let s := if convert && s.nodesetO && !s.nodesetI then { s with nodesetO := false } else s
      match outCfg c.d s with
      | .unmodelled => .skip "output-level"
      | .out => .exit 1 (if s.outKnown then some [] else none)
      | .ok cfg =>
        let r : Res :=
          if s.nlocs != 0 then
            if s.noSmt.isSome && s.cpuset.inf then .skip "no-smt-infinite" else
            let (rc, out) := output c s cfg s.cpuset s.nodeset
            .exit rc (if rc == 0 then out else none)
          else
            let banner := if s.verbose ≥ 0 then str "Waiting for locations to process on stdin...\n" else []
            stdinLoop c s cfg (linesOf stdin) banner
        -- after -v the status is still predicted, stdout is not
        if s.outKnown && (s.nlocs != 0 || decide (s.verbose ≤ 0)) then r else match r with
          | .exit rc _ => .exit rc none
          | x => x

/-! ### hwloc-distrib -/

structure DSt where
  single : Bool := false
  cof : Fmt := .hwloc
  reverse : Bool := false
  fromT : Option Bytes := none
  toT : Option Bytes := none
  n : Option Nat := none
  outKnown : Bool := true      -- false after -v (the input autodetection then reports on stdout)

def dFlagOpts : List String := ["--single", "--taskset", "-v", "--verbose", "--reverse"]
def dArgOpts : List String := ["--cpuset-output-format", "--cof", "--from", "--to", "--at"]
def dSkipOpts : List String :=
  ["--disallowed", "--whole-system", "-h", "--help", "--input", "-i", "--input-format", "--if", "--ignore", "--restrict",
   "--restrict-flags", "--version"]

/-- `n = strtol(arg, &end, 10); if (end == arg || *end || n < 0) → "invalid number"`: `none` = outside the model (leading white
    space, huge values), `some none` = invalid, `some (some n)`.  (The argument never starts with '-': that is an option.) -/
def numberArg (a : Bytes) : Option (Option Nat) :=
  match a with
  | [] => some none
  | c :: _ => if isSpace c then none else
    let body := match a with | 43 :: r => r | _ => a
    let (v, n, rest) := takeDigits 10 body 0 0
    if n = 0 || !rest.isEmpty then some none
    else if v ≥ 2 ^ 31 then none else some (some v)

def dArgLoop : DSt → List Bytes → Except Res DSt
  | s, [] => .ok s
  | s, a :: rest =>
    if a == str "--" then .ok s          -- the remaining arguments are never read
    else if a.head? == some 45 then
      if isOpt dSkipOpts a then .error (.skip "option")
      else if a == str "--single" then dArgLoop { s with single := true } rest
      else if a == str "--taskset" then dArgLoop { s with cof := .taskset } rest
      else if a == str "-v" || a == str "--verbose" then dArgLoop { s with outKnown := false } rest
      else if a == str "--reverse" then dArgLoop { s with reverse := true } rest
      else if isOpt dArgOpts a then
        match rest with
        | [] => .error (.exit 1 (some []))
        | v :: rest' =>
          if a == str "--from" then dArgLoop { s with fromT := some v } rest'
          else if a == str "--to" then dArgLoop { s with toT := some v } rest'
          else if a == str "--at" then dArgLoop { s with fromT := some v, toT := some v } rest'
          else match parseFmt v with
            | none => .error (.exit 1 (some []))
            | some f => dArgLoop { s with cof := f } rest'
      else .error (.exit 1 (some []))
    else
      match s.n with
      | some _ => .error (.exit 1 (some []))     -- duplicate number
      | none => match numberArg a with
        | none => .error (.skip "number")
        | some none => .error (.exit 1 (some []))          -- invalid number
        | some (some n) => dArgLoop { s with n := some n } rest

/-- `hwloc_type_sscanf(...) < 0 || (depth = hwloc_get_type_depth_with_attr(...)) < 0` → none -/
def dTypeDepth (d : Dump) (t : Bytes) : Option (Option Int) :=
  match TypeStr.typeSscanf t with
  | .ok (some p) => let dp := typeDepthWithAttr d p; some (if dp < 0 then none else some dp)
  | .ok none => some none
  | _ => none

def intMax : Int := 2147483647

/-- the sets hwloc-distrib prints, one per line -/
def distribSets (d : Dump) (s : DSt) (n : Nat) (fromD toD : Int) : Option (List Nat) :=
  let roots := levelObjs d fromD
  if n * totWeight roots + totWeight roots ≥ 2 ^ 32 then none
  else if totWeight roots = 0 then none
  else distrib d roots n toD (if s.reverse then 1 else 0)

def distribMain (d : Dump) (argv : List Bytes) : Res :=
  match dArgLoop {} argv with
  | .error e => e
  | .ok s =>
    match s.n with
    | none => .exit 1 (some [])
    | some n =>
      let fromR : Option (Option Int) := match s.fromT with | none => some (some 0) | some t => dTypeDepth d t
      match fromR with
      | none => .skip "type"
      | some none => .exit 1 (some [])
      | some (some fromD) =>
        let toR : Option (Option Int) := match s.toT with | none => some (some intMax) | some t => dTypeDepth d t
        match toR with
        | none => .skip "type"
        | some none => .exit 1 (some [])
        | some (some toD) =>
          if n = 0 then .exit 0 (if s.outKnown then some [] else none) else
          match distribSets d s n fromD toD with
          | none => .skip "distrib-domain"
          | some sets =>
            if sets.length != n then .skip "distrib-count" else
            let lines := sets.mapM (fun m =>
              let b := ofMask m
              let b := if s.single then (if s.reverse then (if b.last < 0 then b else Bitmap.only b b.last.toNat) else b.singlify) else b
              (setText s.cof b).map (· ++ str "\n"))
            match lines with
            | none => .exit 1 none         -- systemd format of an empty set
            | some ls => .exit 0 (if s.outKnown then some ls.flatten else none)

end Hw.Calc
