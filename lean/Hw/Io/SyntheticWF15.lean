/-
  Hw.Io.SyntheticWF15 — `siblings-ordered` for `toDump t`: normal children are listed by increasing first bit of their
  complete_cpuset, memory children by increasing first bit of their complete_nodeset.  This is NOT implied by
  `topoOK`/`puOK`/`numaOK` (a PU index sequence such as [1, 0] under a two-PU root lists the children in the wrong order:
  hwloc reorders the children, which is what `orderTopo` does before `toDump` is applied); the exact extra condition is the
  decidable `sibOK`: for consecutive normal siblings the smallest PU os_index below the first is smaller than the smallest
  below the second, and the NUMA os_indexes of the memory children of one object increase.
-/
import Hw.Io.SyntheticWF12
namespace Hw.Syn
open Hw Hw.Topo

set_option linter.unusedSectionVars false
set_option linter.unusedSimpArgs false

/-! ### the first bit of a mask -/

theorem find?_range_first (p : Nat → Bool) : ∀ (n i : Nat), i < n → p i = true → (∀ j, j < i → p j = false) →
    (List.range n).find? p = some i := by
  intro n
  induction n with
  | zero => intro i hi; omega
  | succ n ih =>
    intro i hi hp hn
    rw [List.range_succ, List.find?_append]
    rcases Nat.lt_or_ge i n with h1 | h1
    · rw [ih i h1 hp hn]; rfl
    · have e : i = n := by omega
      subst e
      have : (List.range i).find? p = none := by
        rw [List.find?_eq_none]
        intro x hx
        rw [hn x (List.mem_range.1 hx)]; simp
      rw [this]
      simp [hp]

/-- `firstI m` is the position of the lowest set bit -/
theorem firstI_eq (m i : Nat) (hi : m.testBit i = true) (hlt : ∀ j, j < i → m.testBit j = false) : firstI m = (i : Int) := by
  have hm : m ≠ 0 := by
    intro h0; rw [h0, Nat.zero_testBit] at hi; cases hi
  have hge : 2 ^ i ≤ m := Nat.ge_two_pow_of_testBit hi
  have hlog : i ≤ m.log2 := (Nat.le_log2 hm).2 hge
  unfold firstI
  rw [if_neg hm, find?_range_first (fun i => m.testBit i) (m.log2 + 1) i (by omega) hi hlt]
  rfl

theorem firstI_single (i : Nat) : firstI (1 <<< i) = (i : Int) := by
  apply firstI_eq
  · rw [testBit_single]; simp
  · intro j hj; rw [testBit_single]; simp; omega

/-- smallest element of a list (0 for the empty list) -/
def minL : List Nat → Nat
  | [] => 0
  | x :: xs => xs.foldl min x

theorem foldl_min_spec : ∀ (xs : List Nat) (a : Nat), xs.foldl min a ∈ a :: xs ∧ ∀ y ∈ a :: xs, xs.foldl min a ≤ y := by
  intro xs
  induction xs with
  | nil => intro a; exact ⟨List.mem_cons_self, fun y hy => by simp at hy; subst hy; exact Nat.le_refl _⟩
  | cons x xs ih =>
    intro a
    obtain ⟨h1, h2⟩ := ih (min a x)
    rw [List.foldl_cons]
    constructor
    · rcases List.mem_cons.1 h1 with h1 | h1
      · rw [h1]
        rcases Nat.le_total a x with h3 | h3
        · rw [Nat.min_eq_left h3]; exact List.mem_cons_self
        · rw [Nat.min_eq_right h3]; exact List.mem_cons_of_mem _ List.mem_cons_self
      · exact List.mem_cons_of_mem _ (List.mem_cons_of_mem _ h1)
    · intro y hy
      have h0 := h2 (min a x) List.mem_cons_self
      rcases List.mem_cons.1 hy with rfl | hy
      · exact Nat.le_trans h0 (Nat.min_le_left _ _)
      · rcases List.mem_cons.1 hy with rfl | hy
        · exact Nat.le_trans h0 (Nat.min_le_right _ _)
        · exact h2 y (List.mem_cons_of_mem _ hy)

theorem minL_spec (l : List Nat) (hne : l ≠ []) : minL l ∈ l ∧ ∀ y ∈ l, minL l ≤ y := by
  cases l with
  | nil => exact absurd rfl hne
  | cons x xs => exact foldl_min_spec xs x

/-- the first bit of an OR of singletons is the smallest index -/
theorem firstI_orBits (l : List Nat) (hne : l ≠ []) : firstI (orBits l) = (minL l : Int) := by
  obtain ⟨h1, h2⟩ := minL_spec l hne
  apply firstI_eq
  · rw [testBit_orBits]; simpa using h1
  · intro j hj
    rw [testBit_orBits]
    cases hc : l.contains j
    · rfl
    · have := h2 j (by simpa using hc); omega

/-! ### the side condition -/

/-- PU os_indexes below (d, k), in logical order -/
def cpuList (t : Topo) (d k : Nat) : List Nat :=
  (List.range (wOf (mkTab t) d)).map (fun j => pu t (k * wOf (mkTab t) d + j))

def nu (t : Topo) (p : Nat) : Nat := t.numaIdx[p]?.getD 0

/-- the fifth side condition (what the core's ordering of children establishes): consecutive normal siblings are in the
order of their smallest PU os_index; the NUMA os_indexes of the memory children of one object increase -/
def sibOK (t : Topo) : Bool :=
  (List.range (mkTab t).D).all (fun d => (List.range (nOf (mkTab t) (d + 1))).all (fun k =>
    !(decide (k % arOf (mkTab t) d + 1 < arOf (mkTab t) d)) ||
      decide (minL (cpuList t (d + 1) k) < minL (cpuList t (d + 1) (k + 1))))) &&
  (List.range ((mkTab t).D + 1)).all (fun d => (List.range (nOf (mkTab t) d)).all (fun k =>
    (List.range (memLen (mkTab t) d)).all (fun s =>
      !(decide (s + 1 < memLen (mkTab t) d)) ||
        decide (nu t (postPos (mkTab t) (numaCnt (mkTab t)) d k s) < nu t (postPos (mkTab t) (numaCnt (mkTab t)) d k s + 1)))))

theorem sibOK_normal (t : Topo) (hs : sibOK t = true) (d k : Nat) (hd : d < (mkTab t).D) (hk : k < nOf (mkTab t) (d + 1))
    (hn : k % arOf (mkTab t) d + 1 < arOf (mkTab t) d) :
    minL (cpuList t (d + 1) k) < minL (cpuList t (d + 1) (k + 1)) := by
  unfold sibOK at hs
  simp only [Bool.and_eq_true, List.all_eq_true, List.mem_range, Bool.or_eq_true, Bool.not_eq_true', decide_eq_false_iff_not,
    decide_eq_true_eq] at hs
  rcases hs.1 d hd k hk with h1 | h1
  · exact absurd hn h1
  · exact h1

theorem sibOK_mem (t : Topo) (hs : sibOK t = true) (d k s : Nat) (hd : d ≤ (mkTab t).D) (hk : k < nOf (mkTab t) d)
    (hn : s + 1 < memLen (mkTab t) d) :
    nu t (postPos (mkTab t) (numaCnt (mkTab t)) d k s) < nu t (postPos (mkTab t) (numaCnt (mkTab t)) d k (s + 1)) := by
  unfold sibOK at hs
  simp only [Bool.and_eq_true, List.all_eq_true, List.mem_range, Bool.or_eq_true, Bool.not_eq_true', decide_eq_false_iff_not,
    decide_eq_true_eq] at hs
  rcases hs.2 d (by omega) k hk s (by omega) with h1 | h1
  · exact absurd hn h1
  · exact h1

theorem firstObj_cnodeset (t : Topo) (d k s : Nat) :
    (firstObj (envOf t) d k s).cnodeset = some (1 <<< nu t (postPos (mkTab t) (numaCnt (mkTab t)) d k s)) := by
  unfold firstObj; split <;> rfl

section
variable (t : Topo) (h : OK t)
include h

theorem wOf_pos (d : Nat) (hd : d ≤ (mkTab t).D) : 0 < wOf (mkTab t) d := by
  have h1 := w_total t h d hd
  have h2 := nOf_pos t h (mkTab t).D (Nat.le_refl _)
  rcases Nat.eq_zero_or_pos (wOf (mkTab t) d) with h0 | h0
  · rw [h0, Nat.mul_zero] at h1; omega
  · exact h0

theorem firstI_cpuset (d k : Nat) (hd : d ≤ (mkTab t).D) :
    firstI (cpusetOf (envOf t) d k) = (minL (cpuList t d k) : Int) := by
  rw [cpusetOf_eq]
  apply firstI_orBits
  have := wOf_pos t h d hd
  intro he
  have hl := congrArg List.length he
  simp only [List.length_map, List.length_range, List.length_nil] at hl
  omega

theorem next_sib_lt (d k : Nat) (hd : d < (mkTab t).D) (hk : k < nOf (mkTab t) (d + 1))
    (hn : k % arOf (mkTab t) d + 1 < arOf (mkTab t) d) : k + 1 < nOf (mkTab t) (d + 1) := by
  have h1 := div_lt_parent t d k hd hk
  rw [nOf_succ t d hd] at hk ⊢
  have h2 := Nat.div_add_mod k (arOf (mkTab t) d)
  have h3 : arOf (mkTab t) d * (k / arOf (mkTab t) d + 1) ≤ arOf (mkTab t) d * nOf (mkTab t) d := Nat.mul_le_mul_left _ h1.2
  rw [Nat.mul_succ] at h3
  rw [Nat.mul_comm (nOf (mkTab t) d)]
  omega

/-- **siblings-ordered** under `sibOK` -/
theorem cl_siblings_ordered (hs : sibOK t = true) (o : Obj) (ho : o ∈ (toDump t).objs) :
    (fun (d : Dump) (_ : Aux) (o : Obj) => match d.obj? o.nextSib with
      | none => true
      | some nx =>
        if isNormal o.type && isNormal nx.type then
          decide (firstI (nx.ccpuset.getD 0) < 0) ||
          (decide (0 ≤ firstI (o.ccpuset.getD 0)) && decide (firstI (o.ccpuset.getD 0) < firstI (nx.ccpuset.getD 0)))
        else if isMemory o.type && isMemory nx.type then
          decide (firstI (o.cnodeset.getD 0) < firstI (nx.cnodeset.getD 0))
        else true) (toDump t) (mkAux (toDump t)) o = true := by
  rcases mem_kind t o ho with ⟨d, k, hd, hk, e⟩ | ⟨d, k, s, hd, hk, hs', e⟩ | ⟨d, k, s, hd, hk, hs', hm, e⟩
  · cases d with
    | zero => rw [e]; rfl
    | succ d =>
      have hd' : d < (mkTab t).D := hd
      by_cases hn : k % arOf (mkTab t) d + 1 < arOf (mkTab t) d
      · have hk1 := next_sib_lt t h d k hd' hk hn
        have hl := lookup_normal t (d + 1) (k + 1) hd hk1
        have hlt := sibOK_normal t hs d k hd' hk hn
        simp only [e, (normalObj_sibs t d k hd').2, if_pos hn, hl, normalObj_type, ntype_normal t h (d + 1) hd, Bool.and_self,
          if_true, normalObj_ccpuset, Option.getD_some, firstI_cpuset t h (d + 1) _ hd, Bool.or_eq_true, Bool.and_eq_true,
          decide_eq_true_eq]
        right
        omega
      · simp only [e, (normalObj_sibs t d k hd').2, if_neg hn, obj?_neg1]
  · have hf := firstObj_fields (envOf t) d k s
    have hty := firstObj_type (envOf t) d k s
    by_cases hn : s + 1 < memLen (envOf t).T d
    · have hl : (toDump t).obj? ((memId (envOf t).T d k (s + 1) : Nat) : Int) = some (firstObj (envOf t) d k (s + 1)) :=
        lookup_first t d k (s + 1) hd hk hn
      have hty' := firstObj_type (envOf t) d k (s + 1)
      have hlt := sibOK_mem t hs d k s hd hk hn
      simp only [e, hf.2.2.2.1, if_pos hn, hl, hty.1, hty.2, hty'.1, hty'.2, Bool.and_self, Bool.false_eq_true, if_false, if_true,
        firstObj_cnodeset, Option.getD_some, firstI_single, decide_eq_true_eq]
      omega
    · simp only [e, hf.2.2.2.1, if_neg hn, obj?_neg1]
  · have hn := numaObj_mc (envOf t) d k s hm
    simp only [e, hn.2.2.2.1, obj?_neg1]

end

end Hw.Syn
