/-
  Hw.Io.XmlTreeLemmas — the tree-level round trip of Hw.Io.XmlTree: for every tree of valid objects (any depth, any arities),
  importing the exported element tree gives the normalised tree back, children lists preserved in order per kind.
-/
import Hw.Io.XmlTree
import Hw.Io.XmlObjLemmas
import Hw.Io.Base64Lemmas
import Hw.Io.XmlLemmas
namespace Hw.XmlTree
open Hw Hw.Topo Hw.XmlObj

theorem importKids_nil (cc : Ctx) (ptOk : Bool) (acc : Acc) : importKids cc ptOk [] acc = .ok acc := by
  rw [importKids]

theorem importKids_cons (cc : Ctx) (ptOk : Bool) (e : Elem) (es : List Elem) (acc : Acc) :
    importKids cc ptOk (e :: es) acc =
      if e.tag = tagObject then
        match importObj cc e with
        | .ok t => importKids cc ptOk es { acc with kids := acc.kids ++ [t], seenObj := true }
        | .reject => .reject
        | .outside => .outside
      else if acc.seenObj then .reject
      else match importSub ptOk acc e with
        | .ok acc' => importKids cc ptOk es acc'
        | .reject => .reject
        | .outside => .outside := by
  rw [importKids]; rfl

theorem importObj_mk (c : Ctx) (tag : Bytes) (attrs : List (Bytes × Bytes)) (content : Option Bytes) (kids : List Elem) :
    importObj c (.mk tag attrs content kids) =
    if content.isSome then .reject
    else match importAttrs c attrs with
      | .reject => .reject
      | .outside => .outside
      | .ignored => .outside
      | .ok f =>
        (importKids { root := false, parentType := f.type, parentHasSets := f.cpuset.isSome } (f.type == tNUMA || c.root) kids {}).bind
          (finish f) := by
  rw [importObj]; rfl

theorem exportTree_mk (root : Bool) (d : Node) (mem nor io misc : List Tree) :
    exportTree root (.mk d mem nor io misc) = .mk tagObject (exportAttrs root d.f) none
      (subElems d ++ (exportList mem ++ (exportList nor ++ (exportList io ++ exportList misc)))) := by
  rw [exportTree]
theorem exportList_cons (t : Tree) (ts : List Tree) : exportList (t :: ts) = exportTree false t :: exportList ts := by rw [exportList]
theorem exportList_nil : exportList [] = [] := by rw [exportList]
theorem normList_eq_map : ∀ l : List Tree, normList l = l.map normTree
  | [] => by rw [normList]; rfl
  | t :: ts => by rw [normList, normList_eq_map ts]; rfl
theorem normTree_mk (d : Node) (mem nor io misc : List Tree) :
    normTree (.mk d mem nor io misc) = .mk (normNode d) (normList mem) (normList nor) (normList io) (normList misc) := by rw [normTree]
theorem TreeValid_mk (c : Ctx) (d : Node) (mem nor io misc : List Tree) :
    TreeValid c (.mk d mem nor io misc) = (Valid c d.f && nodeValid d &&
    mem.all (fun t => isMemoryT t.type) && nor.all (fun t => isNormalT t.type) &&
    io.all (fun t => isIOT t.type) && misc.all (fun t => isMiscT t.type) &&
    !outOfOrder nor &&
    ListValid (childCtx d.f) mem && ListValid (childCtx d.f) nor && ListValid (childCtx d.f) io && ListValid (childCtx d.f) misc) := by
  rw [TreeValid]
theorem ListValid_cons (c : Ctx) (t : Tree) (ts : List Tree) : ListValid c (t :: ts) = (TreeValid c t && ListValid c ts) := by rw [ListValid]

/-! ### the non-object child elements -/

theorem ptLoop_export (p : Nat × Nat) (h1 : p.1 < 2 ^ 64) (h2 : p.2 < 2 ^ 64) :
    ptLoop [(b "size", decDigits p.1), (b "count", decDigits p.2)] 0 0 = .ok p := by
  have e1 : (b "size" = b "info") = False := by decide
  have e2 : (b "count" = b "info") = False := by decide
  have e3 : (b "count" = b "size") = False := by decide
  simp only [ptLoop, e1, e2, e3, if_false, if_true, strtoulV_decDigits _ h1, strtoulV_decDigits _ h2]

theorem importSub_pt (acc : Acc) (p : Nat × Nat) (h1 : p.1 < 2 ^ 64) (h2 : p.2 < 2 ^ 64) :
    importSub true acc (ptElem p) = .ok (if p.1 ≠ 0 then { acc with pts := acc.pts ++ [p] } else acc) := by
  simp only [importSub, ptElem, Elem.tag, Elem.attrs, Elem.content, Elem.kids, if_true, ptLoop_export p h1 h2, Res.bind]
  simp

theorem importSub_info (ptOk : Bool) (acc : Acc) (p : Bytes × Bytes) :
    importSub ptOk acc (infoElem p) = .ok { acc with infos := acc.infos ++ [sanPair p] } := by
  have e1 : (tagInfo = tagPageType) = False := by decide
  simp only [importSub, infoElem, Elem.tag, Elem.attrs, Elem.content, Elem.kids, e1, if_false, if_true, importInfo_exportInfo p.1 p.2]
  simp [sanPair]

theorem udLoop_export (u : UData) (h : u.data.length < 2 ^ 64) :
    udLoop (udElem u).attrs 0 false none = .ok (u.data.length, u.b64, u.name) := by
  have e1 : (b "name" = b "length") = False := by decide
  have e2 : (b "name" = b "encoding") = False := by decide
  have e3 : (b "encoding" = b "length") = False := by decide
  have e4 : (b "base64" == b "base64") = true := by decide
  obtain ⟨name, b64, data⟩ := u
  cases name <;> cases b64 <;>
    simp only [udElem, Elem.attrs, udLoop, e1, e2, e3, e4, if_false, if_true, strtoulV_decDigits _ h, List.nil_append, List.append_nil,
      List.cons_append, Bool.false_eq_true]

theorem udContent_export (u : UData) (hb : ∀ x ∈ u.data, x < 256) :
    udContent u.data.length u.b64 u.name (udElem u).content = .ok u := by
  obtain ⟨name, b64, data⟩ := u
  simp only [udElem, Elem.content]
  by_cases h0 : data.length = 0
  · have hd : data = [] := List.eq_nil_of_length_eq_zero h0
    subst hd
    cases b64 <;> simp [udContent]
  · cases b64
    · simp [udContent, h0]
    · obtain ⟨tg', hdec, _, htake⟩ := B64.decode_encText data { cells := List.replicate (data.length + 1) 0 } hb
        (by simp [B64.Tgt.size])
      have hl : (B64.encText data).length = B64.encodedLength data.length := by rw [B64.encText_length, B64.encodedLength]
      simp only [udContent, h0, if_false, if_true, hl, hdec, Bool.true_and, bne_iff_ne, ne_eq, not_false_eq_true, not_true_eq_false,
        Option.map_some, Option.getD_some, htake]

theorem importSub_ud (ptOk : Bool) (acc : Acc) (u : UData) (hv : udValid u = true) :
    importSub ptOk acc (udElem u) = .ok { acc with uds := acc.uds ++ [u] } := by
  have e1 : (tagUserdata = tagPageType) = False := by decide
  have e2 : (tagUserdata = tagInfo) = False := by decide
  simp only [udValid, Bool.and_eq_true, decide_eq_true_eq, List.all_eq_true] at hv
  have hk : (udElem u).kids = [] := rfl
  have ht : (udElem u).tag = tagUserdata := rfl
  simp only [importSub, ht, e1, e2, if_false, if_true, udLoop_export u hv.1, Res.bind, udContent_export u hv.2, hk]
  simp

theorem importKids_sub (cc : Ctx) (ptOk : Bool) (e : Elem) (es : List Elem) (acc acc' : Acc) (ht : e.tag ≠ tagObject)
    (hs : acc.seenObj = false) (h : importSub ptOk acc e = .ok acc') :
    importKids cc ptOk (e :: es) acc = importKids cc ptOk es acc' := by
  rw [importKids_cons, if_neg ht, hs, h]; rfl

theorem ptElem_tag (p : Nat × Nat) : (ptElem p).tag ≠ tagObject := by show tagPageType ≠ tagObject; decide
theorem infoElem_tag (p : Bytes × Bytes) : (infoElem p).tag ≠ tagObject := by show tagInfo ≠ tagObject; decide
theorem udElem_tag (u : UData) : (udElem u).tag ≠ tagObject := by show tagUserdata ≠ tagObject; decide

theorem importKids_pts (cc : Ctx) (rest : List Elem) : ∀ (pts : List (Nat × Nat)) (acc : Acc), acc.seenObj = false →
    (∀ p ∈ pts, p.1 < 2 ^ 64 ∧ p.2 < 2 ^ 64) →
    importKids cc true (pts.map ptElem ++ rest) acc =
      importKids cc true rest { acc with pts := acc.pts ++ pts.filter (fun p => p.1 ≠ 0) }
  | [], acc, _, _ => by simp
  | p :: ps, acc, hs, hv => by
    have hp := hv p (List.mem_cons_self ..)
    rw [List.map_cons, List.cons_append,
      importKids_sub cc true (ptElem p) _ acc _ (ptElem_tag p) hs (importSub_pt acc p hp.1 hp.2)]
    by_cases h0 : p.1 = 0
    · rw [importKids_pts cc rest ps _ (by simpa [h0] using hs) (fun q hq => hv q (List.mem_cons_of_mem _ hq))]
      simp [h0]
    · rw [importKids_pts cc rest ps _ (by simpa [h0] using hs) (fun q hq => hv q (List.mem_cons_of_mem _ hq))]
      simp [h0]

theorem importKids_infos (cc : Ctx) (ptOk : Bool) (rest : List Elem) : ∀ (infos : List (Bytes × Bytes)) (acc : Acc), acc.seenObj = false →
    importKids cc ptOk (infos.map infoElem ++ rest) acc =
      importKids cc ptOk rest { acc with infos := acc.infos ++ infos.map sanPair }
  | [], acc, _ => by simp
  | p :: ps, acc, hs => by
    rw [List.map_cons, List.cons_append,
      importKids_sub cc ptOk (infoElem p) _ acc _ (infoElem_tag p) hs (importSub_info ptOk acc p),
      importKids_infos cc ptOk rest ps { acc with infos := acc.infos ++ [sanPair p] } hs]
    simp

theorem importKids_uds (cc : Ctx) (ptOk : Bool) (rest : List Elem) : ∀ (uds : List UData) (acc : Acc), acc.seenObj = false →
    (∀ u ∈ uds, udValid u = true) →
    importKids cc ptOk (uds.map udElem ++ rest) acc =
      importKids cc ptOk rest { acc with uds := acc.uds ++ uds }
  | [], acc, _, _ => by simp
  | u :: us, acc, hs, hv => by
    rw [List.map_cons, List.cons_append,
      importKids_sub cc ptOk (udElem u) _ acc _ (udElem_tag u) hs (importSub_ud ptOk acc u (hv u (List.mem_cons_self ..))),
      importKids_uds cc ptOk rest us { acc with uds := acc.uds ++ [u] } hs (fun q hq => hv q (List.mem_cons_of_mem _ hq))]
    simp

theorem importKids_subElems (cc : Ctx) (ptOk : Bool) (d : Node) (hv : nodeValid d = true) (hpt : d.f.type = tNUMA → ptOk = true)
    (rest : List Elem) :
    importKids cc ptOk (subElems d ++ rest) {} =
      importKids cc ptOk rest { pts := (normNode d).pts, infos := (normNode d).infos, uds := (normNode d).uds } := by
  simp only [nodeValid, Bool.and_eq_true, List.all_eq_true, decide_eq_true_eq] at hv
  have hu : ∀ u ∈ d.uds.filter udExportable, udValid u = true := fun u hu => hv.2 u (List.mem_filter.mp hu).1
  unfold subElems
  by_cases ht : d.f.type = tNUMA
  · have := hpt ht; subst this
    rw [if_pos ht, List.append_assoc, List.append_assoc, importKids_pts cc _ d.pts {} rfl hv.1,
      importKids_infos cc true _ d.infos _ rfl, importKids_uds cc true rest _ _ rfl hu]
    simp [normNode, ht]
  · rw [if_neg ht, List.nil_append, List.append_assoc, importKids_infos cc ptOk _ d.infos _ rfl, importKids_uds cc ptOk rest _ _ rfl hu]
    simp [normNode, ht]

/-! ### kinds, order, `finish` -/

theorem normTree_type (t : Tree) : (normTree t).type = t.type := by
  cases t with | mk d mem nor io misc => rw [normTree_mk]; rfl
theorem normTree_cc (t : Tree) : (normTree t).d.f.ccpuset = t.d.f.ccpuset := by
  cases t with | mk d mem nor io misc => rw [normTree_mk]; rfl

theorem outOfOrder_norm : ∀ l : List Tree, outOfOrder (l.map normTree) = outOfOrder l
  | [] => rfl
  | [_] => rfl
  | x :: y :: r => by
    have ih := outOfOrder_norm (y :: r)
    simp only [List.map_cons] at ih ⊢
    simp only [outOfOrder, normTree_cc, ih]

theorem isMemoryT_iff (t : Nat) : isMemoryT t = true ↔ t = 14 ∨ t = 15 := by simp [isMemoryT, tNUMA, tMEMCACHE]
theorem isNormalT_iff (t : Nat) : isNormalT t = true ↔ t ≤ 13 := by unfold isNormalT tGROUP; exact decide_eq_true_iff
theorem isIOT_iff (t : Nat) : isIOT t = true ↔ t = 16 ∨ t = 17 ∨ t = 18 := by simp [isIOT, tBRIDGE, tPCI, tOSDEV, or_assoc]
theorem isMiscT_iff (t : Nat) : isMiscT t = true ↔ t = 19 := by simp [isMiscT, tMISC]
theorem kind_mem_nor (t : Nat) (h : isMemoryT t = true) : isNormalT t = false := by
  rw [Bool.eq_false_iff, Ne, isNormalT_iff]; rw [isMemoryT_iff] at h; omega
theorem kind_mem_io (t : Nat) (h : isMemoryT t = true) : isIOT t = false := by
  rw [Bool.eq_false_iff, Ne, isIOT_iff]; rw [isMemoryT_iff] at h; omega
theorem kind_mem_misc (t : Nat) (h : isMemoryT t = true) : isMiscT t = false := by
  rw [Bool.eq_false_iff, Ne, isMiscT_iff]; rw [isMemoryT_iff] at h; omega
theorem kind_nor_mem (t : Nat) (h : isNormalT t = true) : isMemoryT t = false := by
  rw [Bool.eq_false_iff, Ne, isMemoryT_iff]; rw [isNormalT_iff] at h; omega
theorem kind_nor_io (t : Nat) (h : isNormalT t = true) : isIOT t = false := by
  rw [Bool.eq_false_iff, Ne, isIOT_iff]; rw [isNormalT_iff] at h; omega
theorem kind_nor_misc (t : Nat) (h : isNormalT t = true) : isMiscT t = false := by
  rw [Bool.eq_false_iff, Ne, isMiscT_iff]; rw [isNormalT_iff] at h; omega
theorem kind_io_mem (t : Nat) (h : isIOT t = true) : isMemoryT t = false := by
  rw [Bool.eq_false_iff, Ne, isMemoryT_iff]; rw [isIOT_iff] at h; omega
theorem kind_io_nor (t : Nat) (h : isIOT t = true) : isNormalT t = false := by
  rw [Bool.eq_false_iff, Ne, isNormalT_iff]; rw [isIOT_iff] at h; omega
theorem kind_io_misc (t : Nat) (h : isIOT t = true) : isMiscT t = false := by
  rw [Bool.eq_false_iff, Ne, isMiscT_iff]; rw [isIOT_iff] at h; omega
theorem kind_misc_mem (t : Nat) (h : isMiscT t = true) : isMemoryT t = false := by
  rw [Bool.eq_false_iff, Ne, isMemoryT_iff]; rw [isMiscT_iff] at h; omega
theorem kind_misc_nor (t : Nat) (h : isMiscT t = true) : isNormalT t = false := by
  rw [Bool.eq_false_iff, Ne, isNormalT_iff]; rw [isMiscT_iff] at h; omega
theorem kind_misc_io (t : Nat) (h : isMiscT t = true) : isIOT t = false := by
  rw [Bool.eq_false_iff, Ne, isIOT_iff]; rw [isMiscT_iff] at h; omega

theorem filter_all (p q : Nat → Bool) (l : List Tree) (h : l.all (fun t => q t.type) = true) (hpq : ∀ n, q n = true → p n = true) :
    (l.map normTree).filter (fun t => p t.type) = l.map normTree := by
  rw [List.filter_eq_self]
  intro a ha
  obtain ⟨t, ht, rfl⟩ := List.mem_map.mp ha
  rw [normTree_type]; exact hpq _ (List.all_eq_true.mp h t ht)

theorem filter_none (p q : Nat → Bool) (l : List Tree) (h : l.all (fun t => q t.type) = true) (hpq : ∀ n, q n = true → p n = false) :
    (l.map normTree).filter (fun t => p t.type) = [] := by
  rw [List.filter_eq_nil_iff]
  intro a ha
  obtain ⟨t, ht, rfl⟩ := List.mem_map.mp ha
  rw [normTree_type, hpq _ (List.all_eq_true.mp h t ht)]; simp

theorem finish_ok (f : ObjFields) (pts : List (Nat × Nat)) (infos : List (Bytes × Bytes)) (uds : List UData) (s : Bool)
    (mem nor io misc : List Tree)
    (hm : mem.all (fun t => isMemoryT t.type) = true) (hn : nor.all (fun t => isNormalT t.type) = true)
    (hi : io.all (fun t => isIOT t.type) = true) (hx : misc.all (fun t => isMiscT t.type) = true) (ho : outOfOrder nor = false) :
    finish f { pts := pts, infos := infos, uds := uds, seenObj := s,
               kids := mem.map normTree ++ (nor.map normTree ++ (io.map normTree ++ misc.map normTree)) } =
      .ok (.mk { f := f, infos := infos, pts := pts, uds := uds } (mem.map normTree) (nor.map normTree) (io.map normTree) (misc.map normTree)) := by
  unfold finish
  simp only [List.filter_append,
    filter_all isMemoryT isMemoryT mem hm (fun _ h => h), filter_none isMemoryT isNormalT nor hn kind_nor_mem,
    filter_none isMemoryT isIOT io hi kind_io_mem, filter_none isMemoryT isMiscT misc hx kind_misc_mem,
    filter_none isNormalT isMemoryT mem hm kind_mem_nor, filter_all isNormalT isNormalT nor hn (fun _ h => h),
    filter_none isNormalT isIOT io hi kind_io_nor, filter_none isNormalT isMiscT misc hx kind_misc_nor,
    filter_none isIOT isMemoryT mem hm kind_mem_io, filter_none isIOT isNormalT nor hn kind_nor_io,
    filter_all isIOT isIOT io hi (fun _ h => h), filter_none isIOT isMiscT misc hx kind_misc_io,
    filter_none isMiscT isMemoryT mem hm kind_mem_misc, filter_none isMiscT isNormalT nor hn kind_nor_misc,
    filter_none isMiscT isIOT io hi kind_io_misc, filter_all isMiscT isMiscT misc hx (fun _ h => h),
    List.append_nil, List.nil_append, outOfOrder_norm, ho]
  simp

/-! ### the round trip -/

theorem exportTree_tag (root : Bool) (t : Tree) : (exportTree root t).tag = tagObject := by
  cases t with | mk d mem nor io misc => rw [exportTree_mk]; rfl

mutual
theorem importObj_exportTree : ∀ (c : Ctx) (t : Tree), TreeValid c t = true → importObj c (exportTree c.root t) = .ok (normTree t)
  | c, .mk d mem nor io misc, hv => by
    rw [TreeValid_mk] at hv
    simp only [Bool.and_eq_true, Bool.not_eq_true'] at hv
    obtain ⟨⟨⟨⟨⟨⟨⟨⟨⟨⟨hV, hN⟩, hm⟩, hn⟩, hi⟩, hx⟩, ho⟩, vm⟩, vn⟩, vi⟩, vx⟩ := hv
    have hctx : ({ root := false, parentType := (normalise d.f).type, parentHasSets := (normalise d.f).cpuset.isSome } : Ctx) = childCtx d.f := rfl
    have hpt : d.f.type = tNUMA → ((normalise d.f).type == tNUMA || c.root) = true := by
      intro h; show (d.f.type == tNUMA || c.root) = true; simp [h]
    rw [exportTree_mk, importObj_mk]
    simp only [Option.isSome_none, Bool.false_eq_true, if_false, importAttrs_exportAttrs c d.f hV]
    rw [hctx, importKids_subElems _ _ d hN hpt,
      importKids_exportList (childCtx d.f) _ rfl mem vm, importKids_exportList (childCtx d.f) _ rfl nor vn,
      importKids_exportList (childCtx d.f) _ rfl io vi]
    have h4 := importKids_exportList (childCtx d.f) ((normalise d.f).type == tNUMA || c.root) rfl misc vx []
    rw [List.append_nil] at h4
    rw [h4, importKids_nil]
    simp only [Res.bind, List.nil_append, List.append_assoc]
    rw [normTree_mk, normList_eq_map, normList_eq_map, normList_eq_map, normList_eq_map]
    exact finish_ok _ _ _ _ _ mem nor io misc hm hn hi hx ho
theorem importKids_exportList : ∀ (cc : Ctx) (ptOk : Bool), cc.root = false → ∀ (ts : List Tree), ListValid cc ts = true →
    ∀ (rest : List Elem) (acc : Acc),
    importKids cc ptOk (exportList ts ++ rest) acc =
      importKids cc ptOk rest { acc with kids := acc.kids ++ ts.map normTree, seenObj := acc.seenObj || !ts.isEmpty }
  | cc, ptOk, _, [], _, rest, acc => by
    rw [exportList_nil]; simp
  | cc, ptOk, hr, t :: ts, hv, rest, acc => by
    rw [ListValid_cons, Bool.and_eq_true] at hv
    have h1 := importObj_exportTree cc t hv.1
    rw [hr] at h1
    rw [exportList_cons, List.cons_append, importKids_cons, if_pos (exportTree_tag false t), h1]
    simp only []
    rw [importKids_exportList cc ptOk hr ts hv.2 rest]
    simp
end

/-! ### the normalised tree is valid again and a fixpoint of the normalisation -/

theorem attrsValid_congr (f g : ObjFields) (ht : g.type = f.type) (ha : g.attrs = f.attrs) (hp : g.pci = f.pci) :
    attrsValid g = attrsValid f := by
  unfold attrsValid ObjFields.n ObjFields.a; rw [ht, ha, hp]

theorem attrsValid_normalise (f : ObjFields) (h : attrsValid f = true) : attrsValid (normalise f) = true := by
  have hl : f.attrs.length = 6 := by
    unfold attrsValid at h; simp only [Bool.and_eq_true, beq_iff_eq] at h; exact h.1
  obtain ⟨a0, a1, a2, a3, a4, a5, ha⟩ := six f.attrs hl
  by_cases hG : f.type = tGROUP
  · have hne : (tGROUP = tNUMA) = False := by decide
    have hc : isCacheLike tGROUP = false := by decide
    unfold attrsValid at h ⊢
    simp only [normalise, hG, ha, if_true, hne, if_false, hc, Bool.false_eq_true, ObjFields.a, ObjFields.n, List.set_cons_zero, List.getD_cons_zero,
      List.getD_cons_succ, List.length_cons, List.length_nil] at h ⊢
    simp only [Bool.and_eq_true, decide_eq_true_eq] at h ⊢
    simp_all
  · by_cases hB : f.type = tBRIDGE
    · have hne : (tBRIDGE = tNUMA) = False := by decide
      have hne2 : (tBRIDGE = tGROUP) = False := by decide
      have hc : isCacheLike tBRIDGE = false := by decide
      unfold attrsValid at h ⊢
      simp only [normalise, hB, ha, if_true, hne, hne2, if_false, hc, Bool.false_eq_true, ObjFields.a, ObjFields.n, List.set_cons_zero, List.set_cons_succ,
        List.getD_cons_zero, List.getD_cons_succ, List.length_cons, List.length_nil] at h ⊢
      simp only [Bool.and_eq_true, decide_eq_true_eq] at h ⊢
      simp_all
    · have e : attrsValid (normalise f) = attrsValid f :=
        attrsValid_congr f (normalise f) rfl (by simp only [normalise, hG, hB, if_false]) rfl
      rw [e]; exact h

theorem all_nz_sanitize (s : Bytes) : (Xml.sanitize s).all (· != 0) = true := by
  rw [List.all_eq_true]; intro x hx
  have := nz_sanitize s x hx
  simpa using this

theorem Valid_normalise (c : Ctx) (f : ObjFields) (h : Valid c f = true) : Valid c (normalise f) = true := by
  unfold Valid at h ⊢
  simp only [Bool.and_eq_true] at h ⊢
  obtain ⟨⟨⟨⟨⟨⟨⟨⟨⟨⟨h1, h2⟩, h3⟩, _⟩, _⟩, h6⟩, h7⟩, h8⟩, h9⟩, h10⟩, h11⟩ := h
  refine ⟨⟨⟨⟨⟨⟨⟨⟨⟨⟨h1, h2⟩, h3⟩, ?_⟩, ?_⟩, h6⟩, h7⟩, h8⟩, h9⟩, attrsValid_normalise f h10⟩, by rw [checks_normalise]; exact h11⟩
  · show (match f.name.map Xml.sanitize with | some s => s.all (· != 0) | none => true) = true
    cases f.name <;> simp [all_nz_sanitize]
  · show (match f.subtype.map Xml.sanitize with | some s => s.all (· != 0) | none => true) = true
    cases f.subtype <;> simp [all_nz_sanitize]

theorem sanitize_idem (s : Bytes) : Xml.sanitize (Xml.sanitize s) = Xml.sanitize s := by
  unfold Xml.sanitize; simp [List.filter_filter]

theorem normalise_idem (f : ObjFields) : normalise (normalise f) = normalise f := by
  have ht : (normalise f).type = f.type := rfl
  unfold normalise
  simp only [Option.map_map, Function.comp_def, sanitize_idem]
  by_cases hG : f.type = tGROUP
  · simp [hG]
  · by_cases hB : f.type = tBRIDGE
    · have hne : (tBRIDGE = tGROUP) = False := by decide
      simp [hB, hne]
    · simp [hG, hB]

theorem sanPair_idem (p : Bytes × Bytes) : sanPair (sanPair p) = sanPair p := by
  simp [sanPair, sanitize_idem]

theorem normNode_idem (d : Node) : normNode (normNode d) = normNode d := by
  have ht : (normalise d.f).type = d.f.type := rfl
  unfold normNode
  simp only [normalise_idem, ht, List.map_map, Function.comp_def, sanPair_idem, List.filter_filter, Bool.and_self]
  by_cases h : d.f.type = tNUMA <;> simp [h, List.filter_filter]

theorem nodeValid_normNode (d : Node) (h : nodeValid d = true) : nodeValid (normNode d) = true := by
  simp only [nodeValid, Bool.and_eq_true, List.all_eq_true] at h ⊢
  refine ⟨?_, fun u hu => h.2 u (List.mem_filter.mp hu).1⟩
  intro p hp
  by_cases ht : d.f.type = tNUMA
  · simp only [normNode, ht, if_true] at hp
    exact h.1 p (List.mem_filter.mp hp).1
  · simp [normNode, ht] at hp

theorem all_norm (p : Nat → Bool) (l : List Tree) (h : l.all (fun t => p t.type) = true) :
    (l.map normTree).all (fun t => p t.type) = true := by
  rw [List.all_eq_true] at h ⊢
  intro a ha
  obtain ⟨t, ht, rfl⟩ := List.mem_map.mp ha
  rw [normTree_type]; exact h t ht

mutual
theorem TreeValid_normTree : ∀ (c : Ctx) (t : Tree), TreeValid c t = true → TreeValid c (normTree t) = true
  | c, .mk d mem nor io misc, hv => by
    rw [TreeValid_mk] at hv
    simp only [Bool.and_eq_true, Bool.not_eq_true'] at hv
    obtain ⟨⟨⟨⟨⟨⟨⟨⟨⟨⟨hV, hN⟩, hm⟩, hn⟩, hi⟩, hx⟩, ho⟩, vm⟩, vn⟩, vi⟩, vx⟩ := hv
    have hctx : childCtx (normNode d).f = childCtx d.f := rfl
    rw [normTree_mk, TreeValid_mk, hctx]
    simp only [Bool.and_eq_true, Bool.not_eq_true']
    rw [normList_eq_map, normList_eq_map, normList_eq_map, normList_eq_map]
    refine ⟨⟨⟨⟨⟨⟨⟨⟨⟨⟨Valid_normalise c d.f hV, nodeValid_normNode d hN⟩, all_norm _ mem hm⟩, all_norm _ nor hn⟩, all_norm _ io hi⟩,
      all_norm _ misc hx⟩, by rw [outOfOrder_norm]; exact ho⟩, ?_⟩, ?_⟩, ?_⟩, ?_⟩
    · rw [← normList_eq_map]; exact ListValid_normList _ mem vm
    · rw [← normList_eq_map]; exact ListValid_normList _ nor vn
    · rw [← normList_eq_map]; exact ListValid_normList _ io vi
    · rw [← normList_eq_map]; exact ListValid_normList _ misc vx
theorem ListValid_normList : ∀ (c : Ctx) (ts : List Tree), ListValid c ts = true → ListValid c (normList ts) = true
  | _, [], _ => by rw [normList, ListValid]
  | c, t :: ts, hv => by
    rw [ListValid_cons, Bool.and_eq_true] at hv
    rw [normList, ListValid_cons, Bool.and_eq_true]
    exact ⟨TreeValid_normTree c t hv.1, ListValid_normList c ts hv.2⟩
end

mutual
theorem normTree_idem : ∀ t : Tree, normTree (normTree t) = normTree t
  | .mk d mem nor io misc => by
    rw [normTree_mk, normTree_mk, normNode_idem, normList_idem mem, normList_idem nor, normList_idem io, normList_idem misc]
theorem normList_idem : ∀ ts : List Tree, normList (normList ts) = normList ts
  | [] => by rw [normList, normList]
  | t :: ts => by rw [normList, normList, normTree_idem t, normList_idem ts]
end

/-- the root: `importTree` = the tag test + `importObj` in the root context -/
theorem importTree_exportTree (t : Tree) (hv : TreeValid { root := true } t = true) :
    importTree (exportTree true t) = .ok (normTree t) := by
  unfold importTree
  rw [if_pos (exportTree_tag true t)]
  exact importObj_exportTree { root := true } t hv

/-! ### start tags as bytes -/

mutual
def ElemOk : Elem → Prop
  | .mk _ a _ ks => AllOk a ∧ ElemsOk ks
def ElemsOk : List Elem → Prop
  | [] => True
  | e :: es => ElemOk e ∧ ElemsOk es
end

mutual
theorem rescan_ok : ∀ e : Elem, ElemOk e → rescan e = e
  | .mk t a c ks, h => by
    rw [ElemOk] at h
    rw [rescan, Xml.scanAttrs_renderAttrs a _ (Nat.lt_succ_self _) h.1, rescanList_ok ks h.2]
theorem rescanList_ok : ∀ es : List Elem, ElemsOk es → rescanList es = es
  | [], _ => by rw [rescanList]
  | e :: es, h => by
    rw [ElemsOk] at h
    rw [rescanList, rescan_ok e h.1, rescanList_ok es h.2]
end

theorem ElemsOk_append : ∀ (l1 l2 : List Elem), ElemsOk l1 → ElemsOk l2 → ElemsOk (l1 ++ l2)
  | [], _, _, h2 => h2
  | e :: es, l2, h1, h2 => by
    rw [ElemsOk] at h1
    rw [List.cons_append, ElemsOk]; exact ⟨h1.1, ElemsOk_append es l2 h1.2 h2⟩

theorem ElemsOk_map {α : Type} (f : α → Elem) : ∀ l : List α, (∀ x ∈ l, ElemOk (f x)) → ElemsOk (l.map f)
  | [], _ => by rw [List.map_nil, ElemsOk]; trivial
  | x :: xs, h => by
    rw [List.map_cons, ElemsOk]
    exact ⟨h x (List.mem_cons_self ..), ElemsOk_map f xs (fun y hy => h y (List.mem_cons_of_mem _ hy))⟩

theorem ptElem_ok (p : Nat × Nat) : ElemOk (ptElem p) := by
  rw [ptElem, ElemOk, ElemsOk]
  exact ⟨ok_cons (mk_ok _ _ (by decide) (nz_dec _)) (ok_cons (mk_ok _ _ (by decide) (nz_dec _)) ok_nil), trivial⟩

theorem infoElem_ok (p : Bytes × Bytes) : ElemOk (infoElem p) := by
  rw [infoElem, ElemOk, ElemsOk]
  exact ⟨exportInfo_ok p.1 p.2, trivial⟩

theorem nz_of_allValid (s : Bytes) (h : allValid s = true) : NZ s := by
  intro x hx
  have := List.all_eq_true.mp h x hx
  intro h0; subst h0; revert this; decide

theorem udElem_ok (u : UData) (h : udExportable u = true) : ElemOk (udElem u) := by
  rw [udElem, ElemOk, ElemsOk]
  refine ⟨ok_append (ok_append ?_ (ok_cons (mk_ok _ _ (by decide) (nz_dec _)) ok_nil)) ?_, trivial⟩
  · cases hn : u.name with
    | none => exact ok_nil
    | some n =>
      simp only [udExportable, hn, Bool.and_eq_true] at h
      exact ok_cons (mk_ok _ _ (by decide) (nz_of_allValid n h.1)) ok_nil
  · exact ok_ite (ok_cons (mk_ok _ _ (by decide) (nz_of_all (by decide))) ok_nil) ok_nil

theorem subElems_ok (d : Node) : ElemsOk (subElems d) := by
  unfold subElems
  refine ElemsOk_append _ _ (ElemsOk_append _ _ ?_ (ElemsOk_map _ _ (fun p _ => infoElem_ok p)))
    (ElemsOk_map _ _ (fun u hu => udElem_ok u (List.mem_filter.mp hu).2))
  split
  · exact ElemsOk_map _ _ (fun p _ => ptElem_ok p)
  · rw [ElemsOk]; trivial

mutual
theorem exportTree_ok : ∀ (c : Ctx) (t : Tree), TreeValid c t = true → ElemOk (exportTree c.root t)
  | c, .mk d mem nor io misc, hv => by
    rw [TreeValid_mk] at hv
    simp only [Bool.and_eq_true, Bool.not_eq_true'] at hv
    obtain ⟨⟨⟨⟨⟨⟨⟨⟨⟨⟨hV, _⟩, _⟩, _⟩, _⟩, _⟩, _⟩, vm⟩, vn⟩, vi⟩, vx⟩ := hv
    rw [exportTree_mk, ElemOk]
    exact ⟨exportAttrs_ok c d.f hV, ElemsOk_append _ _ (subElems_ok d)
      (ElemsOk_append _ _ (exportList_ok _ rfl mem vm) (ElemsOk_append _ _ (exportList_ok _ rfl nor vn)
        (ElemsOk_append _ _ (exportList_ok _ rfl io vi) (exportList_ok _ rfl misc vx))))⟩
theorem exportList_ok : ∀ (c : Ctx), c.root = false → ∀ (ts : List Tree), ListValid c ts = true → ElemsOk (exportList ts)
  | _, _, [], _ => by rw [exportList, ElemsOk]; trivial
  | c, hr, t :: ts, hv => by
    rw [ListValid_cons, Bool.and_eq_true] at hv
    have h1 := exportTree_ok c t hv.1
    rw [hr] at h1
    rw [exportList, ElemsOk]; exact ⟨h1, exportList_ok c hr ts hv.2⟩
end

/-- the tree round trip with every start tag taken through bytes -/
theorem importTree_rescan_exportTree (t : Tree) (hv : TreeValid { root := true } t = true) :
    importTree (rescan (exportTree true t)) = .ok (normTree t) := by
  rw [rescan_ok _ (exportTree_ok { root := true } t hv)]
  exact importTree_exportTree t hv

/-! ### the export of the reimported tree -/

theorem typeAttrs_congr (f g : ObjFields) (ht : g.type = f.type) (ha : g.attrs = f.attrs) (hp : g.pci = f.pci) :
    typeAttrs g = typeAttrs f := by
  unfold typeAttrs ObjFields.n ObjFields.a; rw [ht, ha, hp]

theorem strAttr_sanitize (n : String) (v : Option Bytes) : strAttr n (v.map Xml.sanitize) = strAttr n v := by
  cases v <;> simp [strAttr, sanitize_idem]

theorem exportAttrs_normalise (root : Bool) (f : ObjFields) : exportAttrs root (normalise f) = exportAttrs root (clearDerived f) := by
  have h1 : typeAttrs (normalise f) = typeAttrs (clearDerived f) := typeAttrs_congr _ _ rfl rfl rfl
  have h2 : setsSeg root (normalise f) = setsSeg root (clearDerived f) := rfl
  have h3 : strAttr "name" (normalise f).name = strAttr "name" (clearDerived f).name := strAttr_sanitize "name" f.name
  have h4 : strAttr "subtype" (normalise f).subtype = strAttr "subtype" (clearDerived f).subtype := strAttr_sanitize "subtype" f.subtype
  unfold exportAttrs
  rw [h1, h2, h3, h4]; rfl

theorem infoElem_sanPair (p : Bytes × Bytes) : infoElem (sanPair p) = infoElem p := by
  simp [infoElem, exportInfo, sanPair, sanitize_idem]

theorem subElems_normNode (d : Node) : subElems (normNode d) = subElems (clearNode d) := by
  have ht : (normNode d).f.type = d.f.type := rfl
  have ht2 : (clearNode d).f.type = d.f.type := rfl
  unfold subElems
  rw [ht, ht2]
  have hi : (normNode d).infos.map infoElem = (clearNode d).infos.map infoElem := by
    simp [normNode, clearNode, List.map_map, Function.comp_def, infoElem_sanPair]
  have hu : ((normNode d).uds.filter udExportable).map udElem = ((clearNode d).uds.filter udExportable).map udElem := by
    simp [normNode, clearNode, List.filter_filter]
  rw [hi, hu]
  by_cases h : d.f.type = tNUMA <;> simp [h, normNode, clearNode]

mutual
theorem exportTree_normTree : ∀ (root : Bool) (t : Tree), exportTree root (normTree t) = exportTree root (clearTree t)
  | root, .mk d mem nor io misc => by
    rw [normTree_mk, clearTree, exportTree_mk, exportTree_mk, subElems_normNode,
      exportList_normList mem, exportList_normList nor, exportList_normList io, exportList_normList misc]
    have : exportAttrs root (normNode d).f = exportAttrs root (clearNode d).f := exportAttrs_normalise root d.f
    rw [this]
theorem exportList_normList : ∀ ts : List Tree, exportList (normList ts) = exportList (clearList ts)
  | [] => by rw [normList, clearList]
  | t :: ts => by rw [normList, clearList, exportList_cons, exportList_cons, exportTree_normTree false t, exportList_normList ts]
end

/-- when nothing is there to clear, the second export IS the first one -/
theorem clearDerived_id (f : ObjFields) (hG : f.type ≠ tGROUP) (hB : f.type ≠ tBRIDGE) : clearDerived f = f := by
  simp [clearDerived, normalise, hG, hB]

end Hw.XmlTree
