/- Hw.Io.TypeStr — model of the object-type string code of hwloc (C11):
   hwloc/traversal.c  hwloc_obj_type_string, hwloc__type_match, hwloc__osdev_type_sscanf,
   hwloc__osdev_types_sscanf, hwloc_type_sscanf, hwloc__osdev_type_snprintf_short/_normal,
   hwloc_obj_type_snprintf, hwloc_obj_attr_snprintf (+ private.h hwloc_memory_size_snprintf),
   hwloc/topology.c hwloc_compare_types, misc.h kind predicates.

   All tables / the match chain come from the GENERATED `Hw.Gen.TypeTables`; this file interprets them.
   Strings are byte lists (`List Nat`, every element < 256, no 0 inside); a C pointer into a string is the
   suffix it points to.  Pointer arithmetic that is not guarded by a NUL test in the C code goes through
   `ptrAdd`, which reports `oobS` when it would step beyond the terminating NUL; the pattern pointer of
   `hwloc__type_match` is a `TPos`, which reports `oobT` when it is dereferenced beyond the pattern's NUL.

   The cursor machine `emit` (snprintf into a caller buffer through the (tmp,tmplen,ret) triple) is a private
   copy (`Hw.TypeStr.emit`); a shared `Hw/Base/Snprintf.lean` is being written for C04 at the same time. -/
import Hw.Gen.TypeTables
namespace Hw.TypeStr
open Hw.Gen.TypeTables

abbrev Bytes := List Nat

/-! ## results with out-of-bounds tracking -/

inductive R (α : Type) where
  | ok (a : α)
  | oobS            -- a read beyond the NUL of the input string
  | oobT            -- a read beyond the NUL of a pattern literal
  deriving Repr, DecidableEq

@[inline] def R.bind {α β : Type} : R α → (α → R β) → R β
  | .ok a, f => f a
  | .oobS, _ => .oobS
  | .oobT, _ => .oobT

instance : Monad R where
  pure := R.ok
  bind := R.bind

/-! ## bytes -/

def U32 : Nat := 4294967296
def u32m1 : Nat := 4294967295          -- (unsigned)-1
def longMax : Nat := 9223372036854775807

/-- value of a `char` promoted to `int` -/
def sval (c : Nat) : Int := if charSigned && decide (128 ≤ c) then (c : Int) - 256 else (c : Int)

def isAlphaDash (c : Nat) : Bool := (decide (97 ≤ c) && decide (c ≤ 122)) || (decide (65 ≤ c) && decide (c ≤ 90)) || c == 45
def isDigit (c : Nat) : Bool := decide (48 ≤ c) && decide (c ≤ 57)
def lower (c : Nat) : Nat := if 65 ≤ c ∧ c ≤ 90 then c + 32 else c

/-- `*p` for a pointer (suffix) into a NUL-terminated string -/
def hd (s : Bytes) : Nat := s.headD 0

/-- `p + k` where the C code does not test for NUL itself -/
def ptrAdd (s : Bytes) (k : Nat) : R Bytes := if k ≤ s.length then .ok (s.drop k) else .oobS

/-! ## decimal / hexadecimal rendering (printf %u %llu %d %x) -/

def decF : Nat → Nat → Bytes
  | 0, n => [48 + n % 10]
  | f + 1, n => if n < 10 then [48 + n] else decF f (n / 10) ++ [48 + n % 10]

/-- `%u` / `%llu` -/
def dec (n : Nat) : Bytes := decF n n

/-- `%d` -/
def decInt (i : Int) : Bytes := if i < 0 then 45 :: dec i.natAbs else dec i.toNat

def hexDigit (d : Nat) : Nat := if d < 10 then 48 + d else 87 + d

def hexF : Nat → Nat → Bytes
  | 0, n => [hexDigit (n % 16)]
  | f + 1, n => if n < 16 then [hexDigit n] else hexF f (n / 16) ++ [hexDigit (n % 16)]

/-- `%0<w>x` -/
def hexPad (w n : Nat) : Bytes :=
  let h := hexF n n
  List.replicate (w - h.length) 48 ++ h

/-- `strtol(p, &end, 10)` at a position holding digits only: accumulated value and `end` -/
def scanDigits : Bytes → Nat → Nat × Bytes
  | [], acc => (acc, [])
  | c :: r, acc => if isDigit c then scanDigits r (acc * 10 + (c - 48)) else (acc, c :: r)

/-- `(unsigned) strtol(...)`: saturation at LONG_MAX, then truncation to 32 bits -/
def strtolU32 (v : Nat) : Nat := (min v longMax) % U32

/-! ## hwloc__type_match -/

/-- the pattern pointer `t` -/
inductive TPos where
  | at (rest : Bytes)     -- points into the literal (or at its NUL when `rest = []`)
  | past                  -- points beyond the NUL
  deriving Repr, DecidableEq

def TPos.next : TPos → TPos
  | .at [] => .past
  | .at (_ :: r) => .at r
  | .past => .past

def TPos.read : TPos → Option Nat
  | .at [] => some 0
  | .at (c :: _) => some c
  | .past => none

inductive MRes where
  | fail                  -- NULL
  | stop (rest : Bytes)   -- pointer where matching stopped
  | oobT
  deriving Repr, DecidableEq

def typeMatchGo : Bytes → TPos → Nat → Nat → MRes
  | [], _, i, min => if i < min then .fail else .stop []
  | c :: s', t, i, min =>
    match t.read with
    | none => .oobT
    | some tc =>
      -- `if (!*t || (*s != *t && *s != *t + 'A' - 'a'))`  (the `!*t` test is fix 2710d74: before it, the byte
      -- 0xE0 = '\0' + 'A' - 'a' as a signed char "matched" the pattern's NUL and `t` ran past the literal)
      if tc = 0 ∨ (c ≠ tc ∧ sval c ≠ sval tc + 65 - 97) then
        if isAlphaDash c then .fail
        else if i < min then .fail else .stop (c :: s')
      else typeMatchGo s' t.next (i + 1) min

def typeMatch (s pat : Bytes) (min : Nat) : MRes := typeMatchGo s (.at pat) 0 min

/-- `a || b || ...` over type_match alternatives (short-circuit, in order) -/
def anyMatch : List (Bytes × Nat) → Bytes → R Bool
  | [], _ => .ok false
  | (p, m) :: r, s =>
    match typeMatch s p m with
    | .oobT => .oobT
    | .stop _ => .ok true
    | .fail => anyMatch r s

/-- first alternative that matches, with its end pointer -/
def firstMatch : List (Bytes × Nat) → Bytes → R (Option Bytes)
  | [], _ => .ok none
  | (p, m) :: r, s =>
    match typeMatch s p m with
    | .oobT => .oobT
    | .stop e => .ok (some e)
    | .fail => firstMatch r s

/-- `hwloc_strncasecmp(s, pat, n) == 0` (C locale) -/
def ciPrefix : Bytes → Bytes → Nat → Bool
  | _, _, 0 => true
  | s, pat, n + 1 =>
    if lower (hd s) ≠ lower (hd pat) then false
    else if hd s = 0 then true
    else ciPrefix s.tail pat.tail n

/-! ## OS-device type names -/

def osdevTypeSscanfIn : List (List (Bytes × Nat) × Nat) → Bytes → R (Option Nat)
  | [], _ => .ok none
  | (alts, bit) :: r, s =>
    match anyMatch alts s with
    | .ok true => .ok (some bit)
    | .ok false => osdevTypeSscanfIn r s
    | .oobS => .oobS
    | .oobT => .oobT

/-- hwloc__osdev_type_sscanf -/
def osdevTypeSscanf (s : Bytes) : R (Option Nat) := osdevTypeSscanfIn osdevSscanfChain s

/-- the pointers `next+1` for every ',' of the string, in order -/
def commaSuffixes : Bytes → List Bytes
  | [] => []
  | c :: r => if c = 44 then r :: commaSuffixes r else commaSuffixes r

def osdevTypesFold : List Bytes → Nat → R Nat
  | [], acc => .ok acc
  | s :: r, acc =>
    match osdevTypeSscanf s with
    | .ok (some b) => osdevTypesFold r (acc ||| b)
    | .ok none => osdevTypesFold r acc
    | .oobS => .oobS
    | .oobT => .oobT

/-- hwloc__osdev_types_sscanf (its return value is ignored by the only caller) -/
def osdevTypesSscanf (s : Bytes) : R Nat := osdevTypesFold (s :: commaSuffixes s) 0

/-! ## hwloc_type_sscanf -/

structure Parsed where
  type : Nat
  depth : Nat := u32m1
  ctype : Nat := u32m1
  ub : Nat := u32m1
  ostype : Nat := 0
  deriving Repr, DecidableEq

inductive StepRes where
  | next                  -- condition false: go to the next else-if
  | done (p : Parsed)
  | err                   -- return -1
  deriving Repr, DecidableEq

def inRange (lo hi d : Nat) : Bool := decide (lo ≤ d) && decide (d ≤ hi)

def evalStep (s : Bytes) : Step → R StepRes
  | .bracket pat n skip ty =>
    if ciPrefix s pat n then do
      let p ← ptrAdd s skip
      let w ← osdevTypesSscanf p
      pure (.done { type := ty, ostype := w })
    else pure .next
  | .osdevBare ty => do
    match ← osdevTypeSscanf s with
    | some b => pure (.done { type := ty, ostype := b })
    | none => pure .next
  | .plain alts ty ub => do
    if ← anyMatch alts s then
      pure (.done { type := ty, ub := match ub with | some u => u | none => u32m1 })
    else pure .next
  | .cache iLo iHi iBase iType dLo dHi dBase dType uType nType sufPat sufMin =>
    match s with
    | c0 :: c1 :: _ =>
      if (c0 = 108 ∨ c0 = 76) ∧ isDigit c1 then
        let (v, e) := scanDigits s.tail 0
        let d := strtolU32 v
        let ec := hd e
        let pick : Option (Nat × Nat × R Bytes) :=
          if ec = 105 ∨ ec = 73 then
            if inRange iLo iHi d then some (iBase + d - iLo, iType, ptrAdd e 1) else none
          else if inRange dLo dHi d then
            if ec = 100 ∨ ec = 68 then some (dBase + d - dLo, dType, ptrAdd e 1)
            else if ec = 117 ∨ ec = 85 then some (dBase + d - dLo, uType, ptrAdd e 1)
            else some (dBase + d - dLo, nType, .ok e)
          else none
        match pick with
        | none => pure .err
        | some (ty, ct, suf) => do
          let sf ← suf
          match typeMatch sf sufPat sufMin with
          | .oobT => .oobT
          | .fail => pure .err
          | .stop _ => pure (.done { type := ty, depth := d, ctype := ct })
      else pure .next
    | _ => pure .next
  | .group pat min ty =>
    match typeMatch s pat min with
    | .oobT => .oobT
    | .fail => pure .next
    | .stop e =>
      if isDigit (hd e) then pure (.done { type := ty, depth := strtolU32 (scanDigits e 0).1 })
      else pure (.done { type := ty })

def runChain (s : Bytes) : List Step → R (Option Parsed)
  | [] => .ok none
  | st :: r =>
    match evalStep s st with
    | .ok .next => runChain s r
    | .ok (.done p) => .ok (some p)
    | .ok .err => .ok none
    | .oobS => .oobS
    | .oobT => .oobT

/-- hwloc_type_sscanf up to (not including) the write-back; `ok none` is `return -1` -/
def typeSscanf (s : Bytes) : R (Option Parsed) := runChain s sscanfChain

def inKind (r : Option Nat × Nat) (t : Nat) : Bool :=
  (match r.1 with | some lo => decide (lo ≤ t) | none => true) && decide (t ≤ r.2)

def isNormal (t : Nat) : Bool := inKind range_normal t
def isMemory (t : Nat) : Bool := inKind range_memory t
def isSpecial (t : Nat) : Bool := inKind range_special t
def isIO (t : Nat) : Bool := inKind range_io t
def isCache (t : Nat) : Bool := inKind range_cache t
def isDCache (t : Nat) : Bool := inKind range_dcache t
def isICache (t : Nat) : Bool := inKind range_icache t
/-- Misc = special but not I/O -/
def isMisc (t : Nat) : Bool := isSpecial t && !isIO t

/-- what the write-back block stores through `attrp` -/
inductive Written where
  | nothing
  | cache (depth ctype : Nat)
  | group (depth : Nat)
  | bridge (up down : Nat)
  | osdev (types : Nat)
  deriving Repr, DecidableEq

/-- the attribute write-back of hwloc_type_sscanf; `attr = none` is `attrp == NULL` -/
def writeBack (p : Parsed) (attr : Option Nat) : Written :=
  match attr with
  | none => .nothing
  | some sz =>
    if isCache p.type && decide (sizeofCache ≤ sz) then .cache p.depth p.ctype
    else if p.type = wbGroup ∧ sizeofGroup ≤ sz then .group p.depth
    else if p.type = wbBridge ∧ sizeofBridge ≤ sz then .bridge p.ub wbDownstream
    else if p.type = wbOsdev ∧ sizeofOsdev ≤ sz then .osdev p.ostype
    else .nothing

/-! ## hwloc_obj_type_string / hwloc_compare_types -/

def lookup (tbl : List (Nat × Bytes)) (t : Nat) : Option Bytes :=
  match tbl with
  | [] => none
  | (k, v) :: r => if k = t then some v else lookup r t

def typeString (t : Nat) : Bytes := (lookup typeStringTable t).getD typeStringDefault

/-- hwloc_compare_types; `none` = HWLOC_TYPE_UNORDERED -/
def compareTypes (t1 t2 : Nat) : Option Int :=
  if !isNormal t1 && isNormal t2 && t2 != T_MACHINE then none
  else if !isNormal t2 && isNormal t1 && t1 != T_MACHINE then none
  else some ((objTypeOrder.getD t1 0 : Int) - (objTypeOrder.getD t2 0 : Int))

/-! ## objects -/

structure Obj where
  type : Nat
  depth : Nat := 0          -- cache.depth / group.depth (unsigned)
  ctype : Nat := 0          -- cache.type
  csize : Nat := 0          -- cache.size
  linesize : Nat := 0
  assoc : Int := 0
  total : Nat := 0          -- total_memory
  localMem : Nat := 0       -- numanode.local_memory
  upstream : Nat := 0       -- bridge.upstream_type
  pdomain : Nat := 0
  pbus : Nat := 0
  pdev : Nat := 0
  pfunc : Nat := 0
  vendor : Nat := 0
  device : Nat := 0
  classId : Nat := 0
  link : Option Bytes := none   -- `%.2f` rendering of a non-zero linkspeed (opaque token)
  className : Bytes := []       -- hwloc_pci_class_string(class_id) (opaque token)
  ddomain : Nat := 0
  secBus : Nat := 0
  subBus : Nat := 0
  ostypes : Nat := 0
  infos : List (Bytes × Bytes) := []
  deriving Repr, DecidableEq

def isLong (flags : Nat) : Bool := flags &&& (FLAG_OLD_VERBOSE ||| FLAG_LONG_NAMES) != 0
def isShort (flags : Nat) : Bool := flags &&& FLAG_SHORT_NAMES != 0
def isVerbose (flags : Nat) : Bool := flags &&& (FLAG_OLD_VERBOSE ||| FLAG_MORE_ATTRS) != 0

def sOSDev : Bytes := [79, 83, 68, 101, 118]
def sOS : Bytes := [79, 83]
def sCache : Bytes := [67, 97, 99, 104, 101]
def sUnknownLetter : Bytes := [117, 110, 107, 110, 111, 119, 110]
def sPCIBridge : Bytes := [80, 67, 73, 66, 114, 105, 100, 103, 101]
def sHostBridge : Bytes := [72, 111, 115, 116, 66, 114, 105, 100, 103, 101]
def sPCI : Bytes := [80, 67, 73]

def cacheLetter (ct : Nat) : Bytes :=
  if ct = CACHE_UNIFIED then [] else if ct = CACHE_DATA then [100] else if ct = CACHE_INSTRUCTION then [105]
  else sUnknownLetter

/-- hwloc__osdev_type_snprintf_short: one chunk -/
def osdevShort : List (Nat × Bytes × Bytes) → Nat → Bool → Bytes
  | [], _, long => if long then sOSDev else sOS
  | (bit, sn, ln) :: r, w, long => if w &&& bit ≠ 0 then (if long then ln else sn) else osdevShort r w long

/-- one `for` pass of hwloc__osdev_type_snprintf_normal over names[]: (ostype, prefix-is-comma, chunks) -/
def osdevPass : List (Nat × Bytes × Bytes) → Bool → Nat × Bool × List Bytes → Nat × Bool × List Bytes
  | [], _, st => st
  | (bit, sn, ln) :: r, long, (w, comma, acc) =>
    if w &&& bit ≠ 0 then
      osdevPass r long (w ^^^ (w &&& bit), true, acc ++ [(if comma then 44 else 91) :: (if long then ln else sn)])
    else osdevPass r long (w, comma, acc)

/-- hwloc__osdev_type_snprintf_normal as the list of chunks passed to hwloc_snprintf: `if (ostype)` + ONE pass over
    names[]; bits that are in no names[] entry are ignored (fix 56af888).  On the pinned tree this was
    `while (ostype)`, which never terminated for a word with a bit >= 7 (F06).  The result stays an `Option`
    (`none` = does not terminate) so that termination remains a stated theorem; it is always `some`. -/
def osdevNormal (w : Nat) (long : Bool) : Option (List Bytes) :=
  let st := osdevPass osdevNames long (w, false, [])
  some ([if long then sOSDev else sOS] ++ st.2.2 ++ (if st.2.1 then [[93]] else []))

/-- hwloc_obj_type_snprintf as a chunk list, over the fields it reads (type, cache/group depth, cache type,
    bridge upstream type, OS-device type word); `none` = does not terminate -/
def typeChunksK (t d ct up w : Nat) (long short : Bool) : Option (List Bytes) :=
  if t = T_MISC ∨ t = T_MACHINE ∨ t = T_NUMANODE ∨ t = T_MEMCACHE ∨ t = T_PACKAGE ∨ t = T_DIE ∨ t = T_CORE ∨ t = T_PU then
    some [typeString t]
  else if t = T_L1CACHE ∨ t = T_L2CACHE ∨ t = T_L3CACHE ∨ t = T_L4CACHE ∨ t = T_L5CACHE
       ∨ t = T_L1ICACHE ∨ t = T_L2ICACHE ∨ t = T_L3ICACHE then
    some [[76] ++ dec d ++ cacheLetter ct ++ (if long then sCache else [])]
  else if t = T_GROUP then
    if d ≠ u32m1 then some [typeString t ++ dec d] else some [typeString t]
  else if t = T_BRIDGE then
    some [if up = BRIDGE_PCI then sPCIBridge else sHostBridge]
  else if t = T_PCI_DEVICE then some [sPCI]
  else if t = T_OS_DEVICE then
    if short then some [osdevShort osdevNames w long] else osdevNormal w long
  else some [[]]      -- default: `*string = '\0'`, return 0

def typeChunks (o : Obj) (long short : Bool) : Option (List Bytes) :=
  typeChunksK o.type o.depth o.ctype o.upstream o.ostypes long short

/-- the text hwloc_obj_type_snprintf produces in a large enough buffer -/
def typeText (o : Obj) (flags : Nat) : Option Bytes :=
  (typeChunks o (isLong flags) (isShort flags)).map List.flatten

/-! ## the cursor machine -/

/-- caller buffer of `size` cells; `none` = never written.  `oob` records a write at an index ≥ size. -/
structure Cur where
  size : Nat
  buf : Nat → Option Nat
  pos : Nat          -- tmp - string
  len : Nat          -- tmplen
  ret : Nat
  oob : Bool

inductive Chunk where
  | cur (b : Bytes)     -- hwloc_snprintf(tmp, tmplen, ...)
  | start (b : Bytes)   -- hwloc_snprintf(string, size, ...)   (the Bridge/PCI branch of attr_snprintf)

def Chunk.bytes : Chunk → Bytes
  | .cur b => b
  | .start b => b

/-- C `snprintf(buf + p, n, "%s", chunk)` -/
def snprintfAt (size : Nat) (buf : Nat → Option Nat) (p n : Nat) (chunk : Bytes) : (Nat → Option Nat) × Bool :=
  if n = 0 then (buf, false)
  else
    let k := min chunk.length (n - 1)
    (fun i => if p ≤ i ∧ i < p + k then some (chunk.getD (i - p) 0) else if i = p + k then some 0 else buf i,
     decide (size ≤ p + k))

/-- `if (res >= tmplen) res = tmplen>0 ? tmplen-1 : 0;` -/
def advOf (len res : Nat) : Nat := if len ≤ res then (if 0 < len then len - 1 else 0) else res

def emit1 (c : Cur) (ch : Chunk) : Cur :=
  let r := match ch with
    | .cur b => snprintfAt c.size c.buf c.pos c.len b
    | .start b => snprintfAt c.size c.buf 0 c.size b
  let adv := advOf c.len ch.bytes.length
  { c with buf := r.1, pos := c.pos + adv, len := c.len - adv, ret := c.ret + ch.bytes.length, oob := c.oob || r.2 }

def Cur.init (size : Nat) : Cur := { size := size, buf := fun _ => none, pos := 0, len := size, ret := 0, oob := false }

def emit (size : Nat) (chunks : List Chunk) : Cur := chunks.foldl emit1 (Cur.init size)

/-- hwloc_obj_type_snprintf(string, size, obj, flags) -/
def typeSnprintf (o : Obj) (flags size : Nat) : Option Cur :=
  (typeChunks o (isLong flags) (isShort flags)).map (fun cs => emit size (cs.map Chunk.cur))

/-! ## hwloc_obj_attr_snprintf -/

def sKB : Bytes := [75, 66]
def unit (c : Nat) (bin : Bool) : Bytes := if bin then [c, 105, 66] else [c, 66]

/-- hwloc_memory_size_snprintf (never truncated: at most 23 bytes in a 25-byte buffer) -/
def memSize (size flags : Nat) : Bytes :=
  if flags &&& FLAG_NO_UNITS ≠ 0 then dec size
  else if flags &&& FLAG_OLD_VERBOSE ≠ 0 then dec (((size >>> 9) + 1) >>> 1) ++ sKB
  else if flags &&& FLAG_UNITS_1000 ≠ 0 then
    if size < 10000000 then dec ((size / 500 + 1) / 2) ++ unit 75 false
    else if size < 10000000000 then dec ((size / 500000 + 1) / 2) ++ unit 77 false
    else if size < 10000000000000 then dec ((size / 500000000 + 1) / 2) ++ unit 71 false
    else dec ((size / 500000000000 + 1) / 2) ++ unit 84 false
  else
    if size < 10 <<< 20 then dec (((size >>> 9) + 1) >>> 1) ++ unit 75 true
    else if size < 10 <<< 30 then dec (((size >>> 19) + 1) >>> 1) ++ unit 77 true
    else if size < 10 <<< 40 then dec (((size >>> 29) + 1) >>> 1) ++ unit 71 true
    else dec (((size >>> 39) + 1) >>> 1) ++ unit 84 true

/-- snprintf into a local array of `cap` bytes -/
def trunc (cap : Nat) (b : Bytes) : Bytes := b.take (cap - 1)

def str (s : String) : Bytes := s.toList.map Char.toNat

def pciText (o : Obj) (sep : Bytes) : Bytes :=
  let linkspeed : Bytes := match o.link with
    | none => []
    | some tok => trunc 64 (sep ++ str "link=" ++ tok ++ str "GB/s")
  str "busid=" ++ hexPad 4 o.pdomain ++ [58] ++ hexPad 2 o.pbus ++ [58] ++ hexPad 2 o.pdev ++ [46] ++ hexPad 1 o.pfunc
    ++ sep ++ str "id=" ++ hexPad 4 o.vendor ++ [58] ++ hexPad 4 o.device
    ++ sep ++ str "class=" ++ hexPad 4 o.classId ++ [40] ++ o.className ++ [41] ++ linkspeed

/-- memory attributes (the prefix is still "") : at most one call -/
def attrC1 (o : Obj) (sep : Bytes) (flags : Nat) : List Bytes :=
  let isNuma := o.type = T_NUMANODE ∧ o.localMem ≠ 0
  let totalS := memSize o.total flags
  let localS := memSize o.localMem flags
  if isVerbose flags then
    if isNuma then [str "local=" ++ localS ++ sep ++ str "total=" ++ totalS]
    else if o.total ≠ 0 then [str "total=" ++ totalS] else []
  else if isNuma then [localS] else []

def cacheAttrText (o : Obj) (sep : Bytes) (flags : Nat) (pre : Bytes) : Bytes :=
  let cs := memSize o.csize flags
  if isVerbose flags then
    let assoc : Bytes :=
      if o.assoc = -1 then trunc 32 (sep ++ str "fully-associative")
      else if o.assoc = 0 then []
      else trunc 32 (sep ++ str "ways=" ++ decInt o.assoc)
    pre ++ str "size=" ++ cs ++ sep ++ str "linesize=" ++ dec o.linesize ++ assoc
  else pre ++ cs

def bridgeAttrText (o : Obj) (sep : Bytes) : Bytes :=
  let up : Bytes := if o.upstream = BRIDGE_PCI then trunc 128 (pciText o sep) else []
  let down : Bytes := trunc 64 (str "buses=" ++ hexPad 4 o.ddomain ++ [58, 91] ++ hexPad 2 o.secBus ++ [45] ++ hexPad 2 o.subBus ++ [93])
  if up ≠ [] then up ++ sep ++ down else down

/-- type-specific attributes: at most one call; Bridge and PCI print at (string, size) -/
def attrC2 (o : Obj) (sep : Bytes) (flags : Nat) (pre : Bytes) : List Chunk :=
  if isCache o.type ∨ o.type = T_MEMCACHE then [.cur (cacheAttrText o sep flags pre)]
  else if o.type = T_BRIDGE then
    if isVerbose flags then [.start (bridgeAttrText o sep)] else []
  else if o.type = T_PCI_DEVICE then
    if isVerbose flags then [.start (pciText o sep)] else []
  else []

/-- info pairs (verbose only): one call each -/
def attrC3 (o : Obj) (sep : Bytes) (flags : Nat) (pre : Bytes) : List Bytes :=
  if isVerbose flags then
    match o.infos with
    | [] => []
    | (n, v) :: rest =>
      let one (pre : Bytes) (n v : Bytes) : Bytes :=
        let q : Bytes := if v.contains 32 then [34] else []
        pre ++ n ++ [61] ++ q ++ v ++ q
      one pre n v :: rest.map (fun nv => one sep nv.1 nv.2)
  else []

def lens (l : List Bytes) : Nat := (l.map List.length).sum

/-- the chunks of hwloc_obj_attr_snprintf in call order (calls that are skipped contribute nothing);
    the leading empty chunk is `if (size) *string = '\0'`; `prefix` becomes the separator once `ret > 0` -/
def attrChunks (o : Obj) (sep : Bytes) (flags : Nat) : List Chunk :=
  let c1 := attrC1 o sep flags
  let c2 := attrC2 o sep flags (if lens c1 > 0 then sep else [])
  let c3 := attrC3 o sep flags (if lens c1 + lens (c2.map Chunk.bytes) > 0 then sep else [])
  [Chunk.cur []] ++ c1.map Chunk.cur ++ c2 ++ c3.map Chunk.cur

/-- hwloc_obj_attr_snprintf(string, size, obj, separator, flags) -/
def attrSnprintf (o : Obj) (sep : Bytes) (flags size : Nat) : Cur := emit size (attrChunks o sep flags)

/-! ## the round-trip oracle of the property -/

/-- do the attributes parsed back equal those of the object?  (what C11 demands of a round trip) -/
def attrsAgree (o : Obj) (p : Parsed) : Bool :=
  p.type == o.type &&
  (if isCache o.type then p.depth == o.depth && p.ctype == o.ctype
   else if o.type = T_GROUP then p.depth == o.depth
   else if o.type = T_BRIDGE then p.ub == o.upstream
   else if o.type = T_OS_DEVICE then p.ostype == o.ostypes
   else true)


/-- what a caller passing a full-size attribute union must find after parsing the text of `o` -/
def expectedWritten (t d ct up w : Nat) : Written :=
  if isCache t then .cache d ct
  else if t = T_GROUP then .group d
  else if t = T_BRIDGE then .bridge up BRIDGE_PCI
  else if t = T_OS_DEVICE then .osdev w
  else .nothing

/-- round trip of one key without SHORT_NAMES: the printed text is accepted, gives the same type and,
    through a full-size attribute union, the same attributes -/
def rtCheckK (t d ct up w : Nat) (long : Bool) : Bool :=
  match typeChunksK t d ct up w long false with
  | none => false
  | some cs =>
    match typeSscanf cs.flatten with
    | .ok (some p) => p.type == t && writeBack p (some sizeofAttr) == expectedWritten t d ct up w
    | _ => false

end Hw.TypeStr
