/-
  Hw.Io.SyntheticMemOr — the memory aggregates (`memOr` / `memDisj`) of a normal object of `toDump t`, and the list of its
  normal children.
-/
import Hw.Io.SyntheticWF5
import Hw.Topo.AuxBelow
namespace Hw.Syn
open Hw Hw.Topo
set_option linter.unusedSectionVars false
set_option linter.unusedSimpArgs false

/-- nodesets of the memory children of (d, k), slot by slot -/
def singles (t : Topo) (d k : Nat) : List Nat :=
  (List.range (memLen (mkTab t) d)).map (fun s => 1 <<< (t.numaIdx[postPos (mkTab t) (numaCnt (mkTab t)) d k s]?.getD 0))

/-- normal objects leave the memory aggregates unchanged -/
theorem fold_normal_mem : ∀ (l : List Obj) (c : Cell), (∀ o ∈ l, isNormal o.type = true) →
    (l.foldl cellStep c).memOr = c.memOr ∧ (l.foldl cellStep c).memDisj = c.memDisj := by
  intro l
  induction l with
  | nil => intro c _; exact ⟨rfl, rfl⟩
  | cons o l ih =>
    intro c hl
    rw [List.foldl_cons]
    obtain ⟨h1, h2⟩ := ih (cellStep c o) (fun x hx => hl x (List.mem_cons_of_mem _ hx))
    rw [h1, h2]
    have hN : isNormal o.type = true := hl o List.mem_cons_self
    unfold cellStep
    simp [hN]

/-- memory objects accumulate their nodesets -/
theorem fold_memory_mem : ∀ (l : List Obj) (c : Cell), (∀ o ∈ l, isNormal o.type = false ∧ isMemory o.type = true) →
    (l.foldl cellStep c).memOr = (l.map (fun o => o.nodeset.getD 0)).foldl (· ||| ·) c.memOr ∧
    (l.foldl cellStep c).memDisj = (c.memDisj && seqDisj c.memOr (l.map (fun o => o.nodeset.getD 0))) := by
  intro l
  induction l with
  | nil => intro c _; simp [seqDisj]
  | cons o l ih =>
    intro c hl
    rw [List.foldl_cons]
    obtain ⟨h1, h2⟩ := ih (cellStep c o) (fun x hx => hl x (List.mem_cons_of_mem _ hx))
    rw [h1, h2]
    obtain ⟨hN, hM⟩ := hl o List.mem_cons_self
    have e1 : (cellStep c o).memOr = c.memOr ||| o.nodeset.getD 0 := by unfold cellStep; simp [hN, hM]
    have e2 : (cellStep c o).memDisj = (c.memDisj && disjoint c.memOr (o.nodeset.getD 0)) := by unfold cellStep; simp [hN, hM]
    rw [e1, e2]
    simp only [List.map_cons, List.foldl_cons, seqDisj, Bool.and_assoc]
    exact ⟨trivial, trivial⟩

theorem firstObj_nodeset (E : DEnv) (d k s : Nat) :
    (firstObj E d k s).nodeset = some (1 <<< (E.t.numaIdx[postPos E.T (numaCnt E.T) d k s]?.getD 0)) := by
  unfold firstObj; split <;> rfl

section
variable (t : Topo) (h : OK t)
include h

theorem kids_normal_part (d k : Nat) (hd : d ≤ (mkTab t).D) :
    ∀ x ∈ (List.range (arOf (envOf t).T d)).map (fun r => normalObj (envOf t) (d + 1) (k * arOf (envOf t).T d + r)),
      isNormal x.type = true := by
  intro x hx
  obtain ⟨r, hr, rfl⟩ := List.mem_map.1 hx
  have hr1 : r < arOf (mkTab t) d := List.mem_range.1 hr
  rw [normalObj_type]
  exact ntype_normal t h (d + 1) (ar_pos_lt t d hd (by omega))

omit h in
theorem kids_memory_part (d k : Nat) :
    ∀ x ∈ (List.range (memLen (envOf t).T d)).map (fun s => firstObj (envOf t) d k s),
      isNormal x.type = false ∧ isMemory x.type = true := by
  intro x hx
  obtain ⟨s, _, rfl⟩ := List.mem_map.1 hx
  exact firstObj_type (envOf t) d k s

/-- the memory aggregates of a normal object: OR and disjointness flag of its memory children's nodesets, in slot order -/
theorem memOr_normal (d k : Nat) (hd : d ≤ (mkTab t).D) (hk : k < nOf (mkTab t) d) :
    getN (auxFold (toDump t)).memOr (nid (mkTab t) d k) = (singles t d k).foldl (· ||| ·) 0 ∧
    getB (auxFold (toDump t)).memDisj (nid (mkTab t) d k) = seqDisj 0 (singles t d k) := by
  have hc := cell_normal t h d k hd hk
  have e1 : getN (auxFold (toDump t)).memOr (nid (mkTab t) d k) = (cellOf (auxFold (toDump t)) (nid (mkTab t) d k)).memOr := rfl
  have e2 : getB (auxFold (toDump t)).memDisj (nid (mkTab t) d k) = (cellOf (auxFold (toDump t)) (nid (mkTab t) d k)).memDisj := rfl
  rw [e1, e2, hc]
  unfold kidsOf
  rw [List.foldl_append]
  obtain ⟨a1, a2⟩ := fold_normal_mem _ cell0 (kids_normal_part t h d k hd)
  obtain ⟨b1, b2⟩ := fold_memory_mem _
    (List.foldl cellStep cell0 ((List.range (arOf (envOf t).T d)).map (fun r => normalObj (envOf t) (d + 1) (k * arOf (envOf t).T d + r))))
    (kids_memory_part t d k)
  rw [b1, b2, a1, a2]
  have hs : ((List.range (memLen (envOf t).T d)).map (fun s => firstObj (envOf t) d k s)).map (fun o => o.nodeset.getD 0)
      = singles t d k := by
    rw [List.map_map]
    unfold singles
    apply List.map_congr_left
    intro s _
    show ((firstObj (envOf t) d k s).nodeset).getD 0 = _
    rw [firstObj_nodeset]
    rfl
  rw [hs]
  exact ⟨rfl, rfl⟩

/-- the normal children of a normal object, in list order -/
theorem normalKids_toDump (d k : Nat) (hd : d ≤ (mkTab t).D) (hk : k < nOf (mkTab t) d) :
    normalKids (toDump t) (nid (mkTab t) d k) =
      (List.range (arOf (mkTab t) d)).map (fun r => normalObj (envOf t) (d + 1) (k * arOf (mkTab t) d + r)) := by
  have e : normalKids (toDump t) (nid (mkTab t) d k) =
      ((toDump t).objs.filter (hasParent (nid (mkTab t) d k))).filter (fun c => isNormal c.type) := by
    unfold normalKids
    rw [List.filter_filter, parentIs_eq]
  rw [e, kids_filter t h d k hd hk]
  unfold kidsOf
  rw [List.filter_append]
  have f1 := List.filter_eq_self.2 (kids_normal_part t h d k hd)
  have f2 : ((List.range (memLen (envOf t).T d)).map (fun s => firstObj (envOf t) d k s)).filter (fun c => isNormal c.type) = [] := by
    rw [List.filter_eq_nil_iff]
    intro x hx
    rw [(kids_memory_part t d k x hx).1]; simp
  rw [f1, f2, List.append_nil]
  rfl

end
end Hw.Syn
