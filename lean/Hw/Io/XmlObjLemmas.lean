/-
  Hw.Io.XmlObjLemmas — the object-level round trip: importing the attribute list that the exporter writes for a valid object
  returns the object (`importAttrs_exportAttrs`), value by value (numbers, sets, type strings, the PCI / bridge sscanf formats),
  and the exported list satisfies the hypotheses of the attribute scanner theorem (names over [a-z_], NUL-free values).
-/
import Hw.Io.XmlObj
import Hw.Io.XmlLemmas
import Hw.Io.CalcLemmas
import Hw.Bitmap.RoundTripHwloc
import Hw.Props.C11
namespace Hw.XmlObj
open Hw Hw.Topo

theorem strtoulV_decDigits (n : Nat) (h : n < 2 ^ 64) : strtoulV (decDigits n) = some n := by
  unfold strtoulV
  have := Xml.strtoul10_decDigits n [] h noDigitHead_nil
  rw [List.append_nil] at this
  rw [this]

theorem mapM_id_map_some {α : Type} : ∀ l : List α, (l.map some).mapM id = some l
  | [] => rfl
  | a :: l => by simp [List.mapM_cons, mapM_id_map_some l]

theorem setScan_setText (m : Nat) : setScan (setText m) = .ok m := by
  unfold setScan setText
  rw [Bitmap.hwloc_scan_fin (Calc.ofMask m) (Calc.ofMask_inf m)]
  simp only [Bool.false_eq_true, if_false, mapM_id_map_some]
  congr 1
  apply Nat.eq_of_testBit_eq
  intro i
  rw [Calc.maskOf_testBit_fin rfl]
  have := Bitmap.TasksetRT.build_mem_eq (Calc.ofMask m) (max (Calc.ofMask m).topWords 1) (by omega) i
  rw [Calc.ofMask_inf] at this
  rw [this, Calc.mem_ofMask]

theorem typeScan_typeString (t : Nat) (h : t < 20) : typeScan (TypeStr.typeString t) = some t := by
  obtain ⟨p, hp, e⟩ := Hw.Props.C11.C11_type_string_roundtrip t h
  unfold typeScan
  rw [hp]
  simp [e]

theorem ndh (c : Nat) (s : Bytes) (h : digitVal c = none) : NoDigitHead (c :: s) := by
  intro x xs e; cases e; exact h

theorem scanHex_none (k n : Nat) (rest : Bytes) (h : NoDigitHead rest) : scanHex none (hexPad k n ++ rest) = some (n, rest) := by
  unfold scanHex
  simp only [takeDigits_hexPad k n rest h]
  have : (hexPad k n).length ≠ 0 := by
    have := hexPad_ne_nil k n
    intro e; exact this (List.eq_nil_of_length_eq_zero e)
  rw [if_neg this]
  simp

theorem scanHex_some (k n : Nat) (rest : Bytes) (hk : 1 ≤ k) (hn : n < 16 ^ k) : scanHex (some k) (hexPad k n ++ rest) = some (n, rest) := by
  unfold scanHex
  have hl := hexPad_length k n hk hn
  have hpre : (hexPad k n ++ rest).take k = hexPad k n := by
    rw [List.take_append_of_le_length (by omega), List.take_of_length_le (by omega)]
  simp only [hpre]
  have := takeDigits_hexPad k n [] noDigitHead_nil
  rw [List.append_nil] at this
  rw [this]
  simp only [hl]
  rw [if_neg (by omega)]
  congr 2
  exact List.drop_left' hl

theorem scanDec_decDigits (n : Nat) (rest : Bytes) (h : NoDigitHead rest) : scanDec (decDigits n ++ rest) = some (n, rest) := by
  unfold scanDec
  have htd : takeDigits 10 (decDigits n ++ rest) 0 0 = (n, 0 + (digs 10 n).length, rest) := by
    rw [decDigits_eq, takeDigits_digs 10 (by omega) (by omega), takeDigits_stop 10 rest h]
  have hlen := digs_length_pos 10 (by omega) n
  rw [htd]
  simp only
  rw [if_neg (by omega)]

theorem scanBusid_ok (d bu dv f : Nat) (hb : bu < 256) (hd : dv < 256) (hf : f < 16) :
    scanBusid (hexPad 4 d ++ [58] ++ hexPad 2 bu ++ [58] ++ hexPad 2 dv ++ [46] ++ hexPad 1 f) = some (d, bu, dv, f) := by
  have e : hexPad 4 d ++ [58] ++ hexPad 2 bu ++ [58] ++ hexPad 2 dv ++ [46] ++ hexPad 1 f =
      hexPad 4 d ++ (58 :: (hexPad 2 bu ++ (58 :: (hexPad 2 dv ++ (46 :: (hexPad 1 f ++ [])))))) := by simp
  rw [e]
  unfold scanBusid
  rw [scanHex_none 4 d _ (ndh 58 _ (by decide))]
  simp only [Option.bind_eq_bind, Option.bind_some, expect, if_true]
  rw [scanHex_some 2 bu _ (by omega) (by omega)]
  simp only [Option.bind_some, expect, if_true]
  rw [scanHex_some 2 dv _ (by omega) (by omega)]
  simp only [Option.bind_some, expect, if_true]
  rw [scanHex_some 1 f _ (by omega) (by omega)]
  rfl

set_option linter.unusedSimpArgs false

theorem skipWs_nonspace (c : Nat) (s : Bytes) (h : isSpace c = false) : skipWs (c :: s) = c :: s := by
  simp [skipWs, List.dropWhile, h]
theorem skipWs_space (s : Bytes) : skipWs (32 :: s) = skipWs s := by
  simp [skipWs, List.dropWhile, isSpace]

theorem hexPad_head_nonspace (k n : Nat) (rest : Bytes) : skipWs (hexPad k n ++ rest) = hexPad k n ++ rest := by
  cases h : hexPad k n with
  | nil => exact absurd h (hexPad_ne_nil k n)
  | cons c cs =>
    have hc : IsHexChar c := hexPad_chars k n c (by rw [h]; simp)
    exact skipWs_nonspace c _ (isSpace_hex c hc)

theorem scanPciType_ok (c v d sv sd r p : Nat) (hv : v < 65536) (hd : d < 65536) (hsv : sv < 65536) (hsd : sd < 65536)
    (hr : r < 256) (hp : p < 256) :
    scanPciType (hexPad 4 c ++ b " [" ++ hexPad 4 v ++ [58] ++ hexPad 4 d ++ b "] [" ++ hexPad 4 sv ++ [58] ++ hexPad 4 sd ++ b "] " ++
      hexPad 2 r ++ [32] ++ hexPad 2 p) = some (c, v, d, sv, sd, r, p) := by
  have e : hexPad 4 c ++ b " [" ++ hexPad 4 v ++ [58] ++ hexPad 4 d ++ b "] [" ++ hexPad 4 sv ++ [58] ++ hexPad 4 sd ++ b "] " ++
      hexPad 2 r ++ [32] ++ hexPad 2 p =
      hexPad 4 c ++ (32 :: 91 :: (hexPad 4 v ++ (58 :: (hexPad 4 d ++ (93 :: 32 :: 91 :: (hexPad 4 sv ++ (58 :: (hexPad 4 sd ++
        (93 :: 32 :: (hexPad 2 r ++ (32 :: (hexPad 2 p ++ [])))))))))))) := by
    have e1 : b " [" = [32, 91] := by decide
    have e2 : b "] [" = [93, 32, 91] := by decide
    have e3 : b "] " = [93, 32] := by decide
    rw [e1, e2, e3]; simp
  rw [e]
  unfold scanPciType
  rw [scanHex_none 4 c _ (ndh 32 _ (by decide))]
  simp only [Option.bind_eq_bind, Option.bind_some, skipWs_space, skipWs_nonspace 91 _ (by decide), expect, if_true]
  rw [scanHex_some 4 v _ (by omega) (by omega)]
  simp only [Option.bind_some, expect, if_true]
  rw [scanHex_some 4 d _ (by omega) (by omega)]
  simp only [Option.bind_some, skipWs_space, skipWs_nonspace 91 _ (by decide), expect, if_true]
  rw [scanHex_some 4 sv _ (by omega) (by omega)]
  simp only [Option.bind_some, expect, if_true]
  rw [scanHex_some 4 sd _ (by omega) (by omega)]
  simp only [Option.bind_some, skipWs_space, hexPad_head_nonspace, expect, if_true]
  rw [scanHex_some 2 r _ (by omega) (by omega)]
  simp only [Option.bind_some, skipWs_space, hexPad_head_nonspace]
  rw [scanHex_some 2 p _ (by omega) (by omega)]
  rfl

theorem scanBridgePci_ok (d s1 s2 : Nat) (h1 : s1 < 256) (h2 : s2 < 256) :
    scanBridgePci (hexPad 4 d ++ b ":[" ++ hexPad 2 s1 ++ [45] ++ hexPad 2 s2 ++ [93]) = some (d, s1, s2) := by
  have e : hexPad 4 d ++ b ":[" ++ hexPad 2 s1 ++ [45] ++ hexPad 2 s2 ++ [93] =
      hexPad 4 d ++ (58 :: 91 :: (hexPad 2 s1 ++ (45 :: (hexPad 2 s2 ++ [93])))) := by
    have e1 : b ":[" = [58, 91] := by decide
    rw [e1]; simp
  rw [e]
  unfold scanBridgePci
  rw [scanHex_none 4 d _ (ndh 58 _ (by decide))]
  simp only [Option.bind_eq_bind, Option.bind_some, expect, if_true]
  rw [scanHex_some 2 s1 _ (by omega) (by omega)]
  simp only [Option.bind_some, expect, if_true]
  rw [scanHex_some 2 s2 _ (by omega) (by omega)]
  rfl

theorem scanBridgeType_ok (u d : Nat) : scanBridgeType (decDigits u ++ [45] ++ decDigits d) = some (u, d) := by
  have e : decDigits u ++ [45] ++ decDigits d = decDigits u ++ (45 :: (decDigits d ++ [])) := by simp
  rw [e]
  unfold scanBridgeType
  rw [scanDec_decDigits u _ (ndh 45 _ (by decide))]
  simp only [Option.bind_eq_bind, Option.bind_some, expect, if_true]
  rw [scanDec_decDigits d _ noDigitHead_nil]
  rfl

/-! ### dispatch on concrete attribute names -/

@[simp] theorem ak_os_index : attrKind (b "os_index") = .osIndex := by decide
@[simp] theorem nt_os_index : (b "os_index" = b "type") = False := by simp; decide
@[simp] theorem ak_gp_index : attrKind (b "gp_index") = .gpIndex := by decide
@[simp] theorem nt_gp_index : (b "gp_index" = b "type") = False := by simp; decide
@[simp] theorem ak_id : attrKind (b "id") = .id := by decide
@[simp] theorem nt_id : (b "id" = b "type") = False := by simp; decide
@[simp] theorem ak_cpuset : attrKind (b "cpuset") = .cpuset := by decide
@[simp] theorem nt_cpuset : (b "cpuset" = b "type") = False := by simp; decide
@[simp] theorem ak_complete_cpuset : attrKind (b "complete_cpuset") = .ccpuset := by decide
@[simp] theorem nt_complete_cpuset : (b "complete_cpuset" = b "type") = False := by simp; decide
@[simp] theorem ak_allowed_cpuset : attrKind (b "allowed_cpuset") = .allowedCpuset := by decide
@[simp] theorem nt_allowed_cpuset : (b "allowed_cpuset" = b "type") = False := by simp; decide
@[simp] theorem ak_nodeset : attrKind (b "nodeset") = .nodeset := by decide
@[simp] theorem nt_nodeset : (b "nodeset" = b "type") = False := by simp; decide
@[simp] theorem ak_complete_nodeset : attrKind (b "complete_nodeset") = .cnodeset := by decide
@[simp] theorem nt_complete_nodeset : (b "complete_nodeset" = b "type") = False := by simp; decide
@[simp] theorem ak_allowed_nodeset : attrKind (b "allowed_nodeset") = .allowedNodeset := by decide
@[simp] theorem nt_allowed_nodeset : (b "allowed_nodeset" = b "type") = False := by simp; decide
@[simp] theorem ak_name : attrKind (b "name") = .name := by decide
@[simp] theorem nt_name : (b "name" = b "type") = False := by simp; decide
@[simp] theorem ak_subtype : attrKind (b "subtype") = .subtype := by decide
@[simp] theorem nt_subtype : (b "subtype" = b "type") = False := by simp; decide
@[simp] theorem ak_cache_size : attrKind (b "cache_size") = .cacheSize := by decide
@[simp] theorem nt_cache_size : (b "cache_size" = b "type") = False := by simp; decide
@[simp] theorem ak_cache_linesize : attrKind (b "cache_linesize") = .cacheLinesize := by decide
@[simp] theorem nt_cache_linesize : (b "cache_linesize" = b "type") = False := by simp; decide
@[simp] theorem ak_cache_associativity : attrKind (b "cache_associativity") = .cacheAssoc := by decide
@[simp] theorem nt_cache_associativity : (b "cache_associativity" = b "type") = False := by simp; decide
@[simp] theorem ak_cache_type : attrKind (b "cache_type") = .cacheType := by decide
@[simp] theorem nt_cache_type : (b "cache_type" = b "type") = False := by simp; decide
@[simp] theorem ak_local_memory : attrKind (b "local_memory") = .localMemory := by decide
@[simp] theorem nt_local_memory : (b "local_memory" = b "type") = False := by simp; decide
@[simp] theorem ak_depth : attrKind (b "depth") = .depth := by decide
@[simp] theorem nt_depth : (b "depth" = b "type") = False := by simp; decide
@[simp] theorem ak_kind : attrKind (b "kind") = .kind := by decide
@[simp] theorem nt_kind : (b "kind" = b "type") = False := by simp; decide
@[simp] theorem ak_subkind : attrKind (b "subkind") = .subkind := by decide
@[simp] theorem nt_subkind : (b "subkind" = b "type") = False := by simp; decide
@[simp] theorem ak_dont_merge : attrKind (b "dont_merge") = .dontMerge := by decide
@[simp] theorem nt_dont_merge : (b "dont_merge" = b "type") = False := by simp; decide
@[simp] theorem ak_pci_busid : attrKind (b "pci_busid") = .pciBusid := by decide
@[simp] theorem nt_pci_busid : (b "pci_busid" = b "type") = False := by simp; decide
@[simp] theorem ak_pci_type : attrKind (b "pci_type") = .pciType := by decide
@[simp] theorem nt_pci_type : (b "pci_type" = b "type") = False := by simp; decide
@[simp] theorem ak_pci_link_speed : attrKind (b "pci_link_speed") = .pciLinkSpeed := by decide
@[simp] theorem nt_pci_link_speed : (b "pci_link_speed" = b "type") = False := by simp; decide
@[simp] theorem ak_bridge_type : attrKind (b "bridge_type") = .bridgeType := by decide
@[simp] theorem nt_bridge_type : (b "bridge_type" = b "type") = False := by simp; decide
@[simp] theorem ak_bridge_pci : attrKind (b "bridge_pci") = .bridgePci := by decide
@[simp] theorem nt_bridge_pci : (b "bridge_pci" = b "type") = False := by simp; decide
@[simp] theorem ak_osdev_type : attrKind (b "osdev_type") = .osdevType := by decide
@[simp] theorem nt_osdev_type : (b "osdev_type" = b "type") = False := by simp; decide

/-! ### the attribute loop -/

theorem importLoop_bad (root : Bool) (st : ISt) (l : List (Bytes × Bytes)) (h : st.bad.isSome = true) : importLoop root st l = st := by
  cases l with
  | nil => rfl
  | cons a l => obtain ⟨n, v⟩ := a; simp [importLoop, h]

theorem importLoop_append (root : Bool) : ∀ (l1 : List (Bytes × Bytes)) (st : ISt) (l2 : List (Bytes × Bytes)),
    importLoop root st (l1 ++ l2) = importLoop root (importLoop root st l1) l2
  | [], st, l2 => rfl
  | (n, v) :: l1, st, l2 => by
    simp only [List.cons_append, importLoop]
    split
    · rename_i h; rw [importLoop_bad root st l2 h]
    · split
      · split
        · rw [importLoop_bad]; rfl
        · split
          · exact importLoop_append root l1 _ l2
          · rw [importLoop_bad]; rfl
      · exact importLoop_append root l1 _ l2

theorem importLoop_cons (root : Bool) (st : ISt) (n v : Bytes) (rest : List (Bytes × Bytes)) (h : st.bad = none)
    (hn : (n = b "type") = False) : importLoop root st ((n, v) :: rest) = importLoop root (importAttr root st n v) rest := by
  simp [importLoop, h, hn]

theorem importLoop_nil (root : Bool) (st : ISt) : importLoop root st [] = st := rfl

theorem withNum_dec (st : ISt) (n : Nat) (h : n < 2 ^ 64) (k : Nat → ISt) : withNum st (decDigits n) k = k n := by
  unfold withNum; rw [strtoulV_decDigits n h]
theorem withSet_text (st : ISt) (m : Nat) (k : Nat → ISt) : withSet st (setText m) k = k m := by
  unfold withSet; rw [setScan_setText]

/-- the `type` attribute -/
theorem seg_type (root : Bool) (st : ISt) (t : Nat) (ht : t < 20) (h : st.bad = none) (hg : st.gotType = false) :
    importLoop root st [(b "type", TypeStr.typeString t)] = { st with gotType := true, f := { st.f with type := t } } := by
  simp [importLoop, h, hg, typeScan_typeString t ht]

theorem seg_os (root : Bool) (st : ISt) (os : Option Nat) (h : st.bad = none) (h0 : st.f.osidx = none)
    (hv : ∀ i, os = some i → i < 2 ^ 32 - 1) :
    importLoop root st (osSeg os) = { st with f := { st.f with osidx := os } } := by
  cases os with
  | none =>
    simp only [osSeg, importLoop_nil]
    obtain ⟨f, _, _, _, _, _⟩ := st
    obtain ⟨_, _, _, _, _, _, _, _, _, _, _, _⟩ := f
    simp_all
  | some i =>
    have hi := hv i rfl
    simp only [osSeg]
    rw [importLoop_cons root st _ _ _ h nt_os_index, importLoop_nil]
    simp only [importAttr, ak_os_index]
    rw [withNum_dec st i (by omega)]
    have e1 : i % 2 ^ 32 = i := Nat.mod_eq_of_lt (by omega)
    simp only [e1]
    rw [if_neg (by omega)]

theorem seg_gp (root : Bool) (st : ISt) (gp : Nat) (h : st.bad = none) (hg : gp < 2 ^ 64) :
    importLoop root st [(b "gp_index", decDigits gp), (b "id", b "obj" ++ decDigits gp)] = { st with f := { st.f with gp := gp } } := by
  rw [importLoop_cons root st _ _ _ h nt_gp_index]
  simp only [importAttr, ak_gp_index]
  rw [withNum_dec st gp hg]
  rw [importLoop_cons root _ _ _ _ (by exact h) nt_id, importLoop_nil]
  simp only [importAttr, ak_id]
  have e1 : (b "obj").isPrefixOf (b "obj" ++ decDigits gp) = true := by
    have : b "obj" = [111, 98, 106] := by decide
    rw [this]; simp [List.isPrefixOf]
  have e2 : (b "obj" ++ decDigits gp).drop 3 = decDigits gp := by
    have : b "obj" = [111, 98, 106] := by decide
    rw [this]; rfl
  rw [e1, e2]
  simp only [if_true]
  unfold withNum
  rw [strtoulV_decDigits gp hg]

theorem seg_name (root : Bool) (st : ISt) (v : Option Bytes) (h : st.bad = none) (h0 : st.f.name = none) :
    importLoop root st (strAttr "name" v) = { st with f := { st.f with name := v.map Xml.sanitize } } := by
  cases v with
  | none =>
    simp only [strAttr, importLoop_nil, Option.map_none]
    obtain ⟨f, _, _, _, _, _⟩ := st
    obtain ⟨_, _, _, _, _, _, _, _, _, _, _, _⟩ := f
    simp_all
  | some s =>
    simp only [strAttr, Option.map_some]
    rw [importLoop_cons root st _ _ _ h nt_name, importLoop_nil]
    simp only [importAttr, ak_name]

theorem seg_subtype (root : Bool) (st : ISt) (v : Option Bytes) (h : st.bad = none) (h0 : st.f.subtype = none) :
    importLoop root st (strAttr "subtype" v) = { st with f := { st.f with subtype := v.map Xml.sanitize } } := by
  cases v with
  | none =>
    simp only [strAttr, importLoop_nil, Option.map_none]
    obtain ⟨f, _, _, _, _, _⟩ := st
    obtain ⟨_, _, _, _, _, _, _, _, _, _, _, _⟩ := f
    simp_all
  | some s =>
    simp only [strAttr, Option.map_some]
    rw [importLoop_cons root st _ _ _ h nt_subtype, importLoop_nil]
    simp only [importAttr, ak_subtype]

/-- the sets (present together) -/
theorem seg_sets_some (root : Bool) (st : ISt) (c cc n cn ac an : Nat) (h : st.bad = none) :
    importLoop root st ([(b "cpuset", setText c), (b "complete_cpuset", setText cc)] ++
      (if root then [(b "allowed_cpuset", setText ac)] else []) ++
      [(b "nodeset", setText n), (b "complete_nodeset", setText cn)] ++
      (if root then [(b "allowed_nodeset", setText an)] else [])) =
    { st with f := { st.f with cpuset := some c, ccpuset := some cc, nodeset := some n, cnodeset := some cn },
              allowedC := if root then some ac else st.allowedC, allowedN := if root then some an else st.allowedN } := by
  cases root with
  | false =>
    simp only [Bool.false_eq_true, if_false, List.append_nil, List.cons_append, List.nil_append]
    rw [importLoop_cons false st _ _ _ h nt_cpuset]
    simp only [importAttr, ak_cpuset, withSet_text]
    rw [importLoop_cons false _ _ _ _ (by exact h) nt_complete_cpuset]
    simp only [importAttr, ak_complete_cpuset, withSet_text]
    rw [importLoop_cons false _ _ _ _ (by exact h) nt_nodeset]
    simp only [importAttr, ak_nodeset, withSet_text]
    rw [importLoop_cons false _ _ _ _ (by exact h) nt_complete_nodeset, importLoop_nil]
    simp only [importAttr, ak_complete_nodeset, withSet_text]
  | true =>
    simp only [if_true, List.cons_append, List.nil_append]
    rw [importLoop_cons true st _ _ _ h nt_cpuset]
    simp only [importAttr, ak_cpuset, withSet_text]
    rw [importLoop_cons true _ _ _ _ (by exact h) nt_complete_cpuset]
    simp only [importAttr, ak_complete_cpuset, withSet_text]
    rw [importLoop_cons true _ _ _ _ (by exact h) nt_allowed_cpuset]
    simp only [importAttr, ak_allowed_cpuset, withSet_text, if_true]
    rw [importLoop_cons true _ _ _ _ (by exact h) nt_nodeset]
    simp only [importAttr, ak_nodeset, withSet_text]
    rw [importLoop_cons true _ _ _ _ (by exact h) nt_complete_nodeset]
    simp only [importAttr, ak_complete_nodeset, withSet_text]
    rw [importLoop_cons true _ _ _ _ (by exact h) nt_allowed_nodeset, importLoop_nil]
    simp only [importAttr, ak_allowed_nodeset, withSet_text, if_true]

theorem six {α : Type} (l : List α) (h : l.length = 6) : ∃ a0 a1 a2 a3 a4 a5, l = [a0, a1, a2, a3, a4, a5] := by
  match l, h with
  | [a0, a1, a2, a3, a4, a5], _ => exact ⟨a0, a1, a2, a3, a4, a5, rfl⟩

theorem ist_eta (st : ISt) (attrs : List Int) (pci : Option PciFields) (ha : st.f.attrs = attrs) (hp : st.f.pci = pci) :
    { st with f := { st.f with attrs := attrs, pci := pci } } = st := by
  obtain ⟨f, _, _, _, _, _⟩ := st
  obtain ⟨_, _, _, _, _, _, _, _, _, _, _, _⟩ := f
  simp_all

theorem toNat_cast {a : Int} (h : 0 ≤ a) : ((a.toNat : Nat) : Int) = a := Int.toNat_of_nonneg h

@[simp] theorem setAttr_type (f : ObjFields) (i : Nat) (v : Int) : (setAttr f i v).type = f.type := rfl
@[simp] theorem updPci_type (f : ObjFields) (g : PciFields → PciFields) : (updPci f g).type = f.type := rfl

theorem seg_typeAttrs (root : Bool) (st : ISt) (o : ObjFields) (h : st.bad = none) (ht : st.f.type = o.type)
    (ha : st.f.attrs = [0, 0, 0, 0, 0, 0]) (hp : st.f.pci = none) (hv : attrsValid o = true) :
    importLoop root st (typeAttrs o) = { st with f := { st.f with attrs := (normalise o).attrs, pci := o.pci } } := by
  unfold attrsValid at hv
  simp only [Bool.and_eq_true, beq_iff_eq] at hv
  obtain ⟨hlen, hv⟩ := hv
  obtain ⟨a0, a1, a2, a3, a4, a5, hat⟩ := six o.attrs hlen
  have e0 : o.a 0 = a0 := by simp [ObjFields.a, hat]
  have e1 : o.a 1 = a1 := by simp [ObjFields.a, hat]
  have e2 : o.a 2 = a2 := by simp [ObjFields.a, hat]
  have e3 : o.a 3 = a3 := by simp [ObjFields.a, hat]
  have e4 : o.a 4 = a4 := by simp [ObjFields.a, hat]
  have e5 : o.a 5 = a5 := by simp [ObjFields.a, hat]
  have n0 : o.n 0 = a0.toNat := by simp [ObjFields.n, e0]
  have n1 : o.n 1 = a1.toNat := by simp [ObjFields.n, e1]
  have n2 : o.n 2 = a2.toNat := by simp [ObjFields.n, e2]
  have n3 : o.n 3 = a3.toNat := by simp [ObjFields.n, e3]
  have n4 : o.n 4 = a4.toNat := by simp [ObjFields.n, e4]
  have n5 : o.n 5 = a5.toNat := by simp [ObjFields.n, e5]
  simp only [e0, e1, e2, e3, e4, e5, n0, n1, n2, n3, n4, n5] at hv
  unfold typeAttrs
  simp only [e0, e1, e2, e3, e4, e5, n0, n1, n2, n3, n4, n5]
  by_cases hN : o.type = tNUMA
  · -- NUMA node: local_memory when non-zero
    simp only [hN, if_true] at hv ⊢
    simp only [Bool.and_eq_true, decide_eq_true_eq, beq_iff_eq, Option.isNone_iff_eq_none] at hv
    obtain ⟨⟨⟨⟨⟨⟨⟨h0, hb0⟩, h1⟩, h2⟩, h3⟩, h4⟩, h5⟩, hpci⟩ := hv
    have hnorm : (normalise o).attrs = o.attrs := by simp [normalise, hN, tNUMA, tGROUP, tBRIDGE]
    rw [hnorm, hpci, hat, h1, h2, h3, h4, h5]
    by_cases hz : a0.toNat = 0
    · have : a0 = 0 := by omega
      subst this
      simp only [hz, ne_eq, not_true_eq_false, if_false, importLoop_nil]
      exact (ist_eta st _ _ ha hp).symm
    · simp only [hz, ne_eq, not_false_eq_true, if_true]
      rw [importLoop_cons root st _ _ _ h nt_local_memory, importLoop_nil]
      simp only [importAttr, ak_local_memory]
      rw [withNum_dec st _ hb0]
      simp only [ht, hN, if_true, setAttr, ha, List.set_cons_zero, toNat_cast h0]
      obtain ⟨f, _, _, _, _, _⟩ := st
      obtain ⟨_, _, _, _, _, _, _, _, _, _, _, _⟩ := f
      simp_all <;> omega
  · simp only [hN, if_false] at hv ⊢
    by_cases hC : isCacheLike o.type = true
    · -- caches and memory-side caches
      simp only [hC, if_true] at hv ⊢
      simp only [Bool.and_eq_true, Bool.or_eq_true, decide_eq_true_eq, beq_iff_eq, Option.isNone_iff_eq_none] at hv
      obtain ⟨⟨⟨⟨⟨⟨⟨⟨⟨⟨h0, hb0⟩, h1⟩, hb1⟩, h2⟩, hb2⟩, h3l⟩, h3u⟩, h4⟩, h5⟩, hpci⟩ := hv
      have hG : o.type ≠ tGROUP := by intro e; rw [e] at hC; revert hC; decide
      have hB : o.type ≠ tBRIDGE := by intro e; rw [e] at hC; revert hC; decide
      have hnorm : (normalise o).attrs = o.attrs := by simp [normalise, hG, hB]
      have h4n : 0 ≤ a4 := by omega
      have hp4 : Xml.printInt a4 = decDigits a4.toNat := by unfold Xml.printInt; rw [if_neg (by omega)]
      have hb4 : a4.toNat < 2 ^ 64 := by omega
      have hc4 : a4.toNat = 0 ∨ a4.toNat = 1 ∨ a4.toNat = 2 := by omega
      rw [hnorm, hpci, hat, h5, hp4]
      rw [importLoop_cons root st _ _ _ h nt_cache_size]
      simp only [importAttr, ak_cache_size]
      rw [withNum_dec st _ hb0]
      simp only [setAttr_type, updPci_type, ht, hC, if_true]
      rw [importLoop_cons root _ _ _ _ (by exact h) nt_depth]
      simp only [importAttr, ak_depth]
      rw [withNum_dec _ _ (by omega)]
      simp only [setAttr_type, updPci_type, ht, hC, if_true]
      rw [importLoop_cons root _ _ _ _ (by exact h) nt_cache_linesize]
      simp only [importAttr, ak_cache_linesize]
      rw [withNum_dec _ _ (by omega)]
      simp only [setAttr_type, updPci_type, ht, hC, if_true]
      rw [importLoop_cons root _ _ _ _ (by exact h) nt_cache_associativity]
      simp only [importAttr, ak_cache_associativity, Xml.atoi_printInt]
      simp only [setAttr_type, updPci_type, ht, hC, if_true]
      rw [importLoop_cons root _ _ _ _ (by exact h) nt_cache_type, importLoop_nil]
      simp only [importAttr, ak_cache_type]
      rw [withNum_dec _ _ hb4]
      simp only [setAttr_type, updPci_type, ht, hC, hc4, and_self, if_true]
      have m1 : a1.toNat % 2 ^ 32 = a1.toNat := Nat.mod_eq_of_lt hb1
      have m2 : a2.toNat % 2 ^ 32 = a2.toNat := Nat.mod_eq_of_lt hb2
      simp only [setAttr, ha, m1, m2, toNat_cast h0, toNat_cast h1, toNat_cast h2, toNat_cast h4n, List.set_cons_zero, List.set_cons_succ]
      obtain ⟨f, _, _, _, _, _⟩ := st
      obtain ⟨_, _, _, _, _, _, _, _, _, _, _, _⟩ := f
      simp_all <;> omega
    · have hC' : isCacheLike o.type = false := by cases hh : isCacheLike o.type <;> simp_all
      simp only [hC', Bool.false_eq_true, if_false] at hv ⊢
      by_cases hG : o.type = tGROUP
      · -- Group: kind, subkind, dont_merge
        simp only [hG, if_true] at hv ⊢
        simp only [Bool.and_eq_true, Bool.or_eq_true, decide_eq_true_eq, beq_iff_eq, Option.isNone_iff_eq_none] at hv
        obtain ⟨⟨⟨⟨⟨⟨⟨⟨h0, h1⟩, hb1⟩, h2⟩, hb2⟩, h3⟩, h4⟩, h5⟩, hpci⟩ := hv
        have hnorm : (normalise o).attrs = [0, a1, a2, a3, a4, a5] := by simp [normalise, hG, hat]
        have tG : st.f.type = tGROUP := by rw [ht, hG]
        have m1 : a1.toNat % 2 ^ 32 = a1.toNat := Nat.mod_eq_of_lt hb1
        have m2 : a2.toNat % 2 ^ 32 = a2.toNat := Nat.mod_eq_of_lt hb2
        rw [hnorm, hpci, h4, h5]
        simp only [List.cons_append, List.nil_append]
        rw [importLoop_cons root st _ _ _ h nt_kind]
        simp only [importAttr, ak_kind]
        rw [withNum_dec st _ (by omega)]
        simp only [setAttr_type, tG, if_true]
        rw [importLoop_cons root _ _ _ _ (by exact h) nt_subkind]
        simp only [importAttr, ak_subkind]
        rw [withNum_dec _ _ (by omega)]
        simp only [setAttr_type, tG, if_true]
        by_cases hz : a3 = 0
        · subst hz
          simp only [ne_eq, not_true_eq_false, if_false, importLoop_nil]
          simp only [setAttr, ha, m1, m2, toNat_cast h1, toNat_cast h2, List.set_cons_zero, List.set_cons_succ]
          obtain ⟨f, _, _, _, _, _⟩ := st
          obtain ⟨_, _, _, _, _, _, _, _, _, _, _, _⟩ := f
          simp_all <;> omega
        · have h31 : a3 = 1 := by omega
          subst h31
          simp only [ne_eq, hz, not_false_eq_true, if_true]
          rw [importLoop_cons root _ _ _ _ (by exact h) nt_dont_merge, importLoop_nil]
          simp only [importAttr, ak_dont_merge]
          have e1 : b "1" = decDigits 1 := by decide
          rw [e1, withNum_dec _ _ (by omega)]
          simp only [setAttr_type, tG, if_true]
          simp only [setAttr, ha, m1, m2, toNat_cast h1, toNat_cast h2, List.set_cons_zero, List.set_cons_succ]
          obtain ⟨f, _, _, _, _, _⟩ := st
          obtain ⟨_, _, _, _, _, _, _, _, _, _, _, _⟩ := f
          simp_all <;> omega
      · simp only [hG, if_false] at hv ⊢
        by_cases hB : o.type = tBRIDGE
        · -- Bridge: bridge_type, depth (left to the core), bridge_pci, and the pcidev part when the upstream side is PCI
          simp only [hB, if_true] at hv ⊢
          simp only [Bool.and_eq_true, Bool.or_eq_true, decide_eq_true_eq, beq_iff_eq] at hv
          obtain ⟨⟨⟨⟨⟨⟨⟨⟨⟨⟨h0, h1⟩, h2⟩, hb2⟩, h3⟩, hb3⟩, h4⟩, hb4⟩, h5⟩, hb5⟩, hpc⟩ := hv
          subst h1
          have hnorm : (normalise o).attrs = [a0, 1, 0, a3, a4, a5] := by
            have : tBRIDGE ≠ tGROUP := by decide
            simp [normalise, hB, this, hat]
          have tB : st.f.type = tBRIDGE := by rw [ht, hB]
          have nC : isCacheLike tBRIDGE = false := by decide
          have nP : (tBRIDGE = tPCI) = False := by simp; decide
          have h0n : 0 ≤ a0 := by omega
          have hp0 : Xml.printInt a0 = decDigits a0.toNat := by unfold Xml.printInt; rw [if_neg (by omega)]
          have hp1 : Xml.printInt 1 = decDigits 1 := by decide
          have m0 : a0.toNat % 2 ^ 32 = a0.toNat := Nat.mod_eq_of_lt (by omega)
          have m3 : a3.toNat % 2 ^ 32 = a3.toNat := Nat.mod_eq_of_lt hb3
          have m4 : a4.toNat % 256 = a4.toNat := Nat.mod_eq_of_lt hb4
          have m5 : a5.toNat % 256 = a5.toNat := Nat.mod_eq_of_lt hb5
          rw [hnorm, hp0, hp1]
          simp only [if_true, List.cons_append, List.nil_append]
          rw [importLoop_cons root st _ _ _ h nt_bridge_type]
          simp only [importAttr, ak_bridge_type, tB, if_true]
          rw [scanBridgeType_ok]
          simp only []
          rw [importLoop_cons root _ _ _ _ (by exact h) nt_depth]
          simp only [importAttr, ak_depth]
          rw [withNum_dec _ _ (by omega)]
          simp only [setAttr_type, tB, nC, Bool.false_eq_true, if_false]
          rw [importLoop_cons root _ _ _ _ (by exact h) nt_bridge_pci]
          simp only [importAttr, ak_bridge_pci, setAttr_type, tB, if_true]
          rw [scanBridgePci_ok a3.toNat a4.toNat a5.toNat hb4 hb5]
          simp only []
          by_cases hz : a0 = 1
          · -- PCI upstream
            subst hz
            simp only [if_true] at hpc ⊢
            cases hpci : o.pci with
            | none => rw [hpci] at hpc; simp at hpc
            | some p =>
              rw [hpci] at hpc
              simp only [pciValid, Bool.and_eq_true, decide_eq_true_eq] at hpc
              obtain ⟨⟨⟨⟨⟨⟨⟨⟨⟨⟨⟨pd, pb⟩, pdv⟩, pf⟩, pc⟩, pv⟩, pde⟩, psv⟩, psd⟩, pr⟩, ppi⟩, _pls⟩ := hpc
              simp only [Option.getD_some, pciAttrs]
              rw [importLoop_cons root _ _ _ _ (by exact h) nt_pci_busid]
              simp only [importAttr, ak_pci_busid, setAttr_type, tB, or_true, if_true, nP, if_false]
              rw [scanBusid_ok p.domain p.bus p.dev p.func pb pdv pf]
              simp only []
              rw [importLoop_cons root _ _ _ _ (by exact h) nt_pci_type]
              simp only [importAttr, ak_pci_type, setAttr_type, updPci_type, tB, or_true, if_true, nP, if_false]
              rw [scanPciType_ok p.classId p.vendor p.device p.subvendor p.subdevice p.revision p.progIf pv pde psv psd pr ppi]
              simp only []
              rw [importLoop_cons root _ _ _ _ (by exact h) nt_pci_link_speed, importLoop_nil]
              simp only [importAttr, ak_pci_link_speed, setAttr_type, updPci_type, tB, or_true, if_true]
              have r1 : p.domain % 2 ^ 32 = p.domain := Nat.mod_eq_of_lt pd
              have r2 : p.bus % 256 = p.bus := Nat.mod_eq_of_lt pb
              have r3 : p.dev % 256 = p.dev := Nat.mod_eq_of_lt pdv
              have r4 : p.func % 256 = p.func := Nat.mod_eq_of_lt (by omega)
              have r5 : p.classId % 65536 = p.classId := Nat.mod_eq_of_lt pc
              have r6 : p.vendor % 65536 = p.vendor := Nat.mod_eq_of_lt pv
              have r7 : p.device % 65536 = p.device := Nat.mod_eq_of_lt pde
              have r8 : p.subvendor % 65536 = p.subvendor := Nat.mod_eq_of_lt psv
              have r9 : p.subdevice % 65536 = p.subdevice := Nat.mod_eq_of_lt psd
              have r10 : p.revision % 256 = p.revision := Nat.mod_eq_of_lt pr
              have r11 : p.progIf % 256 = p.progIf := Nat.mod_eq_of_lt ppi
              simp only [r1, r2, r3, r4, r5, r6, r7, r8, r9, r10, r11, m3, m4, m5, setAttr, updPci, ha, hp, Option.getD_none, Option.getD_some,
                toNat_cast h3, toNat_cast h4, toNat_cast h5, List.set_cons_zero, List.set_cons_succ]
              obtain ⟨pd_, pb_, pdv_, pf_, pc_, pv_, pde_, psv_, psd_, pr_, ppi_, pls_⟩ := p
              obtain ⟨f, _, _, _, _, _⟩ := st
              obtain ⟨_, _, _, _, _, _, _, _, _, _, _, _⟩ := f
              simp_all <;> omega
          · -- host bridge
            have hz0 : a0 = 0 := by omega
            subst hz0
            simp only [show ((0 : Int) = 1) = False from by simp, if_false] at hpc ⊢
            simp only [Option.isNone_iff_eq_none] at hpc
            rw [hpc, importLoop_nil]
            simp only [m3, m4, m5, setAttr, ha, toNat_cast h3, toNat_cast h4, toNat_cast h5, List.set_cons_zero, List.set_cons_succ]
            obtain ⟨f, _, _, _, _, _⟩ := st
            obtain ⟨_, _, _, _, _, _, _, _, _, _, _, _⟩ := f
            simp_all <;> omega
        · simp only [hB, if_false] at hv ⊢
          have hnorm : (normalise o).attrs = o.attrs := by simp [normalise, hG, hB]
          by_cases hP : o.type = tPCI
          · -- PCI device
            simp only [hP, if_true] at hv ⊢
            cases hpc : o.pci with
            | none => rw [hpc] at hv; simp at hv
            | some p =>
              rw [hpc] at hv
              simp only [Bool.and_eq_true, beq_iff_eq, pciValid, decide_eq_true_eq] at hv
              obtain ⟨⟨⟨⟨⟨⟨⟨⟨⟨⟨⟨⟨⟨⟨⟨⟨⟨pd, pb⟩, pdv⟩, pf⟩, pc⟩, pv⟩, pde⟩, psv⟩, psd⟩, pr⟩, ppi⟩, _pls⟩, q0⟩, q1⟩, q2⟩, q3⟩, q4⟩, q5⟩ := hv
              have tP : st.f.type = tPCI := by rw [ht, hP]
              rw [hnorm, hat]
              simp only [Option.getD_some, pciAttrs]
              rw [importLoop_cons root st _ _ _ h nt_pci_busid]
              simp only [importAttr, ak_pci_busid, tP, true_or, if_true]
              rw [scanBusid_ok p.domain p.bus p.dev p.func pb pdv pf]
              simp only [if_true]
              rw [importLoop_cons root _ _ _ _ (by exact h) nt_pci_type]
              simp only [importAttr, ak_pci_type, setAttr_type, updPci_type, tP, true_or, if_true]
              rw [scanPciType_ok p.classId p.vendor p.device p.subvendor p.subdevice p.revision p.progIf pv pde psv psd pr ppi]
              simp only [if_true]
              rw [importLoop_cons root _ _ _ _ (by exact h) nt_pci_link_speed, importLoop_nil]
              simp only [importAttr, ak_pci_link_speed, setAttr_type, updPci_type, tP, true_or, if_true]
              have r1 : p.domain % 2 ^ 32 = p.domain := Nat.mod_eq_of_lt pd
              have r2 : p.bus % 256 = p.bus := Nat.mod_eq_of_lt pb
              have r3 : p.dev % 256 = p.dev := Nat.mod_eq_of_lt pdv
              have r4 : p.func % 256 = p.func := Nat.mod_eq_of_lt (by omega)
              have r5 : p.classId % 65536 = p.classId := Nat.mod_eq_of_lt pc
              have r6 : p.vendor % 65536 = p.vendor := Nat.mod_eq_of_lt pv
              have r7 : p.device % 65536 = p.device := Nat.mod_eq_of_lt pde
              have r8 : p.subvendor % 65536 = p.subvendor := Nat.mod_eq_of_lt psv
              have r9 : p.subdevice % 65536 = p.subdevice := Nat.mod_eq_of_lt psd
              have r10 : p.revision % 256 = p.revision := Nat.mod_eq_of_lt pr
              have r11 : p.progIf % 256 = p.progIf := Nat.mod_eq_of_lt ppi
              simp only [r1, r2, r3, r4, r5, r6, r7, r8, r9, r10, r11, setAttr, updPci, ha, hp, Option.getD_none, Option.getD_some,
                List.set_cons_zero, List.set_cons_succ]
              obtain ⟨pd_, pb_, pdv_, pf_, pc_, pv_, pde_, psv_, psd_, pr_, ppi_, pls_⟩ := p
              obtain ⟨f, _, _, _, _, _⟩ := st
              obtain ⟨_, _, _, _, _, _, _, _, _, _, _, _⟩ := f
              simp_all <;> omega
          · simp only [hP, if_false] at hv ⊢
            by_cases hO : o.type = tOSDEV
            · -- OS device
              simp only [hO, if_true] at hv ⊢
              simp only [Bool.and_eq_true, decide_eq_true_eq, beq_iff_eq, Option.isNone_iff_eq_none] at hv
              obtain ⟨⟨⟨⟨⟨⟨⟨h0, hb0⟩, h1⟩, h2⟩, h3⟩, h4⟩, h5⟩, hpci⟩ := hv
              have tO : st.f.type = tOSDEV := by rw [ht, hO]
              rw [hnorm, hpci, hat, h1, h2, h3, h4, h5]
              rw [importLoop_cons root st _ _ _ h nt_osdev_type, importLoop_nil]
              simp only [importAttr, ak_osdev_type, tO, if_true]
              have := scanDec_decDigits a0.toNat [] noDigitHead_nil
              rw [List.append_nil] at this
              rw [this]
              simp only [setAttr, ha, toNat_cast h0, List.set_cons_zero]
              obtain ⟨f, _, _, _, _, _⟩ := st
              obtain ⟨_, _, _, _, _, _, _, _, _, _, _, _⟩ := f
              simp_all <;> omega
            · -- every other type: no type-specific attribute
              simp only [hO, if_false] at hv ⊢
              simp only [Bool.and_eq_true, beq_iff_eq, Option.isNone_iff_eq_none] at hv
              rw [hnorm, hv.2, importLoop_nil]
              have : o.attrs = [0, 0, 0, 0, 0, 0] := hv.1
              rw [this]
              exact (ist_eta st _ _ ha hp).symm

theorem getD_set_ne (l : List Int) (i j : Nat) (v : Int) (h : i ≠ j) : (l.set i v).getD j 0 = l.getD j 0 := by
  simp [List.getD_eq_getElem?_getD, List.getElem?_set, h]

theorem checks_normalise (c : Ctx) (o : ObjFields) : checks c (normalise o) = checks c o := by
  have ht : (normalise o).type = o.type := rfl
  have hcs : (normalise o).cpuset = o.cpuset := rfl
  have hccs : (normalise o).ccpuset = o.ccpuset := rfl
  have hns : (normalise o).nodeset = o.nodeset := rfl
  have hcns : (normalise o).cnodeset = o.cnodeset := rfl
  have hos : (normalise o).osidx = o.osidx := rfl
  by_cases hG : o.type = tGROUP
  · have nC : isCacheT tGROUP = false := by decide
    have nB : (tGROUP != tBRIDGE) = true := by decide
    unfold checks
    simp only [ht, hcs, hccs, hns, hcns, hos, hG, nC, nB, Bool.not_false, Bool.true_or, Bool.not_true, Bool.false_or]
  · by_cases hB : o.type = tBRIDGE
    · have nC : isCacheT tBRIDGE = false := by decide
      have a0 : (normalise o).a 0 = o.a 0 := by
        simp only [ObjFields.a, normalise, hG, hB, if_false, if_true]; exact getD_set_ne _ 2 0 0 (by decide)
      have a1 : (normalise o).a 1 = o.a 1 := by
        simp only [ObjFields.a, normalise, hG, hB, if_false, if_true]; exact getD_set_ne _ 2 1 0 (by decide)
      unfold checks
      simp only [ht, hcs, hccs, hns, hcns, hos, hB, nC, a0, a1, Bool.not_false, Bool.true_or]
    · have ha : (normalise o).attrs = o.attrs := by simp [normalise, hG, hB]
      have a1 : (normalise o).n 1 = o.n 1 := by simp [ObjFields.n, ObjFields.a, ha]
      have a4 : (normalise o).a 4 = o.a 4 := by simp [ObjFields.a, ha]
      have a0 : (normalise o).a 0 = o.a 0 := by simp [ObjFields.a, ha]
      have a1' : (normalise o).a 1 = o.a 1 := by simp [ObjFields.a, ha]
      unfold checks
      simp only [ht, hcs, hccs, hns, hcns, hos, a1, a4, a0, a1']

/-- **the object-level round trip**: importing the attribute list that the exporter writes for a valid object gives the object
    back (strings filtered by safestrdup, Group / Bridge depth left to the core) -/
theorem importAttrs_exportAttrs (c : Ctx) (o : ObjFields) (hv : Valid c o = true) :
    importAttrs c (exportAttrs c.root o) = .ok (normalise o) := by
  unfold Valid at hv
  simp only [Bool.and_eq_true, decide_eq_true_eq, beq_iff_eq] at hv
  obtain ⟨⟨⟨⟨⟨⟨⟨⟨⟨⟨ht, hgp⟩, hos⟩, _hnm⟩, _hst⟩, hal⟩, hs1⟩, hs2⟩, hs3⟩, hav⟩, hck⟩ := hv
  have ht20 : o.type < 20 := ht
  have hosv : ∀ i, o.osidx = some i → i < 2 ^ 32 - 1 := by
    intro i e; rw [e] at hos; simpa using hos
  unfold importAttrs exportAttrs
  simp only [importLoop_append]
  rw [seg_type c.root _ o.type ht20 (by rfl) (by rfl)]
  rw [seg_os c.root _ o.osidx (by rfl) (by rfl) hosv]
  -- the sets
  have hsets : ∀ st : ISt, st.bad = none → st.allowedC = none → st.allowedN = none →
      st.f.cpuset = none → st.f.ccpuset = none → st.f.nodeset = none → st.f.cnodeset = none →
      importLoop c.root st (setsSeg c.root o) =
      { st with f := { st.f with cpuset := o.cpuset, ccpuset := o.ccpuset, nodeset := o.nodeset, cnodeset := o.cnodeset },
                allowedC := if c.root then some (o.allowed.getD (0, 0)).1 else none,
                allowedN := if c.root then some (o.allowed.getD (0, 0)).2 else none } := by
    intro st hb hac han h1 h2 h3 h4
    unfold setsSeg
    cases hc : o.cpuset with
    | none =>
      rw [hc] at hs1 hs2 hs3
      have e1 : o.ccpuset = none := by cases h : o.ccpuset <;> simp_all
      have e2 : o.nodeset = none := by cases h : o.nodeset <;> simp_all
      have e3 : o.cnodeset = none := by cases h : o.cnodeset <;> simp_all
      have hr : c.root = false := by
        cases hr : c.root with
        | false => rfl
        | true =>
          -- the root is a Machine, which must have its sets
          exfalso
          unfold checks at hck
          simp only [hr, hc, e1, e2, e3, if_true, Bool.and_eq_true, beq_iff_eq] at hck
          have hm := hck.1.1.1.1.1.1.1.1
          have := hck.1.1.1.1.2
          rw [hm] at this
          revert this; decide
      simp only [importLoop_nil, e1, e2, e3, hr, Bool.false_eq_true, if_false]
      obtain ⟨f, _, _, _, _, _⟩ := st
      obtain ⟨_, _, _, _, _, _, _, _, _, _, _, _⟩ := f
      simp_all
    | some cs =>
      rw [hc] at hs1 hs2 hs3
      obtain ⟨cc, e1⟩ : ∃ x, o.ccpuset = some x := by cases h : o.ccpuset <;> simp_all
      obtain ⟨n, e2⟩ : ∃ x, o.nodeset = some x := by cases h : o.nodeset <;> simp_all
      obtain ⟨cn, e3⟩ : ∃ x, o.cnodeset = some x := by cases h : o.cnodeset <;> simp_all
      simp only [e1, e2, e3, Option.getD_some]
      rw [seg_sets_some c.root st cs cc n cn _ _ hb]
      cases hr : c.root <;> simp [hac, han]
  rw [hsets _ (by rfl) (by rfl) (by rfl) (by rfl) (by rfl) (by rfl) (by rfl)]
  rw [seg_gp c.root _ o.gp (by rfl) hgp]
  rw [seg_name c.root _ o.name (by rfl) (by rfl)]
  rw [seg_subtype c.root _ o.subtype (by rfl) (by rfl)]
  rw [seg_typeAttrs c.root _ o (by rfl) (by rfl) (by rfl) (by rfl) hav]
  -- the state after the loop
  simp only [Bool.not_true, Bool.false_and, Bool.false_eq_true, if_false]
  have hf : ({ type := o.type, osidx := o.osidx, gp := o.gp, cpuset := o.cpuset, ccpuset := o.ccpuset, nodeset := o.nodeset,
               cnodeset := o.cnodeset,
               allowed := if c.root = true then some (((if c.root = true then some (o.allowed.getD (0, 0)).1 else none).getD 0),
                                                       ((if c.root = true then some (o.allowed.getD (0, 0)).2 else none).getD 0)) else none,
               name := o.name.map Xml.sanitize, subtype := o.subtype.map Xml.sanitize, attrs := (normalise o).attrs, pci := o.pci } : ObjFields)
            = normalise o := by
    obtain ⟨ty, os, gp, cs, ccs, ns, cns, al, nm, sbt, attrs, pci⟩ := o
    simp only [normalise]
    cases hr : c.root with
    | false => rw [hr] at hal; simp at hal; simp [hal]
    | true =>
      rw [hr] at hal
      simp only [if_true] at hal
      cases al with
      | none => simp at hal
      | some a => simp
  rw [hf, checks_normalise, hck]
  simp
/-! ### the exported attributes satisfy the hypotheses of the attribute scanner -/

set_option linter.unusedSimpArgs false

/-- NUL-free -/
def NZ (v : Bytes) : Prop := ∀ x ∈ v, x ≠ 0
def NameOk (n : Bytes) : Prop := ∀ x ∈ n, Xml.isAttrNameChar x = true
def AttrOk (a : Bytes × Bytes) : Prop := NameOk a.1 ∧ NZ a.2
def AllOk (l : List (Bytes × Bytes)) : Prop := ∀ a ∈ l, AttrOk a

theorem nz_nil : NZ [] := by intro x h; cases h
theorem nz_append {u v : Bytes} (hu : NZ u) (hv : NZ v) : NZ (u ++ v) := by
  intro x hx; rcases List.mem_append.mp hx with h | h; exact hu x h; exact hv x h
theorem nz_cons {c : Nat} {v : Bytes} (hc : c ≠ 0) (hv : NZ v) : NZ (c :: v) := by
  intro x hx; rcases List.mem_cons.mp hx with h | h; rw [h]; exact hc; exact hv x h
theorem nz_of_all {v : Bytes} (h : v.all (· != 0) = true) : NZ v := by
  intro x hx; have := List.all_eq_true.mp h x hx; simpa using this
theorem nz_dec (n : Nat) : NZ (decDigits n) := by
  intro x hx; have := decDigits_chars n x hx; unfold IsDecChar at this; omega
theorem nz_hexPad (k n : Nat) : NZ (hexPad k n) := by
  intro x hx; have := hexPad_chars k n x hx; unfold IsHexChar at this; omega
theorem nz_printInt (i : Int) : NZ (Xml.printInt i) := by
  unfold Xml.printInt; split
  · exact nz_cons (by decide) (nz_dec _)
  · exact nz_dec _
theorem nz_sanitize (s : Bytes) : NZ (Xml.sanitize s) := by
  intro x hx
  have := (List.mem_filter.mp hx).2
  intro e; subst e; revert this; decide
theorem nz_typeString : ∀ t, t < 20 → (TypeStr.typeString t).all (· != 0) = true := by decide

theorem nz_hwlocBody : ∀ (gs : List Nat) (nc m : Bool), NZ (text (Bitmap.hwlocBody gs nc m))
  | [], _, _ => by simp [Bitmap.hwlocBody, text]; exact nz_nil
  | g :: gs, nc, m => by
    have ih := fun a c => nz_hwlocBody gs a c
    have hs1 : NZ (str ",0x") := nz_of_all (by decide)
    have hs2 : NZ (str "0x") := nz_of_all (by decide)
    have hs3 : NZ (str ",0x0") := nz_of_all (by decide)
    have hs4 : NZ (str "0x0") := nz_of_all (by decide)
    have hs5 : NZ (str ",") := nz_of_all (by decide)
    unfold Bitmap.hwlocBody
    simp only
    split
    · simp only [text, List.flatten_cons, List.nil_append]; exact ih _ _
    · split
      · simp only [text, List.flatten_cons]
        refine nz_append (nz_append ?_ (nz_hexPad _ _)) (ih _ _)
        split; exact hs1; exact hs2
      · split
        · simp only [text, List.flatten_cons]
          refine nz_append ?_ (ih _ _)
          split; exact hs3; exact hs4
        · split
          · simp only [text, List.flatten_cons]; exact nz_append hs5 (ih _ _)
          · simp only [text, List.flatten_cons, List.nil_append]; exact ih _ _

theorem nz_setText (m : Nat) : NZ (setText m) := by
  unfold setText
  rw [Bitmap.text_chunksHwloc, Calc.ofMask_inf]
  simp only [Bool.false_eq_true, if_false, List.nil_append]
  split
  · exact nz_of_all (by decide)
  · exact nz_hwlocBody _ _ _

theorem ok_nil : AllOk [] := by intro a h; cases h
theorem ok_cons {a : Bytes × Bytes} {l : List (Bytes × Bytes)} (ha : AttrOk a) (hl : AllOk l) : AllOk (a :: l) := by
  intro x hx; rcases List.mem_cons.mp hx with h | h; rw [h]; exact ha; exact hl x h
theorem ok_append {l1 l2 : List (Bytes × Bytes)} (h1 : AllOk l1) (h2 : AllOk l2) : AllOk (l1 ++ l2) := by
  intro x hx; rcases List.mem_append.mp hx with h | h; exact h1 x h; exact h2 x h
theorem ok_ite {p : Prop} [Decidable p] {l1 l2 : List (Bytes × Bytes)} (h1 : AllOk l1) (h2 : AllOk l2) : AllOk (if p then l1 else l2) := by
  split; exact h1; exact h2
theorem mk_ok (n : String) (v : Bytes) (hn : (b n).all Xml.isAttrNameChar = true) (hv : NZ v) : AttrOk (b n, v) :=
  ⟨fun x hx => List.all_eq_true.mp hn x hx, hv⟩

theorem ok_pciAttrs (p : PciFields) (h : NZ p.linkspeed) : AllOk (pciAttrs p) := by
  unfold pciAttrs
  have l1 : NZ (b " [") := nz_of_all (by decide)
  have l2 : NZ (b "] [") := nz_of_all (by decide)
  have l3 : NZ (b "] ") := nz_of_all (by decide)
  refine ok_cons (mk_ok _ _ (by decide) ?_) (ok_cons (mk_ok _ _ (by decide) ?_) (ok_cons (mk_ok _ _ (by decide) h) ok_nil))
  · exact nz_append (nz_append (nz_append (nz_append (nz_append (nz_append (nz_hexPad _ _) (nz_cons (by decide) nz_nil)) (nz_hexPad _ _))
      (nz_cons (by decide) nz_nil)) (nz_hexPad _ _)) (nz_cons (by decide) nz_nil)) (nz_hexPad _ _)
  · exact nz_append (nz_append (nz_append (nz_append (nz_append (nz_append (nz_append (nz_append (nz_append (nz_append (nz_append (nz_append
      (nz_hexPad _ _) l1) (nz_hexPad _ _)) (nz_cons (by decide) nz_nil)) (nz_hexPad _ _)) l2) (nz_hexPad _ _)) (nz_cons (by decide) nz_nil))
      (nz_hexPad _ _)) l3) (nz_hexPad _ _)) (nz_cons (by decide) nz_nil)) (nz_hexPad _ _)

theorem ok_typeAttrs (o : ObjFields) (hp : ∀ p, o.pci = some p → NZ p.linkspeed) : AllOk (typeAttrs o) := by
  have hpci : AllOk (pciAttrs (o.pci.getD default)) := by
    apply ok_pciAttrs
    cases h : o.pci with
    | none => exact nz_nil
    | some p => exact hp p h
  have l1 : NZ (b ":[") := nz_of_all (by decide)
  unfold typeAttrs
  refine ok_ite (ok_ite (ok_cons (mk_ok _ _ (by decide) (nz_dec _)) ok_nil) ok_nil) (ok_ite ?_ (ok_ite ?_ (ok_ite ?_ (ok_ite hpci (ok_ite ?_ ok_nil)))))
  · exact ok_cons (mk_ok _ _ (by decide) (nz_dec _)) (ok_cons (mk_ok _ _ (by decide) (nz_dec _)) (ok_cons (mk_ok _ _ (by decide) (nz_dec _))
      (ok_cons (mk_ok _ _ (by decide) (nz_printInt _)) (ok_cons (mk_ok _ _ (by decide) (nz_printInt _)) ok_nil))))
  · exact ok_append (ok_cons (mk_ok _ _ (by decide) (nz_dec _)) (ok_cons (mk_ok _ _ (by decide) (nz_dec _)) ok_nil))
      (ok_ite (ok_cons (mk_ok _ _ (by decide) (nz_of_all (by decide))) ok_nil) ok_nil)
  · refine ok_append (ok_append (ok_cons (mk_ok _ _ (by decide) ?_) (ok_cons (mk_ok _ _ (by decide) (nz_dec _)) ok_nil))
      (ok_ite (ok_cons (mk_ok _ _ (by decide) ?_) ok_nil) ok_nil)) (ok_ite hpci ok_nil)
    · exact nz_append (nz_append (nz_printInt _) (nz_cons (by decide) nz_nil)) (nz_printInt _)
    · exact nz_append (nz_append (nz_append (nz_append (nz_append (nz_hexPad _ _) l1) (nz_hexPad _ _)) (nz_cons (by decide) nz_nil)) (nz_hexPad _ _))
        (nz_cons (by decide) nz_nil)
  · exact ok_cons (mk_ok _ _ (by decide) (nz_dec _)) ok_nil

/-- the pcidev part only exists for PCI devices and PCI-upstream bridges, where `pciValid` makes the link speed text NUL-free -/
theorem attrsValid_link (o : ObjFields) (h : attrsValid o = true) : ∀ p, o.pci = some p → NZ p.linkspeed := by
  intro p hp
  unfold attrsValid at h
  simp only [Bool.and_eq_true] at h
  have hav2 := h.2
  by_cases h1 : o.type = tNUMA
  · rw [if_pos h1, hp] at hav2; simp at hav2
  · rw [if_neg h1] at hav2
    by_cases h2 : isCacheLike o.type = true
    · rw [if_pos h2, hp] at hav2; simp at hav2
    · rw [if_neg h2] at hav2
      by_cases h3 : o.type = tGROUP
      · rw [if_pos h3, hp] at hav2; simp at hav2
      · rw [if_neg h3] at hav2
        by_cases h4 : o.type = tBRIDGE
        · rw [if_pos h4] at hav2
          simp only [Bool.and_eq_true] at hav2
          have := hav2.2
          rw [hp] at this
          split at this
          · simp only [pciValid, Bool.and_eq_true] at this; exact nz_of_all this.2
          · simp at this
        · rw [if_neg h4] at hav2
          by_cases h5 : o.type = tPCI
          · rw [if_pos h5, hp] at hav2
            simp only [Bool.and_eq_true, pciValid] at hav2
            exact nz_of_all hav2.1.1.1.1.1.1.2
          · rw [if_neg h5] at hav2
            by_cases h6 : o.type = tOSDEV
            · rw [if_pos h6, hp] at hav2; simp at hav2
            · rw [if_neg h6, hp] at hav2; simp at hav2

/-- every attribute the exporter writes for a valid object has a name over `[a-z_]` and a NUL-free value: the hypotheses of
    the attribute scanner theorem -/
theorem exportAttrs_ok (c : Ctx) (o : ObjFields) (hv : Valid c o = true) : AllOk (exportAttrs c.root o) := by
  unfold Valid at hv
  simp only [Bool.and_eq_true, decide_eq_true_eq] at hv
  obtain ⟨⟨⟨⟨⟨⟨⟨⟨⟨⟨ht, _⟩, _⟩, _⟩, _⟩, _⟩, _⟩, _⟩, _⟩, hav⟩, _⟩ := hv
  have hlink := attrsValid_link o hav
  unfold exportAttrs
  refine ok_append (ok_append (ok_append (ok_append (ok_append (ok_append ?_ ?_) ?_) ?_) ?_) ?_) (ok_typeAttrs o hlink)
  · exact ok_cons (mk_ok _ _ (by decide) (nz_of_all (nz_typeString o.type ht))) ok_nil
  · unfold osSeg; split
    · exact ok_cons (mk_ok _ _ (by decide) (nz_dec _)) ok_nil
    · exact ok_nil
  · unfold setsSeg; split
    · exact ok_append (ok_append (ok_append (ok_cons (mk_ok _ _ (by decide) (nz_setText _)) (ok_cons (mk_ok _ _ (by decide) (nz_setText _)) ok_nil))
        (ok_ite (ok_cons (mk_ok _ _ (by decide) (nz_setText _)) ok_nil) ok_nil))
        (ok_cons (mk_ok _ _ (by decide) (nz_setText _)) (ok_cons (mk_ok _ _ (by decide) (nz_setText _)) ok_nil)))
        (ok_ite (ok_cons (mk_ok _ _ (by decide) (nz_setText _)) ok_nil) ok_nil)
    · exact ok_nil
  · exact ok_cons (mk_ok _ _ (by decide) (nz_dec _)) (ok_cons (mk_ok _ _ (by decide) (nz_append (nz_of_all (by decide)) (nz_dec _))) ok_nil)
  · unfold strAttr; split
    · exact ok_cons (mk_ok _ _ (by decide) (nz_sanitize _)) ok_nil
    · exact ok_nil
  · unfold strAttr; split
    · exact ok_cons (mk_ok _ _ (by decide) (nz_sanitize _)) ok_nil
    · exact ok_nil

/-- **scan ∘ render ∘ export ∘ import**: the built-in parser's `next_attr` loop over the start tag that the built-in exporter
    writes for a valid object, followed by the importer's attribute handling and checks, yields the object back -/
theorem import_scan_render_export (c : Ctx) (o : ObjFields) (hv : Valid c o = true) (fuel : Nat)
    (hf : (exportAttrs c.root o).length < fuel) :
    importAttrs c (Xml.scanAttrs fuel (Xml.renderAttrs (exportAttrs c.root o))) = .ok (normalise o) := by
  rw [Xml.scanAttrs_renderAttrs _ fuel hf (fun a ha => exportAttrs_ok c o hv a ha)]
  exact importAttrs_exportAttrs c o hv

/-! ### `<info name=".." value=".."/>` child elements -/

theorem importInfo_exportInfo (n v : Bytes) : importInfo (exportInfo (n, v)) = .pair (Xml.sanitize n, Xml.sanitize v) := by
  have e1 : (b "name" = b "name") = True := by simp
  have e2 : (b "value" = b "name") = False := by simp; decide
  have e3 : (b "value" = b "value") = True := by simp
  simp [importInfo, exportInfo, infoLoop, e1, e2, e3]

theorem exportInfo_ok (n v : Bytes) : AllOk (exportInfo (n, v)) :=
  ok_cons (mk_ok _ _ (by decide) (nz_sanitize _)) (ok_cons (mk_ok _ _ (by decide) (nz_sanitize _)) ok_nil)

theorem info_scan_render (n v : Bytes) (fuel : Nat) (hf : 2 < fuel) :
    importInfo (Xml.scanAttrs fuel (Xml.renderAttrs (exportInfo (n, v)))) = .pair (Xml.sanitize n, Xml.sanitize v) := by
  rw [Xml.scanAttrs_renderAttrs _ fuel (by simpa [exportInfo] using hf) (fun a ha => exportInfo_ok n v a ha)]
  exact importInfo_exportInfo n v

end Hw.XmlObj
