/-
  Hw.Io.SyntheticFix2 — `export_fix_text` for the flag words 11, 14, 15 (NO_ATTRS | IGNORE_MEMORY plus NO_EXTENDED_TYPES
  and/or V1), for the topologies whose level names these flags do not change.
-/
import Hw.Io.SyntheticFix
namespace Hw.Syn
open Hw Hw.Topo

/-- the flag words NO_ATTRS | IGNORE_MEMORY [| NO_EXTENDED_TYPES] [| V1] -/
def fixFlagsB (fl : Nat) : Bool := fl == 10 || fl == 11 || fl == 14 || fl == 15

/-- the level's exported name is the same as under flags 10 -/
def nameStable (fl : Nat) (l : NLevel) : Bool :=
  fl == 10 || (l.type != tPACKAGE && l.type != tDIE && (fl == 14 || !isCacheT l.type))

theorem fixFlagsB_cases (fl : Nat) (hf : fixFlagsB fl = true) : fl = 10 ∨ fl = 11 ∨ fl = 14 ∨ fl = 15 := by
  unfold fixFlagsB at hf
  simp only [Bool.or_eq_true, beq_iff_eq] at hf
  rcases hf with ((h | h) | h) | h
  · exact Or.inl h
  · exact Or.inr (Or.inl h)
  · exact Or.inr (Or.inr (Or.inl h))
  · exact Or.inr (Or.inr (Or.inr h))

theorem objName_stable (fl : Nat) (l : NLevel) (hf : fixFlagsB fl = true) (hs : nameStable fl l = true) :
    objName fl l.type l.cdepth l.ctype = objName fixFlags l.type l.cdepth l.ctype := by
  have e10a : hasFlag fixFlags flagNoExt = false := by decide
  have e10b : hasFlag fixFlags flagV1 = false := by decide
  rcases fixFlagsB_cases fl hf with rfl | rfl | rfl | rfl
  · rfl
  · have a : hasFlag 11 flagNoExt = true := by decide
    unfold nameStable at hs
    simp only [show ((11 : Nat) == 10) = false by decide, show ((11 : Nat) == 14) = false by decide,
      Bool.false_or, Bool.and_eq_true, bne_iff_ne, ne_eq, Bool.not_eq_true'] at hs
    obtain ⟨⟨p, d⟩, c⟩ := hs
    have p' : (l.type == tPACKAGE) = false := by simpa using p
    have d' : (l.type == tDIE) = false := by simpa using d
    unfold objName
    simp only [a, e10a, e10b, c, p', d', Bool.false_and, Bool.and_false, Bool.or_true, Bool.or_false,
      Bool.false_eq_true, if_false, if_true]
    by_cases g : (l.type == tGROUP) = true
    · simp [g]
    · simp [g]
  · have a : hasFlag 14 flagNoExt = false := by decide
    have b : hasFlag 14 flagV1 = true := by decide
    unfold nameStable at hs
    simp only [show ((14 : Nat) == 10) = false by decide, show ((14 : Nat) == 14) = true by decide,
      Bool.false_or, Bool.true_or, Bool.and_true, Bool.and_eq_true, bne_iff_ne, ne_eq] at hs
    obtain ⟨p, d⟩ := hs
    have p' : (l.type == tPACKAGE) = false := by simpa using p
    have d' : (l.type == tDIE) = false := by simpa using d
    unfold objName
    simp only [a, b, e10a, e10b, p', d', Bool.false_and, Bool.and_false, Bool.or_true, Bool.or_false,
      Bool.false_eq_true, if_false]
  · have a : hasFlag 15 flagNoExt = true := by decide
    unfold nameStable at hs
    simp only [show ((15 : Nat) == 10) = false by decide, show ((15 : Nat) == 14) = false by decide,
      Bool.false_or, Bool.and_eq_true, bne_iff_ne, ne_eq, Bool.not_eq_true'] at hs
    obtain ⟨⟨p, d⟩, c⟩ := hs
    have p' : (l.type == tPACKAGE) = false := by simpa using p
    have d' : (l.type == tDIE) = false := by simpa using d
    unfold objName
    simp only [a, e10a, e10b, c, p', d', Bool.false_and, Bool.and_false, Bool.or_true, Bool.or_false,
      Bool.false_eq_true, if_false, if_true]
    by_cases g : (l.type == tGROUP) = true
    · simp [g]
    · simp [g]

theorem fixFlagsB_noAttrs (fl : Nat) (hf : fixFlagsB fl = true) : hasFlag fl flagNoAttrs = true := by
  rcases fixFlagsB_cases fl hf with rfl | rfl | rfl | rfl <;> decide

theorem fixFlagsB_ignoreMem (fl : Nat) (hf : fixFlagsB fl = true) : hasFlag fl flagIgnoreMem = true := by
  rcases fixFlagsB_cases fl hf with rfl | rfl | rfl | rfl <;> decide

theorem fixFlagsB_lt (fl : Nat) (hf : fixFlagsB fl = true) : ¬ fl ≥ 16 := by
  rcases fixFlagsB_cases fl hf with rfl | rfl | rfl | rfl <;> decide

theorem objChunks_fixB (fl : Nat) (hf : fixFlagsB fl = true) (ty cd : Nat) (ct : Int) (a sz : Nat) (idx : Option (List Nat)) :
    objChunks fl ty cd ct (some a) sz none idx = [str (objName fl ty cd ct) ++ (str ":" ++ decDigits a)] := by
  unfold objChunks
  have : hasFlag fl flagNoAttrs = true := fixFlagsB_noAttrs fl hf
  simp [this]

theorem go_text_flags (fl : Nat) (hf : fixFlagsB fl = true) (t : Topo) (deepest : Option Nat) :
    ∀ (ls : List NLevel) (specs : List LSpec) (j : Nat) (np : Bool) (acc : List Bytes),
    ls.all (nameStable fl) = true → specsOf ls = some specs →
    (exportChunks.go t fl deepest true ls j np acc).ok = true ∧
    text (exportChunks.go t fl deepest true ls j np acc).chunks =
      text acc ++ (if np then printLevels specs else (printLevels specs).drop 1) := by
  intro ls
  induction ls with
  | nil =>
    intro specs j np acc _ h
    simp only [specsOf, Option.some.injEq] at h
    subst h
    unfold exportChunks.go
    cases np <;> simp [printLevels]
  | cons l rest ih =>
    intro specs j np acc hst h
    simp only [List.all_cons, Bool.and_eq_true] at hst
    obtain ⟨hl, hrest⟩ := hst
    unfold specsOf at h
    split at h
    · rename_i nm r hn hr
      simp only [Option.some.injEq] at h
      subst h
      obtain ⟨_, htxt, _⟩ := nameOf_text l nm hn
      rw [← objName_stable fl l hf hl] at htxt
      unfold exportChunks.go
      simp only [objChunks_fixB fl hf, if_true, Bool.not_true, Bool.false_eq_true, if_false, List.append_nil]
      obtain ⟨i1, i2⟩ := ih r (j + 1) true (acc ++ (if np = true then [str " "] else []) ++
        [str (objName fl l.type l.cdepth l.ctype) ++ (str ":" ++ decDigits l.arity)]) hrest hr
      refine ⟨i1, ?_⟩
      rw [i2]
      simp only [text, List.flatten_append, if_true, printLevels, htxt]
      cases np <;> simp [str]
    · cases h

/-- under the four flag words the export of a name-stable topology succeeds and is the canonical description.
`hv1` mirrors the test `hasFlag flags flagV1 ∧ memLevels > 1` that `exportChunks` makes BEFORE it looks at IGNORE_MEMORY:
under V1 the export fails when NUMA nodes hang from more than one depth, even when memory is ignored. -/
theorem export_fix_text_flags (fl : Nat) (t : Topo) (specs : List LSpec) (hf : fixFlagsB fl = true)
    (hst : t.levels.all (nameStable fl) = true) (h : specsOf t.levels = some specs)
    (hv1 : hasFlag fl flagV1 = true →
      (if t.rootMem.isEmpty then 0 else 1) + (t.levels.filter (fun l => !l.mem.isEmpty)).length ≤ 1) :
    (exportChunks t fl).ok = true ∧ text (exportChunks t fl).chunks = printDesc specs := by
  unfold exportChunks
  have h1 : ¬ fl ≥ 16 := fixFlagsB_lt fl hf
  have h3 : hasFlag fl flagIgnoreMem = true := fixFlagsB_ignoreMem fl hf
  have h2 : ¬ (hasFlag fl flagV1 = true ∧
      (if t.rootMem.isEmpty then 0 else 1) + (t.levels.filter (fun l => !l.mem.isEmpty)).length > 1) := by
    intro ⟨a, b⟩
    exact Nat.lt_irrefl _ (Nat.lt_of_lt_of_le b (hv1 a))
  simp only [h1, if_false, h2, h3, if_true, Bool.not_true, List.isEmpty_nil, Bool.false_eq_true]
  have := go_text_flags fl hf t (((List.range t.levels.length).filter (fun j => !(t.levels[j]?.getD { type := 0, arity := 0 }).mem.isEmpty)).getLast?)
    t.levels specs 0 false [] hst h
  simp only [Bool.false_eq_true, if_false, text, List.flatten_nil, List.nil_append] at this
  exact ⟨this.1, this.2⟩

end Hw.Syn
